package props

import (
	"bytes"
	"fmt"

	"github.com/elastos/Elastos.ELA/common"
	"github.com/elastos/Elastos.ELA/common/config"
	"github.com/elastos/Elastos.ELA/core"
	"github.com/elastos/Elastos.ELA/core/types"
	common2 "github.com/elastos/Elastos.ELA/core/types/common"
	"github.com/elastos/Elastos.ELA/core/types/interfaces"
	"github.com/elastos/Elastos.ELA/core/types/outputpayload"
	"github.com/elastos/Elastos.ELA/core/types/payload"

	"verif/kit/node"
)

// ---------------------------------------------------------------------------
// Part C (shards >= c03BaseShards): hostile coinbase shapes in the DPoS v2 era.
//
// A real node is bootstrapped with the kit's compressed "dposv2-era" (real
// producers, committee, stake, votes; every block confirmed by the current
// arbiters) until it is past DPoSV2ActiveHeight+1, i.e. until
// checkCoinbaseTransactionContext runs its DPoS v2 branch. Even shards stay in
// DPOS consensus, odd shards first switch to POW consensus with a real
// RevertToPOW block. Per round the honest next block is assembled (NOT
// processed), its coinbase gives the exact reward vector and addresses, and a
// family of coinbase variants is derived: output counts 0..5 where every
// present output carries the EXACT value/address the node expects at that
// position, each value off by one, addresses exchanged / replaced, outputs of
// the other consensus mode. Each variant becomes a sealed, (where needed)
// confirmed block that is re-decoded from its wire bytes and delivered through
// CheckBlockSanity -> CheckBlockContext, BlockChain.ProcessBlock and
// BlockPool.AddDposBlock, each under the usual panic guard.
// ---------------------------------------------------------------------------

const c03BaseShards = 8

type c03CbVariant struct {
	name string
	outs []*common2.Output
}

func c03Out(v common.Fixed64, ph common.Uint168) *common2.Output {
	return &common2.Output{AssetID: core.ELAAssetID, Value: v, ProgramHash: ph, Type: common2.OTNone, Payload: &outputpayload.DefaultOutput{}}
}

// c03CoinbaseVariants derives the variant family from the honest outputs.
func (x *c03Run) c03CoinbaseVariants(nd *node.Node, hon []*common2.Output, round int) []c03CbVariant {
	r := x.g.r
	cfg := nd.Cfg
	var vs []c03CbVariant
	cp := func(o *common2.Output) *common2.Output { return c03Out(o.Value, o.ProgramHash) }
	pad := func(k int) []*common2.Output { // exact prefix of length k; beyond the honest vector: zero-value miner outputs
		var outs []*common2.Output
		for i := 0; i < k; i++ {
			if i < len(hon) {
				outs = append(outs, cp(hon[i]))
			} else {
				outs = append(outs, c03Out(0, nd.Miner.ProgramHash))
			}
		}
		return outs
	}
	for k := 0; k <= 5; k++ {
		vs = append(vs, c03CbVariant{fmt.Sprintf("exact-prefix-%d", k), pad(k)})
		// every value of the prefix off by one, one at a time
		for i := 0; i < k && i < 3; i++ {
			for _, d := range []common.Fixed64{-1, 1} {
				outs := pad(k)
				outs[i].Value += d
				vs = append(vs, c03CbVariant{fmt.Sprintf("prefix-%d-value%d%+d", k, i, int64(d)), outs})
			}
		}
	}
	// the missing third value moved into the second / first output (total preserved, 2 outputs)
	if len(hon) >= 3 {
		o := pad(2)
		o[1].Value += hon[2].Value
		vs = append(vs, c03CbVariant{"two-outputs-total-preserved-into-miner", o})
		o = pad(2)
		o[0].Value += hon[2].Value
		vs = append(vs, c03CbVariant{"two-outputs-total-preserved-into-cr", o})
	}
	// wrong addresses with exact values, for 2 and 3 outputs
	addrs := []common.Uint168{*cfg.CRConfiguration.CRAssetsProgramHash, *cfg.DPoSConfiguration.DPoSV2RewardAccumulateProgramHash,
		*cfg.DestroyELAProgramHash, *cfg.FoundationProgramHash, nd.Miner.ProgramHash, x.f.programHash()}
	for _, k := range []int{2, 3} {
		for i := 0; i < k; i++ {
			o := pad(k)
			o[i].ProgramHash = addrs[(round+i+k)%len(addrs)]
			vs = append(vs, c03CbVariant{fmt.Sprintf("prefix-%d-address%d-replaced", k, i), o})
		}
		if k == 3 {
			o := pad(3)
			o[0].ProgramHash, o[2].ProgramHash = o[2].ProgramHash, o[0].ProgramHash
			vs = append(vs, c03CbVariant{"prefix-3-cr-dpos-exchanged", o})
		}
		// the other consensus mode's addresses
		o := pad(k)
		if nd.InPOWMode() {
			o[0].ProgramHash = *cfg.CRConfiguration.CRAssetsProgramHash
			if k == 3 {
				o[2].ProgramHash = *cfg.DPoSConfiguration.DPoSV2RewardAccumulateProgramHash
			}
		} else {
			o[0].ProgramHash = *cfg.DestroyELAProgramHash
			if k == 3 {
				o[2].ProgramHash = *cfg.DestroyELAProgramHash
			}
		}
		vs = append(vs, c03CbVariant{fmt.Sprintf("prefix-%d-other-mode-addresses", k), o})
	}
	// random vectors of 0..5 outputs
	for k := 0; k < 3; k++ {
		n := r.Intn(6)
		var o []*common2.Output
		for i := 0; i < n; i++ {
			v := common.Fixed64(r.Int63n(1 << 40))
			if i < len(hon) && r.Intn(2) == 0 {
				v = hon[i].Value
			}
			o = append(o, c03Out(v, addrs[r.Intn(len(addrs))]))
		}
		vs = append(vs, c03CbVariant{fmt.Sprintf("random-%d-outputs", n), o})
	}
	// the exact 3-output vector is the honest coinbase and the miner address is free:
	// these two go last, because the node accepts them (and the round ends there)
	var head, tail []c03CbVariant
	for _, v := range vs {
		if v.name == "exact-prefix-3" || v.name == "prefix-3-address1-replaced" {
			tail = append(tail, v)
		} else {
			head = append(head, v)
		}
	}
	return append(head, tail...)
}

func (x *c03Run) partC() {
	c := x.c
	const eraName = "dposv2-era"
	wantPOW := (c.Shard-c03BaseShards)%2 == 1
	nd, err := node.Start(node.Options{Dir: c.WorkDir, CoinbaseMaturity: 2, Tweak: func(cfg *config.Configuration) {
		node.EraTweak(eraName)(cfg)
		cfg.CRConfiguration.DutyPeriod = 100000 // the committee (and with it DPOS consensus) lasts for the whole run
	}})
	if err != nil {
		c.Inconclusive("node start (dposv2-era): %v", err)
		return
	}
	defer nd.Close()
	defer nd.UnhookEvents()
	if _, err := nd.Bootstrap(eraName, node.BootOpts{Until: "dposv2"}); err != nil {
		c.Inconclusive("bootstrap dposv2-era: %v", err)
		return
	}
	act := nd.Arbiters.GetDPoSV2ActiveHeight()
	if act == ^uint32(0) || nd.Height() < act+1 || nd.InPOWMode() {
		c.Inconclusive("dposv2-era: not in the DPoS v2 coinbase era after bootstrap (height %d, active height %d, pow mode %v)", nd.Height(), act, nd.InPOWMode())
		return
	}
	if wantPOW {
		tipB := nd.TipBlock()
		rtx := node.RevertToPOWNoBlock(nd.Height() + 1)
		if err := nd.TxPool.AppendToTxPool(rtx); err != nil {
			c.Note("dposv2-era: mempool rejected RevertToPOW: %v", err)
		}
		if _, err := nd.MineTipAt(tipB.Timestamp+uint32(nd.Cfg.DPoSConfiguration.RevertToPOWNoBlockTime)+1, rtx); err != nil || !nd.InPOWMode() {
			c.Inconclusive("dposv2-era: switch to POW consensus failed at height %d: %v", nd.Height()+1, err)
			return
		}
		if err := nd.MineNDPoS(1); err != nil {
			c.Inconclusive("dposv2-era: mining in POW consensus: %v", err)
			return
		}
		c.Inc("C_pow_consensus_shards")
	} else {
		c.Inc("C_dpos_consensus_shards")
	}
	mode := "dpos"
	if wantPOW {
		mode = "pow"
	}
	c.Max("max:C_dposv2_active_height", int64(act))

	rounds := c.N(3, 40)
	for round := 0; round < rounds; round++ {
		if nd.InPOWMode() != wantPOW {
			c.Inconclusive("dposv2-era: consensus mode changed unexpectedly at height %d", nd.Height())
			return
		}
		honest, err := nd.AssembleTip()
		if err != nil {
			c.Inconclusive("dposv2-era: assembling the honest block at height %d: %v", nd.Height()+1, err)
			return
		}
		h := honest.Height
		if h <= act+1 {
			c.Inconclusive("dposv2-era: height %d is not above DPoSV2ActiveHeight+1 (%d)", h, act+1)
			return
		}
		hon := honest.Transactions[0].Outputs()
		if len(hon) != 3 {
			c.Note("dposv2-era/%s: honest coinbase at height %d has %d outputs", mode, h, len(hon))
		}
		prev, ok := nd.Chain.LookupNodeInIndex(&honest.Header.Previous)
		if !ok {
			c.Inconclusive("dposv2-era: tip not in the block index")
			return
		}
		for vi, v := range x.c03CoinbaseVariants(nd, hon, round) {
			// same block, other coinbase outputs
			cb := nd.CoinbaseTx(nd.Miner.Address, h, uint64(round+1)<<20|uint64(vi+1))
			cb.SetOutputs(v.outs)
			blk := &types.Block{Header: honest.Header, Transactions: append([]interfaces.Transaction{cb}, honest.Transactions[1:]...)}
			if err := node.SealDet(blk); err != nil {
				continue
			}
			var cf *payload.Confirm
			if nd.NeedsConfirm(h) {
				if cf, err = nd.ConfirmFor(blk); err != nil {
					c.Note("dposv2-era: confirm: %v", err)
					continue
				}
			}
			d := &types.DposBlock{Block: blk, HaveConfirm: cf != nil, Confirm: cf}
			buf := new(bytes.Buffer)
			if d.Serialize(buf) != nil {
				continue
			}
			raw := append([]byte{}, buf.Bytes()...)
			decode := func() *types.DposBlock {
				o := &types.DposBlock{}
				if o.Deserialize(bytes.NewReader(raw)) != nil {
					return nil
				}
				return o
			}
			d1 := decode()
			if d1 == nil {
				c.Inc("C_variant_not_decodable") // e.g. zero outputs still decodes; this stays 0 in practice
				continue
			}
			vals := []int64{}
			for _, o := range v.outs {
				vals = append(vals, int64(o.Value))
			}
			name := v.name
			id := fmt.Sprintf("C:%s:%d:%s:%v:%s", mode, h, name, vals, hx(raw[:40]))
			obj := func() map[string]interface{} {
				return map[string]interface{}{"era": eraName, "consensus": mode, "height": h, "dposv2_active_height": act, "variant": name,
					"coinbase_values": vals, "honest_values": []int64{int64(hon[0].Value), int64(hon[1].Value), int64(hon[len(hon)-1].Value)},
					"with_confirm": cf != nil, "dpos_block_hex": hx(raw)}
			}
			c.Inc("coinbase_variants_dposv2_era")
			c.Inc("C_variants_" + mode)
			exact2 := name == "exact-prefix-2"
			if exact2 {
				c.Inc("coinbase_two_outputs_exact_prefix_cases")
			}
			// (1) sanity, then context (the BlockPool's order for a block on the tip)
			var serr, cerr error
			sp := x.call("BlockChain.CheckBlockSanity", id, obj, func() { serr = nd.Chain.CheckBlockSanity(d1.Block) })
			reached := false
			if !sp && serr == nil {
				c.Inc("C_variant_sanity_pass")
				reached = true
				cp := x.call("BlockChain.CheckBlockContext", id, obj, func() { cerr = nd.Chain.CheckBlockContext(d1.Block, prev) })
				if !cp && cerr == nil {
					c.Inc("C_variant_context_pass")
				}
				if exact2 {
					c.Inc("C_two_outputs_exact_reached_context")
				}
			}
			c.Case(id, reached)
			h0 := nd.Height()
			// (2) ProcessBlock with the confirm
			if d2 := decode(); d2 != nil {
				x.call("BlockChain.ProcessBlock", id, obj, func() { nd.Chain.ProcessBlock(d2.Block, d2.Confirm) })
			}
			// (3) the p2p entry
			if d3 := decode(); d3 != nil && nd.Height() == h0 {
				x.call("BlockPool.AddDposBlock", id, obj, func() { nd.BlockPool.AddDposBlock(d3) })
			}
			if nd.Height() != h0 {
				// a variant was accepted (only the exact 3-output vector should be): carry on from the new tip
				c.Inc("C_variant_accepted:" + name)
				nd.PostBlock(blk)
				nd.Chain.UTXOCache.CleanTxCache()
				nd.BlockPool.CleanFinalConfirmedBlock(blk.Height)
				break
			}
			if round == 0 && vi < 2 && c.Shard < c03BaseShards+2 {
				c.Sample(map[string]interface{}{"kind": "C", "consensus": mode, "height": h, "variant": name, "values": vals, "sanity_err": fmt.Sprint(serr), "context_err": fmt.Sprint(cerr)})
			}
		}
		// positive control: the honest block is accepted and the chain moves on
		if nd.Height() < h {
			if _, err := nd.MineTipDPoS(); err != nil {
				c.Violate("control:honest-dposv2-block-rejected", fmt.Sprintf("%s consensus, height %d: %v", mode, h, err), nil)
				return
			}
		}
		c.Inc("C_honest_blocks_accepted")
	}
}

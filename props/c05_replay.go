package props

import (
	"fmt"
	"math/rand"

	"github.com/elastos/Elastos.ELA/common"
	"github.com/elastos/Elastos.ELA/core"
	pg "github.com/elastos/Elastos.ELA/core/contract/program"
	"github.com/elastos/Elastos.ELA/core/types"
	common2 "github.com/elastos/Elastos.ELA/core/types/common"
	"github.com/elastos/Elastos.ELA/core/types/functions"
	"github.com/elastos/Elastos.ELA/core/types/interfaces"
	"github.com/elastos/Elastos.ELA/core/types/outputpayload"
	"github.com/elastos/Elastos.ELA/core/types/payload"
	elaerr "github.com/elastos/Elastos.ELA/errors"

	"verif/kit"
	"verif/kit/node"
)

// C05, part R — program replay on one running node.
//
// "signatures verify over the transaction's unsigned bytes" must hold for the
// bytes of THIS transaction, whatever the node has verified before. Every
// single-shot negative case of parts A/B presents a witness the process has
// never seen; a validator that remembers "this (script, signature) pair was
// good" without the signed data passes all of them. Part R therefore works in
// two steps on the live node of part B:
//
//  1. a genuine, correctly signed spend tx1 of address A is verified by the
//     node (mempool admission; later also block connection);
//  2. the programs of tx1 are presented again, byte for byte,
//     (i)  on tx2 that spends ANOTHER output of A (to somebody else), and
//     (ii) on tx1' = tx1 with changed signed content (output value / lock
//          time / destination) below the unchanged witness,
//     each through AppendToTxPool and inside a block.
//
// Oracle: the independent model (c05LiveModel over the unsigned bytes of the
// re-presenting transaction) says "no valid witness"; acceptance is a
// violation program-replay-accepted:<other-utxo|mutated-content>:<mempool|block>.
// Positive controls: tx1 itself is accepted by the mempool and mined.

var c05ReplayRequire = []string{"program_replay_rounds", "program_replay_cases", "program_replay_rejected", "program_replay_rejected_at_signature_step",
	"program_replay_genuine_verified:mempool", "program_replay_genuine_verified:block",
	"program_replay_cases:other-utxo:mempool", "program_replay_cases:other-utxo:block",
	"program_replay_cases:mutated-content:mempool", "program_replay_cases:mutated-content:block",
	"program_replay_kind:standard", "program_replay_kind:multisig", "program_replay_kind:schnorr"}

// kinds of funded addresses that take part (bound by code hash, honest witness possible)
func c05ReplayEligible(a *c05Addr) bool {
	switch a.kind {
	case "standard", "multisig", "std-prefix-multisig", "schnorr":
		return true
	}
	return false
}

type c05Replay struct {
	c    *kit.Ctx
	nd   *node.Node
	g    *c05Gen
	r    *rand.Rand
	dest common.Uint168
	rep  map[*c05Addr][]*c05Utxo
}

func (p *c05Replay) take(a *c05Addr) *c05Utxo {
	for _, u := range p.rep[a] {
		if !u.used {
			return u
		}
	}
	return nil
}

func (p *c05Replay) mkTx(ins []*c05Utxo, to common.Uint168, fee common.Fixed64, lock uint32) interfaces.Transaction {
	var inputs []*common2.Input
	var total common.Fixed64
	for _, u := range ins {
		inputs = append(inputs, &common2.Input{Previous: common2.OutPoint{TxID: u.ref.TxID, Index: u.ref.Index}})
		total += u.ref.Value
	}
	nonce := make([]byte, 8)
	p.r.Read(nonce)
	outputs := []*common2.Output{{AssetID: core.ELAAssetID, Value: total - fee, ProgramHash: to, Type: common2.OTNone, Payload: &outputpayload.DefaultOutput{}}}
	return functions.CreateTransaction(common2.TxVersion09, common2.TransferAsset, 0, &payload.TransferAsset{},
		[]*common2.Attribute{{Usage: common2.Nonce, Data: nonce}}, inputs, outputs, lock, []*pg.Program{})
}

func c05CopyPrograms(ps []*pg.Program) []*pg.Program {
	var out []*pg.Program
	for _, q := range ps {
		out = append(out, &pg.Program{Code: append([]byte{}, q.Code...), Parameter: append([]byte{}, q.Parameter...)})
	}
	return out
}

func (p *c05Replay) evict(tx interfaces.Transaction) bool {
	p.nd.TxPool.CleanSubmittedTransactions(&types.Block{Transactions: []interfaces.Transaction{tx}})
	if p.nd.TxPool.HaveTransaction(tx.Hash()) {
		p.c.Inconclusive("R: could not evict a transaction from the mempool")
		return false
	}
	return true
}

// present runs one re-presentation through one entry point and judges it.
// It returns true when the node accepted it.
func (p *c05Replay) present(kind, where string, tx interfaces.Transaction, spent []*c05Addr, genuineOf string) bool {
	c := p.c
	var mas [][21]byte
	var kinds []string
	for _, a := range spent {
		mas = append(mas, [21]byte(a.hash))
		kinds = append(kinds, a.kind)
	}
	var mps []mProg
	for _, q := range tx.Programs() {
		mps = append(mps, mProg{Code: q.Code, Param: q.Parameter})
	}
	data := c05Serialize(tx)
	if ok, _ := c05LiveModel(mas, mps, data); ok {
		// cannot happen for a re-presented witness unless the content did not change
		c.Inc("program_replay_model_accepts")
		return false
	}
	h := tx.Hash()
	c.Begin("R %s %s kinds=%v", kind, where, kinds)
	c.Case(fmt.Sprintf("R:%s:%s:%s", kind, where, h.String()), true)
	c.Inc("program_replay_cases")
	c.Inc("program_replay_cases:" + kind + ":" + where)
	accepted := false
	switch where {
	case "mempool":
		var aerr elaerr.ELAError
		panicked, _, _ := kit.Guard(func() { aerr = p.nd.TxPool.AppendToTxPool(tx) })
		accepted = !panicked && aerr == nil
		if !accepted && aerr != nil && aerr.Code() == elaerr.ErrTxSignature {
			c.Inc("program_replay_rejected_at_signature_step")
		} else if !accepted && aerr != nil {
			c.Inc(fmt.Sprintf("program_replay_rejected_elsewhere:%d", int(aerr.Code())))
			c.Note("R: %s %s kinds=%v refused before/after the signature step: %v", kind, where, kinds, aerr)
		}
	case "block":
		tip := p.nd.Tip()
		var err error
		panicked, _, _ := kit.Guard(func() { _, err = p.nd.MineTip(tx) })
		accepted = !panicked && err == nil && !p.nd.Tip().IsEqual(tip)
	}
	if !accepted {
		c.Inc("program_replay_rejected")
		return false
	}
	c.Inc("program_replay_ACCEPTED")
	c.Violate("program-replay-accepted:"+kind+":"+where,
		fmt.Sprintf("the %s accepted a TransferAsset (spent address kinds %v) whose programs are a byte-for-byte copy of the programs of %s, a different transaction the node verified earlier in this process; the signatures do not verify over this transaction's unsigned bytes",
			where, kinds, genuineOf),
		map[string]interface{}{"kind": kind, "where": where, "kinds": kinds, "programs_copied_from_tx": genuineOf, "tx_unsigned": c05Hex(data), "tx": h.String()})
	return true
}

func c05ProgramReplay(c *kit.Ctx, nd *node.Node, g *c05Gen, addrs []*c05Addr, rep map[*c05Addr][]*c05Utxo, dest common.Uint168) {
	p := &c05Replay{c: c, nd: nd, g: g, r: c.Rand("c05-replay"), dest: dest, rep: rep}
	thief := node.Key(31).ProgramHash
	var elig []*c05Addr
	for _, a := range addrs {
		if c05ReplayEligible(a) && len(rep[a]) > 0 {
			elig = append(elig, a)
		}
	}
	if len(elig) == 0 {
		return
	}
	rounds := c.N(2*len(elig)/3+1, 3*len(elig))
	for i := 0; i < rounds; i++ {
		a := elig[(i+2*c.Shard)%len(elig)]
		u1 := p.take(a)
		if u1 == nil {
			continue
		}
		u1.used = true
		u2 := p.take(a)
		if u2 == nil {
			u1.used = false
			continue
		}
		u2.used = true
		c.Inc("program_replay_rounds")
		kd := a.kind
		switch kd {
		case "std-prefix-multisig":
			kd = "multisig"
		}
		c.Inc("program_replay_kind:" + kd)
		// sometimes a second address signs along (its program is re-presented too)
		spent := []*c05Addr{a}
		ins1, ins2 := []*c05Utxo{u1}, []*c05Utxo{u2}
		if i%4 == 3 {
			b := elig[p.r.Intn(len(elig))]
			if b != a {
				if v1 := p.take(b); v1 != nil {
					v1.used = true
					if v2 := p.take(b); v2 != nil {
						v2.used = true
						spent = append(spent, b)
						ins1, ins2 = append(ins1, v1), append(ins2, v2)
					} else {
						v1.used = false
					}
				}
			}
		}
		fee := common.Fixed64(1000 + p.r.Intn(1000))
		// ---- step 1: the genuine transaction, verified on mempool admission ----
		tx1 := p.mkTx(ins1, dest, fee, 0)
		data1 := c05Serialize(tx1)
		var progs []*pg.Program
		for _, s := range spent {
			progs = append(progs, &pg.Program{Code: s.code, Parameter: g.honestParam(s, data1)})
		}
		c05Exact(progs)
		tx1.SetPrograms(progs)
		h1 := tx1.Hash()
		if err := nd.TxPool.AppendToTxPool(tx1); err != nil {
			c.Note("R: genuine spend of kind %s refused by the mempool: %v", a.kind, err)
			c.Inc("program_replay_genuine_refused")
			continue
		}
		c.Inc("program_replay_genuine_verified:mempool")

		// ---- (ii) the same transaction with changed signed content below the unchanged witness ----
		mutate := func() interfaces.Transaction {
			var t interfaces.Transaction
			switch p.r.Intn(3) {
			case 0: // one sela less to the destination
				t = p.mkTx(ins1, dest, fee+1, 0)
			case 1: // another lock time
				t = p.mkTx(ins1, dest, fee, 1+uint32(p.r.Intn(1000)))
			default: // everything to somebody else
				t = p.mkTx(ins1, thief, fee, 0)
			}
			t.SetAttributes(tx1.Attributes())
			if p.r.Intn(2) == 0 {
				n := make([]byte, 8)
				p.r.Read(n)
				t.SetAttributes([]*common2.Attribute{{Usage: common2.Nonce, Data: n}})
			}
			t.SetPrograms(c05CopyPrograms(tx1.Programs()))
			return t
		}
		mined1 := false
		// mempool path: tx1 has to leave the pool first (its inputs would conflict there after the signature step)
		viaPool := func() bool {
			if !p.evict(tx1) {
				return false
			}
			if tm := mutate(); p.present("mutated-content", "mempool", tm, spent, h1.String()) {
				if !p.evict(tm) {
					return false
				}
			}
			if err := nd.TxPool.AppendToTxPool(tx1); err != nil {
				c.Note("R: genuine spend refused on re-submission: %v", err)
			}
			return true
		}
		if i%2 == 1 && !viaPool() {
			return
		}
		if tm := mutate(); p.present("mutated-content", "block", tm, spent, h1.String()) {
			mined1 = true // the inputs of tx1 are gone
		}
		if !mined1 {
			if i%2 == 0 && !viaPool() {
				return
			}
			// the genuine transaction, now through a block as well
			if _, err := nd.MineTip(tx1); err != nil {
				c.Note("R: block with the genuine spend refused: %v", err)
				for _, u := range ins2 {
					u.used = false
				}
				continue
			}
			c.Inc("program_replay_genuine_verified:block")
		}

		// ---- (i) the witness of tx1 on another transaction spending other outputs of the same addresses ----
		mk2 := func() interfaces.Transaction {
			to := thief
			if p.r.Intn(4) == 0 {
				to = dest
			}
			t := p.mkTx(ins2, to, fee, 0)
			if p.r.Intn(2) == 0 { // even with the same nonce attribute and amounts as tx1
				t.SetAttributes(tx1.Attributes())
			}
			t.SetPrograms(c05CopyPrograms(tx1.Programs()))
			return t
		}
		if t2 := mk2(); p.present("other-utxo", "mempool", t2, spent, h1.String()) {
			if !p.evict(t2) {
				return
			}
		}
		if t2 := mk2(); !p.present("other-utxo", "block", t2, spent, h1.String()) {
			for _, u := range ins2 {
				u.used = false
			}
		}
	}
}

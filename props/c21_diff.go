package props

import (
	"encoding/hex"
	"fmt"
	"reflect"
	"sort"
	"sync"

	crstate "github.com/elastos/Elastos.ELA/cr/state"
	"github.com/elastos/Elastos.ELA/dpos/state"
)

// c21Snap is everything the oracle compares between two instances.
//
//	CheckPoint: the package's own full-state serialisation (CheckPoint.Snapshot
//	  = initFromArbitrators + Serialize + Deserialize), compared as decoded
//	  structures (maps as maps).
//	The remaining fields are state that decides future arbiter sets but is not
//	  part of the serialised checkpoint, and the two public getters named by
//	  the property.
type c21Snap struct {
	CheckPoint             *state.CheckPoint
	LastIrreversibleHeight uint32
	ConsensusAlgorithm     string
	Degradation            c21Degradation
	HistoryHeight          c21HistHeights
	CRMember               map[string]c21CRMember
}

type c21Degradation struct {
	State             byte
	UnderstaffedSince uint32
	InactivateHeight  uint32
	InactiveTxs       int
}

type c21HistHeights struct{ Arbiters, State uint32 }

type c21CRMember struct {
	MemberState            string
	InactiveCount          uint32
	InactiveCountingHeight uint32
	InactiveCountV2        uint32
	WorkedInRound          bool
	DPOSPublicKey          []byte
	InCommittee            bool
}

func (in *c21Inst) snapshot() (*c21Snap, error) {
	cp, ok := state.NewCheckpoint(in.arb).Snapshot().(*state.CheckPoint)
	if !ok || cp == nil {
		return nil, fmt.Errorf("CheckPoint.Snapshot failed (serialise/deserialise error)")
	}
	s := &c21Snap{CheckPoint: cp,
		LastIrreversibleHeight: in.arb.GetLastIrreversibleHeight(),
		ConsensusAlgorithm:     in.arb.GetConsensusAlgorithm().String(),
		CRMember:               map[string]c21CRMember{}}
	s.Degradation.State, s.Degradation.UnderstaffedSince, s.Degradation.InactivateHeight, s.Degradation.InactiveTxs = in.arb.VerifDegradation()
	s.HistoryHeight.Arbiters, s.HistoryHeight.State = in.arb.VerifHistoryHeights()
	for i, m := range in.members {
		_, inC := in.com.Members[m.Info.DID]
		ms := m.MemberState
		s.CRMember[fmt.Sprintf("cr-%d", i)] = c21CRMember{MemberState: (&ms).String(), InactiveCount: m.InactiveCount,
			InactiveCountingHeight: m.InactiveCountingHeight, InactiveCountV2: m.InactiveCountV2, WorkedInRound: m.WorkedInRound,
			DPOSPublicKey: m.DPOSPublicKey, InCommittee: inC}
	}
	return s, nil
}

var _ = crstate.MemberElected

// c21Diff is one differing leaf.
type c21Diff struct {
	Class string `json:"class"` // "<Type>.<Field>"
	Path  string `json:"path"`
	A     string `json:"rolled_back"`
	B     string `json:"direct"`
}

type c21Differ struct {
	out   []c21Diff
	limit int
}

var c21ClassRename = map[string]string{"c21Snap.": "Getter.", "c21Degradation.": "degradation.", "c21HistHeights.": "History.", "c21CRMember.": "CRMember."}

func (d *c21Differ) add(class, path, a, b string) {
	for k, v := range c21ClassRename {
		if len(class) > len(k) && class[:len(k)] == k {
			class = v + class[len(k):]
		}
	}
	if len(d.out) < d.limit {
		d.out = append(d.out, c21Diff{class, path, a, b})
	}
}

func isByteSeq(t reflect.Type) bool {
	return (t.Kind() == reflect.Slice || t.Kind() == reflect.Array) && t.Elem().Kind() == reflect.Uint8
}

func byteSeqHex(v reflect.Value) string {
	n := v.Len()
	b := make([]byte, n)
	for i := 0; i < n; i++ {
		b[i] = byte(v.Index(i).Uint())
	}
	return hex.EncodeToString(b)
}

// scalarString renders a leaf (works on unexported fields: only kind getters).
func scalarString(v reflect.Value) string {
	switch v.Kind() {
	case reflect.Bool:
		return fmt.Sprint(v.Bool())
	case reflect.Int, reflect.Int8, reflect.Int16, reflect.Int32, reflect.Int64:
		return fmt.Sprint(v.Int())
	case reflect.Uint, reflect.Uint8, reflect.Uint16, reflect.Uint32, reflect.Uint64, reflect.Uintptr:
		return fmt.Sprint(v.Uint())
	case reflect.Float32, reflect.Float64:
		return fmt.Sprint(v.Float())
	case reflect.String:
		return v.String()
	}
	if isByteSeq(v.Type()) {
		return byteSeqHex(v)
	}
	return "<" + v.Kind().String() + ">"
}

func keyString(k reflect.Value) string {
	if isByteSeq(k.Type()) {
		s := byteSeqHex(k)
		if len(s) > 16 {
			s = s[:16] + ".."
		}
		return s
	}
	s := scalarString(k)
	if len(s) > 20 {
		s = s[:8] + ".." + s[len(s)-8:]
	}
	return s
}

func summary(v reflect.Value) string {
	for v.Kind() == reflect.Ptr || v.Kind() == reflect.Interface {
		if v.IsNil() {
			return "<nil>"
		}
		v = v.Elem()
	}
	switch v.Kind() {
	case reflect.Struct:
		return "<" + v.Type().Name() + ">"
	case reflect.Map, reflect.Slice:
		if isByteSeq(v.Type()) {
			return byteSeqHex(v)
		}
		return fmt.Sprintf("<%d entries>", v.Len())
	}
	return scalarString(v)
}

// walk compares a (rolled back) against b (direct). class is the
// "<Type>.<Field>" of the closest enclosing named struct field.
func (d *c21Differ) walk(a, b reflect.Value, class, path string) {
	if len(d.out) >= d.limit {
		return
	}
	if a.Type() != b.Type() {
		d.add(class, path, a.Type().String(), b.Type().String())
		return
	}
	switch a.Kind() {
	case reflect.Ptr, reflect.Interface:
		if a.IsNil() || b.IsNil() {
			if a.IsNil() != b.IsNil() {
				d.add(class, path, summary(a), summary(b))
			}
			return
		}
		ae, be := a.Elem(), b.Elem()
		if ae.Type() != be.Type() {
			d.add(class, path, ae.Type().String(), be.Type().String())
			return
		}
		d.walk(ae, be, class, path)
	case reflect.Struct:
		t := a.Type()
		for i := 0; i < t.NumField(); i++ {
			f := t.Field(i)
			switch f.Name {
			case "arbitrators", "mtx", "hash":
				continue
			}
			if f.Type.Kind() == reflect.Func || f.Type.Kind() == reflect.Chan {
				continue
			}
			cl := t.Name() + "." + f.Name
			if f.Anonymous {
				cl = class
			}
			p := path + "." + f.Name
			if path == "" {
				p = f.Name
			}
			d.walk(a.Field(i), b.Field(i), cl, p)
		}
	case reflect.Map:
		keys := map[string][2]reflect.Value{}
		for _, k := range a.MapKeys() {
			e := keys[keyString(k)]
			e[0] = a.MapIndex(k)
			keys[keyString(k)] = e
		}
		for _, k := range b.MapKeys() {
			e := keys[keyString(k)]
			e[1] = b.MapIndex(k)
			keys[keyString(k)] = e
		}
		names := make([]string, 0, len(keys))
		for k := range keys {
			names = append(names, k)
		}
		sort.Strings(names)
		for _, k := range names {
			e := keys[k]
			p := path + "[" + k + "]"
			switch {
			case !e[0].IsValid():
				d.add(class, p, "<absent>", summary(e[1]))
			case !e[1].IsValid():
				d.add(class, p, summary(e[0]), "<absent>")
			default:
				d.walk(e[0], e[1], class, p)
			}
		}
	case reflect.Slice, reflect.Array:
		if isByteSeq(a.Type()) {
			if x, y := byteSeqHex(a), byteSeqHex(b); x != y {
				d.add(class, path, x, y)
			}
			return
		}
		if a.Len() != b.Len() {
			d.add(class, path+".len", fmt.Sprint(a.Len()), fmt.Sprint(b.Len()))
		}
		n := a.Len()
		if b.Len() < n {
			n = b.Len()
		}
		for i := 0; i < n; i++ {
			d.walk(a.Index(i), b.Index(i), class, fmt.Sprintf("%s[%d]", path, i))
		}
	default:
		if x, y := scalarString(a), scalarString(b); x != y {
			d.add(class, path, x, y)
		}
	}
}

var (
	c21ZeroEntryMu sync.Mutex
	c21ZeroEntry   = map[string]int64{}
)

// c21Compare returns the differing leaves between the rolled-back and the
// directly built snapshot.
//
// Two normalisations:
//   - StateKeyFrame.NeedRevertToDPOSTX is not block-derived (the DPoS manager
//     sets it through SetNeedRevertToDPOSTX when enough arbiters are online),
//     so it is not compared;
//   - a map entry that holds a zero amount / an empty list on one side and is
//     absent on the other gets the class suffix "(zero-entry)": rollbacks that
//     subtract leave such entries behind, which changes the serialised bytes
//     but no decision taken from the state.
func c21Compare(rolled, direct *c21Snap) []c21Diff {
	d := &c21Differ{limit: 400}
	d.walk(reflect.ValueOf(rolled).Elem(), reflect.ValueOf(direct).Elem(), "Snap", "")
	out := d.out[:0]
	for _, x := range d.out {
		if x.Class == "StateKeyFrame.NeedRevertToDPOSTX" {
			continue
		}
		zero := func(s string) bool { return s == "0" || s == "<0 entries>" }
		if (zero(x.A) && x.B == "<absent>") || (zero(x.B) && x.A == "<absent>") {
			// counted, not judged: the entry is observationally a zero either way
			c21ZeroEntryMu.Lock()
			c21ZeroEntry[x.Class]++
			c21ZeroEntryMu.Unlock()
			continue
		}
		out = append(out, x)
	}
	return out
}

// classesOf groups diffs by class (sorted), keeping the first example of each.
func classesOf(ds []c21Diff) ([]string, map[string]c21Diff) {
	first := map[string]c21Diff{}
	for _, x := range ds {
		if _, ok := first[x.Class]; !ok {
			first[x.Class] = x
		}
	}
	var names []string
	for k := range first {
		names = append(names, k)
	}
	sort.Strings(names)
	return names, first
}

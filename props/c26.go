package props

import (
	"fmt"
	"math"
	"math/rand"
	"sort"
	"time"

	dposlog "github.com/elastos/Elastos.ELA/dpos/log"
	"github.com/elastos/Elastos.ELA/dpos/manager"

	"verif/kit"
)

// C26 — the view-change schedule must not depend on how often it is
// evaluated: ChangeView/ChangeViewV1 evaluated once at T must give the same
// (view offset, view start time) as evaluating at t1<...<tk<=T and then at T,
// each evaluation carrying (offset, start) forward exactly as the real
// methods do; and the one-shot offset must be non-decreasing in T.
//
// The real, unexported view methods run on a bare `view` (hook:
// dpos/manager/verif_export.go) with a stub arbiter set that only answers
// GetArbitersCount / GetNextOnDutyArbitrator. No clock is read anywhere: every
// "now" is an argument.

func init() {
	kit.Register(&kit.Spec{
		ID:     "C26",
		Rule:   "case = (rule V0|V1, arbiter count 1..72, own arbiter index 0..n-1, start offset 0..5n, signTolerance 1..10 s, start instant, final instant T in [0,3h] placed uniformly or within +-1 ns of a view boundary, poll schedule: none/uniform/bursty/one per boundary +-1 ns, 1..200 polls). distinct = distinct parameter tuple + schedule; non-trivial = at least one intermediate poll changed the view and T is past the first boundary",
		Shards: func(tier string) int { return 8 },
		Run:    runC26,
		Require: []string{"v0_cases", "v1_cases", "fold_equal_v0", "fold_equal_v1", "polls_that_changed_view", "cases_offset_beyond_round",
			"cases_start_offset_beyond_round", "boundary_exact_T", "boundary_minus_1ns_T", "boundary_plus_1ns_T", "monotone_pairs_checked",
			"schedule_uniform", "schedule_bursty", "schedule_boundary", "max:polls", "max:final_offset",
			"cases_self_on_duty_mid_view", "cases_self_on_duty_mid_view_first_round"},
		Assumptions: []string{
			"the judged evaluation is ChangeView/ChangeViewV1 (what Consensus.ChangeView calls); the gated TryChangeView* variants are recorded, not judged",
			"arbiter count is constant between the evaluations of one case",
		},
	})
}

// reference lengths used ONLY to place instants near boundaries and to label
// a divergence; never for the verdict.
func c26LenLoop(o, n uint32) time.Duration {
	if o < n {
		return 5 * time.Second
	}
	return time.Duration(5+(o-n)*3*uint32(math.Pow(20, float64(o/n)))) * time.Second
}

func c26LenFirst(o, n uint32) time.Duration {
	if o < n {
		return 5 * time.Second
	}
	return time.Duration(5+(1+o-n)*3*uint32(math.Pow(20, float64(o/n)))) * time.Second
}

// c26RefV1 folds with a single length function (firstLen for the carried-in
// view, loopLen afterwards).
func c26RefV1(o uint32, d time.Duration, n uint32, consistent bool) (uint32, time.Duration) {
	l := c26LenFirst(o, n)
	if consistent {
		l = c26LenLoop(o, n)
	}
	for d >= l {
		o++
		d -= l
		l = c26LenLoop(o, n)
	}
	return o, d
}

// c26KnownV1 folds the schedule exactly as the recorded defect
// (viewchange:v1-first-step-vs-loop) predicts: first length for the carried-in
// view, loop length afterwards, start moved only when the offset changes. It
// is used ONLY to decide whether an observed divergence is that finding or a
// different one; the verdict itself compares two runs of the real code.
func c26KnownV1(cs *c26Case, times []int64) c26Result {
	o, s := cs.Off0, int64(0)
	for _, t := range times {
		o2, rem := c26RefV1(o, time.Duration(t-s), uint32(cs.N), false)
		if o2 != o {
			o, s = o2, t-int64(rem)
		}
	}
	return c26Result{Off: o, Start: s}
}

type c26Case struct {
	Rule   int           `json:"rule"`
	N      int           `json:"arbiters"`
	Self   int           `json:"self_index"` // which arbiter the evaluating node is (on duty when offset % n == self)
	Off0   uint32        `json:"start_offset"`
	Tol    time.Duration `json:"sign_tolerance_ns"`
	Start  int64         `json:"start_unix_ns"`
	T      int64         `json:"T_rel_ns"`
	Polls  []int64       `json:"polls_rel_ns"`
	Sched  string        `json:"schedule"`
	TPlace string        `json:"T_placement"`
}

// boundaries (relative ns) of the one-shot schedule from (off0, start) up to limit
func c26Boundaries(rule int, off0 uint32, n uint32, tol time.Duration, limit time.Duration, max int) []time.Duration {
	var bs []time.Duration
	var acc time.Duration
	o := off0
	for len(bs) < max {
		var l time.Duration
		if rule == 0 {
			l = tol
		} else {
			l = c26LenLoop(o, n)
			if o == off0 {
				l = c26LenFirst(o, n)
			}
		}
		acc += l
		if acc > limit || l <= 0 {
			break
		}
		bs = append(bs, acc)
		o++
	}
	return bs
}

func c26Gen(r *rand.Rand, rule int) *c26Case {
	cs := &c26Case{Rule: rule}
	cs.N = 1 + r.Intn(72)
	if r.Intn(4) == 0 {
		cs.N = []int{1, 2, 12, 36, 72}[r.Intn(5)]
	}
	n := uint32(cs.N)
	cs.Self = r.Intn(cs.N)
	switch r.Intn(4) {
	case 0:
		cs.Off0 = 0
	case 1:
		cs.Off0 = uint32(r.Intn(cs.N)) // inside the first round
	case 2:
		cs.Off0 = n - 1 + uint32(r.Intn(3)) // around the round boundary
	default:
		cs.Off0 = uint32(r.Intn(5*cs.N + 1))
	}
	cs.Tol = time.Duration(1+r.Intn(10)) * time.Second
	if r.Intn(2) == 0 {
		cs.Tol = 5 * time.Second // the shipped value
	}
	cs.Start = 1600000000*int64(time.Second) + r.Int63n(int64(time.Hour))
	limit := 3 * time.Hour
	bs := c26Boundaries(rule, cs.Off0, n, cs.Tol, limit, 4000)
	// final instant
	switch k := r.Intn(6); {
	case k == 0 || len(bs) == 0:
		cs.T = r.Int63n(int64(limit) + 1)
		cs.TPlace = "uniform"
	case k == 1:
		cs.T = r.Int63n(int64(10*time.Minute) + 1)
		cs.TPlace = "uniform-short"
	default:
		// at / around a boundary; bias to early boundaries
		bi := r.Intn(len(bs))
		if r.Intn(2) == 0 {
			bi = r.Intn(1 + bi)
		}
		d := int64(r.Intn(3) - 1)
		cs.T = int64(bs[bi]) + d
		cs.TPlace = [...]string{"boundary-1ns", "boundary", "boundary+1ns"}[d+1]
		if r.Intn(4) == 0 {
			cs.T += r.Int63n(int64(4 * time.Second))
			cs.TPlace = "boundary+few-s"
		}
	}
	if cs.T < 0 {
		cs.T = 0
	}
	// polls strictly inside (0, T]
	np := 1 + r.Intn(200)
	if r.Intn(3) == 0 {
		np = 1 + r.Intn(4)
	}
	set := map[int64]bool{}
	add := func(t int64) {
		if t > 0 && t <= cs.T {
			set[t] = true
		}
	}
	switch r.Intn(4) {
	case 0:
		cs.Sched = "uniform"
		if cs.T > 0 {
			step := cs.T / int64(np+1)
			for i := 1; i <= np; i++ {
				add(step * int64(i))
			}
		}
	case 1:
		cs.Sched = "bursty"
		for len(set) < np && cs.T > 0 {
			c0 := r.Int63n(cs.T + 1)
			b := 1 + r.Intn(8)
			for j := 0; j < b; j++ {
				add(c0 + r.Int63n(int64(2*time.Second)))
			}
			if r.Intn(50) == 0 {
				break
			}
		}
	case 2:
		cs.Sched = "boundary"
		for i := 0; i < len(bs) && len(set) < np; i++ {
			if int64(bs[i]) > cs.T+1 {
				break
			}
			if r.Intn(3) == 0 {
				continue
			}
			add(int64(bs[i]) + int64(r.Intn(3)-1))
		}
	default:
		cs.Sched = "random"
		for i := 0; i < np && cs.T > 0; i++ {
			add(r.Int63n(cs.T + 1))
		}
	}
	for t := range set {
		cs.Polls = append(cs.Polls, t)
	}
	sort.Slice(cs.Polls, func(i, j int) bool { return cs.Polls[i] < cs.Polls[j] })
	return cs
}

type c26Result struct {
	Off   uint32
	Start int64 // relative to cs.Start
}

// c26OnDutyMidView counts intermediate evaluations after which the evaluating
// node itself was on duty with a non-zero remainder inside the new view
// (written only by the ungated folded evaluation of the current case).
var c26OnDutyMidView int

func c26Eval(cs *c26Case, times []int64, gated bool) (res c26Result, changed int, carriedBeyondRound bool) {
	start := time.Unix(0, cs.Start)
	v := manager.VerifNewView(cs.N, cs.Tol, start, cs.Off0, byte(cs.Self))
	for i, t := range times {
		now := start.Add(time.Duration(t))
		before := v.Offset
		switch {
		case cs.Rule == 0 && !gated:
			v.ChangeView(now)
		case cs.Rule == 0 && gated:
			v.TryChangeView(now)
		case cs.Rule == 1 && !gated:
			v.ChangeViewV1(now)
		default:
			v.TryChangeViewV1(now)
		}
		if i < len(times)-1 {
			if v.Offset != before {
				changed++
				if !gated && v.OnDuty() && !v.Start().Equal(now) {
					c26OnDutyMidView++
				}
			}
			if v.Offset >= uint32(cs.N) {
				carriedBeyondRound = true
			}
		}
	}
	return c26Result{Off: v.Offset, Start: v.Start().Sub(start).Nanoseconds()}, changed, carriedBeyondRound
}

func runC26(c *kit.Ctx) {
	dposlog.Init(c.WorkDir, 5, 0, 0) // silence the dpos logger (ChangeView logs)
	r := c.Rand("c26")
	n := c.N(6250, 250000) // per shard; x8 shards = 50 k / 2 M schedules

	// directed witness for the suspected V1 defect (every shard 0)
	if c.Shard == 0 {
		cs := &c26Case{Rule: 1, N: 12, Off0: 0, Tol: 5 * time.Second, Start: 1600000000 * int64(time.Second),
			T: int64(75 * time.Second), Polls: []int64{int64(62 * time.Second)}, Sched: "directed", TPlace: "directed"}
		c26Check(c, cs)
		c.Inc("directed_cases")
	}
	for i := 0; i < n; i++ {
		cs := c26Gen(r, i%2)
		c26Check(c, cs)
	}
}

func c26Check(c *kit.Ctx, cs *c26Case) {
	ruleName := fmt.Sprintf("v%d", cs.Rule)
	var panicked bool
	var pv interface{}
	var one, fold c26Result
	var changed int
	var beyond bool
	panicked, pv, _ = kit.Guard(func() {
		one, _, _ = c26Eval(cs, []int64{cs.T}, false)
		c26OnDutyMidView = 0
		fold, changed, beyond = c26Eval(cs, append(append([]int64(nil), cs.Polls...), cs.T), false)
	})
	if c26OnDutyMidView > 0 {
		c.Inc("cases_self_on_duty_mid_view")
		if fold.Off < uint32(cs.N) {
			c.Inc("cases_self_on_duty_mid_view_first_round")
		}
	}
	id := fmt.Sprintf("%d|%d|%d|%d|%d|%d|%d|%v", cs.Rule, cs.N, cs.Self, cs.Off0, cs.Tol, cs.Start, cs.T, cs.Polls)
	if panicked {
		c.Violate("viewchange:"+ruleName+"-panic", fmt.Sprintf("panic %v", pv), cs)
		c.Case(id, false)
		return
	}
	c.Inc(ruleName + "_cases")
	c.Count("polls_that_changed_view", int64(changed))
	c.Max("max:polls", int64(len(cs.Polls)))
	c.Max("max:final_offset", int64(one.Off))
	c.Inc("schedule_" + cs.Sched)
	switch cs.TPlace {
	case "boundary":
		c.Inc("boundary_exact_T")
	case "boundary-1ns":
		c.Inc("boundary_minus_1ns_T")
	case "boundary+1ns":
		c.Inc("boundary_plus_1ns_T")
	}
	if one.Off >= uint32(cs.N) {
		c.Inc("cases_offset_beyond_round")
	}
	if cs.Off0 >= uint32(cs.N) {
		c.Inc("cases_start_offset_beyond_round")
	}
	c.Case(id, changed > 0 && one.Off > cs.Off0)

	if one == fold {
		c.Inc("fold_equal_" + ruleName)
	} else {
		sig := "viewchange:" + ruleName + "-fold-differs"
		note := ""
		if cs.Rule == 1 {
			// label: does a schedule with ONE length function (loop formula
			// also for the carried-in view) make the two evaluations agree,
			// and did an intermediate evaluation carry an offset >= n?
			co, cd := c26RefV1(cs.Off0, time.Duration(cs.T), uint32(cs.N), true)
			kOne := c26KnownV1(cs, []int64{cs.T})
			kFold := c26KnownV1(cs, append(append([]int64(nil), cs.Polls...), cs.T))
			if (beyond || cs.Off0 >= uint32(cs.N)) && one.Off >= uint32(cs.N) && kOne == one && kFold == fold {
				sig = "viewchange:v1-first-step-vs-loop"
				c.Inc("diag_v1_carried_offset_beyond_round")
			}
			note = fmt.Sprintf(" (reference with a single length function: offset %d remainder %v)", co, cd)
		}
		c.Violate(sig, fmt.Sprintf("%s n=%d startOffset=%d signTolerance=%v T=start+%v polls=%d [%s]: one-shot -> offset %d, viewStart=start+%v ; folded over polls -> offset %d, viewStart=start+%v ; on-duty index %d vs %d%s",
			ruleName, cs.N, cs.Off0, cs.Tol, time.Duration(cs.T), len(cs.Polls), cs.Sched, one.Off, time.Duration(one.Start), fold.Off, time.Duration(fold.Start),
			one.Off%uint32(cs.N), fold.Off%uint32(cs.N), note), cs)
	}

	// monotonicity of the one-shot evaluation in T (over the poll instants and T)
	prev := uint32(0)
	first := true
	ts := append(append([]int64(nil), cs.Polls...), cs.T)
	if len(ts) > 24 { // bound the cost: a spread subset
		step := len(ts) / 24
		var sub []int64
		for i := 0; i < len(ts); i += step {
			sub = append(sub, ts[i])
		}
		ts = append(sub, cs.T)
	}
	for _, t := range ts {
		res, _, _ := c26Eval(cs, []int64{t}, false)
		if !first {
			c.Inc("monotone_pairs_checked")
			if res.Off < prev {
				c.Violate("viewchange:"+ruleName+"-offset-decreases", fmt.Sprintf("%s n=%d startOffset=%d tol=%v: offset %d at an earlier instant, %d at start+%v",
					ruleName, cs.N, cs.Off0, cs.Tol, prev, res.Off, time.Duration(t)), cs)
			}
		}
		if res.Off < cs.Off0 {
			c.Violate("viewchange:"+ruleName+"-offset-below-start", fmt.Sprintf("offset %d < start offset %d", res.Off, cs.Off0), cs)
		}
		prev, first = res.Off, false
	}

	// gated variants (what the polling timer calls): recorded, not judged
	gone, _, _ := c26Eval(cs, []int64{cs.T}, true)
	gfold, _, _ := c26Eval(cs, append(append([]int64(nil), cs.Polls...), cs.T), true)
	switch {
	case gone == gfold:
		c.Inc("gated_" + ruleName + "_equal")
	case one.Start == cs.T || fold.Start == cs.T || gone.Start == cs.T:
		c.Inc("gated_" + ruleName + "_differs_T_exactly_on_boundary")
	case cs.Rule == 1 && cs.Tol != 5*time.Second:
		c.Inc("gated_v1_differs_tolerance_not_5s")
	case one != fold:
		c.Inc("gated_" + ruleName + "_differs_where_ungated_differs")
	default:
		c.Inc("gated_" + ruleName + "_differs_other")
		c.Note("gated differs (other): %+v one=%+v fold=%+v", *cs, gone, gfold)
	}
	if cs.Sched == "directed" || (c.Shard == 0 && cs.TPlace == "boundary" && len(cs.Polls) < 6) {
		c.Sample(map[string]interface{}{"case": cs, "one_shot_offset": one.Off, "one_shot_view_start_rel_ns": one.Start, "folded_offset": fold.Off, "folded_view_start_rel_ns": fold.Start})
	}
}

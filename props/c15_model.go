package props

import (
	"bytes"
	"fmt"
	"math/rand"
	"sort"
	"sync"

	"github.com/elastos/Elastos.ELA/blockchain"
	"github.com/elastos/Elastos.ELA/blockchain/indexers"
	"github.com/elastos/Elastos.ELA/common"
	pg "github.com/elastos/Elastos.ELA/core/contract/program"
	"github.com/elastos/Elastos.ELA/core/types"
	common2 "github.com/elastos/Elastos.ELA/core/types/common"
	"github.com/elastos/Elastos.ELA/core/types/functions"
	"github.com/elastos/Elastos.ELA/core/types/interfaces"
	"github.com/elastos/Elastos.ELA/core/types/payload"

	"verif/kit"
	"verif/kit/node"
)

// ---------- reference model (built only from block objects the harness assembled) ----------

type c15Out struct {
	val      common.Fixed64
	owner    int // node.Key index, -1 unknown
	height   uint32
	coinbase bool
}

type c15Model struct {
	chain   []*types.Block
	txH     map[common.Uint256]uint32
	unspent map[node.OutKey]c15Out
}

func (e *c15Env) modelOf(chain []*types.Block) *c15Model {
	m := &c15Model{txH: map[common.Uint256]uint32{}, unspent: map[node.OutKey]c15Out{}}
	for _, b := range chain {
		m.apply(e, b)
	}
	return m
}

func (m *c15Model) apply(e *c15Env, b *types.Block) {
	m.chain = append(m.chain, b)
	for ti, tx := range b.Transactions {
		id := tx.Hash()
		cb := ti == 0 && tx.IsCoinBaseTx()
		if !cb {
			for _, in := range tx.Inputs() {
				delete(m.unspent, node.OutKey{TxID: in.Previous.TxID, Index: in.Previous.Index})
			}
		}
		for i, o := range tx.Outputs() {
			ow, ok := e.ownerOf[o.ProgramHash]
			if !ok {
				ow = -1
			}
			m.unspent[node.OutKey{TxID: id, Index: uint16(i)}] = c15Out{val: o.Value, owner: ow, height: b.Height, coinbase: cb}
		}
		m.txH[id] = b.Height
	}
}

func (m *c15Model) tip() *types.Block { return m.chain[len(m.chain)-1] }

// ---------- environment ----------

type c15Env struct {
	c    *kit.Ctx
	nd   *node.Node
	uc   *blockchain.UTXOCache
	ffl  blockchain.IFFLDBChainStore
	im   *indexers.Manager
	mode string // quiet | netsync | forced
	r    *rand.Rand

	ownerOf map[common.Uint168]int
	fee     common.Fixed64
	base    uint32 // height of the funding block; forks never go below it

	mu        sync.RWMutex // guards the knowledge tables below during the concurrent phase
	blocks    map[common.Uint256]*types.Block
	blockIDs  []common.Uint256
	confirmOf map[common.Uint256]*payload.Confirm // confirm handed to ProcessBlock with the block
	txs       map[common.Uint256]interfaces.Transaction
	txBytes   map[common.Uint256][]byte // unsigned serialization per txid
	txIDs     []common.Uint256
	recentTx  []common.Uint256 // txids of the last few main-chain blocks and of recently detached ones
	m         *c15Model

	pending []interfaces.Transaction // accepted by the mempool, not yet mined by the harness

	warm []c15Probe // probes looked up most recently (re-checked first after every step)

	// classification of stale answers
	concurrent      bool
	inReorg         bool
	duringReorgIn   map[common2.Input]bool    // inputs looked up between CleanCache and the end of the last reorg
	duringReorgTx   map[common.Uint256]bool   // prev txids fetched in that window
	staleClass      map[common.Uint256]string // remembered class per rolled-back txid
	detachPlan      []*types.Block            // blocks the running reorg will disconnect
	pushed          map[common.Uint256]bool   // block hashes handed to NetServer.pushBlockMsg
	maxBlockTxs     int
	txBoundReported bool
	sampled         map[string]bool
	cbr             *rand.Rand // randomness of the forced reader inside event callbacks
}

func serTx(tx interfaces.Transaction) []byte {
	buf := new(bytes.Buffer)
	tx.Serialize(buf)
	return buf.Bytes()
}

// serUnsigned is the part of a transaction its id commits to. (The programs
// are not: validation sorts them in place, blockchain/txvalidator.go:724.)
func serUnsigned(tx interfaces.Transaction) []byte {
	buf := new(bytes.Buffer)
	tx.SerializeUnsigned(buf)
	return buf.Bytes()
}

// sameProgramSet reports whether two txs carry the same programs in any order.
func sameProgramSet(a, b interfaces.Transaction) bool {
	if len(a.Programs()) != len(b.Programs()) {
		return false
	}
	cnt := map[string]int{}
	for _, p := range a.Programs() {
		cnt[string(p.Code)+"|"+string(p.Parameter)]++
	}
	for _, p := range b.Programs() {
		cnt[string(p.Code)+"|"+string(p.Parameter)]--
	}
	for _, n := range cnt {
		if n != 0 {
			return false
		}
	}
	return true
}

// txAnswerEq compares a cached answer with the uncached one: "equal",
// "program-order" (same tx, programs permuted) or "differs".
func txAnswerEq(cached, uncached interfaces.Transaction) string {
	if bytes.Equal(serTx(cached), serTx(uncached)) {
		return "equal"
	}
	if bytes.Equal(serUnsigned(cached), serUnsigned(uncached)) && sameProgramSet(cached, uncached) {
		return "program-order"
	}
	return "differs"
}

func serDpos(b *types.DposBlock) ([]byte, error) {
	buf := new(bytes.Buffer)
	var err error
	p, v, _ := kit.Guard(func() { err = b.Serialize(buf) })
	if p {
		return nil, fmt.Errorf("panic: %v", v)
	}
	return buf.Bytes(), err
}

func (e *c15Env) learnBlock(b *types.Block, confirm *payload.Confirm) {
	e.mu.Lock()
	defer e.mu.Unlock()
	h := b.Hash()
	if _, ok := e.blocks[h]; !ok {
		e.blocks[h] = b
		e.blockIDs = append(e.blockIDs, h)
		e.confirmOf[h] = confirm
	}
	for _, tx := range b.Transactions {
		e.learnTxLocked(tx)
	}
}

func (e *c15Env) learnTxLocked(tx interfaces.Transaction) {
	id := tx.Hash()
	if _, ok := e.txs[id]; !ok {
		e.txs[id] = tx
		e.txBytes[id] = serUnsigned(tx)
		e.txIDs = append(e.txIDs, id)
	}
}

func (e *c15Env) learnTx(tx interfaces.Transaction) {
	e.mu.Lock()
	e.learnTxLocked(tx)
	e.mu.Unlock()
}

// refreshModel rebuilds the model of the active chain: heights -> hashes come
// from the node's in-memory block index (no cache under test involved), block
// contents from the harness' own objects.
func (e *c15Env) refreshModel() bool {
	tip := e.nd.Chain.GetHeight()
	var chain []*types.Block
	for h := uint32(0); h <= tip; h++ {
		hash, err := e.nd.Chain.GetBlockHash(h)
		if err != nil {
			e.c.Inconclusive("active chain has no hash at height %d: %v", h, err)
			return false
		}
		e.mu.RLock()
		b := e.blocks[hash]
		e.mu.RUnlock()
		if b == nil {
			e.c.Inconclusive("active chain block %s at height %d was not built by the harness", hash.String()[:16], h)
			return false
		}
		chain = append(chain, b)
	}
	m := e.modelOf(chain)
	var recent []common.Uint256
	lo := 0
	if len(chain) > 5 {
		lo = len(chain) - 5
	}
	for _, b := range chain[lo:] {
		for _, tx := range b.Transactions {
			recent = append(recent, tx.Hash())
		}
	}
	for _, b := range e.detachPlan {
		for _, tx := range b.Transactions {
			recent = append(recent, tx.Hash())
		}
	}
	e.mu.Lock()
	e.m = m
	e.recentTx = recent
	e.mu.Unlock()
	return true
}

// ---------- building blocks ----------

var c15Accts = []int{2, 3, 4, 5, 6, 7}

func (e *c15Env) fabricateConfirm(b *types.Block) *payload.Confirm {
	h := b.Hash()
	pk := func(i int) []byte { k, _ := node.Key(10 + i).PublicKey.EncodePoint(true); return k }
	sig := func(seed byte) []byte {
		s := make([]byte, 64)
		for i := range s {
			s[i] = seed + byte(i) ^ h[i%32]
		}
		return s
	}
	cf := &payload.Confirm{Proposal: payload.DPOSProposal{Sponsor: pk(0), BlockHash: h, ViewOffset: uint32(h[0] % 3), Sign: sig(1)}}
	ph := cf.Proposal.Hash()
	n := 2 + int(h[1]%3)
	for i := 0; i < n; i++ {
		cf.Votes = append(cf.Votes, payload.DPOSProposalVote{ProposalHash: ph, Signer: pk(i), Accept: true, Sign: sig(byte(2 + i))})
	}
	return cf
}

// spendable lists model outputs the harness can sign for, newest first
// (deterministic order).
func (e *c15Env) spendable(m *c15Model, exclude map[node.OutKey]bool, notHeight uint32) []node.UTXORef {
	type kv struct {
		k node.OutKey
		o c15Out
	}
	var all []kv
	for k, o := range m.unspent {
		if o.owner < 2 || o.coinbase || o.val < 50*e.fee || exclude[k] || o.height == notHeight {
			continue
		}
		all = append(all, kv{k, o})
	}
	sort.Slice(all, func(i, j int) bool {
		if all[i].o.height != all[j].o.height {
			return all[i].o.height > all[j].o.height
		}
		if c := bytes.Compare(all[i].k.TxID[:], all[j].k.TxID[:]); c != 0 {
			return c < 0
		}
		return all[i].k.Index < all[j].k.Index
	})
	refs := make([]node.UTXORef, len(all))
	for i, a := range all {
		refs[i] = node.UTXORef{TxID: a.k.TxID, Index: a.k.Index, Value: a.o.val, Owner: node.Key(a.o.owner)}
	}
	return refs
}

// mkTransfers builds up to n independent signed transfers spending outputs of
// m (biased to the most recently created ones); used keys are added to exclude.
func (e *c15Env) mkTransfers(r *rand.Rand, m *c15Model, n int, exclude map[node.OutKey]bool, notHeight uint32) []interfaces.Transaction {
	var txs []interfaces.Transaction
	for i := 0; i < n; i++ {
		sp := e.spendable(m, exclude, notHeight)
		if len(sp) == 0 {
			break
		}
		pick := func() int {
			if r.Intn(2) == 0 { // chains of spends across consecutive blocks
				return r.Intn(minInt(4, len(sp)))
			}
			a, b := r.Intn(len(sp)), r.Intn(len(sp))
			if b < a {
				a = b
			}
			if c := r.Intn(len(sp)); c < a && r.Intn(2) == 0 {
				a = c
			}
			return a
		}
		ins := []node.UTXORef{sp[pick()]}
		exclude[node.OutKey{TxID: ins[0].TxID, Index: ins[0].Index}] = true
		if r.Intn(4) == 0 && len(sp) > 1 {
			j := pick()
			k := node.OutKey{TxID: sp[j].TxID, Index: sp[j].Index}
			if !exclude[k] {
				exclude[k] = true
				ins = append(ins, sp[j])
			}
		}
		var tot common.Fixed64
		for _, u := range ins {
			tot += u.Value
		}
		tot -= e.fee + common.Fixed64(r.Intn(50))
		nOut := 1 + r.Intn(3)
		var outs []node.Out
		for j := 0; j < nOut; j++ {
			v := tot / common.Fixed64(nOut-j)
			if j < nOut-1 {
				v = v/2 + common.Fixed64(r.Int63n(int64(v/2)+1))
			} else {
				v = tot
			}
			tot -= v
			outs = append(outs, node.Out{To: node.Key(c15Accts[r.Intn(len(c15Accts))]).ProgramHash, Value: v})
		}
		tx := node.Transfer(ins, outs, common2.TxVersion09)
		e.learnTx(tx)
		txs = append(txs, tx)
	}
	return txs
}

// feesOf computes the fees of txs against model m (inputs must be unspent in m).
func feesOf(m *c15Model, txs []interfaces.Transaction) (common.Fixed64, bool) {
	var fees common.Fixed64
	for _, tx := range txs {
		var in, out common.Fixed64
		for _, i := range tx.Inputs() {
			o, ok := m.unspent[node.OutKey{TxID: i.Previous.TxID, Index: i.Previous.Index}]
			if !ok {
				return 0, false
			}
			in += o.val
		}
		for _, o := range tx.Outputs() {
			out += o.Value
		}
		fees += in - out
	}
	return fees, true
}

// spendsUnspent reports whether every input of tx is unspent in m and was not
// created at height notHeight.
func spendsUnspent(m *c15Model, tx interfaces.Transaction, notHeight uint32, used map[node.OutKey]bool) bool {
	for _, i := range tx.Inputs() {
		k := node.OutKey{TxID: i.Previous.TxID, Index: i.Previous.Index}
		o, ok := m.unspent[k]
		if !ok || o.height == notHeight || used[k] {
			return false
		}
	}
	return true
}

// assembleOn builds a block on parent (model m describes the chain ending in
// parent) and hands it to ProcessBlock with or without a fabricated confirm.
func (e *c15Env) assembleOn(r *rand.Rand, m *c15Model, txs []interfaces.Transaction, withConfirm bool) (*types.Block, *payload.Confirm, error) {
	fees, ok := feesOf(m, txs)
	if !ok {
		return nil, nil, fmt.Errorf("harness: tx input not in model")
	}
	b, err := e.nd.Assemble(node.BlockSpec{Parent: m.tip(), Txs: txs, Fees: fees, Nonce: r.Uint64() | 1})
	if err != nil {
		return nil, nil, err
	}
	var cf *payload.Confirm
	if withConfirm {
		cf = e.fabricateConfirm(b)
	}
	e.learnBlock(b, cf)
	if len(b.Transactions) > e.maxBlockTxs {
		e.maxBlockTxs = len(b.Transactions)
	}
	return b, cf, nil
}

func (e *c15Env) process(b *types.Block, cf *payload.Confirm) (bool, error) {
	inMain, _, err := e.nd.Chain.ProcessBlock(b, cf)
	if err == nil && inMain {
		e.nd.PostBlock(b)
	}
	return inMain, err
}

// probe tx: only its inputs matter to GetTxReference.
type c15Probe struct {
	ins []common2.Input
}

func (p c15Probe) tx() interfaces.Transaction {
	var ins []*common2.Input
	for i := range p.ins {
		in := p.ins[i]
		ins = append(ins, &in)
	}
	return functions.CreateTransaction(common2.TxVersion09, common2.TransferAsset, 0, &payload.TransferAsset{},
		[]*common2.Attribute{}, ins, nil, 0, []*pg.Program{})
}

func (p c15Probe) id() string {
	s := ""
	for _, in := range p.ins {
		s += fmt.Sprintf("%s:%d:%d|", in.Previous.TxID.String()[:12], in.Previous.Index, in.Sequence)
	}
	return s
}

// genProbe draws a probe: inputs naming recent main-chain outputs, outputs of
// txs known only from losing branches, out-of-range indexes and unknown ids.
func (e *c15Env) genProbe(r *rand.Rand, prefer []common.Uint256) c15Probe {
	e.mu.RLock()
	defer e.mu.RUnlock()
	n := 1 + r.Intn(3)
	if r.Intn(6) == 0 {
		n = 4
	}
	var p c15Probe
	for i := 0; i < n; i++ {
		var id common.Uint256
		x := r.Intn(100)
		switch {
		case x < 40 && len(prefer) > 0:
			id = prefer[r.Intn(len(prefer))]
		case x < 70 && len(e.recentTx) > 0:
			id = e.recentTx[r.Intn(len(e.recentTx))]
		case x < 94:
			id = e.txIDs[r.Intn(len(e.txIDs))]
		default:
			r.Read(id[:])
		}
		nOut := 1
		if tx, ok := e.txs[id]; ok {
			nOut = len(tx.Outputs())
		}
		idx := 0
		if nOut > 0 {
			idx = r.Intn(nOut)
		}
		if r.Intn(12) == 0 {
			idx = nOut + r.Intn(3)
		}
		seq := []uint32{0, 0, 0, 1, 0xffffffff}[r.Intn(5)]
		p.ins = append(p.ins, common2.Input{Previous: common2.OutPoint{TxID: id, Index: uint16(idx)}, Sequence: seq})
	}
	return p
}

func outEq(a, b *common2.Output) bool {
	if a.AssetID != b.AssetID || a.Value != b.Value || a.OutputLock != b.OutputLock || a.ProgramHash != b.ProgramHash || a.Type != b.Type {
		return false
	}
	var ab, bb []byte
	if a.Payload != nil {
		ab = a.Payload.Data()
	}
	if b.Payload != nil {
		bb = b.Payload.Data()
	}
	return bytes.Equal(ab, bb)
}

package props

import (
	"bytes"
	"fmt"
	"math"
	"math/big"
	"math/rand"
	"os"
	"sort"
	"strings"
	"time"

	"github.com/elastos/Elastos.ELA/account"
	"github.com/elastos/Elastos.ELA/common"
	"github.com/elastos/Elastos.ELA/common/config"
	"github.com/elastos/Elastos.ELA/core/types"
	common2 "github.com/elastos/Elastos.ELA/core/types/common"
	"github.com/elastos/Elastos.ELA/core/types/interfaces"
	"github.com/elastos/Elastos.ELA/core/types/payload"

	"verif/kit"
	"verif/kit/node"
)

// C29 — proposal spending stays within approved budgets.
//
// One shard = one real node on the compressed "dpos-era" schedule (committee
// elected at height 91) driven through many interleaved proposal histories:
// registration (1–6 budget stages, with / without imprest, ELIP), CR reviews
// reaching / missing the agreement count, voter rejection, tracking approvals
// in and out of order, owner changes, termination / finalisation / closing by
// proposal, withdrawals, the committee's budget being exhausted by competing
// proposals, and the committee's term ending (re-election or dissolution).
// Hostile requests ("too much / too early / wrong owner / twice") go to the
// mempool AND into a block of their own; both must refuse them.
//
// Oracle: c29_model.go rebuilt from the connected blocks; see Spec.Rule.
//
// Violation signatures:
//   overspend:withdraw-exceeds-approved | :withdraw-before-withdrawable[:status-X] | :stage-withdrawn-twice[:same-block]
//   overspend:withdraw-by-non-owner | :withdraw-to-wrong-recipient | :paid-exceeds-approved
//   overspend:real-withdraw-paid-twice[:same-block] | :real-withdraw-without-request
//   overspend:stage-approved-without-authority | :stage-approved-twice-or-out-of-type | :tracking-accepted-after-proposal-ended | :tracking-by-non-owner
//   overspend:committee-budget-exceeded:<path>   path = two-proposals-one-block | second-proposal-in-pool | one-sela-over | budget-exhausted | budget-sum-overflow | honest-flow ...
//   follow-money:real-withdraw-output-mismatch | :real-withdraw-input-not-crexpenses | :crexpenses-outflow-unaccounted | :ledger-<issue>
//   model-diff:<field>[:<how the block was produced>]   field = status | withdrawable-budgets | withdrawn-budgets | available-withdrawal | owner | pending-payouts | committee-used-amount | stage-amount | expenses-balance
//   a hostile request accepted without the model naming the defect gets "<stem>:mempool" / "<stem>:block".
//
// After a reported overspend whose effect on the node's bookkeeping is known
// (the same stages requested twice in one block, a payout settled twice) the
// model keeps the amount aside so that the rest of the history stays comparable;
// after a model-diff the shard stops (the history would only repeat it).

func init() {
	kit.Register(&kit.Spec{
		ID: "C29",
		Rule: "a case = one proposal history (register .. reviews .. votes .. trackings .. withdrawals .. end) or one hostile request (over-withdraw, early, repeated, non-owner, wrong recipient, after the end, two requests / two payouts in one block, trackings without authority, registrations beyond the committee's remaining funds via mempool / two-in-one-block / wrapping budget sum) on a live node; " +
			"distinct = distinct proposal hash / hostile tx hash; non-trivial = the proposal was registered on chain, or the hostile tx reached the validators (mempool and block verdict obtained). " +
			"After every connected block the independent ledger (approved stages, withdrawn stages, payout requests, CR expenses outputs) is advanced from the block alone and compared with Committee.AvailableWithdrawalAmount, ProposalState.{Status,WithdrawableBudgets,WithdrawnBudgets,ProposalOwner,Recipient}, CRCCommitteeUsedAmount, CRCCurrentStageAmount and the pending real-withdraw requests",
		Shards: func(tier string) int {
			if tier == "thorough" {
				return 96
			}
			return 12
		},
		Run: runC29,
		Require: []string{"nodes_run", "proposals_registered", "registered:Normal", "registered:ELIP", "registered:CloseProposal", "registered:ChangeProposalOwner",
			"transition:Registered->CRAgreed", "transition:CRAgreed->VoterAgreed", "transition:Registered->CRCanceled", "transition:CRAgreed->VoterCanceled",
			"transition:VoterAgreed->Finished", "transition:VoterAgreed->Terminated", "terminated_by_close_proposal", "close_proposal_passed_on_already_ended_target", "close_proposal_passed_on_already_ended_target:Terminated", "owner_changed_by_tracking", "owner_changed_by_proposal",
			"withdraw_accepted", "real_withdraw_accepted", "real_withdraw_output_exact", "stage_approved:normal", "stage_approved:final", "proposals_fully_paid_out",
			"hostile_attempts", "hostile_rejected_mempool", "hostile_rejected_block", "hostile_attempts:withdraw-early", "hostile_attempts:withdraw-repeat", "hostile_attempts:withdraw-over",
			"hostile_attempts:withdraw-unapproved-stage", "hostile_attempts:withdraw-non-owner", "hostile_attempts:withdraw-after-end", "hostile_attempts:two-withdraws-one-block",
			"hostile_attempts:second-real-withdraw-one-block", "hostile_attempts:two-proposals-one-block", "hostile_attempts:progress-fake-secretary",
			"compare_rounds", "compare_proposals", "committee_used_compared", "compete_rounds", "register_accepted_exact_fit",
			"register_rejected_over_budget:mempool", "register_rejected_over_budget:block", "committee_reelected", "committee_change_with_released_unwithdrawn_stage", "committee_change_with_released_withdrawn_stage", "committee_change_with_unreleased_stage", "v1_withdraw_rolled_back_then_reincluded", "real_withdraw_checked_after_rollback", "ledger_replays"},
		Assumptions: []string{
			"regnet parameters on the compressed dpos-era schedule (kit/node/eras.go): CR voting/public voting periods 10 blocks, agreement count 3 of 4, payloads v0 below height 165 and v01 from there",
			"the voter decision is modelled with a margin instead of the float circulation formula: >= 3.5M ELA of reject votes must cancel, <= 3.0M must not (workload uses 4M or <= 1000 ELA)",
			"the committee's election-period flag and the height of a committee change are observed from the node, not modelled",
			"withdraw payload v1 only (the v0 form is not reachable on this schedule: CRCProposalWithdrawPayloadV1Height = 110 < first possible voter agreement)",
			"hostile miner blocks are confirmed by the honest arbiters' keys (they run the same validation code); proposal types without budgets other than CloseProposal / ChangeProposalOwner are not generated",
		},
		TimeoutS: func(tier string) int { return 300 },
		Post: func(a *kit.Agg) {
			var miss []string
			for _, t := range c29AllTransitions {
				if a.Counters["transition:"+t] == 0 {
					miss = append(miss, t)
				}
			}
			if len(miss) > 0 {
				a.Notes = append(a.Notes, fmt.Sprintf("status transitions not reached in this run: %v", miss))
			}
			for _, k := range []string{"registered:Normal", "registered:ELIP", "registered:CloseProposal", "registered:ChangeProposalOwner"} {
				if a.Counters[k] == 0 {
					a.Notes = append(a.Notes, "proposal type not reached: "+k)
				}
			}
			a.Notes = append(a.Notes, "proposal types never generated: SecretaryGeneral, ReserveCustomID, ReceiveCustomID, ChangeCustomIDFee, RegisterSideChain, upgrade-code types (they carry no budgets)")
		},
	})
}

// every status transition of the proposal life cycle (Finished is also reached
// directly from CRAgreed by budget-less special proposals)
var c29AllTransitions = []string{"Registered->CRAgreed", "Registered->CRCanceled", "Registered->Aborted", "CRAgreed->VoterAgreed", "CRAgreed->VoterCanceled",
	"CRAgreed->Finished", "CRAgreed->Aborted", "VoterAgreed->Finished", "VoterAgreed->Terminated"}

type c29Op struct {
	kind  string
	stage uint8
}

type c29Flow struct {
	id         int
	typ        payload.CRCProposalType
	hash       common.Uint256
	owner      *account.Account
	member     *account.Account
	recipient  common.Uint168
	budgets    []payload.Budget
	review     []int // per member: payload.VoteResult or -1 = no review
	reviewAge  []int
	reject     int // 0 none, 1 small, 2 big
	script     []c29Op
	pc         int
	regH       uint32
	mined      bool
	done       map[string]bool
	target     *c29Flow
	votedSmall bool
	votedBig   bool
	filler     bool
	lastStatus string
	late       bool     // registered shortly before the voting period of a term that ends with a re-election: holds its released stages over the change
	closer     *c29Flow // the CloseProposal registered against this proposal by an "XE" step
	endKind    payload.CRCProposalTrackingType
}

// c29Blk: a connected block with what was observed about the committee when it was applied (to rebuild the model after a reorganisation).
type c29Blk struct {
	b                   *types.Block
	inElection, changed bool
}

type c29 struct {
	hist      []c29Blk // the active chain as fed to the model, index = height
	rollbacks int

	c     *kit.Ctx
	nd    *node.Node
	e     *node.Era
	boot  *node.Boot
	w     *node.Wallet
	m     *c29Model
	r     *rand.Rand
	flows []*c29Flow
	byH   map[common.Uint256]*c29Flow
	pend  []interfaces.Transaction
	seq   int
	trf   *os.File
	fatal bool

	whale      *account.Account
	whaleRef   node.UTXORef
	whaleHas   bool
	whaleVotes map[common.Uint256]bool
	attacker   *account.Account // pays the fees of hostile requests; may become a proposal owner through owner changes
	impostor   *account.Account // never owns a proposal
	owners     []*account.Account
	sec        *account.Account
	expenses   common.Uint168
	realFee    common.Fixed64

	modelViolsInApply int
	taintWhenMined    map[common.Uint256]bool
	synced            uint32
	cause             string
	lastCommitteeH    uint32
	poolCommitted     *big.Int // budgets of proposals accepted by the pool and not yet mined
	claimDone         bool
	flavor            int
	endH              uint32
	registerUntil     uint32
	overflowDone      bool
	foreignDone       bool
	diverged          bool // the node's bookkeeping and the model disagree (reported): the rest of the history would only repeat it
	twoTrackings      int
	reelect           bool   // a new committee is elected at the end of the term (flavors 1 and 3)
	termEnd           uint32 // height of the next committee change
	competeDone       int
	memberBusy        map[string]bool // sponsoring members with a proposal waiting in the pool (one per member)
}

func (s *c29) trace(f string, a ...interface{}) {
	if s.trf != nil {
		fmt.Fprintf(s.trf, "[h=%d t=%s] "+f+"\n", append([]interface{}{s.nd.Height(), c29Clock()}, a...)...)
	}
}

func (s *c29) uniq(prefix string) []byte {
	s.seq++
	return []byte(fmt.Sprintf("%s-%d-%d-%d", prefix, s.c.Seed, s.c.Shard, s.seq))
}

func (s *c29) pv() byte {
	if s.nd.Height()+1 >= s.nd.Cfg.CRConfiguration.CRCProposalDraftDataStartHeight {
		return 1
	}
	return 0
}

// take reserves a fee-paying output of a, or of any funded harness account
// when a has none (payload signatures are independent of who pays the fee).
func (s *c29) take(a *account.Account) (node.UTXORef, bool) {
	if r, ok := s.w.Take(a, node.ELA(1)); ok {
		return r, true
	}
	for _, v := range s.boot.Voters {
		if r, ok := s.w.Take(v, node.ELA(1)); ok {
			return r, true
		}
	}
	return node.UTXORef{}, false
}

// ---------- running the chain ----------

func (s *c29) submit(kind string, in node.UTXORef, tx interfaces.Transaction) bool {
	s.c.Inc("submitted:" + kind)
	if err := s.nd.TxPool.AppendToTxPool(tx); err != nil {
		s.c.Inc("honest_rejected:" + kind)
		s.trace("REJECT %s: %v", kind, err)
		s.w.Release(in)
		return false
	}
	s.c.Inc("pool_accepted:" + kind)
	s.pend = append(s.pend, tx)
	return true
}

// mine mines the pending (pool-accepted) transactions and advances the model.
func (s *c29) mine() bool {
	if s.fatal {
		return false
	}
	pend := s.pend
	s.pend = nil
	inElection := s.nd.Committee.IsInElectionPeriod()
	b, err := s.nd.MineTipDPoS(pend...)
	if err != nil {
		s.c.Inc("mine_failed_with_pending")
		s.trace("MINE FAILED (%d pending): %v", len(pend), err)
		// keep what still passes the validators one by one (a block connected in between may have invalidated some)
		var keep []interfaces.Transaction
		for _, tx := range pend {
			if e := s.nd.CheckTx(tx, s.nd.TipBlock().Timestamp+1); e != nil {
				s.c.Inc("pending_tx_dropped:" + tx.TxType().Name())
				s.trace("dropped pending %s: %v", tx.TxType().Name(), e)
				continue
			}
			keep = append(keep, tx)
		}
		b, err = s.nd.MineTipDPoS(keep...)
		if err != nil {
			b, err = s.nd.MineTipDPoS()
		}
		if err != nil {
			s.c.Inconclusive("shard %d: mining height %d failed: %v", s.c.Shard, s.nd.Height()+1, err)
			s.fatal = true
			return false
		}
	}
	s.after(b, inElection)
	return true
}

// after feeds a connected block to the model and compares.
func (s *c29) after(b *types.Block, inElectionBefore bool) {
	defer func() { s.cause = "honest-flow" }()
	s.apply(b, inElectionBefore)
	s.compare()
}

// apply advances the model by one connected block (no comparison yet).
func (s *c29) apply(b *types.Block, inElectionBefore bool) {
	changed := s.nd.Committee.LastCommitteeHeight == b.Height && b.Height != s.lastCommitteeH
	if changed {
		s.lastCommitteeH = b.Height
	}
	for _, tx := range b.Transactions {
		if s.taintWhenMined[tx.Hash()] {
			// a hostile request the mempool let through got mined: already reported, keep the rest comparable
			var ph common.Uint256
			switch pl := tx.Payload().(type) {
			case *payload.CRCProposalWithdraw:
				ph = pl.ProposalHash
			case *payload.CRCProposalTracking:
				ph = pl.ProposalHash
			}
			if p := s.m.Props[ph]; p != nil {
				p.Tainted = true
			}
			s.m.CommitteeTainted = true
		}
	}
	s.modelViolsInApply = 0
	s.m.Apply(b, inElectionBefore, changed, s.cause, func(h common.Uint256) string {
		if ps := s.nd.Committee.GetProposal(h); ps != nil {
			return ps.Status.String()
		}
		return ""
	})
	s.synced = b.Height
	s.hist = append(s.hist, c29Blk{b, inElectionBefore, changed})
	if changed && b.Height > s.nd.Cfg.CRConfiguration.CRCommitteeStartHeight+1 {
		// a committee change with proposals in flight: which (released?, withdrawn?) stage states cross it
		if s.cause == "honest-flow" || s.cause == "" {
			s.cause = "committee-change"
		}
		for _, ph := range s.m.Order {
			p := s.m.Props[ph]
			if p.Tainted || len(p.Stages) == 0 {
				continue
			}
			s.c.Inc("committee_change_crossed_by:" + p.Status)
			if p.Status != c29VoterAgreed {
				for _, st := range p.Stages {
					if (p.Status == c29Finished || p.Status == c29Terminated) && st.ApprovedAt != 0 && st.WithdrawnAt == 0 && st.Amount > 0 {
						s.c.Inc("committee_change_with_released_unwithdrawn_stage_of_ended_proposal")
					}
				}
				continue
			}
			for _, st := range p.Stages {
				switch {
				case st.ApprovedAt != 0 && st.WithdrawnAt == 0 && st.Amount > 0:
					s.c.Inc("committee_change_with_released_unwithdrawn_stage")
				case st.ApprovedAt != 0 && st.WithdrawnAt != 0:
					s.c.Inc("committee_change_with_released_withdrawn_stage")
				case st.ApprovedAt == 0:
					s.c.Inc("committee_change_with_unreleased_stage")
				}
			}
		}
	}
	s.memberBusy = map[string]bool{}
	s.poolCommitted = new(big.Int)
	for _, tx := range s.nd.TxPool.GetTxsInPool() {
		if pl, ok := tx.Payload().(*payload.CRCProposal); ok {
			for _, bd := range pl.Budgets {
				s.poolCommitted.Add(s.poolCommitted, bigF(bd.Amount))
			}
			if m := s.memberOf(pl.CRCouncilMemberDID); m != nil {
				s.memberBusy[m.Address] = true
			}
		}
	}
	if s.trf != nil {
		line := fmt.Sprintf("BLOCK %d t=%s:", b.Height, c29Clock())
		for _, tx := range b.Transactions[1:] {
			line += " " + tx.TxType().Name()
		}
		fmt.Fprintln(s.trf, line)
	}
	for _, f := range s.flows {
		if !f.mined {
			if _, ok := s.m.Props[f.hash]; ok {
				f.mined = true
				f.regH = b.Height
				s.c.Inc("proposals_registered")
				s.c.Case("proposal:"+f.hash.String(), true)
			}
		}
	}
}

// compare checks the node's proposal / committee bookkeeping against the model.
func (s *c29) compare() {
	s.c.Inc("compare_rounds")
	cm := s.nd.Committee
	for _, ph := range s.m.Order {
		p := s.m.Props[ph]
		if p.Tainted {
			continue
		}
		ps := cm.GetProposal(ph)
		if ps == nil {
			s.modelViol("model-diff:proposal-missing", fmt.Sprintf("height %d: proposal %s registered in a block is unknown to the committee", s.synced, ph.String()[:16]), p)
			p.Tainted = true
			s.m.CommitteeTainted = true
			continue
		}
		s.c.Inc("compare_proposals")
		diff := func(field, detail string) {
			s.modelViol("model-diff:"+field+s.causeSuffix(), fmt.Sprintf("height %d proposal %s (%s, history %v): %s", s.synced, ph.String()[:16], p.Type.Name(), p.Trans, detail), p)
			p.Tainted = true
			s.m.CommitteeTainted = true
		}
		if ps.Status.String() != p.Status {
			diff("status", fmt.Sprintf("node %s, model %s (reject votes model %d, node %d)", ps.Status.String(), p.Status, int64(p.Reject), int64(ps.VotersRejectAmount)))
			continue
		}
		// approved (withdrawable) and withdrawn stage sets
		okW, okD := true, true
		nApproved, nWithdrawn := 0, 0
		for _, st := range p.Stages {
			a, inA := ps.WithdrawableBudgets[st.Stage]
			if inA != (st.ApprovedAt != 0) || (inA && a != st.Amount) {
				okW = false
			}
			d, inD := ps.WithdrawnBudgets[st.Stage]
			if inD != (st.WithdrawnAt != 0) || (inD && d != st.Amount) {
				okD = false
			}
			if st.ApprovedAt != 0 {
				nApproved++
			}
			if st.WithdrawnAt != 0 {
				nWithdrawn++
			}
		}
		if len(ps.WithdrawableBudgets) != nApproved {
			okW = false
		}
		if len(ps.WithdrawnBudgets) != nWithdrawn {
			okD = false
		}
		if !okW {
			diff("withdrawable-budgets", fmt.Sprintf("node %v, model %s", ps.WithdrawableBudgets, c29Stages(p)))
			continue
		}
		if !okD {
			diff("withdrawn-budgets", fmt.Sprintf("node %v, model %s", ps.WithdrawnBudgets, c29Stages(p)))
			continue
		}
		av, _ := p.available(0)
		if got := cm.AvailableWithdrawalAmount(ph); bigF(got).Cmp(av) != 0 {
			diff("available-withdrawal", fmt.Sprintf("node %d, model %s", int64(got), av))
			continue
		}
		if new(big.Int).Sub(p.Requested, p.Excess).Cmp(p.approvedSum()) > 0 {
			diff("requested-exceeds-approved", fmt.Sprintf("requested %s, approved %s", p.Requested, p.approvedSum()))
		}
		if string(ps.ProposalOwner) != string(p.Owner) || !ps.Recipient.IsEqual(p.Recipient) {
			diff("owner", fmt.Sprintf("node owner %x recipient %s, model owner %x recipient %s", ps.ProposalOwner[:6], ps.Recipient.String()[:10], p.Owner[:6], p.Recipient.String()[:10]))
		}
	}
	// pending payout requests
	pendNode := cm.GetRealWithdrawTransactions()
	same := len(pendNode) == len(s.m.Pending)
	for k, v := range pendNode {
		mp := s.m.Pending[k]
		if mp == nil || mp.Amount != v.Amount || !mp.Recipient.IsEqual(v.Recipient) {
			same = false
		}
	}
	if !same {
		s.modelViol("model-diff:pending-payouts"+s.causeSuffix(), fmt.Sprintf("height %d: node has %d pending real-withdraw requests, model %d", s.synced, len(pendNode), len(s.m.Pending)), nil)
	}
	// committee level
	if s.m.TermStartH != 0 && !s.m.CommitteeTainted {
		s.c.Inc("committee_used_compared")
		if used := s.m.Used(); bigF(cm.CRCCommitteeUsedAmount).Cmp(used) != 0 {
			s.modelViol("model-diff:committee-used-amount"+s.causeSuffix(), fmt.Sprintf("height %d: node CRCCommitteeUsedAmount %d, model (owed %s + requested this term %s) = %s",
				s.synced, int64(cm.CRCCommitteeUsedAmount), s.m.Liabilities(false), s.m.RequestedThisTerm, used), nil)
			s.m.CommitteeTainted = true
		}
		if s.m.TermKnown {
			if bigF(cm.CRCCurrentStageAmount).Cmp(s.m.StageFunds) != 0 {
				s.modelViol("model-diff:stage-amount", fmt.Sprintf("height %d: node CRCCurrentStageAmount %d, model (expenses balance at the change + appropriation) %s", s.synced, int64(cm.CRCCurrentStageAmount), s.m.StageFunds), nil)
				s.m.CommitteeTainted = true
			}
			if s.m.Used().Cmp(s.m.StageFunds) > 0 && !s.m.CommitteeTainted {
				s.modelViol("overspend:committee-budget-exceeded:"+s.cause, fmt.Sprintf("height %d: committed in this term %s sela > stage funds %s sela", s.synced, s.m.Used(), s.m.StageFunds), nil)
				s.m.CommitteeTainted = true
			}
			s.c.Max("max:committee_used_permille_of_stage_funds", new(big.Int).Div(new(big.Int).Mul(s.m.Used(), big.NewInt(1000)), new(big.Int).Add(s.m.StageFunds, big.NewInt(1))).Int64())
		}
	}
}

func (s *c29) causeSuffix() string {
	if s.cause == "honest-flow" || s.cause == "" {
		return ""
	}
	return ":" + s.cause
}

func c29Stages(p *c29P) string {
	return c29StagesOf(p)
}

func (s *c29) modelViol(sig, detail string, p *c29P) {
	s.modelViolsInApply++
	if strings.HasPrefix(sig, "model-diff:") && !strings.Contains(sig, "two-trackings-one-block") {
		s.diverged = true
	}
	var cas interface{}
	if p != nil {
		cas = map[string]interface{}{"proposal": p.Hash.String(), "type": p.Type.Name(), "stages": c29Stages(p), "history": p.Trans, "shard": s.c.Shard, "seed": s.c.Seed}
	} else {
		cas = map[string]interface{}{"shard": s.c.Shard, "seed": s.c.Seed, "height": s.synced}
	}
	s.trace("VIOLATION %s: %s", sig, detail)
	s.c.Violate(sig, detail, cas)
}

// ---------- hostile requests ----------

// hostile sends a transaction that must be refused to the mempool and, in a
// block of its own, to block validation. sig is the violation signature stem
// used when it is accepted and the model does not itself name the defect.
func (s *c29) hostile(kind, sig string, in node.UTXORef, tx interfaces.Transaction, f *c29Flow) {
	if s.fatal {
		return
	}
	th := tx.Hash()
	s.c.Inc("hostile_attempts")
	s.c.Inc("hostile_attempts:" + kind)
	s.c.Begin("hostile %s tx %s", kind, th.String()[:16])
	poolErr := s.nd.TxPool.AppendToTxPool(tx)
	if poolErr == nil {
		s.c.Inc("hostile_ACCEPTED_mempool:" + kind)
		s.trace("HOSTILE %s ACCEPTED by mempool", kind)
		s.c.Violate(sig+":mempool", fmt.Sprintf("height %d: the mempool accepted a %s request (%s tx %s)%s", s.nd.Height()+1, kind, tx.TxType().Name(), th.String()[:16], flowDesc(f)),
			map[string]interface{}{"kind": kind, "shard": s.c.Shard, "seed": s.c.Seed})
		s.taintWhenMined[th] = true
		s.pend = append(s.pend, tx)
		s.c.Case("hostile:"+kind+":"+th.String(), true)
		return
	}
	if strings.Contains(poolErr.Error(), "slot ") {
		// another transaction of the same proposal waits in the pool: not a verdict of the rule under test
		s.c.Inc("hostile_mempool_verdict_masked_by_conflict_slot:" + kind)
	} else {
		s.c.Inc("hostile_rejected_mempool")
		s.c.Inc("hostile_rejected_mempool:" + kind)
	}
	s.reason(kind, "mempool", poolErr)
	s.trace("hostile %s refused by mempool: %v", kind, poolErr)
	if !s.blockAttempt(kind, sig, f, tx) {
		s.w.Release(in)
	}
	s.c.Case("hostile:"+kind+":"+th.String(), true)
}

func flowDesc(f *c29Flow) string {
	if f == nil {
		return ""
	}
	return fmt.Sprintf("; proposal %s budgets %v", f.hash.String()[:16], f.budgets)
}

// blockAttempt puts txs (plus the node-generated ones) into a block on the tip;
// the block must be refused (tip unchanged).
func (s *c29) blockAttempt(kind, sig string, f *c29Flow, txs ...interfaces.Transaction) bool {
	tip := s.nd.Tip()
	inElection := s.nd.Committee.IsInElectionPeriod()
	s.cause = kind
	b, err := s.nd.MineTipDPoS(txs...)
	if s.nd.Tip().IsEqual(tip) {
		s.cause = "honest-flow"
		s.c.Inc("hostile_rejected_block")
		s.c.Inc("hostile_rejected_block:" + kind)
		s.trace("hostile %s refused in block: %v", kind, err)
		return false
	}
	s.c.Inc("hostile_ACCEPTED_block:" + kind)
	s.trace("HOSTILE %s ACCEPTED in block %d", kind, b.Height)
	s.after(b, inElection)
	if s.modelViolsInApply == 0 {
		s.c.Violate(sig+":block", fmt.Sprintf("height %d: a block carrying a %s request (%d txs) was connected%s", b.Height, kind, len(txs), flowDesc(f)),
			map[string]interface{}{"kind": kind, "shard": s.c.Shard, "seed": s.c.Seed})
		if f != nil {
			if p := s.m.Props[f.hash]; p != nil {
				p.Tainted = true
			}
		}
		s.m.CommitteeTainted = true
	}
	return true
}

func (s *c29) withdrawTx(in node.UTXORef, signer *account.Account, ownerKeyOf *account.Account, ph common.Uint256, rcpt common.Uint168, amt common.Fixed64) interfaces.Transaction {
	if signer == ownerKeyOf {
		return node.CRCProposalWithdraw(in, signer, ph, rcpt, amt)
	}
	// OwnerKey of one account, signature of another
	p := &payload.CRCProposalWithdraw{ProposalHash: ph, OwnerKey: node.Pub(ownerKeyOf), Recipient: rcpt, Amount: amt}
	buf := new(bytes.Buffer)
	p.SerializeUnsigned(buf, payload.CRCProposalWithdrawVersion01)
	p.Signature = node.DetSign(signer, buf.Bytes())
	return node.BuildTx(node.TxSpec{Type: common2.CRCProposalWithdraw, PayloadVersion: payload.CRCProposalWithdrawVersion01, Payload: p, Ins: []node.UTXORef{in}})
}

// hostileWithdraw builds one over-reaching withdraw request for flow f.
func (s *c29) hostileWithdraw(f *c29Flow, kind string) {
	if f.done[kind] {
		return
	}
	ps := s.nd.Committee.GetProposal(f.hash)
	if ps == nil {
		return
	}
	owner := node.KeyByPub(ps.ProposalOwner)
	if owner == nil {
		return
	}
	if p := s.m.Props[f.hash]; p == nil || p.Tainted {
		return
	}
	avail := s.nd.Committee.AvailableWithdrawalAmount(f.hash)
	var total, firstUnapproved, lastWithdrawn common.Fixed64
	for _, b := range f.budgets {
		total += b.Amount
		if _, ok := ps.WithdrawableBudgets[b.Stage]; !ok && firstUnapproved == 0 {
			firstUnapproved = b.Amount
		}
		if a, ok := ps.WithdrawnBudgets[b.Stage]; ok {
			lastWithdrawn = a
		}
	}
	signer, keyOf, rcpt, amt := owner, owner, ps.Recipient, avail
	sig := "overspend:withdraw-exceeds-approved"
	switch kind {
	case "withdraw-early", "withdraw-canceled":
		if s.nd.Height()+1 < s.nd.Cfg.CRConfiguration.CRCProposalWithdrawPayloadV1Height {
			return
		}
		amt = f.budgets[0].Amount
		if amt <= s.realFee {
			amt = total
		}
		sig = "overspend:withdraw-before-withdrawable"
	case "withdraw-unapproved-stage":
		if firstUnapproved == 0 {
			return
		}
		amt = avail + firstUnapproved
		sig = "overspend:withdraw-before-withdrawable"
	case "withdraw-repeat", "withdraw-after-end":
		if avail != 0 || lastWithdrawn == 0 {
			return
		}
		amt = lastWithdrawn
		sig = "overspend:stage-withdrawn-twice"
	case "withdraw-over":
		if s.r.Intn(2) == 0 {
			amt = avail + 1
		} else {
			amt = total + avail
		}
	case "withdraw-non-owner":
		if avail <= s.realFee {
			return
		}
		signer, keyOf = s.impostor, s.impostor
		sig = "overspend:withdraw-by-non-owner"
	case "withdraw-forged-owner-signature":
		if avail <= s.realFee {
			return
		}
		signer, keyOf = s.impostor, owner
		sig = "overspend:withdraw-by-non-owner"
	case "withdraw-wrong-recipient":
		if avail <= s.realFee {
			return
		}
		rcpt = s.impostor.ProgramHash
		sig = "overspend:withdraw-to-wrong-recipient"
	default:
		return
	}
	if amt <= s.realFee {
		return
	}
	in, ok := s.take(s.attacker)
	if !ok {
		return
	}
	f.done[kind] = true
	s.hostile(kind, sig, in, s.withdrawTx(in, signer, keyOf, f.hash, rcpt, amt), f)
}

// hostileTwoWithdrawsOneBlock: two distinct, individually valid withdraw
// requests for the same proposal in ONE block.
func (s *c29) hostileTwoWithdrawsOneBlock(f *c29Flow) {
	kind := "two-withdraws-one-block"
	if f.done[kind] {
		return
	}
	ps := s.nd.Committee.GetProposal(f.hash)
	avail := s.nd.Committee.AvailableWithdrawalAmount(f.hash)
	if p := s.m.Props[f.hash]; ps == nil || avail <= s.realFee || p == nil || p.Tainted {
		return
	}
	owner := node.KeyByPub(ps.ProposalOwner)
	in1, ok1 := s.take(s.attacker)
	in2, ok2 := s.take(s.attacker)
	if owner == nil || !ok1 || !ok2 {
		return
	}
	f.done[kind] = true
	s.c.Inc("hostile_attempts")
	s.c.Inc("hostile_attempts:" + kind)
	t1 := node.CRCProposalWithdraw(in1, owner, f.hash, ps.Recipient, avail)
	t2 := node.CRCProposalWithdraw(in2, owner, f.hash, ps.Recipient, avail)
	s.c.Begin("hostile %s", kind)
	accepted := s.blockAttempt(kind, "overspend:stage-withdrawn-twice:same-block", f, t1, t2)
	if !accepted {
		s.w.Release(in1)
		s.w.Release(in2)
	}
	h1 := t1.Hash()
	s.c.Case("hostile:"+kind+":"+h1.String(), true)
}

// tracking builds a tracking transaction; sec / owner may be impostors.
func (s *c29) trackingTx(in node.UTXORef, owner, sec *account.Account, f *c29Flow, typ payload.CRCProposalTrackingType, stage uint8, newOwner *account.Account) interfaces.Transaction {
	return node.CRCProposalTracking(in, owner, sec, node.TrackingSpec{Proposal: f.hash, Type: typ, Stage: stage,
		Message: s.uniq("msg"), Opinion: s.uniq("opinion"), NewOwner: newOwner}, s.pv())
}

func (s *c29) hostileTracking(f *c29Flow, kind string, stage uint8) {
	key := fmt.Sprintf("%s/%d", kind, stage)
	if f.done[key] {
		return
	}
	ps := s.nd.Committee.GetProposal(f.hash)
	if ps == nil {
		return
	}
	owner := node.KeyByPub(ps.ProposalOwner)
	if owner == nil {
		return
	}
	if p := s.m.Props[f.hash]; p == nil || p.Tainted {
		return
	}
	if _, approved := ps.WithdrawableBudgets[stage]; kind == "progress-approved-stage" && !approved {
		return
	}
	if _, approved := ps.WithdrawableBudgets[stage]; approved && (kind == "progress-fake-secretary" || kind == "progress-non-owner") {
		return // would be refused for the wrong reason
	}
	signer, sec, typ := owner, s.sec, payload.Progress
	sig := "overspend:stage-approved-without-authority"
	switch kind {
	case "progress-approved-stage", "progress-imprest-stage", "progress-final-stage":
		sig = "overspend:stage-approved-twice-or-out-of-type"
	case "progress-fake-secretary":
		sec = s.impostor
	case "progress-non-owner":
		signer = s.impostor
	case "tracking-after-end":
		sig = "overspend:tracking-accepted-after-proposal-ended"
	case "finalize-fake-secretary":
		sec, typ = s.impostor, payload.Finalized
	}
	in, ok := s.take(s.attacker)
	if !ok {
		return
	}
	f.done[key] = true
	s.hostile(kind, sig, in, s.trackingTx(in, signer, sec, f, typ, stage, nil), f)
}

// twoTrackingsOneBlock: a properly signed Progress tracking for an unapproved
// normal stage and a properly signed Finalized / Terminated tracking of the same
// proposal ride in ONE block (the mempool keeps one tracking per proposal, a
// miner need not). Whatever the node does with the block, its bookkeeping must
// stay exact; the model applies the two in block order.
func (s *c29) twoTrackingsOneBlock(f *c29Flow) {
	kind := "two-trackings-one-block"
	if f.done[kind] || len(s.pend) != 0 {
		return
	}

	ps := s.nd.Committee.GetProposal(f.hash)
	if ps == nil || ps.Status.String() != c29VoterAgreed {
		return
	}
	owner := node.KeyByPub(ps.ProposalOwner)
	var stage uint8
	found := false
	for _, b := range f.budgets {
		if _, ok := ps.WithdrawableBudgets[b.Stage]; !ok && b.Type == payload.NormalPayment && b.Amount > 0 {
			stage, found = b.Stage, true
			break
		}
	}
	in1, ok1 := s.take(s.attacker)
	in2, ok2 := s.take(s.attacker)
	if owner == nil || !found || !ok1 || !ok2 {
		return
	}
	f.done[kind] = true
	end := payload.Finalized
	endStage := f.budgets[len(f.budgets)-1].Stage
	if s.r.Intn(3) == 0 {
		end, endStage = payload.Terminated, 0
	}
	t1 := s.trackingTx(in1, owner, s.sec, f, payload.Progress, stage, nil)
	t2 := s.trackingTx(in2, owner, s.sec, f, end, endStage, nil)
	txs := []interfaces.Transaction{t1, t2}
	if s.r.Intn(2) == 0 {
		txs = []interfaces.Transaction{t2, t1}
		kind += ":end-first"
	}
	s.c.Inc("special_blocks:" + kind)
	tip := s.nd.Tip()
	inElection := s.nd.Committee.IsInElectionPeriod()
	s.cause = kind
	b, _ := s.nd.MineTipDPoS(txs...)
	if s.nd.Tip().IsEqual(tip) {
		s.cause = "honest-flow"
		s.c.Inc("special_blocks_refused:" + kind)
		s.w.Release(in1)
		s.w.Release(in2)
		return
	}
	s.c.Inc("special_blocks_connected:" + kind)
	s.c.Case("special:"+kind+":"+f.hash.String(), true)
	s.after(b, inElection)
}

// rebuildModel replays the recorded active chain up to height upTo into a fresh
// model (silently: those blocks were judged when they were connected).
func (s *c29) rebuildModel(upTo uint32) {
	old := s.m
	m := newC29Model(old.P, func(string, string, *c29P) {}, func(string) {})
	for _, e := range s.hist[:upTo+1] {
		m.Apply(e.b, e.inElection, e.changed, "replay", func(common.Uint256) string { return "" })
	}
	for h, p := range old.Props {
		if q := m.Props[h]; q != nil && p.Tainted {
			q.Tainted = true
		}
	}
	m.CommitteeTainted = old.CommitteeTainted
	m.viol, m.event = old.viol, old.event
	s.m = m
	s.hist = s.hist[:upTo+1]
	s.synced = upTo
}

// rollbackWithdraw: a block holding a payload-v1 withdraw request is
// disconnected by the node's own reorganisation path (a longer competing
// branch handed to ProcessBlock) before its real-withdraw was mined; the new
// branch carries the owner's request as a DIFFERENT transaction. The model is
// rebuilt from the new active chain; the pending payout requests, and what the
// following real-withdraw pays, must equal the model's.
func (s *c29) rollbackWithdraw() {
	nd := s.nd
	next := nd.Height() + 1
	if len(s.pend) != 0 || s.fatal || s.diverged || s.rollbacks >= 2 || !s.m.TermKnown || next < s.e.RevertToPOWStart+8 ||
		next+6 >= s.termEnd && next <= s.termEnd+6 || len(nd.Committee.GetRealWithdrawTransactions()) != 0 || s.r.Intn(3) != 0 {
		return
	}
	var f *c29Flow
	var ownerKey *account.Account
	var amt common.Fixed64
	var rcpt common.Uint168
	for _, x := range s.flows {
		p := s.m.Props[x.hash]
		if !x.mined || x.target != nil || p == nil || p.Tainted || s.holding(x) {
			continue
		}
		ps := nd.Committee.GetProposal(x.hash)
		if ps == nil {
			continue
		}
		a := nd.Committee.AvailableWithdrawalAmount(x.hash)
		o := node.KeyByPub(ps.ProposalOwner)
		if a > s.realFee && o != nil {
			f, ownerKey, amt, rcpt = x, o, a, ps.Recipient
			break
		}
	}
	if f == nil {
		return
	}
	in1, ok := s.take(ownerKey)
	if !ok {
		return
	}
	parent := nd.TipBlock()
	w1 := node.CRCProposalWithdraw(in1, ownerKey, f.hash, rcpt, amt)
	if !s.submit("CRCProposalWithdraw:to-be-rolled-back", in1, w1) || !s.mine() {
		return
	}
	B := nd.TipBlock()
	h1 := w1.Hash()
	has := false
	for _, tx := range B.Transactions {
		if tx.Hash().IsEqual(h1) {
			has = true
		}
	}
	if !has || B.Height != parent.Height+1 || nd.Committee.IsAppropriationNeeded() || nd.Arbiters.IsNeedNextTurnDPOSInfo() ||
		nd.Committee.LastCommitteeHeight == B.Height || s.diverged {
		s.c.Inc("rollback_skipped_block_not_suitable")
		return
	}
	in2, ok := s.w.Take(s.attacker, node.ELA(1))
	if !ok {
		return
	}
	s.rollbacks++
	w2 := node.CRCProposalWithdraw(in2, ownerKey, f.hash, rcpt, amt)
	var txs []interfaces.Transaction
	var fees common.Fixed64
	for _, tx := range B.Transactions[1:] {
		if tx.Hash().IsEqual(h1) {
			tx = w2
		}
		txs = append(txs, tx)
		refs, err := nd.Chain.UTXOCache.GetTxReference(tx)
		if err != nil {
			s.c.Inc("rollback_skipped_no_references")
			s.w.Release(in2)
			return
		}
		for _, o := range refs {
			fees += o.Value
		}
		for _, o := range tx.Outputs() {
			fees -= o.Value
		}
	}
	s.c.Begin("rollback of block %d holding a v1 withdraw", B.Height)
	s.c.Inc("rollback_attempts")
	a1, err := nd.AssembleOn(node.BlockSpec{Parent: parent, Txs: txs, Fees: fees, Nonce: 0xc29a1})
	if err != nil {
		s.c.Inc("rollback_assemble_failed")
		s.w.Release(in2)
		return
	}
	a2, err := nd.AssembleOn(node.BlockSpec{Parent: a1, Nonce: 0xc29a2})
	if err != nil {
		s.c.Inc("rollback_assemble_failed")
		s.w.Release(in2)
		return
	}
	// both blocks of the competing branch are confirmed by the arbiters (the sibling by the same sponsor as the block it replaces):
	// blocks connected without a confirm count as missed by the on-duty arbiter and turn the CR members inactive
	var cf1, cf2 *payload.Confirm
	if nd.NeedsConfirm(a1.Height) {
		db, e := nd.Chain.GetDposBlockByHash(B.Hash())
		if e != nil || db.Confirm == nil {
			s.c.Inc("rollback_skipped_no_confirm_of_replaced_block")
			s.w.Release(in2)
			return
		}
		cf1, err = nd.ConfirmWith(a1, node.ConfirmOpts{Sponsor: db.Confirm.Proposal.Sponsor, ViewOffset: db.Confirm.Proposal.ViewOffset})
		if err == nil {
			cf2, err = nd.ConfirmFor(a2)
		}
		if err != nil {
			s.c.Inc("rollback_skipped_confirm_failed")
			s.w.Release(in2)
			return
		}
	}
	nd.Chain.ProcessBlock(a1, cf1)
	_, _, perr := nd.Chain.ProcessBlock(a2, cf2)
	if !nd.Tip().IsEqual(a2.Hash()) {
		s.c.Inc("rollback_refused_by_node")
		s.trace("reorganisation refused: %v", perr)
		s.w.Release(in2)
		return
	}
	nd.PostBlock(a1)
	nd.PostBlock(a2)
	nd.Chain.UTXOCache.CleanTxCache()
	s.w.Release(in1)
	s.trace("REORG: block %d (withdraw %s) replaced by %d,%d (withdraw %s)", B.Height, h1.String()[:12], a1.Height, a2.Height, w2.Hash().String()[:12])
	inElB := s.hist[B.Height].inElection
	s.rebuildModel(parent.Height)
	s.cause = "withdraw-rolled-back-and-reincluded"
	s.apply(a1, inElB)
	s.apply(a2, nd.Committee.IsInElectionPeriod())
	s.c.Inc("v1_withdraw_rolled_back_then_reincluded")
	s.c.Case("rollback:"+h1.String(), true)
	s.compare()
	// the payout: the next real-withdraw must settle exactly the re-included request
	h2 := w2.Hash()
	for i := 0; i < 3 && !s.fatal; i++ {
		s.cause = "withdraw-rolled-back-and-reincluded"
		if !s.mine() {
			return
		}
		if at, ok := s.m.PaidReq[h2]; ok && at == nd.Height() {
			s.c.Inc("real_withdraw_checked_after_rollback")
			if ps := nd.Committee.GetRealWithdrawTransactions(); len(ps) == 0 {
				s.c.Inc("no_payout_request_left_after_rollback_payout")
			}
			return
		}
	}
	s.c.Inc("real_withdraw_not_seen_after_rollback")
}

// mineCustom mines a block with exactly txs plus the node-generated
// transactions that pass keep.
func (s *c29) mineCustom(keep func(interfaces.Transaction) bool, txs ...interfaces.Transaction) (*types.Block, bool) {
	var all []interfaces.Transaction
	for _, tx := range s.nd.SystemTxs() {
		if keep(tx) {
			all = append(all, tx)
		}
	}
	all = append(all, txs...)
	var fees common.Fixed64
	for _, tx := range all {
		refs, err := s.nd.Chain.UTXOCache.GetTxReference(tx)
		if err != nil {
			return nil, false
		}
		for _, o := range refs {
			fees += o.Value
		}
		for _, o := range tx.Outputs() {
			fees -= o.Value
		}
	}
	b, err := s.nd.AssembleOn(node.BlockSpec{Txs: all, Fees: fees})
	if err != nil {
		return nil, false
	}
	tip := s.nd.Tip()
	s.nd.ProcessConfirmed(b)
	if s.nd.Tip().IsEqual(tip) {
		return b, false
	}
	s.nd.PostBlock(b)
	s.nd.Chain.UTXOCache.CleanTxCache()
	s.nd.BlockPool.CleanFinalConfirmedBlock(b.Height)
	return b, true
}

// foreignRealWithdraw: a real-withdraw transaction that settles the pending
// payout requests with SOMEBODY ELSE'S money: its input is an ordinary output
// of a third party and it carries no signature at all.
func (s *c29) foreignRealWithdraw() {
	kind := "real-withdraw-from-foreign-unsigned-input"
	pendReq := s.nd.Committee.GetRealWithdrawTransactions()
	if len(pendReq) == 0 || s.foreignDone || len(s.pend) != 0 {
		return
	}
	var keys []common.Uint256
	var need common.Fixed64
	for k := range pendReq {
		keys = append(keys, k)
		need += pendReq[k].Amount
	}
	sort.Slice(keys, func(i, j int) bool { return keys[i].Compare(keys[j]) < 0 })
	victim := s.boot.Voters[1]
	in, ok := s.w.Take(victim, need+node.ELA(1))
	if !ok {
		return
	}
	s.foreignDone = true
	in.Owner = nil
	var outs []*common2.Output
	for _, k := range keys {
		outs = append(outs, node.StdOut(pendReq[k].Recipient, pendReq[k].Amount-s.realFee))
	}
	exp := s.expenses
	tx := node.BuildTx(node.TxSpec{Type: common2.CRCProposalRealWithdraw, Payload: &payload.CRCProposalRealWithdraw{WithdrawTransactionHashes: keys},
		Ins: []node.UTXORef{in}, Outs: outs, Fee: s.realFee * common.Fixed64(len(keys)), ChangeTo: &exp, NoSign: true})
	th := tx.Hash()
	s.c.Inc("hostile_attempts")
	s.c.Inc("hostile_attempts:" + kind)
	s.c.Begin("hostile %s", kind)
	s.c.Case("hostile:"+kind+":"+th.String(), true)
	inElection := s.nd.Committee.IsInElectionPeriod()
	s.cause = kind
	b, okb := s.mineCustom(func(t interfaces.Transaction) bool { return t.TxType() != common2.CRCProposalRealWithdraw }, tx)
	if !okb {
		s.cause = "honest-flow"
		s.c.Inc("hostile_rejected_block")
		s.c.Inc("hostile_rejected_block:" + kind)
		s.w.Release(in)
		return
	}
	s.c.Inc("hostile_ACCEPTED_block:" + kind)
	s.trace("HOSTILE %s ACCEPTED in block %d", kind, b.Height)
	s.after(b, inElection)
}

// hostileRealWithdraw: with payout requests pending, a crafted second
// real-withdraw transaction (other CR expenses inputs) rides in the same block
// as the node's own; also an inflated one and one for a settled request.
func (s *c29) hostileRealWithdraw() {
	pendReq := s.nd.Committee.GetRealWithdrawTransactions()
	if len(pendReq) == 0 {
		return
	}
	sys := s.nd.SystemTxs()
	used := map[node.OutKey]bool{}
	var own interfaces.Transaction
	for _, tx := range sys {
		if tx.TxType() == common2.CRCProposalRealWithdraw {
			own = tx
			for _, in := range tx.Inputs() {
				used[node.OutKey{TxID: in.Previous.TxID, Index: in.Previous.Index}] = true
			}
		}
	}
	if own == nil {
		return
	}
	var keys []common.Uint256
	for k := range pendReq {
		keys = append(keys, k)
	}
	sort.Slice(keys, func(i, j int) bool { return keys[i].Compare(keys[j]) < 0 })
	var need common.Fixed64
	for _, k := range keys {
		need += pendReq[k].Amount
	}
	var ins []node.UTXORef
	var have common.Fixed64
	for _, u := range s.w.UTXOs(s.expenses) {
		if used[node.OutKey{TxID: u.TxID, Index: u.Index}] {
			continue
		}
		ins = append(ins, u)
		have += u.Value
	}
	build := func(extra common.Fixed64, ins []node.UTXORef) interfaces.Transaction {
		var outs []*common2.Output
		for _, k := range keys {
			outs = append(outs, node.StdOut(pendReq[k].Recipient, pendReq[k].Amount-s.realFee+extra))
		}
		exp := s.expenses
		return node.BuildTx(node.TxSpec{Type: common2.CRCProposalRealWithdraw, Payload: &payload.CRCProposalRealWithdraw{WithdrawTransactionHashes: keys},
			Ins: ins, Outs: outs, Fee: s.realFee * common.Fixed64(len(keys)), ChangeTo: &exp, NoSign: true})
	}
	if have >= need {
		kind := "second-real-withdraw-one-block"
		s.c.Inc("hostile_attempts")
		s.c.Inc("hostile_attempts:" + kind)
		s.c.Begin("hostile %s", kind)
		tx := build(0, ins)
		th := tx.Hash()
		s.blockAttempt(kind, "overspend:real-withdraw-paid-twice:same-block", nil, tx)
		s.c.Case("hostile:"+kind+":"+th.String(), true)
	} else {
		s.c.Inc("second_real_withdraw_skipped_no_spare_expenses_utxo")
	}
	// instead of the node's own: a real withdraw that pays every request a little more than it asked for
	if len(s.pend) == 0 && s.r.Intn(2) == 0 {
		kind := "real-withdraw-inflated"
		var all []node.UTXORef
		var sum common.Fixed64
		for _, u := range s.w.UTXOs(s.expenses) {
			all = append(all, u)
			sum += u.Value
		}
		extra := common.Fixed64(1 + s.r.Int63n(int64(node.ELA(1))))
		if sum < need+extra*common.Fixed64(len(keys)) {
			return
		}
		tx := build(extra, all)
		th := tx.Hash()
		s.c.Inc("hostile_attempts")
		s.c.Inc("hostile_attempts:" + kind)
		s.c.Begin("hostile %s", kind)
		s.c.Case("hostile:"+kind+":"+th.String(), true)
		if err := s.nd.TxPool.AppendToTxPool(tx); err == nil {
			s.c.Inc("hostile_ACCEPTED_mempool:" + kind)
			s.c.Violate("follow-money:real-withdraw-output-mismatch:mempool", fmt.Sprintf("height %d: the mempool accepted a real withdraw paying %d sela more than requested per request", s.nd.Height()+1, int64(extra)), nil)
		} else {
			s.c.Inc("hostile_rejected_mempool")
			s.c.Inc("hostile_rejected_mempool:" + kind)
			s.reason(kind, "mempool", err)
		}
		inElection := s.nd.Committee.IsInElectionPeriod()
		s.cause = kind
		b, okb := s.mineCustom(func(t interfaces.Transaction) bool { return t.TxType() != common2.CRCProposalRealWithdraw }, tx)
		if !okb {
			s.cause = "honest-flow"
			s.c.Inc("hostile_rejected_block")
			s.c.Inc("hostile_rejected_block:" + kind)
			return
		}
		s.c.Inc("hostile_ACCEPTED_block:" + kind)
		s.after(b, inElection)
	}
}

// ---------- proposal histories ----------

func (s *c29) genBudgets(maxTotal common.Fixed64, elip bool) []payload.Budget {
	n := 1 + s.r.Intn(6)
	imprest := s.r.Intn(3) != 0
	if elip {
		n, imprest = 2, true
	}
	for n > 1 && !elip && int64(maxTotal)/int64(n) < int64(node.ELA(2)) {
		n--
	}
	if int64(maxTotal)/int64(n) < int64(node.ELA(2)) {
		maxTotal = node.ELA(2) * common.Fixed64(n)
	}
	if n == 1 {
		imprest = false
	}
	var bs []payload.Budget
	stage := uint8(1)
	if imprest {
		stage = 0
	}
	per := int64(maxTotal) / int64(n)
	for i := 0; i < n; i++ {
		t := payload.NormalPayment
		if i == 0 && imprest {
			t = payload.Imprest
		}
		if i == n-1 {
			t = payload.FinalPayment
		}
		var a int64
		switch s.r.Intn(12) {
		case 0:
			a = 0
		case 1:
			a = int64(s.realFee) - int64(s.r.Intn(2)) // at / just below the real-withdraw fee: can never be paid out alone
		default:
			a = int64(node.ELA(1)) + s.r.Int63n(per-int64(node.ELA(1))+1)
		}
		bs = append(bs, payload.Budget{Type: t, Stage: stage, Amount: common.Fixed64(a)})
		stage++
	}
	return bs
}

func budgetTotal(bs []payload.Budget) *big.Int {
	t := new(big.Int)
	for _, b := range bs {
		t.Add(t, bigF(b.Amount))
	}
	return t
}

// cap is the per-proposal limit (10% of the term's uncommitted funds at its start).
func (s *c29) cap() common.Fixed64 {
	d := new(big.Int).Sub(s.m.StageFunds, s.m.UsedAtTermStart)
	d.Mul(d, big.NewInt(10)).Div(d, big.NewInt(100))
	if !d.IsInt64() {
		return 0
	}
	return common.Fixed64(d.Int64())
}

// room is what the model says may still be committed (chain view; pool=true also
// subtracts the proposals waiting in the mempool).
func (s *c29) room(pool bool) *big.Int {
	r := s.m.Remaining()
	if pool {
		r.Sub(r, s.poolCommitted)
	}
	return r
}

func (s *c29) newFlow(typ payload.CRCProposalType, budgets []payload.Budget) *c29Flow {
	var free []*account.Account
	for _, m := range s.boot.Members {
		if !s.memberBusy[m.Address] {
			free = append(free, m)
		}
	}
	if len(free) == 0 {
		s.c.Inc("no_free_sponsoring_member")
		return nil
	}
	f := &c29Flow{id: len(s.flows), typ: typ, owner: s.owners[s.r.Intn(len(s.owners))], member: free[s.r.Intn(len(free))],
		budgets: budgets, done: map[string]bool{}}
	f.recipient = s.owners[s.r.Intn(len(s.owners))].ProgramHash
	return f
}

func (s *c29) memberOf(did common.Uint168) *account.Account {
	for _, m := range s.boot.Members {
		if node.DIDOf(m).IsEqual(did) {
			return m
		}
	}
	return nil
}

func (s *c29) proposalTx(in node.UTXORef, f *c29Flow) interfaces.Transaction {
	sp := node.ProposalSpec{Type: f.typ, Owner: f.owner, CRMember: f.member, Draft: s.uniq("draft"), Budgets: f.budgets, Recipient: f.recipient}
	if f.target != nil {
		sp.Target = f.target.hash
		sp.Recipient = common.Uint168{}
		sp.Budgets = nil
		if f.typ == payload.ChangeProposalOwner {
			no := s.owners[s.r.Intn(len(s.owners))]
			if ps := s.nd.Committee.GetProposal(f.target.hash); ps != nil && string(node.Pub(no)) == string(ps.ProposalOwner) {
				no = s.attacker
			}
			sp.NewOwner = no
			sp.NewRecipient = no.ProgramHash
		}
	}
	tx := node.CRCProposalTx(in, sp, s.pv())
	f.hash = node.ProposalHash(tx)
	return tx
}

// plan draws the reviews, the voter reaction and the script after agreement.
func (s *c29) plan(f *c29Flow) {
	nm := len(s.boot.Members)
	f.review = make([]int, nm)
	f.reviewAge = make([]int, nm)
	mode := s.r.Intn(10)
	for i := 0; i < nm; i++ {
		f.review[i] = int(payload.Approve)
		f.reviewAge[i] = s.r.Intn(int(s.nd.Cfg.CRConfiguration.ProposalCRVotingPeriod))
	}
	switch {
	case mode == 0: // not enough approvals
		k := s.r.Intn(3) // 0..2 approvals
		for i := k; i < nm; i++ {
			f.review[i] = []int{int(payload.Reject), int(payload.Abstain), -1}[s.r.Intn(3)]
		}
	case mode == 1: // exactly the agreement count
		f.review[s.r.Intn(nm)] = int(payload.Reject)
	case mode == 2: // a member changes its mind late (last review wins)
		f.reviewAge[0] = 0
	}
	switch s.r.Intn(8) {
	case 0:
		f.reject = 2
	case 1, 2:
		f.reject = 1
	}
	if f.target != nil {
		f.reject = 0
		for i := 0; i < nm; i++ {
			f.review[i] = int(payload.Approve)
			f.reviewAge[i] = 0
		}
		return
	}
	if f.late {
		f.reject = 0
		for i := 0; i < nm; i++ {
			f.review[i] = int(payload.Approve)
			f.reviewAge[i] %= 3
		}
	}
	// script
	var normals []uint8
	for _, b := range f.budgets {
		if b.Type == payload.NormalPayment {
			normals = append(normals, b.Stage)
		}
	}
	if s.r.Intn(2) == 0 {
		s.r.Shuffle(len(normals), func(i, j int) { normals[i], normals[j] = normals[j], normals[i] })
	}
	var ops []c29Op
	add := func(k string, st uint8) { ops = append(ops, c29Op{k, st}) }
	maybe := func(p int, k string, st uint8) {
		if s.r.Intn(p) == 0 {
			add(k, st)
		}
	}
	maybe(3, "H:withdraw-over", 0)
	maybe(2, "W", 0)
	maybe(3, "H:withdraw-repeat", 0)
	maybe(4, "H:progress-imprest-stage", 0)
	cut := len(normals)
	if s.r.Intn(3) == 0 && cut > 0 {
		cut = s.r.Intn(cut + 1) // stop approving early
	}
	for _, st := range normals[:cut] {
		maybe(4, "Rj", st)
		maybe(3, "H:withdraw-unapproved-stage", 0)
		maybe(6, "H:progress-fake-secretary", st)
		maybe(6, "H:progress-non-owner", st)
		add("P", st)
		maybe(4, "H:progress-approved-stage", st)
		maybe(2, "W", 0)
		maybe(4, "H:withdraw-repeat", 0)
		maybe(8, "C", 0)
	}
	// sprinkle
	sprinkle := []string{"H:withdraw-non-owner", "H:withdraw-forged-owner-signature", "H:withdraw-wrong-recipient", "H:two-withdraws-one-block", "O", "H:progress-final-stage", "H:finalize-fake-secretary", "H:withdraw-over"}
	for _, k := range sprinkle {
		if s.r.Intn(4) == 0 {
			pos := s.r.Intn(len(ops) + 1)
			ops = append(ops[:pos], append([]c29Op{{k, f.budgets[len(f.budgets)-1].Stage}}, ops[pos:]...)...)
		}
	}

	switch s.r.Intn(8) {
	case 0, 1, 2:
		add("F", f.budgets[len(f.budgets)-1].Stage)
	case 3:
		add("T", 0)
	case 4:
		add("X", 0) // CloseProposal
	case 5:
		add("CO", 0) // ChangeProposalOwner
		add("F", f.budgets[len(f.budgets)-1].Stage)
	case 6:
		add("XE", 0) // CloseProposal, and the owner ends the proposal himself while the CloseProposal is in its public vote
	default: // stays VoterAgreed until the term ends
	}
	if f.id%4 == 1 && !f.filler && (len(ops) == 0 || ops[len(ops)-1].kind != "XE") {
		// regularly: cut the script short and end with the close-while-ending history
		if len(ops) > 3 {
			ops = ops[:3]
		}
		for len(ops) > 0 && (ops[len(ops)-1].kind == "F" || ops[len(ops)-1].kind == "T" || ops[len(ops)-1].kind == "X") {
			ops = ops[:len(ops)-1]
		}
		add("XE", 0)
	}
	f.script = ops
}

func (s *c29) register(f *c29Flow) bool {
	in, ok := s.take(f.owner)
	if !ok {
		s.c.Inc("no_funds_for_owner")
		return false
	}
	tx := s.proposalTx(in, f)
	room := s.room(true)
	tot := budgetTotal(f.budgets)
	fits := tot.Cmp(room) <= 0 && (f.target != nil || tot.Cmp(bigF(s.cap())) <= 0)
	okPool := s.submit("CRCProposal:"+f.typ.Name(), in, tx)
	switch {
	case okPool && !fits:
		// an honest-looking registration the model says does not fit: the model check after the block decides
		s.c.Inc("register_accepted_although_model_says_no_room")
		s.cause = "mempool"
	case !okPool && fits:
		s.c.Inc("register_refused_although_model_says_room")
	}
	if okPool {
		s.memberBusy[f.member.Address] = true
		s.plan(f)
		s.flows = append(s.flows, f)
		s.byH[f.hash] = f
		for _, b := range f.budgets {
			s.poolCommitted.Add(s.poolCommitted, bigF(b.Amount))
		}
		s.trace("registered flow %d %s budgets %v reject=%d script=%v", f.id, f.typ.Name(), f.budgets, f.reject, f.script)
	}
	return okPool
}

func (s *c29) legitWithdraw(f *c29Flow) bool {
	ps := s.nd.Committee.GetProposal(f.hash)
	amt := s.nd.Committee.AvailableWithdrawalAmount(f.hash)
	if ps == nil {
		return false
	}
	if amt <= s.realFee {
		if amt > 0 {
			s.c.Inc("withdraw_skipped_amount_not_above_fee")
		}
		return false
	}
	if s.holding(f) {
		s.c.Inc("withdraw_held_over_committee_change")
		return false
	}
	owner := node.KeyByPub(ps.ProposalOwner)
	if owner == nil {
		return false
	}
	in, ok := s.take(owner)
	if !ok {
		in, ok = s.take(s.attacker) // anybody may pay the fee
		if !ok {
			return false
		}
	}
	return s.submit("CRCProposalWithdraw", in, node.CRCProposalWithdraw(in, owner, f.hash, ps.Recipient, amt))
}

// holding: in a term that ends with a re-election, half of the histories (and
// every late one) do not withdraw during the last blocks of the term, so that
// stages are released-but-unwithdrawn exactly when the committee changes.
func (s *c29) holding(f *c29Flow) bool {
	h := s.nd.Height() + 1
	return s.reelect && h+24 >= s.termEnd && h <= s.termEnd+1 && (f.late || f.id%2 == 0)
}

// tick lets one proposal history take its next step before the next block.
func (s *c29) tick(f *c29Flow) {
	if !f.mined || s.fatal {
		return
	}
	ps := s.nd.Committee.GetProposal(f.hash)
	if ps == nil {
		return
	}
	st := ps.Status.String()
	if st != f.lastStatus {
		f.lastStatus = st
	}
	age := int(s.nd.Height() - f.regH)
	switch st {
	case c29Registered:
		for i, m := range s.boot.Members {
			if f.review[i] >= 0 && f.reviewAge[i] == age {
				if in, ok := s.take(m); ok {
					s.submit("CRCProposalReview", in, node.CRCProposalReview(in, m, f.hash, payload.VoteResult(f.review[i]), s.uniq("op"), s.pv()))
				}
			}
		}
		if f.target == nil && !f.filler && age == 2 && s.r.Intn(3) == 0 {
			s.hostileWithdraw(f, "withdraw-early")
		}
	case c29CRAgreed:
		if f.reject == 2 && !f.votedBig {
			f.votedBig = true
			s.whaleVotes[f.hash] = true
		}
		if f.reject == 1 && !f.votedSmall {
			f.votedSmall = true
			if in, ok := s.w.Take(s.attacker, node.ELA(1001)); ok {
				s.submit("Vote-against-small", in, node.VoteAgainstProposals(in, node.ELA(1000), f.hash))
			}
		}
		if f.target == nil && s.r.Intn(6) == 0 {
			s.hostileWithdraw(f, "withdraw-early")
		}
	case c29VoterAgreed:
		if f.target != nil {
			return
		}
		if next := s.nd.Height() + 1; s.reelect && next+4 >= s.termEnd && next <= s.termEnd && !f.done["progress-before-change"] && f.id%3 != 2 {
			// a stage is released by the secretary general in the last blocks of the term
			for _, b := range f.budgets {
				if _, ok := ps.WithdrawableBudgets[b.Stage]; !ok && b.Type == payload.NormalPayment && b.Amount > s.realFee {
					if owner := node.KeyByPub(ps.ProposalOwner); owner != nil {
						if in, ok := s.take(owner); ok && s.submit("CRCProposalTracking:Progress:before-committee-change", in, s.trackingTx(in, owner, s.sec, f, payload.Progress, b.Stage, nil)) {
							f.done["progress-before-change"] = true
							return
						}
					}
					break
				}
			}
		}
		if f.closer != nil && f.closer.mined && !f.done["end-during-close-vote"] {
			if cs := s.nd.Committee.GetProposal(f.closer.hash); cs != nil && cs.Status.String() == c29CRAgreed && s.r.Intn(3) != 0 {
				// the CloseProposal is in its public voting period: the owner terminates / finalizes the proposal himself
				if owner := node.KeyByPub(ps.ProposalOwner); owner != nil {
					if in, ok := s.take(owner); ok {
						stage := uint8(0)
						if f.endKind == payload.Finalized {
							stage = f.budgets[len(f.budgets)-1].Stage
						}
						if s.submit("CRCProposalTracking:"+f.endKind.Name()+":during-close-vote", in, s.trackingTx(in, owner, s.sec, f, f.endKind, stage, nil)) {
							f.done["end-during-close-vote"] = true
							s.c.Inc("target_ended_during_close_proposal_vote")
						}
					}
				}
				return
			}
		}
		if f.pc >= len(f.script) {
			if s.r.Intn(4) == 0 {
				s.legitWithdraw(f)
			}
			return
		}
		if s.r.Intn(3) == 0 {
			return // idle block
		}
		op := f.script[f.pc]
		f.pc++
		s.exec(f, op, ps.ProposalOwner)
	case c29Finished, c29Terminated:
		if f.target != nil {
			return
		}
		if s.nd.Committee.AvailableWithdrawalAmount(f.hash) > s.realFee {
			if f.id%3 == 0 {
				s.hostileTwoWithdrawsOneBlock(f)
			}
			s.legitWithdraw(f)
			return
		}
		switch s.r.Intn(4) {
		case 0:
			s.hostileWithdraw(f, "withdraw-after-end")
		case 1:
			s.hostileTracking(f, "tracking-after-end", f.budgets[0].Stage)
		case 2:
			s.hostileWithdraw(f, "withdraw-unapproved-stage")
		}
	case c29CRCanceled, c29VoterCanceled, c29Aborted:
		if f.target == nil && !f.filler {
			s.hostileWithdraw(f, "withdraw-canceled")
		}
	}
}

func (s *c29) exec(f *c29Flow, op c29Op, ownerPub []byte) {
	owner := node.KeyByPub(ownerPub)
	if owner == nil {
		return
	}
	honestTracking := func(typ payload.CRCProposalTrackingType, stage uint8, newOwner *account.Account) {
		in, ok := s.take(owner)
		if !ok {
			if in, ok = s.take(s.attacker); !ok {
				return
			}
		}
		s.submit("CRCProposalTracking:"+typ.Name(), in, s.trackingTx(in, owner, s.sec, f, typ, stage, newOwner))
	}
	switch op.kind {
	case "W":
		s.legitWithdraw(f)
	case "P":
		honestTracking(payload.Progress, op.stage, nil)
	case "Rj":
		honestTracking(payload.Rejected, op.stage, nil)
	case "C":
		honestTracking(payload.Common, 0, nil)
	case "F":
		honestTracking(payload.Finalized, op.stage, nil)
	case "T":
		honestTracking(payload.Terminated, 0, nil)
	case "O":
		no := s.owners[s.r.Intn(len(s.owners))]
		if no.Address == owner.Address {
			no = s.attacker
		}
		honestTracking(payload.ChangeOwner, 0, no)
	case "X", "CO", "XE":
		if op.kind == "XE" && s.nd.Height()+1 < s.nd.Cfg.CRConfiguration.CRCProposalV1Height {
			f.pc-- // special proposals are not allowed yet: wait
			return
		}
		if s.nd.Height()+1 < s.nd.Cfg.CRConfiguration.CRCProposalV1Height || s.nd.Height()+1 >= s.registerUntil {
			return
		}
		typ := payload.CloseProposal
		if op.kind == "CO" {
			typ = payload.ChangeProposalOwner
		}
		sp := s.newFlow(typ, nil)
		if sp == nil {
			f.pc-- // try again next block
			return
		}
		sp.target = f
		sp.owner = owner
		if s.register(sp) && op.kind == "XE" {
			f.closer = sp
			f.endKind = payload.Terminated
			if s.r.Intn(3) == 0 {
				f.endKind = payload.Finalized
			}
			s.c.Inc("close_then_end_histories_started")
		}
	case "H:two-withdraws-one-block":
		s.hostileTwoWithdrawsOneBlock(f)
	default:
		if len(op.kind) > 2 && op.kind[:2] == "H:" {
			k := op.kind[2:]
			if len(k) > 8 && k[:8] == "withdraw" {
				s.hostileWithdraw(f, k)
			} else {
				st := op.stage
				switch k {
				case "progress-imprest-stage":
					st = f.budgets[0].Stage
					if f.budgets[0].Type != payload.Imprest {
						return
					}
				case "progress-final-stage", "finalize-fake-secretary":
					st = f.budgets[len(f.budgets)-1].Stage
				}
				s.hostileTracking(f, k, st)
			}
		}
	}
}

// preBlock runs the steps that need a block of their own (nothing pending).
func (s *c29) preBlock() {
	if len(s.pend) != 0 || s.fatal {
		return
	}
	if s.c.Shard%4 == 1 {
		s.foreignRealWithdraw()
	}
	s.rollbackWithdraw()
	// late in the term (the committee-level comparison stops for the rest of it if the bookkeeping goes wrong):
	// two trackings of one proposal in one block, for up to three proposals that still have an unapproved normal stage
	if s.c.Shard%3 == 2 && s.twoTrackings < 3 && s.nd.Height()+16 >= s.registerUntil && s.nd.Height() < s.registerUntil+10 {
		for _, f := range s.flows {
			if len(s.pend) != 0 || s.fatal || s.twoTrackings >= 3 {
				break
			}
			if f.mined && f.target == nil && !f.done["two-trackings-one-block"] {
				before := s.nd.Height()
				s.twoTrackingsOneBlock(f)
				if s.nd.Height() != before {
					s.twoTrackings++
				}
			}
		}
	}
}

func (s *c29) tickAll() {
	for _, f := range append([]*c29Flow{}, s.flows...) {
		s.tick(f)
	}
	if s.r.Intn(3) == 0 {
		s.hostileRealWithdraw()
	}
	s.flushWhale()
}

// flushWhale re-casts the whale's reject votes so that they cover every
// CRAgreed proposal that is to be cancelled by the voters.
func (s *c29) flushWhale() {
	var hs []common.Uint256
	changed := false
	for h := range s.whaleVotes {
		ps := s.nd.Committee.GetProposal(h)
		if ps == nil || ps.Status.String() != c29CRAgreed {
			delete(s.whaleVotes, h)
			continue
		}
		hs = append(hs, h)
		if f := s.byH[h]; f != nil && !f.done["whale"] {
			f.done["whale"] = true
			changed = true
		}
	}
	if !changed || !s.whaleHas {
		return
	}
	sort.Slice(hs, func(i, j int) bool { return hs[i].Compare(hs[j]) < 0 })
	val := s.whaleRef.Value - node.DefaultFee
	tx := node.VoteAgainstProposals(s.whaleRef, val, hs...)
	if err := s.nd.TxPool.AppendToTxPool(tx); err != nil {
		s.c.Inc("whale_vote_rejected")
		s.trace("whale vote rejected: %v", err)
		return
	}
	s.c.Inc("whale_votes_cast")
	s.pend = append(s.pend, tx)
	s.whaleRef = node.OutRef(tx, 0, s.whale)
}

// ---------- the committee's budget under competition ----------

// fillerFlow is a short proposal of exactly `total`.
func (s *c29) fillerFlow(total common.Fixed64) *c29Flow {
	var bs []payload.Budget
	switch s.r.Intn(3) {
	case 0:
		bs = []payload.Budget{{Type: payload.FinalPayment, Stage: 1, Amount: total}}
	case 1:
		a := total / 3
		bs = []payload.Budget{{Type: payload.Imprest, Stage: 0, Amount: a}, {Type: payload.FinalPayment, Stage: 1, Amount: total - a}}
	default:
		a := total / 4
		bs = []payload.Budget{{Type: payload.Imprest, Stage: 0, Amount: a}, {Type: payload.NormalPayment, Stage: 1, Amount: a}, {Type: payload.FinalPayment, Stage: 2, Amount: total - 2*a}}
	}
	f := s.newFlow(payload.Normal, bs)
	if f != nil {
		f.filler = true
	}
	return f
}

func (s *c29) pendingProposals() []interfaces.Transaction {
	var l []interfaces.Transaction
	for _, tx := range s.pend {
		if tx.TxType() == common2.CRCProposal {
			l = append(l, tx)
		}
	}
	return l
}

// overBudget: f's budgets do not fit into what the committee may still commit
// (given the proposals `with` that go first). Mempool (unless blockOnly) and a
// block carrying `with` + f must both refuse it. with = nil: the proposals
// waiting in the pool.
func (s *c29) overBudget(kind string, f *c29Flow, blockOnly bool, with []interfaces.Transaction) {
	if f == nil || s.fatal {
		return
	}
	in, ok := s.take(f.owner)
	if !ok {
		return
	}
	tx := s.proposalTx(in, f)
	th := tx.Hash()
	sig := "overspend:committee-budget-exceeded:" + kind
	s.c.Inc("hostile_attempts")
	s.c.Inc("hostile_attempts:" + kind)
	s.c.Begin("hostile %s", kind)
	s.c.Case("hostile:"+kind+":"+th.String(), true)
	if !blockOnly {
		err := s.nd.TxPool.AppendToTxPool(tx)
		if err == nil {
			s.c.Inc("hostile_ACCEPTED_mempool:" + kind)
			s.trace("HOSTILE %s ACCEPTED by mempool", kind)
			s.c.Violate(sig+":mempool", fmt.Sprintf("height %d: the mempool accepted a proposal of %s sela while the committee may only commit %s more (stage funds %s, committed %s, waiting in the pool %s)",
				s.nd.Height()+1, budgetTotal(f.budgets), s.room(true), s.m.StageFunds, s.m.Used(), s.poolCommitted), map[string]interface{}{"budgets": fmt.Sprint(f.budgets), "shard": s.c.Shard, "seed": s.c.Seed})
			s.pend = append(s.pend, tx)
			s.cause = kind + ":mempool"
			s.taintWhenMined[th] = true
			return
		}
		s.reason(kind, "mempool", err)
		s.c.Inc("hostile_rejected_mempool")
		s.c.Inc("hostile_rejected_mempool:" + kind)
		if isBudgetReason(err) {
			s.c.Inc("register_rejected_over_budget:mempool")
		}
		with = s.pendingProposals()
	}
	txs := append(append([]interfaces.Transaction{}, with...), tx)
	if !s.blockAttempt(kind, sig, nil, txs...) {
		s.c.Inc("register_rejected_over_budget:block")
		s.w.Release(in)
	}
}

func isBudgetReason(err error) bool {
	return err != nil && (strings.Contains(err.Error(), "budgets exceeds the balance of CRC") || strings.Contains(err.Error(), "budgets is invalid") || strings.Contains(err.Error(), "budgets amount overflow"))
}

// reason records why a hostile request was refused (evidence that the refusal
// came from the rule under test).
func (s *c29) reason(kind, path string, err error) {
	if err == nil {
		return
	}
	msg := err.Error()
	if i := strings.LastIndex(msg, "invalid:"); i >= 0 {
		msg = msg[i+8:]
	}
	var b []rune
	for _, r := range msg {
		if r >= '0' && r <= '9' {
			continue
		}
		b = append(b, r)
	}
	msg = strings.TrimSpace(string(b))
	if i := strings.Index(msg, ", proposal hash"); i >= 0 {
		msg = msg[:i]
	}
	if len(msg) > 70 {
		msg = msg[:70]
	}
	s.c.Inc("reject_reason:" + kind + ":" + path + ":" + msg)
}

// compete exhausts the committee's remaining funds with competing proposals
// (at most one waiting proposal per sponsoring member fits into the mempool, so
// filling takes several blocks) and probes the boundary through the mempool and
// through blocks.
func (s *c29) compete() {
	if !s.m.TermKnown || s.m.CommitteeTainted || s.fatal {
		return
	}
	cap := s.cap()
	if cap <= node.ELA(2) {
		return
	}
	s.competeDone++
	s.c.Inc("compete_rounds")
	// 1. fill until less than two caps are left
	for round := 0; round < 16 && !s.fatal; round++ {
		n := 0
		for i := 0; i < len(s.boot.Members); i++ {
			room := s.room(true)
			if room.Cmp(bigF(2*cap-4)) < 0 {
				break
			}
			t := cap - common.Fixed64(s.r.Int63n(int64(cap)/3))
			f := s.fillerFlow(t)
			if f == nil || !s.register(f) {
				break
			}
			n++
			s.c.Inc("filler_registered")
		}
		if n == 0 {
			break
		}
		s.tickAll()
		if !s.mine() {
			return
		}
	}
	room := s.room(false)
	if !room.IsInt64() || room.Sign() <= 0 || s.m.CommitteeTainted {
		return
	}
	R := common.Fixed64(room.Int64())
	s.trace("compete: cap %d room %d used %s funds %s", int64(cap), int64(R), s.m.Used(), s.m.StageFunds)
	if R >= 2*cap {
		s.c.Inc("compete_room_not_reduced")
		return
	}
	half := R/2 + 1
	if half > cap || len(s.pend) != 0 {
		s.c.Inc("compete_half_above_cap")
		return
	}
	// 2. two proposals that fit one by one but not together, in ONE block (never seen by the mempool)
	if a, b := s.fillerFlow(half), s.fillerFlow(half); a != nil && b != nil {
		if ina, ok := s.take(a.owner); ok {
			ta := s.proposalTx(ina, a)
			s.overBudget("two-proposals-one-block", b, true, []interfaces.Transaction{ta})
			s.w.Release(ina)
			s.memberBusy = map[string]bool{}
		}
	}
	if s.fatal || s.m.CommitteeTainted {
		return
	}
	// 3. mempool: the first fits, a second one of the same size does not; then the exact rest, one sela more, and nothing at all
	if a := s.fillerFlow(half); a != nil && s.register(a) {
		s.c.Inc("filler_registered")
		s.overBudget("second-proposal-in-pool", s.fillerFlow(half), false, nil)
		left := s.room(true)
		if left.IsInt64() && left.Sign() > 0 && !s.m.CommitteeTainted {
			s.overBudget("one-sela-over", s.fillerFlow(common.Fixed64(left.Int64()+1)), false, nil)
			if exact := s.fillerFlow(common.Fixed64(left.Int64())); exact != nil && s.register(exact) {
				s.c.Inc("register_accepted_exact_fit")
				s.overBudget("budget-exhausted", s.fillerFlow(1), false, nil)
			}
		}
	}
	s.tickAll()
	s.mine()
}

// overflowProbe registers a proposal whose budget amounts are individually
// valid but whose int64 sum wraps around to a small value.
func (s *c29) overflowProbe() {
	if s.overflowDone || !s.m.TermKnown || s.m.CommitteeTainted || s.fatal {
		return
	}
	room := s.room(true)
	cap := s.cap()
	if room.Sign() <= 0 || !room.IsInt64() {
		room = big.NewInt(0)
	}
	small := common.Fixed64(room.Int64())
	if small > cap {
		small = cap
	}
	small = small / 2
	bs := []payload.Budget{{Type: payload.Imprest, Stage: 0, Amount: math.MaxInt64}, {Type: payload.NormalPayment, Stage: 1, Amount: 2 + small}, {Type: payload.FinalPayment, Stage: 2, Amount: math.MaxInt64}}
	f := s.newFlow(payload.Normal, bs)
	if f == nil {
		return
	}
	s.overflowDone = true
	f.filler = true
	s.overBudget("budget-sum-overflow", f, false, nil)
}

// ---------- setup ----------

func runC29(c *kit.Ctx) {
	r := c.Rand("c29")
	flavor := c.Shard % 4
	funding := node.ELA(int64(3000 + 1000*r.Intn(28)))
	// flavors: 0 the committee dissolves at the end of its term; 1 a new committee is elected while proposals are in flight;
	// 2 long CR / public voting periods so that Registered / CRAgreed proposals are alive when the committee dissolves; 3 a long term
	duty := uint32(150)
	crPeriod, pubPeriod := uint32(10), uint32(10)
	switch flavor {
	case 2:
		if (c.Shard/4)%2 == 0 {
			pubPeriod = 40
		} else {
			crPeriod = 40
		}
	case 3:
		duty = 260
	}
	nd, err := node.Start(node.Options{Dir: c.WorkDir, CoinbaseMaturity: 2, Tweak: func(cfg *config.Configuration) {
		node.EraTweak("dpos-era")(cfg)
		cfg.CRConfiguration.DutyPeriod = duty
		cfg.CRConfiguration.ProposalCRVotingPeriod = crPeriod
		cfg.CRConfiguration.ProposalPublicVotingPeriod = pubPeriod
	}})
	if err != nil {
		c.Inconclusive("node start: %v", err)
		return
	}
	defer nd.Close()
	defer nd.UnhookEvents()
	c.Inc("nodes_run")
	s := &c29{c: c, nd: nd, e: node.EraOf("dpos-era"), r: r, byH: map[common.Uint256]*c29Flow{}, whaleVotes: map[common.Uint256]bool{}, taintWhenMined: map[common.Uint256]bool{}, cause: "honest-flow",
		poolCommitted: new(big.Int), flavor: flavor, memberBusy: map[string]bool{}}
	if d := os.Getenv("C29_TRACE"); d != "" {
		s.trf, _ = os.Create(fmt.Sprintf("%s/c29-s%d.log", d, c.Shard))
		defer s.trf.Close()
	}
	panicked, val, stack := kit.Guard(func() { s.run(funding, duty) })
	if panicked {
		c.Inconclusive("shard %d: driver panicked at height %d: %v\n%s", c.Shard, nd.Height(), val, stack)
	}
}

func (s *c29) run(funding common.Fixed64, duty uint32) {
	nd, c := s.nd, s.c
	uv := funding + node.ELA(10)
	if uv < node.ELA(6000) {
		uv = node.ELA(6000)
	}
	boot, err := nd.Bootstrap("dpos-era", node.BootOpts{Until: "committee", Voters: 10, UTXOValue: uv, CRAssetsFunding: funding})
	if err != nil {
		c.Inconclusive("bootstrap: %v", err)
		return
	}
	s.boot, s.w = boot, boot.Wallet
	s.sec = node.Key(node.KeySecretary)
	s.expenses = *nd.Cfg.CRConfiguration.CRExpensesProgramHash
	s.realFee = nd.Cfg.CRConfiguration.RealWithdrawSingleFee
	s.attacker = boot.Voters[0]
	s.impostor = node.Key(node.KeyVoter + 45)
	s.owners = boot.Voters[3:]
	s.whale = node.Key(node.KeyVoter + 40)
	s.m = newC29Model(c29Params{CRVotingPeriod: nd.Cfg.CRConfiguration.ProposalCRVotingPeriod, PublicVotingPeriod: nd.Cfg.CRConfiguration.ProposalPublicVotingPeriod,
		AgreementCount: nd.Cfg.CRConfiguration.CRAgreementCount, RealFee: s.realFee, Expenses: s.expenses, Assets: *nd.Cfg.CRConfiguration.CRAssetsProgramHash,
		RejectSure: node.ELA(3500000), AgreeSure: node.ELA(3000000)}, s.modelViol, func(n string) {
		c.Inc(n)
		if n == "close_proposal_passed_on_already_ended_target" && (s.cause == "honest-flow" || s.cause == "") {
			s.cause = "close-proposal-on-ended-target"
		}
	})

	// the model follows the chain from genesis; the committee was elected during bootstrap
	for h := uint32(0); h <= nd.Height(); h++ {
		bh, err := nd.Chain.GetBlockHash(h)
		if err != nil {
			c.Inconclusive("block hash %d: %v", h, err)
			return
		}
		b, err := nd.Chain.GetBlockByHash(bh)
		if err != nil {
			c.Inconclusive("block %d: %v", h, err)
			return
		}
		s.hist = append(s.hist, c29Blk{b, h > nd.Cfg.CRConfiguration.CRCommitteeStartHeight, h == nd.Committee.LastCommitteeHeight})
		s.m.Apply(b, h > nd.Cfg.CRConfiguration.CRCommitteeStartHeight, h == nd.Committee.LastCommitteeHeight, "bootstrap", func(common.Uint256) string { return "" })
	}
	s.synced = nd.Height()
	s.lastCommitteeH = nd.Committee.LastCommitteeHeight
	s.compare()
	if !s.m.TermKnown {
		c.Inconclusive("no appropriation seen during bootstrap (height %d)", nd.Height())
		return
	}
	c.Max("max:stage_funds_ela", new(big.Int).Div(s.m.StageFunds, big.NewInt(1e8)).Int64())

	// whale for voter rejection + a few extra outputs on the CR expenses address
	{
		in, ok := s.w.Take(nd.Found, node.ELA(4000100))
		if !ok {
			c.Inconclusive("foundation has no 4M ELA output")
			return
		}
		outs := []*common2.Output{node.StdOut(s.whale.ProgramHash, node.ELA(4000000))}
		for _, v := range []int64{1, 90, 150} {
			outs = append(outs, node.StdOut(s.expenses, node.ELA(v)))
		}
		tx := node.BuildTx(node.TxSpec{Type: common2.TransferAsset, Payload: &payload.TransferAsset{}, Ins: []node.UTXORef{in}, Outs: outs})
		if !s.submit("fund-whale-and-donate", in, tx) {
			c.Inconclusive("whale funding refused")
			return
		}
		s.whaleRef, s.whaleHas = node.OutRef(tx, 0, s.whale), true
		node.RegisterKey(s.whale)
	}
	if !s.mine() {
		return
	}

	e := s.e
	lastCommittee := nd.Committee.LastCommitteeHeight
	votingStart := lastCommittee + duty - e.CRVotingPeriod
	s.registerUntil = votingStart - 1
	s.endH = lastCommittee + duty + 6
	termEnd := lastCommittee + duty
	s.termEnd = termEnd
	s.reelect = s.flavor == 1 || s.flavor == 3
	if s.flavor == 1 {
		s.endH = termEnd + 60
	} else if s.reelect {
		s.endH = termEnd + 25
	}
	var newCRs, newNodes []*account.Account
	competeAt := map[uint32]bool{}
	switch s.flavor {
	case 0:
		competeAt[e.CRClaimDPOSNodeStart+uint32(15+s.r.Intn(10))] = true
	case 1:
		competeAt[uint32(95+s.r.Intn(6))] = true
		// no second round late in the term: the late registrations (stages released right before the re-election) need room; the new term gets its own round
	case 2:
		competeAt[e.CRClaimDPOSNodeStart+uint32(5+s.r.Intn(8))] = true // early: the unreviewed fillers must be cancelled (budget released) before the late registrations
	default:
		competeAt[e.CRClaimDPOSNodeStart+uint32(30+s.r.Intn(30))] = true
	}
	overflowAt := votingStart - uint32(3+s.r.Intn(5))
	maxFlows := c.N(10, 14)
	if s.flavor == 3 {
		maxFlows += 8
	}
	registered := 0

	for nd.Height() < s.endH && !s.fatal && !s.diverged {
		s.preBlock()
		next := nd.Height() + 1
		// members claim their DPoS nodes (or they turn inactive and can neither propose nor review)
		if next >= e.CRClaimDPOSNodeStart && !s.claimDone {
			s.claimDone = true
			for i, m := range boot.CRs {
				if nd.Committee.GetMember(node.DIDOf(m)) == nil {
					continue
				}
				if in, ok := s.take(m); ok {
					s.submit("CRCouncilMemberClaimNode", in, node.CRCouncilMemberClaimNode(in, m, boot.CRNodes[i], payload.CurrentCRClaimDPoSNodeVersion))
				}
			}
		}
		// flavor 1: new candidates run in the voting period, get elected, claim their nodes; the histories go on under the new committee
		if s.reelect {
			switch {
			case next == votingStart+1:
				for i := 0; i < len(boot.Members)+1; i++ {
					cr, nk := node.Key(node.KeyCR+20+i), node.Key(node.KeyCRNode+20+i)
					if in, ok := s.w.Take(boot.Voters[1+i%2], node.ELA(5001)); ok {
						if s.submit("RegisterCR", in, node.RegisterCR(in, cr, fmt.Sprintf("cr2-%d-%d", c.Shard, i), node.ELA(5000))) {
							newCRs, newNodes = append(newCRs, cr), append(newNodes, nk)
						}
					}
				}
			case next == votingStart+10 && len(newCRs) > 0:
				votes := map[common.Uint168]common.Fixed64{}
				for i, cr := range newCRs {
					votes[node.CIDOf(cr)] = node.ELA(int64(500 - 20*i))
				}
				if in, ok := s.w.Take(boot.Voters[2], node.ELA(5000)); ok {
					s.submit("Vote-CRC", in, node.VoteCRs(in, in.Value-node.ELA(1), votes))
				}
			case nd.Committee.LastCommitteeHeight > lastCommittee && nd.Committee.LastCommitteeHeight == nd.Height():
				// the committee just changed
				var ms []*account.Account
				for i, cr := range newCRs {
					if nd.Committee.GetMember(node.DIDOf(cr)) == nil {
						continue
					}
					ms = append(ms, cr)
					if in, ok := s.take(s.attacker); ok {
						s.submit("CRCouncilMemberClaimNode", in, node.BuildTx(claimSpec(in, cr, newNodes[i])))
					}
				}
				if len(ms) > 0 {
					boot.Members = ms
					c.Inc("committee_reelected")
					lastCommittee = nd.Committee.LastCommitteeHeight
					s.termEnd = lastCommittee + duty
					s.registerUntil = lastCommittee + duty - e.CRVotingPeriod - 1
					registered = maxFlows - 4
					competeAt[next+uint32(12+s.r.Intn(8))] = true
				}
			}
		}
		if competeAt[next] && next < s.registerUntil {
			delete(competeAt, next)
			h0 := nd.Height()
			s.compete()
			if nd.Height() != h0 {
				continue
			}
		}
		if next == overflowAt && s.c.Shard%2 == 0 {
			s.overflowProbe()
		}
		// new histories
		// flavor 2: still Registered / CRAgreed when the term ends; re-election flavors: VoterAgreed with freshly released stages when the committee changes
		late := (s.flavor == 2 || s.reelect) && next >= s.registerUntil-7 && next < s.registerUntil-2 && next < s.termEnd
		if late && registered >= maxFlows {
			registered = maxFlows - 1
		}
		if registered < maxFlows && next < s.registerUntil-2 && s.m.TermKnown && (late || s.r.Intn(3) != 0) {
			k := 1 + s.r.Intn(3)
			for i := 0; i < k && registered < maxFlows; i++ {
				cap := s.cap()
				room := s.room(true)
				if cap < node.ELA(8) || room.Cmp(bigF(node.ELA(8))) < 0 {
					break
				}
				max := cap
				if room.IsInt64() && common.Fixed64(room.Int64()) < max {
					max = common.Fixed64(room.Int64())
				}
				max = max/2 + common.Fixed64(s.r.Int63n(int64(max)/2))
				typ := payload.Normal
				if s.r.Intn(6) == 0 {
					typ = payload.ELIP
				}
				f := s.newFlow(typ, nil)
				if f == nil {
					break
				}
				f.budgets = s.genBudgets(max, typ == payload.ELIP)
				f.late = late && s.reelect
				if s.register(f) {
					registered++
				}
			}
		}
		s.tickAll()
		if !s.mine() {
			break
		}
	}
	s.finish()
}

// claimSpec: a member claims its DPoS node; the fee is paid by somebody else.
func claimSpec(in node.UTXORef, cr, nodeKey *account.Account) node.TxSpec {
	p := &payload.CRCouncilMemberClaimNode{NodePublicKey: node.Pub(nodeKey), CRCouncilCommitteeDID: node.DIDOf(cr)}
	buf := new(bytes.Buffer)
	p.SerializeUnsigned(buf, payload.CurrentCRClaimDPoSNodeVersion)
	p.CRCouncilCommitteeSignature = node.DetSign(cr, buf.Bytes())
	return node.TxSpec{Type: common2.CRCouncilMemberClaimNode, PayloadVersion: payload.CurrentCRClaimDPoSNodeVersion, Payload: p, Ins: []node.UTXORef{in}}
}

func (s *c29) finish() {
	c, nd := s.c, s.nd
	c.Max("max:height", int64(nd.Height()))
	// per proposal: final status, totals
	finals := map[string]int{}
	for _, ph := range s.m.Order {
		p := s.m.Props[ph]
		c.Inc("final_status:" + p.Type.Name() + ":" + p.Status)
		finals[p.Status]++
		if p.Requested.Sign() > 0 {
			c.Inc("proposals_with_withdrawals")
		}
		if p.Paid.Cmp(p.approvedSum()) > 0 && !p.Tainted {
			s.modelViol("overspend:paid-exceeds-approved", fmt.Sprintf("proposal %s paid %s, approved %s", ph.String()[:16], p.Paid, p.approvedSum()), p)
		}
		if p.Requested.Sign() > 0 && p.Requested.Cmp(p.total()) == 0 {
			c.Inc("proposals_fully_paid_out")
		}
	}
	if len(s.m.Order) > 0 {
		p := s.m.Props[s.m.Order[s.r.Intn(len(s.m.Order))]]
		c.Sample(map[string]interface{}{"shard": c.Shard, "proposal": p.Hash.String(), "type": p.Type.Name(), "stages": c29Stages(p), "history": p.Trans,
			"requested": p.Requested.String(), "paid": p.Paid.String(), "approved": p.approvedSum().String()})
	}
	// value conservation over the whole chain
	l := nd.Replay()
	c.Inc("ledger_replays")
	for _, is := range l.Issues {
		if is.Kind == "issuance-total" || is.Kind == "issuance" {
			continue
		}
		c.Violate("follow-money:ledger-"+is.Kind, fmt.Sprintf("ledger replay: %s at height %d tx %s: %s", is.Kind, is.Height, is.TxID, is.Detail), map[string]interface{}{"shard": c.Shard, "seed": c.Seed})
	}
	// money at the CR expenses address according to the replay = the model's
	bal := new(big.Int)
	for _, o := range l.Unspent {
		if o.Owner.IsEqual(s.expenses) {
			bal.Add(bal, bigF(o.Value))
		}
	}
	if bal.Cmp(s.m.ExpBal) != 0 {
		c.Violate("model-diff:expenses-balance", fmt.Sprintf("replay says the CR expenses address holds %s sela, the model %s", bal, s.m.ExpBal), nil)
	}
}

var c29T0 = time.Now()

// c29Clock is used in the optional trace file only, never in a verdict.
func c29Clock() string { return fmt.Sprintf("%.1f", time.Since(c29T0).Seconds()) }

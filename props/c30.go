package props

import (
	"fmt"
	"math/rand"
	"os"
	"sort"
	"sync"

	"github.com/elastos/Elastos.ELA/common"
	"github.com/elastos/Elastos.ELA/common/config"
	"github.com/elastos/Elastos.ELA/core/types"
	common2 "github.com/elastos/Elastos.ELA/core/types/common"
	"github.com/elastos/Elastos.ELA/core/types/interfaces"
	"github.com/elastos/Elastos.ELA/core/types/payload"
	"github.com/elastos/Elastos.ELA/events"

	"verif/kit"
	"verif/kit/node"
)

// C30 — irreversible blocks are never detached.
//
// A real node is driven into the DPoS era (kit "dpos-era" / "dposv2-era") until
// dpos State.LastIrreversibleHeight (LIH) advances. Then, in DPOS mode, in POW
// mode (after a real RevertToPOW block) and again in DPOS mode (after a real
// RevertToDPOS), competing branches with more work are built on fork points
// LIH-3 .. LIH+3 (and a few near the tip) and handed to the node through every
// block entry point. Every call that can make the node act is wrapped by a
// monitor which
//   - records LIH, tip and the active-chain hashes before the call,
//   - collects the ETBlockDisconnected / ETBlockConnected events the call emits
//     (events.Notify is synchronous),
//   - refutes on: a disconnect event for a block with height <= the LIH recorded
//     before the call; an active-chain hash at a height <= that LIH that differs
//     afterwards (state based double check); LIH lower after a successful forward
//     extension of the tip (and, separately keyed, lower after a reorganization
//     to a longer chain); a delivery that did not switch to the branch but left
//     the tip somewhere else than where it was.
//
// Positive controls: honest blocks extend the chain in every phase; forks above
// LIH do win (reorganizations are performed and counted per phase).
func init() {
	kit.Register(&kit.Spec{
		ID:   "C30",
		Rule: "per shard one node (even shards dpos-era, odd shards dposv2-era after DPoS v2 activation) scripted through the phases dpos -> RevertToPOW -> pow -> RevertToDPOS (pending, then active) -> dpos2; per phase seeded fork scenarios: fork point = LIH+rel, rel in -3..+3 (or tip-1/tip-2), branch = re-mined copies of the main-chain blocks above the fork point (optionally dropping or adding the consensus switch) plus 0..3 fresh blocks so that it has more work, delivered forward / tip-first as orphans / with an honest main-chain block racing in the middle, through chain.ProcessBlock(b,nil), chain.ProcessBlock(b,confirm), BlockPool.AddDposBlock with and without confirm (incl. the destroy-address coinbase that bypasses the confirm requirement) and the operator call chain.ReorganizeChain(block); plus, every time the node enters a phase, long-range forks: proof-of-work branches rooted in the pre-DPoS prefix at / right below CRCOnlyDPOSHeight, at heights 1, 3, CRCOnlyDPOSHeight/2 (and right above it as a control) that out-weigh the whole DPoS-era chain, delivered block by block through chain.ProcessBlock(b,nil) or left in the side chain index and requested with chain.ReorganizeChain. A case = one scenario; distinct = (era, phase, rel, extra, path, order, variant, height); non-trivial = at least one branch block was accepted into the block index (side chain or main chain), so the reorganization guard decided",
		Shards: func(tier string) int {
			if tier == "thorough" {
				return 16
			}
			return 8
		},
		Run: runC30,
		Require: []string{"scenarios", "guard_reached", "phase:dpos", "phase:pow", "phase:dpos2", "forks_at_or_below_lih", "forks_above_lih",
			"reorgs_performed", "reorgs_performed:mode:dpos", "reorgs_performed:mode:pow", "reorgs_refused", "reorgs_refused:at_or_below_lih", "disconnect_events", "honest_extensions", "lih_advances",
			"switch:DPOS->POW", "switch:POW->DPOS", "path:chain-nil", "path:chain-confirm", "path:pool-confirm", "path:pool-nil", "path:pool-destroy", "path:reorganize-op",
			"order:forward", "order:orphans", "order:race",
			"long_range_fork_rooted_below_crconly_cases", "long_range_fork_rooted_below_crconly_refused", "long_range_fork_rooted_above_crconly_cases", "long_range_guard_reached",
			"long_range:long-range-chain-nil", "long_range:long-range-reorganize-op", "long_range_mode:dpos", "long_range_mode:pow"},
		TimeoutS: func(tier string) int {
			if tier == "thorough" {
				return 1500
			}
			return 400
		},
		Assumptions: []string{
			"events.Notify delivers ETBlockDisconnected synchronously in the goroutine that detaches the block (events/events.go); the monitor is an ordinary events.Subscribe subscriber",
			"LIH is read through State.GetLastIrreversibleHeight immediately before every call that hands a block (or a ReorganizeChain request) to the node; calls are sequential",
			"kit compressed eras (kit/node/eras.go) with CRDutyPeriod raised so that the committee does not dissolve during the run; confirms are signed with the harness keys of the current arbiters (a colluding 2/3 majority for competing confirmed branches)",
			"LastIrreversibleHeight above the tip after a POW->DPOS switch is outside the statement: counted (note:lih_above_tip), not a violation",
		},
	})
}

// ---------------------------------------------------------------- event monitor

type c30Ev struct {
	height    uint32
	hash      common.Uint256
	connected bool
}

var c30mon struct {
	sync.Mutex
	evs []c30Ev
}
var c30once sync.Once

func c30Subscribe() {
	c30once.Do(func() {
		events.Subscribe(func(e *events.Event) {
			if e.Type != events.ETBlockDisconnected && e.Type != events.ETBlockConnected {
				return
			}
			b, ok := e.Data.(*types.Block)
			if !ok || b == nil {
				return
			}
			c30mon.Lock()
			c30mon.evs = append(c30mon.evs, c30Ev{b.Height, b.Hash(), e.Type == events.ETBlockConnected})
			c30mon.Unlock()
		})
	})
}

// C30_TRACE=<dir> writes one line per monitored call (debugging aid, not part of any verdict).
var c30Trace *os.File

func c30Drain() []c30Ev {
	c30mon.Lock()
	defer c30mon.Unlock()
	e := c30mon.evs
	c30mon.evs = nil
	return e
}

// ---------------------------------------------------------------- run state

type c30 struct {
	c          *kit.Ctx
	nd         *node.Node
	r          *rand.Rand
	era        string
	v2         bool
	phase      string
	nonce      uint64
	maxL       uint32 // highest LIH ever read
	dead       bool   // the honest chain cannot be extended any more
	samp       int
	deck       [][2]int
	lr         int // long-range scenarios run (c30_longrange.go)
	lrSamp     int
	lrViolated bool
	noted      map[string]bool
}

func (s *c30) note(key, f string, a ...interface{}) {
	s.c.Inc("note:" + key)
	if !s.noted[key] {
		s.noted[key] = true
		s.c.Note(f, a...)
	}
}

// c30Obs is what the monitor saw around one call.
type c30Obs struct {
	lih0, lih1   uint32
	h0, h1       uint32
	tip0, tip1   common.Uint256
	disc, conn   int
	minDisc      uint32
	err          error
	panicked     bool
	forwardExt   bool
	reorganized  bool
	irreversible bool // a violation was reported
}

// observe wraps ONE call into the node.
func (s *c30) observe(path string, what map[string]interface{}, f func() error) c30Obs {
	nd := s.nd
	o := c30Obs{lih0: nd.LastIrreversible(), h0: nd.Height(), tip0: nd.Tip()}
	if o.lih0 > s.maxL {
		s.maxL = o.lih0
	}
	// active-chain hashes at and below LIH that a reorganization could touch (a window is enough: deeper ones imply these)
	lo := uint32(0)
	if o.lih0 > 12 {
		lo = o.lih0 - 12
	}
	before := map[uint32]common.Uint256{}
	for h := lo; h <= o.lih0 && h <= o.h0; h++ {
		if hh, err := nd.Chain.GetBlockHash(h); err == nil {
			before[h] = hh
		}
	}
	c30Drain()
	pan, val, stack := kit.Guard(func() { o.err = f() })
	evs := c30Drain()
	if pan {
		o.panicked = true
		s.c.Inc("panics_during_delivery")
		s.c.Inconclusive("panic during %s delivery (%v): %v\n%s", path, what, val, stack)
	}
	o.lih1, o.h1, o.tip1 = nd.LastIrreversible(), nd.Height(), nd.Tip()
	o.minDisc = ^uint32(0)
	var below []uint32
	for _, e := range evs {
		if e.connected {
			o.conn++
			continue
		}
		o.disc++
		if e.height < o.minDisc {
			o.minDisc = e.height
		}
		if e.height <= o.lih0 {
			below = append(below, e.height)
		}
	}
	s.c.Count("disconnect_events", int64(o.disc))
	s.c.Count("connect_events", int64(o.conn))
	o.reorganized = o.disc > 0
	detail := func() map[string]interface{} {
		m := map[string]interface{}{"era": s.era, "phase": s.phase, "path": path, "lih_before": o.lih0, "lih_after": o.lih1, "tip_height_before": o.h0, "tip_height_after": o.h1,
			"pow_mode_after": nd.InPOWMode(), "disconnected": o.disc, "connected": o.conn, "error": fmt.Sprint(o.err)}
		for k, v := range what {
			m[k] = v
		}
		return m
	}
	if len(below) > 0 {
		o.irreversible = true
		below = c30Uniq(below)
		hs := fmt.Sprint(below)
		if len(below) > 8 {
			hs = fmt.Sprintf("%d..%d (%d heights)", below[0], below[len(below)-1], len(below))
		}
		s.c.Violate("irreversible-block-detached:"+path,
			fmt.Sprintf("%s/%s: last irreversible height was %d (tip %d) before the call; the call disconnected %d block(s) of the active chain, heights %s are at or below it", s.era, s.phase, o.lih0, o.h0, o.disc, hs), detail())
	}
	// blocks at or below an EARLIER (higher) recorded LIH: only possible after LIH went down
	if len(below) == 0 && o.disc > 0 && o.minDisc <= s.maxL {
		s.c.Violate("irreversible-block-detached:after-lih-decrease",
			fmt.Sprintf("%s/%s: the node had recorded last irreversible height %d earlier; it is %d now and the call disconnected the active chain down to height %d", s.era, s.phase, s.maxL, o.lih0, o.minDisc), detail())
	}
	// state based double check (independent of the event bus)
	var replaced []uint32
	for h, hh := range before {
		if now, err := nd.Chain.GetBlockHash(h); err != nil || !now.IsEqual(hh) {
			replaced = append(replaced, h)
		}
	}
	if len(replaced) > 0 && len(below) == 0 {
		sort.Slice(replaced, func(i, j int) bool { return replaced[i] < replaced[j] })
		s.c.Violate("irreversible-block-replaced:"+path,
			fmt.Sprintf("%s/%s: active-chain block hash changed at heights %v <= last irreversible height %d without a disconnect event", s.era, s.phase, replaced, o.lih0), detail())
	}
	// forward extension: the new tip's parent is the old tip
	if o.disc == 0 && o.h1 == o.h0+1 {
		if tb, err := nd.Chain.GetBlockByHash(o.tip1); err == nil && tb.Header.Previous.IsEqual(o.tip0) {
			o.forwardExt = true
		}
	}
	switch {
	case o.forwardExt && o.lih1 < o.lih0:
		s.c.Violate("lih-decreased", fmt.Sprintf("%s/%s: tip extended %d -> %d and the last irreversible height went from %d to %d", s.era, s.phase, o.h0, o.h1, o.lih0, o.lih1), detail())
	case o.forwardExt && o.lih1 > o.lih0:
		s.c.Inc("lih_advances")
	case o.reorganized && o.h1 > o.h0 && o.lih1 < o.lih0:
		// the node moved to a longer chain and un-recorded irreversibility
		s.c.Violate("lih-decreased:reorg", fmt.Sprintf("%s/%s: reorganization from tip %d to a longer chain (tip %d) lowered the last irreversible height from %d to %d", s.era, s.phase, o.h0, o.h1, o.lih0, o.lih1), detail())
	}
	if o.h1 < o.h0 || (o.reorganized && o.h1 == o.h0 && o.lih1 < o.lih0) {
		// the node moved BACKWARDS (a permitted reorganization failed and was not restored: C12 material)
		// or sideways (operator call onto an equally long branch).
		// The statement speaks about a node moving forward: restart the high-water mark here.
		s.maxL = o.lih1
		s.c.Inc("hwm_reset_after_backward_move")
	}
	if o.lih1 > o.h1 {
		s.note("lih_above_tip", "%s/%s: last irreversible height %d is above the tip height %d (pow mode %v) — not covered by the C30 statement, counted only", s.era, s.phase, o.lih1, o.h1, nd.InPOWMode())
	}
	s.c.Max("max:lih:"+s.era, int64(o.lih1))
	if c30Trace != nil {
		fmt.Fprintf(c30Trace, "[%s/%s shard %d] %s %v: tip %d->%d lih %d->%d disc=%d(min %d) conn=%d pow=%v err=%v\n", s.era, s.phase, s.c.Shard, path, what["block_height"], o.h0, o.h1, o.lih0, o.lih1, o.disc, o.minDisc, o.conn, nd.InPOWMode(), o.err)
	}
	return o
}

// ---------------------------------------------------------------- block building

func (s *c30) nextNonce() uint64 { s.nonce++; return s.nonce }

func c30HasType(b *types.Block, t common2.TxType) bool {
	for _, tx := range b.Transactions {
		if tx.TxType() == t {
			return true
		}
	}
	return false
}

// coinbase builds a fresh coinbase tx object with the given outputs (copied).
func (s *c30) coinbase(h uint32, outs []*common2.Output) interfaces.Transaction {
	cb := s.nd.CoinbaseTx(s.nd.Miner.Address, h, s.nextNonce())
	var cp []*common2.Output
	for _, o := range outs {
		oc := *o
		cp = append(cp, &oc)
	}
	cb.SetOutputs(cp)
	return cb
}

// style rewrites the consensus-mode dependent coinbase addresses.
// "" keeps them, "pow" pays the CR (and DPoS v2) share to the destroy address, "dpos" to the CR assets / DPoS v2 accumulate address.
func (s *c30) style(h uint32, outs []*common2.Output, style string) {
	cfg := s.nd.Cfg
	act := s.nd.Arbiters.GetDPoSV2ActiveHeight()
	v2 := act != ^uint32(0) && h > act+1
	switch style {
	case "pow":
		outs[0].ProgramHash = *cfg.DestroyELAProgramHash
		if v2 && len(outs) == 3 {
			outs[2].ProgramHash = *cfg.DestroyELAProgramHash
		}
	case "dpos":
		if h >= cfg.CRConfiguration.CRCommitteeStartHeight {
			outs[0].ProgramHash = *cfg.CRConfiguration.CRAssetsProgramHash
		} else {
			outs[0].ProgramHash = *cfg.FoundationProgramHash
		}
		if v2 && len(outs) == 3 {
			outs[2].ProgramHash = *cfg.DPoSConfiguration.DPoSV2RewardAccumulateProgramHash
		}
	}
}

// clone re-mines src on parent: same transactions, new coinbase nonce.
func (s *c30) clone(src, parent *types.Block, drop common2.TxType, dropOn bool, style string) (*types.Block, error) {
	h := parent.Height + 1
	cb := s.coinbase(h, src.Transactions[0].Outputs())
	s.style(h, cb.Outputs(), style)
	txs := []interfaces.Transaction{cb}
	for _, tx := range src.Transactions[1:] {
		if dropOn && tx.TxType() == drop {
			continue
		}
		txs = append(txs, tx)
	}
	ts := src.Timestamp
	if ts <= parent.Timestamp {
		ts = parent.Timestamp + 1
	}
	blk := &types.Block{Header: common2.Header{Version: src.Version, Previous: parent.Hash(), Timestamp: ts, Bits: src.Bits, Height: h}, Transactions: txs}
	return blk, node.SealDet(blk)
}

// fresh builds a new block on parent with the node's own reward assignment (current state).
func (s *c30) fresh(parent *types.Block, txs []interfaces.Transaction, fees common.Fixed64, ts uint32, style string) (*types.Block, error) {
	h := parent.Height + 1
	if ts == 0 {
		ts = parent.Timestamp + 1
	}
	tmp := s.nd.CoinbaseTx(s.nd.Miner.Address, h, 1)
	tb := &types.Block{Header: common2.Header{Height: h, Previous: parent.Hash()}, Transactions: []interfaces.Transaction{tmp}}
	if err := s.nd.Pow.AssignCoinbaseTxRewards(tb, fees+s.nd.Cfg.GetBlockReward(h)); err != nil {
		return nil, err
	}
	outs := tmp.Outputs()
	if len(outs) > 3 {
		tail := append([]*common2.Output{}, outs[2:]...)
		sort.SliceStable(tail, func(i, j int) bool { return tail[i].ProgramHash.Compare(tail[j].ProgramHash) < 0 })
		outs = append(append([]*common2.Output{}, outs[:2]...), tail...)
	}
	cb := s.coinbase(h, outs)
	s.style(h, cb.Outputs(), style)
	blk := &types.Block{Header: common2.Header{Version: 0, Previous: parent.Hash(), Timestamp: ts, Bits: s.nd.Cfg.PowConfiguration.PowLimitBits, Height: h},
		Transactions: append([]interfaces.Transaction{cb}, txs...)}
	return blk, node.SealDet(blk)
}

// sysTxs: the node generated txs the next honest block needs, without evidence
// txs (competing confirmed branches make the BlockPool accuse the arbiters).
func (s *c30) sysTxs() (txs []interfaces.Transaction, fees common.Fixed64, err error) {
	for _, tx := range s.nd.SystemTxs() {
		switch tx.TxType() {
		case common2.IllegalBlockEvidence, common2.IllegalProposalEvidence, common2.IllegalVoteEvidence, common2.IllegalSidechainEvidence, common2.InactiveArbitrators:
			s.c.Inc("evidence_txs_skipped")
			continue
		case common2.NextTurnDPOSInfo:
			if !s.nd.Arbiters.IsNeedNextTurnDPOSInfo() { // left over from a branch that is not active any more
				s.c.Inc("stale_system_txs_skipped")
				continue
			}
		}
		if len(tx.Inputs()) > 0 {
			refs, e := s.nd.Chain.UTXOCache.GetTxReference(tx)
			if e != nil {
				s.c.Inc("stale_system_txs_skipped")
				continue
			}
			for _, o := range refs {
				fees += o.Value
			}
		}
		for _, o := range tx.Outputs() {
			fees -= o.Value
		}
		txs = append(txs, tx)
	}
	return
}

// mine extends the active chain by one honest block (confirmed when needed).
func (s *c30) mine(ts uint32, extra ...interfaces.Transaction) (*types.Block, error) {
	if s.dead {
		return nil, fmt.Errorf("honest chain is dead")
	}
	sys, fees, _ := s.sysTxs()
	seen := map[common.Uint256]bool{}
	var all []interfaces.Transaction
	for _, tx := range append(sys, extra...) {
		if !seen[tx.Hash()] {
			seen[tx.Hash()] = true
			all = append(all, tx)
		}
	}
	b, err := s.fresh(s.nd.TipBlock(), all, fees, ts, "")
	if err != nil {
		return nil, err
	}
	o := s.observe("honest", map[string]interface{}{"height": b.Height}, func() error { return s.nd.ProcessConfirmed(b) })
	if o.err != nil {
		reason := ""
		if prev, ok := s.nd.Chain.LookupNodeInIndex(&b.Header.Previous); ok {
			if e := s.nd.Chain.CheckBlockSanity(b); e != nil {
				reason = "sanity: " + e.Error()
			} else if e := s.nd.Chain.CheckBlockContext(b, prev); e != nil {
				reason = "context: " + e.Error()
			}
		}
		return b, fmt.Errorf("%v %s", o.err, reason)
	}
	s.nd.PostBlock(b)
	s.nd.Chain.UTXOCache.CleanTxCache()
	s.nd.BlockPool.CleanFinalConfirmedBlock(b.Height)
	s.c.Inc("honest_extensions")
	s.c.Inc("honest_extensions:" + s.phase)
	return b, nil
}

func (s *c30) mineN(k int) bool {
	for i := 0; i < k; i++ {
		if _, err := s.mine(0); err != nil {
			s.c.Inc("honest_mining_failed:" + s.phase)
			s.note("honest_mining_failed", "%s/%s: honest block %d rejected: %v", s.era, s.phase, s.nd.Height()+1, err)
			// one retry after the mempool has been cleaned
			s.nd.TxPool.CheckAndCleanAllTransactions()
			if _, err = s.mine(0); err != nil {
				// (seen after a permitted reorganization failed and the previous chain could not be restored: outside C30)
				s.dead = true
				s.note("honest_chain_dead", "%s/%s: the honest chain cannot be extended at height %d any more, shard ends: %v", s.era, s.phase, s.nd.Height()+1, err)
				return false
			}
		}
	}
	return true
}

// ---------------------------------------------------------------- scenarios

type c30Scn struct {
	Era     string `json:"era"`
	Phase   string `json:"phase"`
	Rel     string `json:"fork_point"` // "lih-3".."lih+3", "tip-1", "tip-2"
	Fork    uint32 `json:"fork_height"`
	LIH     uint32 `json:"lih"`
	Tip     uint32 `json:"tip"`
	Extra   int    `json:"extra_blocks"`
	Path    string `json:"path"`
	Order   string `json:"order"`
	Variant string `json:"variant"`
}

var c30Paths = []string{"chain-nil", "chain-confirm", "pool-confirm", "pool-nil", "pool-destroy", "reorganize-op"}

func (s *c30) confirmFor(b *types.Block) *payload.Confirm {
	cf, err := s.nd.ConfirmWith(b, node.ConfirmOpts{})
	if err != nil {
		s.c.Inc("confirm_unavailable")
		return nil
	}
	return cf
}

func (s *c30) deliver(sc *c30Scn, b *types.Block) c30Obs {
	what := map[string]interface{}{"scenario": *sc, "block_height": b.Height}
	nd := s.nd
	switch sc.Path {
	case "chain-confirm":
		cf := s.confirmFor(b)
		return s.observe(sc.Path, what, func() error { _, _, err := nd.Chain.ProcessBlock(b, cf); return err })
	case "pool-confirm":
		cf := s.confirmFor(b)
		return s.observe(sc.Path, what, func() error { _, _, err := nd.ProcessDpos(b, cf); return err })
	case "pool-nil", "pool-destroy":
		return s.observe(sc.Path, what, func() error { _, _, err := nd.ProcessDpos(b, nil); return err })
	default: // chain-nil, reorganize-op
		return s.observe(sc.Path, what, func() error { _, _, err := nd.Chain.ProcessBlock(b, nil); return err })
	}
}

// deck is the stratified list of (rel, path) pairs a shard works through.
func (s *c30) nextCombo() (rel int, path string) {
	if len(s.deck) == 0 {
		for rl := -3; rl <= 3; rl++ {
			for p := range c30Paths {
				s.deck = append(s.deck, [2]int{rl, p})
			}
		}
		s.r.Shuffle(len(s.deck), func(i, j int) { s.deck[i], s.deck[j] = s.deck[j], s.deck[i] })
	}
	k := s.deck[0]
	s.deck = s.deck[1:]
	return k[0], c30Paths[k[1]]
}

func (s *c30) pick(phase string, i int) *c30Scn {
	r := s.r
	nd := s.nd
	sc := &c30Scn{Era: s.era, Phase: phase, LIH: nd.LastIrreversible(), Tip: nd.Height()}
	rel, path := s.nextCombo()
	sc.Path = path
	sc.Rel = fmt.Sprintf("lih%+d", rel)
	f := int64(sc.LIH) + int64(rel)
	if r.Intn(10) == 0 || f >= int64(sc.Tip) {
		d := 1 + r.Intn(2)
		sc.Rel = fmt.Sprintf("tip-%d", d)
		f = int64(sc.Tip) - int64(d)
	}
	if f < 1 {
		f = 1
	}
	sc.Fork = uint32(f)
	sc.Extra = 1
	if x := r.Intn(20); x >= 17 {
		sc.Extra = 3
	} else if x >= 12 {
		sc.Extra = 2
	}
	if sc.Path == "reorganize-op" {
		sc.Extra = r.Intn(6) // the operator call takes any indexed block: shorter, equal and much longer branches
	}
	switch r.Intn(4) {
	case 0:
		sc.Order = "orphans"
	case 1:
		sc.Order = "race"
		if sc.Extra < 2 {
			sc.Extra = 2
		}
	default:
		sc.Order = "forward"
	}
	sc.Variant = "copy"
	switch {
	case phase == "dpos" || phase == "dpos2":
		if r.Intn(3) == 0 && sc.Fork+1 >= nd.Cfg.DPoSConfiguration.RevertToPOWStartHeight {
			sc.Variant = "add-revert-to-pow"
		}
	default:
		if r.Intn(4) == 0 {
			sc.Variant = "drop-switch"
		}
	}
	if sc.Variant == "add-revert-to-pow" && sc.Order == "race" {
		sc.Order = "forward"
	}
	return sc
}

// build constructs the competing branch.
func (s *c30) build(sc *c30Scn) ([]*types.Block, error) {
	nd := s.nd
	parent, err := nd.Chain.GetBlockByHeight(sc.Fork)
	if err != nil {
		return nil, err
	}
	tip := nd.Height()
	style := ""
	if sc.Path == "pool-destroy" {
		style = "pow"
	}
	var br []*types.Block
	if sc.Variant == "add-revert-to-pow" {
		// first branch block switches the branch to POW; the rest are POW style blocks
		ts := parent.Timestamp + uint32(nd.Cfg.DPoSConfiguration.RevertToPOWNoBlockTime) + 1
		b, err := s.fresh(parent, []interfaces.Transaction{node.RevertToPOWNoBlock(parent.Height + 1)}, 0, ts, style)
		if err != nil {
			return nil, err
		}
		br = append(br, b)
		parent = b
		for parent.Height < tip+uint32(sc.Extra) {
			if b, err = s.fresh(parent, nil, 0, 0, "pow"); err != nil {
				return nil, err
			}
			br = append(br, b)
			parent = b
		}
		return br, nil
	}
	dropped, stayPOW := false, false
	for h := sc.Fork + 1; h <= tip; h++ {
		src, err := nd.Chain.GetBlockByHeight(h)
		if err != nil {
			return nil, err
		}
		st := style
		drop := common2.TxType(0xff)
		dropOn := false
		if sc.Variant == "drop-switch" {
			switch {
			case c30HasType(src, common2.RevertToPOW):
				drop, dropOn, dropped = common2.RevertToPOW, true, true
			case c30HasType(src, common2.RevertToDPOS):
				drop, dropOn, stayPOW = common2.RevertToDPOS, true, true
			}
			if dropped && st == "" {
				st = "dpos" // the branch never entered POW mode
			} else if stayPOW && st == "" {
				st = "pow" // the branch never leaves POW mode
			}
		}
		b, err := s.clone(src, parent, drop, dropOn, st)
		if err != nil {
			return nil, err
		}
		br = append(br, b)
		parent = b
	}
	for i := 0; i < sc.Extra; i++ {
		var txs []interfaces.Transaction
		var fees common.Fixed64
		if i == 0 {
			txs, fees, _ = s.sysTxs()
		}
		st := style
		if dropped && st == "" {
			st = "dpos"
		} else if stayPOW && st == "" {
			st = "pow"
		}
		b, err := s.fresh(parent, txs, fees, 0, st)
		if err != nil {
			return nil, err
		}
		br = append(br, b)
		parent = b
	}
	return br, nil
}

func (s *c30) scenario(phase string, i int) {
	if s.dead {
		return
	}
	nd := s.nd
	s.phase = phase
	sc := s.pick(phase, i)
	s.c.Begin("C30 %+v", *sc)
	if c30Trace != nil {
		fmt.Fprintf(c30Trace, "SCENARIO %+v\n", *sc)
	}
	br, err := s.build(sc)
	if err != nil || len(br) == 0 {
		s.c.Inc("scenario_build_failed")
		s.note("build_failed", "scenario %+v: branch could not be built: %v", *sc, err)
		return
	}
	s.c.Inc("scenarios")
	s.c.Inc("phase:" + phase)
	s.c.Inc("path:" + sc.Path)
	s.c.Inc("order:" + sc.Order)
	s.c.Inc("variant:" + sc.Variant)
	mode := "dpos"
	if nd.InPOWMode() {
		mode = "pow"
	}
	s.c.Inc(fmt.Sprintf("forks:%s:%s:%s", sc.Rel, mode, sc.Path))
	if sc.Fork <= sc.LIH {
		s.c.Inc("forks_at_or_below_lih")
	} else {
		s.c.Inc("forks_above_lih")
	}
	lih0, tip0, h0 := sc.LIH, nd.Tip(), nd.Height()
	var oldMain []*types.Block // active chain above the fork point before the delivery
	for h := sc.Fork + 1; h <= h0; h++ {
		if b, err := nd.Chain.GetBlockByHeight(h); err == nil {
			oldMain = append(oldMain, b)
		}
	}
	mainTip := tip0
	last := br[len(br)-1]
	onBranch := map[common.Uint256]bool{}
	for _, b := range br {
		onBranch[b.Hash()] = true
	}
	var obs []c30Obs
	switch sc.Order {
	case "orphans":
		for k := len(br) - 1; k >= 0; k-- {
			obs = append(obs, s.deliver(sc, br[k]))
		}
	case "race":
		half := len(br) / 2
		for k := 0; k < half; k++ {
			obs = append(obs, s.deliver(sc, br[k]))
		}
		if nd.Tip().IsEqual(mainTip) {
			if b, err := s.mine(0); err == nil {
				mainTip = b.Hash()
				s.c.Inc("race_main_blocks")
			}
		}
		for k := half; k < len(br); k++ {
			obs = append(obs, s.deliver(sc, br[k]))
		}
	default:
		for _, b := range br {
			obs = append(obs, s.deliver(sc, b))
		}
	}
	if sc.Path == "reorganize-op" && !nd.Tip().IsEqual(last.Hash()) {
		if _, ok := nd.Chain.LookupNodeInIndex(hashPtr(last.Hash())); ok {
			s.c.Inc("reorganize_calls")
			obs = append(obs, s.observe("reorganize-op", map[string]interface{}{"scenario": *sc, "call": "ReorganizeChain", "block_height": last.Height},
				func() error { return nd.Chain.ReorganizeChain(last) }))
		} else {
			s.c.Inc("reorganize_target_not_indexed")
		}
	}
	// did the guard decide? (a branch block is known to the index)
	indexed := 0
	for _, b := range br {
		if _, ok := nd.Chain.LookupNodeInIndex(hashPtr(b.Hash())); ok {
			indexed++
		}
	}
	if indexed > 0 {
		s.c.Inc("guard_reached")
	}
	s.c.Case(fmt.Sprintf("%s|%s|%s|%d|%s|%s|%s|%d", sc.Era, sc.Phase, sc.Rel, sc.Extra, sc.Path, sc.Order, sc.Variant, sc.Tip), indexed > 0)
	disc, violated := 0, false
	for _, o := range obs {
		disc += o.disc
		violated = violated || o.irreversible
	}
	tip1 := nd.Tip()
	outcome := ""
	switch {
	case onBranch[tip1]:
		outcome = "performed"
		s.c.Inc("reorgs_performed")
		s.c.Inc("reorgs_performed:mode:" + mode)
		s.c.Inc("reorgs_performed:phase:" + phase)
		s.c.Inc("reorgs_performed:path:" + sc.Path)
		s.c.Max("max:reorg_depth:"+mode, int64(h0-sc.Fork))
		if sc.Fork < lih0 && !violated {
			// the branch replaces block lih0 although no disconnect event was seen
			s.c.Violate("irreversible-block-replaced:"+sc.Path, fmt.Sprintf("%s/%s: node switched to a branch forking at %d below the last irreversible height %d", s.era, phase, sc.Fork, lih0), *sc)
		}
	case tip1.IsEqual(mainTip):
		if disc > 0 {
			outcome = "failed-restored"
			s.c.Inc("reorgs_failed_and_restored")
			s.c.Inc("reorgs_failed_and_restored:" + sc.Variant)
		} else {
			outcome = "refused"
			s.c.Inc("reorgs_refused")
			s.c.Inc("reorgs_refused:mode:" + mode)
			if sc.Fork <= lih0 {
				s.c.Inc("reorgs_refused:at_or_below_lih")
			} else {
				s.c.Inc("reorgs_refused:above_lih")
			}
		}
	case disc == 0:
		// nothing was detached, yet the tip is neither where it was nor on the branch
		outcome = "tip-elsewhere"
		s.c.Violate("refused-reorg-moved-tip", fmt.Sprintf("%s/%s: no block was disconnected, but after the delivery the tip (height %d) is neither the branch nor the previous active tip (height %d)", s.era, phase, nd.Height(), h0), *sc)
	default:
		// a permitted reorganization failed half way and the previous chain was not restored.
		// Not a C30 matter (the guard let a fork above LIH through; C12/C21 material): recorded.
		outcome = "failed-not-restored"
		s.c.Inc("reorgs_failed_and_not_restored")
		why := ""
		if nh := nd.Height() + 1; nh > sc.Fork && int(nh-sc.Fork-1) < len(oldMain) {
			ob := oldMain[nh-sc.Fork-1]
			for _, tx := range ob.Transactions[1:] {
				if _, e := nd.Chain.CheckTransactionContext(ob.Height, tx, 0, ob.Timestamp); e != nil {
					why += fmt.Sprintf(" [previous main block %d, %s tx: %v]", ob.Height, tx.TxType().Name(), e)
				}
			}
		}
		var lastErr error
		for _, o := range obs {
			if o.err != nil {
				lastErr = o.err
			}
		}
		s.note("failed_not_restored", "%s/%s: scenario %+v: reorganization failed (%v) and left the node at height %d (was %d, pow mode %v)%s — outside C30, see C12/C21", s.era, phase, *sc, lastErr, nd.Height(), h0, nd.InPOWMode(), why)
	}
	s.c.Inc(fmt.Sprintf("outcome:%s:%s:%s", sc.Rel, mode, outcome))
	if s.samp < 4 && (outcome == "performed" || s.samp < 2) {
		s.samp++
		s.c.Sample(map[string]interface{}{"scenario": *sc, "mode": mode, "branch_len": len(br), "outcome": outcome, "disconnect_events": disc, "lih_after": nd.LastIrreversible(), "tip_after": nd.Height()})
	}
	if outcome == "performed" {
		// the branch is the active chain now: give the mempool the usual post-block treatment
		for _, b := range br {
			nd.PostBlock(b)
		}
		nd.Chain.UTXOCache.CleanTxCache()
	}
}

func hashPtr(h common.Uint256) *common.Uint256 { return &h }

func c30Uniq(v []uint32) []uint32 {
	sort.Slice(v, func(i, j int) bool { return v[i] < v[j] })
	var out []uint32
	for i, x := range v {
		if i == 0 || x != v[i-1] {
			out = append(out, x)
		}
	}
	return out
}

// ---------------------------------------------------------------- script

func runC30(c *kit.Ctx) {
	era := "dpos-era"
	if c.Shard%2 == 1 {
		era = "dposv2-era"
	}
	tweak := func(cfg *config.Configuration) {
		node.EraTweak(era)(cfg)
		cfg.CRConfiguration.DutyPeriod = 100000 // the first committee serves for the whole run
	}
	nd, err := node.Start(node.Options{Dir: c.WorkDir, CoinbaseMaturity: 2, Tweak: tweak})
	if err != nil {
		c.Inconclusive("node start (%s): %v", era, err)
		return
	}
	defer nd.Close()
	defer nd.UnhookEvents()
	c30Subscribe()
	if d := os.Getenv("C30_TRACE"); d != "" {
		c30Trace, _ = os.Create(fmt.Sprintf("%s/c30-%d.log", d, c.Shard))
		defer c30Trace.Close()
	}
	s := &c30{c: c, nd: nd, r: c.Rand("c30"), era: era, v2: era == "dposv2-era", nonce: uint64(c.Shard+1) << 40, noted: map[string]bool{}, phase: "boot"}
	c.Inc("era:" + era)
	until := "claimed"
	if s.v2 {
		until = "dposv2"
	}
	if _, err := nd.Bootstrap(era, node.BootOpts{Until: until}); err != nil {
		c.Inconclusive("bootstrap %s: %v", era, err)
		return
	}
	c30Drain()
	e := node.EraOf(era)
	for nd.Height() < e.RevertToPOWStart+8+uint32(c.Shard%3) || nd.LastIrreversible() == 0 {
		if !s.mineN(1) {
			return
		}
		if nd.Height() > e.RevertToPOWStart+60 {
			c.Inconclusive("%s: last irreversible height never advanced (height %d)", era, nd.Height())
			return
		}
	}
	if nd.InPOWMode() {
		c.Inconclusive("%s: node is in POW mode after bootstrap (height %d)", era, nd.Height())
		return
	}
	// ---- state machine over the node's ACTUAL consensus mode (a winning branch may switch it)
	budget := c.N(34, 400) // scenarios per shard
	perPhase := c.N(8, 12) // scenarios before the script switches the consensus mode itself
	inPhase, everPOW, lastLabel := 0, false, ""
	transitionFailures := 0
	dposFail := 0 // consecutive failed attempts to leave POW mode (the arbiters may have become inactive: nothing new to see then)
	for n := 0; n < budget && !s.dead && transitionFailures < 40 && dposFail < 3; {
		pow := nd.InPOWMode()
		pending := pow && nd.Chain.GetState().DPOSWorkHeight != 0
		label := "dpos"
		switch {
		case pending:
			label = "pow-pending"
		case pow:
			label = "pow"
			everPOW = true
		case everPOW:
			label = "dpos2"
		}
		if label != lastLabel {
			if lastLabel == "pow-pending" && label == "dpos2" {
				c.Inc("switch:POW->DPOS")
				dposFail = 0
			}
			if lastLabel != "" {
				c.Inc("mode_change:" + lastLabel + "->" + label)
			}
			inPhase, lastLabel = 0, label
			// every time the node enters a phase: long-range forks rooted at / below CRCOnlyDPOSHeight (c30_longrange.go)
			nLR := c.N(1, 3)
			if s.lr == 0 {
				nLR = c.N(2, 3)
			}
			for j := 0; j < nLR; j++ {
				s.longRange(label, s.lr)
				s.lr++
			}
			if s.dead || nd.InPOWMode() != pow {
				continue
			}
		}
		s.phase = label
		if label == "pow-pending" {
			// waiting for DPOSWorkHeight: mostly honest blocks, a scenario now and then
			if inPhase%4 == 1 {
				s.scenario(label, n)
				n++
			}
			inPhase++
			if !s.mineN(1) {
				break
			}
			if inPhase > 40 {
				s.note("pending_forever", "%s: RevertToDPOS pending for more than 40 blocks at height %d", era, nd.Height())
				transitionFailures++
				inPhase = 0
			}
			continue
		}
		if inPhase < perPhase {
			s.scenario(label, n)
			n++
			inPhase++
			s.phase = label
			if !s.mineN(1 + s.r.Intn(2)) {
				break
			}
			continue
		}
		// ---- the script switches the mode itself
		inPhase = 0
		if !pow {
			s.phase = "switch-to-pow"
			tipB := nd.TipBlock()
			rtx := node.RevertToPOWNoBlock(nd.Height() + 1)
			if err := nd.TxPool.AppendToTxPool(rtx); err != nil {
				s.note("revert_to_pow_rejected", "%s: mempool rejected RevertToPOW: %v", era, err)
			}
			if _, err := s.mine(tipB.Timestamp+uint32(nd.Cfg.DPoSConfiguration.RevertToPOWNoBlockTime)+1, rtx); err != nil || !nd.InPOWMode() {
				transitionFailures++
				s.note("revert_to_pow_failed", "%s: RevertToPOW block at height %d not accepted / node still DPOS: %v", era, nd.Height()+1, err)
				continue
			}
			c.Inc("switch:DPOS->POW")
			if !s.mineN(1 + s.r.Intn(3)) {
				break
			}
			continue
		}
		s.phase = "switch-to-dpos"
		good, err := nd.RevertToDPOSTx(false)
		if err == nil {
			err = nd.TxPool.AppendToTxPool(good)
		}
		if err == nil {
			_, err = s.mine(0, good)
		}
		if err != nil {
			// after reorganizations across the switch the arbiter set may not allow the multi-signature
			transitionFailures++
			dposFail++
			c.Inc("revert_to_dpos_unavailable")
			s.note("revert_to_dpos_unavailable", "%s: RevertToDPOS at height %d: %v (%d arbiters)", era, nd.Height(), err, len(nd.Arbiters.GetArbitrators()))
			if !s.mineN(1) {
				break
			}
		}
	}
	if s.dead {
		c.Inc("shards_ended_early")
	}
	if dposFail >= 3 {
		c.Inc("shards_stuck_in_pow")
	}
	c.Max("max:height:"+era, int64(nd.Height()))
}

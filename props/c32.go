package props

import (
	"fmt"
	"math"
	"math/rand"
	"strings"
	"time"

	"github.com/elastos/Elastos.ELA/account"
	"github.com/elastos/Elastos.ELA/common"
	"github.com/elastos/Elastos.ELA/common/config"
	"github.com/elastos/Elastos.ELA/core/transaction"
	"github.com/elastos/Elastos.ELA/core/types"
	common2 "github.com/elastos/Elastos.ELA/core/types/common"
	"github.com/elastos/Elastos.ELA/core/types/interfaces"
	elaerr "github.com/elastos/Elastos.ELA/errors"

	"verif/kit"
	"verif/kit/node"
)

// C32 — frozen addresses can neither spend nor receive.
//
// A1: model (from the statement) against the real helper checkFrozenAddresses:
//     the frozen hash at every input / output position of 1-6-input/-output
//     transactions of every type, heights around every entry's start height,
//     lists with several entries, entries without a resolved ProgramHash,
//     near-miss hashes.
// A2: live node whose configuration carries a frozen list: properly signed
//     spends from / payments to the frozen accounts through AppendToTxPool and
//     ProcessBlock while the chain is mined across the start heights (before
//     the start they ARE accepted — positive control), coinbase paying a
//     frozen address (observed), ContextCheck sweep, recorded-history scan.
// B : SetupConfig in a fresh sub-process per configuration file (c31_config.go).

func init() {
	kit.Register(&kit.Spec{
		ID:       "C32",
		Rule:     "A1: tx type x (inputs 1..6, outputs 1..6) x frozen hash at each single input position / output position / both / none / near-miss hash x heights {0,start-1,start,start+1,max} x frozen lists of 1-5 entries (different start heights, nil ProgramHash entries), exhaustive over positions, seeded over the rest; A2: on a node configured with 5 frozen entries (two active at different heights, one never, two unresolvable) signed transfers with the frozen account at a seeded input/output position are submitted to AppendToTxPool and inside blocks to ProcessBlock at every height from before the first to after the last start height; B: as C31-B, judging the frozen list. distinct = distinct (type, shape, position, height, list) / file; non-trivial = the tx touches a listed address (A) / the file overrides the list or uses a non-canonical name (B)",
		Shards:   func(tier string) int { return 8 },
		TimeoutS: func(tier string) int { return 2400 }, // sub-process spawning is slow on a loaded box; firing = inconclusive
		Run:      runC32,
		Require: []string{"A1_helper_calls", "A1_must_reject_checked", "A1_must_allow_checked", "A1_reject_input_position", "A1_reject_output_position", "A1_before_start_allowed", "A1_nil_hash_entries_seen", "A1_types_covered",
			"A2_ctx_calls", "A2_ctx_frozen_stage_rejects", "A2_ctx_passed_frozen_stage", "A2_pool_submissions", "A2_block_submissions", "A2_pool_frozen_rejects", "A2_block_frozen_rejects",
			"A2_accepted_before_start", "A2_accepted_never_frozen", "A2_honest_accepted", "A2_history_scans", "A2_spend_attempts", "A2_receive_attempts",
			"B_configs_run", "B_mainnet_identity_checked", "B_mainnet_frozen_list_held", "B_mainnet_identity_with_frozen_override"},
		Assumptions: []string{
			"a list entry is effective once its ProgramHash is resolved (Sterilize does this from Address; part B checks that every entry of a mainnet node is resolved); entries with a nil ProgramHash give no verdict for transactions touching their address",
			"coinbase transactions are outside the statement: a coinbase paying a frozen address is observed, not judged",
			"the statement promises nothing about the list of non-mainnet networks",
		},
	})
}

type frozenEntry struct {
	hash  *common.Uint168
	addr  string
	start uint32
}

// modelFrozen: verdict from the statement. owners = program hashes of the
// referenced outputs, outs = program hashes of the tx outputs.
func modelFrozen(isCoinbase bool, owners, outs []common.Uint168, h uint32, list []frozenEntry) (polVerdict, string) {
	touchIn, touchOut, touchUnresolved := false, false, false
	for _, e := range list {
		if e.hash == nil {
			// unresolved entry: compare by address where one exists
			if ph, err := common.Uint168FromAddress(e.addr); err == nil && h >= e.start {
				for _, o := range owners {
					if o == *ph {
						touchUnresolved = true
					}
				}
				for _, o := range outs {
					if o == *ph {
						touchUnresolved = true
					}
				}
			}
			continue
		}
		if h < e.start {
			continue
		}
		for _, o := range owners {
			if o == *e.hash {
				touchIn = true
			}
		}
		for _, o := range outs {
			if o == *e.hash {
				touchOut = true
			}
		}
	}
	switch {
	case touchIn || touchOut:
		if isCoinbase {
			return polFree, "coinbase-touches-frozen"
		}
		if touchIn {
			return polMustReject, "spend"
		}
		return polMustReject, "receive"
	case touchUnresolved:
		return polFree, "touches-unresolved-entry"
	}
	return polMustAllow, "untouched"
}

func toCfgList(list []frozenEntry) []config.FrozenAddress {
	var out []config.FrozenAddress
	for _, e := range list {
		out = append(out, config.FrozenAddress{Address: e.addr, DisableStartHeight: e.start, ProgramHash: e.hash})
	}
	return out
}

func randEntry(r *rand.Rand, start uint32) frozenEntry {
	h := randHash168(r, pfxStd)
	a, _ := h.ToAddress()
	return frozenEntry{hash: &h, addr: a, start: start}
}

type c32State struct {
	c       *kit.Ctx
	fill    *rand.Rand
	types   map[byte]bool
	sampled int
}

func (s *c32State) judgeHelper(t byte, owners, outs []common.Uint168, h uint32, list []frozenEntry, shape string) {
	c := s.c
	r := s.fill
	var ins []*common2.Input
	refs := map[*common2.Input]common2.Output{}
	for i, o := range owners {
		in := &common2.Input{Previous: common2.OutPoint{TxID: randHash256(r), Index: uint16(i)}}
		ins = append(ins, in)
		refs[in] = *stdOutput(o, 100)
	}
	var outputs []*common2.Output
	for _, o := range outs {
		outputs = append(outputs, stdOutput(o, 1))
	}
	tx := mkPolicyTx(t, 0, ins, outputs)
	var err error
	p, pval, _ := kit.Guard(func() { err = transaction.VerifCheckFrozenAddresses(tx, refs, h, toCfgList(list)) })
	c.Inc("A1_helper_calls")
	want, class := modelFrozen(common2.TxType(t) == common2.CoinBase, owners, outs, h, list)
	c.Case(fmt.Sprintf("A1:%02x:%s:%d:%d", t, shape, h, len(list)), want == polMustReject || class != "untouched")
	cas := map[string]interface{}{"type": common2.TxType(t).Name(), "shape": shape, "inputs": len(owners), "outputs": len(outs), "height": h, "entries": descList(list), "class": class}
	if p {
		c.Violate("panic:checkFrozenAddresses", fmt.Sprintf("helper panicked: %v (%v)", pval, cas), cas)
		return
	}
	s.types[t] = true
	if s.sampled < 1 && want == polMustReject && c.Shard == 0 {
		s.sampled++
		c.Sample(map[string]interface{}{"kind": "A1", "case": cas, "helper_error": fmt.Sprint(err)})
	}
	switch want {
	case polMustReject:
		c.Inc("A1_must_reject_checked")
		if class == "spend" {
			c.Inc("A1_reject_input_position")
		} else {
			c.Inc("A1_reject_output_position")
		}
		if err == nil {
			c.Violate("frozen:"+class+"-allowed", fmt.Sprintf("checkFrozenAddresses returned nil for %v", cas), cas)
		}
	case polMustAllow:
		c.Inc("A1_must_allow_checked")
		if err != nil {
			c.Violate("frozen:rejects-untouched", fmt.Sprintf("checkFrozenAddresses returned %q for %v", err, cas), cas)
		}
	default:
		c.Inc("A1_unjudged:" + class)
	}
}

func descList(list []frozenEntry) []string {
	var d []string
	for _, e := range list {
		if e.hash == nil {
			d = append(d, fmt.Sprintf("unresolved(%q)@%d", e.addr, e.start))
		} else {
			d = append(d, fmt.Sprintf("%s@%d", e.addr, e.start))
		}
	}
	return d
}

func runC32(c *kit.Ctx) {
	node.InitGlobals(c.WorkDir)
	t0 := time.Now()
	r := c.Rand("c32")
	s := &c32State{c: c, types: map[byte]bool{}, fill: c.Rand("c32-fill")}
	types := c31TxTypes()

	// ---------- A1 ----------
	mkList := func(k int) ([]frozenEntry, int) {
		// k-th list flavour; returns the list and the index of the target entry
		base := uint32(50 + r.Intn(1000))
		switch k % 6 {
		case 0:
			return []frozenEntry{randEntry(r, base)}, 0
		case 1:
			return []frozenEntry{randEntry(r, base+10), randEntry(r, base), randEntry(r, base+20)}, 1
		case 2: // unresolved entries around the target
			c.Inc("A1_nil_hash_entries_seen")
			u := randEntry(r, 0)
			u.hash = nil
			return []frozenEntry{{addr: "", start: 0}, randEntry(r, base), {addr: "not-an-address", start: 0}, u}, 1
		case 3: // target is last of five, earlier entries start later
			return []frozenEntry{randEntry(r, base+5), randEntry(r, base+4), randEntry(r, base+3), randEntry(r, base+2), randEntry(r, base)}, 4
		case 4: // start 0 and start max
			if r.Intn(2) == 0 {
				return []frozenEntry{randEntry(r, 0)}, 0
			}
			return []frozenEntry{randEntry(r, math.MaxUint32), randEntry(r, base)}, 0
		default: // the same address listed twice with different starts: the earlier one governs
			e := randEntry(r, base+7)
			e2 := e
			e2.start = base
			return []frozenEntry{e, e2}, 1
		}
	}
	heightsFor := func(start uint32) []uint32 {
		set := []uint32{start}
		if start > 0 {
			set = append(set, start-1, 0)
		}
		if start < math.MaxUint32 {
			set = append(set, start+1, math.MaxUint32)
		}
		return set
	}
	fill := func(n int) []common.Uint168 {
		v := make([]common.Uint168, n)
		for i := range v {
			v[i] = randHash168(r, pfxStd)
		}
		return v
	}
	round := 0
	rounds := c.N(1, 12)
	for rd := 0; rd < rounds; rd++ {
		for nIn := 1; nIn <= 6; nIn++ {
			for nOut := 1; nOut <= 6; nOut++ {
				// positions: -1 none; inputs 0..nIn-1; outputs 0..nOut-1; both; near-miss
				type place struct {
					in, out int
					near    bool
				}
				var places []place
				places = append(places, place{-1, -1, false}, place{-1, -1, true})
				for i := 0; i < nIn; i++ {
					places = append(places, place{i, -1, false})
				}
				for o := 0; o < nOut; o++ {
					places = append(places, place{-1, o, false})
				}
				places = append(places, place{r.Intn(nIn), r.Intn(nOut), false})
				for _, pl := range places {
					round++
					if round%c.Shards != c.Shard {
						continue
					}
					list, ti := mkList(round / c.Shards)
					target := list[ti]
					t := types[(round/c.Shards)%len(types)]
					if r.Intn(4) == 0 {
						t = 0x02
					}
					for _, h := range heightsFor(target.start) {
						owners, outs := fill(nIn), fill(nOut)
						th := *target.hash
						if pl.near {
							// near misses: other prefix / one flipped bit — must NOT be frozen
							if r.Intn(2) == 0 {
								th[0] = pfxMS
							} else {
								th[1+r.Intn(20)] ^= 1 << uint(r.Intn(8))
							}
							owners[r.Intn(nIn)] = th
							outs[r.Intn(nOut)] = th
						}
						if pl.in >= 0 {
							owners[pl.in] = th
						}
						if pl.out >= 0 {
							outs[pl.out] = th
						}
						if h < target.start && (pl.in >= 0 || pl.out >= 0) {
							c.Inc("A1_before_start_allowed")
						}
						shape := fmt.Sprintf("%din%dout:in@%d:out@%d:near=%v:list%d", nIn, nOut, pl.in, pl.out, pl.near, (round/c.Shards)%6)
						s.judgeHelper(t, owners, outs, h, list, shape)
					}
				}
			}
		}
	}
	// seeded random: several entries touched at once, duplicates, random heights
	for i, n := 0, c.N(4000, 80000); i < n; i++ {
		k := 1 + r.Intn(5)
		var list []frozenEntry
		for j := 0; j < k; j++ {
			e := randEntry(r, uint32(r.Intn(200)))
			switch r.Intn(8) {
			case 0:
				e.hash = nil
				c.Inc("A1_nil_hash_entries_seen")
			case 1:
				e = frozenEntry{addr: "", start: uint32(r.Intn(200))}
			case 2:
				e.start = math.MaxUint32
			}
			list = append(list, e)
		}
		nIn, nOut := 1+r.Intn(6), 1+r.Intn(6)
		owners, outs := fill(nIn), fill(nOut)
		for j := 0; j < r.Intn(3); j++ {
			e := list[r.Intn(len(list))]
			var th common.Uint168
			if e.hash != nil {
				th = *e.hash
			} else if ph, err := common.Uint168FromAddress(e.addr); err == nil {
				th = *ph
			} else {
				continue
			}
			if r.Intn(2) == 0 {
				owners[r.Intn(nIn)] = th
			} else {
				outs[r.Intn(nOut)] = th
			}
		}
		h := uint32(r.Intn(210))
		if r.Intn(10) == 0 {
			h = math.MaxUint32
		}
		t := types[r.Intn(len(types))]
		s.judgeHelper(t, owners, outs, h, list, fmt.Sprintf("rand:%d", i))
	}
	c.Count("A1_types_covered", int64(len(s.types)))

	t1 := time.Now()
	c.Max("max:info_wall_ms_A1", t1.Sub(t0).Milliseconds()) // informational only, never part of a verdict

	// ---------- A2 ----------
	runC32Live(c, types)
	t2 := time.Now()
	c.Max("max:info_wall_ms_A2", t2.Sub(t1).Milliseconds())

	// ---------- B ----------
	runConfigPart(c, "C32")
	c.Max("max:info_wall_ms_B", time.Since(t2).Milliseconds())
}

// ---- A2 ----

type acctPool struct {
	acct  *account.Account
	utxos []node.UTXORef
}

func (p *acctPool) take() *node.UTXORef {
	if len(p.utxos) == 0 {
		return nil
	}
	u := p.utxos[0]
	p.utxos = p.utxos[1:]
	return &u
}

func runC32Live(c *kit.Ctx, txTypes []byte) {
	r := c.Rand("c32-live")
	S1 := uint32(7 + r.Intn(3))
	S2 := S1 + 1 + uint32(r.Intn(3))
	kA, kB, kNever := node.Key(5), node.Key(6), node.Key(7)
	nd, err := node.Start(node.Options{Dir: c.WorkDir, CoinbaseMaturity: 2, Tweak: func(cfg *config.Configuration) {
		cfg.FrozenAddresses = []config.FrozenAddress{
			{Address: kA.Address, DisableStartHeight: S1},
			{Address: "not-an-address", DisableStartHeight: 0},
			{Address: kB.Address, DisableStartHeight: S2},
			{Address: "", DisableStartHeight: 0},
			{Address: kNever.Address, DisableStartHeight: math.MaxUint32},
		}
	}})
	if err != nil {
		c.Inconclusive("node start: %v", err)
		return
	}
	defer nd.Close()
	// the model's list comes from what the harness configured, not from the node
	list := []frozenEntry{
		{hash: &kA.ProgramHash, addr: kA.Address, start: S1},
		{addr: "not-an-address"},
		{hash: &kB.ProgramHash, addr: kB.Address, start: S2},
		{addr: ""},
		{hash: &kNever.ProgramHash, addr: kNever.Address, start: math.MaxUint32},
	}
	fa := nd.Cfg.FrozenAddresses
	if len(fa) != 5 || fa[0].ProgramHash == nil || !fa[0].ProgramHash.IsEqual(kA.ProgramHash) || fa[2].ProgramHash == nil || fa[1].ProgramHash != nil {
		c.Inconclusive("frozen list not applied/resolved as configured: %v", fa)
		return
	}
	if err := nd.MineN(3); err != nil {
		c.Inconclusive("mining: %v", err)
		return
	}
	g := nd.GenesisUTXO()
	per := common.Fixed64(10 * 1e8)
	plan := []struct {
		a *account.Account
		n int
	}{{node.Key(2), 260}, {node.Key(3), 110}, {kA, 60}, {kB, 40}, {kNever, 16}}
	var outs []node.Out
	for _, p := range plan {
		for i := 0; i < p.n; i++ {
			outs = append(outs, node.Out{To: p.a.ProgramHash, Value: per})
		}
	}
	outs = append(outs, node.Out{To: nd.Found.ProgramHash, Value: g.Value - per*common.Fixed64(len(outs)) - 1000})
	fund := node.Transfer([]node.UTXORef{g}, outs, common2.TxVersion09)
	if e := nd.TxPool.AppendToTxPool(fund); e != nil {
		c.Inconclusive("funding tx (pays the to-be-frozen accounts before their start) rejected: %v", e)
		return
	}
	if _, e := nd.MineTip(fund); e != nil {
		c.Inconclusive("funding block rejected: %v", e)
		return
	}
	pools := map[string]*acctPool{}
	idx := 0
	for _, p := range plan {
		ap := &acctPool{acct: p.a}
		for i := 0; i < p.n; i++ {
			ap.utxos = append(ap.utxos, node.UTXORef{TxID: fund.Hash(), Index: uint16(idx), Value: per, Owner: p.a})
			idx++
		}
		pools[p.a.Address] = ap
	}
	pStd, pStd2, pA, pB, pN := pools[node.Key(2).Address], pools[node.Key(3).Address], pools[kA.Address], pools[kB.Address], pools[kNever.Address]
	fee := common.Fixed64(1000)

	// --- (i) ContextCheck sweep: type variety through the real ContextCheck ---
	for ti, t := range txTypes {
		if common2.TxType(t) == common2.CoinBase || ti%2 != c.Shard%2 {
			continue
		}
		for _, h := range []uint32{S1 - 1, S1, S1 + 1, S2 - 1, S2, S2 + 1, math.MaxUint32} {
			for k := 0; k < 4; k++ {
				nIn, nOut := 1+r.Intn(6), 1+r.Intn(6)
				owners := make([]common.Uint168, nIn)
				os := make([]common.Uint168, nOut)
				for i := range owners {
					owners[i] = randHash168(r, pfxStd)
				}
				for i := range os {
					os[i] = node.Key(2 + r.Intn(2)).ProgramHash
				}
				tgt := []common.Uint168{kA.ProgramHash, kB.ProgramHash, kNever.ProgramHash}[r.Intn(3)]
				switch k {
				case 0:
					owners[r.Intn(nIn)] = tgt
				case 1:
					os[r.Intn(nOut)] = tgt
				case 2:
					owners[r.Intn(nIn)] = tgt
					os[r.Intn(nOut)] = tgt
				}
				var ins []*common2.Input
				refs := map[*common2.Input]common2.Output{}
				var outputs []*common2.Output
				for i, o := range owners {
					in := &common2.Input{Previous: common2.OutPoint{TxID: randHash256(r), Index: uint16(i)}}
					ins = append(ins, in)
					refs[in] = *stdOutput(o, per)
					oc := refs[in]
					nd.Chain.UTXOCache.InsertReference(in, &oc)
				}
				for _, o := range os {
					outputs = append(outputs, stdOutput(o, 1))
				}
				tx := mkPolicyTx(t, 0, ins, outputs)
				var cerr elaerr.ELAError
				p, _, _ := kit.Guard(func() { _, cerr = nd.Chain.CheckTransactionContext(h, tx, 0, 0) })
				c.Inc("A2_ctx_calls")
				want, class := modelFrozen(false, owners, os, h, list)
				c.Case(fmt.Sprintf("A2:ctx:%02x:%d:%d:%d:%d:%x", t, h, k, nIn, nOut, tgt[:4]), want == polMustReject)
				cas := map[string]interface{}{"path": "ContextCheck", "type": common2.TxType(t).Name(), "height": h, "inputs": nIn, "outputs": nOut, "class": class, "S1": S1, "S2": S2}
				if p {
					c.Inc("A2_ctx_panicked")
					continue
				}
				if stageBeforePolicy(cerr) {
					c.Inc("A2_ctx_stopped_before_frozen_stage")
					if want == polMustReject && cerr == nil {
						c.Violate("contextcheck:must-reject-accepted:"+class, fmt.Sprintf("ContextCheck returned nil for %v", cas), cas)
					}
					continue
				}
				herr := transaction.VerifCheckFrozenAddresses(tx, refs, h, nd.Cfg.FrozenAddresses)
				frozenRej := cerr != nil && cerr.Code() == elaerr.ErrTxInvalidInput && cerr.InnerError() != nil && herr != nil && cerr.InnerError().Error() == herr.Error()
				if frozenRej {
					c.Inc("A2_ctx_frozen_stage_rejects")
				} else {
					c.Inc("A2_ctx_passed_frozen_stage")
				}
				if (herr != nil) != frozenRej {
					c.Violate("contextcheck:differs-from-helper", fmt.Sprintf("ContextCheck frozen-stage rejection=%v (err %v) but helper on the same inputs says %v: %v", frozenRej, cerr, herr, cas), cas)
				}
				if want == polMustReject && cerr == nil {
					c.Violate("contextcheck:must-reject-accepted:"+class, fmt.Sprintf("ContextCheck returned nil for %v", cas), cas)
				}
				if want == polMustAllow && frozenRej {
					c.Violate("contextcheck:frozen-stage-rejects-untouched", fmt.Sprintf("ContextCheck frozen stage rejected (%v) %v", cerr.InnerError(), cas), cas)
				}
			}
		}
	}

	// --- (ii) end to end across the start heights ---
	mineWith := func(txs []interfaces.Transaction, miner string) (*types.Block, bool, error) {
		var fees common.Fixed64
		for _, tx := range txs {
			refs, err := nd.Chain.UTXOCache.GetTxReference(tx)
			if err != nil {
				return nil, false, err
			}
			var in, out common.Fixed64
			for _, o := range refs {
				in += o.Value
			}
			for _, o := range tx.Outputs() {
				out += o.Value
			}
			fees += in - out
		}
		b, err := nd.Assemble(node.BlockSpec{Txs: txs, Fees: fees, MinerAddr: miner})
		if err != nil {
			return nil, false, err
		}
		h0 := nd.Height()
		_, _, perr := nd.Process(b)
		ok := nd.Height() == h0+1 && nd.Tip().IsEqual(b.Hash())
		if ok {
			nd.PostBlock(b)
		}
		return b, ok, perr
	}
	type attempt struct {
		kind   string
		tx     interfaces.Transaction
		owners []common.Uint168
		outs   []common.Uint168
	}
	build := func(kind string, ins []*node.UTXORef, dests []common.Uint168) *attempt {
		var refs []node.UTXORef
		var total common.Fixed64
		a := &attempt{kind: kind}
		for _, u := range ins {
			if u == nil {
				return nil
			}
			refs = append(refs, *u)
			total += u.Value
			a.owners = append(a.owners, u.Owner.ProgramHash)
		}
		var os []node.Out
		each := (total - fee) / common.Fixed64(len(dests))
		for i, d := range dests {
			v := each
			if i == len(dests)-1 {
				v = total - fee - each*common.Fixed64(len(dests)-1)
			}
			os = append(os, node.Out{To: d, Value: v})
			a.outs = append(a.outs, d)
		}
		ver := common2.TxVersion09
		if r.Intn(3) == 0 {
			ver = common2.TxVersionDefault
		}
		a.tx = node.Transfer(refs, os, ver)
		return a
	}
	std := func() common.Uint168 { return node.Key(2 + r.Intn(3)).ProgramHash }
	lastH := S2 + 2
	sampled := 0
	for nd.Height()+1 <= lastH {
		t := nd.Height() + 1
		var atts []*attempt
		add := func(a *attempt) {
			if a != nil {
				atts = append(atts, a)
			}
		}
		add(build("spend-from-A", []*node.UTXORef{pA.take()}, []common.Uint168{std()}))
		add(build("spend-from-B", []*node.UTXORef{pB.take()}, []common.Uint168{std()}))
		add(build("pay-to-A", []*node.UTXORef{pStd.take()}, []common.Uint168{kA.ProgramHash}))
		add(build("pay-to-B", []*node.UTXORef{pStd.take()}, []common.Uint168{kB.ProgramHash}))
		add(build("spend-from-never", []*node.UTXORef{pN.take()}, []common.Uint168{std()}))
		add(build("A-to-A", []*node.UTXORef{pA.take()}, []common.Uint168{kA.ProgramHash}))
		// frozen account at a seeded position of a 1-6-input / 1-6-output transfer
		for k := 0; k < 3; k++ {
			nIn, nOut := 1+r.Intn(6), 1+r.Intn(6)
			fp := []*acctPool{pA, pB}[r.Intn(2)]
			var ins []*node.UTXORef
			pos := r.Intn(nIn)
			asInput := k != 1
			for i := 0; i < nIn; i++ {
				if asInput && i == pos {
					ins = append(ins, fp.take())
				} else if i%2 == 0 {
					ins = append(ins, pStd.take())
				} else {
					ins = append(ins, pStd2.take())
				}
			}
			dests := make([]common.Uint168, nOut)
			for i := range dests {
				dests[i] = std()
			}
			if k >= 1 {
				dests[r.Intn(nOut)] = fp.acct.ProgramHash
			}
			add(build(fmt.Sprintf("multi:%din%dout:in=%v:out=%v", nIn, nOut, asInput, k >= 1), ins, dests))
		}
		add(build("honest", []*node.UTXORef{pStd.take()}, []common.Uint168{node.Key(4).ProgramHash}))
		r.Shuffle(len(atts), func(i, j int) { atts[i], atts[j] = atts[j], atts[i] })

		var toMine []interfaces.Transaction
		for ai, a := range atts {
			want, class := modelFrozen(false, a.owners, a.outs, t, list)
			viaPool := ai%3 != 2 || want == polMustReject
			cas := map[string]interface{}{"kind": a.kind, "height": t, "S1": S1, "S2": S2, "class": class}
			touches := false
			for _, e := range []common.Uint168{kA.ProgramHash, kB.ProgramHash} {
				for _, o := range a.owners {
					if o == e {
						touches = true
						c.Inc("A2_spend_attempts")
					}
				}
				for _, o := range a.outs {
					if o == e {
						touches = true
						c.Inc("A2_receive_attempts")
					}
				}
			}
			// attribution of a rejection to the frozen stage: the text the real
			// helper produces for exactly this transaction (counters only)
			frozenMsg := ""
			if refs, e := nd.Chain.UTXOCache.GetTxReference(a.tx); e == nil {
				if herr := transaction.VerifCheckFrozenAddresses(a.tx, refs, t, nd.Cfg.FrozenAddresses); herr != nil {
					frozenMsg = herr.Error()
				}
			}
			c.Begin("A2 e2e %s at height %d (S1=%d S2=%d)", a.kind, t, S1, S2)
			c.Case(fmt.Sprintf("A2:e2e:%s:%d:%d:%d", a.kind, t, S1, S2), touches)
			if !viaPool {
				toMine = append(toMine, a.tx) // block path only (no pool admission first)
				continue
			}
			c.Inc("A2_pool_submissions")
			perr := nd.TxPool.AppendToTxPool(a.tx)
			if sampled < 2 && c.Shard == 0 && touches && (t == S1 || t == S1-1) {
				sampled++
				c.Sample(map[string]interface{}{"kind": "A2-e2e", "attempt": a.kind, "height": t, "S1": S1, "S2": S2, "model": class, "pool_error": fmt.Sprint(perr)})
			}
			switch want {
			case polMustReject:
				if perr == nil {
					c.Violate("live:frozen-"+class+"-accepted:mempool", fmt.Sprintf("AppendToTxPool accepted %v", cas), cas)
					nd.TxPool.RemoveTransaction(a.tx)
				} else if perr.Code() == elaerr.ErrTxInvalidInput && perr.InnerError() != nil && frozenMsg != "" && perr.InnerError().Error() == frozenMsg {
					c.Inc("A2_pool_frozen_rejects")
				} else {
					c.Inc("A2_pool_rejected_elsewhere")
				}
				// the same transaction inside a block
				c.Inc("A2_block_submissions")
				_, ok, berr := mineWith([]interfaces.Transaction{a.tx}, "")
				if ok {
					c.Violate("live:frozen-"+class+"-accepted:block", fmt.Sprintf("ProcessBlock connected a block at height %d containing %v", t, cas), cas)
				} else if berr != nil && frozenMsg != "" && strings.Contains(errChain(berr), frozenMsg) {
					c.Inc("A2_block_frozen_rejects")
				} else {
					c.Inc("A2_block_rejected_elsewhere")
				}
			case polMustAllow:
				if perr != nil {
					c.Violate("live:permitted-rejected:mempool", fmt.Sprintf("AppendToTxPool rejected (%v) a properly signed transfer the list does not cover: %v", perr, cas), cas)
				} else {
					toMine = append(toMine, a.tx)
				}
			}
			if nd.Height()+1 != t {
				break
			}
		}
		if nd.Height()+1 != t {
			continue // a must-reject block got connected (already reported); heights moved
		}
		// this height's block: everything the model permits; now and then the miner is a frozen address (coinbase: observed only)
		miner := ""
		if t >= S1 && t%2 == 0 {
			miner = kA.Address
		}
		c.Inc("A2_block_submissions")
		_, ok, berr := mineWith(toMine, miner)
		if !ok && miner != "" {
			c.Inc("A2_coinbase_to_frozen_rejected")
			_, ok, berr = mineWith(toMine, "")
		} else if ok && miner != "" {
			c.Inc("A2_coinbase_to_frozen_accepted")
		}
		if !ok {
			c.Violate("live:permitted-rejected:block", fmt.Sprintf("ProcessBlock rejected (%v) a block at height %d (S1=%d S2=%d) holding only properly signed transfers the list does not cover", errChain(berr), t, S1, S2), nil)
			for _, tx := range toMine {
				nd.TxPool.RemoveTransaction(tx)
			}
			if nd.MineN(1) != nil {
				return
			}
			continue
		}
		for _, a := range atts {
			for _, m := range toMine {
				if m == a.tx {
					switch {
					case a.kind == "honest":
						c.Inc("A2_honest_accepted")
					case a.kind == "spend-from-never":
						c.Inc("A2_accepted_never_frozen")
					case a.kind != "honest":
						for _, e := range []common.Uint168{kA.ProgramHash, kB.ProgramHash} {
							for _, o := range append(append([]common.Uint168{}, a.owners...), a.outs...) {
								if o == e {
									c.Inc("A2_accepted_before_start")
								}
							}
						}
					}
				}
			}
		}
	}
	c.Max("max:A2_final_height", int64(nd.Height()))

	// --- (iii) recorded history ---
	l := nd.Replay()
	c.Inc("A2_history_scans")
	owner := map[node.OutKey]common.Uint168{}
	for _, b := range l.Blocks {
		for _, tx := range b.Transactions {
			for i, o := range tx.Outputs() {
				owner[node.OutKey{TxID: tx.Hash(), Index: uint16(i)}] = o.ProgramHash
			}
		}
	}
	for _, b := range l.Blocks {
		for _, tx := range b.Transactions {
			var owners, os []common.Uint168
			if !tx.IsCoinBaseTx() {
				for _, in := range tx.Inputs() {
					owners = append(owners, owner[node.OutKey{TxID: in.Previous.TxID, Index: in.Previous.Index}])
				}
			}
			for _, o := range tx.Outputs() {
				os = append(os, o.ProgramHash)
			}
			c.Inc("A2_history_txs_scanned")
			want, class := modelFrozen(tx.IsCoinBaseTx(), owners, os, b.Height, list)
			if want == polMustReject {
				c.Violate("history:frozen-tx-in-chain", fmt.Sprintf("block %d of the node's chain contains non-coinbase tx %s (%s): frozen %s; S1=%d S2=%d", b.Height, tx.Hash(), tx.TxType().Name(), class, S1, S2), nil)
			}
			if class == "coinbase-touches-frozen" {
				c.Inc("A2_history_coinbase_to_frozen")
			}
		}
	}
}

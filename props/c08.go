package props

import (
	"bytes"
	"fmt"
	"math"
	"math/rand"

	"github.com/elastos/Elastos.ELA/auxpow"
	"github.com/elastos/Elastos.ELA/common"
	"github.com/elastos/Elastos.ELA/core/types"
	common2 "github.com/elastos/Elastos.ELA/core/types/common"
	"github.com/elastos/Elastos.ELA/core/types/interfaces"
	"github.com/elastos/Elastos.ELA/elanet/bloom"
	"github.com/elastos/Elastos.ELA/elanet/filter"
	"github.com/elastos/Elastos.ELA/p2p/msg"

	"verif/kit"
	"verif/kit/node"
)

// C08 — SPV merkle proofs are sound and complete.
//
// The node side (bloom.NewMerkleBlock and the copy the server really uses,
// elanet/filter.NewMerkleBlock behind a filter loaded from a txfilterload
// message) builds a merkle block; it travels through its wire encoding; the
// light-client side (CheckMerkleBlock, both copies) parses it. Oracles:
// extracted == matched txs in order (against the indexes the builder returned,
// against ground truth, and against the independent filter-protocol replay);
// any corruption either fails or returns only txids of the block; branches from
// GetTxMerkleBranch evaluate (auxpow.GetMerkleRoot and an independent fold) to
// the header root, which itself is checked against an independent merkle tree.

const c08ExhaustiveMaxN = 10

func init() {
	kit.Register(&kit.Spec{
		ID:     "C08",
		Rule:   "blocks of 1..70 unsigned txs (random inputs/outputs, in-block spends); exhaustive part: every one of the 2^n match patterns for n=1..10 induced by watching exactly those txids in a sparse filter (patterns are partitioned over the shards); random part: n in 1..70, filters with random size (1..36000 bytes)/hash count (1..50)/tweak watching txids, paid program hashes and outpoints, and side-chain filters (tweak 2^32-1 with tx-type lists); per case the honest message is checked, then corrupted: every bit of every flag byte, bits of every hash (all 256 on a share of the cases), hash list truncated/extended, tx count +-1/x2//2, header root changed. distinct = (n, matched index set, filter geometry); non-trivial = at least one tx matched and at least one did not, or n==1",
		Shards: func(tier string) int { return 8 },
		Run:    runC08,
		Post:   postC08,
		TimeoutS: func(tier string) int {
			if tier == "thorough" {
				return 2400
			}
			return 900
		},
		Require: []string{"dup_tail_forgeries", "dup_tail_forgeries_rejected", "dup_tail_branch_refused", "exhaustive_patterns_exact", "random_cases", "honest_roundtrips_bloom", "honest_roundtrips_server_path", "matched_txs_recovered",
			"model_replays", "sidechain_filter_cases", "false_positive_matches_seen", "inblock_spend_matches", "corrupt_hash_bits", "corrupt_hash_full_sweeps", "corrupt_flag_bits",
			"corrupt_truncated", "corrupt_extended", "corrupt_txcount", "corrupt_root", "corrupt_rejected", "branches_checked", "branches_odd_width", "widths_non_power_of_two"},
		Assumptions: []string{"sha256 from the Go standard library", "the filter-protocol model of props/c39_model.go (checked against the real filter by C39)",
			"tx counts >= 2^31 in a merkle block message are outside this workload (the parser's tree-depth loop does not terminate there; reported separately)"},
	})
}

func postC08(a *kit.Agg) {
	want := int64(0)
	for n := 1; n <= c08ExhaustiveMaxN; n++ {
		want += 1 << uint(n)
	}
	if got := a.Counters["exhaustive_patterns_exact"]; got != want && len(a.Violations) == 0 {
		a.Inconclusive("exhaustive pattern coverage: %d of %d (n<=%d) patterns were induced exactly", got, want, c08ExhaustiveMaxN)
	}
}

type c08Block struct {
	n      int
	txs    []interfaces.Transaction
	rts    []*refTx
	leaves [][32]byte
	ids    map[[32]byte]int
	root   [32]byte
	blk    *types.Block
	spends [][2]int // per tx: (earlier tx index, output index) it spends, or (-1,-1)
}

func c08MakeBlock(r *rand.Rand, n int, tts []common2.TxType, chainProb int) *c08Block {
	b := &c08Block{n: n, ids: map[[32]byte]int{}}
	for i := 0; i < n; i++ {
		var ins []common2.OutPoint
		sp := [2]int{-1, -1}
		for k := 0; k < 1+r.Intn(2); k++ {
			ins = append(ins, randOutPoint(r))
		}
		if i > 0 && chainProb > 0 && r.Intn(chainProb) == 0 {
			j := r.Intn(i)
			o := r.Intn(len(b.rts[j].outs))
			ins[r.Intn(len(ins))] = common2.OutPoint{TxID: b.txs[j].Hash(), Index: uint16(o)}
			sp = [2]int{j, o}
		}
		outs := make([]common.Uint168, 1+r.Intn(3))
		for k := range outs {
			outs[k] = randPH(r)
		}
		t := common2.TransferAsset
		if i == 0 {
			t = common2.CoinBase
		} else if r.Intn(3) == 0 {
			t = tts[r.Intn(len(tts))]
		}
		ver := common2.TxVersion09
		if r.Intn(2) == 0 {
			ver = common2.TxVersionDefault
		}
		tx, rt := filterTx(t, ver, ins, outs, r.Uint32())
		b.txs = append(b.txs, tx)
		b.rts = append(b.rts, rt)
		b.leaves = append(b.leaves, rt.hash)
		b.ids[rt.hash] = i
		b.spends = append(b.spends, sp)
	}
	b.root = refMerkleRoot(b.leaves)
	hdr := common2.Header{Version: 0, Timestamp: 1600000000 + uint32(n), Bits: 0x207fffff, Height: uint32(100 + n), MerkleRoot: b.root}
	r.Read(hdr.Previous[:])
	hdr.AuxPow = *auxpow.GenerateAuxPow(hdr.Hash())
	b.blk = &types.Block{Header: hdr, Transactions: b.txs}
	return b
}

// c08Wire sends a merkle block through its wire encoding.
func c08Wire(mb *msg.MerkleBlock) (*msg.MerkleBlock, error) {
	buf := new(bytes.Buffer)
	if err := mb.Serialize(buf); err != nil {
		return nil, err
	}
	out := msg.NewMerkleBlock(&common2.Header{})
	if err := out.Deserialize(bytes.NewReader(buf.Bytes())); err != nil {
		return nil, err
	}
	return out, nil
}

func c08Clone(m *msg.MerkleBlock) msg.MerkleBlock {
	h := *(m.Header.(*common2.Header))
	c := msg.MerkleBlock{Header: &h, Transactions: m.Transactions, Flags: append([]byte(nil), m.Flags...)}
	for _, x := range m.Hashes {
		y := *x
		c.Hashes = append(c.Hashes, &y)
	}
	return c
}

type c08Checker struct {
	name string
	fn   func(msg.MerkleBlock) ([]*common.Uint256, error)
}

var c08Checkers = []c08Checker{{"bloom", bloom.CheckMerkleBlock}, {"filter", filter.CheckMerkleBlock}}

func bitsetString(idx []uint32, n int) string {
	b := make([]byte, n)
	for i := range b {
		b[i] = '0'
	}
	for _, i := range idx {
		b[i] = '1'
	}
	return string(b)
}

func runC08(c *kit.Ctx) {
	node.InitGlobals(c.WorkDir)
	r := c.Rand("c08")
	tts := c39FilterTxTypes()

	// ---------- exhaustive part: all 2^n patterns, n <= 10 ----------
	seq := 0
	for n := 1; n <= c08ExhaustiveMaxN; n++ {
		for pat := 0; pat < 1<<uint(n); pat++ {
			seq++
			if seq%c.Shards != c.Shard {
				continue
			}
			b := c08MakeBlock(r, n, tts, 0)
			// sparse filter watching exactly the txids of the pattern
			ref := newRefBloom(2048+r.Intn(2048), uint32(8+r.Intn(8)), r.Uint32()&0x7fffffff)
			must := make([]bool, n)
			for i := 0; i < n; i++ {
				if pat>>uint(i)&1 == 1 {
					ref.add(b.leaves[i][:])
					must[i] = true
				}
			}
			idx, ok := c08Case(c, r, b, ref, nil, must, fmt.Sprintf("ex:%d:%0*b", n, n, pat), seq%16 == 0, true)
			exact := ok && len(idx) == popcount(pat)
			if exact {
				for _, i := range idx {
					if !must[i] {
						exact = false
					}
				}
			}
			if exact {
				c.Inc("exhaustive_patterns_exact")
			}
		}
	}

	// ---------- random part ----------
	nR := c.N(625, 4000) // per shard: 5k / 32k in total
	for i := 0; i < nR; i++ {
		var n int
		switch r.Intn(4) {
		case 0:
			n = 1 + r.Intn(12)
		case 1:
			n = []int{1, 2, 3, 5, 7, 9, 15, 16, 17, 31, 32, 33, 63, 64, 65, 70, 47, 11, 13, 69}[r.Intn(20)]
		default:
			n = 1 + r.Intn(70)
		}
		b := c08MakeBlock(r, n, tts, 3)
		sidechain := i%5 == 4
		var size int
		var k uint32
		switch r.Intn(6) {
		case 0:
			size, k = 1+r.Intn(8), uint32(1+r.Intn(4)) // saturating: many false positives
		case 1:
			size, k = 1+r.Intn(bloom.MaxFilterLoadFilterSize), uint32(1+r.Intn(bloom.MaxFilterLoadHashFuncs))
		case 2:
			size, k = bloom.MaxFilterLoadFilterSize, bloom.MaxFilterLoadHashFuncs
		default:
			size, k = 8+r.Intn(600), uint32(1+r.Intn(16))
		}
		tweak := r.Uint32()
		if sidechain {
			tweak = math.MaxUint32
		} else if tweak == math.MaxUint32 || i%11 == 0 {
			tweak = 0
		}
		ref := newRefBloom(size, k, tweak)
		var refTypes []byte
		if sidechain && r.Intn(3) != 0 {
			for _, t := range tts {
				if r.Intn(4) == 0 {
					refTypes = append(refTypes, byte(t))
				}
			}
		}
		must := make([]bool, n)
		density := []int{1, 2, 4, 8, 16}[r.Intn(5)]
		watchedOut := map[[2]int]bool{}
		for j := 0; j < n; j++ {
			if r.Intn(density) != 0 {
				continue
			}
			switch r.Intn(3) {
			case 0: // watch the txid
				if !sidechain {
					ref.add(b.leaves[j][:])
					must[j] = true
				}
			case 1: // watch a program hash it pays to
				o := r.Intn(len(b.rts[j].outs))
				ref.add(b.rts[j].outs[o])
				must[j] = true
				watchedOut[[2]int{j, o}] = true
			default: // watch an outpoint it spends
				if !sidechain {
					ref.add(b.rts[j].inputs[r.Intn(len(b.rts[j].inputs))])
					must[j] = true
				}
			}
		}
		for j := 0; j < n; j++ {
			if sidechain {
				for _, t := range refTypes {
					if b.rts[j].txType == t {
						must[j] = true
					}
				}
			} else if sp := b.spends[j]; sp[0] >= 0 && watchedOut[sp] {
				must[j] = true // spends an output whose outpoint the filter update inserted
				c.Inc("inblock_spend_matches")
			}
		}
		if sidechain {
			c.Inc("sidechain_filter_cases")
		}
		c.Inc("random_cases")
		full := (c.Quick() && i%8 == 0 && n <= 24) || (!c.Quick() && i%12 == 0 && n <= 40)
		c08Case(c, r, b, ref, refTypes, must, fmt.Sprintf("rnd:%d:%d:%d:%d", n, size, k, tweak), full, false)
	}
}

func popcount(x int) int {
	n := 0
	for ; x != 0; x &= x - 1 {
		n++
	}
	return n
}

// c08Case runs one (block, filter) pair through build -> wire -> check and all
// corruptions. Returns the matched indexes the builder reported.
func c08Case(c *kit.Ctx, r *rand.Rand, b *c08Block, ref *refBloom, refTypes []byte, must []bool, id string, fullSweep, exhaustive bool) ([]uint32, bool) {
	n := b.n
	if n&(n-1) != 0 {
		c.Inc("widths_non_power_of_two")
	}
	var txTypes []common2.TxType
	for _, t := range refTypes {
		txTypes = append(txTypes, common2.TxType(t))
	}
	mkLoad := func() *msg.FilterLoad {
		return &msg.FilterLoad{Filter: append([]byte(nil), ref.bits...), HashFuncs: ref.k, Tweak: ref.tweak, TxTypes: append([]common2.TxType(nil), txTypes...)}
	}
	c.Begin("case %s", id)

	// --- independent replay of the filter protocol over the block ---
	model := ref.clone()
	var want []uint32
	for i, rt := range b.rts {
		if refMatchTx(model, refTypes, rt) {
			want = append(want, uint32(i))
		}
	}
	c.Inc("model_replays")

	// --- node side, two paths ---
	var mbBloom, mbServ *msg.MerkleBlock
	var idxBloom, idxServ []uint32
	p, pv, st := kit.Guard(func() {
		mbBloom, idxBloom = bloom.NewMerkleBlock(b.blk, bloom.LoadFilter(mkLoad()))
		sf := filter.New(func(t uint8) filter.TxFilter {
			if t == filter.FTBloom {
				return bloom.NewTxFilter()
			}
			return nil
		})
		buf := new(bytes.Buffer)
		mkLoad().Serialize(buf)
		if err := sf.Load(&msg.TxFilterLoad{Type: filter.FTBloom, Data: buf.Bytes()}); err != nil {
			panic("server filter load: " + err.Error())
		}
		mbServ, idxServ = filter.NewMerkleBlock(b.blk.Transactions, sf)
		mbServ.Header = &b.blk.Header // as NetServer.pushMerkleBlockMsg does for bloom filters
	})
	if p {
		c.Violate("panic:NewMerkleBlock", fmt.Sprintf("%s: NewMerkleBlock panicked: %v\n%s", id, pv, firstLines(st, 12)), map[string]interface{}{"n": n, "id": id})
		return nil, false
	}
	pattern := bitsetString(idxBloom, n)
	nontrivial := n == 1 || (len(idxBloom) > 0 && len(idxBloom) < n)
	c.Case(fmt.Sprintf("%d:%s:%d:%d", n, pattern, len(ref.bits), ref.k), nontrivial)
	c.Max("max:txs_in_block", int64(n))
	c.Max("max:matched_in_block", int64(len(idxBloom)))

	if !equalU32(idxBloom, idxServ) {
		c.Violate("builder-paths-disagree", fmt.Sprintf("%s: bloom.NewMerkleBlock matched %v, elanet/filter.NewMerkleBlock matched %v", id, idxBloom, idxServ), map[string]interface{}{"n": n})
	}
	// ground truth: no false negatives
	got := map[uint32]bool{}
	for _, i := range idxBloom {
		got[i] = true
	}
	for i, m := range must {
		if m && !got[uint32(i)] {
			c.Violate("watched-tx-not-matched", fmt.Sprintf("%s: tx %d is watched (txid / paid program hash / spent outpoint / requested type) but is not among the matched indexes %v", id, i, idxBloom),
				map[string]interface{}{"n": n, "tx": i, "size": len(ref.bits), "hash_funcs": ref.k, "tweak": ref.tweak})
		}
	}
	fp := 0
	for _, i := range idxBloom {
		if !must[i] {
			fp++
		}
	}
	if fp > 0 {
		c.Count("false_positive_matches_seen", int64(fp))
	}
	// independent replay: same matched set
	if !equalU32(idxBloom, want) {
		wantSet := map[uint32]bool{}
		for _, i := range want {
			wantSet[i] = true
		}
		missing := []uint32{}
		for _, i := range want {
			if !got[i] {
				missing = append(missing, i)
			}
		}
		if len(missing) > 0 {
			c.Violate("protocol-replay-match-not-served", fmt.Sprintf("%s: the independent replay of the filter protocol matches txs %v which the builder did not match (builder: %v)", id, missing, idxBloom),
				map[string]interface{}{"n": n, "size": len(ref.bits), "hash_funcs": ref.k, "tweak": ref.tweak})
		} else {
			c.Inc("builder_extra_matches_vs_replay") // not demanded by the property; visible in the evidence
		}
	}

	// --- through the wire, light-client side ---
	rootU := common.Uint256(b.root)
	var wires []*msg.MerkleBlock
	for pi, mb := range []*msg.MerkleBlock{mbBloom, mbServ} {
		pathName := []string{"bloom", "server"}[pi]
		idx := [][]uint32{idxBloom, idxServ}[pi]
		w, err := c08Wire(mb)
		if err != nil {
			c.Violate("merkleblock-wire-roundtrip", fmt.Sprintf("%s: %s path: %v", id, pathName, err), nil)
			return idxBloom, false
		}
		wires = append(wires, w)
		if w.Header.(*common2.Header).MerkleRoot != rootU {
			c.Violate("header-root-not-reference-root", fmt.Sprintf("%s: header root on the wire differs from the reference merkle root", id), nil)
		}
		for _, ck := range c08Checkers {
			var hs []*common.Uint256
			var err error
			p, pv, st := kit.Guard(func() { hs, err = ck.fn(c08Clone(w)) })
			if p {
				c.Violate("panic:CheckMerkleBlock:honest", fmt.Sprintf("%s: %s.CheckMerkleBlock panicked on the honest message of n=%d pattern=%s: %v\n%s", id, ck.name, n, pattern, pv, firstLines(st, 10)),
					map[string]interface{}{"n": n, "pattern": pattern})
				continue
			}
			if pi == 0 {
				c.Inc("honest_roundtrips_bloom")
			} else {
				c.Inc("honest_roundtrips_server_path")
			}
			if err != nil {
				c.Violate("honest-merkleblock-rejected", fmt.Sprintf("%s: %s.CheckMerkleBlock rejects the node's own merkle block (n=%d pattern=%s, %s path): %v", id, ck.name, n, pattern, pathName, err),
					map[string]interface{}{"n": n, "pattern": pattern})
				continue
			}
			ok := len(hs) == len(idx)
			for j := 0; ok && j < len(hs); j++ {
				ok = [32]byte(*hs[j]) == b.leaves[idx[j]]
			}
			if !ok {
				c.Violate("extracted-differs-from-matched", fmt.Sprintf("%s: %s.CheckMerkleBlock returned %d txids that are not exactly the matched txs %v in order (n=%d)", id, ck.name, len(hs), idx, n),
					map[string]interface{}{"n": n, "pattern": pattern})
			} else {
				c.Count("matched_txs_recovered", int64(len(hs)))
			}
		}
	}
	c08DupTail(c, b, id)
	w := wires[0]
	if (exhaustive && n == 5 && len(idxBloom) == 2) || (!exhaustive && n == 13 && len(idxBloom) > 0 && len(idxBloom) < 5) {
		c.Sample(map[string]interface{}{"kind": "honest", "case": id, "n": n, "pattern": pattern, "filter_bytes": len(ref.bits), "hash_funcs": ref.k, "tweak": ref.tweak, "hashes_in_message": len(w.Hashes), "flag_bytes": fmt.Sprintf("%x", w.Flags), "tx_count": w.Transactions})
	}

	// --- branches ---
	for _, i := range idxBloom {
		txid := common.Uint256(b.leaves[i])
		var mbr *bloom.MerkleBranch
		var err error
		p, pv, st := kit.Guard(func() { mbr, err = bloom.GetTxMerkleBranch(c08Clone(w), &txid) })
		c.Inc("branches_checked")
		if n%2 == 1 {
			c.Inc("branches_odd_width")
		}
		if p {
			c.Violate("panic:GetTxMerkleBranch", fmt.Sprintf("%s: GetTxMerkleBranch panicked for tx %d of %d (pattern %s): %v\n%s", id, i, n, pattern, pv, firstLines(st, 10)),
				map[string]interface{}{"n": n, "tx": i, "pattern": pattern})
			continue
		}
		if err != nil {
			c.Violate("branch-extraction-failed", fmt.Sprintf("%s: GetTxMerkleBranch failed for matched tx %d of %d (pattern %s): %v", id, i, n, pattern, err),
				map[string]interface{}{"n": n, "tx": i, "pattern": pattern})
			continue
		}
		ev := auxpow.GetMerkleRoot(txid, mbr.Branches, mbr.Index)
		var br [][32]byte
		for _, x := range mbr.Branches {
			br = append(br, [32]byte(x))
		}
		ev2 := refBranchRoot(b.leaves[i], br, mbr.Index)
		if ev != rootU {
			c.Violate("branch-does-not-evaluate-to-root", fmt.Sprintf("%s: branch of tx %d of %d (pattern %s, %d siblings, index %d) evaluates to %s, header root is %s", id, i, n, pattern, len(mbr.Branches), mbr.Index, ev.String()[:16], rootU.String()[:16]),
				map[string]interface{}{"n": n, "tx": i, "pattern": pattern, "index": mbr.Index, "siblings": len(mbr.Branches)})
		}
		if [32]byte(ev) != ev2 {
			c.Violate("branch-evaluator-differs-from-reference", fmt.Sprintf("%s: auxpow.GetMerkleRoot and the reference fold disagree for tx %d of %d", id, i, n), nil)
		}
	}

	// --- corruptions ---
	ck := c08Checkers[0]
	if r.Intn(2) == 0 {
		ck = c08Checkers[1]
	}
	inBlock := func(hs []*common.Uint256) bool {
		for _, h := range hs {
			if _, ok := b.ids[[32]byte(*h)]; !ok {
				return false
			}
		}
		return true
	}
	try := func(kind string, mustFail bool, m msg.MerkleBlock, detail string) {
		var hs []*common.Uint256
		var err error
		p, pv, st := kit.Guard(func() { hs, err = ck.fn(m) })
		if p {
			c.Violate("panic:CheckMerkleBlock:corrupted-message", fmt.Sprintf("%s: %s.CheckMerkleBlock panicked on a corrupted message (%s; n=%d pattern=%s): %v\n%s", id, ck.name, detail, n, pattern, pv, firstLines(st, 10)),
				map[string]interface{}{"n": n, "pattern": pattern, "corruption": detail})
			return
		}
		if err != nil {
			c.Inc("corrupt_rejected")
			return
		}
		c.Inc("corrupt_accepted:" + kind)
		if mustFail {
			c.Violate("corrupted-message-accepted", fmt.Sprintf("%s: %s.CheckMerkleBlock succeeds on a message with %s (n=%d pattern=%s)", id, ck.name, detail, n, pattern),
				map[string]interface{}{"n": n, "pattern": pattern, "corruption": detail})
			return
		}
		if !inBlock(hs) {
			c.Violate("foreign-txid-returned", fmt.Sprintf("%s: %s.CheckMerkleBlock succeeds on a message with %s and returns a hash that is not a transaction of the block (n=%d pattern=%s)", id, ck.name, detail, n, pattern),
				map[string]interface{}{"n": n, "pattern": pattern, "corruption": detail})
		}
	}
	// hashes: every hash is consumed by the honest parse, so any flipped bit must be noticed
	for hi := range w.Hashes {
		var bits []int
		if fullSweep {
			bits = make([]int, 256)
			for k := range bits {
				bits[k] = k
			}
		} else {
			by := r.Intn(32)
			bits = []int{0, 255, by*8 + r.Intn(8), r.Intn(256)}
		}
		for _, bit := range bits {
			m := c08Clone(w)
			m.Hashes[hi][bit/8] ^= 1 << uint(bit%8)
			c.Inc("corrupt_hash_bits")
			try("hash-bit", true, m, fmt.Sprintf("bit %d of hash %d flipped", bit, hi))
		}
	}
	if fullSweep {
		c.Inc("corrupt_hash_full_sweeps")
	}
	// flags: every bit of every byte (incl. padding bits)
	for fi := range w.Flags {
		for bit := 0; bit < 8; bit++ {
			m := c08Clone(w)
			m.Flags[fi] ^= 1 << uint(bit)
			c.Inc("corrupt_flag_bits")
			try("flag-bit", false, m, fmt.Sprintf("bit %d of flag byte %d flipped", bit, fi))
		}
	}
	// flag bytes dropped / appended
	{
		m := c08Clone(w)
		m.Flags = m.Flags[:len(m.Flags)-1]
		c.Inc("corrupt_truncated")
		try("flags-truncated", false, m, "last flag byte dropped")
		m = c08Clone(w)
		m.Flags = append(m.Flags, byte(r.Intn(256)))
		c.Inc("corrupt_extended")
		try("flags-extended", false, m, "a flag byte appended")
	}
	// hash list truncated
	for _, which := range []int{0, len(w.Hashes) - 1, r.Intn(len(w.Hashes))} {
		m := c08Clone(w)
		m.Hashes = append(m.Hashes[:which:which], m.Hashes[which+1:]...)
		c.Inc("corrupt_truncated")
		try("hashes-truncated", true, m, fmt.Sprintf("hash %d of %d removed", which, len(w.Hashes)))
	}
	// hash list extended
	{
		m := c08Clone(w)
		var x common.Uint256
		r.Read(x[:])
		m.Hashes = append(m.Hashes, &x)
		c.Inc("corrupt_extended")
		try("hashes-extended", false, m, "a random hash appended")
		m = c08Clone(w)
		d := *m.Hashes[len(m.Hashes)-1]
		m.Hashes = append(m.Hashes, &d)
		c.Inc("corrupt_extended")
		try("hashes-extended", false, m, "the last hash appended again")
		m = c08Clone(w)
		at := r.Intn(len(m.Hashes))
		var y common.Uint256
		r.Read(y[:])
		m.Hashes = append(m.Hashes[:at:at], append([]*common.Uint256{&y}, m.Hashes[at:]...)...)
		c.Inc("corrupt_extended")
		try("hash-inserted", true, m, fmt.Sprintf("a random hash inserted at %d", at))
	}
	// tx count
	for _, tc := range []uint32{uint32(n) + 1, uint32(n) - 1, uint32(n) * 2, uint32(n) / 2, uint32(n) + 2, 0, 1 << 20} {
		if tc == uint32(n) {
			continue
		}
		m := c08Clone(w)
		m.Transactions = tc
		c.Inc("corrupt_txcount")
		try("tx-count", false, m, fmt.Sprintf("tx count %d instead of %d", tc, n))
	}
	// root: the same proof must not verify against any other root
	for k := 0; k < 3; k++ {
		m := c08Clone(w)
		h := m.Header.(*common2.Header)
		bit := r.Intn(256)
		h.MerkleRoot[bit/8] ^= 1 << uint(bit%8)
		c.Inc("corrupt_root")
		try("root", true, m, fmt.Sprintf("header merkle root bit %d flipped", bit))
	}
	return idxBloom, true
}

func equalU32(a, b []uint32) bool {
	if len(a) != len(b) {
		return false
	}
	for i := range a {
		if a[i] != b[i] {
			return false
		}
	}
	return true
}

func firstLines(s string, n int) string {
	out := 0
	for i := 0; i < len(s); i++ {
		if s[i] == '\n' {
			out++
			if out == n {
				return s[:i]
			}
		}
	}
	return s
}

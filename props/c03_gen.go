package props

import (
	"bytes"
	"encoding/binary"
	"math"
	"math/rand"
	"reflect"
	"strings"

	"github.com/elastos/Elastos.ELA/auxpow"
	"github.com/elastos/Elastos.ELA/common"
	"github.com/elastos/Elastos.ELA/core"
	"github.com/elastos/Elastos.ELA/core/contract"
	pg "github.com/elastos/Elastos.ELA/core/contract/program"
	common2 "github.com/elastos/Elastos.ELA/core/types/common"
	"github.com/elastos/Elastos.ELA/core/types/functions"
	"github.com/elastos/Elastos.ELA/core/types/interfaces"
	"github.com/elastos/Elastos.ELA/core/types/outputpayload"
	"github.com/elastos/Elastos.ELA/crypto"

	"verif/kit"
	"verif/kit/node"
)

// ---------------------------------------------------------------------------
// C03 generators: program codes / parameters, aux-pow structures, reflect
// filler for payloads, transaction builder. Everything draws from one
// *rand.Rand handed in by the caller (c.Rand).
// ---------------------------------------------------------------------------

// classifier boundary bytes (core/contract/common.go, vm/opcode.go, crypto/common.go)
var c03Boundary = []byte{0x00, 0x01, 0x02, 0x03, 0x20, 0x21, 0x22, 0x23, 0x40, 0x41, 0x4b, 0x4c, 0x4d, 0x4e,
	0x50, 0x51, 0x52, 0x53, 0x5f, 0x60, 0x61, 0x7f, 0x80, 0xab, 0xac, 0xad, 0xae, 0xaf, 0xb0, 0xd0, 0xfe, 0xff}

type c03Gen struct {
	r    *rand.Rand
	pubs [][]byte // 33-byte compressed public keys of the harness accounts
}

func newC03Gen(r *rand.Rand) *c03Gen {
	g := &c03Gen{r: r}
	for i := 0; i < 12; i++ {
		pk, _ := node.Key(i).PublicKey.EncodePoint(true)
		g.pubs = append(g.pubs, pk)
	}
	return g
}

func (g *c03Gen) bnd() byte { return c03Boundary[g.r.Intn(len(c03Boundary))] }

func (g *c03Gen) rbytes(n int) []byte {
	b := make([]byte, n)
	g.r.Read(b)
	return b
}

// key returns a 33-byte key: a real curve point (harness key) or junk with a
// plausible / implausible prefix byte.
func (g *c03Gen) key() []byte {
	switch g.r.Intn(7) {
	case 6: // non-canonical x >= P / off-curve x (see c03_keys.go)
		return g.hostileKey()
	case 0:
		b := g.rbytes(33)
		b[0] = 2 + byte(g.r.Intn(2))
		return b
	case 1:
		return g.rbytes(33)
	case 2:
		return make([]byte, 33)
	default:
		return append([]byte{}, g.pubs[g.r.Intn(len(g.pubs))]...)
	}
}

// count encodes a multisig m / n in one of the three forms IsMultiSig knows:
// PUSH1..PUSH16 opcode, 0x01 <byte>, 0x02 <int16 BE>; plus broken forms.
func (g *c03Gen) count(v int) []byte {
	switch g.r.Intn(8) {
	case 0:
		return []byte{1, byte(v)}
	case 1:
		return []byte{2, byte(v >> 8), byte(v)}
	case 2:
		return []byte{1} // truncated 1-byte form
	case 3:
		return []byte{2, byte(v)} // truncated 2-byte form
	case 4:
		return []byte{2}
	case 5:
		return []byte{g.bnd()}
	default:
		return []byte{byte(0x50 + v)}
	}
}

// code generates program code: lengths 0..80 of junk with boundary bytes at
// the positions the classifiers look at, and structured standard / schnorr /
// multisig / cross-chain scripts including truncated and extended variants.
func (g *c03Gen) code() []byte {
	r := g.r
	var c []byte
	switch r.Intn(12) {
	case 0: // junk, every length 0..80
		c = g.rbytes(r.Intn(81))
	case 1: // junk with boundary bytes at first / second / last / second-last
		c = g.rbytes(r.Intn(81))
		for _, p := range []int{0, 1, len(c) - 1, len(c) - 2} {
			if p >= 0 && p < len(c) && r.Intn(3) > 0 {
				c[p] = g.bnd()
			}
		}
	case 2: // standard
		c = append([]byte{33}, g.key()...)
		c = append(c, 0xac)
	case 3: // schnorr: PUSH1, 0x21, key
		c = append([]byte{0x51, 33}, g.key()...)
	case 4, 5, 6, 7: // multisig / cross chain with n keys
		n := r.Intn(4)
		if r.Intn(4) == 0 {
			n = 1 + r.Intn(2)
		}
		m := 1
		if n > 0 {
			m = 1 + r.Intn(n)
		}
		if r.Intn(5) == 0 {
			m = r.Intn(20)
		}
		c = append(c, g.count(m)...)
		for i := 0; i < n; i++ {
			c = append(c, 33)
			c = append(c, g.key()...)
		}
		nn := n
		if r.Intn(5) == 0 {
			nn = r.Intn(20)
		}
		c = append(c, g.count(nn)...)
		switch r.Intn(6) {
		case 0:
			c = append(c, 0xaf)
		case 1: // no terminator
		case 2:
			c = append(c, g.bnd())
		default:
			c = append(c, 0xae)
		}
		if r.Intn(4) == 0 {
			c[len(c)-1] = []byte{0xae, 0xaf}[r.Intn(2)]
		}
	case 8: // 35..40 byte forms around the IsMultiSig minimum (37) with boundary bytes everywhere interesting
		c = g.rbytes(35 + r.Intn(6))
		c[0] = []byte{1, 2, 0x51, 0x52, 0x60, 33}[r.Intn(6)]
		for _, p := range []int{1, 2, 3} {
			if r.Intn(2) == 0 {
				c[p] = []byte{1, 2, 33, 0x51, 0}[r.Intn(5)]
			}
		}
		for k := 1; k <= 4 && k <= len(c); k++ {
			if r.Intn(2) == 0 {
				c[len(c)-k] = []byte{1, 2, 33, 0x51, 0x52, 0xae, 0xaf, 0xac}[r.Intn(8)]
			}
		}
	case 9: // very short
		c = g.rbytes(r.Intn(4))
		for i := range c {
			c[i] = g.bnd()
		}
	case 10: // >= MinMultiSignCodeLength junk ending in a terminator
		c = g.rbytes(69 + r.Intn(12))
		c[len(c)-1] = []byte{0xae, 0xaf, 0xac}[r.Intn(3)]
		c[0] = g.bnd()
		c[len(c)-2] = g.bnd()
	default: // structured then truncated / extended
		base := g.code()
		if len(base) > 0 && r.Intn(2) == 0 {
			c = base[:r.Intn(len(base)+1)]
		} else {
			c = append(base, g.rbytes(1+r.Intn(3))...)
		}
	}
	if c == nil {
		c = []byte{}
	}
	return c
}

// param generates program parameters: 0..80 junk, k*65 signature scripts,
// exactly 64, and the Schnorr boundary (63/64/65).
func (g *c03Gen) param() []byte {
	r := g.r
	switch r.Intn(8) {
	case 0:
		return g.rbytes(r.Intn(81))
	case 1:
		return []byte{}
	case 2:
		return g.rbytes(63 + r.Intn(3))
	case 3, 4:
		k := 1 + r.Intn(3)
		var p []byte
		for i := 0; i < k; i++ {
			p = append(p, 0x40)
			p = append(p, g.rbytes(64)...)
		}
		return p
	case 5:
		return g.rbytes(r.Intn(64))
	case 6:
		p := g.rbytes(65 * (1 + r.Intn(3)))
		return p[:len(p)-r.Intn(3)]
	default:
		return g.rbytes(1 + r.Intn(200))
	}
}

var c03Prefixes = []byte{byte(contract.PrefixStandard), byte(contract.PrefixMultiSig), byte(contract.PrefixCrossChain),
	byte(contract.PrefixDeposit), byte(contract.PrefixDPoSV2), byte(contract.PrefixCRDID), 0x00}

func c03ProgramHash(prefix byte, code []byte) common.Uint168 {
	return common.Uint168FromCodeHash(prefix, *common.ToCodeHash(code))
}

// ------------------------- aux pow -----------------------------------------

var c03MMHeader = []byte{0xfa, 0xbe, 'm', 'm'}

// auxPow builds a (possibly hostile) merged-mining proof for blockHash.
// consistent=true makes every cheap check in AuxPow.Check pass up to the
// point the generator chooses to break, so the deep parts are reached.
func (g *c03Gen) auxPow(blockHash common.Uint256) (*auxpow.AuxPow, map[string]interface{}) {
	r := g.r
	info := map[string]interface{}{}
	ap := &auxpow.AuxPow{}
	// aux merkle branch length: 0..40, biased to the 30..34 boundary
	h := r.Intn(41)
	if r.Intn(3) == 0 {
		h = 29 + r.Intn(7)
	}
	if r.Intn(4) == 0 {
		h = r.Intn(3)
	}
	ap.AuxMerkleBranch = make([]common.Uint256, h)
	for i := range ap.AuxMerkleBranch {
		r.Read(ap.AuxMerkleBranch[i][:])
	}
	switch r.Intn(4) {
	case 0:
		ap.AuxMerkleIndex = 0
	case 1:
		ap.AuxMerkleIndex = int(r.Uint32())
	case 2:
		ap.AuxMerkleIndex = int(uint32(math.MaxUint32)) // decodes from ff ff ff ff
	default:
		ap.AuxMerkleIndex = r.Intn(1 << 8)
	}
	info["aux_branch_len"] = h
	info["aux_index"] = ap.AuxMerkleIndex

	rev := common.BytesReverse(blockHash.Bytes())
	revHash, _ := common.Uint256FromBytes(rev)
	root := auxpow.GetMerkleRoot(*revHash, ap.AuxMerkleBranch, ap.AuxMerkleIndex)
	rootRev := common.BytesReverse(root.Bytes())

	// coinbase script
	var script []byte
	scriptKind := r.Intn(10)
	info["script_kind"] = scriptKind
	size := uint32(0)
	if h < 32 {
		size = uint32(1) << uint(h)
	}
	nonce := r.Uint32()
	mk := func(sz, nc uint32, tail int) []byte {
		var s []byte
		s = append(s, g.rbytes(r.Intn(6))...)
		s = append(s, c03MMHeader...)
		s = append(s, rootRev...)
		var b [8]byte
		binary.LittleEndian.PutUint32(b[:4], sz)
		binary.LittleEndian.PutUint32(b[4:], nc)
		s = append(s, b[:tail]...)
		return s
	}
	switch scriptKind {
	case 0:
		script = []byte{}
	case 1:
		script = g.rbytes(r.Intn(60))
	case 2: // header only
		script = append(g.rbytes(r.Intn(4)), c03MMHeader...)
	case 3: // truncated after the root: 0..7 bytes of size/nonce
		script = mk(size, nonce, r.Intn(8))
	case 4: // wrong size
		script = mk(r.Uint32(), nonce, 8)
	case 5: // two headers
		script = append(mk(size, nonce, 8), c03MMHeader...)
	default: // fully consistent (size as the node computes it, incl. the wrapped value for h>=32)
		script = mk(size, nonce, 8)
		script = append(script, g.rbytes(r.Intn(5))...)
	}
	// parent coinbase: 0..2 inputs
	nin := 1
	switch r.Intn(6) {
	case 0:
		nin = 0
	case 1:
		nin = 2
	}
	info["par_coinbase_txin"] = nin
	ap.ParCoinbaseTx.Version = 1
	ap.ParCoinbaseTx.TxIn = make([]*auxpow.BtcTxIn, 0)
	for i := 0; i < nin; i++ {
		in := &auxpow.BtcTxIn{SignatureScript: g.rbytes(r.Intn(10)), Sequence: r.Uint32()}
		in.PreviousOutPoint.Index = math.MaxUint32
		if i == 0 {
			in.SignatureScript = script
		}
		ap.ParCoinbaseTx.TxIn = append(ap.ParCoinbaseTx.TxIn, in)
	}
	ap.ParCoinbaseTx.TxOut = make([]*auxpow.BtcTxOut, 0)
	for i := r.Intn(3); i > 0; i-- {
		ap.ParCoinbaseTx.TxOut = append(ap.ParCoinbaseTx.TxOut, &auxpow.BtcTxOut{Value: r.Int63(), PkScript: g.rbytes(r.Intn(30))})
	}
	// parent coinbase merkle branch 0..3 (+ occasionally long)
	np := r.Intn(4)
	if r.Intn(10) == 0 {
		np = 30 + r.Intn(10)
	}
	ap.ParCoinBaseMerkle = make([]common.Uint256, np)
	for i := range ap.ParCoinBaseMerkle {
		r.Read(ap.ParCoinBaseMerkle[i][:])
	}
	switch r.Intn(3) {
	case 0:
		ap.ParMerkleIndex = 0
	case 1:
		ap.ParMerkleIndex = int(uint32(math.MaxUint32))
	default:
		ap.ParMerkleIndex = int(r.Uint32())
	}
	ap.ParBlockHeader.Version = 0x7fffffff
	ap.ParBlockHeader.Timestamp = 1600000000 + uint32(r.Intn(1000))
	ap.ParBlockHeader.Nonce = r.Uint32()
	if r.Intn(8) == 0 {
		r.Read(ap.ParBlockHeader.MerkleRoot[:]) // inconsistent parent root: rejected at the first check
		info["parent_root_consistent"] = false
	} else {
		ap.ParBlockHeader.MerkleRoot = auxpow.GetMerkleRoot(ap.ParCoinbaseTx.Hash(), ap.ParCoinBaseMerkle, ap.ParMerkleIndex)
		info["parent_root_consistent"] = true
	}
	return ap, info
}

// auxPowRoundTrip re-decodes an aux-pow from its wire bytes ("decodable").
func auxPowRoundTrip(ap *auxpow.AuxPow) (*auxpow.AuxPow, []byte, bool) {
	buf := new(bytes.Buffer)
	if err := ap.Serialize(buf); err != nil {
		return nil, nil, false
	}
	raw := append([]byte{}, buf.Bytes()...)
	out := &auxpow.AuxPow{}
	if err := out.Deserialize(bytes.NewReader(raw)); err != nil {
		return nil, raw, false
	}
	return out, raw, true
}

// ------------------------- reflect filler ----------------------------------

var c03ProposalTypes = []uint16{0x0000, 0x0100, 0x0101, 0x0102, 0x0200, 0x0201, 0x0202, 0x0400, 0x0401, 0x0402, 0x0410, 0x0500, 0x0501, 0x0502, 0x02ff, 0x0300, 0xffff}

type c03Filler struct {
	g      *c03Gen
	hashes []common.Uint256 // meaningful hashes (existing tx ids ...)
	phs    []common.Uint168 // meaningful program hashes
}

func (f *c03Filler) bytesFor(name string) []byte {
	g, r := f.g, f.g.r
	ln := strings.ToLower(name)
	if r.Intn(10) < 6 {
		switch {
		case strings.Contains(ln, "code"):
			return g.code()
		case strings.Contains(ln, "sign"):
			if r.Intn(3) == 0 {
				return g.param()
			}
			return g.rbytes(64)
		case strings.Contains(ln, "key") || strings.Contains(ln, "owner") || strings.Contains(ln, "node") ||
			strings.Contains(ln, "sponsor") || strings.Contains(ln, "arbit") || strings.Contains(ln, "signer") ||
			strings.Contains(ln, "candidate") || strings.Contains(ln, "did") || strings.Contains(ln, "recipient"):
			switch r.Intn(6) {
			case 0:
				ph := f.programHash()
				return ph[:]
			case 1:
				h := f.hash()
				return h[:]
			default:
				return g.key()
			}
		}
	}
	switch r.Intn(6) {
	case 0:
		return []byte{}
	case 1:
		return g.rbytes([]int{1, 20, 21, 32, 33, 34, 35, 64, 65, 66}[r.Intn(10)])
	case 2:
		return g.key()
	default:
		return g.rbytes(r.Intn(81))
	}
}

const c03B58 = "123456789ABCDEFGHJKLMNPQRSTUVWXYZabcdefghijkmnopqrstuvwxyz"

// addressLike produces strings for address fields: valid addresses, 34-char
// base58 strings (random / many leading '1' / all '1' / all 'z'), non-base58
// 34-char strings, and wrong lengths.
func (f *c03Filler) addressLike() string {
	r := f.g.r
	rnd := func(n int, alphabet string) string {
		b := make([]byte, n)
		for i := range b {
			b[i] = alphabet[r.Intn(len(alphabet))]
		}
		return string(b)
	}
	switch r.Intn(9) {
	case 0:
		return node.Key(r.Intn(8)).Address
	case 1:
		ph := f.programHash()
		a, _ := ph.ToAddress()
		return a
	case 2:
		return rnd(34, c03B58)
	case 3:
		k := 1 + r.Intn(33)
		return strings.Repeat("1", k) + rnd(34-k, c03B58)
	case 4:
		return strings.Repeat("1", 34)
	case 5:
		return strings.Repeat("z", 34)
	case 6:
		return rnd(34, "0OIl+/ abc")
	case 7:
		return rnd(r.Intn(40), c03B58)
	default:
		a := []byte(node.Key(r.Intn(8)).Address)
		a[r.Intn(len(a))] = c03B58[r.Intn(len(c03B58))]
		return string(a)
	}
}

func (f *c03Filler) hash() common.Uint256 {
	var h common.Uint256
	if len(f.hashes) > 0 && f.g.r.Intn(3) == 0 {
		return f.hashes[f.g.r.Intn(len(f.hashes))]
	}
	if f.g.r.Intn(8) == 0 {
		return h
	}
	f.g.r.Read(h[:])
	return h
}

func (f *c03Filler) programHash() common.Uint168 {
	var h common.Uint168
	r := f.g.r
	if len(f.phs) > 0 && r.Intn(3) == 0 {
		return f.phs[r.Intn(len(f.phs))]
	}
	if r.Intn(10) == 0 {
		return h
	}
	r.Read(h[:])
	if r.Intn(4) > 0 {
		h[0] = c03Prefixes[r.Intn(len(c03Prefixes)-1)]
	}
	return h
}

func (f *c03Filler) uintFor(name string, bits int) uint64 {
	r := f.g.r
	ln := strings.ToLower(name)
	if strings.Contains(ln, "proposaltype") {
		return uint64(c03ProposalTypes[r.Intn(len(c03ProposalTypes))])
	}
	max := uint64(1)<<uint(bits) - 1
	if bits == 64 {
		max = math.MaxUint64
	}
	switch r.Intn(8) {
	case 0:
		return 0
	case 1:
		return 1
	case 2:
		return max
	case 3:
		return max - uint64(r.Intn(3))
	case 4, 5:
		return uint64(r.Intn(8))
	case 6:
		return uint64(r.Intn(300)) & max
	default:
		return r.Uint64() & max
	}
}

var (
	c03TypU256 = reflect.TypeOf(common.Uint256{})
	c03TypU168 = reflect.TypeOf(common.Uint168{})
)

func (f *c03Filler) fill(v reflect.Value, name string, depth int) {
	r := f.g.r
	if !v.CanSet() {
		return
	}
	switch v.Type() {
	case c03TypU256:
		v.Set(reflect.ValueOf(f.hash()))
		return
	case c03TypU168:
		v.Set(reflect.ValueOf(f.programHash()))
		return
	}
	switch v.Kind() {
	case reflect.Ptr:
		if depth > 6 {
			return
		}
		nv := reflect.New(v.Type().Elem())
		f.fill(nv.Elem(), name, depth+1)
		v.Set(nv)
	case reflect.Struct:
		for i := 0; i < v.NumField(); i++ {
			f.fill(v.Field(i), v.Type().Field(i).Name, depth+1)
		}
	case reflect.Slice:
		if v.Type().Elem().Kind() == reflect.Uint8 {
			b := f.bytesFor(name)
			nv := reflect.MakeSlice(v.Type(), len(b), len(b))
			reflect.Copy(nv, reflect.ValueOf(b))
			v.Set(nv)
			return
		}
		n := r.Intn(4)
		switch r.Intn(12) {
		case 0:
			n = 0
		case 1:
			n = 8 + r.Intn(30)
		}
		if depth > 5 {
			n = r.Intn(2)
		}
		nv := reflect.MakeSlice(v.Type(), n, n)
		for i := 0; i < n; i++ {
			f.fill(nv.Index(i), name, depth+1)
		}
		v.Set(nv)
	case reflect.Array:
		for i := 0; i < v.Len(); i++ {
			f.fill(v.Index(i), name, depth+1)
		}
	case reflect.String:
		if strings.Contains(strings.ToLower(name), "address") || r.Intn(5) == 0 {
			v.SetString(f.addressLike())
			return
		}
		n := r.Intn(20)
		if r.Intn(10) == 0 {
			n = 100 + r.Intn(200)
		}
		if r.Intn(8) == 0 {
			n = 0
		}
		b := make([]byte, n)
		for i := range b {
			b[i] = byte('a' + r.Intn(26))
		}
		v.SetString(string(b))
	case reflect.Bool:
		v.SetBool(r.Intn(2) == 0)
	case reflect.Uint8, reflect.Uint16, reflect.Uint32, reflect.Uint64, reflect.Uint:
		v.SetUint(f.uintFor(name, v.Type().Bits()))
	case reflect.Int8, reflect.Int16, reflect.Int32, reflect.Int64, reflect.Int:
		u := f.uintFor(name, v.Type().Bits())
		if strings.Contains(strings.ToLower(v.Type().Name()), "fixed64") {
			switch r.Intn(6) {
			case 0:
				u = 0
			case 1:
				u = uint64(r.Int63n(1e10))
			case 2:
				u = uint64(math.MaxInt64)
			case 3:
				u = uint64(1) << 63 // negative
			}
		}
		switch v.Type().Bits() {
		case 8:
			v.SetInt(int64(int8(u)))
		case 16:
			v.SetInt(int64(int16(u)))
		case 32:
			v.SetInt(int64(int32(u)))
		default:
			v.SetInt(int64(u))
		}
	case reflect.Float32, reflect.Float64:
		v.SetFloat(r.Float64())
	}
}

// ------------------------- transactions ------------------------------------

var c03OutputTypes = []common2.OutputType{common2.OTNone, common2.OTVote, common2.OTMapping, common2.OTCrossChain,
	common2.OTWithdrawFromSideChain, common2.OTReturnSideChainDepositCoin, common2.OTDposV2Vote, common2.OTStake}

func c03NewOutputPayload(t common2.OutputType) common2.OutputPayload {
	switch t {
	case common2.OTNone:
		return new(outputpayload.DefaultOutput)
	case common2.OTVote, common2.OTDposV2Vote:
		return new(outputpayload.VoteOutput)
	case common2.OTMapping:
		return new(outputpayload.Mapping)
	case common2.OTCrossChain:
		return new(outputpayload.CrossChainOutput)
	case common2.OTWithdrawFromSideChain:
		return new(outputpayload.Withdraw)
	case common2.OTReturnSideChainDepositCoin:
		return new(outputpayload.ReturnSideChainDeposit)
	case common2.OTStake:
		return new(outputpayload.ExchangeVotesOutput)
	}
	return new(outputpayload.DefaultOutput)
}

// output builds one output; plain=true gives an output that passes the
// generic output sanity (ELA asset, non-negative, valid prefix, OTNone).
func (f *c03Filler) output(plain bool, value common.Fixed64) *common2.Output {
	r := f.g.r
	o := &common2.Output{AssetID: core.ELAAssetID, Value: value, ProgramHash: f.programHash(), Type: common2.OTNone, Payload: new(outputpayload.DefaultOutput)}
	if plain {
		if len(f.phs) > 0 {
			o.ProgramHash = f.phs[r.Intn(len(f.phs))]
		}
		return o
	}
	switch r.Intn(8) {
	case 0:
		r.Read(o.AssetID[:])
	case 1:
		o.Value = common.Fixed64(f.uintFor("value", 64))
	case 2:
		o.OutputLock = uint32(f.uintFor("lock", 32))
	}
	if r.Intn(2) == 0 {
		o.Type = c03OutputTypes[r.Intn(len(c03OutputTypes))]
		o.Payload = c03NewOutputPayload(o.Type)
		f.fill(reflect.ValueOf(o.Payload).Elem(), "output", 0)
	}
	return o
}

// txSpec is what the caller fixes; everything else is generated.
type c03TxSpec struct {
	Type     common2.TxType
	PVer     byte
	Version  common2.TransactionVersion
	Inputs   []*common2.Input
	Outputs  []*common2.Output
	Attrs    []*common2.Attribute
	Programs []*pg.Program
	LockTime uint32
}

// buildTx fills the payload, serialises, and decodes the bytes again. Only a
// transaction that decoded is returned (ok); the returned object IS the
// decoded one, so every field has exactly the shape the wire decoder produces.
func (f *c03Filler) buildTx(s c03TxSpec) (tx interfaces.Transaction, raw []byte, ok bool, why string) {
	pl, err := interfaces.GetPayload(s.Type, s.PVer)
	if err != nil {
		return nil, nil, false, "no-payload"
	}
	f.fill(reflect.ValueOf(pl).Elem(), "", 0)
	t := functions.CreateTransaction(s.Version, s.Type, s.PVer, pl, s.Attrs, s.Inputs, s.Outputs, s.LockTime, s.Programs)
	buf := new(bytes.Buffer)
	var serr error
	if p, _, _ := kit.Guard(func() { serr = t.Serialize(buf) }); p {
		return nil, nil, false, "serialize-panic(generator artefact)"
	}
	if serr != nil {
		return nil, nil, false, "serialize-error"
	}
	raw = append([]byte{}, buf.Bytes()...)
	tx, ok = c03DecodeTx(raw)
	if !ok {
		return nil, raw, false, "not-decodable"
	}
	return tx, raw, true, ""
}

func c03DecodeTx(raw []byte) (interfaces.Transaction, bool) {
	rd := bytes.NewReader(raw)
	tx, err := functions.GetTransactionByBytes(rd)
	if err != nil {
		return nil, false
	}
	var derr error
	if p, _, _ := kit.Guard(func() { derr = tx.Deserialize(rd) }); p {
		return nil, false // decoder panics are C02's business, not "decoded successfully"
	}
	if derr != nil {
		return nil, false
	}
	return tx, true
}

func (f *c03Filler) attrs() []*common2.Attribute {
	r := f.g.r
	var as []*common2.Attribute
	usages := []common2.AttributeUsage{common2.Nonce, common2.Script, common2.Memo, common2.Description, common2.DescriptionUrl, common2.Confirmations}
	for n := r.Intn(3); n > 0; n-- {
		u := usages[r.Intn(len(usages))]
		var d []byte
		switch r.Intn(4) {
		case 0:
			d = []byte{}
		case 1:
			ph := f.programHash()
			d = ph[:]
		default:
			d = f.g.rbytes(r.Intn(40))
		}
		as = append(as, &common2.Attribute{Usage: u, Data: d})
	}
	if r.Intn(2) == 0 {
		var nb [8]byte
		r.Read(nb[:])
		as = append(as, &common2.Attribute{Usage: common2.Nonce, Data: nb[:]})
	}
	return as
}

// signStd produces a correct standard program for tx by account a.
func c03SignStd(tx interfaces.Transaction, accts ...int) []*pg.Program {
	buf := new(bytes.Buffer)
	tx.SerializeUnsigned(buf)
	var ps []*pg.Program
	for _, i := range accts {
		a := node.Key(i)
		sig, err := crypto.Sign(a.PrivKey(), buf.Bytes())
		if err != nil {
			continue
		}
		ps = append(ps, &pg.Program{Code: a.RedeemScript, Parameter: append([]byte{byte(len(sig))}, sig...)})
	}
	return ps
}

package props

import (
	"fmt"
	"math/big"

	"github.com/elastos/Elastos.ELA/common"
	"github.com/elastos/Elastos.ELA/common/config"
	"github.com/elastos/Elastos.ELA/core"
	"github.com/elastos/Elastos.ELA/core/types"
	common2 "github.com/elastos/Elastos.ELA/core/types/common"
	"github.com/elastos/Elastos.ELA/core/types/interfaces"
	"github.com/elastos/Elastos.ELA/core/types/outputpayload"

	"verif/kit"
	"verif/kit/node"
)

// C11, DPoS v2 era of part 2.
//
// A real node is bootstrapped (kit "dposv2-era": producers, CR committee, v2
// producers, stake, votes) until DPoS v2 is active and the DPoS v2 coinbase rule
// applies (height > DPoSV2ActiveHeight+1). Then, per height, with random fee
// totals (signed transfers; UpdateProducer transactions in POW consensus, where
// plain transfers are not allowed):
//   - every single mutation of the honest coinbase is submitted as a solved,
//     CONFIRMED block on the tip through the BlockPool (the path netsync and the
//     miner use) and must leave the tip where it is;
//   - then the honest block is submitted and must become the tip.
//
// First in DPOS consensus, then — after a real RevertToPOW block — in POW
// consensus (destroy-address rules).
//
// Oracle (model side, exact integers): an accepted coinbase has exactly three
// non-negative outputs whose exact sum is subsidy(h) + fees; output 0 and 2 are
// within 1 sela of ceil(30%) and ceil(35%) of that total computed in exact
// rationals; output 0 / 2 pay the CR assets address / the DPoS v2 reward
// accumulation address in DPOS consensus and the destroy address in POW
// consensus (output 1 is the miner's own address: free). Uniqueness: per height
// only the honest vector may be accepted; any accepted mutant that changes a
// value, the number of outputs or a fixed address is a violation
// "coinbase:variant-accepted:<class>" (or the total classes of c11Classify).
// The chain is replayed with the independent ledger (c11Replay).
func init() { c11RegisterEra(c11Era{Name: "dposv2", Run: c11DposV2}) }

// c11V2Model is the statement-side description of the DPoS v2 coinbase.
type c11V2Model struct {
	cr, dpos, destroy common.Uint168
}

func c11CeilShare(total int64, num, den int64) *big.Int {
	x := new(big.Int).Mul(big.NewInt(total), big.NewInt(num))
	x.Add(x, big.NewInt(den-1))
	return x.Div(x, big.NewInt(den))
}

// check returns "" when the vector satisfies the statement for subsidy+fees == total in the given consensus mode.
func (m c11V2Model) check(vals []int64, addrs []common.Uint168, total int64, pow bool) string {
	if len(vals) != 3 {
		return fmt.Sprintf("%d outputs instead of 3", len(vals))
	}
	if c11HasNeg(vals) {
		return "negative output"
	}
	if s := c11ExactSum(vals); s.Cmp(big.NewInt(total)) != 0 {
		return fmt.Sprintf("exact sum %s != subsidy+fees %d", s, total)
	}
	within1 := func(v int64, want *big.Int) bool {
		d := new(big.Int).Sub(big.NewInt(v), want)
		return d.CmpAbs(big.NewInt(1)) <= 0
	}
	if w := c11CeilShare(total, 3, 10); !within1(vals[0], w) {
		return fmt.Sprintf("CR share %d, 30%% of %d is %s", vals[0], total, w)
	}
	if w := c11CeilShare(total, 7, 20); !within1(vals[2], w) {
		return fmt.Sprintf("DPoS share %d, 35%% of %d is %s", vals[2], total, w)
	}
	a0, a2 := m.cr, m.dpos
	if pow {
		a0, a2 = m.destroy, m.destroy
	}
	if addrs[0] != a0 {
		return "CR share paid to a wrong address"
	}
	if addrs[2] != a2 {
		return "DPoS share paid to a wrong address"
	}
	return ""
}

func c11V2Block(nd *node.Node, parent *types.Block, txs []interfaces.Transaction, k c11Cand, nonce uint64) (*types.Block, error) {
	h := parent.Height + 1
	cb := nd.CoinbaseTx(nd.Miner.Address, h, nonce)
	var outs []*common2.Output
	for i, v := range k.vals {
		outs = append(outs, &common2.Output{AssetID: core.ELAAssetID, Value: common.Fixed64(v), ProgramHash: k.addrs[i], Type: common2.OTNone, Payload: &outputpayload.DefaultOutput{}})
	}
	cb.SetOutputs(outs) // before the first Hash(): the hash is cached
	blk := &types.Block{
		Header:       common2.Header{Version: 0, Previous: parent.Hash(), Timestamp: parent.Timestamp + 1, Bits: nd.Cfg.PowConfiguration.PowLimitBits, Height: h},
		Transactions: append([]interfaces.Transaction{cb}, txs...),
	}
	return blk, node.SealDet(blk)
}

// c11V2System: node generated txs the next block must carry (none are expected
// in this workload except NextTurnDPOSInfo), with their fees.
func c11V2System(c *kit.Ctx, nd *node.Node) (txs []interfaces.Transaction, fees int64) {
	for _, tx := range nd.SystemTxs() {
		switch tx.TxType() {
		case common2.IllegalBlockEvidence, common2.IllegalProposalEvidence, common2.IllegalVoteEvidence, common2.IllegalSidechainEvidence, common2.InactiveArbitrators:
			c.Inc("p2_v2_evidence_txs_skipped")
			continue
		case common2.NextTurnDPOSInfo:
			if !nd.Arbiters.IsNeedNextTurnDPOSInfo() {
				continue
			}
		}
		if len(tx.Inputs()) > 0 {
			refs, err := nd.Chain.UTXOCache.GetTxReference(tx)
			if err != nil {
				continue
			}
			for _, o := range refs {
				fees += int64(o.Value)
			}
		}
		for _, o := range tx.Outputs() {
			fees -= int64(o.Value)
		}
		c.Inc("p2_v2_system_txs:" + tx.TxType().Name())
		txs = append(txs, tx)
	}
	return
}

func c11DposV2(c *kit.Ctx) {
	const eraName = "dposv2-era"
	nd, err := node.Start(node.Options{Dir: c.WorkDir, CoinbaseMaturity: 2, Tweak: func(cfg *config.Configuration) {
		node.EraTweak(eraName)(cfg)
		cfg.CRConfiguration.DutyPeriod = 100000 // the committee (and with it DPOS consensus) lasts for the whole run
	}})
	if err != nil {
		c.Inconclusive("node start (dposv2): %v", err)
		return
	}
	defer nd.Close()
	defer nd.UnhookEvents()
	boot, err := nd.Bootstrap(eraName, node.BootOpts{Until: "dposv2"})
	if err != nil {
		c.Inconclusive("bootstrap dposv2: %v", err)
		return
	}
	cfg := nd.Cfg
	act := nd.Arbiters.GetDPoSV2ActiveHeight()
	if act == ^uint32(0) || nd.Height() < act+1 || nd.InPOWMode() {
		c.Inconclusive("dposv2: not in the DPoS v2 coinbase era after bootstrap (height %d, active height %d, pow mode %v)", nd.Height(), act, nd.InPOWMode())
		return
	}
	c.Max("max:p2_v2_active_height", int64(act))
	r := c.Rand("c11-v2")
	sched := c11Sched{cfg.NewELAIssuanceHeight, cfg.HalvingRewardHeight, cfg.HalvingRewardInterval}
	model := c11V2Model{cr: *cfg.CRConfiguration.CRAssetsProgramHash, dpos: *cfg.DPoSConfiguration.DPoSV2RewardAccumulateProgramHash, destroy: *cfg.DestroyELAProgramHash}
	minFee := int64(cfg.MinTransactionFee)
	powHeight := ^uint32(0) // height of the RevertToPOW block (blocks above it follow the POW consensus rule)

	// coins for fee paying transactions
	var coins []*c11Coin
	w := boot.Wallet
	w.Sync()
	for _, a := range []int{node.KeyVoter, node.KeyVoter + 1, node.KeyVoter + 2, node.KeyVoter + 3, node.KeyCR, node.KeyCR + 1, node.KeyCR + 2, node.KeyProducerOwner, node.KeyProducerOwner + 1, node.KeyProducerOwner + 2} {
		for k := 0; k < 3; k++ {
			if ref, ok := w.Take(node.Key(a), node.ELA(50)); ok {
				coins = append(coins, &c11Coin{ref: ref})
			}
		}
	}
	if len(coins) < 6 {
		c.Inconclusive("dposv2: only %d spendable coins after bootstrap", len(coins))
		return
	}
	c.Max("max:p2_v2_coins", int64(len(coins)))

	addrPool := []struct {
		name string
		ph   common.Uint168
	}{{"cr-assets", model.cr}, {"miner", nd.Miner.ProgramHash}, {"dpos-accumulate", model.dpos}, {"destroy", model.destroy}, {"foundation", *cfg.FoundationProgramHash}, {"other", node.Key(node.KeyVoter + 5).ProgramHash}}
	slot := []string{"cr", "miner", "dpos"}

	witnessed := map[string]bool{}
	explained := map[uint32]string{}
	feesAt := map[uint32]int64{}
	rounds := c.N(24, 300)
	powFrom := rounds * 3 / 5 // first DPOS consensus, then POW consensus
	var nonce uint64 = uint64(c.Shard+1)<<32 | 1<<31
	pow := false
	updSeq := 0
	updOK := true
	sampled := 0
	for round := 0; round < rounds; round++ {
		if round == powFrom {
			// ---- real switch to POW consensus
			tipB := nd.TipBlock()
			rtx := node.RevertToPOWNoBlock(nd.Height() + 1)
			if err := nd.TxPool.AppendToTxPool(rtx); err != nil {
				c.Note("dposv2: mempool rejected RevertToPOW: %v", err)
			}
			if _, err := nd.MineTipAt(tipB.Timestamp+uint32(cfg.DPoSConfiguration.RevertToPOWNoBlockTime)+1, rtx); err != nil || !nd.InPOWMode() {
				c.Inconclusive("dposv2: switch to POW consensus failed at height %d: %v", nd.Height()+1, err)
				return
			}
			if err := nd.MineNDPoS(1); err != nil {
				c.Inconclusive("dposv2: mining in POW consensus: %v", err)
				return
			}
			pow = true
			powHeight = nd.Height() - 1
			c.Inc("p2_v2_switch_to_pow")
		}
		if nd.InPOWMode() != pow {
			c.Inconclusive("dposv2: consensus mode changed unexpectedly at height %d (pow %v)", nd.Height(), nd.InPOWMode())
			return
		}
		parent := nd.TipBlock()
		h := parent.Height + 1
		mode := "dpos"
		if pow {
			mode = "pow"
		}
		// --- transactions with random fees
		txs, sysFees := c11V2System(c, nd)
		fees := sysFees
		type upd struct {
			coin *c11Coin
			ref  node.UTXORef
		}
		var upds []upd
		nTx := r.Intn(4)
		if pow && nTx > 2 {
			nTx = 2
		}
		perm := r.Perm(len(coins))
		usedProd := map[int]bool{}
		for t := 0; t < nTx; t++ {
			coin := coins[perm[t]]
			v := int64(coin.ref.Value)
			if v < 4*minFee {
				continue
			}
			var fee int64
			switch r.Intn(4) {
			case 0:
				fee = minFee
			case 1:
				fee = minFee + r.Int63n(100000)
			case 2:
				fee = minFee + r.Int63n(10*1e8)
			default:
				fee = v / 2
			}
			if fee > v-1 {
				fee = v - 1
			}
			var tx interfaces.Transaction
			if !pow {
				tx = node.Transfer([]node.UTXORef{coin.ref}, []node.Out{{To: coin.ref.Owner.ProgramHash, Value: common.Fixed64(v - fee)}}, common2.TxVersion09)
			} else {
				// plain transfers are not allowed in POW consensus: a producer update carries the fee
				if !updOK || t >= len(boot.V2Owners) {
					continue
				}
				updSeq++
				i := (updSeq + t) % len(boot.V2Owners)
				p := nd.Chain.GetState().GetProducer(node.Pub(boot.V2Owners[i]))
				if p == nil {
					continue
				}
				info := p.Info()
				tmpl := node.UpdateProducer(coin.ref, boot.V2Owners[i], boot.V2Nodes[i], info.NickName, fmt.Sprintf("http://u%d", updSeq), info.StakeUntil)
				tx = node.BuildTx(node.TxSpec{Type: common2.UpdateProducer, PayloadVersion: tmpl.PayloadVersion(), Payload: tmpl.Payload(), Ins: []node.UTXORef{coin.ref}, Fee: common.Fixed64(fee)})
				if usedProd[i] {
					continue
				}
				usedProd[i] = true
				if err := nd.CheckTx(tx, parent.Timestamp+1); err != nil {
					c.Inc("p2_v2_update_producer_invalid")
					if updOK {
						c.Note("dposv2: UpdateProducer fee transaction not valid in POW consensus at height %d: %v (POW rounds continue without fees)", h, err)
					}
					updOK = false
					continue
				}
				if len(tx.Outputs()) != 1 {
					continue
				}
			}
			txs = append(txs, tx)
			fees += fee
			upds = append(upds, upd{coin, node.UTXORef{TxID: tx.Hash(), Index: 0, Value: common.Fixed64(v - fee), Owner: coin.ref.Owner}})
		}
		subsidy := sched.reward64(h)
		if got := int64(cfg.GetBlockReward(h)); got != subsidy {
			c.Violate("reward:off-schedule", fmt.Sprintf("node parameters: GetBlockReward(%d) = %d, schedule %d", h, got, subsidy), nil)
		}
		total := subsidy + fees
		hon, err := c11Honest(nd, parent, common.Fixed64(total))
		if err != nil {
			c.Inconclusive("AssignCoinbaseTxRewards: %v", err)
			return
		}
		if why := model.check(hon.vals, hon.addrs, total, pow); why != "" {
			c.Violate("coinbase:assign-off-schedule", fmt.Sprintf("dposv2/%s: AssignCoinbaseTxRewards(height %d, subsidy+fees %d) produced %v: %s", mode, h, total, hon.vals, why), nil)
			// keep going: the node may still refuse its own vector
		}
		bad, neutral := c11Mutants(c, r, round, hon, total, nd.Miner.ProgramHash)
		var cands []c11Cand
		for _, k := range bad {
			cands = append(cands, k)
		}
		for _, k := range neutral {
			if k.class != "address-replaced" { // replaced below, slot by slot
				cands = append(cands, k)
			}
		}
		// each address replaced by each other known address
		var minerVariants []c11Cand
		for i := 0; i < len(hon.addrs) && i < 3; i++ {
			for _, a := range addrPool {
				if a.ph == hon.addrs[i] {
					continue
				}
				k := hon.clone("address-replaced:" + slot[i] + "->" + a.name)
				k.addrs[i] = a.ph
				if i == 1 {
					minerVariants = append(minerVariants, k) // admissible: the miner names its own address
				} else {
					cands = append(cands, k)
				}
			}
		}
		if len(hon.addrs) == 3 {
			k := hon.clone("addresses-exchanged:cr<->dpos")
			k.addrs[0], k.addrs[2] = k.addrs[2], k.addrs[0]
			if k.addrs[0] != hon.addrs[0] {
				cands = append(cands, k)
			}
			// the other consensus mode's address rule, complete
			k = hon.clone("other-mode-addresses")
			if pow {
				k.addrs[0], k.addrs[2] = model.cr, model.dpos
			} else {
				k.addrs[0], k.addrs[2] = model.destroy, model.destroy
			}
			cands = append(cands, k)
		}
		r.Shuffle(len(cands), func(i, j int) { cands[i], cands[j] = cands[j], cands[i] })
		if round%4 == 3 && len(minerVariants) > 0 {
			// last but one: a vector that differs from the honest one only in the miner's own address (may be accepted)
			cands = append(cands, minerVariants[r.Intn(len(minerVariants))])
		}
		cands = append(cands, hon)

		c.Inc("p2_rounds")
		c.Inc("p2_v2_rounds:" + mode)
		if fees > 0 {
			c.Inc("p2_fee_blocks")
			c.Inc("p2_v2_fee_blocks:" + mode)
		}
		c.Max("max:p2_fee_total", fees)
		acceptedAny := false
		for _, k := range cands {
			if k.class != "honest" && witnessed[k.class] {
				continue
			}
			nonce++
			blk, err := c11V2Block(nd, parent, txs, k, nonce)
			if err != nil {
				c.Inconclusive("assemble: %v", err)
				return
			}
			c.Begin("C11 dposv2/%s height %d class %s vals %v", mode, h, k.class, k.vals)
			c.Case(fmt.Sprintf("p2:dposv2:%s:%d:%s:%v", mode, h, k.class, k.vals), true)
			tip0 := nd.Tip()
			var perr error
			pan, pval, pstack := kit.Guard(func() { perr = nd.ProcessConfirmed(blk) })
			if pan {
				// not a C11 matter (C03): recorded, the run cannot continue on a half processed block
				c.Inc("p2_v2_panics")
				c.Inconclusive("dposv2/%s: block %d with coinbase class %s (%d outputs) panicked inside the node: %v\n%s", mode, h, k.class, len(k.vals), pval, pstack)
				return
			}
			accepted := nd.Tip() == blk.Hash()
			if !accepted && nd.Tip() != tip0 {
				c.Violate("coinbase:tip-moved-elsewhere", fmt.Sprintf("dposv2 height %d class %s: tip changed to a third block", h, k.class), nil)
			}
			if k.class != "honest" {
				c.Inc("p2_mutants_submitted")
				c.Inc("p2_v2_mutants_submitted:" + mode)
				c.Inc("p2_class:" + k.class)
				if len(k.vals) < 3 {
					c.Inc("p2_v2_short_coinbases_submitted")
				}
			}
			if sampled < 3 && (k.class == "honest" || round == powFrom) {
				sampled++
				c.Sample(map[string]interface{}{"part": 2, "era": "dposv2", "consensus": mode, "height": h, "fees": fees, "subsidy": subsidy, "class": k.class, "coinbase_values": fmt.Sprint(k.vals),
					"exact_sum": c11ExactSum(k.vals).String(), "accepted": accepted, "error": fmt.Sprint(perr)})
			}
			if !accepted {
				if k.class == "honest" {
					c.Violate("coinbase:honest-rejected", fmt.Sprintf("dposv2/%s height %d fees %d: honest coinbase %v rejected: %v", mode, h, fees, k.vals, perr), nil)
				} else {
					c.Inc("p2_mutants_rejected")
				}
				continue
			}
			// accepted: the block is on the chain now
			acceptedAny = true
			nd.PostBlock(blk)
			nd.Chain.UTXOCache.CleanTxCache()
			nd.BlockPool.CleanFinalConfirmedBlock(blk.Height)
			feesAt[h] = fees
			for _, u := range upds {
				u.coin.ref = u.ref
			}
			why := model.check(k.vals, k.addrs, total, pow)
			cls := c11Classify(k.vals, total)
			switch {
			case k.class == "honest" && why == "":
				c.Inc("p2_honest_accepted")
				c.Inc("p2_honest_accepted:dposv2")
				c.Inc("p2_v2_honest_accepted:" + mode)
			case k.class == "honest":
				explained[h] = "honest-off-model"
				c.Violate("coinbase:honest-off-model", fmt.Sprintf("dposv2/%s: accepted honest block %d pays %v: %s", mode, h, k.vals, why), nil)
			case cls != "":
				explained[h] = cls
				witnessed[k.class] = true
				c.Violate(cls, fmt.Sprintf("dposv2/%s: block %d accepted whose coinbase outputs %v (class %s) have exact sum %s; subsidy %d + fees %d = %d", mode, h, k.vals, k.class, c11ExactSum(k.vals), subsidy, fees, total),
					map[string]interface{}{"era": "dposv2", "consensus": mode, "height": h, "class": k.class, "values": fmt.Sprint(k.vals), "subsidy": subsidy, "fees": fees})
			case why == "" && len(k.vals) == 3 && k.vals[0] == hon.vals[0] && k.vals[1] == hon.vals[1] && k.vals[2] == hon.vals[2] && k.addrs[0] == hon.addrs[0] && k.addrs[2] == hon.addrs[2]:
				// only the miner's own address differs: the statement does not fix it
				c.Inc("p2_v2_miner_address_variant_accepted:" + mode)
			default:
				explained[h] = "variant"
				witnessed[k.class] = true
				c.Violate("coinbase:variant-accepted:"+k.class, fmt.Sprintf("dposv2/%s: block %d accepted with coinbase outputs %v (class %s, %s); the honest split is %v", mode, h, k.vals, k.class, why, hon.vals),
					map[string]interface{}{"era": "dposv2", "consensus": mode, "height": h, "class": k.class, "values": fmt.Sprint(k.vals), "honest": fmt.Sprint(hon.vals), "model": why})
			}
			break
		}
		if !acceptedAny {
			continue
		}
		if round%8 == 7 || round == rounds-1 {
			c11V2Replay(c, nd, sched, model, act, powHeight, explained, feesAt)
		}
	}
}

// c11V2Replay re-derives, from the blocks the node itself serves, the exact
// issuance of every block under the DPoS v2 rule (height > active+1) with an
// independent ledger and checks it against the statement-side model.
func c11V2Replay(c *kit.Ctx, nd *node.Node, sched c11Sched, model c11V2Model, act, powHeight uint32, explained map[uint32]string, feesAt map[uint32]int64) {
	l := nd.Replay()
	c.Inc("p2_replays")
	for _, is := range l.Issues {
		if is.Kind == "issuance-total" { // the ledger's total assumes "coinbase == subsidy+fees" at every height, which does not hold before DPoS v2 (withheld DPoS share)
			continue
		}
		if _, ok := explained[is.Height]; ok {
			c.Inc("p2_replay_issues_explained")
			continue
		}
		c.Violate("ledger:"+is.Kind, fmt.Sprintf("dposv2: height %d tx %s: %s", is.Height, is.TxID, is.Detail), nil)
	}
	created := map[node.OutKey]int64{}
	for _, b := range l.Blocks {
		fees := new(big.Int)
		var vals []int64
		var addrs []common.Uint168
		for ti, tx := range b.Transactions {
			out := new(big.Int)
			for i, o := range tx.Outputs() {
				out.Add(out, big.NewInt(int64(o.Value)))
				created[node.OutKey{TxID: tx.Hash(), Index: uint16(i)}] = int64(o.Value)
				if ti == 0 {
					vals = append(vals, int64(o.Value))
					addrs = append(addrs, o.ProgramHash)
				}
			}
			if ti == 0 || len(tx.Inputs()) == 0 {
				continue
			}
			in := new(big.Int)
			for _, inp := range tx.Inputs() {
				in.Add(in, big.NewInt(created[node.OutKey{TxID: inp.Previous.TxID, Index: inp.Previous.Index}]))
			}
			fees.Add(fees, new(big.Int).Sub(in, out))
		}
		if b.Height <= act+1 {
			continue
		}
		c.Inc("p2_replayed_blocks")
		c.Inc("p2_v2_replayed_blocks")
		if f, ok := feesAt[b.Height]; ok && fees.Cmp(big.NewInt(f)) != 0 {
			c.Violate("harness:fee-bookkeeping", fmt.Sprintf("height %d: harness fees %d, replay fees %s", b.Height, f, fees), nil)
		}
		if _, ok := explained[b.Height]; ok {
			continue
		}
		want := new(big.Int).Add(sched.reward(b.Height), fees)
		if !want.IsInt64() {
			c.Violate("coinbase:chain-issuance-differs", fmt.Sprintf("dposv2: chain block %d: subsidy+fees %s out of range", b.Height, want), nil)
			continue
		}
		if why := model.check(vals, addrs, want.Int64(), b.Height > powHeight); why != "" {
			c.Violate("coinbase:chain-issuance-differs", fmt.Sprintf("dposv2: chain block %d (pow consensus %v): coinbase %v, subsidy %s + fees %s: %s", b.Height, b.Height > powHeight, vals, sched.reward(b.Height), fees, why), nil)
		}
	}
}

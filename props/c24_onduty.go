package props

import (
	"crypto/sha256"
	"encoding/hex"
	"fmt"
	"math"
	"math/rand"
	"os"
	"path/filepath"
	"runtime"
	"sort"
	"strings"
	"sync"
	"sync/atomic"

	"github.com/elastos/Elastos.ELA/common"
	"github.com/elastos/Elastos.ELA/common/config"
	"github.com/elastos/Elastos.ELA/crypto"
	"github.com/elastos/Elastos.ELA/dpos/state"

	"verif/kit"
)

// C24 on-duty family: the arbiter that is on duty (for blocks, and for
// cross-chain work: the only one whose signature a SideChainPow transaction
// may carry) is a function of the arbiter state the chain is in. Validation /
// mempool / RPC goroutines ask for it while block processing changes the
// round or a reorganisation rolls the change back.
//
// A writer moves a real *state.Arbiters through a sequence of states S0,S1,…
// using the real, self-locking entry points; a logical clock (2i = stable in
// Si, 2i+1 = moving from Si to Si+1) is published around every step and the
// on-duty answers of every stable state are recorded by the writer itself
// (nothing else writes then). N readers call the on-duty getters and note the
// clock before and after each call. Oracle (checked after the run): every
// answer equals the answer of SOME state that existed between the call's
// start and end — states floor(v0/2) … ceil(v1/2). An answer of no such state
// ("arbiters of one round with the duty index of another") is a violation
// "nondeterminism:on-duty-arbiter-of-no-state:<getter>". Widening is by
// runtime.Gosched only; no wall clock takes part in a verdict.
//
//	D1 (c24OnDutyRecover)  writer = Arbiters.RecoverFromCheckPoints (the call a
//	    node makes when it rolls the DPoS state back to / restarts from a
//	    checkpoint) over synthetic rounds with disjoint key sets, last duty
//	    index of round A <-> first of round B, both cross-chain branches.
//	D2 (c24OnDutyBlocks)   writer = checkpoint.Manager.OnBlockSaved /
//	    OnRollbackTo on a generated DPoS history (the C21 state-level driver):
//	    the blocks around a round change are disconnected and connected again
//	    one at a time, as reorganizeChain does.

const c24SigOnDuty = "nondeterminism:on-duty-arbiter-of-no-state:"

type c24Getter struct {
	name string
	f    func() string
}

type c24DutyState struct {
	desc string
	ans  []string // per getter
	list []string // cross-chain arbiter list in on-duty order (witness text only)
	duty int
}

type c24DutyRec struct {
	g      int
	v0, v1 int64
	ans    string
}

type c24DutyEpisode struct {
	getters []c24Getter
	snap    func() c24DutyState // called by the writer in a stable state
	ver     atomic.Int64
	states  []c24DutyState
	stop    atomic.Bool
	wg      sync.WaitGroup
	recs    [][]c24DutyRec
	calls   atomic.Int64
	panics  atomic.Int64
}

const c24DutyRecCap = 150000

func (e *c24DutyEpisode) start(readers int) {
	e.states = []c24DutyState{e.snap()}
	e.recs = make([][]c24DutyRec, readers)
	for ri := 0; ri < readers; ri++ {
		e.wg.Add(1)
		go func(ri int) {
			defer e.wg.Done()
			recs := make([]c24DutyRec, 0, 4096)
			defer func() { e.recs[ri] = recs }()
			for i := 0; !e.stop.Load(); i++ {
				g := (i + ri) % len(e.getters)
				v0 := e.ver.Load()
				var a string
				func() {
					defer func() {
						if p := recover(); p != nil {
							a = fmt.Sprint("panic: ", p)
							e.panics.Add(1)
						}
					}()
					a = e.getters[g].f()
				}()
				v1 := e.ver.Load()
				e.calls.Add(1)
				// keep every call that overlapped a step, sample the others
				if len(recs) < c24DutyRecCap && (v1 != v0 || v0&1 == 1 || i%8 == 0) {
					recs = append(recs, c24DutyRec{g, v0, v1, a})
				}
			}
		}(ri)
	}
	// let the readers get going
	for e.calls.Load() < int64(readers) {
		runtime.Gosched()
	}
}

// step performs one writer step S_i -> S_i+1.
func (e *c24DutyEpisode) step(f func(), yields int) {
	i := int64(len(e.states) - 1)
	e.ver.Store(2*i + 1)
	f()
	e.states = append(e.states, e.snap())
	e.ver.Store(2*i + 2)
	for k := 0; k < yields; k++ {
		runtime.Gosched()
	}
}

func (e *c24DutyEpisode) finish() {
	e.stop.Store(true)
	e.wg.Wait()
}

// judge checks every recorded call; returns per getter the number of illegal
// answers and the first witness.
func (e *c24DutyEpisode) judge(c *kit.Ctx, family, scenario string) (overlapping int64) {
	type wit struct {
		n      int
		detail string
		rec    c24DutyRec
	}
	wits := map[int]*wit{}
	for _, recs := range e.recs {
		for _, r := range recs {
			i0 := int(r.v0 / 2)
			i1 := int((r.v1 + 1) / 2)
			if i1 >= len(e.states) {
				i1 = len(e.states) - 1
			}
			if r.v1 != r.v0 || r.v0&1 == 1 {
				overlapping++
			}
			ok := false
			for i := i0; i <= i1 && !ok; i++ {
				ok = e.states[i].ans[r.g] == r.ans
			}
			c.Inc("onduty_answers_checked")
			if ok {
				continue
			}
			w := wits[r.g]
			if w == nil {
				w = &wit{rec: r}
				wits[r.g] = w
				var sb strings.Builder
				for i := i0; i <= i1 && i < i0+6; i++ {
					fmt.Fprintf(&sb, " S%d{%s -> %s}", i, e.states[i].desc, c24Short(e.states[i].ans[r.g]))
				}
				// name the mixture if there is one: list of one state, duty index of another
				mix := ""
				for i := i0; i <= i1 && mix == ""; i++ {
					for j := i0; j <= i1 && mix == ""; j++ {
						l := e.states[i].list
						if i != j && len(l) > 0 {
							if k := e.states[j].duty % len(l); strings.HasPrefix(r.ans, l[k]) || l[k] == r.ans {
								mix = fmt.Sprintf(" It is entry %d of the arbiter list of S%d, i.e. that list indexed with the duty index %d of S%d.", k, i, e.states[j].duty, j)
							}
						}
					}
				}
				w.detail = fmt.Sprintf("%s returned %s during clock [%d,%d]; the states that existed during the call:%s — none of them has this arbiter on duty.%s",
					e.getters[r.g].name, c24Short(r.ans), r.v0, r.v1, sb.String(), mix)
			}
			w.n++
		}
	}
	for g, w := range wits {
		c.Count("onduty_illegal_answers", int64(w.n))
		c.Count("onduty_illegal_answers:"+family+":"+e.getters[g].name, int64(w.n))
		cas := map[string]interface{}{"monitor": "on-duty", "family": family, "scenario": scenario, "getter": e.getters[g].name,
			"illegal_answers": w.n, "calls": e.calls.Load(), "steps": len(e.states) - 1}
		c.Sample(cas)
		c.Violate(c24SigOnDuty+e.getters[g].name,
			fmt.Sprintf("[%s; %s] %s %d of %d calls returned an arbiter of no state (writer: %d steps).", family, scenario, w.detail, w.n, e.calls.Load(), len(e.states)-1), cas)
	}
	return
}

func c24Short(s string) string {
	if len(s) > 14 && !strings.HasPrefix(s, "panic") {
		return s[:14] + "…"
	}
	if s == "" {
		return "(none)"
	}
	return s
}

func c24DutyGetters(arb *state.Arbiters, idxHeight uint32) []c24Getter {
	return []c24Getter{
		{"GetOnDutyCrossChainArbitrator", func() string { return hex.EncodeToString(arb.GetOnDutyCrossChainArbitrator()) }},
		{"GetOnDutyArbitrator", func() string { return hex.EncodeToString(arb.GetOnDutyArbitrator()) }},
		{"GetDutyIndexByHeight", func() string { return fmt.Sprint(arb.GetDutyIndexByHeight(idxHeight)) }},
	}
}

// cross-chain arbiter list in the order the getter indexes it (witness only).
func c24CrossList(arb *state.Arbiters) []string {
	var l []string
	for _, a := range arb.GetCrossChainArbiters() {
		l = append(l, hex.EncodeToString(a.NodePublicKey))
	}
	return l
}

func c24RaiseProcs() func() {
	old := runtime.GOMAXPROCS(0)
	if old < 4 {
		runtime.GOMAXPROCS(4)
		return func() { runtime.GOMAXPROCS(old) }
	}
	return func() {}
}

// ---------------------------------------------------------------- D1

func c24PubKey(tag string, i int) []byte {
	h := sha256.Sum256([]byte(fmt.Sprintf("c24-onduty-%s-%d", tag, i)))
	pk, err := crypto.NewPubKey(h[:]).EncodePoint(true)
	if err != nil {
		panic(err)
	}
	return pk
}

type c24Round struct {
	tag  string
	list []state.ArbiterMember // sorted by node key, as ChangeCurrentArbitrators leaves it
	crc  map[common.Uint168]state.ArbiterMember
}

func c24NewRound(tag string, n int) *c24Round {
	rd := &c24Round{tag: tag, crc: map[common.Uint168]state.ArbiterMember{}}
	for i := 0; i < n; i++ {
		ar, err := state.NewOriginArbiter(c24PubKey(tag, i))
		if err != nil {
			panic(err)
		}
		rd.list = append(rd.list, ar)
		rd.crc[ar.GetOwnerProgramHash()] = ar
	}
	sort.Slice(rd.list, func(i, j int) bool {
		return strings.Compare(hex.EncodeToString(rd.list[i].GetNodePublicKey()), hex.EncodeToString(rd.list[j].GetNodePublicKey())) < 0
	})
	return rd
}

func c24OnDutyRecover(c *kit.Ctx) {
	defer c24RaiseProcs()()
	r := c.Rand("c24/onduty-recover")
	for branch := 0; branch < 2; branch++ {
		cfg := config.GetDefaultParams()
		tip := cfg.CRConfiguration.CRClaimDPOSNodeStartHeight + 1000
		bname := "crc-branch"
		if branch == 1 {
			cfg.DPoSConfiguration.DPOSNodeCrossChainHeight = cfg.CRConfiguration.CRClaimDPOSNodeStartHeight + 10
			bname = "all-arbiters-branch"
		}
		n := 6 + r.Intn(10)
		rounds := []*c24Round{c24NewRound(fmt.Sprintf("A%d%d", c.Shard, branch), n), c24NewRound(fmt.Sprintf("B%d%d", c.Shard, branch), n), c24NewRound(fmt.Sprintf("C%d%d", c.Shard, branch), n)}
		st := &state.State{StateKeyFrame: state.NewStateKeyFrame(), ChainParams: cfg}
		arb := &state.Arbiters{State: st, ChainParams: cfg}
		arb.RegisterFunction(func() uint32 { return tip }, func() *common.Uint256 { return &common.Uint256{} }, nil, nil)
		point := func(rd *c24Round, prev *c24Round, duty int) *state.CheckPoint {
			cp := &state.CheckPoint{StateKeyFrame: *state.NewStateKeyFrame(), Height: tip, DutyIndex: duty,
				CurrentArbitrators: rd.list, CurrentCRCArbitersMap: rd.crc}
			if prev != nil {
				cp.LastArbitrators = prev.list
			}
			return cp
		}
		var cur struct {
			rd   *c24Round
			duty int
		}
		move := func(rd, prev *c24Round, duty int) func() {
			return func() {
				arb.RecoverFromCheckPoints(point(rd, prev, duty))
				cur.rd, cur.duty = rd, duty
			}
		}
		move(rounds[0], nil, n-1)()
		ep := &c24DutyEpisode{getters: c24DutyGetters(arb, tip)}
		ep.snap = func() c24DutyState {
			s := c24DutyState{desc: fmt.Sprintf("round %s duty %d", cur.rd.tag, cur.duty), duty: cur.duty, list: c24CrossList(arb)}
			for _, g := range ep.getters {
				s.ans = append(s.ans, g.f())
			}
			return s
		}
		ep.start(3)
		steps := c.N(1500, 15000)
		ri := 0
		for s := 0; s < steps; {
			// connect the first block(s) of the next round, then roll back / go on
			next := rounds[(ri+1)%len(rounds)]
			prev := rounds[ri%len(rounds)]
			ep.step(move(next, prev, 0), 1+r.Intn(3)) // round change: arbiters swapped, duty index 0
			s++
			c.Inc("onduty_recover_roundchange_steps")
			switch r.Intn(3) {
			case 0: // rolled back: last block of the previous round again
				ep.step(move(prev, nil, n-1), 1+r.Intn(3))
				s++
				c.Inc("onduty_recover_rollback_steps")
			default: // the round goes on to its last block
				ri++
				for d := 1; d < n; d++ {
					if d > 2 && d < n-1 && r.Intn(2) == 0 {
						continue // recovering from a later checkpoint skips heights
					}
					ep.step(move(next, prev, d), r.Intn(2))
					s++
				}
			}
		}
		ep.finish()
		ov := ep.judge(c, "recover-from-checkpoint", bname)
		c.Count("onduty_recover_steps", int64(len(ep.states)-1))
		c.Count("onduty_recover_calls", ep.calls.Load())
		c.Count("onduty_recover_calls_overlapping_a_step", ov)
		c.Inc("onduty_recover_episodes:" + bname)
		c.Case(fmt.Sprintf("onduty-recover:%s:n%d:shard%d", bname, n, c.Shard), ov > 0)
	}
}

// ---------------------------------------------------------------- D2

func c24OnDutyBlocks(c *kit.Ctx) {
	defer c24RaiseProcs()()
	r := c.Rand("c24/onduty-blocks")
	nScen := c.N(2, 6)
	for si := 0; si < nScen; si++ {
		allArbiters := si%2 == 1
		bname := "crc-branch"
		if allArbiters {
			bname = "all-arbiters-branch"
		}
		seed := r.Int63()
		func() {
			hr := rand.New(rand.NewSource(seed))
			w := NewC21World()
			s := C21RandomSched(hr, []int{4, 3, 0}[si%3])
			dir := filepath.Join(c.WorkDir, fmt.Sprintf("c24-onduty-%d", si))
			os.MkdirAll(dir, 0755)
			defer os.RemoveAll(dir)
			in, err := newC21Inst(w, s, dir)
			if err != nil {
				c.Inconclusive("on-duty scenario: %v", err)
				return
			}
			defer in.close()
			if allArbiters {
				in.cfg.DPoSConfiguration.DPOSNodeCrossChainHeight = s.CRClaim + 1
			} else {
				in.cfg.DPoSConfiguration.DPOSNodeCrossChainHeight = math.MaxUint32
			}
			g := &C21Gen{W: w, S: s, R: hr, Count: func(string) {}, Nurture: true}
			specs := []*C21Block{nil}
			models := []*C21Model{NewC21Model(w, s)}
			episodes := 0
			maxEpisodes := c.N(4, 12)
			for in.tip < s.End && episodes < maxEpisodes {
				ht := in.tip + 1
				dutyBefore := in.arb.GetDutyIndex()
				listBefore := strings.Join(c24CrossList(in.arb), ",")
				blk, m2 := g.NextBlock(in.arb, models[in.tip], ht)
				if blk == nil {
					c.Inc("onduty_blocks_histories_stalled")
					break
				}
				if err := in.process(blk); err != nil {
					c.Inc("onduty_blocks_histories_ended_by_rejected_payload")
					break
				}
				specs = append(specs[:ht], blk)
				models = append(models[:ht], m2)
				c.Inc("onduty_blocks_history_blocks")
				if ht <= s.CRClaim+2 || in.arb.ConsensusAlgorithm != state.DPOS || len(in.arb.CurrentArbitrators) == 0 {
					continue
				}
				roundChanged := in.arb.GetDutyIndex() < dutyBefore
				if !roundChanged && hr.Intn(12) != 0 {
					continue
				}
				// window ht-d+1 .. ht of blocks without pre-actions (those are
				// separate state changes of their own)
				d := 0
				for d < 3 && int(ht)-d > int(s.CRClaim)+2 && len(specs[int(ht)-d].Pre) == 0 {
					d++
				}
				if d == 0 {
					continue
				}
				lo := ht - uint32(d)
				listsDiffer := strings.Join(c24CrossList(in.arb), ",") != listBefore
				ep := &c24DutyEpisode{getters: c24DutyGetters(in.arb, ht)}
				ep.snap = func() c24DutyState {
					st := c24DutyState{desc: fmt.Sprintf("tip %d duty %d arbiters %d", in.tip, in.arb.GetDutyIndex(), len(in.arb.CurrentArbitrators)),
						duty: in.arb.GetDutyIndex(), list: c24CrossList(in.arb)}
					for _, gt := range ep.getters {
						st.ans = append(st.ans, gt.f())
					}
					return st
				}
				ep.start(3)
				cycles := c.N(40, 200)
				failed := ""
				for cy := 0; cy < cycles && failed == ""; cy++ {
					for k := ht; k > lo && failed == ""; k-- {
						k := k
						ep.step(func() {
							if err := in.rollbackTo(k - 1); err != nil {
								failed = fmt.Sprintf("rollback to %d: %v", k-1, err)
							}
						}, 1+hr.Intn(3))
					}
					for k := lo + 1; k <= ht && failed == ""; k++ {
						k := k
						ep.step(func() {
							if err := in.process(specs[k]); err != nil {
								failed = fmt.Sprintf("re-connect of block %d: %v", k, err)
							}
						}, 1+hr.Intn(3))
					}
				}
				ep.finish()
				if failed != "" {
					c.Note("on-duty blocks scenario %d ended: %s", si, failed)
					c.Inc("onduty_blocks_episode_aborted")
					return
				}
				ov := ep.judge(c, "connect/rollback", fmt.Sprintf("%s history seed %d blocks %d..%d roundChange=%v", bname, seed, lo+1, ht, roundChanged))
				episodes++
				distinct := map[string]bool{}
				for _, stt := range ep.states {
					distinct[stt.ans[0]] = true
				}
				c.Inc("onduty_blocks_episodes")
				c.Inc("onduty_blocks_episodes:" + bname)
				if roundChanged {
					c.Inc("onduty_blocks_roundchange_episodes")
					if listsDiffer {
						c.Inc("onduty_blocks_roundchange_lists_differ")
					}
				}
				c.Count("onduty_blocks_steps", int64(len(ep.states)-1))
				c.Count("onduty_blocks_calls", ep.calls.Load())
				c.Count("onduty_blocks_calls_overlapping_a_step", ov)
				c.Max("max:onduty_blocks_distinct_answers_in_episode", int64(len(distinct)))
				c.Case(fmt.Sprintf("onduty-blocks:%s:%d:%d..%d", bname, seed, lo+1, ht), ov > 0 && len(distinct) > 1)
			}
		}()
	}
}

package props

import (
	"fmt"

	"github.com/elastos/Elastos.ELA/common"
	"github.com/elastos/Elastos.ELA/core/types"
)

// C30, long-range forks: competing branches rooted in the pre-DPoS prefix of
// the chain, at or below (the compressed) CRCOnlyDPOSHeight, hundreds of blocks
// below the recorded last irreversible height, and carrying more work than the
// DPoS-era best chain. The irreversibility guard has an activation cut-off at
// CRCOnlyDPOSHeight; it must apply to the best height, not to the fork point.
//
// The branch is mined by the harness (proof of work only, the node's own reward
// assignment, no confirms) on the active chain's block at the root height and
// handed over block by block through chain.ProcessBlock(b, nil); for the
// operator path a branch as long as (or one block longer / shorter than) the
// active chain is left in the side chain index and chain.ReorganizeChain(last)
// is called. Side chain blocks are only sanity checked before the guard
// decides, so the verdict does not depend on the branch being connectable.
// Oracle: unchanged — s.observe around every call (no disconnect at or below
// the LIH recorded before the call, no replaced active-chain hash, tip stays).
// Roots just ABOVE the cut-off are delivered as a control (judged by the
// ordinary LIH rule).

// longRange runs one long-range scenario; i selects root and path.
func (s *c30) longRange(phase string, i int) {
	if s.dead || s.lrViolated {
		return // one witness per shard is enough; a detached DPoS-era chain is slow to restore
	}
	nd := s.nd
	s.phase = phase
	crc := nd.Cfg.CRCOnlyDPOSHeight
	lih0, tip0, h0 := nd.LastIrreversible(), nd.Tip(), nd.Height()
	if crc < 4 || lih0 <= crc+3 || h0 <= crc+3 {
		s.c.Inc("long_range_not_applicable")
		return
	}
	// roots: deep in the PoW prefix, right below and at the cut-off; every third one right above it (control)
	below := []uint32{crc, crc - 1, 3, crc - 2, 1, crc / 2}
	above := []uint32{crc + 1, crc + 3}
	k := i + s.c.Shard
	root := below[k%len(below)]
	class := "below"
	if i%3 == 2 {
		root, class = above[k%len(above)], "above"
	}
	path := "long-range-chain-nil"
	extra := 1 + s.r.Intn(3) // more work than the active chain
	if (k/2)%2 == 1 {
		path = "long-range-reorganize-op"
		extra = s.r.Intn(3) - 1 // one block shorter, equal, one block longer: the operator call does not compare work
	}
	parent, err := nd.Chain.GetBlockByHeight(root)
	if err != nil {
		s.c.Inc("long_range_build_failed")
		return
	}
	n := int(h0-root) + extra
	sc := &c30Scn{Era: s.era, Phase: phase, Rel: fmt.Sprintf("crconly%+d", int(root)-int(crc)), Fork: root, LIH: lih0, Tip: h0, Extra: extra, Path: path, Order: "forward", Variant: "pow-prefix-branch"}
	s.c.Begin("C30 %+v", *sc)
	if c30Trace != nil {
		fmt.Fprintf(c30Trace, "SCENARIO %+v\n", *sc)
	}
	var br []*types.Block
	for j := 0; j < n; j++ {
		b, err := s.fresh(parent, nil, 0, 0, "")
		if err != nil {
			s.c.Inc("long_range_build_failed")
			s.note("long_range_build_failed", "long-range scenario %+v: block %d could not be built: %v", *sc, parent.Height+1, err)
			return
		}
		br = append(br, b)
		parent = b
	}
	s.c.Inc("long_range_forks")
	s.c.Inc("long_range_fork_rooted_" + class + "_crconly_cases")
	s.c.Inc("long_range:" + path)
	s.c.Inc("long_range_phase:" + phase)
	s.c.Count("long_range_branch_blocks", int64(len(br)))
	s.c.Max("max:long_range_depth", int64(h0-root))
	mode := "dpos"
	if nd.InPOWMode() {
		mode = "pow"
	}
	s.c.Inc("long_range_mode:" + mode)
	onBranch := map[common.Uint256]bool{}
	for _, b := range br {
		onBranch[b.Hash()] = true
	}
	disc, violated := 0, false
	add := func(o c30Obs) {
		disc += o.disc
		violated = violated || o.irreversible
	}
	for _, b := range br {
		b := b
		add(s.observe(path, map[string]interface{}{"scenario": *sc, "block_height": b.Height},
			func() error { _, _, err := nd.Chain.ProcessBlock(b, nil); return err }))
		if disc > 0 || !nd.Tip().IsEqual(tip0) {
			break // the node acted: nothing more to learn from the rest of the branch
		}
	}
	last := br[len(br)-1]
	if path == "long-range-reorganize-op" && disc == 0 && nd.Tip().IsEqual(tip0) {
		if _, ok := nd.Chain.LookupNodeInIndex(hashPtr(last.Hash())); ok {
			s.c.Inc("long_range_reorganize_calls")
			add(s.observe(path, map[string]interface{}{"scenario": *sc, "call": "ReorganizeChain", "block_height": last.Height},
				func() error { return nd.Chain.ReorganizeChain(last) }))
		}
	}
	indexed := 0
	for _, b := range br {
		if _, ok := nd.Chain.LookupNodeInIndex(hashPtr(b.Hash())); ok {
			indexed++
		}
	}
	// the guard decided when the branch out-weighed the active chain (or the operator call was made)
	reached := indexed == len(br) || disc > 0
	if reached {
		s.c.Inc("long_range_guard_reached")
		s.c.Inc("guard_reached")
	}
	s.c.Case(fmt.Sprintf("long-range|%s|%s|%d|%d|%s|%d", s.era, phase, root, extra, path, h0), reached)
	tip1 := nd.Tip()
	outcome := ""
	switch {
	case onBranch[tip1]:
		outcome = "performed"
		s.c.Inc("long_range_reorgs_performed")
		if !violated {
			s.c.Violate("irreversible-block-replaced:"+path, fmt.Sprintf("%s/%s: node switched to a branch rooted at height %d, below the last irreversible height %d (tip was %d)", s.era, phase, root, lih0, h0), *sc)
		}
	case tip1.IsEqual(tip0) && disc == 0:
		outcome = "refused"
		s.c.Inc("long_range_fork_rooted_" + class + "_crconly_refused")
		s.c.Inc("reorgs_refused")
		s.c.Inc("reorgs_refused:at_or_below_lih")
	case tip1.IsEqual(tip0):
		outcome = "failed-restored"
		s.c.Inc("long_range_reorgs_failed_and_restored")
	default:
		outcome = "failed-not-restored"
		s.c.Inc("long_range_reorgs_failed_and_not_restored")
		s.note("long_range_not_restored", "%s/%s: long-range scenario %+v: the node detached %d blocks and is left at height %d (was %d)", s.era, phase, *sc, disc, nd.Height(), h0)
	}
	s.lrViolated = s.lrViolated || violated
	s.c.Inc("long_range_outcome:" + class + ":" + mode + ":" + outcome)
	if s.lrSamp < 2 {
		s.lrSamp++
		s.c.Sample(map[string]interface{}{"scenario": *sc, "mode": mode, "branch_len": len(br), "branch_blocks_indexed": indexed, "outcome": outcome, "disconnect_events": disc, "crc_only_dpos_height": crc,
			"lih_after": nd.LastIrreversible(), "tip_after": nd.Height()})
	}
}

package props

import (
	"fmt"
	"reflect"
	"sort"
	"strings"

	"github.com/elastos/Elastos.ELA/common"
	"github.com/elastos/Elastos.ELA/core/types"
	common2 "github.com/elastos/Elastos.ELA/core/types/common"
	"github.com/elastos/Elastos.ELA/core/types/payload"

	"verif/kit"
	"verif/kit/filler"
)

// Boundary-length pass. Lengths and counts are written as var-ints whose
// width changes at 0xfd and 0x10000. For every variable-length site (byte
// string, string, list) of every transaction type / payload version / output
// payload type / header / confirm / p2p message, instances are generated with
// that one site at each admissible length of filler.BoundaryLengths
// ({252..256, 65535, 65536}, not above the decoder's cap; lists of structured
// elements only up to 256), and integer fields that are themselves written as
// var-ints are driven to filler.VarUintBoundaries. The ordinary round-trip
// oracles of rtJudge apply.

type c04BoundaryItem struct {
	name string // class name (signature suffix)
	cfg  *filler.Config
	gen  func(f *filler.Filler) interface{}
	mk   func(gen func(f *filler.Filler) interface{}) filler.Codec
}

func c04BoundaryConfig(base *filler.Config) *filler.Config {
	b := base.Clone()
	// exactly one element everywhere: every nested site exists, instances stay small
	b.MaxSlice, b.MaxMap, b.MinEntries = 1, 1, 1
	return b
}

func c04BoundaryItems(cfg, p2pcfg *filler.Config) []c04BoundaryItem {
	var items []c04BoundaryItem
	bcfg := c04BoundaryConfig(cfg)
	for _, k := range filler.TxTable {
		for _, pv := range k.Versions {
			k, pv := k, pv
			vs := filler.TxVersions(k.Type)
			txv := vs[len(vs)-1]
			if k.Type == common2.CRCProposal {
				for _, pt := range filler.ProposalTypes {
					pt := pt
					items = append(items, c04BoundaryItem{name: "tx." + k.Name, cfg: bcfg, mk: txCodec, gen: func(f *filler.Filler) interface{} {
						f.Ctx[filler.ForceKey("payload.CRCProposal.ProposalType")] = pt
						return filler.GenTx(f, k.Type, pv, txv)
					}})
				}
				continue
			}
			items = append(items, c04BoundaryItem{name: "tx." + k.Name, cfg: bcfg, mk: txCodec, gen: func(f *filler.Filler) interface{} {
				return filler.GenTx(f, k.Type, pv, txv)
			}})
		}
	}
	// a version-0 transaction (no output payloads) and every output payload type
	items = append(items, c04BoundaryItem{name: "tx.TransferAsset", cfg: bcfg, mk: txCodec, gen: func(f *filler.Filler) interface{} {
		return filler.GenTx(f, common2.TransferAsset, 0, common2.TxVersionDefault)
	}})
	for _, ot := range filler.OutputTypes {
		ot := ot
		items = append(items, c04BoundaryItem{name: fmt.Sprintf("tx.output%d", ot), cfg: bcfg, mk: txCodec, gen: func(f *filler.Filler) interface{} {
			f.Ctx[filler.CtxForceOutputType] = ot
			return filler.GenTx(f, common2.TransferAsset, 0, common2.TxVersion09)
		}})
	}
	ser := func(fresh func() common.Serializable) func(gen func(f *filler.Filler) interface{}) filler.Codec {
		return func(gen func(f *filler.Filler) interface{}) filler.Codec { return serCodec(gen, fresh) }
	}
	items = append(items,
		c04BoundaryItem{name: "Header", cfg: bcfg, mk: ser(func() common.Serializable { return &common2.Header{} }), gen: func(f *filler.Filler) interface{} {
			h := &common2.Header{}
			filler.GenHeader(f, h, true)
			for k := range f.Leaves {
				f.Leaves[k].Path = strings.TrimPrefix(f.Leaves[k].Path, ".Header")
			}
			return h
		}},
		c04BoundaryItem{name: "DPOSHeader", cfg: bcfg, mk: ser(func() common.Serializable { return &types.DPOSHeader{} }), gen: func(f *filler.Filler) interface{} {
			h := &types.DPOSHeader{}
			filler.GenHeader(f, &h.Header, true)
			h.HaveConfirm = true
			f.Value(reflect.ValueOf(&h.Confirm).Elem(), "payload.Confirm", ".Confirm")
			return h
		}},
		c04BoundaryItem{name: "Confirm", cfg: bcfg, mk: ser(func() common.Serializable { return &payload.Confirm{} }), gen: func(f *filler.Filler) interface{} {
			cf := filler.GenConfirm(f)
			for k := range f.Leaves {
				f.Leaves[k].Path = strings.TrimPrefix(f.Leaves[k].Path, ".Confirm")
			}
			return cf
		}},
	)
	pb := c04BoundaryConfig(p2pcfg)
	for _, k := range c04P2PKinds {
		k := k
		items = append(items, c04BoundaryItem{name: k.name, cfg: pb, mk: ser(k.fresh), gen: func(f *filler.Filler) interface{} {
			v := k.fresh()
			f.Fill(v)
			return v
		}})
	}
	return items
}

func c04Boundary(c *kit.Ctx, j *rtJudge, rs uint64) {
	rr := filler.NewRng(rs)
	savedCfg, savedSens := j.cfg, j.sens
	defer func() { j.cfg, j.sens, j.tolerate = savedCfg, savedSens, nil }()
	j.sens = false
	items := c04BoundaryItems(savedCfg, c04P2PConfig(savedCfg))
	low := map[string]int{}
	done := map[string]bool{} // site (key|kind) already driven through its boundary lengths in this shard
	longList := ""            // one list of leaf elements per shard also gets 65535/65536 elements
	sites := map[string]int{}
	for ii, it := range items {
		seed := rr.Uint64() // drawn for every item so that shards stay aligned
		if ii%c.Shards != c.Shard {
			continue
		}
		it := it
		j.cfg = it.cfg
		base := filler.New(it.cfg, seed)
		baseCodec := it.mk(it.gen)
		baseBytes, err := baseCodec.Enc(it.gen(base))
		if err != nil {
			c.Inconclusive("boundary pass: base instance of %s not encodable: %v", it.name, err)
			continue
		}
		// classify the version-gated fields once, on the small base instance
		j.tolerate = nil
		if j.run(it.name, seed, baseCodec) == nil {
			continue
		}
		j.tolerate = map[string]bool{}
		for _, p := range j.lastGated {
			j.tolerate[p] = true
		}
		plan, lowCap := filler.BoundaryPlan(base.Sites, true)
		for _, s := range lowCap {
			low[fmt.Sprintf("%s[%s]", s.Key, c04SiteKind(s.Kind))] = s.Cap
		}
		skipSite := -1
		for _, bc := range plan {
			bc := bc
			sk := bc.Info.Key + "|" + c04SiteKind(bc.Info.Kind)
			if done[sk] || bc.Site == skipSite {
				continue
			}
			if bc.Len > 256 && bc.Info.Kind == filler.SiteSlice {
				if longList != "" && longList != sk {
					continue
				}
				longList = sk
			}
			codec := it.mk(func(f *filler.Filler) interface{} {
				f.ForceSite, f.ForceLen = bc.Site, bc.Len
				return it.gen(f)
			})
			c.Begin("boundary %s %s=%d seed=%d", it.name, bc.Info.Key, bc.Len, seed)
			// is the pinned field on the wire at all in this version/layout?
			// (only the pinned site differs from the base instance, and every
			// element / byte adds at least one byte); if not, leave the site
			// to another item
			pf := filler.New(it.cfg, seed)
			pf.ForceSite, pf.ForceLen = bc.Site, bc.Len
			if pb, err := codec.Enc(it.gen(pf)); err != nil || len(pb) < len(baseBytes)+bc.Len-bc.Info.Len {
				c.Inc("boundary_site_not_carried_here")
				skipSite = bc.Site
				continue
			}
			// the input class is "some field has exactly this length": one
			// signature per length, whatever the type
			j.what = fmt.Sprintf("(%s with %s of length %d)", it.name, bc.Info.Key, bc.Len)
			o := j.run(fmt.Sprintf("len=%d", bc.Len), seed, codec)
			j.what = ""
			if o == nil {
				continue
			}
			// the plan must have taken effect, else the pass is vacuous
			if bc.Site >= len(o.Sites) || o.Sites[bc.Site].Len != bc.Len || o.Sites[bc.Site].Key != bc.Info.Key {
				c.Inconclusive("boundary pass: could not pin %s of %s to length %d", bc.Info.Key, it.name, bc.Len)
				continue
			}
			c.Inc("boundary_lengths_covered")
			c.Inc(fmt.Sprintf("boundary_len:%d", bc.Len))
			sites[sk]++
		}
		for sk, n := range sites {
			if n > 0 && !done[sk] {
				done[sk] = true
				c.Inc("boundary_sites_covered")
			}
		}
		// integer fields written as var-ints
		for _, key := range it.cfg.VarUintKeys {
			present := false
			for _, l := range base.Leaves {
				if l.Key == key {
					present = true
					break
				}
			}
			if !present {
				continue
			}
			for _, val := range filler.VarUintBoundaries {
				val := val
				codec := it.mk(func(f *filler.Filler) interface{} {
					f.Ctx[filler.ForceKey(key)] = val
					return it.gen(f)
				})
				c.Begin("boundary %s %s=%#x", it.name, key, val)
				j.what = fmt.Sprintf("(%s with %s = %#x)", it.name, key, val)
				o := j.run(fmt.Sprintf("varuint=%#x", val), seed, codec)
				j.what = ""
				if o != nil {
					c.Inc("boundary_varuint_values")
				}
			}
		}
	}
	// blocks with a boundary number of (small) transactions
	if c.Shard == 0 {
		for _, n := range []int{252, 253, 254, 255, 256} {
			n := n
			j.cfg, j.tolerate = savedCfg, nil
			codec := serCodec(func(f *filler.Filler) interface{} { return filler.GenBlock(f, n, false) },
				func() common.Serializable { return &types.Block{} })
			c.Begin("boundary block n=%d", n)
			if o := j.run("Block", rr.Uint64(), codec); o != nil {
				c.Inc("boundary_blocks")
				if got := len(o.Decoded.(*types.Block).Transactions); got != n {
					c.Violate("roundtrip:types.Block.Transactions", fmt.Sprintf("%d txs encoded, %d decoded", n, got), nil)
				}
			}
		}
	}
	var ls []string
	for k, v := range low {
		ls = append(ls, fmt.Sprintf("%s<=%d", k, v))
	}
	sort.Strings(ls)
	c.Count("boundary_sites_cap_below_253", int64(len(ls)))
	c.Note("boundary pass (shard %d): var-length sites whose decoder cap is below 253 (no boundary length admissible): %s", c.Shard, strings.Join(ls, " "))
}

func c04SiteKind(k filler.SiteKind) string {
	switch k {
	case filler.SiteBytes:
		return "bytes"
	case filler.SiteString:
		return "string"
	case filler.SiteSlice:
		return "count"
	}
	return "map"
}

package props

import (
	"bytes"
	"context"
	"encoding/binary"
	"encoding/hex"
	"encoding/json"
	"fmt"
	"io"
	"math"
	"os"
	"os/exec"
	"path/filepath"
	"reflect"
	"runtime/pprof"
	"sort"
	"strings"
	"sync"
	"sync/atomic"
	"syscall"
	"time"

	"github.com/elastos/Elastos.ELA/blockchain"
	"github.com/elastos/Elastos.ELA/common"
	"github.com/elastos/Elastos.ELA/core/types"
	common2 "github.com/elastos/Elastos.ELA/core/types/common"
	"github.com/elastos/Elastos.ELA/core/types/functions"
	"github.com/elastos/Elastos.ELA/core/types/interfaces"
	"github.com/elastos/Elastos.ELA/core/types/payload"
	crstate "github.com/elastos/Elastos.ELA/cr/state"
	"github.com/elastos/Elastos.ELA/dpos/state"

	"verif/kit"
	"verif/kit/node"
)

// C23 workload B — restart twin.
//
// Every node run is a sub-process of the shard (one node per process; the
// restart must be a real process exit):
//
//	record    run A: a seeded history (c23_hist.go) mined on a fresh node with
//	          NeedSave=true up to height H; afterwards the chain (blocks +
//	          confirms as stored) and every mempool submission are written to a
//	          record file. Snapshots at chosen "cuts".
//	replay    feeds the record to a node: fresh dir 0->h then clean close (or
//	          SIGKILL) and process exit = first half of run B; existing dir
//	          h->H = second half of run B (node.Start on the existing Dir does
//	          what main.go does: blockchain.New/Init/InitCheckpoint ->
//	          Manager.Restore + block replay); fresh dir 0->H = the
//	          "fed instead of mined" control.
//
// "cut x" = tip is block x, the submissions the script made on top of block x
// are in the pool, node-generated transactions have settled. A snapshot holds
//   - a reflection dump of the LIVE DPoS state (state.NewCheckpoint(arbiters):
//     every field the checkpoint would save, read in place) and of the live CR
//     state (KeyFrame + StateKeyFrame + ProposalKeyFrame) — independent of the
//     Serialize/Deserialize code under test,
//   - the serialised DPoS and CR checkpoints (the literal clause; decoded and
//     compared as structures, maps as maps),
//   - the pool (transactions, fee-ordered list, conflict slots),
//   - public getters (last irreversible height, consensus mode, arbiters /
//     next arbiters / candidates, degradation, committee views).
// The shard process compares snapshots of the same cut leaf by leaf; a
// difference is reported under "<Type>.<Field>" of the differing leaf.
//
// What a restart restores (read from core/checkpoint/manager.go and
// blockchain.InitCheckpoint): Manager.Restore loads default.{ccp,dcp,txpcp}.
// The DPoS/CR file saved at height s (every 720 blocks) only becomes
// "default" at s+720, so a restart at h<1440 replays every block from the
// start height, a restart at h>=1440 loads the state of height 720 from the
// file and replays blocks 721..h through Arbiters/Committee.ProcessBlock.
// The tx-pool file is written at every block and becomes default one block
// later: a restart at cut h finds the pool as it was when block h-1 was
// saved, i.e. the pool of cut h-2.

const (
	c23bEnvRole   = "VERIF_C23B_ROLE"
	c23bEnvParams = "VERIF_C23B_PARAMS"
)

type c23bParams struct {
	Role    string   `json:"role"` // record | replay
	Dir     string   `json:"dir"`
	Era     string   `json:"era"`
	Seed    int64    `json:"seed"`
	H       uint32   `json:"h"`
	Rec     string   `json:"rec"`
	Out     string   `json:"out"`
	SnapDir string   `json:"snap_dir"`
	Tag     string   `json:"tag"`
	SnapAt  []uint32 `json:"snap_at"`
	From    uint32   `json:"from"`
	To      uint32   `json:"to"`
	Restart bool     `json:"restart"` // Dir is an existing data dir at cut From
	Exit    string   `json:"exit"`    // close | kill
	Trace   string   `json:"trace,omitempty"`
}

type c23bResult struct {
	Done      bool              `json:"done"`
	Err       string            `json:"err,omitempty"`
	Height    uint32            `json:"height"`
	Tip       string            `json:"tip"`
	BootEnd   uint32            `json:"boot_end,omitempty"`
	Counters  map[string]int64  `json:"counters,omitempty"`
	PoolAt    map[uint32]string `json:"pool_at,omitempty"` // cut -> space separated short tx hashes (record)
	Hashes    []string          `json:"hashes,omitempty"`  // block hash per height (record)
	Rejected  uint32            `json:"rejected,omitempty"`
	RejectErr string            `json:"reject_err,omitempty"`
	SubDiffs  []string          `json:"sub_diffs,omitempty"` // submissions whose acceptance differs from run A
	Notes     []string          `json:"notes,omitempty"`
	CkpFiles  []string          `json:"ckp_files,omitempty"` // checkpoint files present when the node was opened / closed
	StartMs   int64             `json:"start_ms,omitempty"`
	Replayed  int               `json:"replayed,omitempty"`
}

func init() {
	role := os.Getenv(c23bEnvRole)
	if role == "" {
		return
	}
	// sub-process of C23 workload B; never reaches main().
	var p c23bParams
	if err := json.Unmarshal([]byte(os.Getenv(c23bEnvParams)), &p); err != nil {
		fmt.Fprintln(os.Stderr, "c23b sub: bad params:", err)
		os.Exit(3)
	}
	if role == "replay" {
		// a fed node only waits for transactions it may never create itself
		node.SystemWait = 1500 * time.Millisecond
	}
	if pf := os.Getenv("C23B_PROF"); pf != "" {
		if f, err := os.Create(pf); err == nil {
			pprof.StartCPUProfile(f)
			defer pprof.StopCPUProfile()
		}
	}
	var res *c23bResult
	switch role {
	case "record":
		res = c23bRecord(&p)
	case "replay":
		res = c23bReplay(&p)
	case "compare": // development aid: print the differences between two snapshot series
		for _, x := range p.SnapAt {
			sa, e1 := c23bLoadSnap(p.SnapDir, "A", x)
			sb, e2 := c23bLoadSnap(p.SnapDir, p.Tag, x)
			if e1 != nil || e2 != nil {
				continue
			}
			ds, err := c23bCompareState(sa, sb)
			fmt.Printf("cut %d: %d diffs %v\n", x, len(ds), err)
			for i, d := range ds {
				if i < 40 {
					fmt.Printf("   %s | %s | A=%s | %s=%s\n", d.Class, d.Path, d.A, p.Tag, d.B)
				}
			}
			pa, pb := poolCanonSet(sa), poolCanonSet(sb)
			for k, t := range pa {
				if _, ok := pb[k]; !ok {
					fmt.Printf("   pool: only A: %s %s\n", t.Type, k)
				}
			}
			for k, t := range pb {
				if _, ok := pa[k]; !ok {
					fmt.Printf("   pool: only %s: %s %s\n", p.Tag, t.Type, k)
				}
			}
		}
		os.Exit(0)
	default:
		os.Exit(3)
	}
	c23bWriteJSON(p.Out, res)
	pprof.StopCPUProfile()
	if p.Exit == "kill" && res.Err == "" {
		// no store close, no checkpoint-manager close: the process dies here.
		syscall.Kill(os.Getpid(), syscall.SIGKILL)
		time.Sleep(10 * time.Second)
	}
	os.Exit(0)
}

func c23bWriteJSON(path string, v interface{}) {
	b, _ := json.Marshal(v)
	tmp := path + ".tmp"
	if err := os.WriteFile(tmp, b, 0644); err == nil {
		os.Rename(tmp, path)
	}
}

// ---------- record file ----------

const (
	c23bEvBlock = 1
	c23bEvSub   = 2
)

type c23bSub struct {
	Cut      uint32
	Tx       []byte
	Accepted bool
}

type c23bRecordFile struct {
	Blocks map[uint32][]byte // serialised types.DposBlock
	Subs   map[uint32][]c23bSub
	H      uint32
}

func c23bWriteRecord(path string, blocks map[uint32][]byte, subs []c23bSub, h uint32) error {
	f, err := os.Create(path)
	if err != nil {
		return err
	}
	defer f.Close()
	w := func(kind byte, cut uint32, flag byte, data []byte) {
		var hd [10]byte
		hd[0] = kind
		binary.LittleEndian.PutUint32(hd[1:], cut)
		hd[5] = flag
		binary.LittleEndian.PutUint32(hd[6:], uint32(len(data)))
		f.Write(hd[:])
		f.Write(data)
	}
	for x := uint32(1); x <= h; x++ {
		w(c23bEvBlock, x, 0, blocks[x])
	}
	for _, s := range subs {
		fl := byte(0)
		if s.Accepted {
			fl = 1
		}
		w(c23bEvSub, s.Cut, fl, s.Tx)
	}
	return nil
}

func c23bReadRecord(path string) (*c23bRecordFile, error) {
	b, err := os.ReadFile(path)
	if err != nil {
		return nil, err
	}
	r := &c23bRecordFile{Blocks: map[uint32][]byte{}, Subs: map[uint32][]c23bSub{}}
	for len(b) > 0 {
		if len(b) < 10 {
			return nil, fmt.Errorf("record: truncated header")
		}
		kind, cut, flag, n := b[0], binary.LittleEndian.Uint32(b[1:]), b[5], binary.LittleEndian.Uint32(b[6:])
		b = b[10:]
		if uint32(len(b)) < n {
			return nil, fmt.Errorf("record: truncated body")
		}
		data := b[:n]
		b = b[n:]
		switch kind {
		case c23bEvBlock:
			r.Blocks[cut] = data
			if cut > r.H {
				r.H = cut
			}
		case c23bEvSub:
			r.Subs[cut] = append(r.Subs[cut], c23bSub{Cut: cut, Tx: data, Accepted: flag == 1})
		}
	}
	return r, nil
}

func c23bTxBytes(tx interfaces.Transaction) []byte {
	buf := new(bytes.Buffer)
	tx.Serialize(buf)
	return buf.Bytes()
}

func c23bTxFromBytes(b []byte) (interfaces.Transaction, error) {
	r := bytes.NewReader(b)
	tx, err := functions.GetTransactionByBytes(r)
	if err != nil {
		return nil, err
	}
	if err := tx.Deserialize(r); err != nil {
		return nil, err
	}
	return tx, nil
}

// ---------- snapshots ----------

type c23bPoolTx struct {
	Hash  string `json:"hash"`
	Type  string `json:"type"`
	Canon string `json:"canon"` // identity up to the node's free choices (inputs of node-generated withdraw txs)
}

type c23bGetters struct {
	LastIrreversibleHeight uint32
	ConsensusAlgorithm     string
	InPOWMode              bool
	RevertToPOWBlockHeight uint32
	DutyIndex              int
	OnDutyArbitrator       string
	Arbitrators            []string
	NextArbitrators        []string
	CRCArbiters            []string
	Candidates             []string
	NextCandidates         []string
	NextCRCArbiters        []string
	ArbitersCount          int
	MajorityCount          int
	DPoSV2ActiveHeight     uint32
	NeedNextTurnDPOSInfo   bool
	Degradation            [4]int64
	CRInElectionPeriod     bool
	CRInVotingPeriodNext   bool
	CRAppropriationNeeded  bool
	CRProposalResultNeeded bool
	CRMembers              []string
	CRCandidates           []string
	CRRealWithdrawPending  []string
	V2RealWithdrawPending  []string
	V2VotesWithdrawPending []string
}

type c23bSnap struct {
	Tag       string                       `json:"tag"`
	Height    uint32                       `json:"height"`
	Tip       string                       `json:"tip"`
	DPoS      []byte                       `json:"dpos"`
	CR        []byte                       `json:"cr"`
	LiveDPoS  string                       `json:"live_dpos"` // c23bLive dump of the live DPoS state (no Serialize/Deserialize involved)
	LiveCR    string                       `json:"live_cr"`
	Pool      []c23bPoolTx                 `json:"pool"`
	FeeList   []string                     `json:"fee_list"`
	TotalSize uint64                       `json:"total_size"`
	Slots     map[string]map[string]string `json:"slots"`
	G         c23bGetters                  `json:"getters"`
}

func arbInfoStrings(as []*state.ArbiterInfo) []string {
	var out []string
	for _, a := range as {
		out = append(out, fmt.Sprintf("%x/normal=%v/cr=%v/claimed=%v", a.NodePublicKey, a.IsNormal, a.IsCRMember, a.ClaimedDPOSNode))
	}
	return out
}

func hexList(bs [][]byte) []string {
	var out []string
	for _, b := range bs {
		out = append(out, hex.EncodeToString(b))
	}
	return out
}

func sortedHashKeys(m map[common.Uint256]common2.OutputInfo) []string {
	var out []string
	for k, v := range m {
		out = append(out, fmt.Sprintf("%s:%s:%d", k.String(), v.Recipient.String(), int64(v.Amount)))
	}
	sort.Strings(out)
	return out
}

// c23bCanon identifies a pool transaction up to choices the creating node is
// free to make: the node-generated real-withdraw transactions pick their
// inputs from whatever the pool address holds when they are created.
func c23bCanon(tx interfaces.Transaction) string {
	switch tx.TxType() {
	case common2.DposV2ClaimRewardRealWithdraw, common2.VotesRealWithdraw, common2.CRCProposalRealWithdraw,
		common2.NextTurnDPOSInfo, common2.CRCAppropriation, common2.CRAssetsRectify, common2.ProposalResult,
		common2.RevertToPOW, common2.RevertToDPOS, common2.InactiveArbitrators,
		common2.IllegalBlockEvidence, common2.IllegalProposalEvidence, common2.IllegalVoteEvidence, common2.IllegalSidechainEvidence:
		// created by the node itself from its state (which requests a withdraw
		// covers, which inputs it spends, a nonce: the creating node's choice at
		// creation time); a node that lost one re-creates it
		return tx.TxType().Name() + "{node-generated}"
	}
	return tx.Hash().String()
}

func c23bTakeSnap(nd *node.Node, tag string) (*c23bSnap, error) {
	tip := nd.Tip()
	s := &c23bSnap{Tag: tag, Height: nd.Height(), Tip: tip.String(), Slots: map[string]map[string]string{}}
	// DPoS: the package's own full-state serialisation
	buf := new(bytes.Buffer)
	if err := state.NewCheckpoint(nd.Arbiters).Serialize(buf); err != nil {
		return nil, fmt.Errorf("dpos checkpoint serialize: %v", err)
	}
	s.DPoS = append([]byte{}, buf.Bytes()...)
	s.LiveDPoS = c23bLiveDump(reflect.ValueOf(state.NewCheckpoint(nd.Arbiters)).Elem(), "CheckPoint")
	// CR: the registered checkpoint object's Snapshot (initFromCommittee + Serialize + Deserialize)
	icp, ok := nd.Ckp.GetCheckpoint("cp_cr", math.MaxUint32)
	if !ok || icp == nil {
		return nil, fmt.Errorf("cr checkpoint not registered")
	}
	cs := icp.Snapshot()
	if cs == nil {
		return nil, fmt.Errorf("cr checkpoint Snapshot() failed")
	}
	cs.SetHeight(0) // the save-schedule bookkeeping is not chain state
	// Snapshot() has just pointed the registered checkpoint's frames at the live committee state
	s.LiveCR = c23bLiveDump(reflect.ValueOf(icp).Elem(), "Checkpoint")
	buf = new(bytes.Buffer)
	if err := cs.Serialize(buf); err != nil {
		return nil, fmt.Errorf("cr checkpoint serialize: %v", err)
	}
	s.CR = append([]byte{}, buf.Bytes()...)
	// pool
	ps := nd.TxPool.VerifSnapshot()
	for h, tx := range ps.Txs {
		s.Pool = append(s.Pool, c23bPoolTx{Hash: h.String(), Type: tx.TxType().Name(), Canon: c23bCanon(tx)})
	}
	sort.Slice(s.Pool, func(i, j int) bool { return s.Pool[i].Hash < s.Pool[j].Hash })
	for _, it := range ps.FeeList {
		s.FeeList = append(s.FeeList, it.Hash.String())
	}
	s.TotalSize = ps.TotalSize
	for name, m := range ps.Slots {
		mm := map[string]string{}
		for k, v := range m {
			mm[k] = v.String()
		}
		s.Slots[name] = mm
	}
	// getters
	a := nd.Arbiters
	st := nd.Chain.GetState()
	g := &s.G
	g.LastIrreversibleHeight = st.GetLastIrreversibleHeight()
	g.ConsensusAlgorithm = st.GetConsensusAlgorithm().String()
	g.InPOWMode = a.IsInPOWMode()
	g.RevertToPOWBlockHeight = a.GetRevertToPOWBlockHeight()
	g.DutyIndex = a.GetDutyIndex()
	g.OnDutyArbitrator = hex.EncodeToString(a.GetOnDutyArbitrator())
	g.Arbitrators = arbInfoStrings(a.GetArbitrators())
	g.NextArbitrators = arbInfoStrings(a.GetNextArbitrators())
	g.CRCArbiters = arbInfoStrings(a.GetCRCArbiters())
	sort.Strings(g.CRCArbiters) // the getter walks a map
	g.Candidates = hexList(a.GetCandidates())
	g.NextCandidates = hexList(a.GetNextCandidates())
	g.NextCRCArbiters = hexList(a.GetNextCRCArbiters())
	g.ArbitersCount = a.GetArbitersCount()
	g.MajorityCount = a.GetArbitersMajorityCount()
	g.DPoSV2ActiveHeight = a.GetDPoSV2ActiveHeight()
	g.NeedNextTurnDPOSInfo = a.IsNeedNextTurnDPOSInfo()
	ds, us, ih, it := a.VerifDegradation()
	g.Degradation = [4]int64{int64(ds), int64(us), int64(ih), int64(it)}
	cm := nd.Committee
	g.CRInElectionPeriod = cm.IsInElectionPeriod()
	g.CRInVotingPeriodNext = cm.IsInVotingPeriod(nd.Height() + 1)
	g.CRAppropriationNeeded = cm.IsAppropriationNeeded()
	g.CRProposalResultNeeded = cm.IsProposalResultNeeded()
	for _, m := range cm.GetAllMembersCopy() {
		ms := m.MemberState
		g.CRMembers = append(g.CRMembers, fmt.Sprintf("%s/%s/dpos=%x/imp=%d/inact=%d", m.Info.DID.String(), (&ms).String(), m.DPOSPublicKey, int64(m.ImpeachmentVotes), m.InactiveCount))
	}
	sort.Strings(g.CRMembers)
	for _, cd := range cm.GetAllCandidates() {
		g.CRCandidates = append(g.CRCandidates, fmt.Sprintf("%s/%d/votes=%d", cd.Info.CID.String(), cd.State, int64(cd.Votes)))
	}
	sort.Strings(g.CRCandidates)
	g.CRRealWithdrawPending = sortedHashKeys(cm.GetRealWithdrawTransactions())
	g.V2RealWithdrawPending = sortedHashKeys(st.GetRealWithdrawTransactions())
	g.V2VotesWithdrawPending = sortedHashKeys(st.GetVotesWithdrawableTxInfo())
	return s, nil
}

// c23bLiveDump renders every populated leaf of a live state object as
// "path \x1f <Type>.<Field> \x1f value" lines (sorted). It reads the objects
// through reflection only (unexported fields included), so it does not depend
// on the Serialize/Deserialize code under test. Zero scalars and empty byte
// strings give no line; every map key gives one (sets, zero-valued entries).
func c23bLiveDump(v reflect.Value, root string) string {
	var lines []string
	var walk func(v reflect.Value, class, path string, depth int)
	emit := func(path, class, val string) { lines = append(lines, path+"\x1f"+class+"\x1f"+val) }
	walk = func(v reflect.Value, class, path string, depth int) {
		if depth > 40 {
			emit(path, class, "<too deep>")
			return
		}
		switch v.Kind() {
		case reflect.Ptr, reflect.Interface:
			if v.IsNil() {
				return
			}
			e := v.Elem()
			if v.Kind() == reflect.Interface {
				t := e.Type()
				for t.Kind() == reflect.Ptr {
					t = t.Elem()
				}
				emit(path+".(type)", class, t.Name())
			}
			walk(e, class, path, depth+1)
		case reflect.Struct:
			t := v.Type()
			for i := 0; i < t.NumField(); i++ {
				f := t.Field(i)
				switch f.Name {
				case "arbitrators", "committee", "mtx", "hash":
					continue
				}
				if k := f.Type.Kind(); k == reflect.Func || k == reflect.Chan {
					continue
				}
				cl := t.Name() + "." + f.Name
				if f.Anonymous {
					cl = class
				}
				if (cl == "CheckPoint.Height" || cl == "Checkpoint.Height") && depth <= 1 {
					continue // save-schedule bookkeeping of the checkpoint object
				}
				if cl == "StateKeyFrame.NeedRevertToDPOSTX" {
					continue // set by the DPoS network layer, not derived from blocks
				}
				if _, ok := c23NotPersisted["payload."+cl]; ok {
					continue // deliberately not persisted (see c23.go): never read from state
				}
				p := path + "." + f.Name
				if path == "" {
					p = f.Name
				}
				walk(v.Field(i), cl, p, depth+1)
			}
		case reflect.Map:
			keysOnly := class == "StateKeyFrame.DposV2EffectedProducers" // only the key set is ever read (see c23bCompareState)
			for _, k := range v.MapKeys() {
				p := path + "[" + keyString(k) + "]"
				emit(p, class, "<entry>")
				if !keysOnly {
					walk(v.MapIndex(k), class, p, depth+1)
				}
			}
		case reflect.Slice, reflect.Array:
			if isByteSeq(v.Type()) {
				if v.Len() > 0 && !(v.Kind() == reflect.Array && v.IsZero()) {
					emit(path, class, byteSeqHex(v))
				}
				return
			}
			for i := 0; i < v.Len(); i++ {
				walk(v.Index(i), class, fmt.Sprintf("%s[%d]", path, i), depth+1)
			}
			if v.Len() > 0 {
				emit(path+".len", class, fmt.Sprint(v.Len()))
			}
		default:
			if !v.IsZero() {
				emit(path, class, scalarString(v))
			}
		}
	}
	walk(v, root, "", 0)
	sort.Strings(lines)
	return strings.Join(lines, "\n")
}

func c23bLiveParse(blob string) map[string][2]string {
	m := map[string][2]string{}
	if blob == "" {
		return m
	}
	for _, ln := range strings.Split(blob, "\n") {
		f := strings.SplitN(ln, "\x1f", 3)
		if len(f) == 3 {
			m[f[0]] = [2]string{f[1], f[2]}
		}
	}
	return m
}

// c23bLiveDiff compares two live dumps.
func c23bLiveDiff(prefix, a, b string) []c23bDiff {
	ma, mb := c23bLiveParse(a), c23bLiveParse(b)
	var out []c23bDiff
	var paths []string
	for p := range ma {
		paths = append(paths, p)
	}
	for p := range mb {
		if _, ok := ma[p]; !ok {
			paths = append(paths, p)
		}
	}
	sort.Strings(paths)
	for _, p := range paths {
		x, okA := ma[p]
		y, okB := mb[p]
		switch {
		case okA && okB && x[1] == y[1]:
		case okA && okB:
			out = append(out, c23bDiff{prefix + x[0], p, x[1], y[1]})
		case okA:
			out = append(out, c23bDiff{prefix + x[0], p, x[1], "<zero/absent>"})
		default:
			out = append(out, c23bDiff{prefix + y[0], p, "<zero/absent>", y[1]})
		}
		if len(out) >= 300 {
			break
		}
	}
	return out
}

// c23bNextCRCDiffers reports whether, in the live DPoS state of a snapshot, the
// next CRC arbiter set (owner -> node key, normal flag) differs from the current one.
func c23bNextCRCDiffers(s *c23bSnap) bool {
	cur, next := map[string]string{}, map[string]string{}
	for p, cv := range c23bLiveParse(s.LiveDPoS) {
		for prefix, m := range map[string]map[string]string{"CurrentCRCArbitersMap[": cur, "NextCRCArbitersMap[": next} {
			if strings.HasPrefix(p, prefix) && (strings.HasSuffix(p, "].nodePk") || strings.HasSuffix(p, "].isNormal") || strings.HasSuffix(p, "]")) {
				m[strings.TrimPrefix(p, prefix)] = cv[1]
			}
		}
	}
	if len(cur) != len(next) {
		return true
	}
	for k, v := range cur {
		if next[k] != v {
			return true
		}
	}
	return false
}

func c23bSnapPath(dir, tag string, h uint32) string {
	return filepath.Join(dir, fmt.Sprintf("%s-%d.json", tag, h))
}

func c23bSaveSnap(dir string, s *c23bSnap) error {
	b, err := json.Marshal(s)
	if err != nil {
		return err
	}
	return os.WriteFile(c23bSnapPath(dir, s.Tag, s.Height), b, 0644)
}

func c23bLoadSnap(dir, tag string, h uint32) (*c23bSnap, error) {
	b, err := os.ReadFile(c23bSnapPath(dir, tag, h))
	if err != nil {
		return nil, err
	}
	s := &c23bSnap{}
	if err := json.Unmarshal(b, s); err != nil {
		return nil, err
	}
	return s, nil
}

func c23bListCkpFiles(dir string) []string {
	var out []string
	root := filepath.Join(dir, "data", "checkpoints")
	filepath.Walk(root, func(p string, info os.FileInfo, err error) error {
		if err == nil && !info.IsDir() {
			rel, _ := filepath.Rel(root, p)
			out = append(out, fmt.Sprintf("%s(%d)", rel, info.Size()))
		}
		return nil
	})
	sort.Strings(out)
	return out
}

// c23bWaitCkpQuiet waits (bounded) until the asynchronous checkpoint writer
// has produced the files the save schedule of a never-restarted node implies
// for tip height h: <s>.dcp/.ccp for the last save height s (or default.* once
// it was renamed) — used before SIGKILL so that the kill variant is
// deterministic. Returns false on timeout (the run is then not judged).
func c23bWaitCkpQuiet(dir string, h uint32) bool {
	root := filepath.Join(dir, "data", "checkpoints")
	want := []string{}
	if h >= 720 {
		s := h / 720 * 720
		want = append(want, filepath.Join(root, "cp_dpos", fmt.Sprintf("%d.dcp", s)), filepath.Join(root, "cp_cr", fmt.Sprintf("%d.ccp", s)))
		if s >= 1440 {
			want = append(want, filepath.Join(root, "cp_dpos", "default.dcp"), filepath.Join(root, "cp_cr", "default.ccp"))
		}
	}
	if h >= 3 {
		want = append(want, filepath.Join(root, "cp_txPool", fmt.Sprintf("%d.txpcp", h)), filepath.Join(root, "cp_txPool", "default.txpcp"))
	}
	deadline := time.Now().Add(10 * time.Second)
	var last string
	stable := 0
	for time.Now().Before(deadline) {
		ok := true
		sig := ""
		for _, w := range want {
			fi, err := os.Stat(w)
			if err != nil || fi.Size() == 0 {
				ok = false
				break
			}
			sig += fmt.Sprintf("%s:%d;", w, fi.Size())
		}
		if ok {
			if sig == last {
				stable++
				if stable >= 5 {
					return true
				}
			} else {
				last, stable = sig, 0
			}
		}
		time.Sleep(10 * time.Millisecond)
	}
	return false
}

// ---------- replay role ----------

func c23bStartNode(p *c23bParams) (*node.Node, error) {
	return node.Start(node.Options{Dir: p.Dir, CoinbaseMaturity: 2, NeedSave: true, Tweak: c23bTweak(p.Era)})
}

func c23bReplay(p *c23bParams) (res *c23bResult) {
	res = &c23bResult{Counters: map[string]int64{}}
	rec, err := c23bReadRecord(p.Rec)
	if err != nil {
		res.Err = "read record: " + err.Error()
		return
	}
	if p.Restart {
		res.CkpFiles = c23bListCkpFiles(p.Dir)
	}
	t0 := time.Now()
	nd, err := c23bStartNode(p)
	if err != nil {
		if p.Restart {
			// the restarted node refuses to come up on the data dir the first process left
			res.Rejected = p.From
			res.RejectErr = "node start: " + err.Error()
			res.Done = true
			return
		}
		res.Err = "node start: " + err.Error()
		return
	}
	res.StartMs = time.Since(t0).Milliseconds()
	closed := false
	defer func() {
		if r := recover(); r != nil {
			res.Err = fmt.Sprintf("panic at height %d: %v", nd.Height(), r)
		}
		res.Height = nd.Height()
		tip := nd.Tip()
		res.Tip = tip.String()
		if !closed && (p.Exit != "kill" || res.Err != "") {
			nd.UnhookEvents()
			nd.Close()
		}
	}()
	if nd.Height() != p.From {
		if p.Restart {
			res.Rejected = p.From
			res.RejectErr = fmt.Sprintf("reopened chain is at height %d, the closed one was at %d", nd.Height(), p.From)
			res.Done = true
			return
		}
		res.Err = fmt.Sprintf("data dir is at height %d, want %d", nd.Height(), p.From)
		return
	}
	snapAt := map[uint32]bool{}
	for _, x := range p.SnapAt {
		snapAt[x] = true
	}
	snap := func(tag string) bool {
		s, err := c23bTakeSnap(nd, tag)
		if err == nil {
			err = c23bSaveSnap(p.SnapDir, s)
		}
		if err != nil {
			res.Err = fmt.Sprintf("snapshot at %d: %v", nd.Height(), err)
			return false
		}
		res.Counters["snapshots"]++
		return true
	}
	if p.Restart {
		nd.SystemTxs() // settle what the restarted node generates for its tip
		if !snap(p.Tag) {
			return
		}
	}
	for x := p.From + 1; x <= p.To; x++ {
		raw, ok := rec.Blocks[x]
		if !ok {
			res.Err = fmt.Sprintf("record has no block %d", x)
			return
		}
		db := &types.DposBlock{}
		if err := db.Deserialize(bytes.NewReader(raw)); err != nil {
			res.Err = fmt.Sprintf("record block %d: %v", x, err)
			return
		}
		var cf *payload.Confirm
		if db.HaveConfirm {
			cf = db.Confirm
		}
		tp := time.Now()
		_, _, perr := nd.ProcessDpos(db.Block, cf)
		res.Counters["ms_process_block"] += time.Since(tp).Milliseconds()
		if tip := nd.Tip(); perr != nil || !tip.IsEqual(db.Block.Hash()) {
			// the node refuses a block that the never-restarted node accepted
			why := fmt.Sprint(perr)
			if prev, ok := nd.Chain.LookupNodeInIndex(&db.Block.Header.Previous); ok {
				if e := nd.Chain.CheckBlockSanity(db.Block); e != nil {
					why += "; sanity: " + e.Error()
				} else if e := nd.Chain.CheckBlockContext(db.Block, prev); e != nil {
					why += "; context: " + e.Error()
				} else if cf != nil {
					if e := blockchain.ConfirmSanityCheck(cf); e != nil {
						why += "; confirm sanity: " + e.Error()
					} else if e := blockchain.ConfirmContextCheck(cf); e != nil {
						why += "; confirm context: " + e.Error()
					}
				}
			}
			res.Rejected = x
			res.RejectErr = why
			res.Done = true
			return
		}
		tp = time.Now()
		nd.PostBlock(db.Block)
		nd.Chain.UTXOCache.CleanTxCache()
		nd.BlockPool.CleanFinalConfirmedBlock(x)
		res.Counters["ms_post_block"] += time.Since(tp).Milliseconds()
		res.Replayed++
		for i, s := range rec.Subs[x] {
			tx, err := c23bTxFromBytes(s.Tx)
			if err != nil {
				res.Err = fmt.Sprintf("record submission %d/%d: %v", x, i, err)
				return
			}
			e := nd.TxPool.AppendToTxPool(tx)
			if (e == nil) != s.Accepted {
				res.SubDiffs = append(res.SubDiffs, fmt.Sprintf("cut %d %s: run A accepted=%v, here: %v", x, tx.TxType().Name(), s.Accepted, e))
			}
			res.Counters["submissions"]++
		}
		tp = time.Now()
		nd.SystemTxs() // settle node-generated txs (same call the miner of run A makes here)
		res.Counters["ms_settle"] += time.Since(tp).Milliseconds()
		if snapAt[x] {
			if !snap(p.Tag) {
				return
			}
		}
	}
	if p.Exit == "kill" {
		// let the asynchronous checkpoint writer finish what a never-killed
		// node would have on disk, flush the block database (its write-back
		// cache is C17's subject, not ours) and die without closing anything.
		if !c23bWaitCkpQuiet(p.Dir, nd.Height()) {
			res.Notes = append(res.Notes, "checkpoint files did not settle before the kill")
		}
		res.CkpFiles = c23bListCkpFiles(p.Dir)
		nd.UnhookEvents()
		nd.Store.Close() // database only; the checkpoint manager is NOT closed
		closed = true
	} else {
		nd.UnhookEvents()
		nd.Close()
		closed = true
		if !p.Restart {
			res.CkpFiles = c23bListCkpFiles(p.Dir)
		}
	}
	res.Done = true
	return
}

// ---------- orchestration (shard process) ----------

type c23bRunner struct {
	c    *kit.Ctx
	self string
	base string
}

func (r *c23bRunner) spawn(p *c23bParams, timeout time.Duration) (*c23bResult, string, error) {
	pb, _ := json.Marshal(p)
	ctx, cancel := context.WithTimeout(context.Background(), timeout)
	defer cancel()
	cmd := exec.CommandContext(ctx, r.self)
	cmd.Env = append(os.Environ(), c23bEnvRole+"="+p.Role, c23bEnvParams+"="+string(pb), "GOMAXPROCS=4", "GOGC=300")
	var stderr bytes.Buffer
	cmd.Stderr = &stderr
	cmd.Stdout = io.Discard
	os.Remove(p.Out)
	err := cmd.Run()
	if ctx.Err() != nil {
		return nil, stderr.String(), fmt.Errorf("watchdog (%v)", timeout)
	}
	b, rerr := os.ReadFile(p.Out)
	if rerr != nil {
		return nil, stderr.String(), fmt.Errorf("no result (exit: %v)", err)
	}
	res := &c23bResult{}
	if jerr := json.Unmarshal(b, res); jerr != nil {
		return nil, stderr.String(), jerr
	}
	return res, stderr.String(), nil
}

// c23bStaleAlias counts differing leaves inside DposV2EffectedProducers values (not judged).
var c23bStaleAlias atomic.Int64

// c23bDiff is one differing leaf between run A and the compared run.
type c23bDiff struct {
	Class string `json:"class"`
	Path  string `json:"path"`
	A     string `json:"continuous"`
	B     string `json:"other"`
}

// c23bCompareState decodes both snapshots and returns differing leaves
// (DPoS checkpoint, CR checkpoint, getters).
func c23bCompareState(a, b *c23bSnap) ([]c23bDiff, error) {
	var out []c23bDiff
	conv := func(prefix string, ds []c21Diff) {
		for _, x := range ds {
			if x.Class == "StateKeyFrame.NeedRevertToDPOSTX" && prefix == "" {
				continue // set by the DPoS network layer, not derived from blocks
			}
			out = append(out, c23bDiff{prefix + x.Class, x.Path, x.A, x.B})
		}
	}
	// (1) the live objects, read by reflection
	out = append(out, c23bLiveDiff("", a.LiveDPoS, b.LiveDPoS)...)
	out = append(out, c23bLiveDiff("cr.", a.LiveCR, b.LiveCR)...)
	liveClasses := map[string]bool{}
	for _, x := range out {
		liveClasses[x.Class] = true
	}
	nLive := len(out)
	// (2) the literal clause: the serialised checkpoints, decoded (classes the
	// live comparison already reports are not repeated)
	var da, db state.CheckPoint
	if err := da.Deserialize(bytes.NewReader(a.DPoS)); err != nil {
		return nil, fmt.Errorf("decode dpos checkpoint of %s@%d: %v", a.Tag, a.Height, err)
	}
	if err := db.Deserialize(bytes.NewReader(b.DPoS)); err != nil {
		return nil, fmt.Errorf("decode dpos checkpoint of %s@%d: %v", b.Tag, b.Height, err)
	}
	// StateKeyFrame.DposV2EffectedProducers: the node only ever reads the KEY
	// SET of this map (len() for isDposV2Active, insert/delete by owner key).
	// On a live node its values alias the producers of ActivityProducers; a
	// deserialised checkpoint holds separate copies which then go stale. The
	// values are therefore not state: compare the keys, count the stale copies.
	ea, eb := da.StateKeyFrame.DposV2EffectedProducers, db.StateKeyFrame.DposV2EffectedProducers
	for k := range ea {
		if _, ok := eb[k]; !ok {
			out = append(out, c23bDiff{"StateKeyFrame.DposV2EffectedProducers", "StateKeyFrame.DposV2EffectedProducers[" + k + "]", "present", "<absent>"})
		}
	}
	for k := range eb {
		if _, ok := ea[k]; !ok {
			out = append(out, c23bDiff{"StateKeyFrame.DposV2EffectedProducers", "StateKeyFrame.DposV2EffectedProducers[" + k + "]", "<absent>", "present"})
		}
	}
	{
		ds := &c21Differ{limit: 50}
		ds.walk(reflect.ValueOf(ea), reflect.ValueOf(eb), "StateKeyFrame.DposV2EffectedProducers", "")
		c23bStaleAlias.Add(int64(len(ds.out)))
	}
	da.StateKeyFrame.DposV2EffectedProducers, db.StateKeyFrame.DposV2EffectedProducers = nil, nil
	d := &c21Differ{limit: 300}
	d.walk(reflect.ValueOf(&da).Elem(), reflect.ValueOf(&db).Elem(), "CheckPoint", "")
	conv("", d.out)
	var ca, cb crstate.Checkpoint
	if err := ca.Deserialize(bytes.NewReader(a.CR)); err != nil {
		return nil, fmt.Errorf("decode cr checkpoint of %s@%d: %v", a.Tag, a.Height, err)
	}
	if err := cb.Deserialize(bytes.NewReader(b.CR)); err != nil {
		return nil, fmt.Errorf("decode cr checkpoint of %s@%d: %v", b.Tag, b.Height, err)
	}
	d = &c21Differ{limit: 300}
	d.walk(reflect.ValueOf(&ca).Elem(), reflect.ValueOf(&cb).Elem(), "Checkpoint", "")
	conv("cr.", d.out)
	{
		kept := out[:nLive]
		for _, x := range out[nLive:] {
			if !liveClasses[x.Class] {
				kept = append(kept, x)
			}
		}
		out = kept
	}
	// the getters read the live objects: they do not pass through the
	// Deserialize code that decodes the two checkpoints above (a field that
	// Deserialize drops is dropped on both sides there), and they cover the
	// state outside the checkpoints (degradation, consensus mode)
	// A getter that is a view of a checkpoint half which already differs adds no
	// information (and would multiply the signatures of one divergence): the
	// CR* getters are views of the CR checkpoint, the others of the DPoS one.
	dposDiffers, crDiffers := false, false
	for _, x := range out {
		if strings.HasPrefix(x.Class, "cr.") {
			crDiffers = true
		} else {
			dposDiffers = true
		}
	}
	d = &c21Differ{limit: 100}
	d.walk(reflect.ValueOf(&a.G).Elem(), reflect.ValueOf(&b.G).Elem(), "Getter", "")
	for _, x := range d.out {
		cl := strings.Replace(x.Class, "c23bGetters.", "Getter.", 1)
		if isCR := strings.HasPrefix(cl, "Getter.CR"); (isCR && crDiffers) || (!isCR && dposDiffers) {
			continue
		}
		out = append(out, c23bDiff{cl, x.Path, x.A, x.B})
	}
	if a.Tip != b.Tip {
		out = append(out, c23bDiff{"Chain.Tip", "tip", a.Tip, b.Tip})
	}
	return out, nil
}

// c23bLeafCount counts the populated leaves of a snapshot's two checkpoints
// (non-vacuity: how much state was actually compared).
func c23bLeafCount(s *c23bSnap) (dposLeaves, crLeaves int, classes map[string]bool) {
	classes = map[string]bool{}
	var count func(v reflect.Value, class string, n *int)
	count = func(v reflect.Value, class string, n *int) {
		switch v.Kind() {
		case reflect.Ptr, reflect.Interface:
			if !v.IsNil() {
				count(v.Elem(), class, n)
			}
		case reflect.Struct:
			t := v.Type()
			for i := 0; i < t.NumField(); i++ {
				f := t.Field(i)
				if f.Type.Kind() == reflect.Func || f.Type.Kind() == reflect.Chan || f.Name == "mtx" || f.Name == "arbitrators" || f.Name == "committee" {
					continue
				}
				cl := t.Name() + "." + f.Name
				if f.Anonymous {
					cl = class
				}
				count(v.Field(i), cl, n)
			}
		case reflect.Map:
			for _, k := range v.MapKeys() {
				*n++
				classes[class] = true
				count(v.MapIndex(k), class, n)
			}
		case reflect.Slice, reflect.Array:
			if isByteSeq(v.Type()) {
				if v.Len() > 0 {
					*n++
					classes[class] = true
				}
				return
			}
			for i := 0; i < v.Len(); i++ {
				count(v.Index(i), class, n)
			}
		default:
			if !v.IsZero() {
				*n++
				classes[class] = true
			}
		}
	}
	var d state.CheckPoint
	if d.Deserialize(bytes.NewReader(s.DPoS)) == nil {
		count(reflect.ValueOf(&d).Elem(), "CheckPoint", &dposLeaves)
	}
	var c crstate.Checkpoint
	if c.Deserialize(bytes.NewReader(s.CR)) == nil {
		n := 0
		cl2 := map[string]bool{}
		old := classes
		classes = cl2
		count(reflect.ValueOf(&c).Elem(), "Checkpoint", &n)
		crLeaves = n
		classes = old
		for k := range cl2 {
			classes["cr."+k] = true
		}
	}
	return
}

func poolCanonSet(s *c23bSnap) map[string]c23bPoolTx {
	m := map[string]c23bPoolTx{}
	for _, t := range s.Pool {
		m[t.Canon] = t
	}
	return m
}

func c23bRestorePoints(c *kit.Ctx, bi int, bootEnd, H uint32) (pts []uint32, kills map[uint32]bool) {
	r := c.Rand("c23b-points")
	kills = map[uint32]bool{}
	lo := bootEnd + 3
	add := func(h uint32) {
		if h < lo || h+2 > H {
			return
		}
		for _, x := range pts {
			if x == h {
				return
			}
		}
		pts = append(pts, h)
	}
	offs := []int{-5, -1, 0, 1, 5}
	rnd := func(a, b uint32) uint32 {
		if b <= a {
			return a
		}
		return a + uint32(r.Intn(int(b-a)))
	}
	if c.Quick() {
		// every shard: a point at/after the second save height (restore from
		// the file + replay of 720.. blocks), one just before a save height
		// (full replay), a random one of each kind, and a killed one
		add(uint32(1440 + []int{0, 1, 5}[bi%3]))
		add(uint32([]int{1439, 1435, 720, 721, 719, 725}[bi%6]))
		add(rnd(1442, H-2))
		add(rnd(lo, 1439))
		k := uint32(1440 + []int{0, 1, 5}[(bi+1)%3])
		add(k)
		kills[k] = true
	} else {
		for s := uint32(720); s+2 < H; s += 720 {
			for _, o := range offs {
				add(uint32(int(s) + o))
			}
		}
		for i := 0; i < 2; i++ {
			add(rnd(lo, 720))
			add(rnd(721, 1440))
		}
		for i := 0; i < 4; i++ {
			add(rnd(1441, H-2))
		}
		for i := 0; i < 2; i++ {
			k := rnd(1440, H-2)
			if i == 0 {
				k = uint32(1440 + offs[bi%5])
			}
			add(k)
			kills[k] = true
		}
	}
	sort.Slice(pts, func(i, j int) bool { return pts[i] < pts[j] })
	return
}

func c23bSnapHeights(pts []uint32, bootEnd, H uint32) []uint32 {
	set := map[uint32]bool{H: true, c23bS1: true, c23bS2: true}
	for _, p := range pts {
		for _, d := range []uint32{0, 1, 2, 5, 12} {
			if p+d <= H {
				set[p+d] = true
			}
		}
	}
	for x := bootEnd + 1; x <= H; x += 173 {
		set[x] = true
	}
	var out []uint32
	for x := range set {
		if x > bootEnd {
			out = append(out, x)
		}
	}
	sort.Slice(out, func(i, j int) bool { return out[i] < out[j] })
	return out
}

// c23Restart is workload B. bi = index among the workload-B shards, nb = their number.
func c23Restart(c *kit.Ctx, bi, nb int) {
	self, err := os.Executable()
	if err != nil {
		c.Inconclusive("os.Executable: %v", err)
		return
	}
	r := &c23bRunner{c: c, self: self, base: c.WorkDir}
	era := "dposv2-era"
	if bi%2 == 1 {
		era = "dpos-era"
	}
	rr := c.Rand("c23b-hist")
	seed := rr.Int63()
	H := uint32(1462 + rr.Intn(24))
	if !c.Quick() && bi%4 >= 2 {
		H = uint32(2200 + rr.Intn(40)) // crosses the third save height: default.* then holds the state of height 1440
	}
	snapDir := filepath.Join(c.WorkDir, "snaps")
	os.MkdirAll(snapDir, 0755)
	recFile := filepath.Join(c.WorkDir, "history.rec")
	// watchdog of one sub-process (a hang makes the run inconclusive, nothing else);
	// generous: the machine may be shared
	long := 20 * time.Minute
	if !c.Quick() {
		long = 40 * time.Minute
	}

	// the restore points depend on where the bootstrap ends, which is a
	// constant of the era; a first short probe is avoided by over-approximating
	bootEnd := c23bBootEnd(era)
	pts, kills := c23bRestorePoints(c, bi, bootEnd, H)
	snapAt := c23bSnapHeights(pts, bootEnd, H)

	// ---- run A (continuous) and its determinism twin A2, concurrently ----
	type recOut struct {
		res    *c23bResult
		stderr string
		err    error
	}
	runRec := func(tag string, ch chan recOut) {
		p := &c23bParams{Role: "record", Dir: filepath.Join(c.WorkDir, "node-"+tag), Era: era, Seed: seed, H: H,
			Rec: filepath.Join(c.WorkDir, "history-"+tag+".rec"), Out: filepath.Join(c.WorkDir, "out-"+tag+".json"), SnapDir: snapDir, Tag: tag, SnapAt: snapAt,
			Trace: os.Getenv("C23B_TRACE")}
		os.MkdirAll(p.Dir, 0755)
		res, se, err := r.spawn(p, long)
		ch <- recOut{res, se, err}
	}
	// the determinism twin: every history in the thorough tier, one history per era in the quick tier
	twin := !c.Quick() || bi == 0 || bi == 1
	var oa, oa2 recOut
	// A seeded history can run into a dead end of the compressed era (with 7
	// arbiters and MaxInactiveRounds 8 a change of the arbiter order can make
	// honest council members inactive and leave the chain without a confirming
	// majority); the next seed is then used — still a function of VERIF_SEED.
	for attempt := 0; ; attempt++ {
		chA, chA2 := make(chan recOut, 1), make(chan recOut, 1)
		c.Begin("B shard %d: record run A (era %s seed %d H %d)", bi, era, seed, H)
		go runRec("A", chA)
		if twin {
			go runRec("A2", chA2)
		} else {
			chA2 <- recOut{}
		}
		oa, oa2 = <-chA, <-chA2
		if !twin {
			oa2 = oa
		}
		failed := ""
		for _, o := range []recOut{oa, oa2} {
			if o.err != nil || o.res == nil || o.res.Err != "" || !o.res.Done {
				failed = fmt.Sprint(o.err)
				if o.res != nil {
					failed = o.res.Err
				}
				failed += " " + c23bTail(o.stderr, 600)
			}
		}
		if failed == "" {
			break
		}
		os.RemoveAll(filepath.Join(c.WorkDir, "node-A"))
		os.RemoveAll(filepath.Join(c.WorkDir, "node-A2"))
		if attempt == 2 || !strings.Contains(failed, "signers less than majority count") {
			c.Inconclusive("B shard %d (%s seed %d): continuous run failed: %s", bi, era, seed, failed)
			return
		}
		c.Inc("b_history_dead_ends_reseeded")
		c.Note("B shard %d: history %s seed %d is a dead end (%s); using seed %d", bi, era, seed, c23bTail(failed, 200), seed+1)
		seed++
	}
	A, A2 := oa.res, oa2.res
	os.Rename(filepath.Join(c.WorkDir, "history-A.rec"), recFile)
	os.RemoveAll(filepath.Join(c.WorkDir, "node-A"))
	os.RemoveAll(filepath.Join(c.WorkDir, "node-A2"))
	if A.BootEnd > bootEnd {
		c.Inconclusive("B shard %d: bootstrap of %s ended at %d, later than the assumed %d", bi, era, A.BootEnd, bootEnd)
		return
	}
	c.Inc("b_histories")
	c.Inc("b_histories:" + era)
	c.Count("b_history_blocks", int64(A.Height))
	for k, v := range A.Counters {
		c.Count("hist:"+k, v)
	}
	for _, n := range A.Notes {
		c.Note("B shard %d run A: %s", bi, n)
	}
	c.Sample(map[string]interface{}{"workload": "B", "era": era, "history_seed": fmt.Sprint(seed), "H": H, "tip": A.Tip, "restore_points": pts, "kill_points": kills, "history_counters": A.Counters})

	// determinism control: identical block hashes and identical snapshots
	detOK := A.Tip == A2.Tip && len(A.Hashes) == len(A2.Hashes)
	if detOK {
		for i := range A.Hashes {
			if A.Hashes[i] != A2.Hashes[i] {
				detOK = false
				c.Note("B shard %d: determinism control: block %d differs between two continuous runs", bi, i)
				break
			}
		}
	}
	loadA := map[uint32]*c23bSnap{}
	detWhy := ""
	for _, x := range snapAt {
		sa, e1 := c23bLoadSnap(snapDir, "A", x)
		if !twin {
			if e1 != nil {
				c.Inconclusive("B shard %d: missing continuous-run snapshot at %d: %v", bi, x, e1)
				return
			}
			loadA[x] = sa
			continue
		}
		sb, e2 := c23bLoadSnap(snapDir, "A2", x)
		if e1 != nil || e2 != nil {
			c.Inconclusive("B shard %d: missing continuous-run snapshot at %d: %v %v", bi, x, e1, e2)
			return
		}
		loadA[x] = sa
		ds, err := c23bCompareState(sa, sb)
		if err != nil {
			c.Inconclusive("B shard %d: %v", bi, err)
			return
		}
		pa, pb := poolCanonSet(sa), poolCanonSet(sb)
		for k := range pa {
			if _, ok := pb[k]; !ok {
				ds = append(ds, c23bDiff{"Pool", k, "present", "absent"})
			}
		}
		for k := range pb {
			if _, ok := pa[k]; !ok {
				ds = append(ds, c23bDiff{"Pool", k, "absent", "present"})
			}
		}
		if len(ds) > 0 {
			detOK = false
			if detWhy == "" {
				detWhy = fmt.Sprintf("cut %d: %s %s: %s vs %s (%d leaves)", x, ds[0].Class, ds[0].Path, ds[0].A, ds[0].B, len(ds))
			}
			c.Note("B shard %d: determinism control: two continuous runs differ at cut %d: %s %s: %s vs %s (%d leaves)", bi, x, ds[0].Class, ds[0].Path, ds[0].A, ds[0].B, len(ds))
		}
		c.Inc("b_determinism_cuts_compared")
	}
	if !detOK {
		c.Inconclusive("B shard %d (%s seed %d): two continuous runs of the same seeded history disagree (%s); the twin oracle is not usable", bi, era, seed, detWhy)
		return
	}
	if twin {
		c.Inc("b_determinism_control_ok")
	}
	// how much state is being compared
	{
		dl, cl, cls := c23bLeafCount(loadA[H])
		c.Max("max:b_dpos_leaves_at_H", int64(dl))
		c.Max("max:b_cr_leaves_at_H", int64(cl))
		c.Max("max:b_populated_field_classes", int64(len(cls)))
		for k := range cls {
			c.Inc("b_field_populated:" + k)
		}
		for _, sv := range []uint32{c23bS1, c23bS2} {
			if sn, ok := loadA[sv]; ok && c23bNextCRCDiffers(sn) {
				c.Inc("b_save_heights_with_next_crc_differing")
			}
		}
		if s720, ok := loadA[720]; ok {
			dl, cl, _ := c23bLeafCount(s720)
			c.Max("max:b_dpos_leaves_at_720", int64(dl))
			c.Max("max:b_cr_leaves_at_720", int64(cl))
			if len(s720.G.V2RealWithdrawPending) > 0 {
				c.Inc("b_control_pending_v2_reward_withdraw_at_save_height")
			}
			if len(s720.G.V2VotesWithdrawPending) > 0 {
				c.Inc("b_control_pending_votes_withdraw_at_save_height")
			}
			if len(s720.G.CRRealWithdrawPending) > 0 {
				c.Inc("b_control_pending_cr_withdraw_at_save_height")
			}
			if len(s720.Pool) > 0 {
				c.Inc("b_control_nonempty_pool_at_save_height")
			}
		}
	}

	// ---- control: the record fed to a fresh node without restart ----
	var plMu sync.Mutex
	poolLost := map[uint32]bool{} // restore height -> the restart lost pool transactions
	judge := func(label string, h uint32, kill bool, from uint32, tag string, lostWindow map[string]bool, restoredPoolExpected map[string]c23bPoolTx) (compared int, diverged bool) {
		sigSeen := map[string]bool{}
		lostAny := false
		for _, x := range snapAt {
			if x < from {
				continue
			}
			sb, err := c23bLoadSnap(snapDir, tag, x)
			if err != nil {
				continue // run stopped before (rejected block: reported by the caller)
			}
			sa := loadA[x]
			ds, err := c23bCompareState(sa, sb)
			if err != nil {
				c.Inconclusive("%s: %v", label, err)
				return
			}
			compared++
			c.Inc("b_cuts_compared")
			if x == from && from > 0 {
				c.Inc("b_cuts_compared_at_restart")
			}
			byClass := map[string]c23bDiff{}
			n := map[string]int{}
			for _, d := range ds {
				if _, ok := byClass[d.Class]; !ok {
					byClass[d.Class] = d
				}
				n[d.Class]++
			}
			var classes []string
			for k := range byClass {
				classes = append(classes, k)
			}
			sort.Strings(classes)
			for _, cl := range classes {
				diverged = true
				sig := "restart-diff:" + cl
				if from == 0 {
					sig = "feed-diff:" + cl
				}
				if sigSeen[sig] {
					continue
				}
				sigSeen[sig] = true
				d := byClass[cl]
				cas := map[string]interface{}{"era": era, "history_seed": fmt.Sprint(seed), "H": H, "restore_height": h, "kill": kill, "first_seen_at_cut": x, "path": d.Path,
					"continuous": d.A, "restarted": d.B, "leaves_in_class": n[cl], "all_classes_at_this_cut": classes}
				if from == 0 {
					c.Inconclusive("%s: a node FED the recorded blocks differs from the node that mined them at cut %d: %s %s: %s vs %s", label, x, cl, d.Path, d.A, d.B)
				} else {
					c.Violate(sig, fmt.Sprintf("%s: restarted at height %d, at cut %d %s (%s) is %s but %s on the node that never restarted", label, h, x, cl, d.Path, d.B, d.A), cas)
				}
			}
			// pool
			pa, pb := poolCanonSet(sa), poolCanonSet(sb)
			exp := map[string]c23bPoolTx{}
			if x == from && restoredPoolExpected != nil {
				// right after the restart: what the checkpoint held and run A still holds
				for k, t := range restoredPoolExpected {
					if _, ok := pa[k]; ok {
						exp[k] = t
					}
				}
			} else {
				for k, t := range pa {
					if !lostWindow[k] {
						exp[k] = t
					}
				}
			}
			for k, t := range exp {
				if _, ok := pb[k]; !ok && strings.HasSuffix(k, "{node-generated}") {
					// the node re-creates these from its request maps (asynchronously, at
					// the next block at the latest); the maps themselves are compared above
					c.Inc("b_pool_node_generated_tx_missing_not_judged")
					continue
				}
				if _, ok := pb[k]; !ok {
					diverged = true
					sig := "restart:txpool-lost:state-dependent-tx"
					if t.Type == "TransferAsset" {
						sig = "restart:txpool-lost:TransferAsset"
					}
					if from > 0 {
						lostAny = true
						plMu.Lock()
						poolLost[h] = true
						plMu.Unlock()
					}
					if from == 0 {
						c.Inconclusive("%s: fed node lacks pool tx %s at cut %d", label, k, x)
						continue
					}
					if !sigSeen[sig] {
						sigSeen[sig] = true
						c.Violate(sig, fmt.Sprintf("%s: restarted at height %d: a %s transaction that the tx-pool checkpoint held and the never-restarted node still holds at cut %d is missing from the pool", label, h, t.Type, x),
							map[string]interface{}{"era": era, "history_seed": fmt.Sprint(seed), "H": H, "restore_height": h, "kill": kill, "cut": x, "tx": t})
					}
				} else {
					c.Inc("b_pool_txs_matched")
					if x == from && from > 0 {
						c.Inc("b_pool_txs_restored_from_checkpoint")
						c.Inc("b_pool_restored:" + t.Type)
					}
				}
			}
			for k, t := range pb {
				if _, ok := pa[k]; !ok && strings.HasSuffix(k, "{node-generated}") {
					c.Inc("b_pool_node_generated_tx_extra_not_judged")
					continue
				}
				if _, ok := pa[k]; !ok && lostAny {
					// accepted only because a lost transaction freed its conflict slot: derived
					c.Inc("b_pool_extra_tx_after_pool_loss_not_judged")
					continue
				}
				if _, ok := pa[k]; !ok {
					diverged = true
					sig := "restart:txpool-extra:" + t.Type
					if from == 0 {
						c.Inconclusive("%s: fed node holds extra pool tx %s at cut %d", label, k, x)
						continue
					}
					if !sigSeen[sig] {
						sigSeen[sig] = true
						c.Violate(sig, fmt.Sprintf("%s: restarted at height %d: the pool holds a %s transaction at cut %d that the never-restarted node does not hold", label, h, t.Type, x),
							map[string]interface{}{"era": era, "history_seed": fmt.Sprint(seed), "H": H, "restore_height": h, "kill": kill, "cut": x, "tx": t})
					}
				}
			}
			// internal consistency of the restored pool: fee list == transactions
			fl := map[string]bool{}
			for _, hsh := range sb.FeeList {
				fl[hsh] = true
			}
			bad := len(fl) != len(sb.Pool)
			for _, t := range sb.Pool {
				if !fl[t.Hash] {
					bad = true
				}
			}
			if bad && from > 0 {
				diverged = true
				if sig := "restart:txpool-feelist-inconsistent"; !sigSeen[sig] {
					sigSeen[sig] = true
					c.Violate(sig, fmt.Sprintf("%s: restarted at height %d: at cut %d the fee-ordered list of the pool names %d transactions, the pool holds %d", label, h, x, len(sb.FeeList), len(sb.Pool)),
						map[string]interface{}{"era": era, "history_seed": fmt.Sprint(seed), "H": H, "restore_height": h, "kill": kill, "cut": x, "fee_list": sb.FeeList, "pool": sb.Pool})
				}
			} else if bad {
				c.Inc("b_feelist_inconsistent_without_restart")
			}
		}
		return
	}

	runControl := func() {
		c.Begin("B shard %d: control (record fed to a fresh node, no restart)", bi)
		p := &c23bParams{Role: "replay", Dir: filepath.Join(c.WorkDir, "node-C"), Era: era, H: H, Rec: recFile, Out: filepath.Join(c.WorkDir, "out-C.json"),
			SnapDir: snapDir, Tag: "C", SnapAt: snapAt, From: 0, To: H, Exit: "close"}
		os.MkdirAll(p.Dir, 0755)
		res, se, err := r.spawn(p, long)
		os.RemoveAll(p.Dir)
		if err != nil || res == nil || res.Err != "" || !res.Done || res.Rejected != 0 {
			msg := fmt.Sprint(err)
			if res != nil {
				msg = fmt.Sprintf("%s rejected=%d %s", res.Err, res.Rejected, res.RejectErr)
			}
			c.Inconclusive("B shard %d (%s seed %d): feeding the record to a fresh node failed: %s %s", bi, era, seed, msg, c23bTail(se, 600))
			return
		}
		if len(res.SubDiffs) > 0 {
			c.Inconclusive("B shard %d: fed node judges submissions differently: %v", bi, res.SubDiffs[0])
			return
		}
		n, div := judge(fmt.Sprintf("control %s seed %d", era, seed), 0, false, 0, "C", map[string]bool{}, nil)
		if div {
			return
		}
		c.Count("b_feed_control_cuts_equal", int64(n))
		c.Inc("b_feed_control_ok")
	}

	// ---- restore points ----
	poolAt := func(cut uint32) map[string]bool {
		m := map[string]bool{}
		for _, hsh := range strings.Fields(A.PoolAt[cut]) {
			m[hsh] = true
		}
		return m
	}
	runPoint := func(h uint32) {
		kill := kills[h]
		label := fmt.Sprintf("%s seed %d restore@%d", era, seed, h)
		exit := "close"
		if kill {
			label += " (SIGKILL)"
			exit = "kill"
		}
		c.Begin("B shard %d: %s", bi, label)
		dir := filepath.Join(c.WorkDir, fmt.Sprintf("node-B-%d", h))
		os.MkdirAll(dir, 0755)
		tag := fmt.Sprintf("B%d", h)
		p1 := &c23bParams{Role: "replay", Dir: dir, Era: era, H: H, Rec: recFile, Out: filepath.Join(c.WorkDir, fmt.Sprintf("out-B1-%d.json", h)), SnapDir: snapDir, Tag: tag + "pre", From: 0, To: h, Exit: exit}
		res1, se, err := r.spawn(p1, long)
		if err != nil || res1 == nil || res1.Err != "" || !res1.Done || res1.Rejected != 0 {
			msg := fmt.Sprint(err)
			if res1 != nil {
				msg = fmt.Sprintf("%s rejected=%d %s", res1.Err, res1.Rejected, res1.RejectErr)
			}
			c.Inconclusive("B %s: first process failed: %s %s", label, msg, c23bTail(se, 600))
			os.RemoveAll(dir)
			return
		}
		if kill {
			c.Inc("b_killed_processes")
		} else {
			c.Inc("b_clean_closes")
		}
		p2 := &c23bParams{Role: "replay", Dir: dir, Era: era, H: H, Rec: recFile, Out: filepath.Join(c.WorkDir, fmt.Sprintf("out-B2-%d.json", h)), SnapDir: snapDir, Tag: tag, SnapAt: snapAt, From: h, To: H, Restart: true, Exit: "close"}
		res2, se, err := r.spawn(p2, long)
		os.RemoveAll(dir)
		if err != nil || res2 == nil || res2.Err != "" || !res2.Done {
			msg := fmt.Sprint(err)
			if res2 != nil {
				msg = res2.Err
			}
			c.Inconclusive("B %s: restarted process failed: %s %s", label, msg, c23bTail(se, 600))
			return
		}
		c.Inc("b_restore_points")
		hasDefault := false
		for _, f := range res2.CkpFiles {
			if strings.HasPrefix(f, "cp_dpos/default.dcp") {
				hasDefault = true
			}
		}
		if hasDefault {
			// the file that is "default" at h was saved at the save height one period back
			if sv := (h/720 - 1) * 720; sv >= 720 {
				if sn, ok := loadA[sv]; ok && c23bNextCRCDiffers(sn) {
					c.Inc("b_restore_points_with_next_crc_differing")
				}
			}
			c.Inc("b_restores_from_dpos_file")
		} else {
			c.Inc("b_restores_by_full_replay")
		}
		c.Count("b_blocks_fed_after_restart", int64(res2.Replayed))
		c.Max("max:b_restart_ms", res2.StartMs)
		cas := map[string]interface{}{"era": era, "history_seed": fmt.Sprint(seed), "H": H, "restore_height": h, "kill": kill, "checkpoint_files_at_restart": res2.CkpFiles}
		if res2.Rejected != 0 {
			sym := "restart:block-rejected"
			if res2.Rejected == h {
				sym = "restart:node-does-not-reopen"
			}
			cas["rejected_height"] = res2.Rejected
			cas["error"] = res2.RejectErr
			c.Violate(sym, fmt.Sprintf("%s: the restarted node refuses block %d that the never-restarted node accepted: %s", label, res2.Rejected, res2.RejectErr), cas)
		}
		// pool oracle: the checkpoint that is "default" at cut h was taken while
		// block h-1 was saved = pool of cut h-2. Transactions that entered run A's
		// pool later were never checkpointed: not judged, counted.
		ckp := poolAt(h - 2)
		nowA := poolCanonSet(loadA[h])
		expected := map[string]c23bPoolTx{}
		lost := map[string]bool{}
		for k, t := range nowA {
			if ckp[t.Hash[:16]] {
				expected[k] = t
			} else {
				lost[k] = true
				c.Inc("b_pool_txs_newer_than_checkpoint")
			}
		}
		c.Count("b_pool_txs_expected_from_checkpoint", int64(len(expected)))
		n, div := judge(label, h, kill, h, tag, lost, expected)
		if len(res2.SubDiffs) > 0 {
			if poolLost[h] {
				// a transaction the pool lost at the restart no longer occupies its
				// conflict slot: later submissions are then judged differently. Derived.
				c.Inc("b_mempool_acceptance_differs_after_pool_loss_not_judged")
			} else {
				cas["submissions"] = res2.SubDiffs
				c.Violate("restart:mempool-acceptance-differs", fmt.Sprintf("%s: after the restart the mempool judges %d submitted transaction(s) differently: %s", label, len(res2.SubDiffs), res2.SubDiffs[0]), cas)
			}
		}
		c.Count("b_cuts_compared_after_restart", int64(n))
		c.Case(fmt.Sprintf("B/%s/%d/%d/%v", era, seed, h, kill), n > 0)
		if !div && res2.Rejected == 0 {
			c.Inc("b_restore_points_equal")
		}
		for _, x := range snapAt {
			os.Remove(c23bSnapPath(snapDir, tag, x))
		}
	}
	// the control and the restore points are independent sub-process pairs
	jobs := []func(){runControl}
	for _, h := range pts {
		h := h
		jobs = append(jobs, func() { runPoint(h) })
	}
	workers := 3
	if c.Quick() {
		workers = 4
	}
	if v := os.Getenv("C23B_WORKERS"); v != "" {
		fmt.Sscan(v, &workers)
	}
	sem := make(chan struct{}, workers)
	var wg sync.WaitGroup
	for _, j := range jobs {
		wg.Add(1)
		sem <- struct{}{}
		go func(j func()) {
			defer wg.Done()
			defer func() { <-sem }()
			j()
		}(j)
	}
	wg.Wait()
	c.Count("b_stale_alias_leaves_in_DposV2EffectedProducers_not_judged", c23bStaleAlias.Load())
	c.Inc("b_shards_done")
}

func c23bTail(s string, n int) string {
	if len(s) > n {
		return "..." + s[len(s)-n:]
	}
	return s
}

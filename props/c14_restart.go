package props

// C14 — restarts inside the history.
//
// The shared generator (props/hist_utxo.go) keeps one node open for the whole
// history. Several index structures, however, have state that exists only in
// the running process (the tx cache in front of the tx index, the tx index's
// block-id counter, the index tips) and is recomputed from the database by
// Indexer.Init when the node starts. A history that never restarts therefore
// never observes whether what the indexers WROTE is enough to come back to the
// same views, nor does it ever read a transaction through the database path
// while its cache entry would still exist.
//
// This driver runs the same step mix as hist.run and adds
//   - a restart (clean close, node.Start on the same directory) after a step
//     that reorganised the chain (quick tier: probability 1/8) or after any
//     other step (1/80), and one at the very end after the final flush;
//   - directed episodes: the last d=1..5 blocks are replaced by a branch that
//     is e=1..3 blocks longer (delivered in order or children first), the node
//     is restarted right after the reorganisation (or in the middle of the
//     branch, right after the block that triggered it), then 1..d+2 blocks are
//     mined whose transactions prefer outputs created around the fork point
//     (blocks fork-3 .. tip).
// After every restart the full comparison of props/c14.go runs (kind
// "restart*"), and it keeps running after every later step, now on a node
// whose caches only know the blocks connected since the restart.
//
// What the node forgets at a restart (read from blockchain.initChainState and
// BlockChain.connectBestChain): side-chain blocks live in an in-memory cache,
// orphans in an in-memory pool, the mempool is not persisted (NeedSave=false);
// disconnected blocks lose their block-index row. The model is told so:
// everything that is not on the active chain becomes "built, not delivered"
// again and part of it is queued for redelivery.

import (
	"fmt"
	"math/rand"

	"github.com/elastos/Elastos.ELA/blockchain"
	"github.com/elastos/Elastos.ELA/common"
	"github.com/elastos/Elastos.ELA/elanet/netsync"

	"verif/kit"
	"verif/kit/node"
)

// c14StStale: a model block that the re-opened node still lists in its block
// index (it was on the active chain once) or that descends from such a block.
// hist.deliver, hist.sideTips and hist.modelDeliver treat any state they do not
// know as "not deliverable / not a known parent".
const c14StStale = 9

type c14Driver struct {
	c *kit.Ctx
	h *hist
	r *rand.Rand // restart decisions and episode shapes only; the history itself draws from h.r

	restarts  int
	panicked  bool
	preBlocks map[common.Uint256]bool // active chain at the last restart
}

func newC14Driver(c *kit.Ctx, h *hist) *c14Driver {
	return &c14Driver{c: c, h: h, r: c.Rand("c14-restart")}
}

// restart closes the node and re-opens it on the same data directory.
// why: "reorg" | "random" | "episode" | "final". depth = depth of the
// reorganisation the restart follows (0 = none).
func (d *c14Driver) restart(why string, depth, longer int) bool {
	h, c := d.h, d.c
	if h.stopped {
		return false
	}
	old := h.nd
	tip0, height0 := old.Tip(), old.Height()
	c.Begin("step %d restart (%s) at height %d", h.stepNo, why, height0)
	c.Count("pool_txs_dropped_by_restart", int64(len(old.TxPool.GetTxsInPool())))
	old.Close()
	// ChainStore.Close leaves the legacy LevelDB ("data/chain", small cross-chain
	// transfer records only) open and with it its file lock; a process exit
	// releases it, an in-process re-open has to do it explicitly.
	old.Store.CloseLeveldb()
	// same options as newHist
	nd, err := node.Start(node.Options{Dir: c.WorkDir, CoinbaseMaturity: 3})
	if err != nil {
		c.Inconclusive("step %d: the node does not re-open on its own data directory after a clean close at height %d (restart #%d, %s): %v", h.stepNo, height0, d.restarts+1, why, err)
		h.stopped = true
		return false
	}
	h.nd = nd
	if h.mode == hModeNetsync {
		h.sm = netsync.New(&netsync.Config{PeerNotifier: hNopNotifier{}, Chain: nd.Chain, ChainParams: nd.Cfg,
			TxMemPool: nd.TxPool, BlockMemPool: nd.BlockPool, MaxPeers: 8})
	}
	h.touched = true
	d.restarts++
	c.Inc("restarts")
	c.Inc("restarts_" + why)
	switch {
	case depth > 0:
		c.Inc("restarts_after_reorg")
		c.Inc(fmt.Sprintf("restarts_after_reorg_depth_%d", depth))
		c.Inc(fmt.Sprintf("restarts_after_reorg_longer_by_%d", longer))
		c.Max("max:restart_after_reorg_depth", int64(depth))
	case why != "final":
		c.Inc("restarts_random_point")
	}
	if tip1 := nd.Tip(); tip1 != tip0 || nd.Height() != height0 {
		// not a statement about the views: the node came back on another chain
		h.desync("restart #%d (%s): closed at height %d tip %s, re-opened at height %d tip %s", d.restarts, why, height0, tip0.String()[:12], nd.Height(), tip1.String()[:12])
		return false
	}
	if im := blockchain.VerifIndexManager(nd.Store.GetFFLDB()); im != nil && im.VerifTxCacheLen() == 0 {
		c.Inc("restart_txcache_empty") // every lookup of a historic tx now goes through the database
	}
	if len(nd.TxPool.GetTxsInPool()) != 0 {
		c.Inc("restart_pool_not_empty")
	}
	// The model forgets what the node forgot. Blocks that were never connected
	// (side-chain cache, orphan pool) are gone: they can arrive again. Blocks
	// that were connected once and disconnected later keep their block-index
	// row (BlockChain.disconnectBlock does not remove it), so the re-opened
	// node answers "already have block" for them although their data is not
	// in its side-chain cache any more; the node itself is asked which ones
	// these are. Neither they nor their descendants are delivered again: what
	// a node does with a branch that grows on such a block is a question
	// about reorganisations after a restart (C12/C23), not about the views.
	var forgotten []*hBlock
	for _, b := range h.order { // build order: parents first
		if b.height == 0 || h.onActive(b) || b.adv != "" {
			continue
		}
		if b.state == c14StStale {
			continue
		}
		if p := h.blocks[b.parent]; p != nil && p.state == c14StStale {
			b.state = c14StStale
			c.Inc("restart_descendant_of_stale_block_retired")
			continue
		}
		if b.state != stOrphan && b.state != stKnown {
			continue
		}
		was := b.state
		hash := b.hash
		if nd.Chain.BlockExists(&hash) {
			b.state = c14StStale
			c.Inc("restart_stale_index_entry_of_disconnected_block")
			continue
		}
		b.state = stBuilt
		forgotten = append(forgotten, b)
		if was == stOrphan {
			c.Inc("restart_forgot_orphan")
		} else {
			c.Inc("restart_forgot_side_block")
		}
	}
	h.orph = map[common.Uint256][]*hBlock{}
	// part of it arrives again later (the peers still have those blocks)
	if len(forgotten) > 0 && d.r.Intn(2) == 0 {
		queued := map[common.Uint256]bool{}
		for _, b := range h.pending {
			queued[b.hash] = true
		}
		th := h.tipBlock().height
		for _, b := range forgotten {
			if !queued[b.hash] && b.height+8 >= th {
				h.pending = append(h.pending, b)
				c.Inc("restart_requeued_forgotten_block")
			}
		}
	}
	d.preBlocks = make(map[common.Uint256]bool, len(h.active))
	for _, x := range h.active {
		d.preBlocks[x] = true
	}
	return true
}

// branch builds L honest blocks on parent (not delivered). The transactions
// prefer outpoints that the active branch spends differently.
func (d *c14Driver) branch(parent *hBlock, L int) []*hBlock {
	h := d.h
	tipView := h.viewAt(h.tip)
	poolUsed := h.poolUsed()
	cur := parent
	var out []*hBlock
	for i := 0; i < L; i++ {
		v := h.viewAt(cur.hash)
		prefer := map[node.OutKey]bool{}
		for k := range v.unspent {
			if _, sp := tipView.spentBy[k]; sp || poolUsed[k] {
				prefer[k] = true
			}
		}
		used := map[node.OutKey]bool{}
		var txs []*hTx
		for j, n := 0, h.r.Intn(4); j < n; j++ {
			if tx := h.mkTx(v, used, h.pickShape(), prefer); tx != nil {
				txs = append(txs, tx)
			}
		}
		b := h.build(cur, txs, sumFees(txs), true, "")
		if b == nil {
			break
		}
		out = append(out, b)
		cur = b
	}
	return out
}

// mineSpendingOld mines one block on the tip whose transactions prefer outputs
// created at heights >= from.
func (d *c14Driver) mineSpendingOld(from uint32) {
	h := d.h
	v := h.viewAt(h.tip)
	used := h.poolUsed()
	prefer := map[node.OutKey]bool{}
	for k, o := range v.unspent {
		if o.Height >= from {
			prefer[k] = true
		}
	}
	var txs []*hTx
	for i, n := 0, 1+h.r.Intn(3); i < n; i++ {
		shape := h.pickShape()
		if shape == "full" && h.r.Intn(2) == 0 { // "full" ignores the preference
			shape = "plain"
		}
		if t := h.mkTx(v, used, shape, prefer); t != nil {
			txs = append(txs, t)
		}
	}
	h.mine(txs, "post-restart")
	h.c.Inc("restart_episode_spend_blocks")
}

// episode: replace the last dep blocks by a branch longer by ext, restart,
// spend outputs of the blocks around the fork.
func (d *c14Driver) episode() {
	h, c, r := d.h, d.c, d.r
	t := h.tipBlock()
	maxd := int(t.height - h.baseHeight)
	if maxd > 5 {
		maxd = 5
	}
	if maxd < 1 {
		h.stepHonest()
		return
	}
	dep := 1 + r.Intn(maxd)
	ext := 1 + r.Intn(3)
	fork := t.height - uint32(dep)
	br := d.branch(h.blocks[h.active[fork]], dep+ext)
	if len(br) <= dep {
		c.Inc("restart_episode_not_constructible")
		return
	}
	ext = len(br) - dep
	c.Inc("restart_episodes")
	// delivery: 0 = in order, restart after the whole branch; 1 = in order,
	// restart right after the block that made the branch heavier; 2 = children
	// first (the whole branch connects when its first block arrives)
	mode := r.Intn(3)
	var rest []*hBlock
	switch mode {
	case 0:
		for _, b := range br {
			h.deliver(b)
		}
	case 1:
		for _, b := range br[:dep+1] {
			h.deliver(b)
		}
		rest = br[dep+1:]
	default:
		for i := len(br) - 1; i >= 0; i-- {
			h.deliver(br[i])
		}
	}
	c.Inc(fmt.Sprintf("restart_episode_delivery_%d", mode))
	if h.stopped {
		return
	}
	if want := br[len(br)-1-len(rest)].hash; h.tip != want {
		c.Inc("restart_episode_without_reorg")
		return
	}
	if !d.restart("episode", dep, ext) {
		return
	}
	h.after("restart-after-reorg")
	for _, b := range rest {
		h.deliver(b)
	}
	from := uint32(0)
	if fork > 3 {
		from = fork - 3
	}
	for i, n := 0, 1+r.Intn(dep+2); i < n && !h.stopped; i++ {
		d.mineSpendingOld(from)
	}
}

// account counts, by the model, what happened on the active chain since the
// previous step: blocks connected, reorganisations, spends of outputs of blocks
// that were already on the chain at the last restart.
func (d *c14Driver) account(act0 []common.Uint256) (reorgDepth, longer int) {
	h, c := d.h, d.c
	act1 := h.active
	common0 := 0
	for common0 < len(act0) && common0 < len(act1) && act0[common0] == act1[common0] {
		common0++
	}
	if common0 < len(act0) {
		reorgDepth = len(act0) - common0
		longer = len(act1) - len(act0)
	}
	if d.restarts == 0 {
		return
	}
	if reorgDepth > 0 {
		c.Inc("reorgs_after_restart")
	}
	v := h.viewAt(h.tip)
	for _, hash := range act1[common0:] {
		c.Inc("blocks_connected_after_restart")
		for _, tx := range h.blocks[hash].blk.Transactions[1:] {
			for _, in := range tx.Inputs() {
				if hh, ok := v.txs[in.Previous.TxID]; ok && int(hh) < len(act1) && d.preBlocks[act1[hh]] {
					c.Inc("spends_after_restart_of_prerestart_outputs")
				}
			}
		}
	}
	return
}

// run drives n steps; the oracle hook runs after every step and after every
// restart.
func (d *c14Driver) run(n int) {
	h, c, r := d.h, d.c, d.r
	// quick: 3% of the steps are directed episodes, a restart follows 1/8 of the
	// other reorganising steps and 1/80 of the rest, i.e. about 6 restarts per
	// history of 90 steps (a close + re-open syncs the databases: 0.1-0.5 s, a
	// multiple of that on a machine that is busy with I/O); thorough (4x longer
	// histories, every restart costs a full sweep): about half that rate.
	pEpisode, pReorg, pRandom := 3, 10, 1
	if !c.Quick() {
		pEpisode, pReorg, pRandom = 2, 5, 1
	}
	h.after("bootstrap")
	for i := 0; i < n && !h.stopped; i++ {
		h.stepNo = i
		h.touched = false
		act0 := h.active
		kind := ""
		x := h.r.Intn(100)
		y := r.Intn(100)
		switch {
		case i%40 == 17:
			kind = "concurrent"
			h.stepConcurrent()
		case y < pEpisode && i >= 3:
			kind = "reorg-restart-spend"
			d.episode()
		case x < 26:
			kind = "honest"
			h.stepHonest()
		case x < 50:
			kind = "fork"
			h.stepFork()
		case x < 60:
			kind = "deliver-pending"
			h.stepDeliverPending()
		case x < 76:
			kind = "adv-block"
			h.stepAdvBlock()
		case x < 88:
			kind = "pool"
			h.stepPool()
		case x < 94:
			kind = "mine-pool"
			h.stepMinePool()
		default:
			kind = "empty"
			h.stepEmpty()
		}
		c.Inc("steps")
		c.Inc("step_" + kind)
		dep, longer := d.account(act0)
		h.after(kind)
		if h.stopped || kind == "reorg-restart-spend" {
			continue
		}
		// restart at a random point, preferably right after a reorganisation
		z := r.Intn(80)
		switch {
		case dep > 0 && z < pReorg:
			if d.restart("reorg", dep, longer) {
				h.touched = true
				h.after("restart-after-reorg")
			}
		case dep == 0 && z < pRandom:
			if d.restart("random", 0, 0) {
				h.touched = true
				h.after("restart")
			}
		}
	}
	if !h.stopped {
		h.stepNo = n
		h.touched = false
		act0 := h.active
		h.flushPending()
		dep, longer := d.account(act0)
		h.after("final-flush")
		if !h.stopped && d.restart("final", dep, longer) {
			h.after("restart-final")
		}
	}
	c.Max("max:chain_height", int64(h.nd.Height()))
	c.Max("max:restarts_per_history", int64(d.restarts))
	c.Count("blocks_built", int64(len(h.order)-1))
	c.Count("txids_known", int64(len(h.txOrder)))
}

package props

import (
	"bytes"
	"fmt"
	"math/rand"
	"sort"
	"strings"

	treap "github.com/elastos/Elastos.ELA/database/verifexport"

	"verif/kit"
)

// C19 — treaps behave as ordered maps; immutable treaps are persistent.
//
// Workload: seeded op sequences against the real database/internal/treap
// (through the verif re-export) over key spaces of 4, 64 and 5000 keys.
// Oracle: a sorted-slice + map model written here (no treap code involved).
// Every result of Get/Has/Len/Size/ForEach and every iterator step (return
// value, Valid, Key, Value) is compared. For the immutable treap every k-th
// version is retained together with a frozen copy of the model and re-verified
// in full at random points and at the end of the sequence.

func init() {
	kit.Register(&kit.Spec{
		ID:     "C19",
		Rule:   "sequence = (treap kind, key space 4|64|5000 (plus one 150k-260k-key delete-heavy history on shard 0), seeded list of put/delete/overwrite/get/has/len/size/foreach/iterator-walk ops); values nil, empty and 1..40 bytes; iterators unranged and ranged (start only, limit only, both, empty ranges), walks of First/Last/Next/Prev/Seek, on mutable treaps interleaved with mutation+ForceReseek. distinct = hash of the op list; non-trivial = the sequence performed >= 10 mutations and >= 10 compared reads on a treap holding >= 2 keys",
		Shards: func(tier string) int { return 8 },
		Run:    runC19,
		Require: []string{"mutable_sequences", "immutable_sequences", "puts", "deletes", "overwrites", "gets", "iter_steps",
			"iter_ranged_steps", "iter_reseek_steps", "versions_retained", "version_full_verifications", "old_version_checked_after_later_updates",
			"size_checks", "nil_value_puts", "empty_value_puts", "keyspace_4", "keyspace_64", "keyspace_5000", "foreach_early_stop",
			"deep_histories", "deep_phase_checks", "deep_samples_checked", "deep_retained_version_checked"},
		Assumptions: []string{
			"treap node priorities come from the global math/rand source; the check re-seeds it per sequence so runs are reproducible, the answers must not depend on it",
			"the deep family (150k-260k keys, 90% deleted in random order) is what drives root-to-node paths beyond the static parent-stack depth of 128; the depth reached is not observable from outside the package, so it is a property of the history shape (measured at 200-350 by a seeded-change author), not a verdict",
			"iterator semantics taken from the package comments and its own tests: range is [start,limit); Seek(k) goes to the first key >= k of the treap and is exhausted if that key is outside the range (treapiter_test.go pins this for k below the start); an exhausted iterator stays exhausted until First/Last/Seek; after a mutation ForceReseek must be called and Key/Value are only compared again after the next move",
		},
	})
}

// ---------- sorted-map model ----------

type smodel struct {
	keys []string // sorted
	vals map[string][]byte
}

func newSModel() *smodel { return &smodel{vals: map[string][]byte{}} }

func (m *smodel) idx(k string) (int, bool) {
	i := sort.SearchStrings(m.keys, k)
	return i, i < len(m.keys) && m.keys[i] == k
}
func (m *smodel) put(k string, v []byte) (overwrite bool) {
	if v == nil {
		v = []byte{}
	}
	i, ok := m.idx(k)
	if !ok {
		m.keys = append(m.keys, "")
		copy(m.keys[i+1:], m.keys[i:])
		m.keys[i] = k
	}
	m.vals[k] = v
	return ok
}
func (m *smodel) del(k string) bool {
	i, ok := m.idx(k)
	if !ok {
		return false
	}
	m.keys = append(m.keys[:i], m.keys[i+1:]...)
	delete(m.vals, k)
	return true
}
func (m *smodel) size(fields uint64) uint64 {
	var s uint64
	for _, k := range m.keys {
		s += fields + uint64(len(k)+len(m.vals[k]))
	}
	return s
}

// frozen is an immutable copy of the model for a retained version.
type frozen struct {
	keys []string
	vals [][]byte
}

func (m *smodel) freeze() *frozen {
	f := &frozen{keys: append([]string(nil), m.keys...), vals: make([][]byte, len(m.keys))}
	for i, k := range m.keys {
		f.vals[i] = m.vals[k]
	}
	return f
}

// ordered view used by the iterator model (works on both smodel and frozen)
type oview interface {
	n() int
	key(i int) string
	val(i int) []byte
}

func (m *smodel) n() int           { return len(m.keys) }
func (m *smodel) key(i int) string { return m.keys[i] }
func (m *smodel) val(i int) []byte { return m.vals[m.keys[i]] }
func (f *frozen) n() int           { return len(f.keys) }
func (f *frozen) key(i int) string { return f.keys[i] }
func (f *frozen) val(i int) []byte { return f.vals[i] }

// lowerBound: first index with key >= k
func lowerBound(v oview, k string) int {
	return sort.Search(v.n(), func(i int) bool { return v.key(i) >= k })
}

// iterator model
const (
	itNew = iota
	itAt
	itExhausted
)

type miter struct {
	state    int
	at       string
	hasStart bool
	start    string
	hasLimit bool
	limit    string
}

func (it *miter) inRange(k string) bool {
	if it.hasStart && k < it.start {
		return false
	}
	if it.hasLimit && k >= it.limit {
		return false
	}
	return true
}
func (it *miter) set(v oview, i int) bool {
	if i < 0 || i >= v.n() || !it.inRange(v.key(i)) {
		it.state = itExhausted
		return false
	}
	it.state = itAt
	it.at = v.key(i)
	return true
}
func (it *miter) first(v oview) bool {
	if it.hasStart {
		return it.set(v, lowerBound(v, it.start))
	}
	return it.set(v, 0)
}
func (it *miter) last(v oview) bool {
	if it.hasLimit {
		return it.set(v, lowerBound(v, it.limit)-1)
	}
	return it.set(v, v.n()-1)
}

// Seek: the first key of the treap >= k; the iterator is exhausted when that
// key lies outside the iterator's range. (For k below the range start this is
// the behaviour pinned by the package's own treapiter_test.go, case "Seek value
// that exists, but is before the minimum allowed range" -> exhausted; it is not
// the clamping behaviour of a leveldb range iterator.)
func (it *miter) seek(v oview, k string) bool {
	return it.set(v, lowerBound(v, k))
}
func (it *miter) next(v oview) bool {
	switch it.state {
	case itNew:
		return it.first(v)
	case itExhausted:
		return false
	}
	i := lowerBound(v, it.at)
	if i < v.n() && v.key(i) == it.at {
		i++
	}
	return it.set(v, i)
}
func (it *miter) prev(v oview) bool {
	switch it.state {
	case itNew:
		return it.last(v)
	case itExhausted:
		return false
	}
	return it.set(v, lowerBound(v, it.at)-1)
}

// ---------- key spaces ----------

func c19Keys(space int) []string {
	var ks []string
	switch space {
	case 4:
		ks = []string{"a", "ab", "b", "\xff"}
	case 64:
		ks = append(ks, "") // empty key is a legal treap key
		for i := 0; len(ks) < 64; i++ {
			switch i % 4 {
			case 0:
				ks = append(ks, fmt.Sprintf("k%02d", i))
			case 1:
				ks = append(ks, fmt.Sprintf("k%02d\x00", i-1)) // successor of the previous key
			case 2:
				ks = append(ks, string([]byte{byte(i), 0xff, 0xff}))
			default:
				ks = append(ks, string([]byte{0, 0, 0, byte(i)})+"key")
			}
		}
	default:
		for i := 0; i < space; i++ {
			ks = append(ks, string([]byte{byte(i >> 8), byte(i), byte(i * 7)}))
		}
	}
	return ks
}

func c19Val(r *rand.Rand, c *kit.Ctx, uniq *int) []byte {
	*uniq++
	switch r.Intn(10) {
	case 0:
		c.Inc("nil_value_puts")
		return nil
	case 1:
		c.Inc("empty_value_puts")
		return []byte{}
	}
	v := make([]byte, 1+r.Intn(40))
	r.Read(v)
	v[0] = byte(*uniq)
	if len(v) > 1 {
		v[1] = byte(*uniq >> 8)
	}
	return v
}

// ---------- the run ----------

type c19seq struct {
	c       *kit.Ctx
	r       *rand.Rand
	id      string
	kind    string
	space   int
	log     []string // compact op trace for the witness
	failed  bool
	muts    int
	reads   int
	maxKeys int
}

func (s *c19seq) tr(format string, a ...interface{}) {
	if len(s.log) < 4000 {
		s.log = append(s.log, fmt.Sprintf(format, a...))
	}
}

func (s *c19seq) fail(sig, detail string) {
	if s.failed {
		return
	}
	s.failed = true
	tail := s.log
	if len(tail) > 60 {
		tail = tail[len(tail)-60:]
	}
	s.c.Violate(sig, detail, map[string]interface{}{"seq": s.id, "kind": s.kind, "keyspace": s.space, "trace_tail": strings.Join(tail, " ; ")})
}

// walkFail records an iterator-walk violation. The treap itself is not
// affected by a wrong iterator answer, so the sequence goes on (only the walk
// ends): known iterator defects must not hide the rest of the sequence.
func (s *c19seq) walkFail(sig, detail string) {
	tail := s.log
	if len(tail) > 40 {
		tail = tail[len(tail)-40:]
	}
	s.c.Inc("iter_walks_failed")
	s.c.Violate(sig, detail, map[string]interface{}{"seq": s.id, "kind": s.kind, "keyspace": s.space, "trace_tail": strings.Join(tail, " ; ")})
}

func qk(k []byte) string {
	if k == nil {
		return "<nil>"
	}
	return fmt.Sprintf("%q", k)
}

// treap abstraction over both kinds
type anyTreap interface {
	Len() int
	Size() uint64
	Has([]byte) bool
	Get([]byte) []byte
	ForEach(func(k, v []byte) bool)
	Iterator(start, limit []byte) *treap.Iterator
}

// verifyReads compares Len/Size/ForEach and a sample (or all) of Get/Has.
func (s *c19seq) verifyFull(t anyTreap, v oview, what string, universe []string) {
	c := s.c
	if t.Len() != v.n() {
		s.fail("treap-len:"+s.kind, fmt.Sprintf("%s: Len=%d model=%d", what, t.Len(), v.n()))
		return
	}
	var want uint64
	for i := 0; i < v.n(); i++ {
		want += treap.NodeFieldsSize + uint64(len(v.key(i))+len(v.val(i)))
	}
	c.Inc("size_checks")
	if t.Size() != want {
		s.fail("treap-size:"+s.kind, fmt.Sprintf("%s: Size=%d want sum(nodeFieldsSize+len k+len v)=%d", what, t.Size(), want))
		return
	}
	i := 0
	bad := ""
	t.ForEach(func(k, val []byte) bool {
		if i >= v.n() || string(k) != v.key(i) || !bytes.Equal(val, v.val(i)) || val == nil {
			bad = fmt.Sprintf("ForEach item %d = (%s,%x) model has %d items", i, qk(k), val, v.n())
			if i < v.n() {
				bad += fmt.Sprintf(", item = (%q,%x)", v.key(i), v.val(i))
			}
			return false
		}
		i++
		return true
	})
	if bad == "" && i != v.n() {
		bad = fmt.Sprintf("ForEach yielded %d items, model %d", i, v.n())
	}
	if bad != "" {
		s.fail("treap-foreach:"+s.kind, what+": "+bad)
		return
	}
	// Get/Has for every universe key (present and absent)
	step := 1
	if len(universe) > 300 {
		step = 1 + s.r.Intn(7)
	}
	for j := s.r.Intn(step); j < len(universe); j += step {
		k := universe[j]
		li := lowerBound(v, k)
		present := li < v.n() && v.key(li) == k
		got := t.Get([]byte(k))
		has := t.Has([]byte(k))
		if has != present || (got != nil) != present || (present && !bytes.Equal(got, v.val(li))) {
			var mv []byte
			if present {
				mv = v.val(li)
			}
			s.fail("treap-get:"+s.kind, fmt.Sprintf("%s: key %q Has=%v Get=%x(nil=%v) model present=%v value=%x", what, k, has, got, got == nil, present, mv))
			return
		}
		c.Inc("gets")
		s.reads++
	}
	// a full forward and backward iterator pass
	it := t.Iterator(nil, nil)
	for i := 0; i < v.n(); i++ {
		if !it.Next() || string(it.Key()) != v.key(i) || !bytes.Equal(it.Value(), v.val(i)) {
			s.fail("treap-iter-scan:"+s.kind, fmt.Sprintf("%s: forward scan item %d = %s want %q", what, i, qk(it.Key()), v.key(i)))
			return
		}
	}
	if it.Next() || it.Valid() {
		s.fail("treap-iter-scan:"+s.kind, what+": forward scan did not end")
		return
	}
	it = t.Iterator(nil, nil)
	for i := v.n() - 1; i >= 0; i-- {
		if !it.Prev() || string(it.Key()) != v.key(i) {
			s.fail("treap-iter-scan:"+s.kind, fmt.Sprintf("%s: backward scan item %d = %s want %q", what, i, qk(it.Key()), v.key(i)))
			return
		}
	}
	if it.Prev() {
		s.fail("treap-iter-scan:"+s.kind, what+": backward scan did not end")
	}
}

// pickBound chooses an iterator bound: nil, an existing key, a neighbour of one, or arbitrary.
func (s *c19seq) pickBound(universe []string) (string, bool) {
	r := s.r
	switch r.Intn(5) {
	case 0:
		return "", false
	case 1:
		return universe[r.Intn(len(universe))] + "\x00", true
	case 2:
		b := make([]byte, r.Intn(4))
		r.Read(b)
		return string(b), true
	}
	return universe[r.Intn(len(universe))], true
}

func bnd(k string, ok bool) []byte {
	if !ok {
		return nil
	}
	return []byte(k)
}

// iterWalk performs a random walk with a fresh iterator. mutate (optional)
// performs one model+treap mutation and returns true if it did (mutable only).
func (s *c19seq) iterWalk(t anyTreap, v oview, universe []string, steps int, mutate func() bool, what string) {
	r, c := s.r, s.c
	mi := &miter{}
	ranged := r.Intn(3) > 0
	if ranged {
		mi.start, mi.hasStart = s.pickBound(universe)
		mi.limit, mi.hasLimit = s.pickBound(universe)
		ranged = mi.hasStart || mi.hasLimit
	}
	it := t.Iterator(bnd(mi.start, mi.hasStart), bnd(mi.limit, mi.hasLimit))
	rng := fmt.Sprintf("[%s,%s)", qk(bnd(mi.start, mi.hasStart)), qk(bnd(mi.limit, mi.hasLimit)))
	s.tr("iter%s", rng)
	ctxRange := "unranged"
	switch {
	case mi.hasStart && mi.hasLimit:
		ctxRange = "start+limit"
	case mi.hasStart:
		ctxRange = "start-only"
	case mi.hasLimit:
		ctxRange = "limit-only"
	}
	// fresh iterator must be invalid
	if it.Valid() || it.Key() != nil || it.Value() != nil {
		s.walkFail("iter-new-valid", what+": a newly created iterator is Valid / has a key")
		return
	}
	reseeked := false   // ForceReseek happened since the last move
	everReseek := false // a ForceReseek happened during this walk
	lastMove := "new"
	for i := 0; i < steps && !s.failed; i++ {
		var got, want bool
		var op string
		x := r.Intn(100)
		switch {
		case mutate != nil && x < 15:
			if mutate() {
				it.ForceReseek()
				reseeked, everReseek = true, true
				s.tr("reseek")
			}
			continue
		case x < 25:
			op, got, want = "First", it.First(), mi.first(v)
		case x < 35:
			op, got, want = "Last", it.Last(), mi.last(v)
		case x < 50:
			var k string
			if r.Intn(4) == 0 {
				b := make([]byte, r.Intn(4))
				r.Read(b)
				k = string(b)
			} else {
				k = universe[r.Intn(len(universe))]
			}
			op = fmt.Sprintf("Seek(%q)", k)
			got, want = it.Seek([]byte(k)), mi.seek(v, k)
			if mi.hasStart && k < mi.start {
				op = "Seek(<start)"
			} else {
				op = "Seek"
			}
			s.tr("Seek(%q)", k)
		case x < 78:
			op, got, want = "Next", it.Next(), mi.next(v)
		default:
			op, got, want = "Prev", it.Prev(), mi.prev(v)
		}
		if op != "Seek" && op != "Seek(<start)" {
			s.tr("%s", op)
		}
		c.Inc("iter_steps")
		s.reads++
		if ranged {
			c.Inc("iter_ranged_steps")
		}
		if everReseek {
			c.Inc("iter_reseek_steps")
		}
		var wk string
		var wv []byte
		if want {
			wk = mi.at
			wv = v.val(lowerBound(v, mi.at))
		}
		ok := got == want && it.Valid() == want
		if ok && want {
			ok = string(it.Key()) == wk && bytes.Equal(it.Value(), wv) && it.Value() != nil
		}
		if ok && !want {
			ok = it.Key() == nil && it.Value() == nil
		}
		if !ok {
			// classify by input class (one signature per distinct defect class)
			eff := op // effective positioning primitive
			if lastMove == "new" && op == "Next" {
				eff = "First"
			} else if lastMove == "new" && op == "Prev" {
				eff = "Last"
			}
			var sig string
			switch {
			case (eff == "First" || eff == "Last") && v.n() == 0 && !got && it.Valid():
				sig = "iter:First/Last-on-emptied-treap-stays-valid"
			case eff == "First" && !mi.hasStart && mi.hasLimit:
				sig = "iter:First-with-limit-only-range"
			case eff == "Last" && mi.hasStart && !mi.hasLimit:
				sig = "iter:Last-with-start-only-range"
			case op == "Seek(<start)":
				sig = "iter-step:Seek-below-range-start:" + ctxRange
			case everReseek && !reseeked && (eff == "Next" || eff == "Prev"):
				sig = "iter:Next/Prev-after-ForceReseek-then-reposition"
			case reseeked:
				sig = fmt.Sprintf("iter-step:%s:directly-after-ForceReseek", eff)
			default:
				sig = fmt.Sprintf("iter-step:%s:%s", eff, ctxRange)
			}
			s.walkFail(sig, fmt.Sprintf("%s: iterator %s (previous move %s) %s returned %v valid=%v key=%s val=%x; model: %v key=%q val=%x (keys in treap=%d)",
				what, rng, lastMove, op, got, it.Valid(), qk(it.Key()), it.Value(), want, wk, wv, v.n()))
			return
		}
		reseeked = false
		lastMove = strings.TrimSuffix(op, "(<start)")
	}
}

func runC19(c *kit.Ctx) {
	if c.Shard == 0 || (!c.Quick() && c.Shard < 4) {
		runC19Deep(c)
	}
	r := c.Rand("c19")
	nseq := c.N(260, 7500) // per shard
	for q := 0; q < nseq; q++ {
		space := 64
		switch {
		case q%20 == 19:
			space = 5000
		case q%3 == 0:
			space = 4
		}
		kind := "mutable"
		if q%2 == 1 {
			kind = "immutable"
		}
		s := &c19seq{c: c, r: r, id: fmt.Sprintf("s%d/q%d", c.Shard, q), kind: kind, space: space}
		rand.Seed(r.Int63()) // treap priorities: reproducible per sequence
		c.Inc(fmt.Sprintf("keyspace_%d", space))
		universe := c19Keys(space)
		nops := 100 + r.Intn(100)
		if space == 5000 {
			nops = 300 + r.Intn(300)
		}
		if kind == "mutable" {
			c.Inc("mutable_sequences")
			runC19Mutable(s, universe, nops)
		} else {
			c.Inc("immutable_sequences")
			runC19Immutable(s, universe, nops)
		}
		c.Case(kit.HashID([]byte(strings.Join(s.log, ";"))), s.muts >= 10 && s.reads >= 10 && s.maxKeys >= 2)
		if q < 2 && c.Shard == 0 {
			tail := s.log
			if len(tail) > 25 {
				tail = tail[:25]
			}
			c.Sample(map[string]interface{}{"seq": s.id, "kind": kind, "keyspace": space, "ops": len(s.log), "first_ops": strings.Join(tail, " ; ")})
		}
	}
}

func runC19Mutable(s *c19seq, universe []string, nops int) {
	c, r := s.c, s.r
	t := treap.NewMutable()
	m := newSModel()
	uniq := 0
	mutateOnce := func() bool {
		k := universe[r.Intn(len(universe))]
		if r.Intn(5) < 3 {
			v := c19Val(r, c, &uniq)
			t.Put([]byte(k), v)
			if m.put(k, v) {
				c.Inc("overwrites")
			}
			c.Inc("puts")
			s.tr("Put(%q,%d)", k, len(v))
		} else {
			t.Delete([]byte(k))
			if m.del(k) {
				c.Inc("deletes")
			} else {
				c.Inc("deletes_absent")
			}
			s.tr("Del(%q)", k)
		}
		s.muts++
		if len(m.keys) > s.maxKeys {
			s.maxKeys = len(m.keys)
		}
		return true
	}
	if s.space == 5000 {
		for i := 0; i < 2500; i++ {
			k := universe[r.Intn(len(universe))]
			v := c19Val(r, c, &uniq)
			t.Put([]byte(k), v)
			m.put(k, v)
		}
		s.tr("prefill(%d)", len(m.keys))
	}
	for i := 0; i < nops && !s.failed; i++ {
		x := r.Intn(100)
		switch {
		case x < 55:
			mutateOnce()
		case x < 70:
			k := universe[r.Intn(len(universe))]
			mv, present := m.vals[k]
			got, has := t.Get([]byte(k)), t.Has([]byte(k))
			c.Inc("gets")
			s.reads++
			if has != present || (got != nil) != present || !bytes.Equal(got, mv) {
				s.fail("treap-get:mutable", fmt.Sprintf("key %q Has=%v Get=%x(nil=%v) model present=%v value=%x", k, has, got, got == nil, present, mv))
			}
		case x < 75:
			if t.Len() != len(m.keys) || t.Size() != m.size(treap.NodeFieldsSize) {
				s.fail("treap-len-size:mutable", fmt.Sprintf("Len=%d Size=%d model %d / %d", t.Len(), t.Size(), len(m.keys), m.size(treap.NodeFieldsSize)))
			}
			c.Inc("size_checks")
			s.reads++
		case x < 80:
			// ForEach with early stop
			stopAt := r.Intn(len(m.keys) + 1)
			n := 0
			t.ForEach(func(k, v []byte) bool { n++; return n <= stopAt })
			want := stopAt + 1
			if want > len(m.keys) {
				want = len(m.keys)
			}
			c.Inc("foreach_early_stop")
			if n != want {
				s.fail("treap-foreach-stop:mutable", fmt.Sprintf("ForEach visited %d items, callback returned false at item %d of %d", n, stopAt+1, len(m.keys)))
			}
		case x < 95:
			var mut func() bool
			if r.Intn(2) == 0 {
				mut = mutateOnce
			}
			s.iterWalk(t, m, universe, 6+r.Intn(20), mut, "mutable")
		default:
			if s.space != 5000 || r.Intn(8) == 0 {
				s.verifyFull(t, m, "mutable", universe)
			}
		}
	}
	if !s.failed {
		s.verifyFull(t, m, "mutable(end)", universe)
	}
	if r.Intn(4) == 0 && !s.failed {
		t.Reset()
		if t.Len() != 0 || t.Size() != 0 || t.Has([]byte(universe[0])) || t.Iterator(nil, nil).Next() {
			s.fail("treap-reset:mutable", "Reset left content behind")
		}
		c.Inc("resets")
	}
}

type c19version struct {
	t       *treap.Immutable
	f       *frozen
	born    int // mutation count when retained
	it      *treap.Iterator
	mi      *miter
	itSteps int
}

func runC19Immutable(s *c19seq, universe []string, nops int) {
	c, r := s.c, s.r
	t := treap.NewImmutable()
	m := newSModel()
	uniq := 0
	var kept []*c19version
	every := 1 + r.Intn(8)
	retain := func() {
		if len(kept) >= 200 {
			// drop a random one (after a final check of it)
			j := r.Intn(len(kept))
			s.verifyVersion(kept[j], universe)
			kept = append(kept[:j], kept[j+1:]...)
		}
		kv := &c19version{t: t, f: m.freeze(), born: s.muts}
		if r.Intn(3) == 0 { // a long-lived iterator over this version
			kv.it = t.Iterator(nil, nil)
			kv.mi = &miter{}
		}
		kept = append(kept, kv)
		c.Inc("versions_retained")
		c.Max("max:live_versions", int64(len(kept)))
	}
	mutate := func() {
		k := universe[r.Intn(len(universe))]
		if r.Intn(5) < 3 {
			v := c19Val(r, c, &uniq)
			nt := t.Put([]byte(k), v)
			if nt == t {
				s.fail("immutable-put-same-pointer", "Put returned the receiver")
			}
			t = nt
			if m.put(k, v) {
				c.Inc("overwrites")
			}
			c.Inc("puts")
			s.tr("Put(%q,%d)", k, len(v))
		} else {
			nt := t.Delete([]byte(k))
			if m.del(k) {
				c.Inc("deletes")
			} else {
				c.Inc("deletes_absent")
				if nt != t {
					// documented: the original treap is returned when the key does not exist
					s.fail("immutable-delete-absent-new-version", fmt.Sprintf("Delete(%q) of an absent key returned a different treap", k))
				}
			}
			t = nt
			s.tr("Del(%q)", k)
		}
		s.muts++
		if len(m.keys) > s.maxKeys {
			s.maxKeys = len(m.keys)
		}
		if s.muts%every == 0 {
			retain()
		}
	}
	if s.space == 5000 {
		for i := 0; i < 2500; i++ {
			k := universe[r.Intn(len(universe))]
			v := c19Val(r, c, &uniq)
			t = t.Put([]byte(k), v)
			m.put(k, v)
		}
		s.tr("prefill(%d)", len(m.keys))
		every = 2 + r.Intn(4)
	}
	for i := 0; i < nops && !s.failed; i++ {
		x := r.Intn(100)
		switch {
		case x < 60:
			mutate()
		case x < 70:
			k := universe[r.Intn(len(universe))]
			mv, present := m.vals[k]
			got, has := t.Get([]byte(k)), t.Has([]byte(k))
			c.Inc("gets")
			s.reads++
			if has != present || (got != nil) != present || !bytes.Equal(got, mv) {
				s.fail("treap-get:immutable", fmt.Sprintf("key %q Has=%v Get=%x(nil=%v) model present=%v value=%x", k, has, got, got == nil, present, mv))
			}
		case x < 75:
			stopAt := r.Intn(len(m.keys) + 1)
			n := 0
			t.ForEach(func(k, v []byte) bool { n++; return n <= stopAt })
			want := stopAt + 1
			if want > len(m.keys) {
				want = len(m.keys)
			}
			c.Inc("foreach_early_stop")
			if n != want {
				s.fail("treap-foreach-stop:immutable", fmt.Sprintf("ForEach visited %d items, stop requested at %d of %d", n, stopAt+1, len(m.keys)))
			}
		case x < 85:
			s.iterWalk(t, m, universe, 6+r.Intn(20), nil, "immutable(head)")
		case x < 93:
			// an old version: iterator walk / continue its long-lived iterator
			if len(kept) == 0 {
				continue
			}
			kv := kept[r.Intn(len(kept))]
			if kv.born < s.muts {
				c.Inc("old_version_checked_after_later_updates")
			}
			if kv.it != nil && r.Intn(2) == 0 {
				s.continueIter(kv)
			} else {
				s.iterWalk(kv.t, kv.f, universe, 5+r.Intn(10), nil, fmt.Sprintf("immutable(version@%d, now@%d)", kv.born, s.muts))
			}
		default:
			// full verification of a random retained version (or all, sometimes)
			if len(kept) == 0 {
				continue
			}
			if r.Intn(10) == 0 && s.space != 5000 {
				for _, kv := range kept {
					s.verifyVersion(kv, universe)
				}
			} else {
				s.verifyVersion(kept[r.Intn(len(kept))], universe)
			}
		}
	}
	// end: every retained version and the head
	for _, kv := range kept {
		if s.failed {
			break
		}
		s.verifyVersion(kv, universe)
	}
	if !s.failed {
		s.verifyFull(t, m, "immutable(head,end)", universe)
	}
}

func (s *c19seq) verifyVersion(kv *c19version, universe []string) {
	if s.failed {
		return
	}
	s.c.Inc("version_full_verifications")
	if kv.born < s.muts {
		s.c.Inc("old_version_checked_after_later_updates")
	}
	was := s.kind
	s.kind = "immutable-old-version"
	s.verifyFull(kv.t, kv.f, fmt.Sprintf("version retained at mutation %d re-read at mutation %d", kv.born, s.muts), universe)
	s.kind = was
}

// continueIter advances a long-lived iterator created when the version was
// retained; later Put/Delete on newer versions must not affect it.
func (s *c19seq) continueIter(kv *c19version) {
	for i := 0; i < 1+s.r.Intn(4) && !s.failed; i++ {
		var got, want bool
		op := "Next"
		if s.r.Intn(3) == 0 {
			op = "Prev"
			got, want = kv.it.Prev(), kv.mi.prev(kv.f)
		} else {
			got, want = kv.it.Next(), kv.mi.next(kv.f)
		}
		s.c.Inc("iter_steps")
		s.c.Inc("long_lived_iter_steps")
		ok := got == want
		if ok && want {
			ok = string(kv.it.Key()) == kv.mi.at && bytes.Equal(kv.it.Value(), kv.f.val(lowerBound(kv.f, kv.mi.at)))
		}
		if !ok {
			s.fail("iter-step:immutable-old-version:long-lived:"+op, fmt.Sprintf("iterator created at mutation %d, stepped at mutation %d: %s returned %v key=%s; model %v key=%q",
				kv.born, s.muts, op, got, qk(kv.it.Key()), want, kv.mi.at))
		}
	}
}

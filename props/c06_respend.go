package props

// C06 — targeted re-spend shapes, driven after every step of the shared history
// generator (props/hist_utxo.go is not changed; C14 keeps its histories).
//
//  A. multi-input transactions in which ONE input is an outpoint already spent
//     on the active chain, at the first / a middle / the last input position,
//     while every other input is a genuine mature unspent output (siblings of
//     the same previous transaction and outputs of other transactions) and the
//     previous transaction of the re-spent outpoint keeps further unspent
//     outputs (so nothing but the spent check can refuse it). Offered to the
//     mempool AND inside a hand-assembled block that is valid in every other
//     respect (outputs balanced under the node's own arithmetic, fees claimed).
//  B. one block with two different transactions spending the same outpoint, the
//     shared input at varying positions, with EQUAL and with DIFFERENT
//     Input.Sequence values; each transaction is valid on its own.
//  C. one transaction listing the same outpoint twice with equal / different
//     Sequence values (block and mempool).
//  D. mempool: two transactions spending one outpoint with different Sequence.
//
// Verdicts are given by the C06 oracle in c06.go: ProcessBlock verdict + tip,
// AppendToTxPool verdict, pool scan, and the replay of the node's active chain
// ("no outpoint spent twice").

import (
	"fmt"
	"math/rand"
	"sort"

	"github.com/elastos/Elastos.ELA/account"
	"github.com/elastos/Elastos.ELA/common"
	"github.com/elastos/Elastos.ELA/core"
	pg "github.com/elastos/Elastos.ELA/core/contract/program"
	common2 "github.com/elastos/Elastos.ELA/core/types/common"
	"github.com/elastos/Elastos.ELA/core/types/functions"
	"github.com/elastos/Elastos.ELA/core/types/interfaces"
	"github.com/elastos/Elastos.ELA/core/types/outputpayload"
	"github.com/elastos/Elastos.ELA/core/types/payload"

	"verif/kit"
	"verif/kit/node"
)

const (
	kRespendFirst  = "respend_at_input_position:first"
	kRespendMiddle = "respend_at_input_position:middle"
	kRespendLast   = "respend_at_input_position:last"
	kTwoSame       = "intrablock_respend_two_txs_same_sequence"
	kTwoDiff       = "intrablock_respend_two_txs_different_sequence"
	kOneSame       = "intrablock_respend_one_tx_same_sequence"
	kOneDiff       = "intrablock_respend_one_tx_different_sequence"
	kPoolPairDiff  = "pool_pair_different_sequence"
)

// c06RespendRequire lists the per-shape counters that must be non-zero.
var c06RespendRequire = []string{
	kRespendFirst + "_block_rejected", kRespendMiddle + "_block_rejected", kRespendLast + "_block_rejected",
	kRespendFirst + "_pool_rejected", kRespendMiddle + "_pool_rejected", kRespendLast + "_pool_rejected",
	kTwoSame + "_rejected", kTwoDiff + "_rejected", kOneSame + "_rejected", kOneDiff + "_rejected",
	kOneDiff + "_pool_rejected", kPoolPairDiff + "_second_rejected",
	"respend_prev_tx_keeps_unspent_outputs", "respend_sibling_of_same_prev_tx_as_valid_input", "respend_inputs_over_several_prev_txs",
}

type c06Respend struct {
	h     *hist
	c     *kit.Ctx
	r     *rand.Rand
	n     int
	calls int
}

func newC06Respend(h *hist, c *kit.Ctx) *c06Respend {
	return &c06Respend{h: h, c: c, r: c.Rand("c06-respend")}
}

type seqRef struct {
	ref node.UTXORef
	seq uint32
}

// transferSeq is node.Transfer with explicit Input.Sequence values.
func transferSeq(ins []seqRef, outs []node.Out, version common2.TransactionVersion) interfaces.Transaction {
	var inputs []*common2.Input
	seen := map[string]bool{}
	var owners []*account.Account
	for _, u := range ins {
		inputs = append(inputs, &common2.Input{Previous: common2.OutPoint{TxID: u.ref.TxID, Index: u.ref.Index}, Sequence: u.seq})
		if u.ref.Owner != nil && !seen[u.ref.Owner.Address] {
			seen[u.ref.Owner.Address] = true
			owners = append(owners, u.ref.Owner)
		}
	}
	var outputs []*common2.Output
	for _, o := range outs {
		outputs = append(outputs, &common2.Output{AssetID: core.ELAAssetID, Value: o.Value, ProgramHash: o.To,
			Type: common2.OTNone, Payload: &outputpayload.DefaultOutput{}})
	}
	tx := functions.CreateTransaction(version, common2.TransferAsset, 0, &payload.TransferAsset{},
		[]*common2.Attribute{}, inputs, outputs, 0, []*pg.Program{})
	node.SignStd(tx, owners...)
	return tx
}

func (p *c06Respend) version() common2.TransactionVersion {
	if p.r.Intn(2) == 0 {
		return common2.TxVersion09
	}
	return common2.TxVersionDefault
}

func (p *c06Respend) user() common.Uint168 { return p.h.users[p.r.Intn(len(p.h.users))].ProgramHash }

func (p *c06Respend) seqPair(different bool) (uint32, uint32) {
	vals := []uint32{0, 1, 2, 0xfffe, 0xffff, 0xfffffffe, 0xffffffff, uint32(p.r.Int63())}
	a := vals[p.r.Intn(len(vals))]
	if !different {
		if p.r.Intn(2) == 0 {
			a = 0
		}
		return a, a
	}
	b := vals[p.r.Intn(len(vals))]
	for b == a {
		b = vals[p.r.Intn(len(vals))]
	}
	if p.r.Intn(3) == 0 { // the wallet default on one side
		if p.r.Intn(2) == 0 {
			a = 0
		} else {
			b = 0
		}
		if a == b {
			b = 1
		}
	}
	return a, b
}

// outsFor pays total to 1..2 users.
func (p *c06Respend) outsFor(total common.Fixed64) []node.Out {
	if total > 10 && p.r.Intn(2) == 0 {
		a := common.Fixed64(p.r.Int63n(int64(total)))
		return []node.Out{{To: p.user(), Value: a}, {To: p.user(), Value: total - a}}
	}
	return []node.Out{{To: p.user(), Value: total}}
}

// probe runs one targeted case; called from the C06 onStep hook before the
// oracle looks at the node.
func (p *c06Respend) probe() {
	h := p.h
	p.calls++
	if h.stopped || p.calls%2 == 0 { // every other generator step
		return
	}
	kinds := []string{kRespendFirst, kRespendMiddle, kRespendLast, kTwoDiff, kTwoSame, kRespendLast, kOneDiff, kOneSame, kPoolPairDiff, kRespendMiddle, kTwoDiff, kRespendFirst}
	kind := kinds[(p.n+p.c.Shard)%len(kinds)]
	p.n++
	switch kind {
	case kRespendFirst, kRespendMiddle, kRespendLast:
		p.respendMulti(kind)
	case kTwoSame, kTwoDiff:
		p.twoTxs(kind)
	case kOneSame, kOneDiff:
		p.oneTx(kind)
	case kPoolPairDiff:
		p.poolPair()
	}
}

// valued spendable outputs of the tip view that no pool tx claims.
func (p *c06Respend) valued(v *hView, used map[node.OutKey]bool) []hCand {
	var out []hCand
	for _, c := range p.h.spendables(v, used) {
		if c.o.Value > 10000 {
			out = append(out, c)
		}
	}
	return out
}

// advBlock assembles txs (optionally with an honest tx around them) on the tip
// and delivers the block as an adversarial direct tip extension.
func (p *c06Respend) advBlock(kind string, v *hView, used map[node.OutKey]bool, txs []*hTx) {
	h := p.h
	if p.r.Intn(2) == 0 {
		u2 := map[node.OutKey]bool{}
		for k := range used {
			u2[k] = true
		}
		for _, t := range txs {
			for _, in := range t.tx.Inputs() {
				u2[node.OutKey{TxID: in.Previous.TxID, Index: in.Previous.Index}] = true
			}
		}
		if ht := h.mkTx(v, u2, "plain", nil); ht != nil {
			switch p.r.Intn(3) {
			case 0:
				txs = append([]*hTx{ht}, txs...)
			case 1:
				txs = append(txs, ht)
			default: // in between
				txs = append([]*hTx{txs[0], ht}, txs[1:]...)
			}
		}
	}
	b := h.build(h.tipBlock(), txs, sumFees(txs), false, kind)
	if b == nil {
		return
	}
	p.c.Inc("adv_blocks_delivered")
	h.deliver(b)
}

// respendMulti: a multi-input transaction with one already spent outpoint at
// the requested input position.
func (p *c06Respend) respendMulti(kind string) {
	h, r := p.h, p.r
	v := h.viewAt(h.tip)
	used := h.poolUsed()
	live := map[common.Uint256]int{}
	for k := range v.unspent {
		live[k.TxID]++
	}
	cs := p.valued(v, used)
	sib := map[common.Uint256][]hCand{}
	for _, c := range cs {
		sib[c.k.TxID] = append(sib[c.k.TxID], c)
	}
	// already spent outpoints whose previous tx still has unspent outputs
	var spent []node.OutKey
	for k := range v.spentBy {
		tx, has := h.allTx[k.TxID]
		if !has || int(k.Index) >= len(tx.Outputs()) || live[k.TxID] < 1 {
			continue
		}
		o := tx.Outputs()[k.Index]
		if h.byPH[o.ProgramHash] != nil && o.Value > 10000 {
			spent = append(spent, k)
		}
	}
	if len(spent) == 0 || len(cs) < 3 {
		p.c.Inc("respend_case_not_constructible")
		return
	}
	sort.Slice(spent, func(i, j int) bool { return keyLess(spent[i], spent[j]) })
	// prefer a spent outpoint that has a spendable sibling and a prev tx that keeps >=2 live outputs
	sk := spent[r.Intn(len(spent))]
	for try := 0; try < 6 && !(len(sib[sk.TxID]) > 0 && live[sk.TxID] >= 2); try++ {
		sk = spent[r.Intn(len(spent))]
	}
	so := h.allTx[sk.TxID].Outputs()[sk.Index]
	spentRef := node.UTXORef{TxID: sk.TxID, Index: sk.Index, Value: so.Value, Owner: h.byPH[so.ProgramHash]}

	n := 2 + r.Intn(3)
	if kind == kRespendMiddle && n < 3 {
		n = 3
	}
	// the genuine inputs
	var good []hCand
	taken := map[node.OutKey]bool{}
	if s := sib[sk.TxID]; len(s) > 0 && live[sk.TxID] >= 2 && r.Intn(4) != 0 {
		c := s[r.Intn(len(s))]
		good = append(good, c)
		taken[c.k] = true
		p.c.Inc("respend_sibling_of_same_prev_tx_as_valid_input")
	}
	for tries := 0; len(good) < n-1 && tries < 50; tries++ {
		c := cs[r.Intn(len(cs))]
		// the previous tx of the re-spent outpoint must keep an unspent output
		if taken[c.k] || (c.k.TxID == sk.TxID && live[sk.TxID]-countTx(good, sk.TxID) < 2) {
			continue
		}
		good = append(good, c)
		taken[c.k] = true
	}
	if len(good) < n-1 {
		p.c.Inc("respend_case_not_constructible")
		return
	}
	if live[sk.TxID]-countTx(good, sk.TxID) < 1 {
		p.c.Inc("respend_case_not_constructible")
		return
	}
	p.c.Inc("respend_prev_tx_keeps_unspent_outputs")
	prevs := map[common.Uint256]bool{sk.TxID: true}
	for _, c := range good {
		prevs[c.k.TxID] = true
	}
	if len(prevs) >= 2 {
		p.c.Inc("respend_inputs_over_several_prev_txs")
	}
	r.Shuffle(len(good), func(i, j int) { good[i], good[j] = good[j], good[i] })
	pos := 0
	switch kind {
	case kRespendMiddle:
		pos = 1 + r.Intn(n-2)
	case kRespendLast:
		pos = n - 1
	}
	var ins []seqRef
	total := spentRef.Value
	gi := 0
	for i := 0; i < n; i++ {
		if i == pos {
			ins = append(ins, seqRef{ref: spentRef})
			continue
		}
		ins = append(ins, seqRef{ref: h.refOf(good[gi])})
		total += good[gi].o.Value
		gi++
	}
	fee := h.minFee + common.Fixed64(r.Int63n(300))
	tx := transferSeq(ins, p.outsFor(total-fee), p.version())
	h.regTx(tx)
	p.c.Max("max:respend_inputs", int64(n))
	p.c.Inc(fmt.Sprintf("respend_case_%d_inputs_spent_at_%d", n, pos))

	poolFirst := r.Intn(2) == 0
	pool := func() {
		if h.stopped {
			return
		}
		err := h.submit(tx)
		p.c.Inc(kind + "_pool_submitted")
		if err != nil {
			p.c.Inc(kind + "_pool_rejected")
		} else {
			p.c.Violate("mempool:admitted-"+kind, fmt.Sprintf("step %d: AppendToTxPool admitted a %d-input tx whose input #%d (%s) was already spent on the active chain by tx %s; the other inputs are unspent",
				h.stepNo, n, pos, sk, v.spentBy[sk].String()[:16]), nil)
		}
	}
	if poolFirst {
		pool()
	}
	p.advBlock(kind, v, used, []*hTx{{tx: tx, fee: fee}})
	if !poolFirst {
		pool()
	}
}

func countTx(cs []hCand, id common.Uint256) int {
	n := 0
	for _, c := range cs {
		if c.k.TxID == id {
			n++
		}
	}
	return n
}

// inputsAround puts the shared reference at a random position among 0..2
// further genuine inputs taken from pool (removing them from it).
func (p *c06Respend) inputsAround(shared seqRef, free *[]hCand) (ins []seqRef, total common.Fixed64, pos int) {
	extra := p.r.Intn(3)
	if extra > len(*free) {
		extra = len(*free)
	}
	pos = p.r.Intn(extra + 1)
	for i := 0; i <= extra; i++ {
		if i == pos {
			ins = append(ins, shared)
			total += shared.ref.Value
			continue
		}
		j := p.r.Intn(len(*free))
		c := (*free)[j]
		*free = append((*free)[:j:j], (*free)[j+1:]...)
		ins = append(ins, seqRef{ref: p.h.refOf(c), seq: 0})
		total += c.o.Value
	}
	return
}

// twoTxs: two different transactions of one block spend the same outpoint.
func (p *c06Respend) twoTxs(kind string) {
	h, r := p.h, p.r
	v := h.viewAt(h.tip)
	used := h.poolUsed()
	cs := p.valued(v, used)
	if len(cs) < 6 {
		p.c.Inc("respend_case_not_constructible")
		return
	}
	i := r.Intn(len(cs))
	u := cs[i]
	free := append(append([]hCand{}, cs[:i]...), cs[i+1:]...)
	s1, s2 := p.seqPair(kind == kTwoDiff)
	in1, t1, p1 := p.inputsAround(seqRef{ref: h.refOf(u), seq: s1}, &free)
	in2, t2, p2 := p.inputsAround(seqRef{ref: h.refOf(u), seq: s2}, &free)
	f1 := h.minFee + common.Fixed64(r.Int63n(300))
	f2 := f1 + 1 + common.Fixed64(r.Int63n(50)) // never the same tx twice
	tx1 := transferSeq(in1, p.outsFor(t1-f1), p.version())
	tx2 := transferSeq(in2, p.outsFor(t2-f2), p.version())
	h.regTx(tx1)
	h.regTx(tx2)
	p.c.Inc(fmt.Sprintf("%s_case_positions_%d_%d", kind, p1, p2))
	if len(in1) > 1 || len(in2) > 1 {
		p.c.Inc(kind + "_with_further_valid_inputs")
	}
	p.advBlock(kind, v, used, []*hTx{{tx: tx1, fee: f1}, {tx: tx2, fee: f2}})
}

// oneTx: one transaction lists the same outpoint twice.
func (p *c06Respend) oneTx(kind string) {
	h, r := p.h, p.r
	v := h.viewAt(h.tip)
	used := h.poolUsed()
	cs := p.valued(v, used)
	if len(cs) < 3 {
		p.c.Inc("respend_case_not_constructible")
		return
	}
	i := r.Intn(len(cs))
	u := cs[i]
	free := append(append([]hCand{}, cs[:i]...), cs[i+1:]...)
	s1, s2 := p.seqPair(kind == kOneDiff)
	ins := []seqRef{{ref: h.refOf(u), seq: s1}, {ref: h.refOf(u), seq: s2}}
	total := 2 * u.o.Value // the node's reference map counts both inputs
	if r.Intn(2) == 0 {
		c := free[r.Intn(len(free))]
		x := seqRef{ref: h.refOf(c)}
		total += c.o.Value
		switch r.Intn(3) {
		case 0:
			ins = []seqRef{x, ins[0], ins[1]}
		case 1:
			ins = []seqRef{ins[0], x, ins[1]}
		default:
			ins = append(ins, x)
		}
	}
	fee := h.minFee + common.Fixed64(r.Int63n(300))
	tx := transferSeq(ins, p.outsFor(total-fee), p.version())
	h.regTx(tx)
	if r.Intn(2) == 0 {
		err := h.submit(tx)
		if err != nil {
			p.c.Inc(kind + "_pool_rejected")
		} else {
			p.c.Violate("mempool:admitted-"+kind, fmt.Sprintf("step %d: AppendToTxPool admitted a tx listing outpoint %s twice (sequences %d, %d)", h.stepNo, u.k, s1, s2), nil)
		}
	}
	p.advBlock(kind, v, used, []*hTx{{tx: tx, fee: fee}})
}

// poolPair: two transactions spending one outpoint with different Sequence
// values are offered to the mempool one after the other.
func (p *c06Respend) poolPair() {
	h, r := p.h, p.r
	if len(h.nd.TxPool.GetTxsInPool()) > 10 {
		p.oneTx(kOneDiff)
		return
	}
	v := h.viewAt(h.tip)
	used := h.poolUsed()
	cs := p.valued(v, used)
	if len(cs) < 6 {
		p.c.Inc("respend_case_not_constructible")
		return
	}
	i := r.Intn(len(cs))
	u := cs[i]
	free := append(append([]hCand{}, cs[:i]...), cs[i+1:]...)
	s1, s2 := p.seqPair(true)
	in1, t1, _ := p.inputsAround(seqRef{ref: h.refOf(u), seq: s1}, &free)
	in2, t2, _ := p.inputsAround(seqRef{ref: h.refOf(u), seq: s2}, &free)
	f1 := h.minFee + common.Fixed64(r.Int63n(300))
	tx1 := transferSeq(in1, p.outsFor(t1-f1), p.version())
	tx2 := transferSeq(in2, p.outsFor(t2-f1-1), p.version())
	h.regTx(tx1)
	h.regTx(tx2)
	e1 := h.submit(tx1)
	e2 := h.submit(tx2)
	p.c.Inc(kPoolPairDiff + "_submitted")
	if e1 != nil {
		p.c.Inc(kPoolPairDiff + "_first_rejected")
		p.c.Note("step %d: first tx of a different-sequence pair rejected: %v", h.stepNo, e1)
	}
	if e2 != nil {
		p.c.Inc(kPoolPairDiff + "_second_rejected")
	}
	if e1 == nil && e2 == nil {
		p.c.Violate("mempool:conflicting-pair-admitted:different-sequence", fmt.Sprintf("step %d: the pool admitted two txs spending %s with input sequences %d and %d", h.stepNo, u.k, s1, s2), nil)
	}
}

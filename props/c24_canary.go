package props

import "math/rand"

// Global-source canary (C24 monitor 2), reusable by other workloads.
//
//	cn := armRandCanary(K)      // rand.Seed(K)
//	... run consensus code single-threaded ...
//	if cn.moved() { the code drew from, or reseeded, the process-global source }
//
// After rand.Seed(K) the next global draw is the position-0 value of the
// stream of seed K; that value is computed from a private source (the
// equivalence global==private is calibrated by c24Calibrate before any
// verdict relies on it). Any draw or reseed in between changes what the next
// global draw returns (a draw moves the position; a reseed with K'!=K changes
// the stream; a reseed with the same K followed by no draw is invisible, and
// so is harmless: it leaves the source exactly as armed).
//
// Gotcha for live-node workloads: database/internal/treap draws rand.Int() on
// every insert and pow.Service.CreateCoinbaseTx draws the coinbase nonce from
// the global source; neither is consensus code. Bracket only validation /
// arbiter-state steps, not block assembly or database commits, or the canary
// reports those (correctly, but irrelevantly for C24).
type randCanary struct {
	K    int64
	want int64
}

func armRandCanary(k int64) randCanary {
	rand.Seed(k)
	return randCanary{K: k, want: rand.New(rand.NewSource(k)).Int63()}
}

// moved consumes one global draw; re-arm before the next bracket.
func (rc randCanary) moved() bool { return rand.Int63() != rc.want }

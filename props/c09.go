package props

import (
	"fmt"
	"math/big"
	"time"

	"github.com/elastos/Elastos.ELA/auxpow"
	"github.com/elastos/Elastos.ELA/blockchain"
	"github.com/elastos/Elastos.ELA/common"
	"github.com/elastos/Elastos.ELA/common/config"
	common2 "github.com/elastos/Elastos.ELA/core/types/common"

	"verif/kit"
	"verif/kit/node"
)

// C09 — compact target codec, CalcWork, CheckProofOfWork, retarget clamp.
// Oracle: math/big reference of the compact format and exact rational bounds.

func init() {
	kit.Register(&kit.Spec{
		ID:     "C09",
		Rule:   "compact values: every exponent 0..40 x mantissa edge set exhaustively + seeded random uint32; targets: powers of two +-1, random widths up to 2^256; PoW headers: Bits swept around the parent-header hash; retarget: synthetic BlockNode chains on a real BlockChain with non-instant limit. distinct = distinct input tuple; non-trivial = input decoded to a positive target / reached the retarget branch",
		Shards: func(tier string) int { return 8 },
		Run:    runC09,
		Require: []string{"compact_canonical_roundtrips", "big_to_compact_checks", "pow_accept", "pow_reject",
			"retarget_calls", "retarget_clamped_low", "retarget_clamped_high", "retarget_at_limit", "calcwork_checks"},
		Assumptions: []string{"math/big is correct", "retarget lower bound allows the documented 23-bit mantissa truncation (new >= floor(old/4)*(1-2^-15))"},
	})
}

// reference decode of a compact value
func refCompactToBig(c uint32) *big.Int {
	mant := int64(c & 0x007fffff)
	neg := c&0x00800000 != 0
	exp := uint(c >> 24)
	n := big.NewInt(mant)
	if exp <= 3 {
		n.Rsh(n, 8*(3-exp))
	} else {
		n.Lsh(n, 8*(exp-3))
	}
	if neg {
		n.Neg(n)
	}
	return n
}

// canonical: positive, mantissa has no leading zero byte (normalised) and the
// sign bit is clear; for exponent<=3 no bits shifted out.
func isCanonical(c uint32) bool {
	mant := c & 0x007fffff
	exp := c >> 24
	if c&0x00800000 != 0 || mant == 0 {
		return false
	}
	if mant&0x00ff0000 == 0 { // leading zero byte -> could use smaller exponent
		// exception: a mantissa whose top byte would have the sign bit set is
		// encoded with an extra zero byte: 0x00 80..ff xx
		if mant&0x0000ff00 >= 0x00008000 {
			// canonical form of a value whose 3-byte mantissa had bit 23 set
		} else {
			return false
		}
	}
	if exp < 3 {
		// low bytes are shifted out on decode; canonical only if they are zero
		if mant&((1<<(8*(3-exp)))-1) != 0 {
			return false
		}
	}
	return true
}

func runC09(c *kit.Ctx) {
	r := c.Rand("c09")
	two256 := new(big.Int).Lsh(big.NewInt(1), 256)

	// ---- (1) compact codec over the compact space ----
	mantEdges := []uint32{0, 1, 2, 0x7f, 0x80, 0xff, 0x100, 0x7fff, 0x8000, 0xffff, 0x10000, 0x7fffff, 0x7ffffe, 0x400000, 0x800000, 0x800001, 0xffffff, 0x808000, 0x008000, 0x00ffff}
	check := func(cv uint32) {
		impl := blockchain.CompactToBig(cv)
		ref := refCompactToBig(cv)
		id := fmt.Sprintf("compact:%08x", cv)
		if impl.Cmp(ref) != 0 {
			c.Violate("compact-decode-differs", fmt.Sprintf("CompactToBig(%08x)=%s reference=%s", cv, impl, ref), map[string]interface{}{"compact": cv})
		}
		// re-encode never enlarges (on the decoded magnitude)
		re := blockchain.BigToCompact(impl)
		back := blockchain.CompactToBig(re)
		if impl.Sign() > 0 && back.Cmp(impl) > 0 {
			c.Violate("bigtocompact-enlarges", fmt.Sprintf("t=%s BigToCompact=%08x decodes to %s > t", impl, re, back), map[string]interface{}{"compact": cv})
		}
		if isCanonical(cv) && impl.Sign() > 0 {
			c.Inc("compact_canonical_roundtrips")
			if re != cv {
				c.Violate("compact-roundtrip", fmt.Sprintf("canonical %08x -> %s -> %08x", cv, impl, re), map[string]interface{}{"compact": cv})
			}
		}
		// CalcWork
		w := blockchain.CalcWork(cv)
		c.Inc("calcwork_checks")
		if ref.Sign() <= 0 {
			if w.Sign() != 0 {
				c.Violate("calcwork-nonpositive", fmt.Sprintf("CalcWork(%08x)=%s for non-positive target", cv, w), nil)
			}
		} else {
			exp := new(big.Int).Div(two256, new(big.Int).Add(ref, big.NewInt(1)))
			if w.Cmp(exp) != 0 {
				c.Violate("calcwork-value", fmt.Sprintf("CalcWork(%08x)=%s want %s", cv, w, exp), nil)
			}
		}
		c.Case(id, impl.Sign() > 0)
	}
	if c.Shard == 0 {
		for e := uint32(0); e <= 40; e++ {
			for _, m := range mantEdges {
				check(e<<24 | m&0xffffff)
			}
		}
		for e := uint32(250); e <= 255; e++ {
			check(e<<24 | 0x7fffff)
		}
	}
	n := c.N(250000, 5000000)
	for i := 0; i < n; i++ {
		cv := r.Uint32()
		if i%3 == 0 { // bias to plausible exponents
			cv = uint32(r.Intn(36))<<24 | cv&0x00ffffff
		}
		check(cv)
	}
	c.Sample(map[string]interface{}{"kind": "compact", "compact": "1d00ffff", "decoded": blockchain.CompactToBig(0x1d00ffff).String()})

	// ---- (2) targets -> compact: never larger, and tight (loses < 2^-15) ----
	nt := c.N(100000, 2000000)
	for i := 0; i < nt; i++ {
		var t *big.Int
		switch i % 4 {
		case 0:
			t = new(big.Int).Lsh(big.NewInt(1), uint(r.Intn(257)))
			t.Add(t, big.NewInt(int64(r.Intn(3)-1)))
		case 1:
			t = new(big.Int).Rand(r, new(big.Int).Lsh(big.NewInt(1), uint(1+r.Intn(256))))
		case 2:
			t = big.NewInt(int64(r.Intn(1 << 25)))
		default:
			t = new(big.Int).Rand(r, two256)
		}
		if t.Sign() <= 0 {
			continue
		}
		cv := blockchain.BigToCompact(t)
		back := refCompactToBig(cv)
		c.Inc("big_to_compact_checks")
		c.Case("target:"+t.Text(16), true)
		if back.Cmp(t) > 0 {
			c.Violate("bigtocompact-enlarges", fmt.Sprintf("t=%s compact=%08x decodes to %s", t.Text(16), cv, back.Text(16)), map[string]interface{}{"target_hex": t.Text(16)})
		}
		if back.Sign() <= 0 {
			c.Violate("bigtocompact-nonpositive", fmt.Sprintf("t=%s compact=%08x decodes to %s", t.Text(16), cv, back.Text(16)), map[string]interface{}{"target_hex": t.Text(16)})
		}
		// tightness: t - back < t * 2^-15 (vacuity guard against an encoder that returns tiny targets)
		diff := new(big.Int).Sub(t, back)
		lim := new(big.Int).Rsh(t, 15)
		if diff.Cmp(lim) > 0 && t.BitLen() > 24 {
			c.Violate("bigtocompact-loose", fmt.Sprintf("t=%s compact=%08x loses more than 2^-15", t.Text(16), cv), map[string]interface{}{"target_hex": t.Text(16)})
		}
		if !isCanonical(cv) {
			c.Violate("bigtocompact-noncanonical", fmt.Sprintf("t=%s compact=%08x is not canonical", t.Text(16), cv), nil)
		}
	}

	// ---- (3) CheckProofOfWork ----
	limit := config.GetDefaultParams().PowConfiguration.PowLimit
	np := c.N(20000, 400000)
	for i := 0; i < np; i++ {
		var blkHash common.Uint256
		r.Read(blkHash[:])
		ap := auxpow.GenerateAuxPow(blkHash)
		ap.ParBlockHeader.Nonce = r.Uint32()
		ph := ap.ParBlockHeader.Hash()
		hnum := blockchain.HashToBig(&ph)
		var bits uint32
		var lim *big.Int
		switch i % 5 {
		case 0: // random bits
			bits = r.Uint32()
			lim = limit
		case 1: // just at / around the hash value
			bits = blockchain.BigToCompact(hnum)
			bits += uint32(r.Intn(5)) - 2
			lim = two256
		case 2:
			bits = uint32(r.Intn(34))<<24 | r.Uint32()&0xffffff
			lim = new(big.Int).Rand(r, two256)
		case 3: // negative / zero targets
			bits = uint32(r.Intn(34))<<24 | 0x800000 | r.Uint32()&0x7fffff
			lim = two256
		default:
			bits = 0x207fffff
			lim = refCompactToBig(0x207fffff)
			if i%2 == 0 {
				lim = new(big.Int).Sub(lim, big.NewInt(1))
			}
		}
		hdr := &common2.Header{Bits: bits, AuxPow: *ap}
		err := blockchain.CheckProofOfWork(hdr, lim)
		tgt := refCompactToBig(bits)
		want := tgt.Sign() > 0 && tgt.Cmp(lim) <= 0 && hnum.Cmp(tgt) <= 0
		c.Case(fmt.Sprintf("pow:%08x:%x:%s", bits, ph[:6], lim.Text(16)), true)
		if err == nil {
			c.Inc("pow_accept")
		} else {
			c.Inc("pow_reject")
		}
		if (err == nil) != want {
			c.Violate("pow-verdict", fmt.Sprintf("bits=%08x target=%s hash=%s limit=%s impl_accept=%v model_accept=%v", bits, tgt.Text(16), hnum.Text(16), lim.Text(16), err == nil, want),
				map[string]interface{}{"bits": bits})
		}
	}

	// ---- (4) retarget on a real BlockChain with a non-instant limit ----
	interval := uint32(4 + c.Shard%3*4) // 4, 8, 12 blocks per retarget
	nd, err := node.Start(node.Options{Dir: c.WorkDir, NonInstant: true, Tweak: func(cfg *config.Configuration) {
		cfg.PowConfiguration.TargetTimePerBlock = 10 * time.Second
		cfg.PowConfiguration.TargetTimespan = time.Duration(interval) * 10 * time.Second
	}})
	if err != nil {
		c.Inconclusive("node start: %v", err)
		return
	}
	defer nd.Close()
	factor := nd.Cfg.PowConfiguration.AdjustmentFactor
	span := int64(nd.Cfg.PowConfiguration.TargetTimespan / time.Second)
	plimit := nd.Cfg.PowConfiguration.PowLimit
	nr := c.N(20000, 400000)
	sampled := false
	for i := 0; i < nr; i++ {
		// choose old target
		var old *big.Int
		switch i % 4 {
		case 0:
			old = new(big.Int).Set(plimit)
		case 1:
			old = new(big.Int).Rsh(plimit, uint(r.Intn(200)))
		case 2:
			old = new(big.Int).Rand(r, plimit)
		default:
			old = new(big.Int).Rsh(plimit, uint(r.Intn(3)))
		}
		if old.Sign() <= 0 {
			old = big.NewInt(1 + int64(r.Intn(1000)))
		}
		oldBits := blockchain.BigToCompact(old)
		oldT := refCompactToBig(oldBits)
		if oldT.Sign() <= 0 {
			continue
		}
		// timespan choices incl. non-monotone timestamps
		var actual int64
		switch i % 6 {
		case 0:
			actual = 0
		case 1:
			actual = span
		case 2:
			actual = int64(r.Intn(int(span * 8)))
		case 3:
			actual = span/factor + int64(r.Intn(3)) - 1
		case 4:
			actual = span*factor + int64(r.Intn(3)) - 1
		default:
			actual = int64(r.Uint32() >> uint(r.Intn(20)))
		}
		base := uint32(1600000000)
		// chain of `interval` nodes ending at height k*interval-1
		k := uint32(1 + r.Intn(5))
		topH := k*interval - 1
		var prev *blockchain.BlockNode
		firstH := topH - interval + 1
		for h := firstH; h <= topH; h++ {
			ts := base + uint32(r.Intn(1000))
			if h == firstH {
				ts = base
			}
			if h == topH {
				ts = base + uint32(actual) // wraps like the node's uint32 arithmetic would not: keep within range
			}
			nn := &blockchain.BlockNode{Height: h, Bits: oldBits, Timestamp: ts, Parent: prev, WorkSum: big.NewInt(0)}
			prev = nn
		}
		if firstH == 0 {
			// walking must find height 0; fine
		}
		got, err := nd.Chain.CalcNextRequiredDifficulty(prev, time.Unix(int64(base), 0))
		c.Inc("retarget_calls")
		c.Case(fmt.Sprintf("retarget:%08x:%d:%d:%d", oldBits, actual, interval, k), true)
		if err != nil {
			c.Violate("retarget-error", fmt.Sprintf("unexpected error %v", err), nil)
			continue
		}
		newT := refCompactToBig(got)
		// int64(prev.Timestamp - first.Timestamp) is computed in uint32 space
		act := int64(uint32(base+uint32(actual)) - base)
		if act < span/factor {
			c.Inc("retarget_clamped_low")
		} else if act > span*factor {
			c.Inc("retarget_clamped_high")
		}
		hi := new(big.Int).Mul(oldT, big.NewInt(factor))
		if hi.Cmp(plimit) > 0 {
			hi = plimit
			c.Inc("retarget_at_limit")
		}
		lo := new(big.Int).Div(oldT, big.NewInt(factor))
		lo.Sub(lo, new(big.Int).Rsh(lo, 15)) // compact truncation tolerance
		lo.Sub(lo, big.NewInt(1))
		if !sampled {
			sampled = true
			c.Sample(map[string]interface{}{"kind": "retarget", "old_bits": fmt.Sprintf("%08x", oldBits), "actual_timespan_s": act, "target_timespan_s": span, "new_bits": fmt.Sprintf("%08x", got)})
		}
		if newT.Sign() <= 0 || newT.Cmp(hi) > 0 {
			c.Violate("retarget-above-bound", fmt.Sprintf("old=%s new=%s factor=%d limit=%s actual=%d span=%d", oldT.Text(16), newT.Text(16), factor, plimit.Text(16), act, span),
				map[string]interface{}{"old_bits": oldBits, "actual": act})
		}
		if newT.Cmp(lo) < 0 && oldT.BitLen() > 32 {
			c.Violate("retarget-below-bound", fmt.Sprintf("old=%s new=%s factor=%d actual=%d span=%d", oldT.Text(16), newT.Text(16), factor, act, span),
				map[string]interface{}{"old_bits": oldBits, "actual": act})
		}
		// exactness: equals BigToCompact(min(limit, old*clamp(act)/span))
		adj := act
		if adj < span/factor {
			adj = span / factor
		} else if adj > span*factor {
			adj = span * factor
		}
		ex := new(big.Int).Mul(oldT, big.NewInt(adj))
		ex.Div(ex, big.NewInt(span))
		if ex.Cmp(plimit) > 0 {
			ex = plimit
		}
		if ex.Sign() > 0 {
			exT := refCompactToBig(blockchain.BigToCompact(ex))
			if exT.Cmp(newT) != 0 {
				c.Violate("retarget-formula", fmt.Sprintf("old=%s act=%d got=%s want=%s", oldT.Text(16), act, newT.Text(16), exT.Text(16)), nil)
			}
		}
	}
}

package props

import (
	"bufio"
	"bytes"
	"context"
	"crypto/sha256"
	"encoding/json"
	"fmt"
	"io"
	"os"
	"os/exec"
	"path/filepath"
	"sort"
	"strings"
	"sync"
	"syscall"
	"time"

	"verif/kit"
)

// C17 — the block database (database/ffldb) survives a crash at any point.
//
// Fault enumeration. A shard owns one (scenario, cache configuration) pair.
// Pass 1 runs the scenario in a sub-process and counts the hook hits K and the
// writeData calls W. Then, each in fresh sub-processes of this binary:
//   kill       for EVERY k in 1..K: same scenario, SIGKILL self at the k-th hit
//   short      for every writeData call w and prefix in {0,1,len-1}: write only
//              the prefix, then SIGKILL
//   live       for every w: writeData fails (short write + error, like ENOSPC)
//              WITHOUT a kill; checked in-process and after a clean close
//   livekill   like live, plus SIGKILL inside the error/rollback path
//   recovery   after a kill whose reopen had to repair the files: SIGKILL the
//              reopening process inside that repair, then reopen again
// After every fault a fresh process reopens the directory, compares what the
// database shows with the model states allowed by the durable begin/done log,
// retries the interrupted commit, commits three more, closes, reopens, compares.

type c17ShardPlan struct {
	Scen int
	Cfg  string
}

func c17Plan(tier string) []c17ShardPlan {
	if tier != "thorough" {
		return []c17ShardPlan{{0, "flush"}, {1, "wbsmall"}, {1, "wbdefault"}}
	}
	var out []c17ShardPlan
	for s := 0; s < 8; s++ {
		out = append(out, c17ShardPlan{s, "flush"})
		if s%3 == 2 {
			out = append(out, c17ShardPlan{s, "wbdefault"})
		} else {
			out = append(out, c17ShardPlan{s, "wbsmall"})
		}
	}
	return out
}

// c17PlanFor orders the plan so that the longest scenarios start first (the
// kit starts shards in index order, 8 at a time).
func c17PlanFor(tier string, seed int64) []c17ShardPlan {
	plan := c17Plan(tier)
	size := func(p c17ShardPlan) int { return len(c17Gen(c17ScenSeed(seed, p.Scen), tier != "thorough").Attempts) }
	sort.SliceStable(plan, func(i, j int) bool { return size(plan[i]) > size(plan[j]) })
	return plan
}

// the scenario seed must be the same in the shards that run one scenario under
// different configurations, so it is derived from the run seed and the scenario
// index only (c.Rand streams are per shard).
func c17ScenSeed(seed int64, scen int) int64 {
	h := sha256.Sum256([]byte(fmt.Sprintf("C17/scenario/%d/%d", seed, scen)))
	var s int64
	for i := 0; i < 8; i++ {
		s = s<<8 | int64(h[i])
	}
	if s < 0 {
		s = -s
	}
	return s
}

// hooks that every run must have killed at (reached in every configuration)
var c17CoreHooks = []string{
	"ffldb.commit.begin", "ffldb.commit.beforeBlock", "ffldb.commit.afterBlock", "ffldb.commit.afterBlockIndex",
	"ffldb.commit.beforeWriteCursor", "ffldb.commit.afterWriteCursor",
	"ffldb.writeBlock.rolloverClosed", "ffldb.writeBlock.afterRollover", "ffldb.writeBlock.fileOpened",
	"ffldb.writeBlock.afterNetwork", "ffldb.writeBlock.afterLength", "ffldb.writeBlock.afterData", "ffldb.writeBlock.afterChecksum",
	"ffldb.flush.begin", "ffldb.syncBlocks.beforeSync", "ffldb.syncBlocks.afterSync", "ffldb.flush.afterSyncBlocks",
	"ffldb.updateDB.opened", "ffldb.commitTreaps.afterPut", "ffldb.commitTreaps.betweenPutsAndDeletes",
	"ffldb.updateDB.beforeLdbCommit", "ffldb.updateDB.afterLdbCommit",
	"ffldb.close.begin", "ffldb.close.afterCacheClose", "ffldb.cacheClose.afterFlush",
	"ffldb.writeData.short", "ffldb.commit.blockWriteFailed", "ffldb.commit.afterRollback",
	"ffldb.rollback.begin", "ffldb.rollback.beforeTruncate", "ffldb.rollback.afterTruncate", "ffldb.rollback.afterSync",
	"ffldb.reconcile.beforeRollback",
}

func init() {
	req := []string{"scenarios", "hook_hits_counted", "kills_performed", "short_write_cases", "live_failure_cases",
		"live_failure_then_kill_cases", "recovery_kill_cases", "reopen_checks", "rollovers_crossed",
		"recovery_repairs", "recovery_files_deleted", "clean_close_checks", "later_commits_ok",
		"writeback_commits_cached", "writeback_midrun_flushes", "flush_config_commits_written_through", "writeback_unflushed_commits_dropped",
		"live_rollbacks_executed", "live_rollbacks_across_files",
		"kill_mid_commit", "recovered_to_interrupted_commit", "recovered_to_previous_commit",
		"max:hook_points_distinct"}
	for _, h := range c17CoreHooks {
		req = append(req, "killed_at:"+h)
	}
	kit.Register(&kit.Spec{
		ID:    "C17",
		Level: "fault_enumeration",
		Rule: "scenario = seeded sequence of 6..30 write transactions (6..9 in the quick tier), each storing 0..3 blocks whose sizes straddle a 400..2000-byte maxBlockFileSize plus 2..7 metadata puts/deletes/bucket creations/bucket deletions (some transactions aborted by the caller); " +
			"a case = one fault placed in one run of the scenario: SIGKILL at the k-th hook hit for every k, a short write (0, 1, len-1 bytes) followed by SIGKILL at every writeData call, a live write error at every writeData call (with and without a later SIGKILL inside the rollback path), SIGKILL during the repair performed by a reopen; " +
			"distinct = distinct (scenario, configuration, fault family, position); non-trivial = the fault really fired (process died by SIGKILL at that hook / the commit saw the injected error) and the reopened database was compared with the model",
		Shards:   func(tier string) int { return len(c17Plan(tier)) },
		Parallel: 8,
		Run:      runC17,
		Require:  req,
		TimeoutS: func(tier string) int {
			// generous: a firing watchdog only makes the run inconclusive, and
			// process start-up dominates when the machine is oversubscribed
			if tier == "thorough" {
				return 4 * 3600
			}
			return 3000
		},
		Assumptions: []string{
			"SIGKILL models a process stop: everything the process had handed to the kernel (page cache) survives; power loss and fsync ordering are not modelled",
			"crash points are the instrumented hook sites between the steps of writePendingAndCommit, writeBlock/writeData, syncBlocks, handleRollback, dbCache.flush/commitTx/commitTreaps/updateDB, reconcileDB and Close; a kill inside goleveldb itself is only reached through those sites",
			"flush-every-commit configuration (flush interval < 0 via the open hook): the reopened state must be the last completed commit or the interrupted one (the literal property); write-back configurations (small cache / package defaults 20 MiB, 300 s): the reopened state must be S_j with last durably flushed commit <= j <= interrupted commit, i.e. a prefix of the commit history and never a mixture, because the cache defers durability by design (dbcache.go)",
			"the lower bound 'last flushed commit' is taken from a log line written after the leveldb commit returned, so it never demands more than was made durable",
			"live write errors are injected at blockStore.writeData (short write + error) — errors from leveldb or from file open/truncate/sync are not injected",
			"the model is a nested map written for this check; goleveldb is trusted to apply one leveldb transaction atomically",
		},
		Post: c17Post,
	})
}

func c17Post(a *kit.Agg) {
	// informational: hooks that exist but were never the kill site in this run
	var never []string
	for k := range a.Counters {
		if strings.HasPrefix(k, "hit:") && a.Counters["killed_at:"+strings.TrimPrefix(k, "hit:")] == 0 {
			never = append(never, strings.TrimPrefix(k, "hit:"))
		}
	}
	sort.Strings(never)
	n := int64(0)
	for k, v := range a.Counters {
		if strings.HasPrefix(k, "killed_at:") && v > 0 {
			n++
		}
	}
	a.Counters["hook_points_killed_distinct"] = n
	// fault enumeration must be complete: one kill per counted hook hit
	if t := a.Counters["subprocess_timeouts"]; t > 0 {
		a.Inconclusive("enumeration incomplete: %d sub-process watchdog timeouts", t)
	}
	if len(a.Inconcl) == 0 && a.Counters["kills_performed"] != a.Counters["hook_hits_counted"] {
		a.Inconclusive("enumeration incomplete: %d kills for %d counted hook hits", a.Counters["kills_performed"], a.Counters["hook_hits_counted"])
	}
	if len(never) > 0 {
		a.Notes = append(a.Notes, "hooks hit but never used as kill site: "+strings.Join(never, ","))
	}
}

// ------------------------------------------------------------------ runner

type c17Runner struct {
	c     *kit.Ctx
	self  string
	seed  int64
	small bool
	cfg   string
	scen  int
	nAtt  int
	base0 string // scratch root (tmpfs when available)
	mu    sync.Mutex
	seqNo int
}

// c17Worker is one sequential lane of cases with its own verify server.
type c17Worker struct {
	*c17Runner
	srv *c17Server
}

// c17Server is a long-lived "verifyd" sub-process.
type c17Server struct {
	cmd    *exec.Cmd
	in     io.WriteCloser
	out    *bufio.Reader
	stderr *bytes.Buffer
}

func (r *c17Runner) startServer() *c17Server {
	cmd := exec.Command(r.self)
	cmd.Env = append(os.Environ(), c17EnvRole+"=verifyd", c17EnvParams+"={}", "GOMAXPROCS=1", "GOGC=off")
	s := &c17Server{cmd: cmd, stderr: &bytes.Buffer{}}
	cmd.Stderr = &limitedWriter{w: s.stderr, n: 8000}
	in, err := cmd.StdinPipe()
	if err != nil {
		return nil
	}
	outp, err := cmd.StdoutPipe()
	if err != nil {
		return nil
	}
	if err := cmd.Start(); err != nil {
		return nil
	}
	s.in, s.out = in, bufio.NewReaderSize(outp, 1<<20)
	return s
}

func (s *c17Server) stop() {
	if s == nil {
		return
	}
	s.in.Close()
	done := make(chan struct{})
	go func() { s.cmd.Wait(); close(done) }()
	select {
	case <-done:
	case <-time.After(5 * time.Second):
		s.cmd.Process.Kill()
		<-done
	}
}

// call sends one verify request. status: "ok" | "timeout" | "died"
func (w *c17Worker) call(p *c17Params) (vr *c17VerifyResult, status, stderr string) {
	if w.srv == nil {
		if w.srv = w.startServer(); w.srv == nil {
			return nil, "died", "cannot start verify server"
		}
	}
	s := w.srv
	pb, _ := json.Marshal(p)
	type reply struct {
		line []byte
		err  error
	}
	ch := make(chan reply, 1)
	go func() {
		if _, err := s.in.Write(append(pb, '\n')); err != nil {
			ch <- reply{nil, err}
			return
		}
		line, err := s.out.ReadBytes('\n')
		ch <- reply{line, err}
	}()
	select {
	case rp := <-ch:
		var res c17VerifyResult
		if rp.err == nil && json.Unmarshal(rp.line, &res) == nil {
			return &res, "ok", ""
		}
		// the server died while reopening / reading this directory
		s.in.Close()
		s.cmd.Wait()
		w.srv = nil
		return nil, "died", s.stderr.String()
	case <-time.After(180 * time.Second):
		s.cmd.Process.Kill()
		s.cmd.Wait()
		w.srv = nil
		return nil, "timeout", ""
	}
}

type c17Log struct {
	LastBegin, LastCompleted, LastDone, MaxFlushed int
	Failed                                         []int
	KillName                                       string
	Rollovers                                      int
	Closing, Closed                                bool
	Tail                                           []string
}

func c17ParseLog(path string) *c17Log {
	l := &c17Log{}
	f, err := os.Open(path)
	if err != nil {
		return l
	}
	defer f.Close()
	failed := map[int]bool{}
	sc := bufio.NewScanner(f)
	for sc.Scan() {
		t := sc.Text()
		l.Tail = append(l.Tail, t)
		var n int
		var s string
		switch {
		case scan1(t, "begin %d", &n):
			l.LastBegin = n
		case scan1(t, "done %d", &n):
			l.LastCompleted, l.LastDone = n, n
		case scan1(t, "abort %d", &n):
			l.LastCompleted = n
		case scan1(t, "fail %d", &n):
			l.LastCompleted = n
			failed[n] = true
		case scan1(t, "injected %d", &n):
			failed[n] = true
		case scan1(t, "flushed %d", &n):
			if n > l.MaxFlushed {
				l.MaxFlushed = n
			}
		case scan1(t, "rollover %d", &n):
			l.Rollovers++
		case strings.HasPrefix(t, "kill "):
			s = strings.TrimPrefix(t, "kill ")
			l.KillName = s
		case t == "closing":
			l.Closing = true
		case t == "closed":
			l.Closed = true
		}
	}
	for k := range failed {
		l.Failed = append(l.Failed, k)
	}
	sort.Ints(l.Failed)
	if len(l.Tail) > 12 {
		l.Tail = l.Tail[len(l.Tail)-12:]
	}
	return l
}

func scan1(line, format string, n *int) bool {
	c, err := fmt.Sscanf(line, format, n)
	return err == nil && c == 1
}

// window computes the model states the property allows after this history.
func (r *c17Runner) window(l *c17Log) (lo, hi int) {
	if l.Closed {
		return l.LastCompleted, l.LastCompleted
	}
	hi = l.LastBegin
	if r.cfg == "flush" {
		lo = l.LastCompleted
	} else {
		lo = l.MaxFlushed
	}
	if lo > hi {
		lo = hi
	}
	return
}

func (r *c17Runner) newDir(tag string) string {
	r.mu.Lock()
	r.seqNo++
	n := r.seqNo
	r.mu.Unlock()
	d := filepath.Join(r.base0, fmt.Sprintf("%s-%06d", tag, n))
	os.MkdirAll(d, 0755)
	return d
}

// spawn re-executes this binary as a C17 sub-process.
// status: "exit0" | "killed" | "timeout" | "died:<state>"
func (r *c17Runner) spawn(p *c17Params) (status string, stderr string) {
	pb, _ := json.Marshal(p)
	ctx, cancel := context.WithTimeout(context.Background(), 180*time.Second)
	defer cancel()
	cmd := exec.CommandContext(ctx, r.self)
	cmd.Env = append(os.Environ(), c17EnvRole+"="+p.Role, c17EnvParams+"="+string(pb), "GOMAXPROCS=1", "GOGC=off")
	var eb bytes.Buffer
	cmd.Stderr = &limitedWriter{w: &eb, n: 8000}
	cmd.Stdout = io.Discard
	err := cmd.Run()
	if ctx.Err() != nil {
		return "timeout", eb.String()
	}
	if err == nil {
		return "exit0", eb.String()
	}
	if ee, ok := err.(*exec.ExitError); ok {
		if ws, ok := ee.Sys().(syscall.WaitStatus); ok && ws.Signaled() && ws.Signal() == syscall.SIGKILL {
			return "killed", eb.String()
		}
		return "died:" + ee.String(), eb.String()
	}
	return "died:" + err.Error(), eb.String()
}

type limitedWriter struct {
	w *bytes.Buffer
	n int
}

func (l *limitedWriter) Write(p []byte) (int, error) {
	if room := l.n - l.w.Len(); room > 0 {
		if len(p) > room {
			l.w.Write(p[:room])
		} else {
			l.w.Write(p)
		}
	}
	return len(p), nil
}

func c17ReadJSON(path string, v interface{}) bool {
	b, err := os.ReadFile(path)
	return err == nil && json.Unmarshal(b, v) == nil
}

func c17CopyDir(src, dst string) error {
	return filepath.Walk(src, func(p string, info os.FileInfo, err error) error {
		if err != nil {
			return err
		}
		rel, _ := filepath.Rel(src, p)
		t := filepath.Join(dst, rel)
		if info.IsDir() {
			return os.MkdirAll(t, 0755)
		}
		b, err := os.ReadFile(p)
		if err != nil {
			return err
		}
		return os.WriteFile(t, b, 0644)
	})
}

func c17Site(hook string) string {
	// coarse site = first two components of the hook name
	parts := strings.Split(hook, ".")
	if len(parts) >= 2 {
		return parts[0] + "." + parts[1]
	}
	if hook == "" {
		return "none"
	}
	return hook
}

type c17Case struct {
	Fam    string // kill | short | live | livekill
	K      int
	W      int
	Prefix int
	Len    int // length of the cut write (short/live)
}

func (cs c17Case) id() string {
	return fmt.Sprintf("%s/k%d/w%d/p%d", cs.Fam, cs.K, cs.W, cs.Prefix)
}

func (r *c17Runner) base(role, mode, dir string) *c17Params {
	return &c17Params{Role: role, Mode: mode, Dir: filepath.Join(dir, "db"), Log: filepath.Join(dir, "log"),
		Seed: r.seed, Small: r.small, Cfg: r.cfg, Extra: 3}
}

func (r *c17Runner) caseObj(cs c17Case, l *c17Log, lo, hi int, extra map[string]interface{}) map[string]interface{} {
	m := map[string]interface{}{"scenario": r.scen, "scenario_seed": r.seed, "small": r.small, "config": r.cfg,
		"family": cs.Fam, "k": cs.K, "w": cs.W, "prefix_mode": cs.Prefix, "cut_write_len": cs.Len}
	if l != nil {
		m["kill_hook"] = l.KillName
		m["window"] = []int{lo, hi}
		m["failed_attempts"] = l.Failed
		m["log_tail"] = l.Tail
	}
	for k, v := range extra {
		m[k] = v
	}
	return m
}

// verify runs the verifier on dir and turns its findings into violations.
// fam/site name the fault for the signature.
func (r *c17Worker) verify(dir string, cs c17Case, fam, site string, l *c17Log) *c17VerifyResult {
	c := r.c
	lo, hi := r.window(l)
	p := r.base("verify", "check", dir)
	p.Lo, p.Hi, p.Failed = lo, hi, l.Failed
	pvr, st, stderr := r.call(p)
	switch {
	case st == "timeout":
		c.Inc("subprocess_timeouts")
		return nil
	case st != "ok":
		// the reopening process died: a panic/fatal error inside the database
		// code on a crashed directory is a violation of "reopening succeeds"
		c.Violate(fmt.Sprintf("c17:%s:reopen-process-died", fam),
			fmt.Sprintf("verifier sub-process died; stderr: %s", c17FirstLines(stderr, 8)),
			r.caseObj(cs, l, lo, hi, nil))
		return nil
	case !pvr.Done:
		c.Inconclusive("verifier did not finish (%s): %s", cs.id(), pvr.Err)
		return nil
	}
	vr := *pvr
	c.Inc("reopen_checks")
	for _, pr := range vr.Problems {
		c.Violate(fmt.Sprintf("c17:%s:%s", fam, pr.Symptom), strings.ReplaceAll(pr.Detail, dir, "<dir>")+" [fault site "+site+"]",
			r.caseObj(cs, l, lo, hi, map[string]interface{}{"recovered_j": vr.J, "open_hooks": vr.OpenNames}))
	}
	if len(vr.Problems) == 0 {
		c.Count("later_commits_ok", int64(vr.ExtraOK))
		c.Count("blocks_read_back", int64(vr.BlocksRead))
		c.Count("blocks_confirmed_absent", int64(vr.BlocksAbs))
	}
	if vr.OpenNames["ffldb.rollback.begin"] > 0 {
		c.Inc("recovery_repairs")
		if d := vr.FilesBefore - vr.FilesAfter; d > 0 {
			c.Count("recovery_files_deleted", int64(d))
		}
	}
	return &vr
}

func c17FirstLines(s string, n int) string {
	ls := strings.Split(strings.TrimSpace(s), "\n")
	if len(ls) > n {
		ls = ls[:n]
	}
	return strings.Join(ls, " | ")
}

// runFault executes one kill/short/livekill case.
func (r *c17Worker) runFault(cs c17Case) {
	c := r.c
	dir := r.newDir(cs.Fam)
	defer os.RemoveAll(dir)
	p := r.base("scenario", cs.Fam, dir)
	p.Out = filepath.Join(dir, "scen.json")
	p.K, p.W, p.Prefix = cs.K, cs.W, cs.Prefix
	st, stderr := r.spawn(p)
	if st == "timeout" {
		c.Inc("subprocess_timeouts")
		return
	}
	l := c17ParseLog(p.Log)
	if st != "killed" {
		var sr c17ScenResult
		c17ReadJSON(p.Out, &sr)
		c.Inconclusive("fault %s did not fire (sub-process %s, err=%q, stderr=%s)", cs.id(), st, sr.Err, c17FirstLines(stderr, 4))
		return
	}
	lo, hi := r.window(l)
	site := c17Site(l.KillName)
	c.Inc("killed_at:" + l.KillName)
	switch cs.Fam {
	case "kill":
		c.Inc("kills_performed")
	case "short":
		c.Inc("short_write_cases")
		c.Inc(fmt.Sprintf("short_write_prefix_mode_%d", cs.Prefix))
	case "livekill":
		c.Inc("live_failure_then_kill_cases")
	}
	if l.Rollovers > 0 {
		c.Inc("cases_after_rollover")
		c.Count("rollovers_crossed", int64(l.Rollovers))
	}
	if l.LastBegin > l.LastCompleted {
		c.Inc("kill_mid_commit")
	} else if l.Closing {
		c.Inc("kill_during_close")
	} else {
		c.Inc("kill_between_commits")
	}
	// keep a copy of the crashed directory for the crash-during-repair case
	var copyDir string
	if cs.Fam == "kill" && (!r.c.Quick() || cs.K%2 == 0) {
		copyDir = r.newDir("rec")
		defer os.RemoveAll(copyDir)
		if err := c17CopyDir(filepath.Join(dir, "db"), filepath.Join(copyDir, "db")); err != nil {
			copyDir = ""
		}
	}
	vr := r.verify(dir, cs, cs.Fam, site, l)
	c.Case(fmt.Sprintf("%d/%s/%s", r.seed, r.cfg, cs.id()), vr != nil)
	if vr == nil {
		return
	}
	if vr.J >= 0 && hi > lo {
		switch {
		case vr.J == hi && l.LastBegin > l.LastCompleted:
			c.Inc("recovered_to_interrupted_commit")
		case vr.J == l.LastCompleted:
			c.Inc("recovered_to_previous_commit")
		default:
			c.Inc("recovered_to_earlier_flush_point")
		}
	}
	if r.cfg != "flush" && vr.J >= 0 && vr.J < l.LastCompleted {
		c.Inc("writeback_unflushed_commits_dropped")
	}
	// crash during the repair: kill the reopening process at one of the
	// hooks it hits while opening (rotating position), then reopen again.
	if copyDir != "" && vr.OpenHits > 0 && len(vr.Problems) == 0 && (!r.c.Quick() || cs.K%2 == 0) {
		rot := cs.K
		if r.c.Quick() {
			rot = cs.K / 2 // only even k get here in the quick tier
		}
		m := rot%vr.OpenHits + 1
		kp := r.base("verify", "killopen", copyDir)
		kp.Out = filepath.Join(copyDir, "killopen.json")
		kp.K = m
		kp.Lo, kp.Hi, kp.Failed = lo, hi, l.Failed
		st, _ := r.spawn(kp)
		if st == "timeout" {
			c.Inc("subprocess_timeouts")
			return
		}
		if st != "killed" {
			c.Inconclusive("recovery kill %s/m%d did not fire (%s)", cs.id(), m, st)
			return
		}
		c.Inc("recovery_kill_cases")
		if b, err := os.ReadFile(kp.Out + ".kill"); err == nil {
			c.Inc("killed_at:" + string(b))
			c.Inc("recovery_killed_at:" + string(b))
		}
		rc := cs
		rc.Fam = "recovery"
		v2 := r.verify(copyDir, rc, "recovery", site, l)
		c.Case(fmt.Sprintf("%d/%s/%s/m%d", r.seed, r.cfg, rc.id(), m), v2 != nil)
		if v2 != nil && v2.J >= 0 && v2.J != vr.J {
			// both are inside the window, but a crash during repair must not
			// change which commit boundary is recovered
			c.Violate("c17:recovery:different-state-after-interrupted-repair",
				fmt.Sprintf("first reopen recovered S_%d, reopen after a crash inside the repair recovered S_%d", vr.J, v2.J),
				r.caseObj(rc, l, lo, hi, map[string]interface{}{"repair_kill_position": m}))
		}
	}
}

// runLive executes one live-write-failure case (no kill).
func (r *c17Worker) runLive(cs c17Case) (hitsAfterFail int) {
	c := r.c
	dir := r.newDir("live")
	defer os.RemoveAll(dir)
	p := r.base("scenario", "live", dir)
	p.Out = filepath.Join(dir, "scen.json")
	p.W, p.Prefix = cs.W, cs.Prefix
	st, stderr := r.spawn(p)
	if st == "timeout" {
		c.Inc("subprocess_timeouts")
		return 0
	}
	l := c17ParseLog(p.Log)
	lo, hi := r.window(l)
	var sr c17ScenResult
	ok := c17ReadJSON(p.Out, &sr)
	if st != "exit0" || !ok {
		c.Violate("c17:live:process-died",
			fmt.Sprintf("scenario sub-process %s after an injected write error; stderr: %s", st, c17FirstLines(stderr, 6)),
			r.caseObj(cs, l, lo, hi, nil))
		return 0
	}
	if !sr.Done {
		c.Inconclusive("live scenario did not finish (%s): %s", cs.id(), sr.Err)
		return 0
	}
	if sr.Injected == 0 {
		c.Inconclusive("live failure %s was never injected", cs.id())
		return 0
	}
	c.Inc("live_failure_cases")
	c.Inc(fmt.Sprintf("live_failure_prefix_mode_%d", cs.Prefix))
	if sr.Names["ffldb.rollback.begin"] > 0 {
		c.Inc("live_rollbacks_executed")
	}
	if sr.Names["ffldb.rollback.deletedFile"] > 0 {
		c.Inc("live_rollbacks_across_files")
	}
	if l.Rollovers > 0 {
		c.Count("rollovers_crossed", int64(l.Rollovers))
	}
	for _, pr := range sr.Problems {
		c.Violate("c17:live:"+pr.Symptom, pr.Detail, r.caseObj(cs, l, lo, hi, map[string]interface{}{"injected_attempt": sr.Injected}))
	}
	vr := r.verify(dir, cs, "live", "ffldb.writeData", l)
	c.Case(fmt.Sprintf("%d/%s/%s", r.seed, r.cfg, cs.id()), vr != nil)
	return sr.HitsAfterFail
}

func runC17(c *kit.Ctx) {
	plan := c17PlanFor(c.Tier, c.Seed)
	if c.Shard >= len(plan) {
		return
	}
	self, err := os.Executable()
	if err != nil {
		c.Inconclusive("os.Executable: %v", err)
		return
	}
	sh := plan[c.Shard]
	r := &c17Runner{c: c, self: self, seed: c17ScenSeed(c.Seed, sh.Scen), small: c.Quick(), cfg: sh.Cfg, scen: sh.Scen}
	sc := c17Gen(r.seed, r.small)
	r.nAtt = len(sc.Attempts)
	// scratch space: tmpfs if there is one (SIGKILL semantics are the same and
	// the thousands of leveldb fsyncs cost nothing there), else the work dir
	r.base0 = c.WorkDir
	if st, err := os.Stat("/dev/shm"); err == nil && st.IsDir() {
		c17RemoveStale("/dev/shm")
		d := fmt.Sprintf("/dev/shm/verif-c17-%d-s%d", os.Getpid(), c.Shard)
		if os.MkdirAll(d, 0755) == nil {
			r.base0 = d
			defer os.RemoveAll(d)
		}
	}
	w0 := &c17Worker{c17Runner: r}
	defer func() { w0.srv.stop() }()
	par := 5
	if !c.Quick() {
		par = 2
	}

	// ---- pass 1: count hook hits; positive control (clean close)
	dir := r.newDir("count")
	p := r.base("scenario", "count", dir)
	p.Out = filepath.Join(dir, "scen.json")
	st, stderr := r.spawn(p)
	var cnt c17ScenResult
	if !c17ReadJSON(p.Out, &cnt) || st != "exit0" || !cnt.Done {
		c.Inconclusive("counting pass failed: %s err=%q stderr=%s", st, cnt.Err, c17FirstLines(stderr, 6))
		return
	}
	l := c17ParseLog(p.Log)
	if !l.Closed || l.LastCompleted != r.nAtt {
		c.Inconclusive("counting pass log incomplete")
		return
	}
	if r.cfg == "flush" && (cnt.Names["ffldb.commitTx.afterCacheSwap"] > 0 || cnt.Names["ffldb.commitTx.afterDirectCommit"] != cnt.Commits) {
		c.Inconclusive("flush-every-commit configuration did not write every commit through (%d of %d)", cnt.Names["ffldb.commitTx.afterDirectCommit"], cnt.Commits)
		return
	}
	if r.cfg != "flush" {
		c.Count("writeback_commits_cached", int64(cnt.Names["ffldb.commitTx.afterCacheSwap"]))
		c.Count("writeback_midrun_flushes", int64(cnt.Names["ffldb.commitTx.afterFlush"]))
	} else {
		c.Count("flush_config_commits_written_through", int64(cnt.Names["ffldb.commitTx.afterDirectCommit"]))
	}
	c.Inc("scenarios")
	c.Inc("scenarios_" + r.cfg)
	c.Count("hook_hits_counted", int64(cnt.Hits))
	c.Count("write_data_calls_counted", int64(cnt.PartialCalls))
	c.Count("scenario_commits", int64(cnt.Commits))
	c.Count("scenario_blocks", int64(cnt.Blocks))
	c.Count("scenario_rollovers", int64(cnt.Rollovers))
	c.Max("max:hook_points_distinct", int64(len(cnt.Names)))
	c.Max("max:block_files_in_a_scenario", int64(cnt.FinalFile)+1)
	for n, v := range cnt.Names {
		c.Count("hit:"+n, int64(v))
	}
	if vr := w0.verify(dir, c17Case{Fam: "clean"}, "clean", "close", l); vr != nil {
		c.Inc("clean_close_checks")
		c.Case(fmt.Sprintf("%d/%s/clean", r.seed, r.cfg), true)
	}
	c.Sample(map[string]interface{}{"scenario": sh.Scen, "scenario_seed": r.seed, "config": sh.Cfg, "attempts": r.nAtt,
		"max_block_file_size": sc.MaxFile, "cache_bytes_wbsmall": sc.Cache, "hook_hits_K": cnt.Hits, "write_data_calls_W": cnt.PartialCalls,
		"rollovers": cnt.Rollovers, "block_files": cnt.FinalFile + 1, "flushes_logged": l.MaxFlushed, "hooks": cnt.Names})
	os.RemoveAll(dir)

	// ---- the fault list (a function of the scenario only)
	var faults []c17Case
	for k := 1; k <= cnt.Hits; k++ {
		faults = append(faults, c17Case{Fam: "kill", K: k})
	}
	for w := 1; w <= cnt.PartialCalls && w <= len(cnt.PartialLens); w++ {
		L := cnt.PartialLens[w-1]
		seen := map[int]bool{}
		for mode, n := range []int{0, 1, L - 1} {
			if n < 0 || n >= L || seen[n] {
				continue
			}
			// quick tier: all three prefixes for the block payload, one
			// (rotating) for the 4-byte network/length/checksum fields
			if c.Quick() && w%4 != 3 && mode != w%3 {
				continue
			}
			seen[n] = true
			faults = append(faults, c17Case{Fam: "short", W: w, Prefix: mode, Len: L})
		}
	}
	var lives []c17Case
	for w := 1; w <= cnt.PartialCalls && w <= len(cnt.PartialLens); w++ {
		L := cnt.PartialLens[w-1]
		if c.Quick() {
			lives = append(lives, c17Case{Fam: "live", W: w, Prefix: w % 4, Len: L})
		} else {
			// thorough: two of the four prefix modes per cut write, rotating
			lives = append(lives, c17Case{Fam: "live", W: w, Prefix: w % 4, Len: L})
			lives = append(lives, c17Case{Fam: "live", W: w, Prefix: (w + 2) % 4, Len: L})
		}
	}

	var wg sync.WaitGroup
	ch := make(chan c17Case)
	for i := 0; i < par; i++ {
		wg.Add(1)
		go func(i int) {
			defer wg.Done()
			r := &c17Worker{c17Runner: r}
			if i == 0 {
				r = w0
			} else {
				defer func() { r.srv.stop() }()
			}
			for cs := range ch {
				switch cs.Fam {
				case "live":
					R := r.runLive(cs)
					// live failure followed by a crash inside the error path
					if R > 0 {
						if c.Quick() {
							r.runFault(c17Case{Fam: "livekill", W: cs.W, Prefix: cs.Prefix, Len: cs.Len, K: cs.W%R + 1})
						} else if cs.Prefix == cs.W%4 {
							// thorough: two kill positions per cut write, rotating
							k1, k2 := cs.W%R+1, (cs.W+R/2)%R+1
							r.runFault(c17Case{Fam: "livekill", W: cs.W, Prefix: cs.Prefix, Len: cs.Len, K: k1})
							if k2 != k1 {
								r.runFault(c17Case{Fam: "livekill", W: cs.W, Prefix: cs.Prefix, Len: cs.Len, K: k2})
							}
						}
					}
				default:
					r.runFault(cs)
				}
			}
		}(i)
	}
	for _, cs := range faults {
		ch <- cs
	}
	for _, cs := range lives {
		ch <- cs
	}
	close(ch)
	wg.Wait()
}

// c17RemoveStale removes scratch directories of C17 shards that no longer run
// (a shard killed by the watchdog cannot clean up after itself).
func c17RemoveStale(root string) {
	ms, _ := filepath.Glob(filepath.Join(root, "verif-c17-*"))
	for _, m := range ms {
		var pid, sh int
		if n, _ := fmt.Sscanf(filepath.Base(m), "verif-c17-%d-s%d", &pid, &sh); n != 2 {
			continue
		}
		if _, err := os.Stat(fmt.Sprintf("/proc/%d", pid)); os.IsNotExist(err) {
			os.RemoveAll(m)
		}
	}
}

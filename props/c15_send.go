package props

import (
	"bytes"
	"fmt"
	"math/rand"
	"net"
	"sync"
	"time"

	"github.com/elastos/Elastos.ELA/common"
	"github.com/elastos/Elastos.ELA/core/types"
	"github.com/elastos/Elastos.ELA/core/types/payload"
	"github.com/elastos/Elastos.ELA/p2p"
	"github.com/elastos/Elastos.ELA/p2p/msg"

	"verif/kit"
)

// bufConn is the write end of a "pipe": it records exactly the bytes
// WriteMessage hands to the connection.
type bufConn struct {
	mu  sync.Mutex
	buf bytes.Buffer
}

func (b *bufConn) Read(p []byte) (int, error) { return 0, fmt.Errorf("write only") }
func (b *bufConn) Write(p []byte) (int, error) {
	b.mu.Lock()
	defer b.mu.Unlock()
	return b.buf.Write(p)
}
func (b *bufConn) Close() error                       { return nil }
func (b *bufConn) LocalAddr() net.Addr                { return &net.TCPAddr{} }
func (b *bufConn) RemoteAddr() net.Addr               { return &net.TCPAddr{} }
func (b *bufConn) SetDeadline(t time.Time) error      { return nil }
func (b *bufConn) SetReadDeadline(t time.Time) error  { return nil }
func (b *bufConn) SetWriteDeadline(t time.Time) error { return nil }

// the selector every in-tree caller of WriteMessage uses (p2p/peer/peer.go:673).
func c15GetDposBlock(m p2p.Message) (*types.DposBlock, bool) {
	mb, ok := m.(*msg.Block)
	if !ok {
		return nil, false
	}
	db, ok := mb.Serializable.(*types.DposBlock)
	return db, ok
}

const c15Magic = 0x7e57c0de

// sendAndCompare writes m through p2p.WriteMessage and compares the bytes
// with header + a fresh Serialize of the same message.
func (e *c15Env) sendAndCompare(m p2p.Message) (got, want []byte, err error) {
	conn := &bufConn{}
	var werr error
	p, v, _ := kit.Guard(func() { werr = p2p.WriteMessage(conn, c15Magic, m, time.Minute, c15GetDposBlock) })
	if p {
		return nil, nil, fmt.Errorf("panic in WriteMessage: %v", v)
	}
	if werr != nil {
		return nil, nil, werr
	}
	pl := new(bytes.Buffer)
	if err := m.Serialize(pl); err != nil {
		return nil, nil, err
	}
	hdr, err := p2p.BuildHeader(c15Magic, m.CMD(), pl.Bytes()).Serialize()
	if err != nil {
		return nil, nil, err
	}
	return conn.buf.Bytes(), append(hdr, pl.Bytes()...), nil
}

// cloneWithNewHash copies a real block under a different header hash (the
// send cache does not look at proof of work).
func cloneWithNewHash(r *rand.Rand, b *types.Block) *types.Block {
	nb := &types.Block{Header: b.Header, Transactions: b.Transactions}
	nb.Header.Nonce = r.Uint32()
	nb.Header.Timestamp += uint32(1 + r.Intn(1000))
	return nb
}

type c15SendVariant struct {
	hash    common.Uint256
	block   *types.Block
	confirm *payload.Confirm
	alt     *payload.Confirm
	altExp  bool // hash reserved for the informational two-confirms-one-key experiment
}

func (e *c15Env) otherMsg(r *rand.Rand) p2p.Message {
	switch r.Intn(5) {
	case 0:
		return msg.NewPing(r.Uint64())
	case 1:
		return msg.NewPong(r.Uint64())
	case 2:
		inv := msg.NewInv()
		for i := 0; i < 1+r.Intn(3); i++ {
			var h common.Uint256
			r.Read(h[:])
			inv.AddInvVect(msg.NewInvVect(msg.InvTypeBlock, &h))
		}
		return inv
	case 3:
		gd := msg.NewGetData()
		var h common.Uint256
		r.Read(h[:])
		gd.AddInvVect(msg.NewInvVect(msg.InvTypeConfirmedBlock, &h))
		return gd
	default:
		e.mu.RLock()
		tx := e.txs[e.txIDs[r.Intn(len(e.txIDs))]]
		e.mu.RUnlock()
		return msg.NewTx(tx)
	}
}

func (e *c15Env) checkSendBound() {
	payloads, keys, empty, order := p2p.VerifSendCacheStats()
	e.c.Max("max:d_payloads_cached", int64(payloads))
	e.c.Max("max:d_hash_keys_aux_map", int64(keys))
	e.c.Max("max:d_emptied_hash_keys_aux_map", int64(empty))
	e.c.Max("max:d_order_len", int64(order))
	if payloads > p2p.BlocksCacheSize {
		e.c.Violate("bound:sendcache.payloads", fmt.Sprintf("send cache holds %d serialized payloads, configured bound p2p.BlocksCacheSize=%d", payloads, p2p.BlocksCacheSize), nil)
	}
}

// runSend drives sequences of confirmed/unconfirmed variants of <= 4 block
// hashes interleaved with other commands through p2p.WriteMessage.
func (e *c15Env) runSend(r *rand.Rand, sequences int, src []*types.Block) {
	c := e.c
	for s := 0; s < sequences; s++ {
		k := 1 + r.Intn(4)
		vars := make([]*c15SendVariant, k)
		for i := range vars {
			b := cloneWithNewHash(r, src[r.Intn(len(src))])
			v := &c15SendVariant{hash: b.Hash(), block: b, confirm: e.fabricateConfirm(b)}
			v.alt = e.fabricateConfirm(b)
			v.alt.Votes = v.alt.Votes[:len(v.alt.Votes)-1]
			v.altExp = r.Intn(6) == 0
			vars[i] = v
		}
		kept := map[string]*types.DposBlock{}
		cached := map[string]bool{}
		l := 12 + r.Intn(20)
		trace := ""
		for i := 0; i < l; i++ {
			if r.Intn(10) < 3 {
				m := e.otherMsg(r)
				got, want, err := e.sendAndCompare(m)
				c.Inc("d_other_cmd_sends")
				trace += "o"
				if err != nil {
					c.Note("D: other message %s: %v", m.CMD(), err)
				} else if !bytes.Equal(got, want) {
					c.Violate("sendcache:wrong-bytes:other-command", fmt.Sprintf("command %s: bytes on the wire differ from header+Serialize", m.CMD()), nil)
				}
				continue
			}
			vi := r.Intn(k)
			v := vars[vi]
			conf := r.Intn(2) == 0
			altConfirm := conf && v.altExp
			key := fmt.Sprintf("%d/%v", vi, conf)
			var db *types.DposBlock
			if old := kept[key]; old != nil && !altConfirm && r.Intn(2) == 0 {
				db = old // same object again, as when the decoded-block cache hands out its pointer
			} else {
				db = &types.DposBlock{Block: v.block, HaveConfirm: conf}
				if conf {
					db.Confirm = v.confirm
					if altConfirm && r.Intn(2) == 0 {
						db.Confirm = v.alt
					}
				}
				if !altConfirm {
					kept[key] = db
				}
			}
			hit := p2p.VerifSendCacheHas(v.hash, conf)
			got, want, err := e.sendAndCompare(msg.NewBlock(db))
			trace += fmt.Sprintf("%d%v", vi, map[bool]string{true: "C", false: "u"}[conf])
			c.Inc("d_block_sends")
			if hit {
				c.Inc("d_hits")
			} else {
				c.Inc("d_misses")
			}
			if err != nil {
				c.Violate("sendcache:write-error", fmt.Sprintf("WriteMessage failed for a serializable block message: %v", err), nil)
				continue
			}
			if altConfirm {
				// Two different confirms of ONE block share the key (hash, true). A
				// node holds one confirm per block, so this is reported as a
				// number and not judged.
				c.Inc("d_alt_confirm_sends_info")
				if !bytes.Equal(got, want) {
					c.Inc("d_alt_confirm_other_confirm_served_info")
				}
			} else if !bytes.Equal(got, want) {
				sig := "sendcache:wrong-bytes"
				other := &types.DposBlock{Block: v.block, HaveConfirm: !conf}
				if !conf {
					other.Confirm = v.confirm
				}
				ob, _ := serDpos(other)
				if len(got) > p2p.HeaderSize && bytes.Equal(got[p2p.HeaderSize:], ob) {
					sig = "sendcache:serves-other-confirm-variant"
				}
				c.Violate(sig, fmt.Sprintf("block message (confirmed=%v, cache hit=%v) after sequence %s: %d bytes on the wire, fresh Serialize gives %d bytes", conf, hit, trace, len(got), len(want)),
					map[string]interface{}{"sequence": trace, "confirmed": conf})
			}
			// evictions: keys that were cached and no longer are
			for j, w := range vars {
				for _, cf := range []bool{false, true} {
					kk := fmt.Sprintf("%d/%v", j, cf)
					has := p2p.VerifSendCacheHas(w.hash, cf)
					if cached[kk] && !has {
						c.Inc("d_evictions")
					}
					cached[kk] = has
				}
			}
			e.checkSendBound()
		}
		c.Case("D:"+trace, k >= 2)
		if s < 1 && c.Shard == 0 {
			c.Sample(map[string]interface{}{"kind": "D send sequence (index+C/u = block hash i confirmed/unconfirmed, o = other command)", "sequence": trace, "hashes": k})
		}
	}
}

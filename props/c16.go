package props

import (
	"encoding/json"
	"fmt"
	"math/rand"
	"path/filepath"
	"strings"

	"github.com/elastos/Elastos.ELA/database"
	"github.com/elastos/Elastos.ELA/database/ffldb"

	"verif/kit"
)

// C16 — the block database behaves like an ordered, transactional key-value
// store.
//
// Sequential part: seeded scripts of client operations (transactions,
// commits, rollbacks, nested buckets, cursors, iteration, managed
// transactions and their misuse, close/reopen) are predicted by the model in
// c16_model.go and executed against real ffldb instances (c16_exec.go) under
// three cache configurations: flush on every commit, never flush before close,
// flush at seed-chosen commits / cache sizes. Every result must equal the
// model's prediction (hence be identical across configurations).
//
// Concurrent part (c16_conc.go): 1 writer + 4 readers, recorded
// client-boundary histories checked for linearizability with porcupine.

func init() {
	kit.Register(&kit.Spec{
		ID: "C16",
		Rule: "script = seeded list of ~60 client ops over 12 keys x 3 bucket names nested up to depth 3 (Begin rw/ro, Put/Get/Delete, CreateBucket(IfNotExists)/DeleteBucket, Cursor First/Last/Next/Prev/Seek/Delete/Key/Value, ForEach/ForEachBucket incl. early stop, Commit/Rollback, Update/View returning nil/error/panicking/misusing Commit or Rollback, use after close, Close+reopen, full-tree audits), generated against the model so that ops are meaningful (existing keys, open transactions); each script runs under 3 cache configurations. " +
			"Concurrent: histories of 1 writer + 4 readers over 3 keys with unique values. distinct = hash of the script / of the history's call-return order; non-trivial = the script committed >= 1 write transaction and compared >= 20 results, resp. the history contains overlapping operations and >= 1 committed write",
		Shards: func(tier string) int {
			if tier == "thorough" {
				return 16
			}
			return 8
		},
		TimeoutS: func(tier string) int { return 1800 },
		Run:      runC16,
		Require: []string{"scripts", "script_runs", "steps_compared", "op_begin", "op_commit_rw", "op_rollback", "op_put", "op_get", "op_delete",
			"op_create_bucket", "op_create_bucket_if_not_exists", "op_delete_bucket", "op_foreach", "op_foreach_bucket", "op_foreach_stop",
			"op_cursor_first", "op_cursor_last", "op_cursor_next", "op_cursor_prev", "op_cursor_seek", "op_cursor_delete", "op_cursor_keyvalue",
			"op_update", "op_view", "managed_ret_err", "managed_ret_commit", "managed_ret_rollback", "managed_ret_panic", "op_reopen", "op_audit", "op_use_after_close",
			"cfg_every_commit_flushed", "cfg_never_commits_held_in_cache", "cfg_seeded_forced_flushes", "cfg_seeded_commits_held_in_cache",
			"scripts_all_configs_equal_model", "cross_config_steps_compared",
			"conc_histories", "conc_ops", "conc_histories_linearizable", "conc_overlapping_histories", "conc_rolled_back_writes", "conc_snapshot_delays"},
		Post: func(a *kit.Agg) {
			if a.Counters["cfg_every_commit_cache_not_empty"] > 0 {
				a.Inconclusive("flush-on-every-commit configuration left %d commits in the cache: the configuration did not take effect", a.Counters["cfg_every_commit_cache_not_empty"])
			}
			h, u := a.Counters["conc_histories"], a.Counters["conc_histories_unknown"]
			if h > 0 && u*20 > h {
				a.Inconclusive("porcupine returned Unknown for %d of %d histories (> 5%%)", u, h)
			}
		},
		Assumptions: []string{
			"the model is an ordered map of nested buckets with snapshot transactions written for this check; it shares no code with ffldb",
			"cursor order = all keys in byte order, then all nested buckets in byte order (ffldb's key layout; the interface leaves the relative order open); Seek(k) = first key >= k, else the first nested bucket",
			"per interface.go a cursor is invalidated by any modification of its bucket other than Cursor.Delete and must be repositioned with First/Last/Seek: the script never moves an invalidated cursor and never reads Key/Value right after Cursor.Delete",
			"the internal root entries ffldb-writeloc / ffldb-blockidx are part of the model's initial state (value not compared) and are never written by the script",
			"where interface.go promises an error that ffldb does not raise for degenerate input (Delete(\"\"), Put/CreateBucket with a name used by the other namespace) the script does not generate the input; key and bucket names are disjoint",
			"porcupine (linearizability checker) is correct; logical clock = one shared atomic counter",
		},
	})
}

var (
	c16KeyNames    = []string{"a", "aa", "ab", "b", "c", "d", "e", "f", "g", "m", "x", "zz"}
	c16BucketNames = []string{"B1", "B2", "B3"}
)

// ---------- generator ----------

type c16gen struct {
	r    *rand.Rand
	m    *c16model
	uniq int
}

func (g *c16gen) val() ([]byte, bool) {
	g.uniq++
	switch g.r.Intn(20) {
	case 0:
		return nil, true
	case 1:
		return []byte{}, false
	}
	v := []byte(fmt.Sprintf("v%d", g.uniq))
	for i := g.r.Intn(12); i > 0; i-- {
		v = append(v, byte('a'+g.r.Intn(26)))
	}
	return v, false
}

// paths existing in the view of tx slot t (plus, rarely, a missing one)
func (g *c16gen) path(t int) []string {
	root := g.m.txs[t].root
	if root == nil {
		return nil
	}
	var all [][]string
	var walk func(b *mbucket, p []string)
	walk = func(b *mbucket, p []string) {
		all = append(all, p)
		for _, k := range sortedSubs(b.subs) {
			if len(p) == 0 && k == internalBucket {
				continue
			}
			walk(b.subs[k], append(append([]string{}, p...), k))
		}
	}
	walk(root, nil)
	if g.r.Intn(25) == 0 {
		return []string{c16BucketNames[g.r.Intn(3)], "nope"}
	}
	// bias towards deeper buckets so they see traffic
	p := all[g.r.Intn(len(all))]
	if len(all) > 1 && len(p) == 0 && g.r.Intn(2) == 0 {
		p = all[1+g.r.Intn(len(all)-1)]
	}
	return p
}

func (g *c16gen) key() string {
	if g.r.Intn(40) == 0 {
		return ""
	}
	return c16KeyNames[g.r.Intn(len(c16KeyNames))]
}

func (g *c16gen) seekKey() string {
	switch g.r.Intn(6) {
	case 0:
		return ""
	case 1:
		return "zzz"
	case 2:
		return c16KeyNames[g.r.Intn(len(c16KeyNames))] + "\x00"
	}
	return c16KeyNames[g.r.Intn(len(c16KeyNames))]
}

// txOp proposes an operation inside transaction slot t.
func (g *c16gen) txOp(t int) c16op {
	r := g.r
	// cursors of this tx
	var mine []int
	for i, c := range g.m.curs {
		if c.state != curNone && c.tx == t {
			mine = append(mine, i)
		}
	}
	x := r.Intn(100)
	if len(mine) > 0 && x < 38 {
		cur := mine[r.Intn(len(mine))]
		kinds := []string{"cfirst", "clast", "cseek", "cnext", "cnext", "cnext", "cprev", "cprev", "ckv", "cdel", "cdel"}
		k := kinds[r.Intn(len(kinds))]
		if g.m.curs[cur].inval && r.Intn(3) > 0 {
			k = []string{"cfirst", "clast", "cseek"}[r.Intn(3)]
		}
		op := c16op{Kind: k, Cur: cur}
		if k == "cseek" {
			op.Key = g.seekKey()
		}
		return op
	}
	p := g.path(t)
	switch {
	case x < 52:
		v, isNil := g.val()
		return c16op{Kind: "put", Tx: t, Path: p, Key: g.key(), Val: v, NilV: isNil}
	case x < 60:
		return c16op{Kind: "get", Tx: t, Path: p, Key: g.key()}
	case x < 68:
		return c16op{Kind: "del", Tx: t, Path: p, Key: g.key()}
	case x < 75:
		kind := "mkb"
		if r.Intn(2) == 0 {
			kind = "mkbine"
		}
		name := c16BucketNames[r.Intn(3)]
		if r.Intn(30) == 0 {
			name = ""
		}
		if len(p) >= 3 {
			p = p[:2]
		}
		return c16op{Kind: kind, Tx: t, Path: p, Key: name}
	case x < 79:
		return c16op{Kind: "rmb", Tx: t, Path: p, Key: c16BucketNames[r.Intn(3)]}
	case x < 81:
		return c16op{Kind: "exists", Tx: t, Path: p}
	case x < 86:
		return c16op{Kind: "foreach", Tx: t, Path: p}
	case x < 88:
		return c16op{Kind: "foreachb", Tx: t, Path: p}
	case x < 90:
		return c16op{Kind: "foreach-stop", Tx: t, Path: p, N: r.Intn(4)}
	default:
		return c16op{Kind: "cursor", Tx: t, Path: p, Cur: r.Intn(c16CurSlots)}
	}
}

func (g *c16gen) managed() c16op {
	r := g.r
	op := c16op{Kind: "managed", Tx: c16MSlot, RW: r.Intn(4) > 0}
	switch x := r.Intn(100); {
	case x < 55:
		op.Ret = "nil"
	case x < 75:
		op.Ret = "err"
	case x < 83:
		op.Ret = "commit"
	case x < 91:
		op.Ret = "rollback"
	default:
		op.Ret = "panic"
	}
	// sub-ops are generated against a scratch copy of the model so that they
	// are meaningful; the real application happens in apply(managed)
	if g.m.txs[c16MSlot].state == txOpen || (op.RW && g.m.rwOpen()) || !g.m.dbOpen {
		return op
	}
	save := g.m.txs[c16MSlot]
	saveCurs := g.m.curs
	for i, c := range g.m.curs {
		cc := *c
		if cc.tx == c16MSlot {
			cc.state = curNone
		}
		g.m.curs[i] = &cc
	}
	g.m.txs[c16MSlot] = &mtx{state: txOpen, rw: op.RW, managed: true, root: g.m.committed.clone()}
	n := 1 + r.Intn(8)
	for i := 0; i < n; i++ {
		for try := 0; try < 8; try++ {
			so := g.txOp(c16MSlot)
			so.Tx = c16MSlot
			if st := g.m.apply(so); !st.Skip {
				op.Sub = append(op.Sub, so)
				break
			}
		}
	}
	g.m.txs[c16MSlot] = save
	g.m.curs = saveCurs
	return op
}

// next proposes the next top-level op.
func (g *c16gen) propose() c16op {
	r := g.r
	var open, closed, free []int
	for i := 0; i < c16MSlot; i++ {
		switch g.m.txs[i].state {
		case txOpen:
			open = append(open, i)
		case txClosed:
			closed = append(closed, i)
			free = append(free, i)
		default:
			free = append(free, i)
		}
	}
	if g.m.txs[c16MSlot].state == txClosed {
		closed = append(closed, c16MSlot)
	}
	x := r.Intn(100)
	if len(open) == 0 {
		switch {
		case x < 40:
			return c16op{Kind: "begin", Tx: free[r.Intn(len(free))], RW: true}
		case x < 52:
			return c16op{Kind: "begin", Tx: free[r.Intn(len(free))], RW: false}
		case x < 76:
			return g.managed()
		case x < 84:
			return c16op{Kind: "reopen"}
		case x < 92 && len(closed) > 0:
			return g.staleOp(closed[r.Intn(len(closed))])
		default:
			return c16op{Kind: "audit"}
		}
	}
	switch {
	case x < 72:
		return g.txOp(open[r.Intn(len(open))])
	case x < 84:
		k := "commit"
		if r.Intn(3) == 0 {
			k = "rollback"
		}
		return c16op{Kind: k, Tx: open[r.Intn(len(open))]}
	case x < 90 && len(free) > 0:
		return c16op{Kind: "begin", Tx: free[r.Intn(len(free))], RW: !g.m.rwOpen() && r.Intn(2) == 0}
	case x < 94:
		return g.managed()
	case x < 97 && len(closed) > 0:
		return g.staleOp(closed[r.Intn(len(closed))])
	default:
		return c16op{Kind: "audit"}
	}
}

// staleOp uses a handle of a finished transaction.
func (g *c16gen) staleOp(t int) c16op {
	r := g.r
	for i, c := range g.m.curs {
		if c.state == curDead && c.tx == t && r.Intn(2) == 0 {
			return c16op{Kind: []string{"cfirst", "cnext", "ckv", "cdel", "clast", "cseek", "cprev"}[r.Intn(7)], Cur: i, Key: "a"}
		}
	}
	kinds := []string{"get", "put", "del", "mkb", "rmb", "foreach", "foreachb", "commit", "rollback", "cursor"}
	k := kinds[r.Intn(len(kinds))]
	if t == c16MSlot && (k == "commit" || k == "rollback") {
		k = "get"
	}
	op := c16op{Kind: k, Tx: t, Key: "a", Val: []byte("stale"), Cur: r.Intn(c16CurSlots)}
	if k == "mkb" || k == "rmb" {
		op.Key = "B1"
	}
	return op
}

// genScript builds a script of about n top-level ops and the model's steps.
func c16GenScript(r *rand.Rand, n int) []c16op {
	g := &c16gen{r: r, m: newC16Model()}
	var ops []c16op
	for len(ops) < n {
		var op c16op
		ok := false
		for try := 0; try < 20 && !ok; try++ {
			op = g.propose()
			if st := g.m.apply(op); !st.Skip {
				ok = true
			}
		}
		if !ok {
			break
		}
		ops = append(ops, op)
	}
	// wind down: finish open transactions, audit, reopen, audit
	for i := 0; i < c16MSlot; i++ {
		if g.m.txs[i].state == txOpen {
			k := "rollback"
			if g.m.txs[i].rw && r.Intn(2) == 0 {
				k = "commit"
			}
			op := c16op{Kind: k, Tx: i}
			g.m.apply(op)
			ops = append(ops, op)
		}
	}
	ops = append(ops, c16op{Kind: "audit"}, c16op{Kind: "reopen"}, c16op{Kind: "audit"})
	return ops
}

// c16Predict replays a script on a fresh model.
func c16Predict(ops []c16op) (steps []*c16step, commits int) {
	m := newC16Model()
	for _, op := range ops {
		steps = append(steps, m.apply(op))
	}
	return steps, m.commits
}

// ---------- violation classification ----------

func c16Class(s string) string {
	switch {
	case s == "nil" || s == "false" || s == "ok" || s == "nobucket" || s == "sentinel" || s == "empty" || s == "panic" || s == "panic:user":
		return s
	case strings.HasPrefix(s, "Err"):
		return s
	case strings.HasPrefix(s, "true "):
		return "entry"
	case strings.HasPrefix(s, "false "):
		return "false-but-has-key"
	case strings.HasPrefix(s, "x"):
		return "value"
	case strings.HasPrefix(s, "PANIC"):
		return "PANIC"
	case strings.HasPrefix(s, "nil:") || strings.HasPrefix(s, "["):
		return "listing"
	case strings.HasPrefix(s, "stopped") || strings.HasPrefix(s, "nil calls"):
		return "foreach-calls"
	}
	if len(s) > 24 {
		s = s[:24]
	}
	return s
}

// c16Sig derives the stable signature of a divergence: operation kind, the
// input class captured by the model when it applied the step, and the classes
// of expected / observed result. One signature per defect class: the first
// matching class in priority order wins.
func c16Sig(mm c16mismatch) string {
	st := mm.Step
	op := st.Op.Kind
	flags := map[string]bool{}
	for _, f := range strings.Split(st.Ctx, ",") {
		flags[f] = true
	}
	expC, gotC := c16Class(st.Exp), c16Class(mm.Got)
	layer := "committed-data-only"
	if flags["dirty"] {
		layer = "tx-has-pending-writes"
	}
	switch op {
	case "cnext", "cprev", "cfirst", "clast", "cseek", "ckv":
		name := map[string]string{"cnext": "Next", "cprev": "Prev", "cfirst": "First", "clast": "Last", "cseek": "Seek", "ckv": "Key/Value"}[op]
		switch {
		case flags["use-after-close"]:
			return "cursor." + name + ":use-after-close"
		case flags["unpositioned"]:
			return "cursor." + name + ":on-unpositioned-cursor"
		case op == "cseek" && flags["seek-past-keys"]:
			return "cursor.Seek:past-last-key:" + layer
		case flags["rev"] && flags["cdel"] && (op == "cnext" || op == "cprev"):
			return "cursor:direction-reversal-after-Cursor.Delete:" + layer
		case flags["rev"] && (op == "cnext" || op == "cprev"):
			return "cursor:direction-reversal:" + layer
		case flags["seeked"] && (op == "cnext" || op == "cprev"):
			return "cursor:" + name + "-after-Seek:" + layer
		case flags["cdel"]:
			return "cursor:move-after-Cursor.Delete:" + name
		case flags["wpos"]:
			return "cursor:repositioned-after-write:" + name
		case flags["foreign"]:
			return "cursor:write-to-other-bucket-then-" + name
		}
		return "cursor." + name + ":" + layer
	case "cdel":
		return "cursor.Delete:" + expC + "->" + gotC
	case "audit":
		return "audit:tree-differs"
	case "managed":
		return fmt.Sprintf("managed(rw=%v,ret=%s):%s->%s", st.Op.RW, st.Op.Ret, expC, gotC)
	case "reopen":
		return "reopen:" + mm.Got
	}
	sfx := ""
	if flags["use-after-close"] {
		sfx = ":use-after-close"
	}
	return fmt.Sprintf("%s:%s->%s%s", op, expC, gotC, sfx)
}

// ---------- driving one script through all configurations ----------

func c16Configs(r *rand.Rand, commits int) []c16cfg {
	seeded := c16cfg{Name: "seeded", CacheSize: c16Huge, FlushSecs: c16NeverSec, FlushAt: map[int]bool{}}
	if r.Intn(3) == 0 {
		// size threshold: ~1 entry is 72+key+value bytes, x1.5
		seeded.CacheSize = uint64(150 + r.Intn(1500))
	}
	if commits > 0 {
		for i := 0; i < 1+r.Intn(2); i++ {
			seeded.FlushAt[r.Intn(commits)] = true
		}
	} else {
		seeded.FlushAt[0] = true
	}
	return []c16cfg{
		{Name: "every-commit", CacheSize: 0, FlushSecs: 0},
		{Name: "never", CacheSize: c16Huge, FlushSecs: c16NeverSec},
		seeded,
	}
}

func flatten(steps []*c16step) []*c16step {
	var out []*c16step
	for _, s := range steps {
		out = append(out, s)
		out = append(out, s.Sub...)
	}
	return out
}

func opsStrings(ops []c16op) []string {
	var s []string
	for _, o := range ops {
		s = append(s, o.String())
	}
	return s
}

// c16RunOnce executes ops under cfg in dir; returns the executor.
func c16RunOnce(c *kit.Ctx, dir string, cfg c16cfg, steps []*c16step, count bool) (*c16exec, error) {
	e := &c16exec{c: c, dir: dir, cfg: cfg, count: count}
	err := e.run(steps)
	return e, err
}

// c16Shrink greedily removes ops while the first divergence keeps signature sig.
func c16Shrink(c *kit.Ctx, dir string, cfg c16cfg, ops []c16op, sig string, budget int) []c16op {
	fails := func(cand []c16op) bool {
		if budget <= 0 {
			return false
		}
		budget--
		steps, _ := c16Predict(cand)
		e, err := c16RunOnce(c, dir, cfg, steps, false)
		if err != nil || len(e.mism) == 0 {
			return false
		}
		return c16Sig(e.mism[0]) == sig
	}
	cur := ops
	// unwrap-free simplification: drop chunks
	for size := len(cur) / 2; size >= 1; size /= 2 {
		for i := 0; i+size <= len(cur); {
			cand := append(append([]c16op{}, cur[:i]...), cur[i+size:]...)
			if fails(cand) {
				cur = cand
			} else {
				i += size
			}
		}
	}
	// shrink sub-op lists of managed transactions
	for i := range cur {
		if cur[i].Kind != "managed" {
			continue
		}
		for j := 0; j < len(cur[i].Sub); {
			cand := append([]c16op{}, cur...)
			m := cand[i]
			m.Sub = append(append([]c16op{}, m.Sub[:j]...), m.Sub[j+1:]...)
			cand[i] = m
			if fails(cand) {
				cur = cand
			} else {
				j++
			}
		}
	}
	return cur
}

func runC16(c *kit.Ctx) {
	r := c.Rand("c16-seq")
	nscripts := c.N(30, 300) // per shard (x3 configurations): 240 / 4800 scripts in total
	shrunk := map[string]bool{}
	for q := 0; q < nscripts; q++ {
		// goleveldb clears a 4 MiB memtable on every open / leveldb transaction;
		// most scripts run with a small one (speed only), every 16th with the default
		ffldb.VerifLdbWriteBuffer = 128 << 10
		if q%16 == 7 {
			ffldb.VerifLdbWriteBuffer = 0
			c.Inc("scripts_with_default_leveldb_write_buffer")
		}
		ops := c16GenScript(r, 40+r.Intn(45))
		steps, commits := c16Predict(ops)
		flat := flatten(steps)
		id := fmt.Sprintf("s%d/script%d", c.Shard, q)
		c.Begin("C16 script %s", id)
		c.Inc("scripts")
		compared := 0
		for _, s := range flat {
			if !s.Skip {
				compared++
			}
		}
		cfgs := c16Configs(r, commits)
		var gots [][]string
		allEqual := true
		for ci, cfg := range cfgs {
			dir := filepath.Join(c.WorkDir, fmt.Sprintf("c16-%d", ci))
			e, err := c16RunOnce(c, dir, cfg, steps, true)
			if err != nil {
				c.Inconclusive("C16: cannot create database: %v", err)
				return
			}
			c.Inc("script_runs")
			c.Inc("script_runs_cfg_" + cfg.Name)
			gots = append(gots, e.got)
			if len(e.mism) > 0 {
				allEqual = false
			}
			seen := map[string]bool{}
			for _, mm := range e.mism {
				sig := c16Sig(mm)
				if seen[sig] {
					continue
				}
				seen[sig] = true
				// trace: ops up to the failing top-level step
				upto := ops
				detailOps := opsStrings(upto)
				key := sig
				witness := map[string]interface{}{"script": id, "config": cfg, "step_index": mm.Index, "op": mm.Step.Op.String(),
					"context": mm.Step.Ctx, "expected": mm.Step.Exp, "got": mm.Got}
				if !shrunk[key] && mm.Index == e.mism[0].Index {
					shrunk[key] = true
					small := c16Shrink(c, filepath.Join(c.WorkDir, "c16-shrink"), cfg, ops, sig, 150)
					ssteps, _ := c16Predict(small)
					se, _ := c16RunOnce(c, filepath.Join(c.WorkDir, "c16-shrink"), cfg, ssteps, false)
					if se != nil && len(se.mism) > 0 && c16Sig(se.mism[0]) == sig {
						sm := se.mism[0]
						// cut after the failing top-level op
						fl := flatten(ssteps)
						_ = fl
						witness["minimized_script"] = opsStrings(small)
						witness["minimized_script_json"] = small
						witness["minimized_failing_op"] = sm.Step.Op.String()
						witness["minimized_expected"] = sm.Step.Exp
						witness["minimized_got"] = sm.Got
						c.Inc("witnesses_minimized")
					}
				} else {
					if len(detailOps) > 90 {
						detailOps = detailOps[:90]
					}
					witness["script_ops"] = detailOps
				}
				det := fmt.Sprintf("config %s: %s (context %s): model predicts %s, database returned %s", cfg.Name, mm.Step.Op.String(), mm.Step.Ctx, c16Trunc(mm.Step.Exp, 300), c16Trunc(mm.Got, 300))
				if ms, ok := witness["minimized_script"]; ok {
					det += fmt.Sprintf(" | minimized script: %s | failing op %s: model %s, database %s", strings.Join(ms.([]string), " ; "),
						witness["minimized_failing_op"], c16Trunc(witness["minimized_expected"].(string), 200), c16Trunc(witness["minimized_got"].(string), 200))
				}
				c.Violate(sig, det, witness)
			}
		}
		// cross-configuration comparison of every executed step
		diverged := false
		for i := range flat {
			a := gots[0]
			for k := 1; k < len(gots); k++ {
				if i < len(a) && i < len(gots[k]) && a[i] != "" && gots[k][i] != "" {
					c.Inc("cross_config_steps_compared")
					if a[i] != gots[k][i] {
						diverged = true
					}
				}
			}
		}
		if diverged {
			c.Inc("scripts_with_flush_dependent_results")
		}
		if allEqual {
			c.Inc("scripts_all_configs_equal_model")
		}
		b, _ := json.Marshal(ops)
		c.Case(kit.HashID(b), commits >= 1 && compared >= 20)
		if q == 0 && c.Shard == 0 {
			so := opsStrings(ops)
			if len(so) > 30 {
				so = so[:30]
			}
			c.Sample(map[string]interface{}{"script": id, "ops": len(ops), "write_commits": commits, "first_ops": so, "configs": cfgs})
		}
	}
	ffldb.VerifLdbWriteBuffer = 128 << 10
	c16DocProbes(c)
	runC16Concurrent(c)
}

// c16DocProbes records (as counters and notes, not as violations) where ffldb
// is more lenient than the error list of database/interface.go for degenerate
// input. These inputs are outside the property (they are not reads of an
// ordered map) and are never generated by the scripts.
func c16DocProbes(c *kit.Ctx) {
	if c.Shard != 0 {
		return
	}
	dir := filepath.Join(c.WorkDir, "c16-doc")
	db, err := ffldb.VerifOpen(dir, c18Magic, true, 0, 0, 0)
	if err != nil {
		return
	}
	defer db.Close()
	db.Update(func(tx database.Tx) error {
		m := tx.Metadata()
		m.CreateBucket([]byte("B1"))
		m.Put([]byte("k"), []byte("v"))
		c.Note("doc probe: Delete(\"\") -> %s (interface.go lists ErrKeyRequired)", dbCode(m.Delete([]byte{})))
		c.Note("doc probe: Put(key named like an existing bucket) -> %s (interface.go lists ErrIncompatibleValue)", dbCode(m.Put([]byte("B1"), []byte("v"))))
		_, e := m.CreateBucket([]byte("k"))
		c.Note("doc probe: CreateBucket(name of an existing key) -> %s", dbCode(e))
		c.Note("doc probe: Delete(name of an existing bucket) -> %s (interface.go lists ErrIncompatibleValue)", dbCode(m.Delete([]byte("B1"))))
		c.Inc("doc_probes")
		return nil
	})
}

func c16Trunc(s string, n int) string {
	if len(s) > n {
		return s[:n] + "…"
	}
	return s
}

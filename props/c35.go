package props

import (
	"bytes"
	"crypto/sha256"
	"encoding/binary"
	"encoding/hex"
	"fmt"
	"io"
	"math/rand"
	"net"
	"reflect"
	"runtime"
	"strings"
	"time"

	"github.com/elastos/Elastos.ELA/core/types"
	"github.com/elastos/Elastos.ELA/core/types/payload"
	"github.com/elastos/Elastos.ELA/dpos"
	dmsg "github.com/elastos/Elastos.ELA/dpos/p2p/msg"
	dpeer "github.com/elastos/Elastos.ELA/dpos/p2p/peer"
	"github.com/elastos/Elastos.ELA/elanet"
	"github.com/elastos/Elastos.ELA/p2p"
	"github.com/elastos/Elastos.ELA/p2p/msg"
	"github.com/elastos/Elastos.ELA/p2p/peer"

	"verif/kit"
	"verif/kit/node"
)

// C35 — P2P framing rejects anything but well-formed, authentic messages.
//
// The real p2p.WriteMessage / p2p.ReadMessage are driven with the real message
// factories of both networks (p2p/peer.createMessage + elanet.createMessage;
// dpos/p2p/peer.createMessage + dpos.createMessage) over an in-memory
// net.Conn that counts the bytes taken from it.
//
// Oracle: an independent model of the frame (24-byte header: magic, NUL padded
// command, little-endian length, first four bytes of SHA256d(payload); the
// command table with each command's MaxLength) decides for every byte stream
// whether a frame is well-formed. Honest frames must read back equal (the
// re-encoding of the read message equals the written body); every stream the
// model rejects must make ReadMessage return an error, having consumed at most
// header + min(declared, MaxLength) bytes and allocated at most
// min(declared, MaxLength) + 64 KiB.

const (
	c35Slack      = 64 << 10
	c35MagicEla   = 2017001
	c35MagicDpos  = 2019000
	c35HeaderSize = 24
)

func init() {
	kit.Register(&kit.Spec{
		ID:       "C35",
		Rule:     "per network (main P2P, DPoS) and command of its real message factory: honest messages from reflect-generated values are written with p2p.WriteMessage and read back with p2p.ReadMessage; each frame is then corrupted: every header byte x (8 single-bit flips + random values; all 255 values for a share of frames), sampled payload bytes, declared length in {0, real-1, real+1, MaxLength, MaxLength+1, 2^31, 2^32-1} with and without that many bytes following, truncation at every header byte and sampled payload offsets, foreign magic, unknown / unterminated / other-network commands, two frames back to back; write sequences over 1..3 peers sharing the send cache: blocks re-written while cached (with and without confirmation) mixed with other messages shorter and longer than the block, each read back and compared with the original object. distinct = distinct (network, byte stream); non-trivial = the stream contains at least a full header",
		Shards:   func(tier string) int { return 4 },
		Parallel: 4,
		Run:      runC35,
		// a reader that allocates what a hostile header declares dies under
		// the address-space limit instead of grinding through gigabytes
		MemLimitMB:       3000,
		FatalIsViolation: true,
		FatalSig: func(lastBegin, stderr string) string {
			sig, _ := c02DeathSig(stderr)
			return sig
		},
		TimeoutS: func(tier string) int { return 3600 },
		Require: []string{"roundtrip_ok", "commands_elanet", "commands_dpos", "header_corruptions_rejected", "payload_corruptions_rejected",
			"length_sweep_rejected", "length_over_max_rejected", "truncations_rejected", "foreign_magic_rejected",
			"unknown_command_rejected", "back_to_back_ok", "net_pipe_roundtrips", "big_payload_checksum_failures", "frames_with_exhaustive_header_sweep",
			"seq_block_rewritten_while_cached", "seq_block_rewritten_after_other_message", "seq_confirmed_block_rewritten_while_cached",
			"seq_other_message_between", "seq_other_longer_than_a_block", "seq_other_shorter_than_a_block", "seq_roundtrips_equal", "seq_resent_blocks_equal"},
		Assumptions: []string{
			"allocation is the runtime.MemStats.TotalAlloc delta around one ReadMessage call in a sequential worker; slack 64 KiB",
			"a corrupted stream that is itself a well-formed frame of the same network (e.g. the command ping turned into pong: the header carries no checksum of itself) is not required to fail; such cases are counted (corruption_still_wellformed)",
			"the payload decoders behind the frame are C02's subject: only honest payloads and payloads failing the checksum are used here",
		},
	})
}

// ---- in-memory connection ---------------------------------------------------

type c35Conn struct {
	in  []byte
	pos int
	out bytes.Buffer
}

type c35Addr struct{}

func (c35Addr) Network() string { return "mem" }
func (c35Addr) String() string  { return "mem" }

func (c *c35Conn) Read(p []byte) (int, error) {
	if c.pos >= len(c.in) {
		return 0, io.EOF
	}
	n := copy(p, c.in[c.pos:])
	c.pos += n
	return n, nil
}
func (c *c35Conn) Write(p []byte) (int, error)        { return c.out.Write(p) }
func (c *c35Conn) Close() error                       { return nil }
func (c *c35Conn) LocalAddr() net.Addr                { return c35Addr{} }
func (c *c35Conn) RemoteAddr() net.Addr               { return c35Addr{} }
func (c *c35Conn) SetDeadline(t time.Time) error      { return nil }
func (c *c35Conn) SetReadDeadline(t time.Time) error  { return nil }
func (c *c35Conn) SetWriteDeadline(t time.Time) error { return nil }

// ---- networks -----------------------------------------------------------------

type c35Cmd struct {
	cmd       string
	maxLength uint32
	spec      *c02MsgSpec // nil for tx
}

type c35Net struct {
	name    string
	magic   uint32
	factory p2p.CreateMessage
	cmds    map[string]*c35Cmd
	order   []string
}

func c35GetDposBlock(m p2p.Message) (*types.DposBlock, bool) {
	// the closure both peers hand to WriteMessage
	mb, ok := m.(*msg.Block)
	if !ok {
		return nil, false
	}
	d, ok := mb.Serializable.(*types.DposBlock)
	return d, ok
}

func c35Networks() []*c35Net {
	ela := &c35Net{name: "elanet", magic: c35MagicEla, cmds: map[string]*c35Cmd{},
		factory: peer.VerifCreateMessage(&peer.Config{Magic: c35MagicEla, CreateMessage: elanet.VerifCreateMessage})}
	dp := &c35Net{name: "dpos", magic: c35MagicDpos, cmds: map[string]*c35Cmd{},
		factory: dpeer.VerifCreateMessage(&dpeer.Config{Magic: c35MagicDpos, CreateMessage: dpos.VerifCreateMessage})}
	specs := c02MessageSpecs()
	for i := range specs {
		s := &specs[i]
		var n *c35Net
		switch s.family {
		case "p2pmsg":
			n = ela
		case "dposmsg":
			n = dp
		}
		if s.cmd == p2p.CmdMerkleBlock || strings.HasPrefix(s.cmd, "dpos-") {
			continue // not in any factory: used as unknown commands
		}
		m := s.mk()
		n.cmds[m.CMD()] = &c35Cmd{cmd: m.CMD(), maxLength: m.MaxLength(), spec: s}
		n.order = append(n.order, m.CMD())
	}
	for _, n := range []*c35Net{ela, dp} {
		var t msg.Tx
		n.cmds[p2p.CmdTx] = &c35Cmd{cmd: p2p.CmdTx, maxLength: t.MaxLength()}
		n.order = append(n.order, p2p.CmdTx)
	}
	return []*c35Net{ela, dp}
}

// ---- the frame model ----------------------------------------------------------

type c35Verdict struct {
	ok          bool   // well-formed frame of this network at the head of the stream
	reason      string // why not
	headerLevel bool   // rejected from the 24 header bytes alone
	cmd         *c35Cmd
	declared    uint32
	maxConsume  int // upper bound of bytes a correct reader may take from the stream
	maxAlloc    uint64
}

func c35Sha256d(b []byte) [32]byte {
	a := sha256.Sum256(b)
	return sha256.Sum256(a[:])
}

func c35Model(n *c35Net, stream []byte) c35Verdict {
	v := c35Verdict{maxConsume: c35HeaderSize, maxAlloc: c35Slack}
	if len(stream) < c35HeaderSize {
		v.reason, v.headerLevel, v.maxConsume = "short-header", true, len(stream)
		return v
	}
	h := stream[:c35HeaderSize]
	v.headerLevel = true
	cmdB := h[4:16]
	if bytes.IndexByte(cmdB, 0) < 0 {
		v.reason = "command-not-terminated"
		return v
	}
	if binary.LittleEndian.Uint32(h[0:4]) != n.magic {
		v.reason = "magic"
		return v
	}
	name := string(bytes.TrimRight(cmdB, "\x00"))
	c, known := n.cmds[name]
	if !known {
		v.reason = "unknown-command"
		return v
	}
	v.cmd = c
	v.declared = binary.LittleEndian.Uint32(h[16:20])
	if v.declared > c.maxLength {
		v.reason = "over-max-length"
		return v
	}
	v.headerLevel = false
	v.maxConsume = c35HeaderSize + int(v.declared)
	v.maxAlloc = uint64(v.declared) + c35Slack
	rest := stream[c35HeaderSize:]
	if len(rest) < int(v.declared) {
		v.reason = "short-payload"
		v.maxConsume = len(stream)
		return v
	}
	sum := c35Sha256d(rest[:v.declared])
	if !bytes.Equal(sum[:4], h[20:24]) {
		v.reason = "checksum"
		return v
	}
	v.ok = true
	return v
}

// ---- running one stream through the real reader ------------------------------

type c35Result struct {
	m        p2p.Message
	err      error
	panicked bool
	pval     string
	stack    string
	consumed int
	alloc    uint64
}

func c35Read(n *c35Net, stream []byte) c35Result {
	conn := &c35Conn{in: stream}
	var r c35Result
	var m0, m1 runtime.MemStats
	runtime.ReadMemStats(&m0)
	p, v, st := kit.Guard(func() { r.m, r.err = p2p.ReadMessage(conn, n.magic, time.Minute, n.factory) })
	runtime.ReadMemStats(&m1)
	r.alloc = m1.TotalAlloc - m0.TotalAlloc
	r.consumed = conn.pos
	if p {
		r.panicked, r.pval, r.stack = true, fmt.Sprint(v), st
	}
	return r
}

type c35Run struct {
	c *kit.Ctx
	r *rand.Rand
}

func c35Hex(b []byte) string {
	if len(b) > 600 {
		return hex.EncodeToString(b[:600]) + fmt.Sprintf("...(%d bytes)", len(b))
	}
	return hex.EncodeToString(b)
}

// check runs a stream and compares with the model. kind names the mutation
// class (part of the violation signature, no random data).
func (x *c35Run) check(n *c35Net, stream []byte, kind, what string) (c35Verdict, c35Result) {
	c := x.c
	v := c35Model(n, stream)
	c.Begin("network=%s case=%s stream=%s", n.name, what, c35Hex(c02TailB(stream, 64)))
	res := c35Read(n, stream)
	c.Case(n.name+"/"+string(stream), len(stream) >= c35HeaderSize)
	cas := func() map[string]interface{} {
		return map[string]interface{}{"network": n.name, "mutation": what, "stream_hex": c35Hex(stream), "stream_len": len(stream),
			"model":    map[string]interface{}{"wellformed": v.ok, "reason": v.reason, "declared": v.declared},
			"consumed": res.consumed, "alloc_bytes": res.alloc, "error": fmt.Sprint(res.err)}
	}
	if res.panicked {
		site := c02TopRepoFrameOfStack(c02AfterPanicFrames(res.stack))
		cs := cas()
		cs["stack"] = c02Tail(c02AfterPanicFrames(res.stack), 1500)
		c.Violate("panic:"+site+":"+c02PanicKind(res.pval), fmt.Sprintf("ReadMessage(%s) panics on %s: %s", n.name, what, res.pval), cs)
		return v, res
	}
	if v.ok {
		return v, res // acceptance (or a decode error of the payload) is up to the caller
	}
	if res.err == nil {
		c.Violate("accepted:"+kind+":"+v.reason, fmt.Sprintf("ReadMessage(%s) accepted a stream the frame model rejects (%s) [%s]", n.name, v.reason, what), cas())
		return v, res
	}
	if res.consumed > v.maxConsume {
		c.Violate("overread:"+v.reason, fmt.Sprintf("ReadMessage(%s) took %d bytes from the connection for a frame rejected for %s (at most %d expected) [%s]",
			n.name, res.consumed, v.reason, v.maxConsume, what), cas())
	}
	if res.alloc > v.maxAlloc {
		site := c35AllocSite(n, stream)
		cs := cas()
		cs["alloc_site"] = site
		cs["alloc_limit"] = v.maxAlloc
		c.Violate("alloc:"+site, fmt.Sprintf("ReadMessage(%s) allocated %d bytes while rejecting a frame (%s) with declared length %d (limit %d) at %s [%s]",
			n.name, res.alloc, v.reason, v.declared, v.maxAlloc, site, what), cs)
		c.Max("max:alloc_on_reject_bytes", int64(res.alloc))
	}
	return v, res
}

func c35AllocSite(n *c35Net, stream []byte) string {
	old := runtime.MemProfileRate
	runtime.MemProfileRate = 1
	defer func() { runtime.MemProfileRate = old }()
	before := c02ProfSnapshot(true)
	kit.Guard(func() { p2p.ReadMessage(&c35Conn{in: stream}, n.magic, time.Minute, n.factory) })
	after := c02ProfSnapshot(true)
	site, _ := c02ProfTopSite(before, after)
	return site
}

func c35Frame(n *c35Net, m p2p.Message) ([]byte, error) {
	conn := &c35Conn{}
	var err error
	if p, v, _ := kit.Guard(func() { err = p2p.WriteMessage(conn, n.magic, m, time.Minute, c35GetDposBlock) }); p {
		return nil, fmt.Errorf("WriteMessage panicked: %v", v)
	}
	return conn.out.Bytes(), err
}

func c35Body(m p2p.Message) []byte {
	var b bytes.Buffer
	m.Serialize(&b)
	return b.Bytes()
}

func (x *c35Run) genMessage(cm *c35Cmd, f *c02Filler) (p2p.Message, error) {
	if cm.spec == nil { // tx
		tts := c02AllTxTypes()
		tx, err := c02GenTx(f, tts[f.r.Intn(len(tts))], c02GenVersions[f.r.Intn(len(c02GenVersions))])
		if err != nil {
			return nil, err
		}
		return msg.NewTx(tx), nil
	}
	m := cm.spec.mk()
	var err error
	if p, v, _ := kit.Guard(func() {
		f.Fill(reflect.ValueOf(m), "")
		if cm.spec.fix != nil {
			err = cm.spec.fix(f, m)
		}
	}); p {
		return nil, fmt.Errorf("generator panicked: %v", v)
	}
	return m, err
}

func runC35(c *kit.Ctx) {
	node.InitGlobals(c.WorkDir)
	x := &c35Run{c: c, r: c.Rand("c35")}
	nets := c35Networks()
	// the DPoS version message has two wire layouts selected by a process-wide switch
	if c.Shard%2 == 1 {
		dmsg.SetPayloadVersion(dmsg.DPoSV2Version)
		c.Inc("dpos_payload_version_v2_shards")
	}
	rounds := c.N(1, 6)
	for _, n := range nets {
		for ci, name := range n.order {
			cm := n.cmds[name]
			c.Inc("commands_" + n.name)
			for round := 0; round < rounds; round++ {
				// all 255 other values of every header byte for an eighth of the
				// frames (rotating over commands by shard and round), bit flips
				// plus random values for the rest
				exhaustive := ci%8 == (c.Shard*3+round)%8
				if exhaustive {
					c.Inc("frames_with_exhaustive_header_sweep")
				}
				x.oneMessage(n, cm, round+c.Shard*rounds, exhaustive)
			}
		}
		x.structural(n, nets)
	}
	x.bigPayloads(nets[0])
	x.blockCache(nets[0])
	x.sequences(nets)
	x.overPipe(nets)
}

// oneMessage: one honest message of a command and all corruptions of its frame.
func (x *c35Run) oneMessage(n *c35Net, cm *c35Cmd, round int, exhaustive bool) {
	c, r := x.c, x.r
	f := c02NewFiller(r)
	if round%4 == 3 {
		f.maxSlice = 24
	}
	var m p2p.Message
	var frame []byte
	for try := 0; try < 30 && frame == nil; try++ {
		mm, err := x.genMessage(cm, f)
		if err != nil {
			c.Inc("gen_failed")
			continue
		}
		fr, err := c35Frame(n, mm)
		if err != nil {
			c.Inc("gen_not_writable")
			continue
		}
		if uint32(len(fr)-c35HeaderSize) > cm.maxLength {
			c.Inc("gen_over_max_length")
			continue
		}
		m, frame = mm, fr
	}
	if frame == nil {
		c.Inconclusive("no honest %s/%s message could be generated", n.name, cm.cmd)
		return
	}
	body := frame[c35HeaderSize:]
	what := func(s string, a ...interface{}) string { return n.name + "/" + cm.cmd + ":" + fmt.Sprintf(s, a...) }

	// (1) round trip
	v, res := x.check(n, frame, "honest", what("honest"))
	if !v.ok {
		c.Violate("model-disagrees-with-writer", fmt.Sprintf("WriteMessage(%s/%s) produced a frame the model rejects: %s", n.name, cm.cmd, v.reason),
			map[string]interface{}{"frame_hex": c35Hex(frame)})
		return
	}
	if res.panicked {
		return
	}
	if res.err != nil {
		// the frame is fine; the payload decoder refused the node's own
		// encoding (C04 territory). Count, keep using the frame.
		c.Inc("honest_payload_rejected_by_decoder")
		c.Note("%s/%s: honest body refused by its decoder: %v", n.name, cm.cmd, res.err)
	} else {
		back := c35Body(res.m)
		switch {
		case res.m.CMD() != m.CMD():
			c.Violate("roundtrip:command", fmt.Sprintf("wrote %s, read %s", m.CMD(), res.m.CMD()), map[string]interface{}{"frame_hex": c35Hex(frame)})
		case !bytes.Equal(back, body):
			c.Violate("roundtrip:"+cm.cmd, fmt.Sprintf("%s/%s: the message read back re-encodes differently from the body written", n.name, cm.cmd),
				map[string]interface{}{"frame_hex": c35Hex(frame), "reencoded_hex": c35Hex(back)})
		case res.consumed != len(frame):
			c.Violate("roundtrip:consumed", fmt.Sprintf("%s/%s: consumed %d of a %d-byte frame", n.name, cm.cmd, res.consumed, len(frame)), nil)
		default:
			c.Inc("roundtrip_ok")
			c.Inc("roundtrip_ok:" + n.name + "/" + cm.cmd)
		}
		if lim := uint64(len(body)) + c02Bound(len(body)); res.alloc > lim {
			c.Violate("alloc:accept-path", fmt.Sprintf("%s/%s: reading an honest %d-byte body allocated %d bytes", n.name, cm.cmd, len(body), res.alloc), nil)
		}
		c.Max("max:honest_body_len", int64(len(body)))
		if round == 0 {
			c.Sample(map[string]interface{}{"network": n.name, "command": cm.cmd, "frame_hex": c35Hex(frame), "body_len": len(body),
				"alloc_bytes_on_read": res.alloc})
		}
		// two frames back to back: the reader must stop exactly at the frame end
		two := append(append([]byte(nil), frame...), frame...)
		conn := &c35Conn{in: two}
		okBoth := true
		for k := 0; k < 2; k++ {
			var mm p2p.Message
			var err error
			kit.Guard(func() { mm, err = p2p.ReadMessage(conn, n.magic, time.Minute, n.factory) })
			if err != nil || mm == nil || !bytes.Equal(c35Body(mm), body) {
				okBoth = false
			}
		}
		if okBoth && conn.pos == len(two) {
			c.Inc("back_to_back_ok")
		} else {
			c.Violate("roundtrip:back-to-back", fmt.Sprintf("%s/%s: two frames in one stream were not read as two equal messages", n.name, cm.cmd),
				map[string]interface{}{"frame_hex": c35Hex(frame)})
		}
	}

	// (2) every header byte
	for i := 0; i < c35HeaderSize; i++ {
		var vals []byte
		if exhaustive {
			for d := 1; d < 256; d++ {
				vals = append(vals, frame[i]^byte(d))
			}
		} else {
			for b := 0; b < 8; b++ {
				vals = append(vals, frame[i]^(1<<uint(b)))
			}
			vals = append(vals, frame[i]^byte(1+r.Intn(255)), frame[i]^byte(1+r.Intn(255)))
		}
		for _, nb := range vals {
			s := append([]byte(nil), frame...)
			s[i] = nb
			v, res := x.check(n, s, "header-byte", what("header[%d]=%#x", i, nb))
			switch {
			case v.ok:
				c.Inc("corruption_still_wellformed")
			case res.err != nil:
				c.Inc("header_corruptions_rejected")
				c.Inc("header_rejected:" + v.reason)
			}
		}
	}
	// (3) sampled payload bytes (first, last, random)
	if len(body) > 0 {
		pos := []int{0, len(body) - 1}
		for k := 0; k < 8; k++ {
			pos = append(pos, r.Intn(len(body)))
		}
		for _, p := range pos {
			s := append([]byte(nil), frame...)
			s[c35HeaderSize+p] ^= byte(1 + r.Intn(255))
			v, res := x.check(n, s, "payload-byte", what("payload[%d]", p))
			if v.ok {
				c.Inc("corruption_still_wellformed")
			} else if res.err != nil {
				c.Inc("payload_corruptions_rejected")
			}
		}
	}
	// (4) declared length sweep, with and without that many bytes following
	real := uint32(len(body))
	for _, decl := range []uint32{0, real - 1, real + 1, cm.maxLength, cm.maxLength + 1, 1 << 31, 1<<32 - 1} {
		if decl == real || (real == 0 && decl == 1<<32-1 && cm.maxLength == 1<<32-1) {
			continue
		}
		hdr := append([]byte(nil), frame[:c35HeaderSize]...)
		binary.LittleEndian.PutUint32(hdr[16:20], decl)
		streams := map[string][]byte{"body-as-written": append(append([]byte(nil), hdr...), body...), "header-only": hdr}
		if decl <= 1<<20 { // "that many bytes following"
			fill := make([]byte, decl)
			copy(fill, body)
			streams["declared-bytes"] = append(append([]byte(nil), hdr...), fill...)
		}
		for _, k := range []string{"body-as-written", "header-only", "declared-bytes"} {
			s, ok := streams[k]
			if !ok {
				continue
			}
			v, res := x.check(n, s, "length", what("length=%d(real %d,max %d)/%s", decl, real, cm.maxLength, k))
			if v.ok {
				c.Inc("corruption_still_wellformed")
				continue
			}
			if res.err != nil {
				c.Inc("length_sweep_rejected")
				if v.reason == "over-max-length" {
					c.Inc("length_over_max_rejected")
				}
			}
		}
	}
	// (5) truncated streams
	cuts := []int{}
	for i := 0; i < c35HeaderSize; i++ {
		cuts = append(cuts, i)
	}
	for k := 0; k < 6 && len(body) > 0; k++ {
		cuts = append(cuts, c35HeaderSize+r.Intn(len(body)))
	}
	for _, cut := range cuts {
		v, res := x.check(n, frame[:cut], "truncate", what("truncate@%d", cut))
		if !v.ok && res.err != nil {
			c.Inc("truncations_rejected")
		}
	}
}

// structural: magic and command level rejections.
func (x *c35Run) structural(n *c35Net, nets []*c35Net) {
	c, r := x.c, x.r
	mk := func(magic uint32, cmd []byte, body []byte) []byte {
		h := make([]byte, c35HeaderSize)
		binary.LittleEndian.PutUint32(h[0:4], magic)
		copy(h[4:16], cmd)
		binary.LittleEndian.PutUint32(h[16:20], uint32(len(body)))
		sum := c35Sha256d(body)
		copy(h[20:24], sum[:4])
		return append(h, body...)
	}
	ping := make([]byte, 8)
	// foreign magics (the other network, testnet/regnet values, off by one)
	for _, mg := range []uint32{nets[0].magic, nets[1].magic, 2018101, 2018201, 2019100, 2019200, n.magic + 1, n.magic - 1, 0, 1<<32 - 1, r.Uint32()} {
		if mg == n.magic {
			continue
		}
		v, res := x.check(n, mk(mg, []byte("ping"), ping), "magic", fmt.Sprintf("%s:magic=%d", n.name, mg))
		if !v.ok && res.err != nil {
			c.Inc("foreign_magic_rejected")
		}
	}
	// unknown, unterminated, embedded-NUL and other-network commands
	cmds := [][]byte{[]byte("merkleblock"), []byte("pingx"), []byte("PING"), []byte("pin"), {}, []byte("ping\x00x"), []byte("\x00ping"),
		[]byte("abcdefghijkl"), []byte("pingpingping"), []byte("getheaders"), []byte("headers")}
	for _, o := range nets {
		if o == n {
			continue
		}
		for _, name := range o.order {
			if _, shared := n.cmds[name]; !shared {
				cmds = append(cmds, []byte(name))
			}
		}
	}
	for _, cmd := range cmds {
		v, res := x.check(n, mk(n.magic, cmd, ping), "command", fmt.Sprintf("%s:command=%q", n.name, cmd))
		if !v.ok && res.err != nil {
			c.Inc("unknown_command_rejected")
		} else if v.ok {
			c.Inc("corruption_still_wellformed")
		}
	}
}

// bigPayloads: checksum failures on large bodies (the rejection path must not
// cost more than the body it read).
func (x *c35Run) bigPayloads(n *c35Net) {
	c, r := x.c, x.r
	for _, size := range []int{20000, 45000} {
		data := make([]byte, size)
		r.Read(data)
		m := &msg.TxFilterLoad{Type: 1, Data: data}
		frame, err := c35Frame(n, m)
		if err != nil {
			c.Inconclusive("big txfilter frame: %v", err)
			return
		}
		if v, res := x.check(n, frame, "honest", fmt.Sprintf("big txfilter %d honest", size)); !v.ok || res.err != nil {
			c.Inconclusive("big honest txfilter frame not accepted: %v", res.err)
			return
		}
		s := append([]byte(nil), frame...)
		s[c35HeaderSize+size/2] ^= 0x40
		v, res := x.check(n, s, "payload-byte", fmt.Sprintf("big txfilter %d, one payload bit flipped", size))
		if !v.ok && res.err != nil {
			c.Inc("big_payload_checksum_failures")
		}
	}
}

// blockCache: WriteMessage caches the encoding of block messages by block
// hash; two different block messages must still be written as themselves.
func (x *c35Run) blockCache(n *c35Net) {
	c := x.c
	f := c02NewFiller(x.r)
	for k := 0; k < 4; k++ {
		d1, err := c02GenDposBlock(f)
		if err != nil {
			continue
		}
		d1.HaveConfirm = true
		d1.Confirm = &payload.Confirm{}
		f.Fill(reflect.ValueOf(d1.Confirm), "")
		// same block, another confirmation (a different set of votes)
		d2 := &types.DposBlock{Block: d1.Block, HaveConfirm: true, Confirm: &payload.Confirm{}}
		f.Fill(reflect.ValueOf(d2.Confirm), "")
		var b1, b2 bytes.Buffer
		d1.Serialize(&b1)
		d2.Serialize(&b2)
		if bytes.Equal(b1.Bytes(), b2.Bytes()) {
			continue
		}
		fr1, e1 := c35Frame(n, msg.NewBlock(d1))
		fr2, e2 := c35Frame(n, msg.NewBlock(d2))
		if e1 != nil || e2 != nil {
			continue
		}
		c.Inc("block_cache_pairs")
		r1, r2 := c35Read(n, fr1), c35Read(n, fr2)
		if r1.err != nil || r2.err != nil {
			c.Inc("block_cache_pairs_undecodable")
			continue
		}
		if !bytes.Equal(c35Body(r1.m), b1.Bytes()) || !bytes.Equal(c35Body(r2.m), b2.Bytes()) {
			c.Violate("roundtrip:block-cache-alias", "two block messages with the same block hash and different confirmations: the second one is written with the cached bytes of the first, so it is not read back as itself",
				map[string]interface{}{"block_hash": d1.Hash().String(), "second_confirm_votes": len(d2.Confirm.Votes), "read_back_votes_hex_len": len(c35Body(r2.m))})
		} else {
			c.Inc("block_cache_pairs_distinct_ok")
		}
	}
}

// overPipe: the same round trip over a real net.Pipe with a writer goroutine.
func (x *c35Run) overPipe(nets []*c35Net) {
	c := x.c
	f := c02NewFiller(x.r)
	for _, n := range nets {
		for _, name := range n.order {
			cm := n.cmds[name]
			m, err := x.genMessage(cm, f)
			if err != nil {
				continue
			}
			body := c35Body(m)
			if uint32(len(body)) > cm.maxLength {
				continue
			}
			a, b := net.Pipe()
			done := make(chan error, 1)
			go func() {
				done <- p2p.WriteMessage(a, n.magic, m, 30*time.Second, c35GetDposBlock)
				a.Close()
			}()
			var got p2p.Message
			var rerr error
			kit.Guard(func() { got, rerr = p2p.ReadMessage(b, n.magic, 30*time.Second, n.factory) })
			b.Close()
			werr := <-done
			if len(body) == 0 && rerr == nil {
				// net.Pipe blocks a zero-length Write until the peer reads; the
				// reader of an empty body never does and closes: not a framing matter
				werr = nil
			}
			if werr != nil || rerr != nil {
				c.Inc("net_pipe_not_decodable")
				c.Note("%s/%s over net.Pipe: write err %v, read err %v", n.name, cm.cmd, werr, rerr)
				continue
			}
			if got.CMD() != m.CMD() || !bytes.Equal(c35Body(got), body) {
				c.Violate("roundtrip:"+cm.cmd, fmt.Sprintf("%s/%s over net.Pipe: read back differs", n.name, cm.cmd), map[string]interface{}{"body_hex": c35Hex(body)})
				continue
			}
			c.Inc("net_pipe_roundtrips")
		}
	}
}

package props

import (
	"errors"
	"fmt"
	"strings"

	"github.com/elastos/Elastos.ELA/common"
	"github.com/elastos/Elastos.ELA/core/types"

	"verif/kit"
)

// C24 read-fault family: the random selections made at height h are a
// function of chain data (the block at h-1 and the producer set), whatever
// the node's tip is and whatever happens to the block store.
//
// One fixed chain of blocks and one producer set; the selection entry points
// (getCandidateIndexAtRandom, getSortedProducersWithRandom,
// getRandomDposV2Producers through dpos/state/verif_rand_export.go) are
// evaluated at one height h for several tips of the SAME chain and with a
// block getter that fails for chosen heights:
//
//	healthy            every lookup succeeds
//	prev:nil+err       lookup of h-1 returns (nil, error)
//	prev:nil           lookup of h-1 returns (nil, nil)
//	prev+tip           lookups of h-1 and of the tip fail
//	tip                lookup of the tip fails (h-1 is fine, also when it is the tip)
//	prev:first-k       the first k lookups of h-1 fail, later ones succeed
//	all-but-tip        every lookup fails except that of a tip other than h-1
//
// Oracle: for one (chain, height, entry point, fault pattern) the outcome is
// the same for every tip; and it is either the healthy outcome or an error.
// An outcome that changes with the tip is a violation
// ("nondeterminism:selection-depends-on-tip-after-read-fault"; without any
// injected fault: "nondeterminism:selection-depends-on-tip").

const (
	c24SigTipFault = "nondeterminism:selection-depends-on-tip-after-read-fault"
	c24SigTip      = "nondeterminism:selection-depends-on-tip"
)

type c24StoreFault struct {
	name     string
	prev     int  // 0 ok, 1 (nil, err), 2 (nil, nil)
	tip      bool // lookup of the tip fails
	prevK    int  // first prevK lookups of h-1 fail
	allOther bool // every height except the tip fails
}

func c24StoreFaults() []c24StoreFault {
	return []c24StoreFault{
		{name: "healthy"},
		{name: "prev:nil+err", prev: 1},
		{name: "prev:nil", prev: 2},
		{name: "prev+tip", prev: 1, tip: true},
		{name: "tip", tip: true},
		{name: "prev:first-1", prevK: 1},
		{name: "prev:first-2", prevK: 2},
		{name: "all-but-tip", allOther: true},
	}
}

func c24ReadFault(c *kit.Ctx) {
	r := c.Rand("c24/readfault")
	faults := c24StoreFaults()
	nChains := c.N(6, 40)
	for ci := 0; ci < nChains; ci++ {
		normal := []int{24, 12, 4}[r.Intn(3)]
		cand := []int{72, 24, 8}[r.Intn(3)]
		unclaimed := r.Intn(3)
		f := newC24Fixture(r, normal, cand, unclaimed+normal+f0CRC()+3+r.Intn(60), false)
		chainLen := uint32(30 + r.Intn(40))
		base := uint32(1000 + r.Intn(1<<20))
		for h := base; h < base+chainLen; h++ {
			f.addBlock(r, h)
		}
		height := base + 5 + uint32(r.Intn(int(chainLen)-12)) // selection height; seed block = height-1
		tips := []uint32{height - 1, height, height + 1, height - 2, base, base + chainLen - 1}
		for len(tips) < 12 {
			tips = append(tips, base+uint32(r.Intn(int(chainLen))))
		}

		var curTip uint32
		var fault c24StoreFault
		prevLookups := 0
		var prevFailedTipOK bool
		sawPrevFail := false
		getter := func(h uint32) (*types.Block, error) {
			fail := 0
			switch {
			case fault.allOther && (h != curTip || h == height-1):
				fail = 1
				if h == height-1 {
					prevLookups++
				}
			case h == height-1:
				prevLookups++
				if fault.prev != 0 {
					fail = fault.prev
				} else if prevLookups <= fault.prevK {
					fail = 1
				}
			case h == curTip && fault.tip:
				fail = 1
			}
			b := f.blocks[h]
			if fail == 0 && b != nil {
				return b, nil
			}
			if h == height-1 {
				sawPrevFail = true
			}
			if fail == 2 {
				return nil, nil
			}
			return nil, errors.New("injected block store read error")
		}
		f.arb.RegisterFunction(
			func() uint32 { return curTip },
			func() *common.Uint256 { h := f.blocks[curTip].Hash(); return &h },
			getter, nil)

		type ep struct {
			name string
			run  func() string
		}
		eps := []ep{
			{"getCandidateIndexAtRandom", func() string {
				i, err := f.arb.VerifGetCandidateIndexAtRandom(height, unclaimed, len(f.prodKeys))
				if err != nil {
					return "error:" + err.Error()
				}
				return fmt.Sprint("index=", i)
			}},
			{"getSortedProducersWithRandom", func() string {
				f.arb.LastRandomCandidateHeight = 0
				ps, err := f.arb.VerifGetSortedProducersWithRandom(height, unclaimed)
				if err != nil {
					return "error:" + err.Error()
				}
				return "candidate=" + kit.Hex(ps[unclaimed+normal-1].OwnerPublicKey()[:6]) + " order=" + kit.HashID([]byte(c24Owners(ps)))
			}},
			{"getRandomDposV2Producers", func() string {
				o, err := f.arb.VerifGetRandomDposV2Producers(height, unclaimed, nil)
				if err != nil {
					return "error:" + err.Error()
				}
				return "order=" + kit.HashID([]byte(strings.Join(o, ",")))
			}},
		}
		for _, e := range eps {
			healthy := ""
			for _, fl := range faults {
				fault = fl
				byOutcome := map[string][]uint32{}
				var order []string
				for _, tip := range tips {
					curTip = tip
					prevLookups, sawPrevFail = 0, false
					var out string
					if p, v, _ := kit.Guard(func() { out = e.run() }); p {
						out = fmt.Sprint("panic:", v)
					}
					c.Inc("readfault_calls")
					if sawPrevFail && !fl.tip && tip != height-1 && f.blocks[tip] != nil {
						// the situation the family exists for: the lookup of h-1 really
						// failed while the tip is another, readable block
						prevFailedTipOK = true
						c.Inc("readfault_prev_unreadable_tip_readable")
					}
					if strings.HasPrefix(out, "error:") || strings.HasPrefix(out, "panic:") {
						c.Inc("readfault_outcome_error")
					} else {
						c.Inc("readfault_outcome_selection")
					}
					if _, ok := byOutcome[out]; !ok {
						order = append(order, out)
					}
					byOutcome[out] = append(byOutcome[out], tip)
				}
				c.Inc("readfault_cases")
				c.Inc("readfault_cases:" + e.name)
				c.Inc("readfault_pattern:" + fl.name)
				id := fmt.Sprintf("readfault:%x:h%d:%s:%s", f.blocks[height-1].Hash().Bytes()[:6], height, e.name, fl.name)
				c.Case(id, fl.name != "healthy")
				if fl.name == "healthy" && len(order) == 1 {
					healthy = order[0]
					if strings.HasPrefix(healthy, "error:") {
						c.Inconclusive("read-fault fixture: %s fails on a healthy store: %s", e.name, healthy)
					}
				}
				if len(order) > 1 {
					sig := c24SigTipFault
					if fl.name == "healthy" {
						sig = c24SigTip
					}
					var parts []string
					for _, o := range order {
						parts = append(parts, fmt.Sprintf("tips %v -> %s", byOutcome[o], o))
						if len(parts) == 5 {
							parts = append(parts, fmt.Sprintf("... (%d different outcomes)", len(order)))
							break
						}
					}
					cas := map[string]interface{}{"monitor": "read-fault", "function": e.name, "height": height, "fault": fl.name, "tips": tips, "outcomes": len(order)}
					c.Sample(cas)
					c.Violate(sig,
						fmt.Sprintf("%s(height=%d) over one chain (blocks %d..%d, seed block %d) and one producer set, block store fault %q: the outcome depends on the node's tip: %s. Healthy store: %s", e.name, height, base, base+chainLen-1, height-1, fl.name, strings.Join(parts, "; "), healthy),
						cas)
					continue
				}
				c.Inc("readfault_tip_independent")
				if fl.name != "healthy" && order[0] != healthy && !strings.HasPrefix(order[0], "error:") && !strings.HasPrefix(order[0], "panic:") {
					// tip independent, but neither the healthy selection nor an error:
					// still a function of chain data; counted, not a C24 violation
					c.Inc("readfault_other_deterministic_outcome")
					c.Note("%s: fault %s gives %s on every tip (healthy: %s)", id, fl.name, order[0], healthy)
				}
			}
		}
		if !prevFailedTipOK {
			c.Inc("readfault_chains_without_key_situation")
		}
	}
}

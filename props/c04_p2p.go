package props

import (
	"reflect"
	"time"

	"github.com/elastos/Elastos.ELA/common"
	common2 "github.com/elastos/Elastos.ELA/core/types/common"
	dmsg "github.com/elastos/Elastos.ELA/dpos/p2p/msg"
	"github.com/elastos/Elastos.ELA/p2p/msg"

	"verif/kit"
	"verif/kit/filler"
)

// p2p message round trips (the cheap ones: messages whose codec is
// self-contained; msg.Block / msg.Tx are thin wrappers around the block and
// transaction codecs exercised above).

type p2pKind struct {
	name  string
	fresh func() common.Serializable
}

var c04P2PKinds = []p2pKind{
	{"p2p.Ping", func() common.Serializable { return &msg.Ping{} }},
	{"p2p.Pong", func() common.Serializable { return &msg.Pong{} }},
	{"p2p.GetBlocks", func() common.Serializable { return &msg.GetBlocks{} }},
	{"p2p.Inv", func() common.Serializable { return &msg.Inv{} }},
	{"p2p.GetData", func() common.Serializable { return &msg.GetData{} }},
	{"p2p.NotFound", func() common.Serializable { return &msg.NotFound{} }},
	{"p2p.FilterAdd", func() common.Serializable { return &msg.FilterAdd{} }},
	{"p2p.FilterLoad", func() common.Serializable { return &msg.FilterLoad{} }},
	{"p2p.TxFilterLoad", func() common.Serializable { return &msg.TxFilterLoad{} }},
	{"p2p.Reject", func() common.Serializable { return &msg.Reject{} }},
	{"p2p.Version", func() common.Serializable { return &msg.Version{} }},
	{"p2p.Addr", func() common.Serializable { return &msg.Addr{} }},
	{"p2p.MerkleBlock", func() common.Serializable { return msg.NewMerkleBlock(&common2.Header{}) }},
	{"dpos.Proposal", func() common.Serializable { return &dmsg.Proposal{} }},
	{"dpos.Vote", func() common.Serializable { return &dmsg.Vote{} }},
	{"dpos.GetBlocks", func() common.Serializable { return &dmsg.GetBlocks{} }},
	{"dpos.Inventory", func() common.Serializable { return &dmsg.Inventory{} }},
	{"dpos.RequestConsensus", func() common.Serializable { return &dmsg.RequestConsensus{} }},
	{"dpos.RequestProposal", func() common.Serializable { return &dmsg.RequestProposal{} }},
	{"dpos.IllegalProposals", func() common.Serializable { return &dmsg.IllegalProposals{} }},
	{"dpos.IllegalVotes", func() common.Serializable { return &dmsg.IllegalVotes{} }},
	{"dpos.ConsensusStatus", func() common.Serializable { return &dmsg.ConsensusStatus{} }},
}

func c04P2PConfig(base *filler.Config) *filler.Config {
	cfg := base.Clone()
	cfg.Rules = map[string]filler.Rule{}
	for k, v := range base.Rules {
		cfg.Rules[k] = v
	}
	cfg.Types = map[reflect.Type]func(*filler.Filler, reflect.Value, string){}
	for k, v := range base.Types {
		cfg.Types[k] = v
	}
	cfg.Impl = map[reflect.Type][]reflect.Type{}
	// seconds since the epoch in 32 bits is all the wire carries
	cfg.Types[reflect.TypeOf(time.Time{})] = func(f *filler.Filler, v reflect.Value, path string) {
		f.Leaf(v, "time.Time", path, func(r *filler.Rng, v reflect.Value) {
			v.Set(reflect.ValueOf(time.Unix(int64(r.Uint64()&0xffffffff), 0)))
		})
	}
	// the command name travels in the p2p message header, not in the body
	cfg.Rules["dmsg.Vote.Command"] = filler.Rule{Skip: true}
	cfg.Rules["p2p.NetAddress.IP"] = filler.Rule{FixLen: 16}
	cfg.Rules["msg.FilterLoad.HashFuncs"] = filler.Rule{MaxVal: 50}
	cfg.Rules["msg.FilterLoad.Filter"] = filler.Rule{MaxLen: 300, Cap: 36000} // MaxFilterLoadFilterSize
	cfg.Rules["msg.FilterAdd.Data"] = filler.Rule{MaxLen: 520}                // MaxFilterAddDataSize
	cfg.Rules["msg.TxFilterLoad.Data"] = filler.Rule{MaxLen: 300, Cap: 50000} // MaxTxFilterLoadDataSize
	// caps enforced by the messages' own Serialize/Deserialize
	cfg.Rules["msg.MerkleBlock.Flags"] = filler.Rule{Cap: 1250}   // pact.MaxTxPerBlock / 8
	cfg.Rules["msg.MerkleBlock.Hashes"] = filler.Rule{Cap: 10000} // pact.MaxTxPerBlock
	cfg.Rules["msg.Inv.InvList"] = filler.Rule{Cap: 50000}        // MaxInvPerMsg
	cfg.Rules["msg.GetBlocks.Locator"] = filler.Rule{Cap: 500}    // MaxBlockLocatorsPerMsg
	cfg.Rules["msg.Addr.AddrList"] = filler.Rule{Cap: 1000}       // MaxAddrPerMsg
	cfg.Rules["msg.MerkleBlock.Header"] = filler.Rule{Build: func(f *filler.Filler, v reflect.Value, path string) {
		h := &common2.Header{}
		n := len(f.Leaves)
		filler.GenHeader(f, h, f.Choice(2) == 0)
		for i := n; i < len(f.Leaves); i++ {
			f.Leaves[i].Path = path + f.Leaves[i].Path[len(".Header"):]
		}
		v.Set(reflect.ValueOf(h))
	}}
	return cfg
}

func c04P2P(c *kit.Ctx, j *rtJudge, rs uint64) {
	rr := filler.NewRng(rs)
	saved := j.cfg
	j.cfg = c04P2PConfig(saved)
	defer func() { j.cfg = saved }()
	n := c.N(6, 60)
	for _, k := range c04P2PKinds {
		k := k
		for i := 0; i < n; i++ {
			j.sens = i < 3
			codec := serCodec(func(f *filler.Filler) interface{} {
				v := k.fresh()
				f.Fill(v)
				return v
			}, k.fresh)
			c.Begin("p2p %s %d", k.name, i)
			if o := j.run(k.name, rr.Uint64(), codec); o != nil {
				c.Inc("p2p_roundtrips")
				c.Inc("p2p:" + k.name)
			}
		}
	}
}

package props

import (
	"bytes"
	"encoding/hex"
	"fmt"
	"math"
	"math/rand"

	"github.com/elastos/Elastos.ELA/account"
	"github.com/elastos/Elastos.ELA/common"
	"github.com/elastos/Elastos.ELA/core/contract"
	"github.com/elastos/Elastos.ELA/core/contract/program"
	"github.com/elastos/Elastos.ELA/core/types"
	common2 "github.com/elastos/Elastos.ELA/core/types/common"
	"github.com/elastos/Elastos.ELA/core/types/functions"
	"github.com/elastos/Elastos.ELA/core/types/interfaces"
	"github.com/elastos/Elastos.ELA/core/types/outputpayload"
	"github.com/elastos/Elastos.ELA/core/types/payload"
	crstate "github.com/elastos/Elastos.ELA/cr/state"
	"github.com/elastos/Elastos.ELA/crypto"
	"github.com/elastos/Elastos.ELA/dpos/state"
	"github.com/elastos/Elastos.ELA/utils"

	"verif/kit/node"
)

// ---------------------------------------------------------------------------
// C21 generator pieces (reusable by the level-2 / full-node workload).
//
//   C21World    keys, the table of every output ever created (tx references),
//               and the Tx* builders: one function per transaction kind,
//               returning an interfaces.Transaction with a complete payload.
//               Builders do not sign (state-level processing never verifies);
//               set World.SignPayloads to get payload-level signatures for
//               ProducerInfo / ProcessProducer / ActivateProducer.
//   C21Model    what the DPoS state does not remember but a wallet does:
//               unspent vote / deposit / plain outputs, CR node claims,
//               pending vote withdrawals. Cloned per height so that a reorg
//               can resume from any earlier block.
//   C21Gen      NextBlock(view, model, h): draws 0..4 DPoS-relevant
//               transactions whose validation preconditions hold against the
//               real state `view` (a *state.Arbiters at height h-1) and the
//               model, plus the transactions block validation makes mandatory
//               (NextTurnDPOSInfo, RecordSponsor, RevertToDPOS).
// ---------------------------------------------------------------------------

const c21Owners = 10
const c21Stakers = 3

// key ranges inside node.Key(i)
const (
	c21KOwner  = 10
	c21KNode   = 30 // + alt*c21Owners (4 alternatives)
	c21KStaker = 75
	c21KCR     = 80
	c21KCRNode = 90 // + alt*4
	c21KCRC    = 105
	c21KOrigin = 110
	c21KVoter  = 120
)

type C21World struct {
	keys         map[int]*account.Account
	Refs         map[string]common2.Output
	Genesis      *types.Block
	seq          uint32
	SignPayloads bool
}

func NewC21World() *C21World {
	node.InitGlobals("")
	w := &C21World{keys: map[int]*account.Account{}, Refs: map[string]common2.Output{}}
	w.Genesis = &types.Block{Header: common2.Header{Height: 0, Timestamp: 1500000000}}
	return w
}

func (w *C21World) Key(i int) *account.Account {
	if a, ok := w.keys[i]; ok {
		return a
	}
	a := node.Key(i)
	w.keys[i] = a
	return a
}
func (w *C21World) pub(i int) []byte {
	b, _ := w.Key(i).PublicKey.EncodePoint(true)
	return b
}
func (w *C21World) OwnerKey(i int) []byte       { return w.pub(c21KOwner + i) }
func (w *C21World) NodeKey(i, alt int) []byte   { return w.pub(c21KNode + alt*c21Owners + i) }
func (w *C21World) StakerCode(j int) []byte     { return w.Key(c21KStaker + j).RedeemScript }
func (w *C21World) CROwnerKey(i int) []byte     { return w.pub(c21KCR + i) }
func (w *C21World) CRNodeKey(i, alt int) []byte { return w.pub(c21KCRNode + alt*4 + i) }
func (w *C21World) CRCArbiterKey(i int) []byte  { return w.pub(c21KCRC + i) }
func (w *C21World) OriginKey(i int) []byte      { return w.pub(c21KOrigin + i) }

func (w *C21World) DepositHash(owner int) common.Uint168 {
	ct, _ := contract.CreateDepositContractByPubKey(w.Key(c21KOwner + owner).PublicKey)
	return *ct.ToProgramHash()
}

// NewCRMembers builds n elected CR members (fresh objects: the DPoS state
// mutates them).
func (w *C21World) NewCRMembers(n int) []*crstate.CRMember {
	var ms []*crstate.CRMember
	for i := 0; i < n; i++ {
		code := w.Key(c21KCR + i).RedeemScript
		didCode := append(append([]byte{}, code[:len(code)-1]...), common.DID)
		ct, _ := contract.CreateCRIDContractByCode(code)
		ctd, _ := contract.CreateCRIDContractByCode(didCode)
		ms = append(ms, &crstate.CRMember{
			Info: payload.CRInfo{Code: code, CID: *ct.ToProgramHash(), DID: *ctd.ToProgramHash(),
				NickName: fmt.Sprintf("cr-%d", i)},
			MemberState: crstate.MemberElected,
		})
	}
	return ms
}

// TxReference answers State.GetTxReference from the table of generated outputs.
func (w *C21World) TxReference(tx interfaces.Transaction) (map[*common2.Input]common2.Output, error) {
	res := make(map[*common2.Input]common2.Output)
	for _, in := range tx.Inputs() {
		o, ok := w.Refs[in.ReferKey()]
		if !ok {
			return nil, fmt.Errorf("unknown input %s", in.ReferKey())
		}
		res[in] = o
	}
	return res, nil
}

// record registers the outputs of a transaction and returns their outpoints.
func (w *C21World) record(tx interfaces.Transaction) []common2.OutPoint {
	var ops []common2.OutPoint
	for i, o := range tx.Outputs() {
		op := common2.NewOutPoint(tx.Hash(), uint16(i))
		w.Refs[op.ReferKey()] = *o
		ops = append(ops, *op)
	}
	return ops
}

func (w *C21World) nextSeq() uint32 { w.seq++; return w.seq }

// uniq gives every transaction a distinct hash (attribute nonce).
func (w *C21World) uniq() []*common2.Attribute {
	n := w.nextSeq()
	return []*common2.Attribute{{Usage: common2.Nonce, Data: []byte{byte(n), byte(n >> 8), byte(n >> 16), byte(n >> 24)}}}
}

func c21InputsOf(ops ...common2.OutPoint) []*common2.Input {
	var ins []*common2.Input
	for _, op := range ops {
		ins = append(ins, &common2.Input{Previous: op, Sequence: 0})
	}
	return ins
}

func (w *C21World) stdProgram(keyIdx int) []*program.Program {
	return []*program.Program{{Code: w.Key(keyIdx).RedeemScript, Parameter: []byte{}}}
}

// ---- transaction builders --------------------------------------------------

func (w *C21World) TxCoinbase(h uint32) interfaces.Transaction {
	tx := functions.CreateTransaction(0, common2.CoinBase, 0, &payload.CoinBase{Content: []byte(fmt.Sprintf("c21-%d-%d", h, w.nextSeq()))},
		nil, []*common2.Input{{Previous: common2.OutPoint{Index: math.MaxUint16}, Sequence: math.MaxUint32}},
		[]*common2.Output{{Value: 1, ProgramHash: w.Key(1).ProgramHash, Type: common2.OTNone, Payload: &outputpayload.DefaultOutput{}}}, h, nil)
	return tx
}

func (w *C21World) producerInfo(owner int, nodeKey []byte, nick string, stakeUntil uint32) (*payload.ProducerInfo, byte) {
	info := &payload.ProducerInfo{OwnerKey: w.OwnerKey(owner), NodePublicKey: nodeKey, NickName: nick,
		Url: "http://c21", Location: uint64(owner), NetAddress: "127.0.0.1", StakeUntil: stakeUntil}
	ver := payload.ProducerInfoVersion
	if stakeUntil != 0 {
		ver = payload.ProducerInfoDposV2Version
	}
	if w.SignPayloads {
		buf := new(bytes.Buffer)
		info.SerializeUnsigned(buf, ver)
		info.Signature, _ = w.Key(c21KOwner + owner).Sign(buf.Bytes())
	}
	return info, ver
}

// TxRegisterProducer: one deposit output of `deposit` to the owner's deposit
// address, funded by `in`.
func (w *C21World) TxRegisterProducer(owner int, nodeKey []byte, nick string, stakeUntil uint32,
	deposit common.Fixed64, in common2.OutPoint) interfaces.Transaction {
	info, ver := w.producerInfo(owner, nodeKey, nick, stakeUntil)
	tx := functions.CreateTransaction(common2.TxVersion09, common2.RegisterProducer, ver, info, w.uniq(), c21InputsOf(in),
		[]*common2.Output{{Value: deposit, ProgramHash: w.DepositHash(owner), Type: common2.OTNone, Payload: &outputpayload.DefaultOutput{}}},
		0, w.stdProgram(c21KOwner+owner))
	return tx
}

func (w *C21World) TxUpdateProducer(owner int, nodeKey []byte, nick string, stakeUntil uint32) interfaces.Transaction {
	info, ver := w.producerInfo(owner, nodeKey, nick, stakeUntil)
	return functions.CreateTransaction(common2.TxVersion09, common2.UpdateProducer, ver, info, w.uniq(), nil, nil, 0, w.stdProgram(c21KOwner+owner))
}

func (w *C21World) TxCancelProducer(owner int) interfaces.Transaction {
	p := &payload.ProcessProducer{OwnerKey: w.OwnerKey(owner)}
	if w.SignPayloads {
		buf := new(bytes.Buffer)
		p.SerializeUnsigned(buf, payload.ProcessProducerVersion)
		p.Signature, _ = w.Key(c21KOwner + owner).Sign(buf.Bytes())
	}
	return functions.CreateTransaction(common2.TxVersion09, common2.CancelProducer, payload.ProcessProducerVersion, p, w.uniq(), nil, nil, 0, w.stdProgram(c21KOwner+owner))
}

func (w *C21World) TxActivateProducer(nodeKey []byte) interfaces.Transaction {
	p := &payload.ActivateProducer{NodePublicKey: nodeKey}
	return functions.CreateTransaction(common2.TxVersion09, common2.ActivateProducer, payload.ActivateProducerVersion, p, w.uniq(), nil, nil, 0, nil)
}

// TxVoteV1: TransferAsset v0.9 spending `ins` (plain or earlier vote outputs of
// the same voter address) with one OTVote output.
func (w *C21World) TxVoteV1(voterKey int, ins []common2.OutPoint, amount common.Fixed64, version byte,
	cands []outputpayload.CandidateVotes) interfaces.Transaction {
	out := &common2.Output{Value: amount, ProgramHash: w.Key(voterKey).ProgramHash, Type: common2.OTVote,
		Payload: &outputpayload.VoteOutput{Version: version, Contents: []outputpayload.VoteContent{{VoteType: outputpayload.Delegate, CandidateVotes: cands}}}}
	return functions.CreateTransaction(common2.TxVersion09, common2.TransferAsset, 0, &payload.TransferAsset{}, w.uniq(), c21InputsOf(ins...),
		[]*common2.Output{out}, 0, w.stdProgram(voterKey))
}

// TxPlain: TransferAsset with plain outputs (cancels the votes of any vote
// outputs among `ins`; outputs to a deposit address top up that producer).
func (w *C21World) TxPlain(signerKey int, ins []common2.OutPoint, outs []*common2.Output) interfaces.Transaction {
	return functions.CreateTransaction(common2.TxVersion09, common2.TransferAsset, 0, &payload.TransferAsset{}, w.uniq(), c21InputsOf(ins...), outs, 0, w.stdProgram(signerKey))
}

func (w *C21World) plainOut(keyIdx int, v common.Fixed64) *common2.Output {
	return &common2.Output{Value: v, ProgramHash: w.Key(keyIdx).ProgramHash, Type: common2.OTNone, Payload: &outputpayload.DefaultOutput{}}
}

func (w *C21World) TxReturnDeposit(owner int, ins []common2.OutPoint, toOwner, change common.Fixed64) interfaces.Transaction {
	outs := []*common2.Output{w.plainOut(c21KOwner+owner, toOwner)}
	if change > 0 {
		outs = append(outs, &common2.Output{Value: change, ProgramHash: w.DepositHash(owner), Type: common2.OTNone, Payload: &outputpayload.DefaultOutput{}})
	}
	return functions.CreateTransaction(common2.TxVersion09, common2.ReturnDepositCoin, 0, &payload.ReturnDepositCoin{}, w.uniq(), c21InputsOf(ins...), outs, 0, w.stdProgram(c21KOwner+owner))
}

func (w *C21World) TxExchangeVotes(staker int, in common2.OutPoint, amount common.Fixed64, stakePool common.Uint168) interfaces.Transaction {
	code := w.StakerCode(staker)
	out := &common2.Output{Value: amount, ProgramHash: stakePool, Type: common2.OTStake,
		Payload: &outputpayload.ExchangeVotesOutput{Version: 0, StakeAddress: c21StakeAddr(code)}}
	return functions.CreateTransaction(common2.TxVersion09, common2.ExchangeVotes, 0, &payload.ExchangeVotes{}, w.uniq(), c21InputsOf(in),
		[]*common2.Output{out}, 0, w.stdProgram(c21KStaker+staker))
}

func (w *C21World) TxVoting(staker int, contents []payload.VotesContent) interfaces.Transaction {
	return functions.CreateTransaction(common2.TxVersion09, common2.Voting, payload.VoteVersion, &payload.Voting{Contents: contents}, w.uniq(), nil, nil, 0, w.stdProgram(c21KStaker+staker))
}

func (w *C21World) TxRenewVoting(staker int, renew []payload.RenewalVotesContent) interfaces.Transaction {
	return functions.CreateTransaction(common2.TxVersion09, common2.Voting, payload.RenewalVoteVersion, &payload.Voting{RenewalContents: renew}, w.uniq(), nil, nil, 0, w.stdProgram(c21KStaker+staker))
}

func (w *C21World) TxReturnVotes(staker int, value common.Fixed64) interfaces.Transaction {
	p := &payload.ReturnVotes{ToAddr: w.Key(c21KStaker + staker).ProgramHash, Code: w.StakerCode(staker), Value: value}
	return functions.CreateTransaction(common2.TxVersion09, common2.ReturnVotes, payload.ReturnVotesVersionV0, p, w.uniq(), nil, nil, 0, w.stdProgram(c21KStaker+staker))
}

func (w *C21World) TxClaimReward(claimerKey int, value common.Fixed64) interfaces.Transaction {
	p := &payload.DPoSV2ClaimReward{ToAddr: w.Key(claimerKey).ProgramHash, Code: w.Key(claimerKey).RedeemScript, Value: value}
	return functions.CreateTransaction(common2.TxVersion09, common2.DposV2ClaimReward, payload.DposV2ClaimRewardVersionV0, p, w.uniq(), nil, nil, 0, w.stdProgram(claimerKey))
}

func (w *C21World) TxClaimRewardRealWithdraw(hashes []common.Uint256) interfaces.Transaction {
	return functions.CreateTransaction(common2.TxVersion09, common2.DposV2ClaimRewardRealWithdraw, 0, &payload.DposV2ClaimRewardRealWithdraw{WithdrawTransactionHashes: hashes}, w.uniq(), nil, nil, 0, nil)
}

func (w *C21World) TxVotesRealWithdraw(items []payload.VotesRealWidhdraw) interfaces.Transaction {
	return functions.CreateTransaction(common2.TxVersion09, common2.VotesRealWithdraw, 0, &payload.VotesRealWithdrawPayload{VotesRealWithdraw: items}, w.uniq(), nil, nil, 0, nil)
}

// evidence headers only have to be distinct: the special-tx hash is taken over
// the payload.
func (w *C21World) evHeader(h uint32) []byte {
	hd := common2.Header{Height: h, Nonce: w.nextSeq()}
	buf := new(bytes.Buffer)
	hd.Serialize(buf)
	return buf.Bytes()
}

func (w *C21World) TxIllegalProposal(h uint32, sponsor []byte) interfaces.Transaction {
	ev := func() payload.ProposalEvidence {
		return payload.ProposalEvidence{Proposal: payload.DPOSProposal{Sponsor: sponsor, BlockHash: common.Uint256{byte(w.nextSeq())}, Sign: []byte{1}}, BlockHeader: w.evHeader(h), BlockHeight: h}
	}
	p := &payload.DPOSIllegalProposals{Evidence: ev(), CompareEvidence: ev()}
	return functions.CreateTransaction(common2.TxVersion09, common2.IllegalProposalEvidence, payload.IllegalProposalVersion, p, nil, nil, nil, 0, nil)
}

func (w *C21World) TxIllegalVote(h uint32, signer []byte) interfaces.Transaction {
	ev := func() payload.VoteEvidence {
		return payload.VoteEvidence{
			ProposalEvidence: payload.ProposalEvidence{Proposal: payload.DPOSProposal{Sponsor: signer, BlockHash: common.Uint256{byte(w.nextSeq())}, Sign: []byte{1}}, BlockHeader: w.evHeader(h), BlockHeight: h},
			Vote:             payload.DPOSProposalVote{Signer: signer, Accept: true, Sign: []byte{1}, ProposalHash: common.Uint256{byte(w.nextSeq())}}}
	}
	p := &payload.DPOSIllegalVotes{Evidence: ev(), CompareEvidence: ev()}
	return functions.CreateTransaction(common2.TxVersion09, common2.IllegalVoteEvidence, payload.IllegalVoteVersion, p, nil, nil, nil, 0, nil)
}

func (w *C21World) IllegalBlocksPayload(h uint32, signers [][]byte) *payload.DPOSIllegalBlocks {
	return &payload.DPOSIllegalBlocks{CoinType: payload.ELACoin, BlockHeight: h,
		Evidence:        payload.BlockEvidence{Header: w.evHeader(h), BlockConfirm: []byte{1}, Signers: signers},
		CompareEvidence: payload.BlockEvidence{Header: w.evHeader(h), BlockConfirm: []byte{2}, Signers: signers}}
}

func (w *C21World) TxIllegalBlocks(p *payload.DPOSIllegalBlocks) interfaces.Transaction {
	return functions.CreateTransaction(common2.TxVersion09, common2.IllegalBlockEvidence, payload.IllegalBlockVersion, p, nil, nil, nil, 0, nil)
}

func (w *C21World) TxIllegalSidechain(h uint32, signer []byte) interfaces.Transaction {
	p := &payload.SidechainIllegalData{IllegalType: payload.SidechainIllegalProposal, Height: h, IllegalSigner: signer,
		Evidence:            payload.SidechainIllegalEvidence{DataHash: common.Uint256{byte(w.nextSeq()), 1}},
		CompareEvidence:     payload.SidechainIllegalEvidence{DataHash: common.Uint256{byte(w.nextSeq()), 2}},
		GenesisBlockAddress: "XKUh4GLhFJiqAMTF6HyWQrV9pK9HcGUdfJ", Signs: [][]byte{{1}}}
	return functions.CreateTransaction(common2.TxVersion09, common2.IllegalSidechainEvidence, payload.SidechainIllegalDataVersion, p, nil, nil, nil, 0, nil)
}

func (w *C21World) InactiveArbitratorsPayload(h uint32, sponsor []byte, arbiters [][]byte) *payload.InactiveArbitrators {
	return &payload.InactiveArbitrators{Sponsor: sponsor, Arbitrators: arbiters, BlockHeight: h}
}

func (w *C21World) TxInactiveArbitrators(p *payload.InactiveArbitrators) interfaces.Transaction {
	return functions.CreateTransaction(common2.TxVersion09, common2.InactiveArbitrators, payload.InactiveArbitratorsVersion, p, nil, nil, nil, 0,
		[]*program.Program{{Code: []byte{1}, Parameter: []byte{}}})
}

func (w *C21World) TxRevertToPOW(t payload.RevertType, h uint32) interfaces.Transaction {
	return functions.CreateTransaction(common2.TxVersion09, common2.RevertToPOW, payload.RevertToPOWVersion, &payload.RevertToPOW{Type: t, WorkingHeight: h}, nil, nil, nil, 0, nil)
}

func (w *C21World) TxRevertToDPOS(revertToPOWHeight uint32) interfaces.Transaction {
	return functions.CreateTransaction(common2.TxVersion09, common2.RevertToDPOS, payload.RevertToDPOSVersion,
		&payload.RevertToDPOS{WorkHeightInterval: payload.WorkHeightInterval, RevertToPOWBlockHeight: revertToPOWHeight}, w.uniq(), nil, nil, 0,
		[]*program.Program{{Code: []byte{1}, Parameter: []byte{}}})
}

func (w *C21World) TxNextTurnDPOSInfo(workingHeight uint32, crKeys, dposKeys [][]byte, version byte) interfaces.Transaction {
	return functions.CreateTransaction(common2.TxVersion09, common2.NextTurnDPOSInfo, version,
		&payload.NextTurnDPOSInfo{WorkingHeight: workingHeight, CRPublicKeys: crKeys, DPOSPublicKeys: dposKeys}, nil, nil, nil, 0, nil)
}

func (w *C21World) TxRecordSponsor(sponsor []byte) interfaces.Transaction {
	return functions.CreateTransaction(common2.TxVersion09, common2.RecordSponsor, 0, &payload.RecordSponsor{Sponsor: sponsor}, w.uniq(), nil, nil, 0, nil)
}

func (w *C21World) TxCRClaimNode(did common.Uint168, nodeKey []byte) interfaces.Transaction {
	return functions.CreateTransaction(common2.TxVersion09, common2.CRCouncilMemberClaimNode, payload.CurrentCRClaimDPoSNodeVersion,
		&payload.CRCouncilMemberClaimNode{NodePublicKey: nodeKey, CRCouncilCommitteeDID: did}, w.uniq(), nil, nil, 0, nil)
}

// ---- model -------------------------------------------------------------------

type c21UTXO struct {
	Op  common2.OutPoint
	Val common.Fixed64
	Key int // owning key index
}

type c21Withdraw struct {
	Hash  common.Uint256
	Addr  common.Uint168
	Value common.Fixed64
}

type C21Model struct {
	Plain       []c21UTXO
	Votes       []c21UTXO
	Deposits    [c21Owners][]c21UTXO
	Claims      [][]byte
	ClaimAlt    []int
	NickGen     int
	NodeAlt     [c21Owners]int
	Time        uint32
	PrevHash    common.Uint256
	PrevSponsor []byte // sponsor of the previous block's confirm (nil: none)
	Withdraws   []c21Withdraw
}

func (m *C21Model) Clone() *C21Model {
	n := *m
	n.Plain = append([]c21UTXO(nil), m.Plain...)
	n.Votes = append([]c21UTXO(nil), m.Votes...)
	for i := range m.Deposits {
		n.Deposits[i] = append([]c21UTXO(nil), m.Deposits[i]...)
	}
	n.Claims = append([][]byte(nil), m.Claims...)
	n.ClaimAlt = append([]int(nil), m.ClaimAlt...)
	n.Withdraws = append([]c21Withdraw(nil), m.Withdraws...)
	return &n
}

// NewC21Model funds 4 voter addresses and all owner / staker addresses with
// plain outputs from one synthetic funding transaction.
func NewC21Model(w *C21World, s *C21Sched) *C21Model {
	m := &C21Model{Time: w.Genesis.Timestamp, PrevHash: w.Genesis.Hash(), Claims: make([][]byte, s.CRC), ClaimAlt: make([]int, s.CRC)}
	var outs []*common2.Output
	var keys []int
	add := func(k, n int) {
		for i := 0; i < n; i++ {
			outs = append(outs, w.plainOut(k, 1000000*1e8))
			keys = append(keys, k)
		}
	}
	for v := 0; v < 4; v++ {
		add(c21KVoter+v, 40)
	}
	for o := 0; o < c21Owners; o++ {
		add(c21KOwner+o, 12)
	}
	for j := 0; j < c21Stakers; j++ {
		add(c21KStaker+j, 20)
	}
	tx := w.TxPlain(0, nil, outs)
	for i, op := range w.record(tx) {
		m.Plain = append(m.Plain, c21UTXO{Op: op, Val: outs[i].Value, Key: keys[i]})
	}
	return m
}

func (m *C21Model) takePlain(r *rand.Rand, key int) (c21UTXO, bool) {
	var idx []int
	for i, u := range m.Plain {
		if u.Key == key {
			idx = append(idx, i)
		}
	}
	if len(idx) == 0 {
		return c21UTXO{}, false
	}
	i := idx[r.Intn(len(idx))]
	u := m.Plain[i]
	m.Plain = append(m.Plain[:i], m.Plain[i+1:]...)
	return u, true
}

// ---- generator ------------------------------------------------------------------

type C21Gen struct {
	W     *C21World
	S     *C21Sched
	R     *rand.Rand
	Count func(string)
	// Quiet > 0: from that height on most blocks carry no optional transaction
	Quiet uint32
	// Consensus-mode cycle script (pow-cycle histories): from CycleAt on the
	// generator forces RevertToPOW(NoBlock) as soon as the chain is in DPOS mode,
	// then RevertToDPOS after 3 POW blocks, draws only vote / stake / deposit
	// transactions (the arbiter set must survive) and never reverts to POW
	// spontaneously again.
	// Nurture: never cancel / accuse producers, favour registration and votes
	// (used by the pow-cycle histories so that elections keep succeeding)
	Nurture       bool
	CycleAt       uint32
	CyclePOWSent  bool
	CycleDPOSSent bool
	// evidence-script hooks
	Script c21Script
	// NoSpontaneousPOW: no random RevertToPOW(NoBlock) while arbiters exist
	NoSpontaneousPOW bool
}

// Script hooks of the "evidence" histories (see c21Hist.runEvidenceScript):
//
//	Starve        node key that is never chosen as confirm sponsor (the arbiter
//	              is treated as offline: view changes skip it) - makes it Inactive
//	Hands         owners the random tables must not touch
//	ForceCancel   owner (index+1) that sends CancelProducer in the next DPOS block
//	ForceRegister owner (index+1) that registers (v1) in the next block
type c21Script struct {
	Starve        []byte
	Hands         map[int]bool
	ForceCancel   int
	ForceRegister int
}

func (g *C21Gen) cycling(h uint32) bool { return g.CycleAt != 0 && h >= g.CycleAt }

type c21Prod struct {
	idx int
	p   *state.Producer
}

func (g *C21Gen) producers(v *state.Arbiters) (all []c21Prod, unreg []int) {
	for i := 0; i < c21Owners; i++ {
		p := v.GetProducerByOwnerPublicKey(g.W.OwnerKey(i))
		if p == nil {
			unreg = append(unreg, i)
		} else {
			all = append(all, c21Prod{i, p})
		}
	}
	return
}

func (g *C21Gen) inc(k string) {
	if g.Count != nil {
		g.Count(k)
	}
}

const ela = common.Fixed64(100000000)

// NextBlock builds the block at height h on top of (view, m). It returns nil
// when the chain cannot continue under real consensus rules (DPoS mode, no
// arbiters, and no way to revert to POW yet).
func (g *C21Gen) NextBlock(v *state.Arbiters, m0 *C21Model, h uint32) (*C21Block, *C21Model) {
	w, s, r := g.W, g.S, g.R
	m := m0.Clone()
	cfg := v.ChainParams
	pow := v.ConsensusAlgorithm == state.POW
	v2Active := v.DPoSV2ActiveHeight // MaxUint32 while not scheduled
	b := &C21Block{}
	var txs []interfaces.Transaction
	touchedOwner := map[int]bool{}
	usedNode := map[string]bool{}
	usedNick := map[string]bool{}
	usedStaker := map[int]bool{}
	touchedCR := map[int]bool{}
	claimed := map[int]bool{}
	realWithdrawDone := false
	add := func(tx interfaces.Transaction, op string) {
		txs = append(txs, tx)
		b.Ops = append(b.Ops, op)
		g.inc("tx_" + op)
	}
	txs = append(txs, w.TxCoinbase(h))
	for i := range g.Script.Hands {
		touchedOwner[i] = true
	}

	// -- mandatory transactions ------------------------------------------------
	if h >= s.RecordSponsor && m.PrevSponsor != nil {
		add(w.TxRecordSponsor(m.PrevSponsor), "record_sponsor")
	}
	if v.NeedNextTurnDPOSInfo {
		var crKeys, dposKeys [][]byte
		crKeys = v.GetNextCRCArbiters()
		for _, a := range v.GetNextArbitrators() {
			dposKeys = append(dposKeys, a.NodePublicKey)
		}
		add(w.TxNextTurnDPOSInfo(h+uint32(s.Normal+s.CRC), crKeys, dposKeys, 0), "next_turn_dpos_info")
	}

	arbiters := v.GetArbitrators()
	var normalArbiters [][]byte
	for _, a := range arbiters {
		if a.IsNormal {
			normalArbiters = append(normalArbiters, a.NodePublicKey)
		}
	}
	dposEra := h >= s.CRCOnly
	revertingToPOW := false
	timeStep := uint32(1 + r.Intn(120))

	if dposEra && !pow {
		noBlock := func() {
			// nobody can confirm a block (or the arbiters are simply silent):
			// after RevertToPOWNoBlockTime a miner reverts to POW
			timeStep = uint32(cfg.DPoSConfiguration.RevertToPOWNoBlockTime) + 1 + uint32(r.Intn(100))
			add(w.TxRevertToPOW(payload.NoBlock, h), "revert_to_pow_NoBlock")
			revertingToPOW = true
		}
		switch {
		case h >= s.NewCR && len(arbiters) == 0 && (v.NoProducers || v.NoClaimDPOSNode):
			t := payload.NoProducers
			if !v.NoProducers {
				t = payload.NoClaimDPOSNode
			}
			if t == payload.NoClaimDPOSNode && h > v2Active {
				noBlock() // the node does not create the NoClaimDPOSNode transaction any more
			} else {
				add(w.TxRevertToPOW(t, h), "revert_to_pow_"+t.String())
				revertingToPOW = true
			}
		case len(normalArbiters) == 0 && h < s.NewCR:
			return nil, nil
		case g.cycling(h) && !g.CyclePOWSent && len(normalArbiters) > 0:
			g.CyclePOWSent = true
			noBlock()
		case h >= s.NewCR && (len(normalArbiters) == 0 || (r.Intn(40) == 0 && !g.cycling(h) && !g.NoSpontaneousPOW)):
			noBlock()
		}
	}
	if pow && h >= s.NewCR && v.DPOSWorkHeight <= h && v.DPOSWorkHeight == 0 && len(normalArbiters) > 0 &&
		h > v.RevertToPOWBlockHeight+1 && ((!g.cycling(h) && r.Intn(4) == 0) || (g.cycling(h) && h >= v.RevertToPOWBlockHeight+3)) {
		if g.cycling(h) {
			g.CyclePOWSent = true // the chain was already in POW mode when the script started
			g.CycleDPOSSent = true
		}
		b.Pre = append(b.Pre, C21Pre{Kind: "need-revert-to-dpos"})
		add(w.TxRevertToDPOS(v.RevertToPOWBlockHeight), "revert_to_dpos")
	}

	// -- optional transactions ---------------------------------------------------
	nOps := []int{0, 0, 1, 1, 1, 1, 2, 2, 2, 3, 3, 4}[r.Intn(12)]
	if h == s.VoteStatistics {
		nOps = 2
	}
	if g.Quiet != 0 && h >= g.Quiet && r.Intn(5) != 0 {
		nOps = 0
	}
	all, unreg := g.producers(v)
	byState := func(sts ...state.ProducerState) []c21Prod {
		var res []c21Prod
		for _, p := range all {
			for _, st := range sts {
				if p.p.State() == st && !touchedOwner[p.idx] {
					res = append(res, p)
				}
			}
		}
		return res
	}
	activeV1Owners := func() [][]byte { // candidates accepted by checkVoteProducerContent
		var res [][]byte
		for _, p := range all {
			if p.p.State() == state.Active && (p.p.Identity() == state.DPoSV1 || p.p.Identity() == state.DPoSV1V2) {
				res = append(res, p.p.OwnerPublicKey())
			}
		}
		return res
	}
	pickSome := func(keys [][]byte, max int) [][]byte {
		if len(keys) == 0 {
			return nil
		}
		n := 1 + r.Intn(max)
		if n > len(keys) {
			n = len(keys)
		}
		perm := r.Perm(len(keys))
		var res [][]byte
		for _, i := range perm[:n] {
			res = append(res, keys[i])
		}
		return res
	}
	nodeKeyFree := func(k []byte) bool {
		hk := hex.EncodeToString(k)
		return !usedNode[hk] && !v.ProducerOrCRNodePublicKeyExists(k) && !v.ProducerOwnerPublicKeyExists(k)
	}
	newNick := func() string {
		m.NickGen++
		return fmt.Sprintf("nick-%d-%d", m.NickGen, w.nextSeq())
	}

	type opFn func() bool
	ops := map[string]opFn{}

	ops["register"] = func() bool {
		if len(unreg) == 0 || h < s.VoteStart {
			return false
		}
		var cand []int
		for _, i := range unreg {
			// the last two owners only register once DPoS v2 registration is possible
			if !touchedOwner[i] && (i < c21Owners-2 || h-1 >= s.DPoSV2Start) {
				cand = append(cand, i)
			}
		}
		if len(cand) == 0 {
			return false
		}
		o := cand[r.Intn(len(cand))]
		nodeKey := w.NodeKey(o, 0)
		if r.Intn(4) == 0 {
			nodeKey = w.OwnerKey(o)
		}
		if (!bytes.Equal(nodeKey, w.OwnerKey(o)) && !nodeKeyFree(nodeKey)) || usedNode[hex.EncodeToString(nodeKey)] {
			return false
		}
		var stakeUntil uint32
		canV1 := h-1 <= v2Active
		canV2 := h-1 >= s.DPoSV2Start
		if canV2 && (!canV1 || r.Intn(2) == 0) {
			stakeUntil = h + s.MinStakeLock + 1 + uint32(r.Intn(40))
			if r.Intn(3) > 0 {
				stakeUntil += 100000
			}
		} else if !canV1 {
			return false
		}
		dep := common.Fixed64(crstate.MinDepositAmount)
		if stakeUntil != 0 {
			dep = common.Fixed64(crstate.MinDPoSV2DepositAmount)
		}
		if r.Intn(3) == 0 {
			dep += common.Fixed64(1+r.Intn(3000)) * ela
		}
		in, ok := m.takePlain(r, c21KOwner+o)
		if !ok {
			return false
		}
		nick := newNick()
		tx := w.TxRegisterProducer(o, nodeKey, nick, stakeUntil, dep, in.Op)
		ops := w.record(tx)
		m.Deposits[o] = append(m.Deposits[o], c21UTXO{Op: ops[0], Val: dep, Key: c21KOwner + o})
		touchedOwner[o] = true
		usedNode[hex.EncodeToString(nodeKey)] = true
		usedNick[nick] = true
		if stakeUntil != 0 {
			add(tx, "register_v2")
		} else {
			add(tx, "register_v1")
		}
		// remove from unreg
		for i, x := range unreg {
			if x == o {
				unreg = append(unreg[:i], unreg[i+1:]...)
				break
			}
		}
		return true
	}

	ops["update"] = func() bool {
		var cand []c21Prod
		for _, p := range all {
			if touchedOwner[p.idx] || p.p.State() == state.Returned {
				continue
			}
			cand = append(cand, p)
		}
		if len(cand) == 0 {
			return false
		}
		p := cand[r.Intn(len(cand))]
		info := p.p.Info()
		nodeKey, nick, stakeUntil := info.NodePublicKey, info.NickName, info.StakeUntil
		kind := ""
		if p.p.State() == state.Canceled || p.p.State() == state.Illegal {
			// validation has no state check for a plain info update; keep it rare
			if r.Intn(4) != 0 {
				return false
			}
			kind = "_of_" + p.p.State().String()
		}
		changed := false
		if r.Intn(2) == 0 {
			nick = newNick()
			changed = true
		}
		if r.Intn(3) == 0 {
			alt := (m.NodeAlt[p.idx] + 1) % 4
			k := w.NodeKey(p.idx, alt)
			if nodeKeyFree(k) {
				nodeKey = k
				m.NodeAlt[p.idx] = alt
				changed = true
			}
		}
		switch p.p.Identity() {
		case state.DPoSV1:
			if h > s.DPoSV2Start && p.p.State() == state.Active && h < v2Active && r.Intn(2) == 0 {
				stakeUntil = h + s.MinStakeLock + 1 + uint32(r.Intn(40))
				if r.Intn(3) > 0 {
					stakeUntil += 100000
				}
				changed = true
			}
		case state.DPoSV2, state.DPoSV1V2:
			if h > info.StakeUntil {
				return false // expired
			}
			st := p.p.State()
			if (st == state.Active || st == state.Inactive || st == state.Illegal) && r.Intn(3) == 0 {
				stakeUntil = info.StakeUntil + 1 + uint32(r.Intn(30))
				changed = true
			}
		}
		if !changed {
			return false
		}
		tx := w.TxUpdateProducer(p.idx, nodeKey, nick, stakeUntil)
		touchedOwner[p.idx] = true
		usedNode[hex.EncodeToString(nodeKey)] = true
		add(tx, "update"+kind)
		if stakeUntil != info.StakeUntil {
			g.inc("tx_update_stake_until")
		}
		if !bytes.Equal(nodeKey, info.NodePublicKey) {
			g.inc("tx_update_node_key")
		}
		return true
	}

	ops["cancel"] = func() bool {
		if pow {
			return false
		}
		var cand []c21Prod
		for _, p := range byState(state.Pending, state.Active, state.Inactive) {
			switch p.p.Identity() {
			case state.DPoSV1:
				cand = append(cand, p)
			case state.DPoSV1V2:
				if h > p.p.Info().StakeUntil {
					cand = append(cand, p)
				}
			}
		}
		if len(cand) == 0 {
			return false
		}
		p := cand[r.Intn(len(cand))]
		touchedOwner[p.idx] = true
		add(w.TxCancelProducer(p.idx), "cancel_from_"+p.p.State().String())
		return true
	}

	ops["activate"] = func() bool {
		var cand []c21Prod
		for _, p := range all {
			if touchedOwner[p.idx] {
				continue
			}
			st := p.p.State()
			ok := st == state.Inactive
			if h >= s.ActivateIllegal {
				ok = ok || st == state.Illegal
				if h < s.NewCR {
					ok = ok || st == state.Active
				}
			}
			if !ok {
				continue
			}
			arh := p.p.ActivateRequestHeight()
			if h > arh && h-arh <= state.ActivateDuration {
				continue
			}
			var min common.Fixed64
			if h >= v2Active {
				if p.p.Identity() == state.DPoSV1 {
					continue
				}
				min = crstate.MinDPoSV2DepositAmount
			} else if p.p.Identity() == state.DPoSV2 {
				min = crstate.MinDPoSV2DepositAmount
			} else {
				min = crstate.MinDepositAmount
			}
			if p.p.TotalAmount()-p.p.Penalty() < min {
				continue
			}
			cand = append(cand, p)
		}
		if len(cand) == 0 {
			return false
		}
		p := cand[r.Intn(len(cand))]
		touchedOwner[p.idx] = true
		add(w.TxActivateProducer(p.p.NodePublicKey()), "activate_from_"+p.p.State().String())
		return true
	}

	ops["vote_v1"] = func() bool {
		if h >= v2Active || h < s.VoteStart {
			return false
		}
		cands := pickSome(activeV1Owners(), 4)
		if len(cands) == 0 {
			return false
		}
		voter := c21KVoter + r.Intn(4)
		var ins []common2.OutPoint
		// re-vote: spend an earlier vote output of the same voter
		if r.Intn(3) == 0 && h != s.VoteStatistics {
			for i, u := range m.Votes {
				if u.Key == voter {
					ins = append(ins, u.Op)
					m.Votes = append(m.Votes[:i], m.Votes[i+1:]...)
					g.inc("tx_vote_v1_revote")
					break
				}
			}
		}
		if len(ins) == 0 {
			u, ok := m.takePlain(r, voter)
			if !ok {
				return false
			}
			ins = append(ins, u.Op)
		}
		amount := common.Fixed64(1+r.Intn(5000)) * ela
		version := byte(outputpayload.VoteProducerAndCRVersion)
		if h < s.CRVotingStart || r.Intn(5) == 0 {
			version = outputpayload.VoteProducerVersion
		}
		var cv []outputpayload.CandidateVotes
		for _, k := range cands {
			c := outputpayload.CandidateVotes{Candidate: k}
			if version == outputpayload.VoteProducerAndCRVersion {
				c.Votes = common.Fixed64(1 + r.Int63n(int64(amount)))
			}
			cv = append(cv, c)
		}
		tx := w.TxVoteV1(voter, ins, amount, version, cv)
		ops := w.record(tx)
		m.Votes = append(m.Votes, c21UTXO{Op: ops[0], Val: amount, Key: voter})
		add(tx, fmt.Sprintf("vote_v1_ver%d", version))
		return true
	}

	ops["cancel_vote"] = func() bool {
		if pow || len(m.Votes) == 0 || h == s.VoteStatistics {
			return false
		}
		i := r.Intn(len(m.Votes))
		u := m.Votes[i]
		m.Votes = append(m.Votes[:i], m.Votes[i+1:]...)
		tx := w.TxPlain(u.Key, []common2.OutPoint{u.Op}, []*common2.Output{w.plainOut(u.Key, u.Val)})
		ops := w.record(tx)
		m.Plain = append(m.Plain, c21UTXO{Op: ops[0], Val: u.Val, Key: u.Key})
		add(tx, "cancel_vote_v1")
		return true
	}

	ops["topup"] = func() bool {
		if pow || len(all) == 0 || h == s.VoteStatistics {
			return false
		}
		p := all[r.Intn(len(all))]
		u, ok := m.takePlain(r, c21KOwner+p.idx)
		if !ok {
			return false
		}
		val := common.Fixed64(1+r.Intn(2500)) * ela
		tx := w.TxPlain(c21KOwner+p.idx, []common2.OutPoint{u.Op}, []*common2.Output{
			{Value: val, ProgramHash: w.DepositHash(p.idx), Type: common2.OTNone, Payload: &outputpayload.DefaultOutput{}},
			w.plainOut(c21KOwner+p.idx, u.Val-val)})
		ops := w.record(tx)
		m.Deposits[p.idx] = append(m.Deposits[p.idx], c21UTXO{Op: ops[0], Val: val, Key: c21KOwner + p.idx})
		m.Plain = append(m.Plain, c21UTXO{Op: ops[1], Val: u.Val - val, Key: c21KOwner + p.idx})
		add(tx, "deposit_topup_"+p.p.State().String())
		return true
	}

	ops["return_deposit"] = func() bool {
		if h == s.VoteStatistics {
			return false
		}
		var cand []c21Prod
		for _, p := range all {
			if !touchedOwner[p.idx] && p.p.AvailableAmount() > cfg.MinTransactionFee && len(m.Deposits[p.idx]) > 0 {
				cand = append(cand, p)
			}
		}
		if len(cand) == 0 {
			return false
		}
		p := cand[r.Intn(len(cand))]
		avail := p.p.AvailableAmount()
		// choose inputs: all deposit outputs, or a prefix
		deps := m.Deposits[p.idx]
		n := len(deps)
		if r.Intn(2) == 0 {
			n = 1 + r.Intn(len(deps))
		}
		var ins []common2.OutPoint
		var inVal common.Fixed64
		for _, d := range deps[:n] {
			ins = append(ins, d.Op)
			inVal += d.Val
		}
		// inputValue - change <= avail  and  outputValue < avail
		var take common.Fixed64 // value leaving the deposit address (incl. fee)
		if inVal <= avail {
			take = inVal
		} else {
			take = avail
		}
		if r.Intn(3) == 0 && take > 2*ela {
			take = common.Fixed64(1 + r.Int63n(int64(take)))
		}
		fee := cfg.MinTransactionFee
		if take <= fee {
			return false
		}
		change := inVal - take
		out := take - fee
		if out >= avail || out <= 0 {
			return false
		}
		tx := w.TxReturnDeposit(p.idx, ins, out, change)
		ops := w.record(tx)
		m.Deposits[p.idx] = append([]c21UTXO(nil), deps[n:]...)
		m.Plain = append(m.Plain, c21UTXO{Op: ops[0], Val: out, Key: c21KOwner + p.idx})
		if change > 0 {
			m.Deposits[p.idx] = append(m.Deposits[p.idx], c21UTXO{Op: ops[1], Val: change, Key: c21KOwner + p.idx})
		}
		touchedOwner[p.idx] = true
		add(tx, "return_deposit_"+p.p.State().String())
		return true
	}

	ops["stake"] = func() bool {
		if h <= s.DPoSV2Start {
			return false
		}
		j := r.Intn(c21Stakers)
		u, ok := m.takePlain(r, c21KStaker+j)
		if !ok {
			return false
		}
		amount := common.Fixed64(500+r.Intn(20000)) * ela
		tx := w.TxExchangeVotes(j, u.Op, amount, *cfg.StakePoolProgramHash)
		w.record(tx)
		add(tx, "exchange_votes")
		return true
	}

	ops["voting"] = func() bool {
		if h <= s.DPoSV2Start {
			return false
		}
		j := r.Intn(c21Stakers)
		if usedStaker[j] {
			return false
		}
		addr := c21StakeAddr(w.StakerCode(j))
		total, ok := v.DposV2VoteRights[addr]
		if !ok || total <= 0 {
			return false
		}
		var contents []payload.VotesContent
		// DPoS v1 delegate part
		if h <= v2Active && r.Intn(2) == 0 {
			cands := pickSome(activeV1Owners(), 3)
			var vi []payload.VotesWithLockTime
			for _, k := range cands {
				vi = append(vi, payload.VotesWithLockTime{Candidate: k, Votes: common.Fixed64(1 + r.Int63n(int64(total)))})
			}
			if len(vi) > 0 {
				contents = append(contents, payload.VotesContent{VoteType: outputpayload.Delegate, VotesInfo: vi})
			}
		}
		// DPoS v2 part
		free := total - v.UsedDposV2Votes[addr]
		if free > ela && r.Intn(4) > 0 {
			var vi []payload.VotesWithLockTime
			var v2 []c21Prod
			for _, p := range all {
				if p.p.State() == state.Active && (p.p.Identity() == state.DPoSV2 || p.p.Identity() == state.DPoSV1V2) {
					v2 = append(v2, p)
				}
			}
			r.Shuffle(len(v2), func(a, b int) { v2[a], v2[b] = v2[b], v2[a] })
			n := 1 + r.Intn(3)
			for _, p := range v2 {
				if len(vi) >= n || free <= ela {
					break
				}
				su := p.p.Info().StakeUntil
				lo := h + s.MinVoteLock
				if lo > su {
					continue
				}
				hi := su
				if hi > h+cfg.DPoSConfiguration.DPoSV2MaxVotesLockTime {
					hi = h + cfg.DPoSConfiguration.DPoSV2MaxVotesLockTime
				}
				var lock uint32
				switch r.Intn(5) {
				case 0: // short lock: expires inside the history
					lock = lo + uint32(r.Intn(12))
				case 1, 2, 3: // "real" weight: at least 7200 blocks
					lock = h + 7200 + uint32(r.Intn(20000))
				default:
					lock = lo + uint32(r.Int63n(int64(hi-lo)+1))
				}
				if lock > hi {
					lock = hi
				}
				if lock < lo {
					continue
				}
				votes := common.Fixed64(1 + r.Int63n(int64(free)))
				if r.Intn(2) == 0 && free > 100*ela {
					votes = common.Fixed64(1 + r.Int63n(int64(free/2)))
				}
				free -= votes
				vi = append(vi, payload.VotesWithLockTime{Candidate: p.p.OwnerPublicKey(), Votes: votes, LockTime: lock})
			}
			if len(vi) > 0 {
				contents = append(contents, payload.VotesContent{VoteType: outputpayload.DposV2, VotesInfo: vi})
			}
		}
		if len(contents) == 0 {
			return false
		}
		usedStaker[j] = true
		tx := w.TxVoting(j, contents)
		name := "voting"
		for _, c := range contents {
			if c.VoteType == outputpayload.Delegate {
				name += "_delegate"
			} else {
				name += "_dposv2"
			}
		}
		add(tx, name)
		return true
	}

	ops["renew"] = func() bool {
		if h <= s.DPoSV2Start {
			return false
		}
		j := r.Intn(c21Stakers)
		if usedStaker[j] {
			return false
		}
		addr := c21StakeAddr(w.StakerCode(j))
		var renew []payload.RenewalVotesContent
		for _, p := range all {
			if p.p.Info().StakeUntil == 0 {
				continue
			}
			dv := p.p.GetAllDetailedDPoSV2Votes()[addr]
			var keys []common.Uint256
			for k := range dv {
				keys = append(keys, k)
			}
			c21SortHashes(keys)
			for _, k := range keys {
				d := dv[k]
				if len(d.Info) != 1 || r.Intn(2) == 0 {
					continue
				}
				newLock := d.Info[0].LockTime + 1 + uint32(r.Intn(20))
				if newLock > p.p.Info().StakeUntil || newLock-d.BlockHeight > cfg.DPoSConfiguration.DPoSV2MaxVotesLockTime {
					continue
				}
				renew = append(renew, payload.RenewalVotesContent{ReferKey: k,
					VotesInfo: payload.VotesWithLockTime{Candidate: d.Info[0].Candidate, Votes: d.Info[0].Votes, LockTime: newLock}})
				if len(renew) >= 2 {
					break
				}
			}
			if len(renew) >= 2 {
				break
			}
		}
		if len(renew) == 0 {
			return false
		}
		usedStaker[j] = true
		add(w.TxRenewVoting(j, renew), "voting_renewal")
		return true
	}

	ops["return_votes"] = func() bool {
		if h <= s.DPoSV2Start || pow {
			return false
		}
		j := r.Intn(c21Stakers)
		if usedStaker[j] {
			return false
		}
		addr := c21StakeAddr(w.StakerCode(j))
		rights := v.DposV2VoteRights[addr]
		used := v.UsedDposV2Votes[addr]
		if h <= v2Active {
			if u := v.GetUsedDPoSVoteRights(&addr); u > used {
				used = u
			}
		}
		free := rights - used
		fee := cfg.CRConfiguration.RealWithdrawSingleFee
		if free <= fee+1 {
			return false
		}
		val := fee + 1 + common.Fixed64(r.Int63n(int64(free-fee)))
		if val > free {
			val = free
		}
		usedStaker[j] = true
		tx := w.TxReturnVotes(j, val)
		m.Withdraws = append(m.Withdraws, c21Withdraw{Hash: tx.Hash(), Addr: addr, Value: val})
		add(tx, "return_votes")
		return true
	}

	ops["votes_real_withdraw"] = func() bool {
		if len(m.Withdraws) == 0 || pow {
			return false
		}
		var items []payload.VotesRealWidhdraw
		for _, wd := range m.Withdraws {
			if _, ok := v.VotesWithdrawableTxInfo[wd.Hash]; ok {
				items = append(items, payload.VotesRealWidhdraw{ReturnVotesTXHash: wd.Hash, StakeAddress: wd.Addr, Value: wd.Value})
			}
		}
		m.Withdraws = nil
		if len(items) == 0 {
			return false
		}
		add(w.TxVotesRealWithdraw(items), "votes_real_withdraw")
		return true
	}

	ops["claim_reward"] = func() bool {
		if h < s.DPoSV2Start || pow {
			return false
		}
		// claimers: the stakers and the producer owners (their stake address
		// collects the node share)
		keys := []int{c21KStaker, c21KStaker + 1, c21KStaker + 2}
		for i := 0; i < c21Owners; i++ {
			keys = append(keys, c21KOwner+i)
		}
		r.Shuffle(len(keys), func(a, b int) { keys[a], keys[b] = keys[b], keys[a] })
		fee := cfg.CRConfiguration.RealWithdrawSingleFee
		for _, k := range keys {
			if claimed[k] {
				continue
			}
			addr, err := utils.GetStakeAddressByCode(w.Key(k).RedeemScript)
			if err != nil {
				continue
			}
			amt, ok := v.DPoSV2RewardInfo[addr]
			if !ok || amt <= fee+1 {
				continue
			}
			val := fee + 1 + common.Fixed64(r.Int63n(int64(amt-fee)))
			if val > amt {
				val = amt
			}
			claimed[k] = true
			add(w.TxClaimReward(k, val), "claim_reward")
			return true
		}
		return false
	}

	ops["claim_reward_real_withdraw"] = func() bool {
		if pow || len(v.WithdrawableTxInfo) == 0 || realWithdrawDone {
			return false
		}
		var hashes []common.Uint256
		for k := range v.WithdrawableTxInfo {
			hashes = append(hashes, k)
		}
		c21SortHashes(hashes)
		realWithdrawDone = true
		add(w.TxClaimRewardRealWithdraw(hashes), "claim_reward_real_withdraw")
		return true
	}

	// arbiters that are registered producers (evidence can only accuse them)
	arbiterProducers := func() []c21Prod {
		var res []c21Prod
		for _, a := range arbiters {
			if p := v.GetProducer(a.NodePublicKey); p != nil && bytes.Equal(p.NodePublicKey(), a.NodePublicKey) {
				for _, q := range all {
					if bytes.Equal(q.p.OwnerPublicKey(), p.OwnerPublicKey()) && !touchedOwner[q.idx] {
						res = append(res, q)
					}
				}
			}
		}
		return res
	}

	// a forced change needs enough electable producers, else the node rejects
	// the block (inactive arbitrators) / is left with dangling history entries
	plenty := func() bool {
		n := 0
		for _, p := range all {
			if p.p.State() == state.Active && (p.p.Votes() > 0 || p.p.DposV2Votes() > 0) {
				n++
			}
		}
		return n >= s.Normal+s.CRC+3
	}

	ops["illegal"] = func() bool {
		if h < s.PublicDPOS+2 {
			return false
		}
		ap := arbiterProducers()
		if len(ap) == 0 {
			return false
		}
		p := ap[r.Intn(len(ap))]
		touchedOwner[p.idx] = true
		evH := h - 1
		switch r.Intn(4) {
		case 0:
			add(w.TxIllegalProposal(evH, p.p.NodePublicKey()), "illegal_proposal")
		case 1:
			add(w.TxIllegalVote(evH, p.p.NodePublicKey()), "illegal_vote")
		case 2:
			add(w.TxIllegalSidechain(evH, p.p.NodePublicKey()), "illegal_sidechain")
		default:
			pl := w.IllegalBlocksPayload(evH, [][]byte{p.p.NodePublicKey()})
			if r.Intn(2) == 0 && plenty() {
				// the DPoS manager saw the evidence first (ProcessIllegalBlock)
				b.Pre = append(b.Pre, C21Pre{Kind: "special", Payload: pl})
				add(w.TxIllegalBlocks(pl), "illegal_blocks_pre")
			} else {
				add(w.TxIllegalBlocks(pl), "illegal_blocks")
			}
		}
		return true
	}

	ops["inactive_arbitrators"] = func() bool {
		if h < s.PublicDPOS+2 || len(v.GetCRCArbiters()) == 0 || !plenty() {
			return false
		}
		ap := arbiterProducers()
		if len(ap) == 0 {
			return false
		}
		var sponsor []byte
		for _, a := range v.GetCRCArbiters() {
			sponsor = a.NodePublicKey
			break
		}
		n := 1 + r.Intn(2)
		var keys [][]byte
		for _, p := range ap {
			if len(keys) >= n {
				break
			}
			if v.IsCRCArbitrator(p.p.NodePublicKey()) {
				continue
			}
			keys = append(keys, p.p.NodePublicKey())
			touchedOwner[p.idx] = true
		}
		if len(keys) == 0 {
			return false
		}
		pl := w.InactiveArbitratorsPayload(h, sponsor, keys)
		b.Pre = append(b.Pre, C21Pre{Kind: "special", Payload: pl})
		add(w.TxInactiveArbitrators(pl), "inactive_arbitrators")
		return true
	}

	ops["cr_claim"] = func() bool {
		if h < s.CRClaim || !v.CRCommittee.InElectionPeriod {
			return false
		}
		ms := v.CRCommittee.GetCurrentMembers()
		if len(ms) == 0 {
			return false
		}
		// member order of the driver (by index), not of the committee
		i := r.Intn(len(m.Claims))
		if touchedCR[i] {
			return false
		}
		alt := (m.ClaimAlt[i] + 1) % 3
		k := w.CRNodeKey(i, alt)
		if v.ProducerAndCurrentCRNodePublicKeyExists(k) || bytes.Equal(m.Claims[i], k) {
			return false
		}
		var did common.Uint168
		code := w.Key(c21KCR + i).RedeemScript
		for _, mm := range ms {
			if bytes.Equal(mm.Info.Code, code) {
				if mm.MemberState != crstate.MemberElected && mm.MemberState != crstate.MemberInactive {
					return false
				}
				did = mm.Info.DID
			}
		}
		if did == (common.Uint168{}) {
			return false
		}
		touchedCR[i] = true
		m.Claims[i] = k
		m.ClaimAlt[i] = alt
		add(w.TxCRClaimNode(did, k), "cr_claim_node")
		return true
	}

	type wk struct {
		name string
		w    int
	}
	var table []wk
	switch {
	case h == s.VoteStatistics:
		table = []wk{{"vote_v1", 1}}
	case h <= s.DPoSV2Start:
		table = []wk{{"register", 14}, {"update", 8}, {"cancel", 3}, {"activate", 8}, {"vote_v1", 22}, {"cancel_vote", 7},
			{"topup", 6}, {"return_deposit", 8}, {"illegal", 5}, {"inactive_arbitrators", 1}, {"cr_claim", 1}}
	default:
		table = []wk{{"register", 10}, {"update", 10}, {"cancel", 3}, {"activate", 8}, {"vote_v1", 8}, {"cancel_vote", 4},
			{"topup", 5}, {"return_deposit", 7}, {"illegal", 5}, {"inactive_arbitrators", 1}, {"cr_claim", 1},
			{"stake", 12}, {"voting", 22}, {"renew", 6}, {"return_votes", 6}, {"votes_real_withdraw", 4}, {"claim_reward", 6}, {"claim_reward_real_withdraw", 4}}
	}
	if g.Nurture && h != s.VoteStatistics {
		table = []wk{{"register", 20}, {"vote_v1", 40}, {"update", 4}, {"topup", 4}, {"activate", 6}, {"cr_claim", 1}}
		if h > s.DPoSV2Start {
			table = append(table, wk{"stake", 8}, wk{"voting", 12}, wk{"renew", 2})
		}
	}
	if g.cycling(h) || (g.CycleAt != 0 && h+8 >= g.CycleAt) {
		// keep the elected producers alive around the consensus-mode cycle
		table = []wk{{"vote_v1", 20}, {"topup", 4}}
		if h > s.DPoSV2Start {
			table = append(table, wk{"stake", 6}, wk{"voting", 8})
		}
	}
	// early on, bias towards registration so that elections have candidates
	if len(unreg) > c21Owners-7 {
		table = append(table, wk{"register", 40})
	}
	if h < s.PublicDPOS+6 {
		table = append(table, wk{"vote_v1", 30})
	}
	if fc := g.Script.ForceCancel; fc != 0 && !pow {
		if p := v.GetProducerByOwnerPublicKey(w.OwnerKey(fc - 1)); p != nil && p.Identity() == state.DPoSV1 &&
			(p.State() == state.Inactive || p.State() == state.Active || p.State() == state.Pending) {
			add(w.TxCancelProducer(fc-1), "cancel_from_"+p.State().String())
			g.Script.ForceCancel = 0
		}
	}
	if fr := g.Script.ForceRegister; fr != 0 && h-1 <= v2Active {
		o := fr - 1
		nodeKey := w.NodeKey(o, 0)
		if v.GetProducerByOwnerPublicKey(w.OwnerKey(o)) == nil && nodeKeyFree(nodeKey) {
			if in, ok := m.takePlain(r, c21KOwner+o); ok {
				dep := common.Fixed64(crstate.MinDepositAmount)
				tx := w.TxRegisterProducer(o, nodeKey, newNick(), 0, dep, in.Op)
				outs := w.record(tx)
				m.Deposits[o] = append(m.Deposits[o], c21UTXO{Op: outs[0], Val: dep, Key: c21KOwner + o})
				usedNode[hex.EncodeToString(nodeKey)] = true
				add(tx, "register_v1")
				g.Script.ForceRegister = 0
			}
		}
	}
	total := 0
	for _, t := range table {
		total += t.w
	}
	for done, tries := 0, 0; done < nOps && tries < nOps*6; tries++ {
		x := r.Intn(total)
		for _, t := range table {
			if x < t.w {
				if ops[t.name]() {
					done++
				}
				break
			}
			x -= t.w
		}
	}

	// -- header / confirm -------------------------------------------------------
	m.Time += timeStep
	blk := &types.Block{Header: common2.Header{Version: 1, Previous: m.PrevHash, Timestamp: m.Time, Height: h, Nonce: r.Uint32()}, Transactions: txs}
	b.Block = blk
	m.PrevSponsor = nil
	if dposEra && !pow && !revertingToPOW {
		n := len(arbiters)
		duty := v.GetDutyIndex()
		off := 0
		if r.Intn(5) == 0 {
			off = 1 + r.Intn(n)
		}
		var sponsor []byte
		for k := 0; k < n; k++ {
			a := arbiters[(duty+off+k)%n]
			if a.IsNormal && !(g.Script.Starve != nil && bytes.Equal(a.NodePublicKey, g.Script.Starve)) {
				sponsor = a.NodePublicKey
				if k != 0 {
					off += k // the view moved on past the silent arbiter(s)
				}
				break
			}
		}
		if sponsor == nil {
			return nil, nil
		}
		b.Confirm = &payload.Confirm{Proposal: payload.DPOSProposal{Sponsor: sponsor, BlockHash: blk.Hash(), ViewOffset: uint32(off)}}
		for _, k := range normalArbiters {
			b.Confirm.Votes = append(b.Confirm.Votes, payload.DPOSProposalVote{Signer: k, Accept: true})
		}
		m.PrevSponsor = sponsor
		g.inc("blocks_with_confirm")
		if off != 0 {
			g.inc("blocks_with_view_offset")
		}
	} else {
		g.inc("blocks_without_confirm")
	}
	if pow {
		g.inc("blocks_in_pow_mode")
	}
	m.PrevHash = blk.Hash()
	b.Env = C21Env{InElection: h >= s.CRCommitteeStart, Claims: append([][]byte(nil), m.Claims...)}
	return b, m
}

func c21SortHashes(hs []common.Uint256) {
	for i := 1; i < len(hs); i++ {
		for j := i; j > 0 && hs[j].Compare(hs[j-1]) < 0; j-- {
			hs[j], hs[j-1] = hs[j-1], hs[j]
		}
	}
}

var _ = crypto.Sign

package props

import (
	"bytes"
	"fmt"
	"math/big"
	"math/rand"

	"github.com/elastos/Elastos.ELA/account"
	"github.com/elastos/Elastos.ELA/common"
	"github.com/elastos/Elastos.ELA/common/config"
	pg "github.com/elastos/Elastos.ELA/core/contract/program"
	"github.com/elastos/Elastos.ELA/core/types"
	common2 "github.com/elastos/Elastos.ELA/core/types/common"
	"github.com/elastos/Elastos.ELA/core/types/functions"
	"github.com/elastos/Elastos.ELA/core/types/interfaces"
	"github.com/elastos/Elastos.ELA/core/types/payload"
	"github.com/elastos/Elastos.ELA/dpos/state"

	"verif/kit"
	"verif/kit/node"
)

// C01, part C — the "no-cost" transaction forms.
//
// DefaultChecker.ContextCheck returns right after SpecialContextCheck when that
// returns end == true: CheckTransactionFee, checkAmountOverflow and the
// signature step never run. For those forms "outputs never exceed inputs" is
// enforced ONLY by the per-type sanity rules ("no cost transactions must have
// no input / no output", "new sideChainPow tx must have only one output",
// "transaction fee should be 0" above NFTStartHeight ...). Parts A and B never
// reach them: A calls CheckTransactionFee directly, B only sends TransferAsset.
//
// Forms whose SpecialContextCheck can return (nil, true) (read from
// core/transaction/*.go): CoinBase, ActivateProducer (<= NFTStartHeight),
// SideChainPow (no-input form), Illegal{Proposal,Vote,Block,Sidechain}Evidence,
// InactiveArbitrators, NextTurnDPOSInfo, RecordSponsor, RevertToPOW,
// RevertToDPOS, UpdateVersion, ProposalResult, CRCAppropriation,
// NFTDestroyFromSideChain.
//
// Workload: on compressed-era nodes (kit eras), for every such type the script
// can build validly: a VALID instance (accepted by the mempool and/or mined in
// a confirmed block = positive control), then shape variants carrying the same
// payload: no inputs + valued output(s), the honest form + extra valued
// output(s) (after the marker output where one is required), a valued marker,
// a real signed input with outputs exceeding it. Every variant goes through
// TxPool.AppendToTxPool and, inside a block assembled on the tip and confirmed
// by the arbiters, through BlockPool.AddDposBlock.
// Oracle: an accepted non-coinbase transaction must have exact
// sum(outputs) <= exact sum(spent outputs) (spent values from the replay ledger
// rebuilt from the node's own blocks); nd.Replay() tx-level issues after every
// accepted block. Signature value-created:<TxType>:<shape>:<mempool|block>.

const c01BaseShards = 8

var c01cScripts = []string{"dpos", "cr"}

// types each script must have built validly (positive control) and attacked
var c01cTypes = map[string][]string{
	"dpos": {"SideChainPow", "IllegalProposalEvidence", "ActivateProducer", "RecordSponsor"},
	"cr":   {"NextTurnDPOSInfo", "RevertToPOW", "RevertToDPOS"},
}

func c01cRequire() []string {
	req := []string{"C_types_built_valid", "C_variants_submitted", "C_variants_rejected", "C_conservation_replays",
		"C_variants_submitted:mempool", "C_variants_submitted:block"}
	for _, s := range c01cScripts {
		for _, T := range c01cTypes[s] {
			req = append(req, "C_honest_accepted:"+T, "C_variants_submitted:"+T, "C_variants_rejected:"+T)
		}
	}
	return req
}

type c01c struct {
	c        *kit.Ctx
	nd       *node.Node
	r        *rand.Rand
	w        *node.Wallet
	boot     *node.Boot
	era      *node.Era
	script   string
	attacker *account.Account
	payer    *account.Account
	fatal    bool
	sampled  int
}

func runC01NoCost(c *kit.Ctx) {
	k := &c01c{c: c, r: c.Rand("c01c"), script: c01cScripts[(c.Shard-c01BaseShards)%len(c01cScripts)], attacker: node.Key(631)}
	k.era = node.EraOf("dpos-era")
	nd, err := node.Start(node.Options{Dir: c.WorkDir, CoinbaseMaturity: 2, Tweak: func(cfg *config.Configuration) {
		node.EraTweak("dpos-era")(cfg)
		cfg.CRConfiguration.DutyPeriod = 400 // the first committee outlives the script
		if k.script == "dpos" {
			// ActivateProducer may carry inputs/outputs only above NFTStartHeight (the height is used by nothing else the script touches)
			cfg.DPoSConfiguration.NFTStartHeight = k.era.PublicDPOS - 5
			cfg.DPoSConfiguration.RecordSponsorStartHeight = k.era.PublicDPOS + 8
		}
	}})
	if err != nil {
		c.Inconclusive("C %s: node start: %v", k.script, err)
		return
	}
	defer nd.Close()
	defer nd.UnhookEvents()
	k.nd = nd
	panicked, val, stack := kit.Guard(func() {
		switch k.script {
		case "dpos":
			k.scriptDPoS()
		case "cr":
			k.scriptCR()
		}
	})
	if panicked {
		c.Inconclusive("C %s: script panicked at height %d: %v\n%s", k.script, nd.Height(), val, stack)
	}
	c.Max("max:C_height:"+k.script, int64(nd.Height()))
}

func (k *c01c) bootstrap(until string) bool {
	b, err := k.nd.Bootstrap("dpos-era", node.BootOpts{Until: until, Voters: 8})
	if err != nil {
		k.c.Inconclusive("C %s: bootstrap(%s): %v", k.script, until, err)
		return false
	}
	k.boot, k.w = b, b.Wallet
	k.payer = b.Voters[4] // funded, never used by the bootstrap
	return true
}

func (k *c01c) mine(txs ...interfaces.Transaction) bool {
	if k.fatal {
		return false
	}
	if _, err := k.nd.MineTipDPoS(txs...); err != nil {
		k.c.Inconclusive("C %s: mining height %d failed: %v", k.script, k.nd.Height()+1, err)
		k.fatal = true
		return false
	}
	return true
}

func (k *c01c) mineTo(h uint32) bool {
	for k.nd.Height() < h {
		if !k.mine() {
			return false
		}
	}
	return true
}

// evict removes tx from the mempool with the pool's own post-block clean-up.
func (k *c01c) evict(tx interfaces.Transaction) bool {
	k.nd.TxPool.CleanSubmittedTransactions(&types.Block{Transactions: []interfaces.Transaction{tx}})
	return !k.nd.TxPool.HaveTransaction(tx.Hash())
}

// ---------- shapes ----------

type c01cShape struct {
	name string
	// needs: honest form has at least one output / a funded input is spent
	needOut, useIn bool
	// balanced: not value creating by construction (control)
	balanced bool
}

var c01cShapes = []c01cShape{
	{name: "noin-1valued"},
	{name: "noin-2valued"},
	{name: "honest+valued"},
	{name: "honest+2valued"},
	{name: "valued-first", needOut: true},
	{name: "in<out", useIn: true},
	{name: "in=out", useIn: true, balanced: true},
}

func c01cClone(os []*common2.Output) []*common2.Output {
	var r []*common2.Output
	for _, o := range os {
		cp := *o
		r = append(r, &cp)
	}
	return r
}

// shaped re-creates the honest transaction h (same type, versions, payload,
// attributes, lock time) with other inputs/outputs. v = value per added output.
func (k *c01c) shaped(h interfaces.Transaction, s c01cShape, v common.Fixed64, in *node.UTXORef) interfaces.Transaction {
	to := k.attacker.ProgramHash
	ins := append([]*common2.Input{}, h.Inputs()...)
	outs := c01cClone(h.Outputs())
	switch s.name {
	case "noin-1valued":
		ins, outs = []*common2.Input{}, []*common2.Output{node.StdOut(to, v)}
	case "noin-2valued":
		ins, outs = []*common2.Input{}, []*common2.Output{node.StdOut(to, v), node.StdOut(to, v+1)}
	case "honest+valued":
		outs = append(outs, node.StdOut(to, v))
	case "honest+2valued":
		outs = append(outs, node.StdOut(to, v), node.StdOut(to, v+1))
	case "valued-first":
		outs[0].Value = v
	case "in<out":
		ins = append(ins, &common2.Input{Previous: common2.OutPoint{TxID: in.TxID, Index: in.Index}})
		outs = append(outs, node.StdOut(to, in.Value+v))
	case "in=out":
		ins = append(ins, &common2.Input{Previous: common2.OutPoint{TxID: in.TxID, Index: in.Index}})
		outs = append(outs, node.StdOut(to, in.Value))
	}
	tx := functions.CreateTransaction(h.Version(), h.TxType(), h.PayloadVersion(), h.Payload(), h.Attributes(), ins, outs, h.LockTime(), h.Programs())
	if s.useIn {
		own := h.Programs()
		node.SignStd(tx, in.Owner)
		tx.SetPrograms(append(append([]*pg.Program{}, own...), tx.Programs()...))
	}
	return tx
}

// exact sums: spent values come from the replay ledger (the node's own blocks), never from the node's reference lookup
func c01cSums(tx interfaces.Transaction, l *node.Ledger) (in, out *big.Int, unknown bool) {
	in, out = new(big.Int), new(big.Int)
	for _, i := range tx.Inputs() {
		o, ok := l.Unspent[node.OutKey{TxID: i.Previous.TxID, Index: i.Previous.Index}]
		if !ok {
			unknown = true
			continue
		}
		in.Add(in, big.NewInt(int64(o.Value)))
	}
	for _, o := range tx.Outputs() {
		out.Add(out, big.NewInt(int64(o.Value)))
	}
	return
}

func c01cHas(b *types.Block, h common.Uint256) bool {
	if b == nil {
		return false
	}
	for _, tx := range b.Transactions {
		if tx.Hash() == h {
			return true
		}
	}
	return false
}

func (k *c01c) replay(stage string) *node.Ledger {
	l := k.nd.Replay()
	k.c.Inc("C_conservation_replays")
	for _, is := range l.Issues {
		switch is.Kind {
		case "value-created", "negative-output", "double-spend", "unknown-input", "chain-gap", "chain-broken":
			k.c.Violate("ledger:"+is.Kind, fmt.Sprintf("C %s %s: height %d tx %s: %s", k.script, stage, is.Height, is.TxID, is.Detail), nil)
		}
	}
	// exact conservation: everything unspent was minted by a coinbase or is part of genesis
	if want := new(big.Int).Add(l.Genesis, l.Minted); l.Total().Cmp(want) != 0 {
		k.c.Violate("conservation-total", fmt.Sprintf("C %s %s: sum(unspent)=%s != genesis+minted=%s", k.script, stage, l.Total(), want), nil)
	}
	return l
}

// ---------- one type ----------

type c01cRound struct {
	T string
	// build returns a fresh VALID instance for the next block (payloads signed by the arbiter on duty etc. change per height)
	build func() (interfaces.Transaction, error)
	// noMempool: the mempool refuses this type by design (RecordSponsor); the validators are called directly instead
	noMempool bool
	// blockTime returns the timestamp a block carrying the tx needs (0 = parent+1)
	blockTime func() uint32
	// inBlock mines txs[0] (+ whatever the block needs) and tells whether the block was connected; nil = k.tryBlock
	inBlock func(tx interfaces.Transaction, ts uint32) (*types.Block, bool)
	// before is called before every submission (e.g. evict the node's own pending instance)
	before func()
	// honestFirst: the honest block goes before the variants (types whose acceptance does not consume the subject)
	honestFirst bool
	// afterHonest runs after the honest instance was mined
	afterHonest func()
}

// tryBlock: honest block on the tip carrying tx (node-generated txs, RecordSponsor, confirm as required).
func (k *c01c) tryBlock(tx interfaces.Transaction, ts uint32) (*types.Block, bool) {
	tip := k.nd.Tip()
	b, _ := k.nd.MineTipAt(ts, tx)
	if k.nd.Tip().IsEqual(tip) {
		k.nd.Chain.UTXOCache.CleanTxCache()
		return b, false
	}
	return b, true
}

func (k *c01c) sample(T, shape, where string, accepted bool, in, out *big.Int, err error) {
	if k.sampled >= 6 {
		return
	}
	k.sampled++
	s := map[string]interface{}{"kind": "C", "type": T, "shape": shape, "where": where, "accepted": accepted, "sum_in": in.String(), "sum_out": out.String(), "height": k.nd.Height() + 1}
	if err != nil {
		s["reject"] = err.Error()
	}
	k.c.Sample(s)
}

func (k *c01c) round(rd c01cRound) {
	if k.fatal {
		return
	}
	c, nd, T := k.c, k.nd, rd.T
	inBlock := rd.inBlock
	if inBlock == nil {
		inBlock = k.tryBlock
	}
	ts := func() uint32 {
		if rd.blockTime != nil {
			return rd.blockTime()
		}
		return 0
	}
	pre := func() {
		if rd.before != nil {
			rd.before()
		}
	}
	submitPool := func(tx interfaces.Transaction) error {
		if rd.noMempool {
			return nd.CheckTx(tx, 0)
		}
		if err := nd.TxPool.AppendToTxPool(tx); err != nil {
			return err
		}
		return nil
	}
	honestOK := false
	// positive control: the valid instance through the mempool, then the SAME instance in a confirmed block
	// (zero-input special transactions cannot be evicted from the pool by any public call, so nothing else follows it)
	honest := func() {
		pre()
		h, err := rd.build()
		if err != nil {
			c.Note("C %s: cannot build honest %s at height %d: %v", k.script, T, nd.Height()+1, err)
			return
		}
		if err := submitPool(h); err != nil {
			c.Note("C %s: honest %s refused by the mempool at height %d: %v", k.script, T, nd.Height()+1, err)
		} else {
			c.Inc("C_honest_accepted:mempool:" + T)
			honestOK = true
		}
		if b, ok := inBlock(h, ts()); ok && c01cHas(b, h.Hash()) {
			c.Inc("C_honest_accepted:block:" + T)
			honestOK = true
			k.replay("after honest " + T)
			if rd.afterHonest != nil {
				rd.afterHonest()
			}
		} else {
			c.Note("C %s: honest %s refused in a block at height %d", k.script, T, nd.Height()+1)
		}
	}
	if rd.honestFirst {
		honest()
	}
	reward := nd.Cfg.GetBlockReward(nd.Height() + 1)
	for _, where := range []string{"mempool", "block"} {
		for _, s := range c01cShapes { // fixed order: which signature fires first does not depend on the seed
			if k.fatal {
				return
			}
			pre()
			h, err := rd.build()
			if err != nil {
				c.Note("C %s: cannot build %s at height %d: %v", k.script, T, nd.Height()+1, err)
				return
			}
			if s.needOut && len(h.Outputs()) == 0 {
				continue
			}
			if s.balanced && where == "block" && !rd.honestFirst {
				continue // a legitimately balanced instance in a block would consume the subject the honest instance needs
			}
			// mempool: any amount; block: the coinbase has to absorb the negative "fee", so stay below the block reward
			v := node.ELA(int64(1 + k.r.Intn(2000)))
			if where == "block" {
				v = common.Fixed64(1 + k.r.Int63n(int64(reward)/16))
			}
			var in *node.UTXORef
			if s.useIn {
				u, ok := k.w.Take(k.payer, node.ELA(1))
				if !ok {
					c.Note("C %s: no funded output left for shape %s", k.script, s.name)
					continue
				}
				in = &u
			}
			tx := k.shaped(h, s, v, in)
			l := nd.Replay()
			sumIn, sumOut, _ := c01cSums(tx, l)
			creates := sumOut.Cmp(sumIn) > 0
			c.Begin("C %s %s %s %s height %d", k.script, T, s.name, where, nd.Height()+1)
			c.Case(fmt.Sprintf("C:%s:%s:%s:%s", T, s.name, where, tx.Hash().String()), true)
			c.Inc("C_variants_submitted")
			c.Inc("C_variants_submitted:" + where)
			c.Inc("C_variants_submitted:" + T)
			c.Inc("C_shape:" + s.name)
			accepted := false
			var rerr error
			if where == "mempool" {
				if rerr = submitPool(tx); rerr == nil {
					accepted = true
					if !rd.noMempool && !k.evict(tx) {
						c.Inc("C_accepted_variant_left_in_pool")
					}
				}
			} else {
				b, ok := inBlock(tx, ts())
				accepted = ok && c01cHas(b, tx.Hash())
				if ok {
					k.replay(fmt.Sprintf("after %s %s block", T, s.name))
				}
			}
			k.sample(T, s.name, where, accepted, sumIn, sumOut, rerr)
			if in != nil && !(accepted && where == "block") {
				k.w.Release(*in)
			}
			if !accepted {
				c.Inc("C_variants_rejected")
				c.Inc("C_variants_rejected:" + T)
				continue
			}
			c.Inc("C_variants_accepted:" + T + ":" + s.name + ":" + where)
			if creates {
				c.Violate("value-created:"+T+":"+s.name+":"+where,
					fmt.Sprintf("height %d: the %s accepted a %s transaction (shape %s) with %d inputs worth %s and %d outputs worth %s: exact sum(outputs) > sum(inputs)",
						nd.Height(), where, T, s.name, len(tx.Inputs()), sumIn, len(tx.Outputs()), sumOut),
					map[string]interface{}{"type": T, "shape": s.name, "where": where, "sum_in": sumIn.String(), "sum_out": sumOut.String(), "tx": c05xTxHex(tx)})
			} else {
				c.Inc("C_balanced_variant_accepted:" + T)
			}
		}
	}
	if !rd.honestFirst {
		honest()
	}
	if honestOK {
		c.Inc("C_types_built_valid")
		c.Inc("C_honest_accepted:" + T)
	}
}

// ---------- script "dpos": SideChainPow, IllegalProposalEvidence, ActivateProducer, RecordSponsor ----------

func (k *c01c) sideChainPow() (interfaces.Transaction, error) {
	pub := k.nd.Arbiters.GetOnDutyCrossChainArbitrator()
	if pub == nil {
		return nil, fmt.Errorf("no cross chain arbiter on duty")
	}
	acc := node.KeyByPub(pub)
	if acc == nil {
		return nil, fmt.Errorf("no key for the arbiter on duty %x", pub)
	}
	h := k.nd.Height() + 1
	p := &payload.SideChainPow{SideBlockHash: common.Uint256{1, byte(h), byte(h >> 8)}, SideGenesisHash: common.Uint256{2}, BlockHeight: h}
	buf := new(bytes.Buffer)
	if err := p.Serialize(buf, payload.SideChainPowVersion); err != nil {
		return nil, err
	}
	p.Signature = node.DetSign(acc, buf.Bytes()[0:68])
	return functions.CreateTransaction(common2.TxVersion09, common2.SideChainPow, payload.SideChainPowVersion, p, []*common2.Attribute{}, []*common2.Input{},
		[]*common2.Output{node.StdOut(k.attacker.ProgramHash, 0)}, 0, []*pg.Program{}), nil
}

// illegalProposal: evidence that the arbiter with this node key signed two different proposals for the tip height.
func (k *c01c) illegalProposal(nodeKey *account.Account) (interfaces.Transaction, error) {
	tip := k.nd.TipBlock()
	mk := func(d uint32) payload.ProposalEvidence {
		h := tip.Header
		h.Nonce += d
		buf := new(bytes.Buffer)
		h.Serialize(buf)
		prop := payload.DPOSProposal{Sponsor: node.Pub(nodeKey), BlockHash: h.Hash(), ViewOffset: 0}
		prop.Sign = node.DetSign(nodeKey, prop.Data())
		return payload.ProposalEvidence{Proposal: prop, BlockHeader: buf.Bytes(), BlockHeight: h.Height}
	}
	e1, e2 := mk(1), mk(2)
	if e1.Proposal.Hash().Compare(e2.Proposal.Hash()) > 0 {
		e1, e2 = e2, e1
	}
	return functions.CreateTransaction(common2.TxVersion09, common2.IllegalProposalEvidence, payload.IllegalProposalVersion,
		&payload.DPOSIllegalProposals{Evidence: e1, CompareEvidence: e2}, []*common2.Attribute{}, []*common2.Input{}, []*common2.Output{}, 0, []*pg.Program{}), nil
}

func (k *c01c) tipSponsor() ([]byte, error) {
	db, err := k.nd.Chain.GetDposBlockByHash(k.nd.Tip())
	if err != nil || !db.HaveConfirm || db.Confirm == nil {
		return nil, fmt.Errorf("the tip carries no confirm (%v)", err)
	}
	return db.Confirm.Proposal.Sponsor, nil
}

func (k *c01c) recordSponsor() (interfaces.Transaction, error) {
	sp, err := k.tipSponsor()
	if err != nil {
		return nil, err
	}
	h := k.nd.Height() + 1
	nb := make([]byte, 8)
	for i := 0; i < 4; i++ {
		nb[4+i] = byte(h >> (8 * uint(3-i)))
	}
	attr := common2.NewAttribute(common2.Nonce, nb)
	return functions.CreateTransaction(k.nd.Pow.GetDefaultTxVersion(h), common2.RecordSponsor, payload.RecordSponsorVersion,
		&payload.RecordSponsor{Sponsor: sp}, []*common2.Attribute{&attr}, []*common2.Input{}, []*common2.Output{}, h, []*pg.Program{}), nil
}

// sponsorBlock assembles the next block with tx IN PLACE OF the miner's own RecordSponsor transaction.
func (k *c01c) sponsorBlock(tx interfaces.Transaction, ts uint32) (*types.Block, bool) {
	nd := k.nd
	all := append([]interfaces.Transaction{tx}, nd.SystemTxs()...)
	var fees common.Fixed64
	for _, t := range all {
		if len(t.Inputs()) > 0 {
			refs, err := nd.Chain.UTXOCache.GetTxReference(t)
			if err != nil {
				return nil, false
			}
			for _, o := range refs {
				fees += o.Value
			}
		}
		for _, o := range t.Outputs() {
			fees -= o.Value
		}
	}
	b, err := nd.AssembleOn(node.BlockSpec{Txs: all, Fees: fees, Time: ts})
	if err != nil {
		k.c.Note("C %s: assemble: %v", k.script, err)
		return nil, false
	}
	tip := nd.Tip()
	nd.ProcessConfirmed(b)
	nd.Chain.UTXOCache.CleanTxCache()
	if nd.Tip().IsEqual(tip) {
		return b, false
	}
	nd.PostBlock(b)
	nd.BlockPool.CleanFinalConfirmedBlock(b.Height)
	return b, true
}

func (k *c01c) scriptDPoS() {
	nd, e := k.nd, k.era
	if !k.bootstrap("producers") {
		return
	}
	if !k.mineTo(e.EnableActivateIllegal + 1) {
		return
	}
	if nd.InPOWMode() {
		k.c.Inconclusive("C dpos: node in POW mode at height %d", nd.Height())
		return
	}
	// SideChainPow, no-input form, signed by the arbiter on duty
	k.round(c01cRound{T: "SideChainPow", build: k.sideChainPow, honestFirst: true})

	// a producer that is an arbiter right now: evidence of a double proposal makes it Illegal, then its node key activates it
	var subject *account.Account
	for _, i := range k.r.Perm(len(k.boot.Nodes)) {
		for _, a := range nd.Arbiters.GetArbitrators() {
			if bytes.Equal(a.NodePublicKey, node.Pub(k.boot.Nodes[i])) {
				subject = k.boot.Nodes[i]
			}
		}
		if subject != nil {
			break
		}
	}
	if subject == nil {
		k.c.Inconclusive("C dpos: no elected harness producer among the arbiters at height %d", nd.Height())
		return
	}
	k.round(c01cRound{T: "IllegalProposalEvidence", build: func() (interfaces.Transaction, error) { return k.illegalProposal(subject) }})
	k.mine()
	p := nd.Chain.GetState().GetProducer(node.Pub(subject))
	if p == nil || (p.State() != state.Illegal && p.State() != state.Inactive) {
		k.c.Note("C dpos: the producer named by the evidence is not Illegal/Inactive at height %d", nd.Height())
	} else {
		k.c.Inc("C_producer_illegal")
	}
	if nd.Height() <= nd.Cfg.DPoSConfiguration.NFTStartHeight {
		k.c.Inconclusive("C dpos: height %d not above NFTStartHeight", nd.Height())
		return
	}
	k.round(c01cRound{T: "ActivateProducer", build: func() (interfaces.Transaction, error) { return node.ActivateProducer(subject), nil }})

	// RecordSponsor (block only; the mempool refuses the type by design)
	if !k.mineTo(nd.Cfg.DPoSConfiguration.RecordSponsorStartHeight + 1) {
		return
	}
	k.round(c01cRound{T: "RecordSponsor", build: k.recordSponsor, noMempool: true, inBlock: k.sponsorBlock, honestFirst: true})
	k.mineTo(nd.Height() + 3)
	k.replay("final")
}

// ---------- script "cr": NextTurnDPOSInfo, RevertToPOW, RevertToDPOS ----------

func (k *c01c) ownOfType(t common2.TxType) interfaces.Transaction {
	for _, tx := range k.nd.TxPool.GetTxsInPool() {
		if tx.TxType() == t {
			return tx
		}
	}
	return nil
}

func (k *c01c) scriptCR() {
	nd, e := k.nd, k.era
	if !k.bootstrap("claimed") {
		return
	}
	// NextTurnDPOSInfo: the node creates it when the next arbiter set is decided; take its own and re-shape it
	var own interfaces.Transaction
	for i := 0; i < 40 && own == nil; i++ {
		if nd.Arbiters.IsNeedNextTurnDPOSInfo() {
			for _, tx := range nd.SystemTxs() {
				if tx.TxType() == common2.NextTurnDPOSInfo {
					own = tx
				}
			}
			if own != nil {
				break
			}
		}
		if !k.mine() {
			return
		}
	}
	if own == nil {
		k.c.Note("C cr: the node produced no NextTurnDPOSInfo up to height %d", nd.Height())
	} else {
		oldWait := node.SystemWait
		node.SystemWait = 0 // the node's own (mandatory) instance is deliberately withheld below
		k.evict(own)
		ownCopy := func() (interfaces.Transaction, error) {
			return functions.CreateTransaction(own.Version(), own.TxType(), own.PayloadVersion(), own.Payload(), own.Attributes(),
				[]*common2.Input{}, []*common2.Output{}, own.LockTime(), own.Programs()), nil
		}
		k.round(c01cRound{T: "NextTurnDPOSInfo", build: ownCopy, before: func() {
			if o := k.ownOfType(common2.NextTurnDPOSInfo); o != nil {
				k.evict(o)
			}
		}})
		node.SystemWait = oldWait
	}
	if !k.mineTo(e.ChangeCommitteeNewCR + 6) {
		return
	}
	if nd.InPOWMode() {
		k.c.Inconclusive("C cr: node already in POW mode at height %d", nd.Height())
		return
	}
	// RevertToPOW{NoBlock}: valid in a block whose timestamp is RevertToPOWNoBlockTime after its parent
	k.round(c01cRound{T: "RevertToPOW",
		build: func() (interfaces.Transaction, error) { return node.RevertToPOWNoBlock(nd.Height() + 1), nil },
		blockTime: func() uint32 {
			return nd.TipBlock().Timestamp + uint32(nd.Cfg.DPoSConfiguration.RevertToPOWNoBlockTime) + 1
		}})
	if !nd.InPOWMode() {
		k.c.Note("C cr: not in POW mode after the RevertToPOW round (height %d)", nd.Height())
		return
	}
	k.c.Inc("C_switch:DPOS->POW")
	for i := 0; i < 3; i++ {
		k.mine()
	}
	k.round(c01cRound{T: "RevertToDPOS", build: func() (interfaces.Transaction, error) { return nd.RevertToDPOSTx(false) },
		before: func() {
			if o := k.ownOfType(common2.RevertToDPOS); o != nil {
				k.evict(o)
			}
		}})
	for i := 0; i < 20 && nd.InPOWMode(); i++ {
		k.mine()
	}
	if !nd.InPOWMode() {
		k.c.Inc("C_switch:POW->DPOS")
	}
	k.mineTo(nd.Height() + 3)
	k.replay("final")
}

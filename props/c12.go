package props

import (
	"bytes"
	"fmt"
	"math/rand"
	"os"
	"sort"
	"strings"

	"github.com/elastos/Elastos.ELA/common"
	"github.com/elastos/Elastos.ELA/core/types"
	common2 "github.com/elastos/Elastos.ELA/core/types/common"
	"github.com/elastos/Elastos.ELA/core/types/interfaces"

	"verif/kit"
	"verif/kit/node"
)

// C12 — the node follows the most-work valid chain.
//
// Workload: generated block TREES on a live pow-era node (several branches,
// fork depths up to 10 below the current tip, equal-work ties, heavier
// branches whose k-th block is invalid only under CONTEXT validation), every
// block kept in a harness-side table (c12_model.go), delivered through
// ProcessBlock in hostile orders (orphans first, parents last, duplicates),
// then extended honestly.
//
// Oracle (after every delivery and at quiescence): the node's tip must be one
// of the model's admissible tips = connected, fully valid blocks of maximal
// cumulative work; it must not leave an admissible incumbent for an equal-work
// rival; after a failed switch to an invalid heavier branch it must be back on
// its previous chain; height index, best-chain node, store height and the
// UTXO index must all describe that same chain; the ledger replay of the
// node's own chain must be clean; an honest block spending model-unspent
// outputs must be accepted on top.

func init() {
	kit.Register(&kit.Spec{
		ID:     "C12",
		Rule:   "per shard one live regnet/instant-block node (odd shards: VoteStartHeight lowered so DPoS/CR checkpoint rollbacks run inside every reorg); per case one generated block tree: 5-60 blocks, 1-4 branches rooted 0-10 blocks below the tip or on other tree blocks, branch heights chosen relative to the best height (tie / heavier / lighter), 25-45% of branches carry ONE context-invalid block at position k (double spend of an output spent earlier on that branch, coinbase over/under-claim, immature coinbase spend), valid blocks carry 0-2 signed transfers (same outputs are spent differently on rival branches); delivery order per tree: construction / by height / shuffled / reversed / windowed shuffle / parents-last, plus ~10% duplicate deliveries; then 1-2 honest blocks with transfers mined on the tip; in addition per shard 2 (quick) / 6 (thorough) era-boundary sub-runs on nodes of their own with CRCOnlyDPOSHeight lowered to B in 18..30: strictly heavier valid branches (sometimes after an equal-work rival) forking 1..12 blocks below the tip while the tip is at B-1, at B and at B+1 (depth <= 6 there), depths scheduled so that every run has forks deeper than 6 at B-1 and at B, plus an unjudged >6-deep control above B. distinct = distinct (tree shape, fault placement, delivery order); non-trivial = the tree caused at least one reorganisation, orphan connection or invalid-branch switch attempt on the node",
		Shards: func(tier string) int { return 8 },
		Run:    runC12,
		Require: []string{"trees", "deliveries", "duplicate_deliveries", "orphans_delivered", "orphans_connected", "reorgs",
			"invalid_branch_attempts", "tie_states", "fault_blocks_built", "honest_extensions_accepted",
			"utxo_view_compares", "ledger_replays", "twin_paths_checked", "twin_valid_paths_confirmed", "twin_fault_paths_confirmed",
			"boundary_runs", "deep_fork_with_tip_at_crconly_height", "deep_fork_with_tip_at_crconly_height_minus_1",
			"shallow_fork_with_tip_at_crconly_height", "deep_fork_depth_over_6_pow_era_adopted",
			"shallow_fork_adopted_with_tip_at_crconly_height_plus_1", "control_deep_fork_above_crconly_height"},
		Assumptions: []string{
			"pow era of regnet with instant-block difficulty (constant Bits: work is proportional to length); CheckRewardHeight=0 so coinbase amount errors are not discarded",
			"validity of generated blocks is known by construction and cross-checked by linear replay on fresh twin nodes (sub-processes) for sampled trees and for every reported witness",
			"random trees stay below CRCOnlyDPOSHeight; the era-boundary sub-runs judge only tips <= CRCOnlyDPOSHeight (nothing is irreversible, any depth) and tips above it with fork depth <= 6 (the depth guard does not apply, LastIrreversibleHeight is 0); deeper forks above the boundary are C30's and only counted",
		},
		TimeoutS: func(tier string) int {
			if tier == "thorough" {
				return 1500
			}
			return 300
		},
	})
}

var c12Kinds = []string{"double-spend", "coinbase-over", "coinbase-under", "immature-spend"}

type c12H struct {
	c         *kit.Ctx
	nd        *node.Node
	r         *rand.Rand
	m         *c12Model
	cfg       c12Cfg
	maturity  uint32 // == cfg.Maturity
	sigTag    string // appended to tip-not-max-work in era-boundary sub-runs
	minRoot   uint32
	maxBlocks int
	tipBlk    *c12Blk
	stuck     bool
	twinSeq   int
	twinViol  map[string]int
	// per tree
	treeNo     int
	treeBlocks []*c12Blk
	order      []int
	nontrivial bool
}

func runC12(c *kit.Ctx) {
	if job := os.Getenv("VERIF_C12_TWIN"); job != "" {
		runC12Twin(c, job)
		return
	}
	if job := os.Getenv("VERIF_C12_BOUNDARY"); job != "" {
		runC12Boundary(c, job)
		return
	}
	h := &c12H{c: c, r: c.Rand("c12"), m: newC12Model(), maturity: 3, cfg: c12Cfg{Maturity: 3}, maxBlocks: c.N(40, 60)}
	if c.Shard%2 == 1 {
		h.cfg.VoteStart = 6
		c.Inc("shards_with_checkpoint_rollbacks")
	}
	nd, err := node.Start(c12Options(c.WorkDir, h.cfg))
	if err != nil {
		c.Inconclusive("node start: %v", err)
		return
	}
	defer nd.Close()
	h.nd = nd
	if !h.bootstrap(12) {
		return
	}
	// era-boundary fork scenarios on nodes of their own (sub-processes)
	h.boundaryRuns()
	n := c.N(10, 250)
	for i := 0; i < n && !h.stuck; i++ {
		h.runTree(i)
	}
}

// bootstrap matures the genesis output, splits it over accounts 2..5 and
// imports the node's chain into the model.
func (h *c12H) bootstrap(extra int) bool {
	c, nd := h.c, h.nd
	if err := nd.MineN(int(h.maturity) + 1); err != nil {
		c.Inconclusive("mining: %v", err)
		return false
	}
	g := nd.GenesisUTXO()
	var outs []node.Out
	per := common.Fixed64(1000 * 1e8)
	for a := 2; a <= 5; a++ {
		for k := 0; k < 6; k++ {
			outs = append(outs, node.Out{To: node.Key(a).ProgramHash, Value: per})
		}
	}
	outs = append(outs, node.Out{To: nd.Found.ProgramHash, Value: g.Value - per*common.Fixed64(len(outs)) - 1000})
	fund := node.Transfer([]node.UTXORef{g}, outs, common2.TxVersion09)
	if _, err := nd.MineTip(fund); err != nil {
		c.Inconclusive("funding block rejected: %v", err)
		return false
	}
	h.minRoot = nd.Height()
	if err := nd.MineN(extra); err != nil {
		c.Inconclusive("mining: %v", err)
		return false
	}
	var p *c12Blk
	for ht := uint32(0); ht <= nd.Height(); ht++ {
		hash, err := nd.Chain.GetBlockHash(ht)
		if err != nil {
			c.Inconclusive("import: %v", err)
			return false
		}
		b, err := nd.Chain.GetBlockByHash(hash)
		if err != nil {
			c.Inconclusive("import: %v", err)
			return false
		}
		p = h.m.add(p, b, "", -1)
		p.honest = true
		h.m.deliver(p)
	}
	h.tipBlk = p
	return true
}

// ---------------------------------------------------------------------------
// generation
// ---------------------------------------------------------------------------

func (h *c12H) sortedView(p *c12Blk) []c12Out {
	outs := make([]c12Out, 0, len(p.view))
	for _, o := range p.view {
		outs = append(outs, o)
	}
	sort.Slice(outs, func(i, j int) bool {
		if c := bytes.Compare(outs[i].ref.TxID[:], outs[j].ref.TxID[:]); c != 0 {
			return c < 0
		}
		return outs[i].ref.Index < outs[j].ref.Index
	})
	return outs
}

func (h *c12H) mature(o c12Out, height uint32) bool {
	// node rule: (height of the tip the block is connected to) - coinbase height >= maturity
	return !o.coinbase || (height-1 >= o.height && height-1-o.height >= h.maturity)
}

func (h *c12H) transfer(o c12Out) (interfaces.Transaction, common.Fixed64) {
	r := h.r
	fee := common.Fixed64(100 + r.Intn(400))
	v := o.ref.Value - fee
	var outs []node.Out
	if v > 10 && r.Intn(2) == 0 {
		a := common.Fixed64(1 + r.Int63n(int64(v)-1))
		outs = []node.Out{{To: node.Key(2 + r.Intn(4)).ProgramHash, Value: a}, {To: node.Key(2 + r.Intn(4)).ProgramHash, Value: v - a}}
	} else {
		outs = []node.Out{{To: node.Key(2 + r.Intn(4)).ProgramHash, Value: v}}
	}
	return node.Transfer([]node.UTXORef{o.ref}, outs, common2.TxVersion09), fee
}

// honestTxs picks 0-2 transfers that are valid on top of p.
func (h *c12H) honestTxs(p *c12Blk, height uint32, atLeastOne bool) ([]interfaces.Transaction, common.Fixed64) {
	r := h.r
	n := []int{0, 1, 1, 2}[r.Intn(4)]
	if atLeastOne && n == 0 {
		n = 1
	}
	if n == 0 {
		return nil, 0
	}
	var cands []c12Out
	for _, o := range h.sortedView(p) {
		if o.ref.Value > 2000 && h.mature(o, height) {
			cands = append(cands, o)
		}
	}
	var txs []interfaces.Transaction
	var fees common.Fixed64
	for i := 0; i < n && len(cands) > 0; i++ {
		j := r.Intn(len(cands))
		o := cands[j]
		cands = append(cands[:j], cands[j+1:]...)
		tx, fee := h.transfer(o)
		txs = append(txs, tx)
		fees += fee
		if o.coinbase {
			h.c.Inc("honest_mature_coinbase_spends")
		}
	}
	return txs, fees
}

// mkBlock builds a block on p. kind "" = valid; otherwise exactly one fault
// that only context validation can see.
func (h *c12H) mkBlock(p *c12Blk, kind string, tree int) *c12Blk {
	r := h.r
	height := p.height + 1
	txs, fees := h.honestTxs(p, height, false)
	// coinbase-over claims fees that do not exist (the 30/70 split stays intact, so only the context
	// check of the coinbase total sees it); coinbase-under lowers the miner output.
	var skew int64
	var overFee common.Fixed64
	switch kind {
	case "double-spend":
		if len(p.spent) == 0 {
			kind = "coinbase-over"
			overFee = common.Fixed64(1 + r.Int63n(1e8))
			break
		}
		w := len(p.spent)
		if w > 6 {
			w = 6
		}
		o := p.spent[len(p.spent)-1-r.Intn(w)]
		tx, _ := h.transfer(o)
		txs = append(txs, tx)
	case "immature-spend":
		var cands []c12Out
		for _, o := range h.sortedView(p) {
			if o.coinbase && !h.mature(o, height) && o.ref.Value > 2000 {
				cands = append(cands, o)
			}
		}
		if len(cands) == 0 {
			kind = "coinbase-under"
			skew = -(1 + r.Int63n(1000))
			break
		}
		tx, _ := h.transfer(cands[r.Intn(len(cands))])
		txs = append(txs, tx)
	case "coinbase-over":
		overFee = common.Fixed64(1 + r.Int63n(1e8))
	case "coinbase-under":
		skew = -(1 + r.Int63n(1000))
	}
	b, err := h.nd.Assemble(node.BlockSpec{Parent: p.blk, Txs: txs, Fees: fees + overFee, RewardSkew: skew, Nonce: r.Uint64() | 1})
	if err != nil {
		h.c.Inconclusive("assemble: %v", err)
		h.stuck = true
		return nil
	}
	if kind != "" {
		h.c.Inc("fault_blocks_built")
		h.c.Inc("fault:" + kind)
	}
	return h.m.add(p, b, kind, tree)
}

func (h *c12H) genTree(ti int, tip *c12Blk) []*c12Blk {
	r := h.r
	budget := 5 + r.Intn(h.maxBlocks-4)
	nBr := 1 + r.Intn(4)
	maxDepth := int(tip.height - h.minRoot)
	if maxDepth > 10 {
		maxDepth = 10
	}
	d := 0
	if maxDepth > 0 && r.Intn(10) < 6 {
		d = 1 + r.Intn(maxDepth)
	}
	root := tip.ancestorAt(tip.height - uint32(d))
	var tree []*c12Blk
	top := int(tip.height)
	for bi := 0; (bi < nBr || len(tree) < 5) && budget > 0 && !h.stuck; bi++ {
		p := root
		if bi > 0 && len(tree) > 0 {
			switch r.Intn(4) {
			case 0:
			case 1:
				p = tip.ancestorAt(root.height + uint32(r.Intn(d+1)))
			default:
				p = tree[r.Intn(len(tree))]
			}
		}
		var target int
		switch x := r.Intn(8); {
		case x < 2:
			target = top
		case x < 6:
			target = top + 1 + r.Intn(3)
		default:
			target = top - 1 - r.Intn(2)
		}
		L := target - int(p.height)
		if L < 1 {
			L = 1 + r.Intn(3)
		}
		if L > 14 {
			L = 14
		}
		if L > budget {
			L = budget
		}
		bad, kind := 0, ""
		pf := 45
		if bi == 0 {
			pf = 25
		}
		if r.Intn(100) < pf {
			kind = c12Kinds[r.Intn(len(c12Kinds))]
			switch r.Intn(4) {
			case 0:
				bad = 1
			case 1:
				bad = L
			default:
				bad = 1 + r.Intn(L)
			}
		}
		cur := p
		for j := 1; j <= L; j++ {
			k := ""
			if j == bad {
				k = kind
			}
			nb := h.mkBlock(cur, k, ti)
			if nb == nil {
				return tree
			}
			tree = append(tree, nb)
			cur = nb
		}
		budget -= L
		if cur.chainValid && int(cur.height) > top {
			top = int(cur.height)
		}
		if fd := int(tip.height) - int(c12Fork(tip, cur).height); fd > 0 {
			h.c.Max("max:generated_fork_depth", int64(fd))
		}
	}
	h.c.Count("branches_built", int64(nBr))
	return tree
}

// genOrder returns indices into tree (with duplicates) in delivery order.
func (h *c12H) genOrder(tree []*c12Blk) ([]int, string) {
	r := h.r
	n := len(tree)
	idx := make([]int, n)
	for i := range idx {
		idx[i] = i
	}
	inTree := map[*c12Blk]bool{}
	for _, b := range tree {
		inTree[b] = true
	}
	mode := []string{"construction", "by-height", "shuffled", "reversed", "windowed", "parents-last"}[r.Intn(6)]
	switch mode {
	case "by-height":
		sort.SliceStable(idx, func(i, j int) bool { return tree[idx[i]].height < tree[idx[j]].height })
	case "shuffled":
		r.Shuffle(n, func(i, j int) { idx[i], idx[j] = idx[j], idx[i] })
	case "reversed":
		for i, j := 0, n-1; i < j; i, j = i+1, j-1 {
			idx[i], idx[j] = idx[j], idx[i]
		}
	case "windowed":
		for s := 0; s < n; {
			w := 2 + r.Intn(5)
			e := s + w
			if e > n {
				e = n
			}
			sub := idx[s:e]
			r.Shuffle(len(sub), func(i, j int) { sub[i], sub[j] = sub[j], sub[i] })
			s = e
		}
	case "parents-last":
		var first, last []int
		for _, i := range idx {
			if inTree[tree[i].parent] {
				first = append(first, i)
			} else {
				last = append(last, i)
			}
		}
		r.Shuffle(len(last), func(i, j int) { last[i], last[j] = last[j], last[i] })
		idx = append(first, last...)
	}
	var out []int
	for pos, i := range idx {
		out = append(out, i)
		if r.Intn(10) == 0 {
			out = append(out, idx[r.Intn(pos+1)])
		}
	}
	return out, mode
}

// ---------------------------------------------------------------------------
// one tree
// ---------------------------------------------------------------------------

func (h *c12H) runTree(ti int) {
	c := h.c
	h.treeNo = ti
	h.nontrivial = false
	tip := h.m.byHash[h.nd.Tip()]
	if tip == nil || tip != h.tipBlk {
		c.Inconclusive("tree %d: harness lost track of the node tip", ti)
		h.stuck = true
		return
	}
	tree := h.genTree(ti, tip)
	if h.stuck || len(tree) == 0 {
		return
	}
	order, mode := h.genOrder(tree)
	h.treeBlocks, h.order = tree, nil
	c.Inc("trees")
	c.Inc("order:" + mode)
	c.Count("tree_blocks", int64(len(tree)))
	c.Max("max:tree_blocks", int64(len(tree)))
	reorgs0 := h.counter("reorgs")
	for _, i := range order {
		if h.stuck {
			break
		}
		h.order = append(h.order, tree[i].id)
		h.deliverOne(tree[i])
	}
	if !h.stuck {
		h.quiesce(ti)
	}
	if ti < 2 {
		c.Sample(map[string]interface{}{"tree": ti, "shard": c.Shard, "blocks": h.describe(tree), "delivery_order": h.order, "order_mode": mode,
			"reorgs_in_tree": h.counter("reorgs") - reorgs0, "tip_height_after": h.nd.Height()})
	}
	c.Case(h.treeID(tree, order), h.nontrivial)
	// release views of everything that cannot be a parent any more
	keep := map[*c12Blk]bool{}
	for x, i := h.tipBlk, 0; x != nil && i < 14; x, i = x.parent, i+1 {
		keep[x] = true
	}
	for _, b := range tree {
		if !keep[b] {
			b.view, b.spent = nil, nil
		}
	}
	for x, i := tip, 0; x != nil && i < 14; x, i = x.parent, i+1 {
		if !keep[x] {
			x.view, x.spent = nil, nil
		}
	}
}

var c12Local = map[string]int64{}

func (h *c12H) inc(k string)           { c12Local[k]++; h.c.Inc(k) }
func (h *c12H) counter(k string) int64 { return c12Local[k] }

func (h *c12H) describe(tree []*c12Blk) []string {
	var s []string
	for _, b := range tree {
		k := b.kind
		if k == "" {
			k = "ok"
		}
		s = append(s, fmt.Sprintf("#%d<-#%d h%d %s", b.id, b.parent.id, b.height, k))
	}
	return s
}

func (h *c12H) treeID(tree []*c12Blk, order []int) string {
	var sb strings.Builder
	base := tree[0].id
	for _, b := range tree {
		pid := b.parent.id - base
		if pid < 0 {
			pid = -int(h.tipBlk.height) + int(b.parent.height) - 1000
		}
		fmt.Fprintf(&sb, "%d:%s;", pid, b.kind)
	}
	fmt.Fprintf(&sb, "|%v", order)
	return sb.String()
}

func (h *c12H) witness(extra map[string]interface{}) map[string]interface{} {
	w := map[string]interface{}{"tree": h.treeNo, "blocks": h.describe(h.treeBlocks), "delivered_so_far": h.order,
		"config": h.cfg.String()}
	var nv []string
	for _, b := range h.treeBlocks {
		st := "unknown"
		switch {
		case h.nd.Chain.MainChainHasBlock(b.height, &b.hash):
			st = "main"
		case h.nd.Chain.IsKnownOrphan(&b.hash):
			st = "orphan"
		case h.nd.Chain.BlockExists(&b.hash):
			st = "side"
		}
		nv = append(nv, fmt.Sprintf("#%d:%s", b.id, st))
	}
	w["node_view"] = nv
	for k, v := range extra {
		w[k] = v
	}
	return w
}

func (h *c12H) deliverOne(t *c12Blk) {
	c, nd := h.c, h.nd
	prev := h.tipBlk
	dup := t.delivered
	var isOrphan bool
	var perr error
	if p, pv, st := kit.Guard(func() { _, isOrphan, perr = nd.Process(t.blk) }); p {
		if len(st) > 600 {
			st = st[:600]
		}
		c.Violate("panic:ProcessBlock", fmt.Sprintf("ProcessBlock panicked: %v\n%s", pv, st), h.witness(nil))
		h.stuck = true
		return
	}
	c.Inc("deliveries")
	if dup {
		c.Inc("duplicate_deliveries")
	}
	if t.dropped > 0 {
		c.Inc("redelivered_after_rejection")
	}
	// Did the node keep the block (block index or orphan pool)? A block it rejects outright - sanity
	// failure, or context failure while extending the tip - is forgotten; the model then treats it as
	// not delivered, so that waiting descendants stay orphans and a re-delivery is processed afresh.
	var newly []*c12Blk
	forgotten := !nd.Chain.BlockExists(&t.hash) && !nd.Chain.IsKnownOrphan(&t.hash)
	if forgotten {
		t.dropped++
		c.Inc("blocks_rejected_and_forgotten")
		if t.kind == "" && t.parent.chainValid && t.parent.connected && !t.parent.lost {
			if ok, tw := h.crossCheck("valid-block-rejected", t); ok {
				c.Violate("valid-block-rejected", fmt.Sprintf("block #%d (height %d), valid on its fully delivered valid parent chain, was rejected and forgotten: %s", t.id, t.height, c12ErrStr(perr)),
					h.witness(map[string]interface{}{"process_error": c12ErrStr(perr), "twin": tw}))
			}
			h.stuck = true
			return
		}
		if t.parent != prev || !t.parent.connected {
			// not a tip extension: the fault was caught before the block was stored (sanity)
			c.Inc("fault_blocks_rejected_before_storage")
			c.Inc("rejected_before_storage:" + t.kind)
		} else {
			newly = []*c12Blk{t}
		}
	} else {
		newly = h.m.deliver(t)
	}
	if !dup && !forgotten && t.wasOrphan && !t.connected {
		c.Inc("orphans_delivered")
		if perr == nil && !isOrphan {
			c.Inc("model_orphan_not_reported_as_orphan")
		}
	}
	if len(newly) > 1 {
		c.Count("orphans_connected", int64(len(newly)-1))
		c.Max("max:orphan_cascade", int64(len(newly)-1))
		h.nontrivial = true
	}
	if t.kind != "" && !dup && !forgotten && t.connected && t.parent != prev && perr == nil {
		// accepted into a side chain without complaint: the fault is invisible to sanity checks
		c.Inc("fault_blocks_stored_as_side_chain")
	}
	h.afterDelivery(t, prev, newly, perr)
}

func (h *c12H) afterDelivery(t, prev *c12Blk, newly []*c12Blk, perr error) {
	c, nd, m := h.c, h.nd, h.m
	cur := m.byHash[nd.Tip()]
	if cur == nil {
		c.Violate("tip-unknown-block", "node tip is a block the harness never built", h.witness(nil))
		h.stuck = true
		return
	}
	h.tipBlk = cur
	if cur != prev && !prev.isAncestorOf(cur) {
		h.inc("reorgs")
		h.nontrivial = true
		c.Max("max:reorg_depth", int64(prev.height-c12Fork(prev, cur).height))
	}
	// did this delivery make the node try to switch to a heavier branch that contains an invalid block?
	// Replay the node's processing order (the delivered block, then former orphans breadth-first in
	// arrival order) on the model up to the first block that must fail: failing while extending the
	// simulated tip is a plain rejection, failing on a heavier side branch is a switch attempt.
	var attempted *c12Blk
	simTip := prev
	for _, x := range newly {
		if x.parent == simTip {
			if x.kind == "" {
				simTip = x
				continue
			}
			c.Inc("invalid_tip_extensions")
			break
		}
		if x.work.Cmp(simTip.work) <= 0 {
			continue // stored as side chain
		}
		if x.chainValid {
			simTip = x
			continue
		}
		attempted = x
		break
	}
	if attempted != nil {
		c.Inc("invalid_branch_attempts")
		c.Inc("attempt:" + attempted.firstBad.kind)
		if attempted.firstBad.parent == c12Fork(simTip, attempted) {
			c.Inc("attempts_failing_at_first_attached_block")
		} else {
			c.Inc("attempts_failing_after_some_attached")
		}
		h.nontrivial = true
	}
	if len(m.best) > 1 {
		c.Inc("tie_states")
	}
	for _, x := range newly {
		if x.chainValid && !nd.Chain.BlockExists(&x.hash) {
			c.Inc("valid_connected_block_not_indexed")
		}
	}

	bad := false
	switch {
	case !cur.chainValid:
		bad = true
		if ok, tw := h.crossCheck("tip-invalid", cur); ok {
			c.Violate("tip-invalid", fmt.Sprintf("after delivering #%d the active tip #%d (height %d) lies on a chain containing the %s block #%d",
				t.id, cur.id, cur.height, cur.firstBad.kind, cur.firstBad.id), h.witness(map[string]interface{}{"process_error": c12ErrStr(perr), "twin": tw}))
		} else {
			h.stuck = true
		}
	case !m.admissible(cur):
		bad = true
		h.classifyNotMax(t, simTip, cur, attempted, perr)
	case m.admissible(prev) && cur != prev:
		if attempted != nil && perr != nil {
			h.reportNotRestored(t, simTip, cur, attempted, perr, "an equal-work rival")
		} else if ok, tw := h.crossCheck("tie-incumbent-abandoned", prev); ok {
			c.Violate("tie-incumbent-abandoned", fmt.Sprintf("delivery of #%d moved the tip from #%d to #%d although both have the same work (height %d) and the incumbent is still valid",
				t.id, prev.id, cur.id, cur.height), h.witness(map[string]interface{}{"process_error": c12ErrStr(perr), "twin": tw}))
		} else {
			h.stuck = true
		}
	default:
		if attempted != nil && perr != nil && (cur == simTip || cur.work.Cmp(simTip.work) > 0) {
			c.Inc("failed_switch_kept_or_improved_tip")
		}
		if len(m.best) > 1 && cur == prev {
			c.Inc("ties_kept_incumbent")
		}
	}
	h.checkIndex(cur, 48)
	if bad && !h.stuck && (!cur.chainValid || !m.admissible(cur)) {
		if h.heal() {
			c.Inc("healed_by_extending_best_valid_chain")
		} else {
			c.Inc("not_healed")
			c.Note("shard %d tree %d: node did not return to the best valid chain even after it was extended; shard stops", c.Shard, h.treeNo)
			h.stuck = true
		}
	}
}

func c12ErrStr(e error) string {
	if e == nil {
		return ""
	}
	s := e.Error()
	if len(s) > 200 {
		s = s[:200]
	}
	return s
}

// twinConfirm replays chain on a fresh node and checks it against the label.
// ok=false means the twin contradicts the model (harness problem → the
// caller must not report a violation).
func (h *c12H) twinConfirm(leaf *c12Blk) (ok bool, summary string) {
	path := leaf.pathFromGenesis()
	h.twinSeq++
	out, err := c12Twin(h.c, h.twinSeq, h.cfg, path)
	if err != nil {
		h.c.Inc("twin_unavailable")
		return true, "twin unavailable: " + err.Error()
	}
	h.c.Inc("twin_paths_checked")
	if leaf.chainValid {
		if out.Accepted == len(path) {
			h.c.Inc("twin_valid_paths_confirmed")
			return true, fmt.Sprintf("fresh node accepts all %d blocks of the chain ending in #%d", len(path), leaf.id)
		}
		return false, fmt.Sprintf("fresh node rejects block at height %d of a chain labelled valid: %s", out.Accepted+1, out.Err)
	}
	want := int(leaf.firstBad.height) - 1
	if out.Accepted == want && out.Err != "" {
		h.c.Inc("twin_fault_paths_confirmed")
		h.c.Inc("twin_fault_confirmed:" + leaf.firstBad.kind)
		return true, fmt.Sprintf("fresh node accepts heights 1..%d and rejects #%d (height %d, %s): %s", want, leaf.firstBad.id, leaf.firstBad.height, leaf.firstBad.kind, errStrS(out.Err))
	}
	return false, fmt.Sprintf("fresh node accepted %d blocks of a chain whose block at height %d is labelled %s (err %q)", out.Accepted, leaf.firstBad.height, leaf.firstBad.kind, errStrS(out.Err))
}

func errStrS(s string) string {
	if len(s) > 160 {
		return s[:160]
	}
	return s
}

// crossCheck confirms a witness on twins before it is reported.
func (h *c12H) crossCheck(sig string, chains ...*c12Blk) (bool, []string) {
	if h.twinViol == nil {
		h.twinViol = map[string]int{}
	}
	if h.twinViol[sig] >= 1 {
		return true, []string{"(only the first witness per signature and shard is replayed on twins)"}
	}
	h.twinViol[sig]++
	var notes []string
	for _, l := range chains {
		if l == nil {
			continue
		}
		ok, s := h.twinConfirm(l)
		notes = append(notes, s)
		if !ok {
			h.c.Inconclusive("model and twin disagree: %s", s)
			return false, notes
		}
	}
	return true, notes
}

func (h *c12H) reportNotRestored(t, prev, cur, attempted *c12Blk, perr error, what string) {
	fork := c12Fork(prev, attempted)
	ok, tw := h.crossCheck("failed-reorg-not-restored", prev, attempted)
	if !ok {
		h.stuck = true
		return
	}
	h.c.Violate("failed-reorg-not-restored",
		fmt.Sprintf("tip was #%d at height %d (valid). Delivery of #%d made branch ..#%d (height %d, forks at height %d) heavier; its block #%d at height %d is invalid (%s). ProcessBlock returned %q and the node is now on #%d at height %d (%s) instead of its previous chain",
			prev.id, prev.height, t.id, attempted.id, attempted.height, fork.height, attempted.firstBad.id, attempted.firstBad.height,
			attempted.firstBad.kind, c12ErrStr(perr), cur.id, cur.height, what),
		h.witness(map[string]interface{}{"previous_tip": prev.id, "tip_now": cur.id, "fork_height": fork.height,
			"invalid_block": attempted.firstBad.id, "process_error": c12ErrStr(perr), "twin": tw}))
}

func (h *c12H) classifyNotMax(t, prev, cur, attempted *c12Blk, perr error) {
	c, m := h.c, h.m
	best := m.best[0]
	reasons := 0
	if attempted != nil && perr != nil && cur.isAncestorOf(attempted.firstBad) && cur != attempted.firstBad {
		h.reportNotRestored(t, prev, cur, attempted, perr, fmt.Sprintf("a valid chain of less work than the known valid chain ending in #%d at height %d", best.id, best.height))
		reasons++
	}
	// valid blocks of a best chain still sitting in the orphan pool although their parent is known to the node
	for iter := 0; iter < 8 && !h.stuck && !m.admissible(cur); iter++ {
		best = m.best[0]
		var b *c12Blk
		for x := best; x != nil && !x.isAncestorOf(cur); x = x.parent {
			if x.parent != nil && h.nd.Chain.IsKnownOrphan(&x.hash) && h.nd.Chain.BlockExists(&x.parent.hash) {
				b = x
			}
		}
		if b == nil {
			break
		}
		reasons++
		c.Inc("stuck_orphan_subtrees")
		if ok, tw := h.crossCheck("orphan-not-connected", best); ok {
			c.Violate("orphan-not-connected", fmt.Sprintf("valid block #%d (height %d) is still held as an orphan although its parent #%d is known to the node (ProcessBlock of #%d returned %q while connecting orphans); the fully delivered valid chain ending in #%d (height %d) has more work than the tip #%d (height %d)",
				b.id, b.height, b.parent.id, t.id, c12ErrStr(perr), best.id, best.height, cur.id, cur.height),
				h.witness(map[string]interface{}{"process_error": c12ErrStr(perr), "stuck_orphan": b.id, "twin": tw}))
		} else {
			h.stuck = true
			return
		}
		// the node can never connect that subtree any more (its parent is already known): drop it from the model and go on
		m.forgive(b)
	}
	if reasons > 0 {
		return
	}
	sig := "tip-not-max-work"
	if h.sigTag != "" {
		sig += ":" + h.sigTag
	}
	if ok, tw := h.crossCheck(sig, best); ok {
		c.Violate(sig, fmt.Sprintf("after delivering #%d the tip is #%d at height %d, but the fully delivered valid chain ending in #%d has height %d (strictly more work)",
			t.id, cur.id, cur.height, best.id, best.height), h.witness(map[string]interface{}{"process_error": c12ErrStr(perr), "twin": tw}))
	} else {
		h.stuck = true
	}
}

// heal extends the best valid chain by honest blocks until the node follows it.
func (h *c12H) heal() bool {
	for i := 0; i < 2; i++ {
		best := h.m.best[0]
		if best.view == nil {
			return false
		}
		nb := h.mkBlock(best, "", h.treeNo)
		if nb == nil {
			return false
		}
		nb.honest = true
		h.treeBlocks = append(h.treeBlocks, nb)
		h.order = append(h.order, nb.id)
		var herr error
		if p, _, _ := kit.Guard(func() { _, _, herr = h.nd.Process(nb.blk) }); p {
			return false
		}
		h.m.deliver(nb)
		if h.nd.Tip() != nb.hash {
			cur := h.m.byHash[h.nd.Tip()]
			h.c.Note("heal attempt %d: built #%d on #%d (height %d): err=%v; node tip now #%d height %d; parent known=%v orphan=%v", i, nb.id, best.id, best.height, herr, cur.id, cur.height,
				h.nd.Chain.BlockExists(&best.hash), h.nd.Chain.IsKnownOrphan(&best.hash))
		}
		if h.nd.Tip() == nb.hash {
			h.tipBlk = nb
			h.checkIndex(nb, 48)
			return true
		}
	}
	return false
}

// checkIndex: height index, best-chain node and store height all describe cur's chain.
func (h *c12H) checkIndex(cur *c12Blk, depth int) {
	c, nd := h.c, h.nd
	c.Inc("index_checks")
	if nd.Height() != cur.height {
		c.Violate("height-index-inconsistent", fmt.Sprintf("GetHeight()=%d but the tip block #%d has height %d", nd.Height(), cur.id, cur.height), h.witness(nil))
		return
	}
	for x, i := cur, 0; x != nil && (depth <= 0 || i < depth); x, i = x.parent, i+1 {
		hash, err := nd.Chain.GetBlockHash(x.height)
		if err != nil || hash != x.hash {
			c.Violate("height-index-inconsistent", fmt.Sprintf("GetBlockHash(%d) = %s (err %v) is not the ancestor #%d of the tip #%d", x.height, hash.String()[:16], err, x.id, cur.id), h.witness(nil))
			return
		}
		if !nd.Chain.MainChainHasBlock(x.height, &x.hash) {
			c.Violate("height-index-inconsistent", fmt.Sprintf("MainChainHasBlock(%d, #%d) is false for an ancestor of the tip", x.height, x.id), h.witness(nil))
			return
		}
	}
	if hash, err := nd.Chain.GetBlockHash(cur.height + 1); err == nil {
		c.Violate("height-index-inconsistent", fmt.Sprintf("GetBlockHash(tip+1) returns %s", hash.String()[:16]), h.witness(nil))
	}
	bc := nd.Chain.GetBestChain()
	if bc == nil || *bc.Hash != cur.hash || bc.Height != cur.height || nd.Store.GetHeight() != cur.height {
		c.Violate("tip-views-disagree", fmt.Sprintf("height index tip #%d (height %d) but BestChain/store report height %d / %d", cur.id, cur.height, bc.Height, nd.Store.GetHeight()), h.witness(nil))
	}
	if ex, ht, _ := nd.Store.GetFFLDB().BlockExists(&cur.hash); !ex || ht != cur.height {
		c.Violate("tip-views-disagree", fmt.Sprintf("block store does not have tip #%d in the main chain (exists=%v height=%d)", cur.id, ex, ht), h.witness(nil))
	}
}

func (h *c12H) compareUTXO(cur *c12Blk) {
	c, nd := h.c, h.nd
	c.Inc("utxo_view_compares")
	want := map[node.OutKey]common.Fixed64{}
	for k, o := range cur.view {
		want[k] = o.ref.Value
	}
	got := map[node.OutKey]common.Fixed64{}
	for i := 0; i < 6; i++ {
		ph := node.Key(i).ProgramHash
		us, err := nd.Store.GetFFLDB().GetUTXO(&ph)
		if err != nil {
			c.Note("GetUTXO: %v", err)
			return
		}
		for _, u := range us {
			if u.Value > 0 {
				got[node.OutKey{TxID: u.TxID, Index: u.Index}] = u.Value
			}
		}
	}
	c.Count("utxos_compared", int64(len(want)))
	var missing, extra []string
	for k, v := range want {
		if gv, ok := got[k]; !ok || gv != v {
			missing = append(missing, k.String())
		}
	}
	for k := range got {
		if _, ok := want[k]; !ok {
			extra = append(extra, k.String())
		}
	}
	if len(missing)+len(extra) > 0 {
		sort.Strings(missing)
		sort.Strings(extra)
		if len(missing) > 4 {
			missing = missing[:4]
		}
		if len(extra) > 4 {
			extra = extra[:4]
		}
		c.Violate("utxo-view-differs", fmt.Sprintf("at tip #%d (height %d) the node's UTXO index differs from the replay of that chain: missing %v, unexpected %v", cur.id, cur.height, missing, extra), h.witness(nil))
	}
}

func (h *c12H) quiesce(ti int) {
	c, nd, m := h.c, h.nd, h.m
	cur := h.tipBlk
	if !cur.chainValid || !m.admissible(cur) {
		// already reported and healing failed
		return
	}
	h.checkIndex(cur, 0)
	h.compareUTXO(cur)
	if c.Quick() || ti%8 == 0 {
		l := nd.Replay()
		c.Inc("ledger_replays")
		for _, is := range l.Issues {
			c.Violate("ledger:"+is.Kind, fmt.Sprintf("tree %d: height %d tx %s: %s", ti, is.Height, is.TxID, is.Detail), h.witness(nil))
		}
	}
	// positive control for the by-construction labels: every leaf of the first trees on a twin
	if ti < c.N(1, 3) {
		isLeaf := map[*c12Blk]bool{}
		for _, b := range h.treeBlocks {
			isLeaf[b] = true
		}
		for _, b := range h.treeBlocks {
			delete(isLeaf, b.parent)
		}
		n := 0
		for _, b := range h.treeBlocks {
			if isLeaf[b] && n < 5 {
				n++
				if ok, s := h.twinConfirm(b); !ok {
					c.Inconclusive("tree %d: model and twin disagree: %s", ti, s)
					h.stuck = true
					return
				}
			}
		}
	}
	// honest extension: blocks with transfers of model-unspent outputs on the tip
	k := 1 + h.r.Intn(2)
	for i := 0; i < k; i++ {
		txs, _ := h.honestTxs(cur, cur.height+1, true)
		var b *types.Block
		var err error
		if p, pv, _ := kit.Guard(func() { b, err = nd.MineTip(txs...) }); p {
			c.Violate("panic:honest-extension", fmt.Sprintf("mining on the tip panicked: %v", pv), h.witness(nil))
			h.stuck = true
			return
		}
		c.Inc("honest_extensions")
		if err != nil || b == nil || nd.Tip() != b.Hash() {
			c.Violate("honest-extension-rejected", fmt.Sprintf("tree %d: an honest block with %d transfer(s) of outputs that are unspent on the active chain (tip #%d, height %d) was not accepted: %v",
				ti, len(txs), cur.id, cur.height, err), h.witness(nil))
			h.stuck = true
			return
		}
		c.Inc("honest_extensions_accepted")
		c.Count("honest_extension_txs", int64(len(txs)))
		nb := m.add(cur, b, "", ti)
		nb.honest = true
		m.deliver(nb)
		h.treeBlocks = append(h.treeBlocks, nb)
		cur = nb
		h.tipBlk = nb
		if !m.admissible(nb) {
			c.Violate("tip-not-max-work", fmt.Sprintf("tree %d: honest extension #%d is the tip but the model knows a heavier valid chain ending in #%d", ti, nb.id, m.best[0].id), h.witness(nil))
			h.stuck = true
			return
		}
	}
	h.checkIndex(cur, 48)
	h.compareUTXO(cur)
	c.Max("max:chain_height", int64(cur.height))
}

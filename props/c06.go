package props

import (
	"fmt"
	"sort"
	"strings"

	"verif/kit"
	"verif/kit/node"
)

// C06 — no output is ever spent twice.
//
// Workload: props/hist_utxo.go (hostile history on a real node).
// Oracle, after every step:
//   * replay of the blocks the node itself returns for heights 0..tip: an
//     outpoint spent twice / spent without having been created is a violation;
//   * every adversarial block (7 kinds, each valid in every other respect)
//     must be refused by ProcessBlock with the tip unchanged;
//   * TxPool.GetTxsInPool(): pairwise outpoint-disjoint, no tx with the same
//     outpoint twice, and after the node's post-block cleanup no tx spending an
//     outpoint that the active chain already spent;
//   * conflicting pairs: the second submission is refused; adversarial
//     submissions (duplicate input, chain-spent outpoint) are refused;
//   * 8 goroutines racing conflicting spends of 3 outpoints: at most one
//     admission per outpoint.

func init() {
	kit.Register(&kit.Spec{
		ID:   "C06",
		Rule: "one seeded history per shard on a live pow-era regnet node (6 funded accounts + miner/foundation coinbases): random steps = honest blocks of random transfers (zero-value outputs, >255 outputs, repeated addresses, full spends), competing branches (length 1..10 on non-tip parents, spending the same outpoints differently, sometimes the same tx on both branches) delivered in order / reversed / shuffled / deferred, reorganisations back and forth, 7 kinds of double-spending blocks as direct tip extensions, conflicting and adversarial mempool submissions, mining of the node's own pool, 8-goroutine conflicting submissions; even shards run nd.PostBlock after each accepted block, odd shards subscribe the node's real netsync event handler. distinct = (step kind, resulting tip, pool content); non-trivial = the step delivered a block or submitted a tx to the node",
		Shards: func(tier string) int {
			if tier == "thorough" {
				return 48
			}
			return 16
		},
		Run: runC06,
		Require: append([]string{"steps", "replays", "reorgs", "adv_blocks_rejected", "pool_scans", "pool_txs_scanned", "pool_conflict_second_rejected", "concurrent_rounds", "honest_tx_pool_accepted", "blocks_honest_tip", "contested_outpoints_spent", "mode_postblock", "mode_netsync",
			"adv_block_rejected_dup-input-in-tx", "adv_block_rejected_dup-input-across-txs", "adv_block_rejected_spent-on-active-chain", "adv_block_rejected_only-on-losing-branch", "adv_block_rejected_never-created", "adv_block_rejected_immature-coinbase"}, c06RespendRequire...),
		Assumptions: []string{
			"regnet parameters, pow era, InstantBlock difficulty (every block carries the same work, so 'heavier' = 'longer'), CoinbaseMaturity=3",
			"the replay model (kit/node/ledger.go) and the harness block model are correct; they share no code with the node's validation or indexes",
			"odd shards: the mempool is maintained by the node's own netsync.SyncManager.handleBlockchainEvents (constructed without a p2p server); even shards: by nd.PostBlock = CleanSubmittedTransactions + CheckAndCleanAllTransactions after each accepted block",
			"failed reorganisations (a heavier branch containing an invalid block) are not generated here (property C12)",
		},
		TimeoutS: func(tier string) int { return 1800 },
		Post: func(a *kit.Agg) {
			if a.Counters["model_desync"] > 0 {
				a.Inconclusive("the harness model and the node disagreed about the active chain in %d shard(s) (see notes); the history was stopped there", a.Counters["model_desync"])
			}
		},
	})
}

func runC06(c *kit.Ctx) {
	h, err := newHist(c, "hist")
	if err != nil {
		c.Inconclusive("history bootstrap: %v", err)
		return
	}
	defer h.close()
	nd := h.nd

	scanPool := func(l *node.Ledger, afterCleanup bool) string {
		txs := nd.TxPool.GetTxsInPool()
		c.Inc("pool_scans")
		owner := map[node.OutKey]string{}
		var sigs []string
		for _, tx := range txs {
			c.Inc("pool_txs_scanned")
			id := tx.Hash().String()
			sigs = append(sigs, id[:8])
			seen := map[node.OutKey]bool{}
			for _, in := range tx.Inputs() {
				k := node.OutKey{TxID: in.Previous.TxID, Index: in.Previous.Index}
				if seen[k] {
					c.Violate("mempool:tx-with-duplicate-input", fmt.Sprintf("step %d: pool tx %s lists outpoint %s twice", h.stepNo, id, k), nil)
					continue
				}
				seen[k] = true
				if o, dup := owner[k]; dup && o != id {
					c.Violate("mempool:two-txs-share-outpoint", fmt.Sprintf("step %d (%s mode): pool holds %s and %s, both spending %s", h.stepNo, h.mode, o, id, k), nil)
				}
				owner[k] = id
				if l != nil && afterCleanup {
					if _, ok := l.Unspent[k]; !ok {
						if at, was := l.SpentAt[k]; was {
							c.Violate("mempool:holds-spend-of-chain-spent-outpoint", fmt.Sprintf("step %d (%s mode): after cleanup the pool still holds %s spending %s, spent on the active chain at height %d", h.stepNo, h.mode, id, k, at), nil)
						} else {
							c.Inc("pool_tx_input_unknown_on_active_chain") // not a C06 matter
						}
					}
				}
			}
		}
		sort.Strings(sigs)
		return strings.Join(sigs, "")
	}

	respend := newC06Respend(h, c)
	h.onSubmit = func() { scanPool(nil, false) }
	h.onStep = func(kind string) {
		// one targeted re-spend case (c06_respend.go) before the oracle looks
		respend.probe()
		l := nd.Replay()
		c.Inc("replays")
		for _, is := range l.Issues {
			switch is.Kind {
			case "double-spend", "unknown-input", "chain-gap", "chain-broken":
				c.Violate("chain:"+is.Kind, fmt.Sprintf("after step %d (%s): active chain height %d tx %s: %s", h.stepNo, kind, is.Height, is.TxID, is.Detail), nil)
			}
		}
		c.Count("chain_spends_checked", int64(len(l.SpentAt)))
		poolSig := scanPool(l, true)
		h.chainAgrees(l)
		c.Case(fmt.Sprintf("%s|%s|%s", kind, nd.Tip().String(), poolSig), h.touched)
		if h.stepNo%25 == 3 && c.Shard < 2 {
			c.Sample(map[string]interface{}{"step": h.stepNo, "kind": kind, "mode": h.mode, "height": nd.Height(), "chain_spends": len(l.SpentAt), "unspent": len(l.Unspent), "pool_txs": len(nd.TxPool.GetTxsInPool()), "blocks_built": len(h.order) - 1, "pending": len(h.pending)})
		}
	}
	h.onAdvBlock = func(kind string, res hAdvResult) {
		c.Case("adv:"+kind+fmt.Sprint(h.stepNo), true)
		if res.Err != nil && res.TipUnchanged && !res.OnChain {
			switch kind {
			case kRespendFirst, kRespendMiddle, kRespendLast:
				c.Inc(kind + "_block_rejected")
			case kTwoSame, kTwoDiff, kOneSame, kOneDiff:
				c.Inc(kind + "_rejected")
			}
		}
		switch {
		case res.OnChain || !res.TipUnchanged:
			c.Violate("adv-block-accepted:"+kind, fmt.Sprintf("step %d: block with a %s spend (valid in every other respect) was connected: height %d -> %d, err=%v", h.stepNo, kind, res.Height0, res.Height1, res.Err), nil)
		case res.Err == nil:
			c.Violate("adv-block-no-error:"+kind, fmt.Sprintf("step %d: ProcessBlock returned no error for a direct tip extension with a %s spend (tip unchanged)", h.stepNo, kind), nil)
		}
	}
	h.onAdvTx = func(kind string, err error) {
		if err == nil && (kind == "dup-input-in-tx" || kind == "spent-on-active-chain") {
			c.Violate("mempool:admitted-"+kind, fmt.Sprintf("step %d: AppendToTxPool admitted a tx with a %s spend", h.stepNo, kind), nil)
		}
	}
	h.onPair = func(kind string, first, second error) {
		if first != nil {
			c.Inc("pool_conflict_first_rejected")
			c.Note("step %d: first tx of a conflicting pair rejected: %v", h.stepNo, first)
		}
		if first == nil && second == nil {
			c.Violate("mempool:conflicting-pair-admitted", fmt.Sprintf("step %d: both transactions of a conflicting pair (%s) were admitted", h.stepNo, kind), nil)
		}
	}
	h.onConcurrent = func(admitted []int, g int) {
		for j, a := range admitted {
			if a > 1 {
				c.Violate("mempool:concurrent-double-admission", fmt.Sprintf("step %d: %d of %d concurrent conflicting spends of outpoint #%d were admitted", h.stepNo, a, g, j), nil)
			}
			if a == 0 {
				c.Inc("concurrent_outpoint_without_admission")
			}
			if a == 1 {
				c.Inc("concurrent_exactly_one_admission")
			}
		}
		scanPool(nil, false)
	}
	h.run(c.N(110, 450))
}

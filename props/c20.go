package props

import (
	"fmt"
	"math/rand"
	"sort"
	"strings"

	"github.com/elastos/Elastos.ELA/utils"

	"verif/kit"
)

// C20 — utils.History: after Append/Commit over increasing heights,
// RollbackTo(h)/SeekTo(h) (within capacity) must leave exactly the state that
// replaying the executes of heights <= h on a fresh state produces; seeking
// back and forth and then committing must equal never having seeked.
//
// The real utils.History is driven with closures over a harness state (vector
// + map + list). The oracle is a replay model over the *data* of the executes
// that were committed; it never looks at rollback functions.
//
// Every change handed to Append is well-formed: its rollback is the exact
// inverse of its execute in the context in which the execute runs (after the
// earlier changes of the same height), or it is the dpos/state idiom
// "capture the current value at Append time, restore it on rollback" on a
// variable that no earlier non-idiom change of the same height touched. Under
// that contract undoing a height in reverse order restores the pre-height
// state, so the replay oracle never demands more than the API promises.
//
// Sequences are generated per *profile*; each profile adds exactly one usage
// feature to the baseline so that a violation signature names the feature and
// the failing operation.

func init() {
	kit.Register(&kit.Spec{
		ID:     "C20",
		Rule:   "op sequences over a real utils.History (capacity 3..10) per usage profile: indep (baseline: consecutive heights, one commit per height, independent changes per height, legal seeks), dep (dependent exact-inverse changes within one height), gap (non-consecutive heights), dup (several commits of one height, as Arbiters.ProcessBlock/forceChange do), temp (height-0 temporary changes as ProcessSpecialTxPayload does), temp2 (second temp round / empty block after temp), seekmix (RollbackTo while seeked, SeekTo after rollback), rbseek (RollbackSeekTo with externally restored state), rbseektemp (the same with temporary changes pending). distinct = distinct op trace; non-trivial = at least one judged rollback/seek to a lower height",
		Shards: func(tier string) int { return 8 },
		Run:    runC20,
		Require: []string{"op_append", "op_commit", "op_rollback_lower", "op_seek_back", "op_seek_forward", "op_commit_while_seeked",
			"op_rollbackseek", "op_rollbackseek_with_pending_temp", "op_temp_commit", "capacity_overflow_sequences", "heights_with_dependent_changes",
			"profile_indep_sequences_clean", "judged_rollback_at_capacity_limit", "multi_change_heights"},
		Assumptions: []string{
			"callers hand Append well-formed changes (rollback is the exact inverse of execute in its execution context, or the capture-at-Append idiom on an otherwise untouched variable)",
			"'within capacity' is judged as: at most capacity distinct committed heights are undone (capacity-1 in profiles that commit one height several times), counted from what each Commit is assumed to keep; deeper rollbacks are recorded, not judged",
		},
	})
}

const c20NX = 4

type c20State struct {
	X [c20NX]int64
	M map[int]int64
	L []int64
}

func newC20State() *c20State { return &c20State{M: map[int]int64{}} }

func (s *c20State) clone() *c20State {
	n := &c20State{X: s.X, M: make(map[int]int64, len(s.M)), L: append([]int64(nil), s.L...)}
	for k, v := range s.M {
		n.M[k] = v
	}
	return n
}

func (s *c20State) set(o *c20State) {
	s.X = o.X
	s.M = make(map[int]int64, len(o.M))
	for k, v := range o.M {
		s.M[k] = v
	}
	s.L = append([]int64(nil), o.L...)
}

func (s *c20State) equal(o *c20State) bool {
	if s.X != o.X || len(s.M) != len(o.M) || len(s.L) != len(o.L) {
		return false
	}
	for k, v := range s.M {
		if w, ok := o.M[k]; !ok || w != v {
			return false
		}
	}
	for i := range s.L {
		if s.L[i] != o.L[i] {
			return false
		}
	}
	return true
}

func (s *c20State) String() string {
	ks := make([]int, 0, len(s.M))
	for k := range s.M {
		ks = append(ks, k)
	}
	sort.Ints(ks)
	var b strings.Builder
	fmt.Fprintf(&b, "X=%v M={", s.X)
	for i, k := range ks {
		if i > 0 {
			b.WriteByte(' ')
		}
		fmt.Fprintf(&b, "%d:%d", k, s.M[k])
	}
	fmt.Fprintf(&b, "} L=%v", s.L)
	return b.String()
}

// c20Op is a state transformer as pure data.
// K: 'a' X[I]+=V, 's' X[I]=V, 'i' M[I]=V, 'd' delete M[I], 'p' push V, 'o' pop (no-op on empty), 'n' no-op.
type c20Op struct {
	K byte
	I int
	V int64
}

func (o c20Op) String() string {
	switch o.K {
	case 'a':
		return fmt.Sprintf("x%d+=%d", o.I, o.V)
	case 's':
		return fmt.Sprintf("x%d=%d", o.I, o.V)
	case 'i':
		return fmt.Sprintf("m[%d]=%d", o.I, o.V)
	case 'd':
		return fmt.Sprintf("del m[%d]", o.I)
	case 'p':
		return fmt.Sprintf("push %d", o.V)
	case 'o':
		return "pop"
	}
	return "nop"
}

func (s *c20State) apply(o c20Op) {
	switch o.K {
	case 'a':
		s.X[o.I] += o.V
	case 's':
		s.X[o.I] = o.V
	case 'i':
		s.M[o.I] = o.V
	case 'd':
		delete(s.M, o.I)
	case 'p':
		s.L = append(s.L, o.V)
	case 'o':
		if len(s.L) > 0 {
			s.L = s.L[:len(s.L)-1]
		}
	}
}

// exact inverse of o when o executes on state ctx.
func c20Inverse(o c20Op, ctx *c20State) c20Op {
	switch o.K {
	case 'a':
		return c20Op{K: 'a', I: o.I, V: -o.V}
	case 's':
		return c20Op{K: 's', I: o.I, V: ctx.X[o.I]}
	case 'i', 'd':
		if old, ok := ctx.M[o.I]; ok {
			return c20Op{K: 'i', I: o.I, V: old}
		}
		if o.K == 'i' {
			return c20Op{K: 'd', I: o.I}
		}
		return c20Op{K: 'n'}
	case 'p':
		return c20Op{K: 'o'}
	case 'o':
		if n := len(ctx.L); n > 0 {
			return c20Op{K: 'p', V: ctx.L[n-1]}
		}
	}
	return c20Op{K: 'n'}
}

// c20Change: Fam 'a' commuting delta, 'b' capture-at-Append absolute set,
// 'c' exact inverse computed in execution context.
type c20Change struct {
	Fam byte
	Op  c20Op
	Inv c20Op
}

type c20Entry struct {
	H   uint32
	Chs []c20Change
	Dep bool // contains changes whose undo order matters
}

// per-height bookkeeping for the generator's well-formedness rules
type c20Touched struct {
	xDelta, xB, xC [c20NX]int
	mKey           map[int]int
	push, pop      int
}

func newC20Touched() *c20Touched { return &c20Touched{mKey: map[int]int{}} }

type c20Profile struct {
	name     string
	dep      bool // dependent changes within a height
	gap      bool
	dup      bool
	temp     bool
	temp2    bool // second temp round / empty block commit after temp
	seekmix  bool // rollback while seeked, seek after rollback
	rbseek   bool
	seek     bool // legal seeks
	seekseq  bool // consecutive seeks between non-top heights
	weight   int
	controls bool // expected clean: positive control
}

var c20Profiles = []c20Profile{
	{name: "indep", seek: true, weight: 3, controls: true},
	{name: "dep", dep: true, seek: true, temp: true, weight: 3},
	{name: "gap", gap: true, seek: true, weight: 2},
	{name: "dup", dup: true, seek: true, weight: 2},
	{name: "temp", temp: true, seek: true, weight: 2},
	{name: "temp2", temp: true, temp2: true, weight: 1},
	{name: "seekseq", seek: true, seekseq: true, weight: 2},
	{name: "seekmix", seekmix: true, seek: true, weight: 2},
	{name: "rbseek", rbseek: true, weight: 2},
	// RollbackSeekTo while temporary (height-0) changes are pending: the owner's state comes from the
	// checkpoint, so the pending temporary changes must be forgotten, not undone later
	{name: "rbseektemp", rbseek: true, temp: true, weight: 2},
}

type c20Run struct {
	c    *kit.Ctx
	r    *rand.Rand
	p    *c20Profile
	cap  int
	h    *utils.History
	rs   *c20State // the state the real closures act on
	log  []c20Entry
	top  uint32
	seek uint32 // height the real state is expected to be at (== top unless seeked)
	// floor: heights <= floor are not guaranteed to be still recorded. A
	// History of capacity c is assumed to keep the `guar` most recent
	// distinct heights at each Commit; what was dropped stays dropped.
	floor uint32
	guar  int // number of most recent distinct heights assumed to be kept
	// stale: History.seekHeight was not refreshed (RollbackTo/RollbackSeekTo since the last Commit)
	stale      bool
	tempActive bool
	tempChs    []c20Change
	tempRounds int
	trace      []string
	failed     bool
	judgedLow  bool
	overflow   bool
	hasDep     bool
	// hostile: first non-baseline call pattern used in this sequence (profiles seekmix, temp2)
	hostile string
}

func (q *c20Run) replay(h uint32) *c20State {
	s := newC20State()
	for _, e := range q.log {
		if e.H <= h {
			for _, ch := range e.Chs {
				s.apply(ch.Op)
			}
		}
	}
	return s
}

func (q *c20Run) distinctHeights() []uint32 {
	var hs []uint32
	for _, e := range q.log {
		if len(hs) == 0 || hs[len(hs)-1] != e.H {
			hs = append(hs, e.H)
		}
	}
	return hs
}

// number of distinct committed heights > t
func (q *c20Run) depth(t uint32) int {
	n := 0
	for _, h := range q.distinctHeights() {
		if h > t {
			n++
		}
	}
	return n
}

func (q *c20Run) tr(format string, a ...interface{}) {
	q.trace = append(q.trace, fmt.Sprintf(format, a...))
}

// signature: one per defect / input class. Each non-baseline profile adds one
// usage feature, so (profile, first hostile feature, site) names the class.
func (q *c20Run) signature(site string) string {
	isSeekSite := strings.HasPrefix(site, "Seek") || site == "CommitWhileSeeked"
	switch {
	case q.hostile != "":
		return "history:" + q.hostile
	case q.p.seekseq && isSeekSite:
		return "history:seek-from-seeked-position"
	case q.p.gap && isSeekSite:
		return "history:seek-with-height-gaps"
	case q.p.dup && isSeekSite:
		return "history:seek-with-repeated-height-commits"
	}
	return "history:" + q.p.name + ":" + site
}

func (q *c20Run) violate(site, detail string) {
	q.failed = true
	q.c.Violate(q.signature(site), site+": "+detail+" | profile="+q.p.name+" capacity="+fmt.Sprint(q.cap)+" trace: "+strings.Join(q.trace, " ; "),
		map[string]interface{}{"profile": q.p.name, "site": site, "capacity": q.cap, "trace": q.trace})
}

func (q *c20Run) setHostile(h string) {
	if q.hostile == "" {
		q.hostile = h
	}
}

// forward-order diagnosis: what the state would be if the heights > t were
// undone newest-first but the changes of each height oldest-first.
func (q *c20Run) forwardOrderPrediction(from *c20State, t uint32, upTo uint32) *c20State {
	s := from.clone()
	for i := len(q.log) - 1; i >= 0; i-- {
		e := q.log[i]
		if e.H > t && e.H <= upTo {
			for _, ch := range e.Chs {
				s.apply(ch.Inv)
			}
		}
	}
	return s
}

func (q *c20Run) check(site string, want *c20State, fwdPred *c20State) bool {
	if q.rs.equal(want) {
		return true
	}
	if fwdPred != nil && q.hostile == "" && q.rs.equal(fwdPred) {
		// the observed state is exactly what undoing each height's changes in
		// forward (append) order produces
		q.failed = true
		q.c.Inc("diag_matches_forward_order_undo")
		q.c.Violate("history:rollback-forward-order-within-height",
			fmt.Sprintf("%s (profile %s): state %s, replay model %s; observed state equals undoing each height's changes in append order | capacity=%d trace: %s",
				site, q.p.name, q.rs, want, q.cap, strings.Join(q.trace, " ; ")),
			map[string]interface{}{"profile": q.p.name, "site": site, "capacity": q.cap, "trace": q.trace})
		return false
	}
	q.violate(site, fmt.Sprintf("state %s, replay model %s", q.rs, want))
	return false
}

func (q *c20Run) guard(site string, f func()) bool {
	p, v, _ := kit.Guard(f)
	if p {
		q.violate("panic:"+site, fmt.Sprintf("panic: %v", v))
		return false
	}
	return true
}

// mkChange builds a well-formed change for spec (fam, op) given the
// pending-aware model state pend; it applies op to pend.
func (q *c20Run) mkChange(fam byte, op c20Op, pend *c20State) c20Change {
	ch := c20Change{Fam: fam, Op: op}
	switch fam {
	case 'b':
		// the dpos/state idiom: read the *real* state now, restore it on rollback
		ch.Inv = c20Op{K: 's', I: op.I, V: q.rs.X[op.I]}
	default:
		ch.Inv = c20Inverse(op, pend)
	}
	pend.apply(op)
	return ch
}

func (q *c20Run) appendReal(height uint32, ch c20Change) bool {
	rs := q.rs
	op, inv := ch.Op, ch.Inv
	ok := q.guard("Append", func() {
		q.h.Append(height, func() { rs.apply(op) }, func() { rs.apply(inv) })
	})
	q.c.Inc("op_append")
	return ok
}

// genChange picks a change obeying the profile's well-formedness rules.
func (q *c20Run) genChange(t *c20Touched, pend *c20State, allowB bool) (byte, c20Op, bool) {
	r := q.r
	for try := 0; try < 8; try++ {
		switch r.Intn(10) {
		case 0, 1, 2: // delta
			i := r.Intn(c20NX)
			if !q.p.dep && (t.xB[i] > 0 || t.xC[i] > 0) {
				continue
			}
			t.xDelta[i]++
			return 'a', c20Op{K: 'a', I: i, V: int64(r.Intn(19) - 9)}, t.xB[i] > 0 || t.xC[i] > 0
		case 3, 4, 5: // capture-at-append set
			i := r.Intn(c20NX)
			if !allowB || t.xDelta[i] > 0 || t.xC[i] > 0 { // well-formedness of the idiom
				continue
			}
			t.xB[i]++
			return 'b', c20Op{K: 's', I: i, V: int64(r.Intn(100))}, false
		case 6: // exact-inverse set
			i := r.Intn(c20NX)
			touched := t.xDelta[i] > 0 || t.xB[i] > 0 || t.xC[i] > 0
			if !q.p.dep && touched {
				continue
			}
			t.xC[i]++
			return 'c', c20Op{K: 's', I: i, V: int64(r.Intn(100))}, touched
		case 7, 8: // map insert / delete
			k := r.Intn(4)
			if !q.p.dep && t.mKey[k] > 0 {
				continue
			}
			dep := t.mKey[k] > 0
			t.mKey[k]++
			if r.Intn(3) == 0 {
				return 'c', c20Op{K: 'd', I: k}, dep
			}
			return 'c', c20Op{K: 'i', I: k, V: int64(r.Intn(100))}, dep
		default: // list
			if r.Intn(2) == 0 {
				if !q.p.dep && t.pop > 0 {
					continue
				}
				dep := t.pop > 0
				t.push++
				return 'c', c20Op{K: 'p', V: int64(r.Intn(100))}, dep
			}
			if !q.p.dep && (t.pop > 0 || t.push > 0) {
				continue
			}
			dep := t.pop > 0 || t.push > 0
			t.pop++
			return 'c', c20Op{K: 'o'}, dep
		}
	}
	i := r.Intn(c20NX)
	if !q.p.dep && (t.xB[i] > 0 || t.xC[i] > 0) {
		return 'c', c20Op{K: 'n'}, false
	}
	t.xDelta[i]++
	return 'a', c20Op{K: 'a', I: i, V: 1}, t.xB[i] > 0 || t.xC[i] > 0
}

// pending-aware model state on top of the committed log (+ nothing else)
func (q *c20Run) topState() *c20State { return q.replay(^uint32(0)) }

// doBlock appends n generated changes at height and commits. again=true means
// height == top (another commit of the same height).
func (q *c20Run) doBlock(height uint32, n int, specs []c20Change) {
	if q.failed {
		return
	}
	seeked := q.seek != q.top
	pend := q.topState()
	t := newC20Touched()
	var chs []c20Change
	dep := false
	first := true
	add := func(ch c20Change) bool {
		if !q.appendReal(height, ch) {
			return false
		}
		chs = append(chs, ch)
		if first {
			first = false
			if q.tempActive {
				// "The changes will be rollback when next block comes."
				q.tempActive = false
				base := q.topState()
				withTemp := base.clone()
				for _, tc := range q.tempChs {
					withTemp.apply(tc.Op)
				}
				fwd := withTemp.clone()
				for _, tc := range q.tempChs {
					fwd.apply(tc.Inv)
				}
				q.tr("append@%d(first, undoes temp)", height)
				if !q.check("TempUndoByAppend", base, fwd) {
					return false
				}
				q.c.Inc("temp_undone_by_append")
			}
		}
		return true
	}
	if specs != nil {
		for _, s := range specs {
			ch := q.mkChange(s.Fam, s.Op, pend)
			if !add(ch) {
				return
			}
		}
		dep = true
	} else {
		for i := 0; i < n; i++ {
			fam, op, d := q.genChange(t, pend, !seeked && !q.tempActive)
			if op.K == 'n' {
				continue
			}
			dep = dep || d
			ch := q.mkChange(fam, op, pend)
			if !add(ch) {
				return
			}
		}
	}
	if q.tempActive {
		// no Append happened: an empty block right after a temp commit
		q.tr("commit@%d(no appends, temp active)", height)
	}
	var ss []string
	for _, ch := range chs {
		ss = append(ss, string(ch.Fam)+":"+ch.Op.String()+"/"+ch.Inv.String())
	}
	q.tr("block@%d[%s]", height, strings.Join(ss, ", "))
	if !q.guard("Commit", func() { q.h.Commit(height) }) {
		return
	}
	q.c.Inc("op_commit")
	if len(chs) > 1 {
		q.c.Inc("multi_change_heights")
	}
	if dep {
		q.c.Inc("heights_with_dependent_changes")
		q.hasDep = true
	}
	if len(chs) == 0 {
		q.c.Inc("empty_commits")
	}
	site := "Commit"
	if seeked {
		site = "CommitWhileSeeked"
		q.c.Inc("op_commit_while_seeked")
	}
	if q.tempActive {
		site = "EmptyCommitAfterTemp"
		q.setHostile("empty-commit-after-temp-swallowed")
		q.tempActive = false
		q.c.Inc("empty_commit_after_temp")
	}
	if height == q.top && len(q.log) > 0 {
		q.c.Inc("op_commit_same_height_again")
	}
	q.log = append(q.log, c20Entry{H: height, Chs: chs, Dep: dep})
	q.top = height
	q.seek = height
	q.stale = false
	{
		var hs []uint32
		for _, h := range q.distinctHeights() {
			if h > q.floor {
				hs = append(hs, h)
			}
		}
		if len(hs) > q.guar {
			q.floor = hs[len(hs)-q.guar-1]
		}
		if q.depthAll() > q.cap && !q.overflow {
			q.overflow = true
			q.c.Inc("capacity_overflow_sequences")
		}
	}
	if !q.check(site, q.topState(), nil) {
		return
	}
	if got := q.h.Height(); got != height {
		q.violate(site+":Height", fmt.Sprintf("Height()=%d after Commit(%d)", got, height))
	}
}

func (q *c20Run) depthAll() int { return len(q.distinctHeights()) }

func (q *c20Run) doRollback(t uint32) {
	if q.failed {
		return
	}
	d := q.depth(t)
	seeked := q.seek != q.top
	q.tr("RollbackTo(%d)", t)
	pre := q.rs.clone()
	var err error
	if !q.guard("RollbackTo", func() { err = q.h.RollbackTo(t) }) {
		return
	}
	if t >= q.top {
		q.c.Inc("op_rollback_noop")
		// no-op by contract ("height >= h.height"): state must not move
		if !q.rs.equal(pre) {
			q.violate("RollbackTo:noop-moved-state", fmt.Sprintf("state %s before %s", q.rs, pre))
		}
		return
	}
	if t < q.floor {
		// beyond what every History of this capacity is guaranteed to hold:
		// recorded, not judged; the sequence ends here.
		if err == nil {
			q.c.Inc("rollback_beyond_guarantee_returned_nil")
		} else {
			q.c.Inc("rollback_beyond_guarantee_returned_error")
		}
		if q.rs.equal(q.replay(t)) {
			q.c.Inc("rollback_beyond_guarantee_exact")
		} else {
			q.c.Inc("rollback_beyond_guarantee_inexact")
		}
		q.failed = true // stop, not a violation
		return
	}
	want := q.replay(t)
	site := "RollbackTo"
	var fwd *c20State
	if q.tempActive {
		site = "RollbackToWithTemp"
		withTemp := q.topState()
		for _, tc := range q.tempChs {
			withTemp.apply(tc.Op)
		}
		for _, tc := range q.tempChs {
			withTemp.apply(tc.Inv)
		}
		fwd = q.forwardOrderPrediction(withTemp, t, ^uint32(0))
		q.tempActive = false
		q.c.Inc("temp_undone_by_rollback")
	} else if !seeked {
		fwd = q.forwardOrderPrediction(q.topState(), t, ^uint32(0))
	} else {
		site = "RollbackToWhileSeeked"
		q.setHostile("rollback-while-seeked")
		q.c.Inc("op_rollback_while_seeked")
	}
	if q.stale {
		q.c.Inc("op_rollback_twice_without_commit")
	}
	// model: drop entries above t
	var nl []c20Entry
	for _, e := range q.log {
		if e.H <= t {
			nl = append(nl, e)
		}
	}
	if err != nil {
		q.violate(site+":error", fmt.Sprintf("RollbackTo(%d) within capacity returned %v", t, err))
		return
	}
	q.c.Inc("op_rollback_lower")
	if d == q.guar {
		q.c.Inc("judged_rollback_at_capacity_limit")
	}
	if t == q.floor && q.overflow {
		q.c.Inc("judged_rollback_to_guarantee_floor_after_overflow")
	}
	q.c.Max("max:rollback_depth", int64(d))
	// compute fwd before truncating (done above), then truncate
	q.log = nl
	q.top = t
	q.seek = t
	q.stale = true
	q.judgedLow = true
	if !q.check(site, want, fwd) {
		return
	}
	if got := q.h.Height(); got != t {
		q.violate(site+":Height", fmt.Sprintf("Height()=%d after RollbackTo(%d)", got, t))
	}
}

func (q *c20Run) doSeek(t uint32) {
	if q.failed {
		return
	}
	q.tr("SeekTo(%d)", t)
	pre := q.rs.clone()
	var err error
	if q.stale {
		q.setHostile("seek-after-rollback-stale-seekheight")
	}
	if !q.guard("SeekTo", func() { err = q.h.SeekTo(t) }) {
		return
	}
	d := q.depth(t)
	site := "SeekBack"
	if t > q.seek {
		site = "SeekForward"
	} else if t == q.seek {
		site = "SeekSame"
	}
	if q.stale {
		site += "AfterRollback"
		q.setHostile("seek-after-rollback-stale-seekheight")
		q.c.Inc("op_seek_after_rollback")
	}
	if err != nil {
		q.c.Inc("op_seek_refused")
		if !q.rs.equal(pre) {
			q.violate(site+":refused-but-moved", fmt.Sprintf("SeekTo(%d) returned %v but state moved to %s from %s", t, err, q.rs, pre))
			return
		}
		if t >= q.floor && !q.p.gap {
			q.violate(site+":refused-within-capacity", fmt.Sprintf("SeekTo(%d) undoing %d heights returned %v", t, d, err))
		} else if t >= q.floor {
			q.c.Inc("gap_seek_refused_within_capacity")
		}
		return
	}
	if t < q.floor {
		q.c.Inc("seek_below_guarantee_accepted")
	}
	var fwd *c20State
	if t < q.seek {
		fwd = q.forwardOrderPrediction(q.replay(q.seek), t, q.seek)
		q.c.Inc("op_seek_back")
		q.judgedLow = true
	} else if t > q.seek {
		q.c.Inc("op_seek_forward")
	}
	q.seek = t
	q.check(site, q.replay(t), fwd)
}

// doRbSeek: the owner restores its state from a checkpoint taken at height t
// and tells the history to forget everything above t.
func (q *c20Run) doRbSeek(t uint32) {
	if q.failed {
		return
	}
	q.tr("restore-state(%d)+RollbackSeekTo(%d)", t, t)
	if t < q.top {
		q.rs.set(q.replay(t))
	}
	if !q.guard("RollbackSeekTo", func() { q.h.RollbackSeekTo(t) }) {
		return
	}
	if t >= q.top {
		return
	}
	if t < q.floor {
		q.failed = true
		q.c.Inc("rollbackseek_beyond_guarantee")
		return
	}
	q.c.Inc("op_rollbackseek")
	if q.tempActive {
		q.c.Inc("op_rollbackseek_with_pending_temp")
	}
	var nl []c20Entry
	for _, e := range q.log {
		if e.H <= t {
			nl = append(nl, e)
		}
	}
	q.log = nl
	q.top = t
	q.seek = t
	q.stale = true
	q.tempActive = false
	if !q.check("RollbackSeekTo", q.replay(t), nil) {
		return
	}
	if got := q.h.Height(); got != t {
		q.violate("RollbackSeekTo:Height", fmt.Sprintf("Height()=%d after RollbackSeekTo(%d)", got, t))
	}
}

// doTemp: ProcessSpecialTxPayload — Append(0, ..) x n ; Commit(best height).
func (q *c20Run) doTemp(n int) {
	if q.failed {
		return
	}
	base := q.topState()
	pend := base.clone()
	if q.tempActive {
		for _, tc := range q.tempChs {
			pend.apply(tc.Op)
		}
		q.tempRounds++
	} else {
		q.tempChs = nil
		q.tempRounds = 1
	}
	t := newC20Touched()
	var ss []string
	for i := 0; i < n; i++ {
		fam, op, d := q.genChange(t, pend, !q.tempActive)
		if op.K == 'n' {
			continue
		}
		if d {
			q.hasDep = true
			q.c.Inc("temp_rounds_with_dependent_changes")
		}
		ch := q.mkChange(fam, op, pend)
		if !q.appendReal(0, ch) {
			return
		}
		q.tempChs = append(q.tempChs, ch)
		ss = append(ss, string(ch.Fam)+":"+ch.Op.String()+"/"+ch.Inv.String())
	}
	q.tr("temp[%s];Commit(%d)", strings.Join(ss, ", "), q.top)
	if !q.guard("TempCommit", func() { q.h.Commit(q.top) }) {
		return
	}
	q.c.Inc("op_temp_commit")
	q.tempActive = len(q.tempChs) > 0
	site := "TempCommit"
	if q.tempRounds > 1 {
		site = "TempCommitSecondRound"
		q.setHostile("temp-second-round-reexecutes")
		q.c.Inc("temp_second_round")
	}
	if len(q.tempChs) == 0 {
		// nothing temporary was appended: Commit(top) is a plain (empty) commit of top
		q.log = append(q.log, c20Entry{H: q.top})
		q.stale = false
		site = "TempCommitEmpty"
	}
	q.check(site, pend, nil)
}

// pickLower returns a target below the top that is still inside the
// guaranteed window (beyond=false) or just below it (beyond=true).
func (q *c20Run) pickLower(beyond bool) uint32 {
	hs := q.distinctHeights()
	if len(hs) == 0 {
		return q.top
	}
	lowest := q.floor
	if hs[0] > 0 && hs[0]-1 > lowest {
		lowest = hs[0] - 1
	}
	if beyond {
		if q.floor > 0 {
			return q.floor - 1
		}
		return lowest
	}
	cands := []uint32{lowest}
	for _, h := range hs {
		if h > lowest && h < q.top {
			cands = append(cands, h)
		}
	}
	// bias: shallow rollbacks are common, the deepest legal one is the edge
	var t uint32
	var next uint32 = q.top
	switch x := q.r.Intn(8); {
	case x == 0:
		t = cands[0]
	case x < 4:
		t = cands[len(cands)-1]
	default:
		t = cands[q.r.Intn(len(cands))]
	}
	if q.p.gap && q.r.Intn(3) == 0 {
		// a height inside a gap: same set of undone heights
		for _, h := range hs {
			if h > t {
				next = h
				break
			}
		}
		if next > t+1 {
			t += uint32(q.r.Intn(int(next - t)))
		}
	}
	return t
}

func (q *c20Run) nextHeight() uint32 {
	if q.p.gap && q.r.Intn(2) == 0 {
		return q.top + 2 + uint32(q.r.Intn(9))
	}
	return q.top + 1
}

func c20Sequence(c *kit.Ctx, r *rand.Rand, p *c20Profile, idx int) {
	q := &c20Run{c: c, r: r, p: p, cap: 3 + r.Intn(8), rs: newC20State()}
	q.h = utils.NewHistory(q.cap)
	// A History of capacity c keeps the c most recent heights; when one height
	// is committed more than once it may keep only c-1 distinct heights.
	q.guar = q.cap
	if p.dup || p.temp {
		q.guar = q.cap - 1
	}
	// first height: 1, or a later start (histories start wherever the owner starts)
	if r.Intn(3) == 0 {
		q.top = uint32(r.Intn(1000))
		q.seek = q.top
	}
	steps := 6 + r.Intn(30)
	if r.Intn(4) == 0 {
		steps += q.cap * 2
	}
	for s := 0; s < steps && !q.failed; s++ {
		seeked := q.seek != q.top
		x := r.Intn(100)
		switch {
		case len(q.log) < 2 || x < 45:
			if q.p.temp2 && q.tempActive && r.Intn(2) == 0 {
				q.doBlock(q.nextHeight(), 0, nil) // block without changes after temp
			} else {
				n := 1 + r.Intn(6)
				if r.Intn(12) == 0 {
					n = 0
				}
				if q.tempActive && n == 0 {
					n = 1
				}
				q.doBlock(q.nextHeight(), n, nil)
			}
			if q.p.dup && !q.failed && r.Intn(3) == 0 {
				// a further commit of the same height (snapshotVotes / forceChange)
				q.doBlock(q.top, r.Intn(4), nil)
			}
		case x < 62:
			if (seeked && !q.p.seekmix) || len(q.log) == 0 {
				continue
			}
			if r.Intn(10) == 0 {
				q.doRollback(q.top + uint32(r.Intn(2))) // no-op form
			} else {
				// 1 in 25: terminal probe just beyond the guarantee
				q.doRollback(q.pickLower(r.Intn(25) == 0))
			}
		case x < 85:
			if !q.p.seek || q.tempActive {
				continue
			}
			if q.stale && !q.p.seekmix {
				continue
			}
			if !q.p.seekseq {
				// the GetHistory pattern: from the top to t, then back to the
				// top (explicitly, or implicitly by the next Commit)
				if seeked {
					q.doSeek(q.top)
				} else {
					q.doSeek(q.pickLower(false))
					if !q.failed && r.Intn(2) == 0 {
						q.doSeek(q.top)
					}
				}
				continue
			}
			// a few seeks in a row, back and forth, not returning to the top in between
			k := 1 + r.Intn(3)
			for i := 0; i < k && !q.failed; i++ {
				var t uint32
				if r.Intn(5) == 0 {
					t = q.top
				} else {
					t = q.pickLower(false)
				}
				q.doSeek(t)
			}
			if !q.failed && r.Intn(2) == 0 && q.seek != q.top {
				q.doSeek(q.top)
			}
		case x < 93:
			if !q.p.rbseek {
				continue
			}
			q.doRbSeek(q.pickLower(false))
		default:
			if !q.p.temp || seeked || len(q.log) == 0 {
				continue
			}
			if q.tempActive && !q.p.temp2 {
				continue
			}
			q.doTemp(1 + r.Intn(3))
		}
	}
	c.Case(p.name+"|"+fmt.Sprint(q.cap)+"|"+strings.Join(q.trace, ";"), q.judgedLow)
	c.Inc("sequences_" + p.name)
	if p.controls && !q.failed {
		c.Inc("profile_indep_sequences_clean")
	}
	if idx < 1 && p.name == "indep" {
		c.Sample(map[string]interface{}{"profile": p.name, "capacity": q.cap, "trace": q.trace, "final_state": q.rs.String()})
	}
}

// c20Directed: the minimal witnesses, run on every shard 0.
func c20Directed(c *kit.Ctx) {
	dep := &c20Profiles[1]
	// (1) x: 0 -(A)-> 1 -(B)-> 2 in one height, each rollback the exact inverse
	{
		q := &c20Run{c: c, r: rand.New(rand.NewSource(1)), p: dep, cap: 5, guar: 4, rs: newC20State()}
		q.h = utils.NewHistory(q.cap)
		q.doBlock(1, 0, []c20Change{{Fam: 'c', Op: c20Op{K: 's', I: 0, V: 5}}})
		q.doBlock(2, 0, []c20Change{{Fam: 'c', Op: c20Op{K: 's', I: 0, V: 1}}, {Fam: 'c', Op: c20Op{K: 's', I: 0, V: 2}}})
		q.doRollback(1)
		c.Case("directed:set-set", true)
		c.Inc("directed_cases")
	}
	// (2) insert then delete of the same key in one height
	{
		q := &c20Run{c: c, r: rand.New(rand.NewSource(1)), p: dep, cap: 5, guar: 4, rs: newC20State()}
		q.h = utils.NewHistory(q.cap)
		q.doBlock(1, 0, []c20Change{{Fam: 'a', Op: c20Op{K: 'a', I: 1, V: 1}}})
		q.doBlock(2, 0, []c20Change{{Fam: 'c', Op: c20Op{K: 'i', I: 3, V: 7}}, {Fam: 'c', Op: c20Op{K: 'd', I: 3}}})
		q.doRollback(1)
		c.Case("directed:insert-delete", true)
		c.Inc("directed_cases")
	}
	// (3) same as (1) but seen through SeekTo
	{
		q := &c20Run{c: c, r: rand.New(rand.NewSource(1)), p: dep, cap: 5, guar: 4, rs: newC20State()}
		q.h = utils.NewHistory(q.cap)
		q.doBlock(1, 0, []c20Change{{Fam: 'c', Op: c20Op{K: 's', I: 0, V: 5}}})
		q.doBlock(2, 0, []c20Change{{Fam: 'c', Op: c20Op{K: 'p', V: 1}}, {Fam: 'c', Op: c20Op{K: 'p', V: 2}}, {Fam: 'c', Op: c20Op{K: 'o'}}, {Fam: 'c', Op: c20Op{K: 'o'}}})
		q.doSeek(1)
		c.Case("directed:push-push-pop-pop-seek", true)
		c.Inc("directed_cases")
	}
}

func runC20(c *kit.Ctx) {
	if c.Shard == 0 {
		c20Directed(c)
	}
	total := 0
	for _, p := range c20Profiles {
		total += p.weight
	}
	n := c.N(2500, 62500) // per shard: 20 k / 500 k sequences over 8 shards
	for pi := range c20Profiles {
		p := &c20Profiles[pi]
		r := c.Rand("c20/" + p.name)
		cnt := n * p.weight / total
		for i := 0; i < cnt; i++ {
			c20Sequence(c, r, p, i)
		}
	}
}

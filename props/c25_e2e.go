package props

import (
	"fmt"
	"math/rand"

	"github.com/elastos/Elastos.ELA/blockchain"
	"github.com/elastos/Elastos.ELA/common"
	"github.com/elastos/Elastos.ELA/core/types"
	"github.com/elastos/Elastos.ELA/core/types/payload"

	"verif/kit"
	"verif/kit/node"
)

// C25, delivery-order family: honest and forged confirms reach the REAL
// mempool.BlockPool of a node whose chain is in the DPoS era (real arbiter
// set produced by the real transitions), in every order relative to their
// block: confirm first / together with the block / block first. Observation:
// what the chain connected. A block at a height that needs a confirm must
// never become the tip unless the confirm stored with it satisfies the
// reference quorum model (c25_model.go) for the arbiter set in force.

const (
	c25OrderConfirmFirst  = "confirm-first"
	c25OrderConfirmFirst2 = "confirm-first/ConfirmBlock"
	c25OrderWithBlock     = "with-block"
	c25OrderBlockFirst    = "block-first"
)

func c25ModelFromReal(cf *payload.Confirm) *mConfirm { return mFromWireFields(cf) }

func runC25E2E(c *kit.Ctx, stage string) {
	r := c.Rand("c25-e2e-" + stage)
	nd, err := node.Start(node.Options{Dir: c.WorkDir, CoinbaseMaturity: 2, Tweak: node.EraTweak("dpos-era")})
	if err != nil {
		c.Inconclusive("e2e node start: %v", err)
		return
	}
	defer nd.Close()
	defer nd.UnhookEvents()
	switch stage {
	case "crc-only":
		if err := nd.MineToDPoS(nd.Cfg.CRCOnlyDPOSHeight + 1); err != nil {
			c.Inconclusive("e2e mine to DPoS: %v", err)
			return
		}
	default:
		if _, err := nd.Bootstrap("dpos-era", node.BootOpts{Until: "producers"}); err != nil {
			c.Inconclusive("e2e bootstrap: %v", err)
			return
		}
	}
	if !nd.NeedsConfirm(nd.Height() + 1) {
		c.Inconclusive("e2e %s: next block needs no confirm (height %d)", stage, nd.Height())
		return
	}

	kinds := []string{"honest-all", "honest-min", "short", "forged-all-garbage", "forged-one-signature",
		"forged-dup-prefix", "forged-wrong-hash", "forged-reject-votes", "forged-foreign-sponsor", "forged-zero-sigs"}
	orders := []string{c25OrderConfirmFirst, c25OrderConfirmFirst2, c25OrderWithBlock, c25OrderBlockFirst}
	rounds := c.N(1, 3)
	stamp := uint32(0)
	sampled := 0

	for round := 0; round < rounds; round++ {
		// forged kinds first, honest ones interleaved so that the tip moves between them
		for _, order := range orders {
			for _, kind := range kinds {
				arbs := nd.Arbiters.GetArbitrators()
				n := len(arbs)
				if n == 0 {
					c.Inconclusive("e2e %s: no arbiters at height %d", stage, nd.Height())
					return
				}
				T := 2 * n / 3
				// model of the set in force + signing keys
				keys := make([]*mKey, n)
				normal := make([]bool, n)
				for i, a := range arbs {
					acc := node.KeyByPub(a.NodePublicKey)
					if acc == nil {
						c.Inconclusive("e2e %s: no harness key for arbiter %x", stage, a.NodePublicKey)
						return
					}
					keys[i] = newMKey(acc.PrivateKey)
					normal[i] = a.IsNormal
				}
				ms := newMSet(keys, normal)
				nidx := ms.normalDistinct()
				if len(nidx) < T+1 {
					c.Inc("e2e_skipped_quorum_unreachable")
					continue
				}

				// a fresh honest block on the tip (distinct hash per trial)
				b, err := nd.AssembleTip()
				if err != nil {
					c.Inconclusive("e2e %s: assemble at height %d: %v", stage, nd.Height()+1, err)
					return
				}
				stamp++
				b.Header.Timestamp += stamp % 600
				if err := node.SealDet(b); err != nil {
					c.Inconclusive("e2e seal: %v", err)
					return
				}
				bh := [32]byte(b.Hash())
				tipBefore := nd.Tip()

				cf := c25BuildE2EConfirm(r, kind, bh, keys, nidx, T)
				ev := ms.eval(cf)
				modelOK := ev.sponsorArbiter && ev.sponsorNormal && ev.sponsorSigValid && len(ev.distinctNormal) > T
				honest := kind == "honest-all" || kind == "honest-min"
				if honest != modelOK {
					c.Inconclusive("e2e harness: kind %s model verdict %v", kind, modelOK)
					return
				}
				real := c25ToReal(cf)
				id := fmt.Sprintf("e2e %s n=%d %s %s round=%d", stage, n, kind, order, round)
				c.Begin("%s", id)
				c.Inc("e2e_trials")
				c.Inc("e2e_order_" + order)
				c.Inc("e2e_kind_" + kind)
				c.Case(id, true)
				if !modelOK {
					c.Inc("e2e_model_rejected_confirms")
				}

				var errs []string
				note := func(step string, e error) {
					if e != nil {
						errs = append(errs, step+": "+e.Error())
					}
				}
				panicked, pv, stack := kit.Guard(func() {
					switch order {
					case c25OrderConfirmFirst:
						_, _, e := nd.BlockPool.AppendConfirm(real)
						note("AppendConfirm", e)
						_, _, e = nd.BlockPool.AddDposBlock(&types.DposBlock{Block: b})
						note("AddDposBlock(block)", e)
					case c25OrderConfirmFirst2:
						_, _, e := nd.BlockPool.AppendConfirm(real)
						note("AppendConfirm", e)
						nd.BlockPool.AddToBlockMap(b)
						_, _, e = nd.BlockPool.ConfirmBlock(b.Hash())
						note("ConfirmBlock", e)
					case c25OrderWithBlock:
						_, _, e := nd.BlockPool.AddDposBlock(&types.DposBlock{Block: b, HaveConfirm: true, Confirm: real})
						note("AddDposBlock(block+confirm)", e)
					case c25OrderBlockFirst:
						_, _, e := nd.BlockPool.AddDposBlock(&types.DposBlock{Block: b})
						note("AddDposBlock(block)", e)
						_, _, e = nd.BlockPool.AppendConfirm(real)
						note("AppendConfirm", e)
					}
				})
				if panicked {
					c.Violate("panic:blockpool-confirm-delivery", fmt.Sprintf("%s: %v\n%s", id, pv, stack), nil)
					return
				}
				tip := nd.Tip()
				connected := tip.IsEqual(b.Hash())
				_, pooled := nd.BlockPool.GetConfirm(b.Hash())
				if pooled && !modelOK {
					c.Inc("e2e_rejected_confirm_left_in_pool") // information: becomes a violation only if it connects a block
				}
				describe := func(stored *mConfirm, sev *mEval) map[string]interface{} {
					d := map[string]interface{}{"stage": stage, "n": n, "threshold_floor_2n_3": T, "kind": kind, "order": order,
						"height": b.Height, "steps": errs, "connected": connected, "confirm_left_in_pool": pooled}
					if stored != nil {
						d["stored_confirm_votes"] = len(stored.votes)
						d["stored_confirm_distinct_valid_arbiters"] = len(sev.distinctNormal)
						d["stored_confirm_sponsor_sig_valid"] = sev.sponsorSigValid
						d["stored_confirm_hex"] = stored.hex()
					}
					return d
				}
				if sampled < 4 && (kind == "honest-min" || kind == "forged-one-signature") && (order == c25OrderConfirmFirst || order == c25OrderWithBlock) {
					sampled++
					c.Sample(describe(nil, nil))
				}

				if connected {
					c.Inc("e2e_connected")
					// what is stored with the block is what the chain accepted it on
					db, err := nd.Chain.GetDposBlockByHash(b.Hash())
					switch {
					case err != nil:
						c.Inconclusive("e2e: connected block not readable: %v", err)
						return
					case !db.HaveConfirm || db.Confirm == nil:
						c.Violate("e2e:block-connected-without-confirm:"+c25OrderClass(order), id, describe(nil, nil))
					default:
						stored := c25ModelFromReal(db.Confirm)
						sev := ms.eval(stored)
						ok := sev.sponsorArbiter && sev.sponsorNormal && sev.sponsorSigValid && len(sev.distinctNormal) > T &&
							common.Uint256(stored.blockHash).IsEqual(b.Hash())
						if !ok {
							// diagnosis: do the validators themselves accept this confirm
							// (then the order is irrelevant), or did the delivery path
							// skip one of them?
							var se, ce error
							kit.Guard(func() {
								fresh := c25ToReal(stored)
								se = blockchain.ConfirmSanityCheck(fresh)
								ce = blockchain.ConfirmContextCheck(fresh)
							})
							where := "delivery:" + c25OrderClass(order)
							if se == nil && ce == nil {
								where = "validators-accept"
							}
							c.Violate("e2e:block-connected-on-rejected-confirm:"+where,
								fmt.Sprintf("%s: block %d became the tip; the confirm stored with it has %d distinct validly signing current arbiters (need > %d), sponsor signature valid=%v", id, b.Height, len(sev.distinctNormal), T, sev.sponsorSigValid),
								describe(stored, sev))
						} else {
							c.Inc("e2e_connected_on_model_accepted_confirm")
						}
					}
					if honest {
						c.Inc("e2e_honest_connected")
						c.Inc("e2e_honest_connected_" + c25OrderClass(order))
					}
					// what the kit miner does after a connected block
					nd.PostBlock(b)
					nd.Chain.UTXOCache.CleanTxCache()
					nd.BlockPool.CleanFinalConfirmedBlock(b.Height)
				} else {
					if !tip.IsEqual(tipBefore) {
						c.Inconclusive("e2e: tip moved to an unexpected block in %s", id)
						return
					}
					if honest {
						c.Violate("e2e:honest-confirm-not-connected:"+c25OrderClass(order), fmt.Sprintf("%s: steps=%v", id, errs), describe(nil, nil))
						// keep the chain moving for the following trials
						if _, err := nd.MineTipDPoS(); err != nil {
							c.Inconclusive("e2e: cannot continue after refused honest confirm: %v", err)
							return
						}
					} else {
						c.Inc("e2e_forged_not_connected")
						c.Inc("e2e_forged_not_connected_" + c25OrderClass(order))
					}
				}
			}
		}
	}
	c.Max("max:e2e_height", int64(nd.Height()))
}

func c25OrderClass(order string) string {
	if order == c25OrderConfirmFirst2 {
		return c25OrderConfirmFirst
	}
	return order
}

// c25BuildE2EConfirm builds the model confirm of one kind for block hash bh.
// nidx: member indices of distinct normal arbiters; keys[i] holds the private key.
func c25BuildE2EConfirm(r *rand.Rand, kind string, bh [32]byte, keys []*mKey, nidx []int, T int) *mConfirm {
	perm := r.Perm(len(nidx))
	order := make([]int, len(nidx))
	for i, p := range perm {
		order[i] = nidx[p]
	}
	sp := keys[order[0]]
	garbage := func() []byte {
		b := make([]byte, 64)
		r.Read(b)
		return b
	}
	cf := &mConfirm{sponsor: sp.comp, blockHash: bh, viewOffset: uint32(r.Intn(3))}
	cf.sig = sp.sign(r, cf.propData())
	ph := cf.propHash()
	vote := func(k *mKey, h [32]byte, accept bool) mVote {
		v := mVote{hash: h, signer: k.comp, accept: accept}
		v.sig = k.sign(r, v.data())
		return v
	}
	named := func(k *mKey, sig []byte) mVote { return mVote{hash: ph, signer: k.comp, accept: true, sig: sig} }
	switch kind {
	case "honest-all":
		for _, i := range order {
			cf.votes = append(cf.votes, vote(keys[i], ph, true))
		}
	case "honest-min":
		for _, i := range order[:T+1] {
			cf.votes = append(cf.votes, vote(keys[i], ph, true))
		}
	case "short":
		for _, i := range order[:T] {
			cf.votes = append(cf.votes, vote(keys[i], ph, true))
		}
	case "forged-all-garbage":
		// the forger holds no arbiter key
		cf.sig = garbage()
		for _, i := range order[:T+1] {
			cf.votes = append(cf.votes, named(keys[i], garbage()))
		}
	case "forged-one-signature":
		// one arbiter (the sponsor) signs for real, the others are only named
		cf.votes = append(cf.votes, vote(sp, ph, true))
		for _, i := range order[1 : T+1] {
			cf.votes = append(cf.votes, named(keys[i], garbage()))
		}
	case "forged-dup-prefix":
		v := vote(sp, ph, true)
		for j := 0; j < T+1; j++ {
			cf.votes = append(cf.votes, v)
		}
		for _, i := range order[1:] {
			cf.votes = append(cf.votes, named(keys[i], garbage()))
		}
	case "forged-wrong-hash":
		// genuine votes, but for another proposal (other view offset)
		other := &mConfirm{sponsor: cf.sponsor, blockHash: bh, viewOffset: cf.viewOffset + 7}
		oh := other.propHash()
		cf.votes = append(cf.votes, vote(sp, ph, true))
		for _, i := range order[1 : T+1] {
			cf.votes = append(cf.votes, vote(keys[i], oh, true))
		}
	case "forged-reject-votes":
		cf.votes = append(cf.votes, vote(sp, ph, true))
		for _, i := range order[1 : T+1] {
			v := vote(keys[i], ph, false)
			v.accept = true // signed "reject", presented as accept
			cf.votes = append(cf.votes, v)
		}
	case "forged-foreign-sponsor":
		f := newMKey(node.Key(950).PrivateKey)
		cf.sponsor = sp.comp
		cf.sig = f.sign(r, cf.propData()) // names an arbiter, signed by somebody else
		for _, i := range order[:T+1] {
			cf.votes = append(cf.votes, vote(keys[i], ph, true))
		}
	case "forged-zero-sigs":
		for _, i := range order[:T+1] {
			cf.votes = append(cf.votes, named(keys[i], make([]byte, 64)))
		}
	}
	return cf
}

package props

// C22 workload 2: the node's own call path (checkpoint.Manager.OnBlockSaved /
// Manager.OnRollbackTo, exactly what blockchain.connectBlock /
// reorganizeChain call) across the height at which the CR checkpoint is saved
// (every 720 blocks when CheckPointConfiguration.NeedSave is set, as main.go
// does).  A reorganisation of depth 1..6 detaches blocks at or below the saved
// height and attaches them again; the committee must end in the state a
// forward-only instance has.

import (
	"bytes"
	"fmt"
	"path/filepath"

	"github.com/elastos/Elastos.ELA/core/checkpoint"
	"github.com/elastos/Elastos.ELA/core/types"
	crstate "github.com/elastos/Elastos.ELA/cr/state"

	"verif/kit"
)

const c22CkpSavePeriod = 720 // cr/state.checkpointHeight

func c22CheckpointPath(c *kit.Ctx) {
	n := c.N(1, 6)
	if c.Quick() && c.Shard >= 4 {
		return // quick: four such histories in total
	}
	for i := 0; i < n; i++ {
		c.Begin("C22 checkpoint-path shard %d history %d", c.Shard, i)
		c22CkpOne(c, i)
	}
}

func c22CkpOne(c *kit.Ctx, idx int) {
	r := c.Rand(fmt.Sprintf("c22-ckp-%d", idx))
	k := c22DrawKnobs(r)
	above := uint32(1 + r.Intn(5)) // tip = 720 + above
	below := uint32(r.Intn(3))     // reorganisation goes back to 720-1-below ... (depth <= 6 is kept)
	k.Length = c22CkpSavePeriod + above
	depth := above + 1 + below
	if depth > 6 {
		below = 6 - above - 1
		depth = 6
	}
	forkBase := k.Length - depth // last common block
	w := c22NewWorld(r, k, nil)
	defer w.Close()
	replay := fmt.Sprintf("VERIF_SEED=%d ./check C22 %s ; shard %d checkpoint-path history %d", c.Seed, c.Tier, c.Shard, idx)

	// forward-only reference (direct calls), snapshots near the tip only
	snaps := map[uint32][]byte{}
	sideEnd := c22SideChainEnds{}
	for w.Height() < k.Length {
		panicked, val, stack := kit.Guard(func() { w.NextBlock() })
		if panicked {
			c.Inc("ckp_forward_panics")
			c.Note("checkpoint-path history %d: forward panic at height %d: %v at %s", idx, w.Height()+1, val, c22TopRepoFrame(stack))
			return
		}
		if w.Height()+12 >= k.Length {
			snaps[w.Height()] = c22LiveFrames(w.D).canon()
		}
		if sideEnd.step(w.D) >= 2 {
			// forward result depends on map iteration order from here on (see c22SideChainEnds)
			c.Inc("ckp_histories_dropped_order_dependent")
			return
		}
	}
	H := w.Height()
	c.Inc("ckp_histories")
	c.Count("ckp_blocks", int64(H))

	// instance A: through the manager, checkpoints being saved
	cfgA := *w.Cfg
	cfgA.CheckPointConfiguration.NeedSave = true
	cfgA.CheckPointConfiguration.DataPath = filepath.Join(c.WorkDir, fmt.Sprintf("ckp-%d", idx))
	mgrA := checkpoint.NewManager(&cfgA)
	defer mgrA.Close()
	A := crstate.NewCommittee(&cfgA, mgrA)
	A.RegisterFuncitons(w.Env.funcs())
	feed := func(b *types.Block) {
		w.Env.cur = b.Height
		mgrA.OnBlockSaved(&types.DposBlock{Block: b}, nil, false, 0, false)
	}
	if panicked, val, stack := kit.Guard(func() {
		for h := uint32(1); h <= H; h++ {
			feed(w.Blocks[h])
		}
	}); panicked {
		c.Inc("ckp_forward_panics")
		c.Note("checkpoint-path history %d: forward panic through the manager: %v at %s", idx, val, c22TopRepoFrame(stack))
		return
	}
	cp, _ := mgrA.GetCheckpoint("cp_cr", H)
	saved := uint32(0)
	if cp != nil {
		saved = cp.GetHeight()
	}
	c.Max("max:ckp_saved_height", int64(saved))
	if saved == 0 {
		c.Inconclusive("checkpoint-path: no CR checkpoint was saved by height %d", H)
		return
	}
	c.Inc("ckp_saves_crossed")
	// forward processing of this history must be deterministic (Go map order
	// makes a few transitions order dependent); otherwise it says nothing here
	for i := 0; i < 3; i++ {
		X, xm := w.NewInstance()
		same := true
		for h := uint32(1); h <= H; h++ {
			w.Feed(X, w.Blocks[h])
			if s, ok := snaps[h]; ok && !bytes.Equal(c22LiveFrames(X).canon(), s) {
				same = false
				break
			}
		}
		xm.Close()
		if !same {
			c.Inc("ckp_nondeterministic_histories")
			c.Note("checkpoint-path history %d (shard %d): forward-only instances do not agree; history dropped", idx, c.Shard)
			return
		}
	}
	// positive control: the manager path and the direct path agree going forward
	if !bytes.Equal(c22LiveFrames(A).canon(), snaps[H]) {
		c.Violate("ckp-path:forward-differs-from-direct-calls", fmt.Sprintf("a committee fed through checkpoint.Manager.OnBlockSaved differs at height %d from one fed by ProcessBlock", H),
			map[string]interface{}{"replay": replay, "knobs": k})
		return
	}
	c.Inc("ckp_forward_control_equal")

	// the reorganisation: detach H..forkBase+1 one by one, attach the same blocks again
	if panicked, val, stack := kit.Guard(func() {
		for x := H; x > forkBase; x-- {
			if err := mgrA.OnRollbackTo(x-1, false); err != nil {
				c.Inc("ckp_rollback_errors")
			}
		}
	}); panicked {
		c.Violate("ckp-path:rollback-panic:"+c22TopRepoFrame(stack), fmt.Sprintf("Manager.OnRollbackTo panicked while detaching blocks %d..%d: %v", forkBase+1, H, val),
			map[string]interface{}{"replay": replay, "knobs": k, "operations": c22OpsMap(w, forkBase+1, H)})
		return
	}
	c.Inc("ckp_reorgs")
	c.Max("max:ckp_reorg_depth", int64(depth))
	rolledOK := bytes.Equal(c22LiveFrames(A).canon(), snaps[forkBase])
	if rolledOK {
		c.Inc("ckp_rollback_states_equal")
	} else {
		c.Inc("ckp_rollback_states_different") // level-1 signatures cover this
	}
	var skipped []uint32
	if panicked, val, stack := kit.Guard(func() {
		for h := forkBase + 1; h <= H; h++ {
			before := c22LiveFrames(A).canon()
			feed(w.Blocks[h])
			after := c22LiveFrames(A).canon()
			if bytes.Equal(before, after) && !bytes.Equal(snaps[h], snaps[h-1]) {
				skipped = append(skipped, h)
			}
		}
	}); panicked {
		sig := "ckp-path:reattach-panic:" + c22TopRepoFrame(stack)
		if !rolledOK {
			c.Inc("ckp_reattach_panics_after_rollback_differed") // consequence of a level-1 rollback divergence
			return
		}
		c.Violate(sig, fmt.Sprintf("attaching blocks %d..%d again after the rollback to %d panicked: %v (blocks left unchanged so far: %v)", forkBase+1, H, forkBase, val, skipped),
			map[string]interface{}{"replay": replay, "knobs": k, "saved_checkpoint_height": saved, "operations": c22OpsMap(w, forkBase+1, H)})
		return
	}
	c.Case(fmt.Sprintf("c22/ckp/%d/%d/%d", c.Shard, idx, forkBase), true)
	if bytes.Equal(c22LiveFrames(A).canon(), snaps[H]) {
		c.Inc("ckp_reorg_states_equal")
		return
	}
	c.Inc("ckp_reorg_states_different")
	ref, rm := w.NewInstance()
	for h := uint32(1); h <= H; h++ {
		w.Feed(ref, w.Blocks[h])
	}
	diffs, _ := c22DiffCommittee(A, ref, H)
	rm.Close()
	sigs, by := c22GroupBySig(diffs)
	wit := map[string]interface{}{"replay": replay, "knobs": k, "saved_checkpoint_height": saved, "tip": H, "last_common_block": forkBase,
		"depth": depth, "rolled_back_state_equal": rolledOK, "reattached_blocks_that_left_the_state_unchanged": skipped,
		"differing_fields": sigs, "example_diffs": c22Cap(diffs, 12), "operations": c22OpsMap(w, forkBase+1, H)}
	if len(skipped) > 0 {
		c.Violate("ckp-path:reattached-blocks-at-or-below-saved-checkpoint-skipped",
			fmt.Sprintf("checkpoint saved at %d; reorganisation of depth %d from tip %d back to %d: when the same blocks are attached again through Manager.OnBlockSaved, blocks %v do not change the committee (height <= saved checkpoint height) and the state at %d differs from the forward-only state in %d fields, e.g. %s",
				saved, depth, H, forkBase, skipped, H, len(diffs), c22DiffLine(diffs)), wit)
		return
	}
	if !rolledOK {
		// the rolled-back state was already wrong: level-1 signatures describe that
		c.Inc("ckp_reorg_differs_after_rollback_differed")
		return
	}
	for _, sg := range sigs {
		c.Violate("ckp-path-diff:"+sg, fmt.Sprintf("after a depth-%d reorganisation across the checkpoint saved at %d the committee differs from the forward-only state at %d: %s", depth, saved, H, c22DiffLine(by[sg])), wit)
	}
}

package props

import (
	"bytes"
	"fmt"
	"reflect"
	"time"

	"github.com/elastos/Elastos.ELA/core/types"
	"github.com/elastos/Elastos.ELA/core/types/payload"
	"github.com/elastos/Elastos.ELA/p2p"
	"github.com/elastos/Elastos.ELA/p2p/msg"

	"verif/kit"
)

// Write SEQUENCES through the state WriteMessage keeps between calls (the
// send cache of serialized blocks, shared by all peers of the process, and
// whatever scratch memory the writer recycles): blocks that are written again
// while they are still cached — with and without their confirmation — mixed
// with other messages shorter and longer than the block, over 1..3 peer
// connections. Every written message is read back through the real reader and
// compared with the ORIGINAL object: byte equality with its independent
// serialisation (made once, before any write) and deep equality with the
// decoding of that independent serialisation.
//
// The same block is only ever paired with one confirmation here, so the known
// block-cache alias (same hash, different confirm) is not what this part looks
// at: a failure on a re-sent block is reported as roundtrip:cached-block-resend.

type c35SeqItem struct {
	m       p2p.Message
	net     *c35Net
	cmd     string
	orig    []byte      // independent serialisation of the original object
	decoded p2p.Message // decoding of orig (reference for deep equality)
	isBlock bool
	key     string // block hash + HaveConfirm
	hash    string
	confirm bool
}

type c35Peer struct {
	net  *c35Net
	conn *c35Conn
	read int // bytes of conn.out already read back
}

// c35DecodeRef decodes bytes that never went near WriteMessage with the
// factory's own message type.
func c35DecodeRef(n *c35Net, cmd string, body []byte) (p2p.Message, error) {
	// a frame assembled here (not by WriteMessage) around the independent body
	h := make([]byte, c35HeaderSize)
	h[0], h[1], h[2], h[3] = byte(n.magic), byte(n.magic>>8), byte(n.magic>>16), byte(n.magic>>24)
	copy(h[4:16], cmd)
	l := uint32(len(body))
	h[16], h[17], h[18], h[19] = byte(l), byte(l>>8), byte(l>>16), byte(l>>24)
	sum := c35Sha256d(body)
	copy(h[20:24], sum[:4])
	var m p2p.Message
	var err error
	if p, v, _ := kit.Guard(func() {
		m, err = p2p.ReadMessage(&c35Conn{in: append(h, body...)}, n.magic, time.Minute, n.factory)
	}); p {
		return nil, fmt.Errorf("panic: %v", v)
	}
	return m, err
}

func (x *c35Run) seqItem(n *c35Net, m p2p.Message) *c35SeqItem {
	it := &c35SeqItem{m: m, net: n, cmd: m.CMD(), orig: append([]byte(nil), c35Body(m)...)}
	if uint32(len(it.orig)) > n.cmds[it.cmd].maxLength {
		return nil
	}
	ref, err := c35DecodeRef(n, it.cmd, it.orig)
	if err != nil || ref == nil || !bytes.Equal(c35Body(ref), it.orig) {
		return nil // an honest value its own decoder refuses: not usable as a reference (C04 territory)
	}
	it.decoded = ref
	if d, ok := c35GetDposBlock(m); ok {
		it.isBlock = true
		it.hash, it.confirm = d.Hash().String(), d.HaveConfirm
		it.key = fmt.Sprintf("%s/%v", it.hash, it.confirm)
	}
	return it
}

// seqPool builds the messages one sequence draws from.
func (x *c35Run) seqPool(nets []*c35Net) (blocks []*c35SeqItem, others []*c35SeqItem) {
	c, r := x.c, x.r
	ela, dp := nets[0], nets[1]
	f := c02NewFiller(r)
	// blocks: each block once without and once with its (single) confirmation
	for tries := 0; len(blocks) < 6 && tries < 60; tries++ {
		f.maxSlice = 1 + r.Intn(6)
		d, err := c02GenDposBlock(f)
		if err != nil {
			continue
		}
		conf := &payload.Confirm{}
		f.Fill(reflect.ValueOf(conf), "")
		for _, have := range []bool{false, true} {
			db := &types.DposBlock{Block: d.Block, HaveConfirm: have}
			if have {
				db.Confirm = conf
			}
			if it := x.seqItem(ela, msg.NewBlock(db)); it != nil {
				blocks = append(blocks, it)
			} else {
				c.Inc("seq_block_not_usable")
			}
		}
	}
	// other messages: tiny, medium, and larger than any of the blocks
	maxBlock := 0
	for _, b := range blocks {
		if len(b.orig) > maxBlock {
			maxBlock = len(b.orig)
		}
	}
	add := func(n *c35Net, m p2p.Message) {
		if it := x.seqItem(n, m); it != nil {
			others = append(others, it)
		}
	}
	add(ela, msg.NewPing(r.Uint64()))
	add(ela, msg.NewPong(r.Uint64()))
	add(ela, &msg.VerAck{})
	for _, size := range []int{1, 300, maxBlock / 2, maxBlock + 1, maxBlock + 4096, 45000} {
		if size < 1 {
			size = 1
		}
		if size > msg.MaxTxFilterLoadDataSize {
			size = msg.MaxTxFilterLoadDataSize
		}
		data := make([]byte, size)
		r.Read(data)
		add(ela, &msg.TxFilterLoad{Type: byte(r.Intn(3)), Data: data})
	}
	f.maxSlice = 3
	for _, n := range []*c35Net{ela, dp} {
		for _, name := range n.order {
			if name == p2p.CmdBlock && n == ela {
				continue
			}
			if m, err := x.genMessage(n.cmds[name], f); err == nil {
				add(n, m)
			}
		}
	}
	return
}

func (x *c35Run) sequences(nets []*c35Net) {
	c, r := x.c, x.r
	nSeq := c.N(6, 40)
	steps := c.N(40, 80)
	for s := 0; s < nSeq; s++ {
		blocks, others := x.seqPool(nets)
		if len(blocks) < 2 || len(others) < 4 {
			c.Inconclusive("sequence pool too small: %d blocks, %d other messages", len(blocks), len(others))
			return
		}
		nPeers := 1 + s%3
		var peers []*c35Peer
		for i := 0; i < nPeers; i++ {
			peers = append(peers, &c35Peer{net: nets[0], conn: &c35Conn{}})
		}
		dposPeer := &c35Peer{net: nets[1], conn: &c35Conn{}}
		c.Inc(fmt.Sprintf("seq_sequences_with_%d_peers", nPeers))
		// model of the send cache, mirroring p2p.WriteMessage: a block hash is
		// entered once (first write of that hash, whatever its confirm flag),
		// the (hash, confirm) slot written then is cached, the two youngest
		// slots are kept; a hash that was entered before is never cached again.
		// The cache is process-wide and already holds two older blocks here.
		seenHash := map[string]bool{}
		slots := map[string]bool{}
		fifo := []string{"older-1", "older-2"}
		written := map[string]bool{}
		lastWasOther := false
		sinceBlock := map[string]int{} // other messages written since the block was last written

		send := func(it *c35SeqItem, step int) {
			p := peers[r.Intn(len(peers))]
			if it.net == nets[1] {
				p = dposPeer
			}
			what := fmt.Sprintf("seq%d step%d %s/%s len=%d", s, step, it.net.name, it.cmd, len(it.orig))
			c.Begin("sequence case=%s", what)
			var werr error
			if pn, v, _ := kit.Guard(func() {
				werr = p2p.WriteMessage(p.conn, it.net.magic, it.m, time.Minute, c35GetDposBlock)
			}); pn {
				c.Violate("panic:WriteMessage", fmt.Sprintf("WriteMessage panicked in a sequence: %v [%s]", v, what), nil)
				return
			}
			if werr != nil {
				c.Violate("roundtrip:sequence-write-error", fmt.Sprintf("WriteMessage failed for an honest message: %v [%s]", werr, what), nil)
				return
			}
			frame := append([]byte(nil), p.conn.out.Bytes()[p.read:]...)
			p.read = p.conn.out.Len()
			c.Inc("seq_messages_written")
			resent, rewritten := false, false
			if it.isBlock {
				if seenHash[it.hash] && slots[it.key] {
					resent = true
					c.Inc("seq_block_rewritten_while_cached")
					if sinceBlock[it.key] > 0 {
						c.Inc("seq_block_rewritten_after_other_message")
					}
					if it.confirm {
						c.Inc("seq_confirmed_block_rewritten_while_cached")
					}
				} else if !seenHash[it.hash] {
					if len(fifo) >= p2p.BlocksCacheSize {
						delete(slots, fifo[0])
						fifo = fifo[1:]
					}
					slots[it.key] = true
					fifo = append(fifo, it.key)
					seenHash[it.hash] = true
					c.Inc("seq_block_first_write_cached")
				} else {
					c.Inc("seq_block_written_uncached")
				}
				rewritten = written[it.key]
				written[it.key] = true
				sinceBlock[it.key] = 0
				lastWasOther = false
			} else {
				for k := range sinceBlock {
					sinceBlock[k]++
				}
				if !lastWasOther {
					c.Inc("seq_other_message_between")
				}
				lastWasOther = true
				if len(blocks) > 0 && len(it.orig) > len(blocks[0].orig) {
					c.Inc("seq_other_longer_than_a_block")
				} else {
					c.Inc("seq_other_shorter_than_a_block")
				}
			}
			// read back through the real reader
			res := c35Read(it.net, frame)
			c.Case("seq/"+it.net.name+"/"+string(frame), true)
			sig := "roundtrip:sequence:" + it.cmd
			if resent || rewritten {
				// a block this process already wrote: whatever the cache model
				// says, the only state involved is the writer's own
				sig = "roundtrip:cached-block-resend"
			}
			cas := map[string]interface{}{"sequence": what, "peers": nPeers, "resent_cached_block": resent, "block_written_before": rewritten,
				"original_body_hex": c35Hex(it.orig), "frame_hex": c35Hex(frame), "other_messages_since_block": sinceBlock[it.key]}
			switch {
			case res.panicked:
				c.Violate("panic:"+c02TopRepoFrameOfStack(c02AfterPanicFrames(res.stack))+":"+c02PanicKind(res.pval),
					fmt.Sprintf("ReadMessage panics on a frame WriteMessage produced: %s [%s]", res.pval, what), cas)
			case res.err != nil:
				cas["error"] = res.err.Error()
				c.Violate(sig, fmt.Sprintf("a message written by WriteMessage is not readable: %v [%s]", res.err, what), cas)
			case res.consumed != len(frame) || len(frame) != c35HeaderSize+len(it.orig):
				c.Violate(sig, fmt.Sprintf("frame of %d bytes for a %d-byte body, reader consumed %d [%s]", len(frame), len(it.orig), res.consumed, what), cas)
			case !bytes.Equal(frame[c35HeaderSize:], it.orig) || !bytes.Equal(c35Body(res.m), it.orig):
				cas["read_back_body_hex"] = c35Hex(c35Body(res.m))
				c.Violate(sig, fmt.Sprintf("the payload on the wire / the message read back differs from the original object's own serialisation [%s]", what), cas)
			case res.m.CMD() != it.cmd || !reflect.DeepEqual(res.m, it.decoded):
				c.Violate(sig, fmt.Sprintf("the message read back is not deeply equal to the original [%s]", what), cas)
			default:
				c.Inc("seq_roundtrips_equal")
				if resent {
					c.Inc("seq_resent_blocks_equal")
				}
			}
		}

		step := 0
		// directed opening: block, another message, the same block again (both
		// confirmation variants), the second time possibly to another peer
		// (blocks come in pairs: the same block without / with its confirmation;
		// only the variant written first enters the cache, so alternate it)
		first := blocks[s%2]
		var second *c35SeqItem
		for _, b := range blocks {
			if b.hash != first.hash && b.confirm != first.confirm {
				second = b
				break
			}
		}
		opening := []*c35SeqItem{first}
		if second != nil {
			opening = append(opening, second)
		}
		for _, b := range opening {
			send(b, step)
			send(others[r.Intn(len(others))], step+1)
			send(b, step+2)
			step += 3
		}
		for ; step < steps; step++ {
			switch k := r.Intn(10); {
			case k < 4: // one of the blocks written recently (likely still cached)
				var recent []*c35SeqItem
				for _, b := range blocks {
					if written[b.key] {
						recent = append(recent, b)
					}
				}
				if len(recent) == 0 {
					recent = blocks
				}
				send(recent[r.Intn(len(recent))], step)
			case k < 6: // any block (may evict)
				send(blocks[r.Intn(len(blocks))], step)
			default:
				send(others[r.Intn(len(others))], step)
			}
		}
	}
}

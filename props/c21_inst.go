package props

import (
	"encoding/hex"
	"fmt"
	"math"
	"math/rand"
	"path/filepath"

	"github.com/elastos/Elastos.ELA/common"
	"github.com/elastos/Elastos.ELA/common/config"
	"github.com/elastos/Elastos.ELA/core/checkpoint"
	"github.com/elastos/Elastos.ELA/core/contract"
	"github.com/elastos/Elastos.ELA/core/types"
	common2 "github.com/elastos/Elastos.ELA/core/types/common"
	"github.com/elastos/Elastos.ELA/core/types/interfaces"
	"github.com/elastos/Elastos.ELA/core/types/payload"
	crstate "github.com/elastos/Elastos.ELA/cr/state"
	"github.com/elastos/Elastos.ELA/dpos/state"
)

// ---------------------------------------------------------------------------
// C21 level 1: the state-level driver.
//
// A c21Inst is one real dpos/state.Arbiters (with its embedded State), wired
// exactly as main.go wires it except that
//   * the chain callbacks (best height, block by height, tx references) are
//     answered from the driver's own block list / output table, and
//   * the CR committee is a real cr/state.Committee object whose election
//     status and members are *installed by the driver* as a pure function of
//     the chain prefix (the committee's own block processing is C22's
//     business). Everything the DPoS state itself writes into CR members
//     (inactivity counters, member state) is left to the code under test.
// Blocks enter through checkpoint.Manager.OnBlockSaved and leave through
// checkpoint.Manager.OnRollbackTo(height-1), block by block - the two calls
// blockchain.go makes when it connects / disconnects a block.
// ---------------------------------------------------------------------------

// C21Sched is the compressed era schedule of one history.
type C21Sched struct {
	VoteStart        uint32
	CRCOnly          uint32
	PublicDPOS       uint32
	ActivateIllegal  uint32
	VoteStatistics   uint32
	CRVotingStart    uint32
	CRCommitteeStart uint32
	CRClaim          uint32
	NewCR            uint32 // ChangeCommitteeNewCRHeight = NoCRCDPOSNodeHeight = RevertToPOWStartHeight
	DPoSV2Start      uint32
	RecordSponsor    uint32
	End              uint32 // target length of the history
	PreConnect       uint32
	Normal           int // NormalArbitratorsCount
	CRC              int // len(CRCArbiters) == CR MemberCount
	Candidates       int
	MaxInactive      uint32
	MaxInactiveRnd   uint32
	RandomPeriod     uint32
	DepositLockup    uint32
	MinVoteLock      uint32
	MinStakeLock     uint32
	EffectiveVotes   common.Fixed64
	NeedSave         bool
}

func (s *C21Sched) String() string {
	return fmt.Sprintf("vote=%d crcOnly=%d public=%d actIllegal=%d voteStat=%d crVoting=%d crCommittee=%d crClaim=%d newCR=%d v2Start=%d recordSponsor=%d end=%d preConnect=%d normal=%d crc=%d cand=%d maxInactive=%d/%d randomPeriod=%d lockup=%d minVoteLock=%d minStakeLock=%d effVotes=%d save=%v",
		s.VoteStart, s.CRCOnly, s.PublicDPOS, s.ActivateIllegal, s.VoteStatistics, s.CRVotingStart, s.CRCommitteeStart, s.CRClaim, s.NewCR, s.DPoSV2Start, s.RecordSponsor, s.End,
		s.PreConnect, s.Normal, s.CRC, s.Candidates, s.MaxInactive, s.MaxInactiveRnd, s.RandomPeriod, s.DepositLockup, s.MinVoteLock, s.MinStakeLock, int64(s.EffectiveVotes), s.NeedSave)
}

// C21RandomSched draws a schedule. profile: 0 = all eras compressed into one
// history, 1 = long stay before the public DPoS era, 2 = long stay in the
// public DPoS v1 era, 3 = long stay in the new-CR / revert-to-POW era,
// 4 = long stay in DPoS v2.
func C21RandomSched(r *rand.Rand, profile int) *C21Sched {
	gap := func(lo, hi int) uint32 { return uint32(lo + r.Intn(hi-lo+1)) }
	s := &C21Sched{PreConnect: gap(2, 4), Normal: 2 + r.Intn(2), CRC: 2 + r.Intn(2), Candidates: 2,
		MaxInactive: gap(4, 9), MaxInactiveRnd: gap(3, 6), RandomPeriod: gap(8, 20), DepositLockup: gap(4, 10),
		MinVoteLock: gap(3, 8), MinStakeLock: gap(6, 12), EffectiveVotes: common.Fixed64(100+r.Intn(700)) * 1e8}
	long := func(p int, lo, hi int) uint32 {
		if profile == p {
			return gap(lo*3, hi*4)
		}
		return gap(lo, hi)
	}
	s.VoteStart = gap(2, 4)
	s.CRCOnly = s.VoteStart + s.PreConnect + long(1, 8, 16)
	s.PublicDPOS = s.CRCOnly + s.PreConnect + gap(3, 10)
	s.ActivateIllegal = s.PublicDPOS + long(2, 3, 8)
	s.VoteStatistics = s.ActivateIllegal + gap(1, 4)
	s.CRVotingStart = s.VoteStatistics + long(2, 2, 6)
	s.CRCommitteeStart = s.CRVotingStart + gap(3, 8)
	s.CRClaim = s.CRCommitteeStart + gap(4, 10)
	s.NewCR = s.CRClaim + gap(6, 14)
	s.DPoSV2Start = s.NewCR + long(3, 10, 22)
	s.RecordSponsor = s.DPoSV2Start + long(4, 20, 40)
	s.End = s.RecordSponsor + gap(8, 24)
	return s
}

// C21Config builds the chain parameters for a schedule and key set. Everything
// not listed is the mainnet default (penalties included).
func C21Config(s *C21Sched, w *C21World, dataDir string) *config.Configuration {
	cfg := config.GetDefaultParams()
	cfg.VoteStartHeight = s.VoteStart
	cfg.CRCOnlyDPOSHeight = s.CRCOnly
	cfg.PublicDPOSHeight = s.PublicDPOS
	cfg.EnableActivateIllegalHeight = s.ActivateIllegal
	cfg.VoteStatisticsHeight = s.VoteStatistics
	cfg.CheckRewardHeight = 0
	cr := &cfg.CRConfiguration
	cr.CRVotingStartHeight = s.CRVotingStart
	cr.CRCommitteeStartHeight = s.CRCommitteeStart
	cr.CRClaimDPOSNodeStartHeight = s.CRClaim
	cr.ChangeCommitteeNewCRHeight = s.NewCR
	cr.MemberCount = uint32(s.CRC)
	cr.DepositLockupBlocks = s.DepositLockup
	dp := &cfg.DPoSConfiguration
	dp.NoCRCDPOSNodeHeight = s.NewCR
	dp.RevertToPOWStartHeight = s.NewCR
	dp.CRDPoSNodeHotFixHeight = 0
	dp.DPOSNodeCrossChainHeight = math.MaxUint32
	dp.DexStartHeight = math.MaxUint32
	dp.NFTStartHeight = s.DPoSV2Start
	dp.RecordSponsorStartHeight = s.RecordSponsor
	dp.PreConnectOffset = s.PreConnect
	dp.NormalArbitratorsCount = s.Normal
	dp.CandidatesCount = s.Candidates
	dp.MaxInactiveRounds = s.MaxInactive
	dp.MaxInactiveRoundsOfRandomNode = s.MaxInactiveRnd
	dp.RandomCandidatePeriod = s.RandomPeriod
	dp.DPoSV2DepositCoinMinLockTime = s.MinStakeLock
	dp.DPoSV2MinVotesLockTime = s.MinVoteLock
	dp.SponsorsFilePath = filepath.Join(dataDir, "no-such-sponsors-file")
	dp.CRCArbiters = nil
	for i := 0; i < s.CRC; i++ {
		dp.CRCArbiters = append(dp.CRCArbiters, hex.EncodeToString(w.CRCArbiterKey(i)))
	}
	dp.OriginArbiters = nil
	for i := 0; i < 5; i++ {
		dp.OriginArbiters = append(dp.OriginArbiters, hex.EncodeToString(w.OriginKey(i)))
	}
	cfg.DPoSV2StartHeight = s.DPoSV2Start
	cfg.DPoSV2EffectiveVotes = s.EffectiveVotes
	cfg.NewELAIssuanceHeight = s.NewCR // the reward formula switches once, as on mainnet
	cfg.HalvingRewardHeight = s.End + 1000
	cfg.CheckPointConfiguration.NeedSave = s.NeedSave
	cfg.CheckPointConfiguration.DataPath = filepath.Join(dataDir, "checkpoints")
	cfg.DataDir = dataDir
	cfg.Sterilize()
	return cfg
}

// C21Env is the part of the CR committee the driver installs before block h
// is handed to the DPoS state: a function of the chain prefix 1..h only.
type C21Env struct {
	InElection bool
	Claims     [][]byte // DPoS node key claimed by CR member i (nil = unclaimed)
}

// C21Pre is something the node does right before it connects the block
// (blockchain.connectBlock -> PreProcessSpecialTx, or the DPoS manager handing
// over evidence / the "need RevertToDPOS" flag).
type C21Pre struct {
	Kind    string // "special" | "need-revert-to-dpos"
	Payload interfaces.Payload
}

// C21Block is one generated block with everything needed to replay it.
type C21Block struct {
	Block   *types.Block
	Confirm *payload.Confirm
	Env     C21Env
	Pre     []C21Pre
	Ops     []string // human readable description of the transactions
}

type c21Inst struct {
	w       *C21World
	sched   *C21Sched
	cfg     *config.Configuration
	ckp     *checkpoint.Manager
	com     *crstate.Committee
	arb     *state.Arbiters
	members []*crstate.CRMember
	chain   []*C21Block // chain[h] = block at height h; chain[0] = nil (genesis)
	tip     uint32
	dead    bool
}

func dposOnly(p checkpoint.ICheckPoint) bool { return p.Key() == state.CheckpointKey }

func newC21Inst(w *C21World, s *C21Sched, dataDir string) (*c21Inst, error) {
	in := &c21Inst{w: w, sched: s}
	in.cfg = C21Config(s, w, dataDir)
	in.ckp = checkpoint.NewManager(in.cfg)
	in.com = crstate.NewCommittee(in.cfg, in.ckp)
	// The committee's own checkpoint is not driven here (see header comment).
	in.ckp.Unregister("cp_cr")
	arb, err := state.NewArbitrators(in.cfg, in.com,
		func(common.Uint168) (common.Fixed64, error) { return 0, nil },
		in.com.TryUpdateCRMemberInactivity, in.com.TryRevertCRMemberInactivity,
		in.com.TryUpdateCRMemberIllegal, in.com.TryRevertCRMemberIllegal,
		in.com.UpdateCRInactivePenalty, in.com.RevertUpdateCRInactivePenalty, in.ckp)
	if err != nil {
		return nil, err
	}
	in.arb = arb
	in.chain = []*C21Block{nil}
	arb.RegisterFunction(
		func() uint32 { return in.tip },
		func() *common.Uint256 {
			if in.tip == 0 || int(in.tip) >= len(in.chain) {
				return &common.Uint256{}
			}
			h := in.chain[in.tip].Block.Hash()
			return &h
		},
		func(h uint32) (*types.Block, error) {
			if h == 0 || int(h) >= len(in.chain) || in.chain[h] == nil {
				if h == 0 {
					return w.Genesis, nil
				}
				return nil, fmt.Errorf("no block at %d", h)
			}
			return in.chain[h].Block, nil
		},
		w.TxReference)
	arb.State.RegisterFuncitons(&state.StateFuncsConfig{GetHeight: func() uint32 { return in.tip }})
	in.members = w.NewCRMembers(s.CRC)
	in.applyEnv(C21Env{})
	return in, nil
}

// applyEnv installs the driver-controlled part of the committee.
func (in *c21Inst) applyEnv(e C21Env) {
	c := in.com
	c.InElectionPeriod = e.InElection
	if e.InElection {
		c.LastCommitteeHeight = in.sched.CRCommitteeStart
		if len(c.Members) == 0 {
			for _, m := range in.members {
				c.Members[m.Info.DID] = m
			}
		}
	} else {
		c.LastCommitteeHeight = 0
		for k := range c.Members {
			delete(c.Members, k)
		}
	}
	for i, m := range in.members {
		var k []byte
		if i < len(e.Claims) {
			k = e.Claims[i]
		}
		m.DPOSPublicKey = k
	}
}

// process connects one block the way blockchain.connectBlock + ProcessBlock do.
//
// A non-nil error means a pre-action failed (force change impossible): the
// real node rejects the block (PreProcessSpecialTx) and is left with dangling
// un-committed history entries; the instance must not be used any further.
func (in *c21Inst) process(b *C21Block) error {
	h := b.Block.Height
	in.applyEnv(b.Env)
	for _, p := range b.Pre {
		switch p.Kind {
		case "special":
			// PreProcessSpecialTx / ProcessIllegalBlock: the tip is still h-1.
			if err := in.arb.ProcessSpecialTxPayload(p.Payload, h-1); err != nil {
				if h > 1 {
					in.applyEnv(in.chain[h-1].Env)
				}
				return err
			}
		case "need-revert-to-dpos":
			in.arb.SetNeedRevertToDPOSTX(true)
		}
	}
	if int(h) == len(in.chain) {
		in.chain = append(in.chain, b)
	} else {
		in.chain[h] = b
		in.chain = in.chain[:h+1]
	}
	in.tip = h
	isPow := in.arb.ConsensusAlgorithm == state.POW
	in.ckp.OnBlockSaved(&types.DposBlock{Block: b.Block, HaveConfirm: b.Confirm != nil, Confirm: b.Confirm},
		dposOnly, isPow, in.arb.RevertToPOWBlockHeight, false)
	return nil
}

// rollbackTo disconnects blocks tip..h+1 one by one as reorganizeChain does.
func (in *c21Inst) rollbackTo(h uint32) error {
	for in.tip > h {
		blk := in.chain[in.tip]
		if blk.Block.Height-1 >= in.cfg.VoteStartHeight {
			if err := in.ckp.OnRollbackTo(blk.Block.Height-1, in.arb.ConsensusAlgorithm == state.POW); err != nil {
				return err
			}
		}
		in.tip--
		in.chain = in.chain[:in.tip+1]
		if in.tip > 0 {
			in.applyEnv(in.chain[in.tip].Env)
		} else {
			in.applyEnv(C21Env{})
		}
	}
	return nil
}

// checkpointHeight is the Height field of the registered DPoS checkpoint (set
// by the manager when it saves a snapshot; 0 = never saved).
func (in *c21Inst) checkpointHeight() uint32 {
	cp, ok := in.ckp.GetCheckpoint(state.CheckpointKey, ^uint32(0))
	if !ok || cp == nil {
		return 0
	}
	return cp.GetHeight()
}

func (in *c21Inst) close() {
	if in.dead {
		return
	}
	in.dead = true
	in.ckp.Close()
	// every State subscribes to the process-wide event bus and can never be
	// unsubscribed: drop what it retains.
	in.arb.State.History = nil
	in.arb.History = nil
	in.arb.Snapshots = nil
	in.chain = nil
}

// stake address of a redeem script
func c21StakeAddr(code []byte) common.Uint168 {
	ct, _ := contract.CreateStakeContractByCode(code)
	return *ct.ToProgramHash()
}

var _ = common2.TxVersion09

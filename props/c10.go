package props

import (
	"bytes"
	"crypto/sha256"
	"encoding/binary"
	"encoding/hex"
	"fmt"
	"math/rand"
	"strings"

	"github.com/elastos/Elastos.ELA/auxpow"
	"github.com/elastos/Elastos.ELA/common"

	"verif/kit"
)

// C10 — a merged-mining proof commits to exactly this block.
//
// The real auxpow.AuxPow.Check is run on proofs produced by an independent
// builder (and by auxpow.GenerateAuxPow), on single-field mutations of them and
// on hostile marker placements. The oracle is a BYTE-level model of the
// merged-mining rule written from the property statement (c10Model*), which
// shares no code with package auxpow: own double-SHA256, own bitcoin tx
// serialisation, own merkle walk, own slot LCG.
//
//   impl accepts  =>  model accepts          (the property)
//   honest proof  =>  impl accepts           (vacuity guard)

func init() {
	kit.Register(&kit.Spec{
		ID:     "C10",
		Rule:   "proofs: auxpow.GenerateAuxPow outputs + an independent builder (aux branch length 0..12 with EVERY slot index, coinbase branch length 0..6, random script prefix/suffix), each sent through the implementation's own Serialize/Deserialize; per proof single-field mutations (block hash, chain id, each aux/coinbase branch hash, both indexes incl. bits above the branch length, nonce, size, parent merkle root, marker bytes, root bytes, coinbase tx fields, branch length +-1, uncommitted header fields) and marker placements (absent, twice, separated, root before marker, root twice, 0..7 and exactly 8 trailing bytes, two complete commitments, marker/root at ODD NIBBLE offsets of the hex rendering). distinct = distinct (class, proof bytes, block hash, chain id); non-trivial = the coinbase-under-parent-root step passed in the model, i.e. the case reached the script/marker logic",
		Shards: func(tier string) int { return 8 },
		Run:    runC10,
		Post: func(a *kit.Agg) {
			if want := int64(1)<<(c10MaxH+1) - 1; a.Counters["slots_covered"] != want {
				a.Inconclusive("slot enumeration incomplete: %d of %d (h, index) slots had an accepted honest proof", a.Counters["slots_covered"], want)
			}
		},
		Require: []string{"honest_builder_accepted", "honest_generate_accepted", "reference_vectors_accepted", "mutations_evaluated", "mutations_rejected_by_impl", "placements_evaluated", "odd_nibble_cases", "off_by_one_nibble_cases", "off_by_one_nibble:stray-digit", "off_by_one_nibble:shared-digit", "off_by_one_nibble:marker-early", "slots_covered", "impl_accept", "impl_reject", "model_accept", "model_reject"},
		Assumptions: []string{"crypto/sha256 is correct",
			"the byte-level rule is the one in the property statement: exactly one marker fa be 6d 6d in the script BYTES of the first coinbase input, the byte-reversed aux merkle root directly after it, then >= 8 bytes: size (LE) == 2^len(aux branch) and nonce (LE) with index == LCG(nonce, chainID) mod size; the legacy no-marker form is not accepted (the implementation does not accept it either)",
			"aux branch length stays < 32 (longer branches crash GetExpectedIndex: property C03)"},
	})
}

// ---------------------------------------------------------------- model

type c10Hash [32]byte

func c10Sha256d(b []byte) c10Hash {
	a := sha256.Sum256(b)
	return sha256.Sum256(a[:])
}

func c10Rev(h c10Hash) c10Hash {
	var o c10Hash
	for i := range h {
		o[i] = h[31-i]
	}
	return o
}

type c10In struct {
	PrevHash c10Hash
	PrevIdx  uint32
	Script   []byte
	Sequence uint32
}

type c10Out struct {
	Value    int64
	PkScript []byte
}

// c10Proof is the model-side representation of an aux proof.
type c10Proof struct {
	AuxBranch []c10Hash
	AuxIndex  uint32
	TxVersion int32
	Ins       []c10In
	Outs      []c10Out
	LockTime  uint32
	CbBranch  []c10Hash
	CbIndex   uint32
	HdrVer    uint32
	HdrPrev   c10Hash
	HdrRoot   c10Hash
	HdrTime   uint32
	HdrBits   uint32
	HdrNonce  uint32
	ParentH   c10Hash
}

func (p *c10Proof) clone() *c10Proof {
	q := *p
	q.AuxBranch = append([]c10Hash(nil), p.AuxBranch...)
	q.CbBranch = append([]c10Hash(nil), p.CbBranch...)
	q.Ins = make([]c10In, len(p.Ins))
	for i, in := range p.Ins {
		q.Ins[i] = in
		q.Ins[i].Script = append([]byte(nil), in.Script...)
	}
	q.Outs = make([]c10Out, len(p.Outs))
	for i, o := range p.Outs {
		q.Outs[i] = o
		q.Outs[i].PkScript = append([]byte(nil), o.PkScript...)
	}
	return &q
}

func c10CompactSize(b *bytes.Buffer, n uint64) {
	switch {
	case n < 0xfd:
		b.WriteByte(byte(n))
	case n <= 0xffff:
		b.WriteByte(0xfd)
		binary.Write(b, binary.LittleEndian, uint16(n))
	case n <= 0xffffffff:
		b.WriteByte(0xfe)
		binary.Write(b, binary.LittleEndian, uint32(n))
	default:
		b.WriteByte(0xff)
		binary.Write(b, binary.LittleEndian, n)
	}
}

// bitcoin (pre-segwit) transaction serialisation
func (p *c10Proof) txBytes() []byte {
	b := new(bytes.Buffer)
	binary.Write(b, binary.LittleEndian, p.TxVersion)
	c10CompactSize(b, uint64(len(p.Ins)))
	for _, in := range p.Ins {
		b.Write(in.PrevHash[:])
		binary.Write(b, binary.LittleEndian, in.PrevIdx)
		c10CompactSize(b, uint64(len(in.Script)))
		b.Write(in.Script)
		binary.Write(b, binary.LittleEndian, in.Sequence)
	}
	c10CompactSize(b, uint64(len(p.Outs)))
	for _, o := range p.Outs {
		binary.Write(b, binary.LittleEndian, o.Value)
		c10CompactSize(b, uint64(len(o.PkScript)))
		b.Write(o.PkScript)
	}
	binary.Write(b, binary.LittleEndian, p.LockTime)
	return b.Bytes()
}

func c10MerkleUp(h c10Hash, branch []c10Hash, index uint32) c10Hash {
	var buf [64]byte
	for _, s := range branch {
		if index&1 == 1 {
			copy(buf[:32], s[:])
			copy(buf[32:], h[:])
		} else {
			copy(buf[:32], h[:])
			copy(buf[32:], s[:])
		}
		h = c10Sha256d(buf[:])
		index >>= 1
	}
	return h
}

// slot derivation of the merged-mining specification
func c10Slot(nonce uint32, chainID int, h int) uint32 {
	r := nonce
	r = r*1103515245 + 12345
	r += uint32(chainID)
	r = r*1103515245 + 12345
	return r % (uint32(1) << uint(h))
}

const c10MaxH = 12

var c10Marker = []byte{0xfa, 0xbe, 0x6d, 0x6d}

// c10ModelCheck is the byte-level rule. reached reports whether the
// coinbase-under-parent-root step passed (the script logic was reached).
func c10ModelCheck(p *c10Proof, blockHash c10Hash, chainID int) (ok bool, reached bool, why string) {
	if len(p.Ins) == 0 {
		return false, false, "no coinbase input"
	}
	if len(p.AuxBranch) >= 32 {
		return false, false, "aux branch too long"
	}
	if c10MerkleUp(c10Sha256d(p.txBytes()), p.CbBranch, p.CbIndex) != p.HdrRoot {
		return false, false, "coinbase not under parent merkle root"
	}
	script := p.Ins[0].Script
	// exactly one marker in the BYTES
	var pos []int
	for i := 0; i+4 <= len(script); i++ {
		if bytes.Equal(script[i:i+4], c10Marker) {
			pos = append(pos, i)
		}
	}
	if len(pos) != 1 {
		return false, true, fmt.Sprintf("%d markers in script bytes", len(pos))
	}
	at := pos[0] + 4
	root := c10Rev(c10MerkleUp(c10Rev(blockHash), p.AuxBranch, p.AuxIndex))
	if at+32 > len(script) || !bytes.Equal(script[at:at+32], root[:]) {
		return false, true, "aux root does not directly follow the marker"
	}
	at += 32
	if len(script)-at < 8 {
		return false, true, "fewer than 8 bytes after the root"
	}
	size := binary.LittleEndian.Uint32(script[at:])
	nonce := binary.LittleEndian.Uint32(script[at+4:])
	h := len(p.AuxBranch)
	if size != uint32(1)<<uint(h) {
		return false, true, "size != 2^h"
	}
	if p.AuxIndex != c10Slot(nonce, chainID, h) {
		return false, true, "index is not the slot derived from nonce and chain id"
	}
	return true, true, ""
}

// ---------------------------------------------------------------- impl bridge

func (p *c10Proof) toImpl() *auxpow.AuxPow {
	ap := &auxpow.AuxPow{AuxMerkleIndex: int(p.AuxIndex), ParMerkleIndex: int(p.CbIndex)}
	for _, h := range p.AuxBranch {
		ap.AuxMerkleBranch = append(ap.AuxMerkleBranch, common.Uint256(h))
	}
	for _, h := range p.CbBranch {
		ap.ParCoinBaseMerkle = append(ap.ParCoinBaseMerkle, common.Uint256(h))
	}
	tx := auxpow.BtcTx{Version: p.TxVersion, LockTime: p.LockTime}
	for _, in := range p.Ins {
		tx.TxIn = append(tx.TxIn, &auxpow.BtcTxIn{PreviousOutPoint: auxpow.BtcOutPoint{Hash: common.Uint256(in.PrevHash), Index: in.PrevIdx},
			SignatureScript: append([]byte(nil), in.Script...), Sequence: in.Sequence})
	}
	for _, o := range p.Outs {
		tx.TxOut = append(tx.TxOut, &auxpow.BtcTxOut{Value: o.Value, PkScript: append([]byte(nil), o.PkScript...)})
	}
	ap.ParCoinbaseTx = tx
	ap.ParBlockHeader = auxpow.BtcHeader{Version: p.HdrVer, Previous: common.Uint256(p.HdrPrev), MerkleRoot: common.Uint256(p.HdrRoot),
		Timestamp: p.HdrTime, Bits: p.HdrBits, Nonce: p.HdrNonce}
	ap.ParentHash = common.Uint256(p.ParentH)
	return ap
}

func c10FromImpl(ap *auxpow.AuxPow) *c10Proof {
	p := &c10Proof{AuxIndex: uint32(ap.AuxMerkleIndex), CbIndex: uint32(ap.ParMerkleIndex),
		TxVersion: ap.ParCoinbaseTx.Version, LockTime: ap.ParCoinbaseTx.LockTime,
		HdrVer: ap.ParBlockHeader.Version, HdrPrev: c10Hash(ap.ParBlockHeader.Previous), HdrRoot: c10Hash(ap.ParBlockHeader.MerkleRoot),
		HdrTime: ap.ParBlockHeader.Timestamp, HdrBits: ap.ParBlockHeader.Bits, HdrNonce: ap.ParBlockHeader.Nonce, ParentH: c10Hash(ap.ParentHash)}
	for _, h := range ap.AuxMerkleBranch {
		p.AuxBranch = append(p.AuxBranch, c10Hash(h))
	}
	for _, h := range ap.ParCoinBaseMerkle {
		p.CbBranch = append(p.CbBranch, c10Hash(h))
	}
	for _, in := range ap.ParCoinbaseTx.TxIn {
		p.Ins = append(p.Ins, c10In{PrevHash: c10Hash(in.PreviousOutPoint.Hash), PrevIdx: in.PreviousOutPoint.Index, Script: append([]byte(nil), in.SignatureScript...), Sequence: in.Sequence})
	}
	for _, o := range ap.ParCoinbaseTx.TxOut {
		p.Outs = append(p.Outs, c10Out{Value: o.Value, PkScript: append([]byte(nil), o.PkScript...)})
	}
	return p
}

// c10ImplCheck runs the real Check on the proof after a round trip through
// the implementation's wire codec (so only wire-reachable proofs are judged).
func c10ImplCheck(p *c10Proof, blockHash c10Hash, chainID int) (accepted, panicked bool, pval string, wire []byte) {
	ap := p.toImpl()
	buf := new(bytes.Buffer)
	if err := ap.Serialize(buf); err != nil {
		return false, true, "serialize: " + err.Error(), nil
	}
	wire = append([]byte(nil), buf.Bytes()...)
	var back auxpow.AuxPow
	if err := back.Deserialize(bytes.NewReader(wire)); err != nil {
		return false, true, "deserialize: " + err.Error(), wire
	}
	bh := common.Uint256(blockHash)
	pn, v, _ := kit.Guard(func() { accepted = back.Check(&bh, chainID) })
	if pn {
		return false, true, fmt.Sprint(v), wire
	}
	return accepted, false, "", wire
}

// ---------------------------------------------------------------- builder

type c10Layout struct {
	markerAt int // byte offset of the marker in the script
	rootAt   int
	sizeAt   int
	nonceAt  int
	end      int // offset just after the nonce
}

func c10RandHash(r *rand.Rand) c10Hash {
	var h c10Hash
	r.Read(h[:])
	return h
}

// bytes that contain the marker neither byte-aligned nor nibble-shifted
func c10Filler(r *rand.Rand, n int) []byte {
	for {
		b := make([]byte, n)
		r.Read(b)
		if !strings.Contains(hex.EncodeToString(b), "fabe6d6d") {
			return b
		}
	}
}

// c10NonceFor finds a nonce whose slot is index.
func c10NonceFor(r *rand.Rand, chainID, h int, index uint32) uint32 {
	n := r.Uint32()
	for c10Slot(n, chainID, h) != index {
		n++
	}
	return n
}

// c10Build makes an honest proof for blockHash with aux branch length h and
// slot index (must be < 2^h), coinbase branch length cbLen.
func c10Build(r *rand.Rand, blockHash c10Hash, chainID, h int, index uint32, cbLen int) (*c10Proof, c10Layout) {
	p := &c10Proof{TxVersion: int32(1 + r.Intn(2)), LockTime: 0, AuxIndex: index,
		HdrVer: r.Uint32(), HdrPrev: c10RandHash(r), HdrTime: r.Uint32(), HdrBits: r.Uint32(), HdrNonce: r.Uint32()}
	for i := 0; i < h; i++ {
		p.AuxBranch = append(p.AuxBranch, c10RandHash(r))
	}
	nonce := c10NonceFor(r, chainID, h, index)
	root := c10Rev(c10MerkleUp(c10Rev(blockHash), p.AuxBranch, index))
	prefix := c10Filler(r, r.Intn(40))
	suffix := c10Filler(r, r.Intn(24))
	var lay c10Layout
	s := append([]byte(nil), prefix...)
	lay.markerAt = len(s)
	s = append(s, c10Marker...)
	lay.rootAt = len(s)
	s = append(s, root[:]...)
	lay.sizeAt = len(s)
	s = binary.LittleEndian.AppendUint32(s, uint32(1)<<uint(h))
	lay.nonceAt = len(s)
	s = binary.LittleEndian.AppendUint32(s, nonce)
	lay.end = len(s)
	s = append(s, suffix...)
	p.Ins = []c10In{{PrevHash: c10Hash{}, PrevIdx: 0xffffffff, Script: s, Sequence: r.Uint32()}}
	for i, n := 0, r.Intn(3); i < n; i++ {
		p.Outs = append(p.Outs, c10Out{Value: r.Int63n(50 * 1e8), PkScript: c10Filler(r, 25)})
	}
	for i := 0; i < cbLen; i++ {
		p.CbBranch = append(p.CbBranch, c10RandHash(r))
	}
	if cbLen > 0 && r.Intn(2) == 0 {
		p.CbIndex = uint32(r.Intn(1 << uint(cbLen)))
	}
	c10Reseal(p)
	return p, lay
}

// c10Reseal recomputes the parent merkle root from the coinbase (what a
// parent miner does after choosing its coinbase).
func c10Reseal(p *c10Proof) {
	p.HdrRoot = c10MerkleUp(c10Sha256d(p.txBytes()), p.CbBranch, p.CbIndex)
}

// ---------------------------------------------------------------- workload

type c10Case struct {
	class     string
	p         *c10Proof
	blockHash c10Hash
	chainID   int
	// mustReject: independent of the model, a changed committed field must
	// make the proof fail (second clause of the statement).
	mustReject bool
	oddNibble  bool
}

func flipBit(b []byte, r *rand.Rand) {
	if len(b) == 0 {
		return
	}
	i := r.Intn(len(b) * 8)
	b[i/8] ^= 1 << uint(i%8)
}

func runC10(c *kit.Ctx) {
	r := c.Rand("c10")
	stats := map[string]int{}
	sampled := map[string]bool{}

	eval := func(cs c10Case) (implOK, modelOK bool) {
		modelOK, reached, why := c10ModelCheck(cs.p, cs.blockHash, cs.chainID)
		implOK, panicked, pval, wire := c10ImplCheck(cs.p, cs.blockHash, cs.chainID)
		id := append([]byte(cs.class+"|"), wire...)
		id = append(id, cs.blockHash[:]...)
		id = append(id, byte(cs.chainID), byte(cs.chainID>>8), byte(cs.chainID>>16))
		c.CaseBytes(id, reached)
		if panicked {
			// a crash is not an acceptance; it belongs to property C03. Counted and noted.
			c.Inc("impl_panicked")
			c.Inc("impl_panicked:" + cs.class)
			if stats["panicnote:"+cs.class] == 0 && c.Shard == 0 {
				stats["panicnote:"+cs.class] = 1
				c.Note("AuxPow.Check panicked (class %s, model says reject: %s): %s — crash-freedom is property C03; not an acceptance", cs.class, why, pval)
			}
			c.Inc("impl_reject")
		} else if implOK {
			c.Inc("impl_accept")
		} else {
			c.Inc("impl_reject")
		}
		if modelOK {
			c.Inc("model_accept")
		} else {
			c.Inc("model_reject")
		}
		if !sampled[cs.class] && c.Shard == 0 && (cs.class == "honest" || cs.oddNibble || cs.class == "mut:block-hash") {
			sampled[cs.class] = true
			c.Sample(map[string]interface{}{"class": cs.class, "aux_branch_len": len(cs.p.AuxBranch), "aux_index": cs.p.AuxIndex, "coinbase_branch_len": len(cs.p.CbBranch),
				"script_hex": hex.EncodeToString(cs.p.Ins[0].Script), "block_hash": hex.EncodeToString(cs.blockHash[:]), "chain_id": cs.chainID,
				"impl_accept": implOK, "model_accept": modelOK, "model_reason": why})
		}
		if implOK && !modelOK {
			sig := "auxpow:accepts-beyond-rule:" + cs.class
			if cs.oddNibble {
				sig = "auxpow:odd-nibble-marker"
			}
			c.Violate(sig, fmt.Sprintf("AuxPow.Check accepted a proof the byte-level rule rejects (%s); class=%s h=%d index=%d script=%x blockHash=%x chainID=%d",
				why, cs.class, len(cs.p.AuxBranch), cs.p.AuxIndex, cs.p.Ins[0].Script, cs.blockHash[:], cs.chainID),
				map[string]interface{}{"class": cs.class, "wire_hex": hex.EncodeToString(wire), "block_hash": hex.EncodeToString(cs.blockHash[:]), "chain_id": cs.chainID})
		}
		if implOK && cs.mustReject {
			c.Violate("auxpow:mutation-accepted:"+cs.class, fmt.Sprintf("a proof with a changed committed field still passes Check (class=%s)", cs.class),
				map[string]interface{}{"class": cs.class, "wire_hex": hex.EncodeToString(wire), "block_hash": hex.EncodeToString(cs.blockHash[:]), "chain_id": cs.chainID})
		}
		if !implOK && modelOK && !panicked {
			c.Inc("impl_stricter_than_rule")
			c.Inc("impl_stricter_than_rule:" + cs.class)
		}
		return
	}

	honest := func(p *c10Proof, bh c10Hash, chainID int, counter string) bool {
		implOK, modelOK := eval(c10Case{class: "honest", p: p, blockHash: bh, chainID: chainID})
		if !modelOK {
			c.Violate("harness:model-rejects-honest", "the byte-level model rejects a proof built to the rule (harness bug)", nil)
			return false
		}
		if !implOK {
			c.Violate("auxpow:honest-rejected", fmt.Sprintf("AuxPow.Check rejects an honest proof: h=%d index=%d cb=%d script=%x", len(p.AuxBranch), p.AuxIndex, len(p.CbBranch), p.Ins[0].Script), nil)
			return false
		}
		c.Inc(counter)
		return true
	}

	// ---- (0) real-world reference vectors (from the repository's own test data: BTC.COM / namecoin style
	//          coinbases) must be accepted by the MODEL too: validates the model against proofs it did not build.
	if c.Shard == 0 {
		for i, v := range c10RefVectors {
			raw, _ := hex.DecodeString(v.auxpow)
			var ap auxpow.AuxPow
			if err := ap.Deserialize(bytes.NewReader(raw)); err != nil {
				c.Inconclusive("reference vector %d does not deserialize: %v", i, err)
				continue
			}
			hb, _ := hex.DecodeString(v.hash)
			var bh c10Hash
			copy(bh[:], hb) // common.Uint256FromHexString keeps byte order
			p := c10FromImpl(&ap)
			implOK, modelOK := eval(c10Case{class: "reference", p: p, blockHash: bh, chainID: v.chainID})
			if implOK && modelOK {
				c.Inc("reference_vectors_accepted")
			} else {
				c.Inconclusive("reference vector %d: impl=%v model=%v", i, implOK, modelOK)
			}
		}
	}

	// ---- (1) GenerateAuxPow proofs
	nG := c.N(300, 5000)
	for i := 0; i < nG; i++ {
		bh := c10RandHash(r)
		ap := auxpow.GenerateAuxPow(common.Uint256(bh))
		ap.ParBlockHeader.Timestamp = r.Uint32() // wall clock inside GenerateAuxPow is not part of any verdict
		p := c10FromImpl(ap)
		if honest(p, bh, auxpow.AuxPowChainID, "honest_generate_accepted") {
			// wrong block / wrong chain id on the node's own generator output
			other := bh
			flipBit(other[:], r)
			eval(c10Case{class: "mut:block-hash", p: p, blockHash: other, chainID: auxpow.AuxPowChainID, mustReject: true})
			c.Inc("mutations_evaluated")
		}
	}

	// ---- (2) every (h, index) slot, split over shards
	base := func(h int, index uint32) (*c10Proof, c10Layout, c10Hash, int, bool) {
		bh := c10RandHash(r)
		chainID := auxpow.AuxPowChainID
		switch r.Intn(4) {
		case 0:
			chainID = r.Intn(1 << 16)
		case 1:
			chainID = int(r.Uint32())
		}
		p, lay := c10Build(r, bh, chainID, h, index, r.Intn(7))
		ok := honest(p, bh, chainID, "honest_builder_accepted")
		c.Max("max:aux_branch_len", int64(h))
		c.Max("max:coinbase_branch_len", int64(len(p.CbBranch)))
		return p, lay, bh, chainID, ok
	}
	// every one of the 2^13-1 slots (h = 0..12) exactly once across the shards
	k := 0
	for h := 0; h <= c10MaxH; h++ {
		for idx := uint32(0); idx < 1<<uint(h); idx++ {
			if k++; k%c.Shards != c.Shard {
				continue
			}
			p, lay, bh, chainID, ok := base(h, idx)
			if ok {
				c.Inc("slots_covered")
				c10Mutate(c, r, eval, p, lay, bh, chainID, 1)
			}
		}
	}

	// ---- (3) random proofs with mutations and placements
	rn := c.Rand("c10-nibble") // own stream: the older classes keep their case sequence
	n := c.N(2200, 48000)
	for i := 0; i < n; i++ {
		h := r.Intn(c10MaxH + 1)
		idx := uint32(r.Intn(1 << uint(h)))
		p, lay, bh, chainID, ok := base(h, idx)
		if !ok {
			continue
		}
		c10Mutate(c, r, eval, p, lay, bh, chainID, 3)
		c10Place(c, r, eval, p, lay, bh, chainID)
		c10OddNibble(c, r, eval, bh, chainID, h)
		c10OffByOneNibble(c, rn, eval, bh, chainID, h)
	}
}

// c10Mutate applies k random single-field mutations to an honest proof.
func c10Mutate(c *kit.Ctx, r *rand.Rand, eval func(c10Case) (bool, bool), p0 *c10Proof, lay c10Layout, bh c10Hash, chainID int, k int) {
	h := len(p0.AuxBranch)
	for j := 0; j < k; j++ {
		p := p0.clone()
		cs := c10Case{p: p, blockHash: bh, chainID: chainID}
		s := p.Ins[0].Script
		switch r.Intn(24) {
		case 0:
			cs.class, cs.mustReject = "mut:block-hash", true
			flipBit(cs.blockHash[:], r)
		case 1:
			cs.class = "mut:chain-id" // may keep the slot for small h: the model decides
			cs.chainID = chainID + 1 + r.Intn(5)
			if r.Intn(2) == 0 {
				cs.chainID = int(r.Uint32())
			}
		case 2:
			if h == 0 {
				continue
			}
			cs.class, cs.mustReject = "mut:aux-branch-hash", true
			flipBit(p.AuxBranch[r.Intn(h)][:], r)
		case 3:
			cs.class, cs.mustReject = "mut:aux-index", true
			switch r.Intn(4) {
			case 0:
				p.AuxIndex++
			case 1:
				p.AuxIndex ^= 1 << uint(r.Intn(h+1)) // includes the first bit above the tree
			case 2:
				p.AuxIndex ^= 1 << uint(h+r.Intn(32-h)) // bits the merkle walk ignores
			default:
				v := r.Uint32()
				if v == p.AuxIndex {
					v++
				}
				p.AuxIndex = v
			}
		case 4:
			cs.class = "mut:nonce" // slot may coincide: the model decides
			flipBit(s[lay.nonceAt:lay.nonceAt+4], r)
			c10Reseal(p)
		case 5:
			cs.class, cs.mustReject = "mut:size", true
			switch r.Intn(4) {
			case 0:
				flipBit(s[lay.sizeAt:lay.sizeAt+4], r)
			case 1:
				binary.LittleEndian.PutUint32(s[lay.sizeAt:], uint32(1)<<uint(h+1))
			case 2:
				binary.LittleEndian.PutUint32(s[lay.sizeAt:], 0)
			default:
				binary.LittleEndian.PutUint32(s[lay.sizeAt:], uint32(1)<<uint(h)>>1)
			}
			c10Reseal(p)
		case 6:
			cs.class, cs.mustReject = "mut:parent-merkle-root", true
			flipBit(p.HdrRoot[:], r)
		case 7:
			if len(p.CbBranch) == 0 {
				continue
			}
			cs.class, cs.mustReject = "mut:coinbase-branch-hash", true
			flipBit(p.CbBranch[r.Intn(len(p.CbBranch))][:], r)
		case 8:
			if len(p.CbBranch) == 0 {
				continue
			}
			cs.class, cs.mustReject = "mut:coinbase-index-low", true
			p.CbIndex ^= 1 << uint(r.Intn(len(p.CbBranch)))
		case 9:
			cs.class = "mut:coinbase-index-high" // bits above the branch are not committed
			p.CbIndex ^= 1 << uint(len(p.CbBranch)+r.Intn(32-len(p.CbBranch)))
		case 10:
			cs.class, cs.mustReject = "mut:marker-bytes", true
			flipBit(s[lay.markerAt:lay.markerAt+4], r)
			c10Reseal(p)
		case 11:
			cs.class, cs.mustReject = "mut:root-bytes", true
			flipBit(s[lay.rootAt:lay.rootAt+32], r)
			c10Reseal(p)
		case 12: // coinbase changed after the parent header was fixed
			cs.class, cs.mustReject = "mut:coinbase-tx-field", true
			switch r.Intn(5) {
			case 0:
				p.TxVersion ^= 1 << uint(r.Intn(31))
			case 1:
				p.LockTime ^= 1 << uint(r.Intn(32))
			case 2:
				p.Ins[0].Sequence ^= 1 << uint(r.Intn(32))
			case 3:
				p.Ins[0].PrevIdx ^= 1 << uint(r.Intn(32))
			default:
				p.Outs = append(p.Outs, c10Out{Value: 1, PkScript: []byte{0x51}})
			}
		case 13: // script byte changed without resealing
			cs.class, cs.mustReject = "mut:script-byte-no-reseal", true
			flipBit(s, r)
		case 14:
			cs.class = "mut:header-uncommitted" // proof-of-work fields; not part of the commitment
			switch r.Intn(5) {
			case 0:
				p.HdrVer = r.Uint32()
			case 1:
				p.HdrPrev = c10RandHash(r)
			case 2:
				p.HdrTime = r.Uint32()
			case 3:
				p.HdrBits = r.Uint32()
			default:
				p.HdrNonce = r.Uint32()
			}
		case 15:
			cs.class = "mut:parent-hash-field"
			p.ParentH = c10RandHash(r)
		case 16:
			if h >= 12 {
				continue
			}
			cs.class, cs.mustReject = "mut:aux-branch-longer", true
			p.AuxBranch = append(p.AuxBranch, c10RandHash(r))
		case 17:
			if h == 0 {
				continue
			}
			cs.class, cs.mustReject = "mut:aux-branch-shorter", true
			p.AuxBranch = p.AuxBranch[:h-1]
		case 18:
			cs.class, cs.mustReject = "mut:coinbase-branch-longer", true
			p.CbBranch = append(p.CbBranch, c10RandHash(r))
		case 19:
			if len(p.CbBranch) == 0 {
				continue
			}
			cs.class, cs.mustReject = "mut:coinbase-branch-shorter", true
			p.CbBranch = p.CbBranch[:len(p.CbBranch)-1]
		case 20: // proof of block A presented for an unrelated block B with B's own valid-looking aux branch
			cs.class, cs.mustReject = "mut:other-block", true
			cs.blockHash = c10RandHash(r)
		case 21: // a second input in front: Check looks at input 0 only
			cs.class, cs.mustReject = "mut:marker-in-second-input", true
			p.Ins = append([]c10In{{PrevIdx: 0xffffffff, Script: c10Filler(r, 10)}}, p.Ins...)
			c10Reseal(p)
		case 22: // block hash byte-reversed (endianness confusion)
			cs.class, cs.mustReject = "mut:block-hash-reversed", true
			cs.blockHash = c10Rev(bh)
			if cs.blockHash == bh {
				continue
			}
		default: // root stored un-reversed
			cs.class = "mut:root-unreversed"
			root := c10MerkleUp(c10Rev(bh), p.AuxBranch, p.AuxIndex)
			if c10Rev(root) == root {
				continue
			}
			cs.mustReject = true
			copy(s[lay.rootAt:], root[:])
			c10Reseal(p)
		}
		implOK, _ := eval(cs)
		c.Inc("mutations_evaluated")
		c.Inc("mutation:" + cs.class)
		if !implOK {
			c.Inc("mutations_rejected_by_impl")
		}
	}
}

// c10Place rewrites the coinbase script of an honest proof with a hostile
// marker/root placement, reseals the parent root (a parent miner controls its
// coinbase) and evaluates.
func c10Place(c *kit.Ctx, r *rand.Rand, eval func(c10Case) (bool, bool), p0 *c10Proof, lay c10Layout, bh c10Hash, chainID int) {
	s0 := p0.Ins[0].Script
	prefix := s0[:lay.markerAt]
	root := s0[lay.rootAt : lay.rootAt+32]
	tail := s0[lay.sizeAt:lay.end] // size+nonce
	suffix := s0[lay.end:]
	cat := func(parts ...[]byte) []byte {
		var o []byte
		for _, x := range parts {
			o = append(o, x...)
		}
		return o
	}
	p := p0.clone()
	cs := c10Case{p: p, blockHash: bh, chainID: chainID}
	var s []byte
	switch r.Intn(12) {
	case 0:
		cs.class = "place:marker-absent"
		s = cat(prefix, root, tail, suffix)
	case 1:
		cs.class = "place:marker-absent-root-first" // legacy form: root at the very start, no marker
		s = cat(root, tail, suffix)
	case 2:
		cs.class = "place:marker-twice-before"
		s = cat(c10Marker, prefix, c10Marker, root, tail, suffix)
	case 3:
		cs.class = "place:marker-twice-after"
		s = cat(prefix, c10Marker, root, tail, suffix, c10Marker)
	case 4:
		cs.class = "place:marker-twice-adjacent"
		s = cat(prefix, c10Marker, c10Marker, root, tail, suffix)
	case 5:
		cs.class = "place:marker-root-separated"
		s = cat(prefix, c10Marker, c10Filler(r, 1+r.Intn(5)), root, tail, suffix)
	case 6:
		cs.class = "place:root-before-marker"
		s = cat(prefix, root, c10Marker, tail, suffix)
	case 7:
		cs.class = "place:root-twice" // a copy of the root in front of the marker; the rule still holds at the marker
		s = cat(root, prefix, c10Marker, root, tail, suffix)
	case 8:
		cs.class = "place:short-trailer" // 0..7 bytes after the root
		n := r.Intn(8)
		s = cat(prefix, c10Marker, root, cat(tail, suffix)[:n])
	case 9:
		cs.class = "place:exact-trailer" // exactly 8 bytes after the root
		s = cat(prefix, c10Marker, root, tail)
	case 10:
		cs.class = "place:two-commitments" // two complete marker+root+size+nonce groups
		s = cat(prefix, c10Marker, root, tail, c10Marker, root, tail, suffix)
	default:
		cs.class = "place:marker-aligned-plus-odd-nibble-marker" // honest commitment plus a nibble-shifted marker elsewhere
		s = cat(prefix, c10Marker, root, tail, suffix, []byte{0x0f, 0xab, 0xe6, 0xd6, 0xd0})
	}
	p.Ins[0].Script = s
	c10Reseal(p)
	eval(cs)
	c.Inc("placements_evaluated")
	c.Inc(cs.class)
}

// c10OddNibble builds scripts in which the marker's HEX DIGITS occur at an odd
// nibble offset (so the marker bytes fa be 6d 6d occur nowhere in the script),
// followed at the same odd offset by the root's hex digits, and the size/nonce
// bytes where Check reads them for that case (byte index floor(odd/2)).
func c10OddNibble(c *kit.Ctx, r *rand.Rand, eval func(c10Case) (bool, bool), bh c10Hash, chainID, h int) {
	sizeLE := binary.LittleEndian.AppendUint32(nil, uint32(1)<<uint(h))
	// The last root nibble shares a byte with the high nibble... of the size's first byte:
	// byte = (lastRootNibble<<4 | x) must equal sizeLE[0]. Grind the commitment
	// (here: the slot's sibling hashes or, for h == 0, the block hash) until it fits,
	// exactly what an adversarial miner would do (16 tries on average).
	for try := 0; try < 400; try++ {
		p := &c10Proof{TxVersion: 1, HdrVer: r.Uint32(), HdrTime: r.Uint32(), HdrNonce: r.Uint32()}
		for i := 0; i < h; i++ {
			p.AuxBranch = append(p.AuxBranch, c10RandHash(r))
		}
		if h == 0 {
			bh = c10RandHash(r)
		}
		nonce := r.Uint32()
		p.AuxIndex = c10Slot(nonce, chainID, h)
		root := c10Rev(c10MerkleUp(c10Rev(bh), p.AuxBranch, p.AuxIndex))
		if root[31]&0x0f != sizeLE[0]>>4 {
			continue
		}
		variant := r.Intn(4)
		// nibble stream: [x] f a b e 6 d 6 d  r0..r63  then the low nibble of size byte 0
		nib := []byte{byte(r.Intn(16)), 0xf, 0xa, 0xb, 0xe, 0x6, 0xd, 0x6, 0xd}
		for _, b := range root {
			nib = append(nib, b>>4, b&0xf)
		}
		nib = append(nib, sizeLE[0]&0xf)
		var s []byte
		prefix := c10Filler(r, r.Intn(20))
		s = append(s, prefix...)
		for i := 0; i+1 < len(nib); i += 2 {
			s = append(s, nib[i]<<4|nib[i+1])
		}
		s = append(s, sizeLE[1:]...)
		s = binary.LittleEndian.AppendUint32(s, nonce)
		cs := c10Case{class: "place:odd-nibble-marker", oddNibble: true, blockHash: bh, chainID: chainID}
		switch variant {
		case 0, 1: // plain
			s = append(s, c10Filler(r, r.Intn(16))...)
		case 2: // exactly as short as the hex-length test allows: floor(odd/2)+8 bytes present
		default: // truncated so that the 8-hex-digit test passes but the nonce bytes are missing
			cs.class = "place:odd-nibble-marker-short"
			s = s[:len(s)-1-r.Intn(3)]
		}
		if bytes.Contains(s, c10Marker) {
			continue
		}
		p.Ins = []c10In{{PrevIdx: 0xffffffff, Script: s, Sequence: 0xffffffff}}
		for i, n := 0, r.Intn(4); i < n; i++ {
			p.CbBranch = append(p.CbBranch, c10RandHash(r))
		}
		c10Reseal(p)
		cs.p = p
		implOK, _ := eval(cs)
		c.Inc("odd_nibble_cases")
		if implOK {
			c.Inc("odd_nibble_accepted_by_impl")
			// Does the nibble-shifted commitment bind to another block? Present the same proof for
			// other block hashes / slots: must never pass (measures the impact of the finding).
			for t := 0; t < 3; t++ {
				o := c10Case{class: "place:odd-nibble-marker:other-block", oddNibble: true, p: p, blockHash: bh, chainID: chainID, mustReject: true}
				switch t {
				case 0:
					flipBit(o.blockHash[:], r)
				case 1:
					o.blockHash = c10RandHash(r)
				default:
					q := p.clone()
					q.AuxIndex ^= 1
					o.p = q
				}
				ok2, _ := eval(o)
				c.Inc("odd_nibble_rebinding_attempts")
				if ok2 {
					c.Inc("odd_nibble_rebinding_succeeded")
				}
			}
		}
		return
	}
}

var c10RefVectors = []struct {
	hash, auxpow string
	chainID      int
}{
	{"7926398947f332fe534b15c628ff0cd9dc6f7d3ea59c74801dc758ac65428e64", "02000000010000000000000000000000000000000000000000000000000000000000000000ffffffff4b0313ee0904a880495b742f4254432e434f4d2ffabe6d6d9581ba0156314f1e92fd03430c6e4428a32bb3f1b9dc627102498e5cfbf26261020000004204cb9a010f32a00601000000000000ffffffff0200000000000000001976a914c0174e89bd93eacd1d5a1af4ba1802d412afc08688ac0000000000000000266a24aa21a9ede2f61c3f71d1defd3fa999dfa36953755c690689799962b48bebd836974e8cf90000000014acac4ee8fdd8ca7e0b587b35fce8c996c70aefdf24c333038bdba7af531266000000000001ccc205f0e1cb435f50cc2f63edd53186b414fcb22b719da8c59eab066cf30bdb0000000000000020d1061d1e456cae488c063838b64c4911ce256549afadfc6a4736643359141b01551e4d94f9e8b6b03eec92bb6de1e478a0e913e5f733f5884857a7c2b965f53ca880495bffff7f20a880495b", 6},
	{"21187623de86cd62b4ce211cd8a74e88f80eda6cc12f279bf3cdb5c0d9539a9d", "02000000010000000000000000000000000000000000000000000000000000000000000000ffffffff4b039aff0904db044a5b742f4254432e434f4d2ffabe6d6d35ecfc5f5ca2971449ee78b7d810f280de7e3e7c407e3c0162ef8692df350ef8020000004204cb9a011fde202e00000000000000ffffffff0200000000000000001976a914c0174e89bd93eacd1d5a1af4ba1802d412afc08688ac0000000000000000266a24aa21a9ede2f61c3f71d1defd3fa999dfa36953755c690689799962b48bebd836974e8cf9000000001d1879510258c5186e39cfcde4539c88686854b1ca640681dd38ed9527e635600000000000015f2f03802d61504f12e25d4b679b881ddb374cc04f240b6eb765d887679fb6360000000000000020a9f32bdb09d7777f3fa308fcd221e531393441f50e7f8b2d4ef63b2c3440940ec866338e7674b07d6a92269317f09f6c0fdb60ce7052e0211133e0015727ebb2db044a5bffff7f20db044a5b", 6},
	{"a4c78cf0c73256f8607e85baaa72874408525d7c5488a4cc69ad6930d1186d2c", "02000000010000000000000000000000000000000000000000000000000000000000000000ffffffff4a02050e04a4e2515b742f4254432e434f4d2ffabe6d6da4c78cf0c73256f8607e85baaa72874408525d7c5488a4cc69ad6930d1186d2c01000000000000000108d7517400000000000000ffffffff0300e1f505000000001976a914c0174e89bd93eacd1d5a1af4ba1802d412afc08688ac0000000000000000266a24aa21a9ede2f61c3f71d1defd3fa999dfa36953755c690689799962b48bebd836974e8cf90000000000000000424063643337386238613335653764623466356636343562303833396130373635613661326637613064343338663565626432653638663036323633313832333034f90000000042cbe48afcac502073e24700fcb536d52737c1d7938ff859685e31558df685f800000000000000000000000000207f9ebb83cd305988685bbc7c8ee006ba6934f791708f37c1e4d913fd8b0c000070833a09a50ea430f421b89292925ca8499f0bb3c2a6f7bcc804eb8105ea4bbca7e2515b7182281ea7e2515b", 6},
}

// c10OffByOneNibble builds scripts in which marker and root are ONE HEX DIGIT
// away from "root immediately after marker", i.e. layouts that only an offset
// computation which loses the low bit of a hex offset (index/2) can take for
// adjacent. Everything else is made to match (commitment ground, size/nonce
// where such a computation would read them):
//
//	stray-digit   marker byte-aligned, one stray hex digit, then the root (root at an odd hex offset)
//	shared-digit  marker at an odd hex offset, root byte-aligned at the following even offset: the
//	              marker's last 'd' is the root's first digit (root ground to start with 'd')
//	marker-early  root byte-aligned, marker at the odd hex offset one digit earlier than adjacent
//	              (one stray digit between them)
//
// In none of them do the script BYTES contain a marker immediately followed by
// the root, so the model rejects. One signature for the whole family.
func c10OffByOneNibble(c *kit.Ctx, r *rand.Rand, eval func(c10Case) (bool, bool), bh c10Hash, chainID, h int) {
	const class = "place:marker-root-off-by-one-nibble"
	sizeLE := binary.LittleEndian.AppendUint32(nil, uint32(1)<<uint(h))
	variant := []string{"stray-digit", "shared-digit", "marker-early"}[r.Intn(3)]
	floorTail := r.Intn(3) != 0 // stray-digit only: size read at floor(odd/2) (shares a byte with the last root digit) or at the next whole byte
	for try := 0; try < 600; try++ {
		p := &c10Proof{TxVersion: 1, HdrVer: r.Uint32(), HdrTime: r.Uint32(), HdrNonce: r.Uint32()}
		for i := 0; i < h; i++ {
			p.AuxBranch = append(p.AuxBranch, c10RandHash(r))
		}
		if h == 0 {
			bh = c10RandHash(r)
		}
		nonce := r.Uint32()
		p.AuxIndex = c10Slot(nonce, chainID, h)
		root := c10Rev(c10MerkleUp(c10Rev(bh), p.AuxBranch, p.AuxIndex))
		s := c10Filler(r, r.Intn(20))
		switch variant {
		case "stray-digit":
			if floorTail && root[31]&0x0f != sizeLE[0]>>4 {
				continue // grind: the last root digit is the high digit of the first size byte
			}
			s = append(s, c10Marker...)
			nib := []byte{byte(r.Intn(16))}
			for _, b := range root {
				nib = append(nib, b>>4, b&0xf)
			}
			if floorTail {
				nib = append(nib, sizeLE[0]&0xf)
			} else {
				nib = append(nib, byte(r.Intn(16)))
			}
			for i := 0; i+1 < len(nib); i += 2 {
				s = append(s, nib[i]<<4|nib[i+1])
			}
			if floorTail {
				s = append(s, sizeLE[1:]...)
			} else {
				s = append(s, sizeLE...)
			}
		case "shared-digit":
			if root[0]>>4 != 0xd {
				continue // grind: the root starts with the marker's last digit
			}
			s = append(s, byte(r.Intn(16))<<4|0xf, 0xab, 0xe6, 0xd6)
			s = append(s, root[:]...)
			s = append(s, sizeLE...)
		default: // marker-early
			s = append(s, byte(r.Intn(16))<<4|0xf, 0xab, 0xe6, 0xd6, 0xd0|byte(r.Intn(16)))
			s = append(s, root[:]...)
			s = append(s, sizeLE...)
		}
		s = binary.LittleEndian.AppendUint32(s, nonce)
		s = append(s, c10Filler(r, r.Intn(16))...)
		if n := bytes.Count(s, c10Marker); (variant == "stray-digit") != (n == 1) || n > 1 {
			continue
		}
		if strings.Count(hex.EncodeToString(s), "fabe6d6d") != 1 {
			continue
		}
		p.Ins = []c10In{{PrevIdx: 0xffffffff, Script: s, Sequence: 0xffffffff}}
		for i, n := 0, r.Intn(4); i < n; i++ {
			p.CbBranch = append(p.CbBranch, c10RandHash(r))
		}
		c10Reseal(p)
		eval(c10Case{class: class, p: p, blockHash: bh, chainID: chainID})
		c.Inc("off_by_one_nibble_cases")
		c.Inc("off_by_one_nibble:" + variant)
		c.Inc("placements_evaluated")
		c.Inc(class)
		return
	}
}

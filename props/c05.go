package props

import (
	"bytes"
	"fmt"
	"math/big"
	"math/rand"
	"os"
	"time"

	"github.com/elastos/Elastos.ELA/account"
	"github.com/elastos/Elastos.ELA/blockchain"
	"github.com/elastos/Elastos.ELA/common"
	"github.com/elastos/Elastos.ELA/common/config"
	"github.com/elastos/Elastos.ELA/core"
	pg "github.com/elastos/Elastos.ELA/core/contract/program"
	"github.com/elastos/Elastos.ELA/core/transaction"
	common2 "github.com/elastos/Elastos.ELA/core/types/common"
	"github.com/elastos/Elastos.ELA/core/types/functions"
	"github.com/elastos/Elastos.ELA/core/types/interfaces"
	"github.com/elastos/Elastos.ELA/core/types/outputpayload"
	"github.com/elastos/Elastos.ELA/core/types/payload"
	"github.com/elastos/Elastos.ELA/crypto"
	elaerr "github.com/elastos/Elastos.ELA/errors"

	"verif/kit"
	"verif/kit/node"
)

// C05 — spending requires valid signatures from every spent address.
//
// A: blockchain.RunPrograms (positional) and the real signature step of the
//    context check (core/transaction.checkTransactionSignature through the
//    verif export: GetTxProgramHashes + both sides sorted + RunPrograms) on
//    generated transactions with 1..4 spent addresses, honest witnesses and
//    adversarial variants.
// B: the same on a live node: signed TransferAssets spending real funded
//    UTXOs of every address kind through TxPool.AppendToTxPool (sanity +
//    CheckTransactionContext) and into blocks.
// Oracle: the independent model of c05_model.go. impl-accept => model-accept
// is the property; model-accept => impl-accept on honest cases is the guard.

// c05CrossChainPolicyOffIsViolation: with the CrossChain-UTXO restriction
// heights disabled (the default of every network but mainnet) the node lets
// ANY transaction spend a cross-chain (X...) UTXO with a witness script made
// of the spender's own keys. That contradicts the property as stated, so it
// is reported; flip this to false to downgrade it to a counter + note.
const c05CrossChainPolicyOffIsViolation = true

func init() {
	kit.Register(&kit.Spec{
		ID:      "C05",
		Rule:    "A: generated TransferAsset transactions whose references name 1..4 addresses drawn from {standard, m-of-n multisig n<=7, multisig code under standard/deposit prefix, deposit-standard, Schnorr aggregate of 1..4 keys, cross-chain m-of-n}, optionally one more address through a Script attribute; witnesses signed with real P-256 keys over the unsigned bytes, then exactly one adversarial variant (see counter names variant:*) applied to one address/program; each case is evaluated by RunPrograms (positional) and by the context check's signature step (sorted). B: the same variants on transactions that spend real UTXOs of a live regnet node through the mempool and blocks. distinct = distinct (variant, address kinds, unsigned bytes); non-trivial = a witness with at least one genuine signature reached RunPrograms (no length/count shortcut). X (c05_exempt.go, shards 8..): on live dpos-era / dposv2-era nodes, every transaction type whose validation can end before checkTransactionSignature has seen all inputs (enumerated at run time on the real functions: VotesRealWithdraw, DposV2ClaimRewardRealWithdraw, CRCProposalRealWithdraw, CRCAppropriation, CRAssetsRectify, CRCProposalWithdraw v0, ActivateProducer of an inactive CR council member) gets the honest instance (node-generated where the node generates it) and crafted variants that add or substitute a third party's ordinary UTXO with no / a foreign program, through AppendToTxPool and through a hand-assembled arbiter-confirmed block; RevertToDPOS and UpdateVersion (no inputs, authorised by an m-of-n arbiter program) get forged program signatures; a case = one (type, variant, mempool|block) submission, non-trivial = it reached the validators. R (c05_replay.go, on the live node of B): two-step program replay — a genuine spend tx1 is verified by the node (mempool, then block), then its programs are presented again byte for byte on tx2 spending another output of the same address(es) and on tx1 with changed signed content, through mempool and block; a case = one re-presentation, all non-trivial. Probes (c05_probe.go): for every user-built type a builder exists for (TransferAsset, Record, RegisterProducer, CRCProposal, CRCProposalWithdraw v1+, ExchangeVotes, ReturnVotes, DposV2ClaimReward) an instance valid in the current state but funded by a third party's UTXO, with no / a foreign / a garbage witness, through mempool and block; these decide any (type, payload version) the enumeration finds newly exempt from the signature step",
		Shards:  func(tier string) int { return c05BaseShards + c05ExemptShards(tier) },
		Run:     runC05,
		Require: append([]string{"A_positional_calls", "A_sorted_calls", "A_impl_accept", "A_impl_reject", "A_honest_accepted", "A_model_accept", "A_model_reject", "A_reject_agree", "kind:standard", "kind:multisig", "kind:schnorr", "kind:crosschain", "kind:deposit-standard", "variant:data-flip", "variant:same-key-multi-slot", "variant:same-sig-repeated", "variant:dup-key-script", "variant:prefix-swap", "variant:nonmember-sig", "B_submissions", "B_honest_accepted", "B_rejected_at_signature_step", "B_mined_spends", "model_ecdsa_cross_checks"}, append(append(c05ReplayRequire, c05xProbeRequire...), c05xRequire...)...),
		Post:    c05xPost,
		Assumptions: []string{"Go standard library crypto/ecdsa, crypto/elliptic, crypto/sha256 and x/crypto/ripemd160 are correct",
			"cross-chain (X) addresses: by the node's documented design (test/unit TestRunProgramsAllowsDynamicCrossChainWitness) the witness script is not bound to the address by hash; the model demands only m-of-n there and the live-node part checks the transaction-type policy instead",
			"a panic inside the validation call is counted and treated as a rejection (panic freedom is property C03)",
			"part X: outputs owned by the protocol address a type is designed to spend (stake pool, DPoS v2 reward accumulate address, CR expenses, CR assets: no key exists for them) need no program; the list is in c05_exempt.go with the code that justifies each entry. Which types can skip the signature step via SpecialContextCheck end=true is read from core/transaction (the run-time enumeration confirms the checkTransactionSignature exemptions and which types refuse inputs, and makes the run inconclusive when they change)",
			"part X: compressed-era regnet schedules of kit/node/eras.go with CR DutyPeriod=400; the cr script additionally sets MinCRAssetsAddressUTXOCount=2 and moves CRCProposalWithdrawPayloadV1Height 13 blocks up so that the legacy v0 withdraw is reachable; CRAssetsRectify's honest instance comes from blockchain.CreateCRAssetsRectifyTransaction called directly (its trigger sleeps on the wall clock); the mempool is emptied of one transaction with TxPool.CleanSubmittedTransactions of a one-transaction block"},
	})
}

// ---------- keys & scripts ----------

type c05Key struct {
	acc *account.Account
	pk  []byte // 33-byte compressed
}

func c05NewKeyFromAccount(a *account.Account) c05Key {
	pk, err := a.PublicKey.EncodePoint(true)
	if err != nil {
		panic(err)
	}
	return c05Key{acc: a, pk: pk}
}

func c05RandKey(r *rand.Rand) c05Key {
	b := make([]byte, 32)
	r.Read(b)
	b[0] &= 0x7f // stay below the group order
	if b[0] == 0 && b[1] == 0 {
		b[1] = 1
	}
	a, err := account.NewAccountWithPrivateKey(b)
	if err != nil {
		panic(err)
	}
	return c05NewKeyFromAccount(a)
}

func c05StdCode(pk []byte, op byte) []byte {
	return append(append([]byte{33}, pk...), op)
}

func c05MultiCode(mByte byte, pks [][]byte, nByte byte, op byte) []byte {
	code := []byte{mByte}
	for _, pk := range pks {
		code = append(code, 33)
		code = append(code, pk...)
	}
	return append(code, nByte, op)
}

func c05Sig(k c05Key, data []byte) []byte {
	s, err := crypto.Sign(k.acc.PrivateKey, data)
	if err != nil {
		panic(err)
	}
	return s
}

func c05Slot(sig []byte) []byte { return append([]byte{byte(len(sig))}, sig...) }

// malleate returns (r, n-s).
func c05Malleate(sig []byte) []byte {
	s := new(big.Int).SetBytes(sig[32:])
	s.Sub(mN, s)
	out := append([]byte{}, sig[:32]...)
	return append(out, m32(s)...)
}

// ---------- one spent address with its witness recipe ----------

type c05Addr struct {
	kind    string // standard | multisig | std-prefix-multisig | deposit-standard | deposit-multisig | schnorr | deposit-schnorr | crosschain
	prefix  byte
	code    []byte
	hash    common.Uint168
	m       int
	keys    []c05Key   // script keys in script order (multisig) / the key (standard)
	privs   []*big.Int // schnorr
	multi   bool
	schnorr bool
}

var c05Kinds = []string{"standard", "standard", "multisig", "multisig", "std-prefix-multisig", "deposit-standard", "deposit-multisig", "schnorr", "schnorr", "deposit-schnorr", "crosschain", "crosschain"}

type c05Gen struct {
	c    *kit.Ctx
	r    *rand.Rand
	pool []c05Key
}

func (g *c05Gen) key() c05Key { return g.pool[g.r.Intn(len(g.pool))] }

func (g *c05Gen) distinctKeys(n int) []c05Key {
	p := g.r.Perm(len(g.pool))
	ks := make([]c05Key, n)
	for i := range ks {
		ks[i] = g.pool[p[i]]
	}
	return ks
}

func (a *c05Addr) setHash() {
	h := mProgramHash(a.prefix, a.code)
	copy(a.hash[:], h[:])
}

func (g *c05Gen) newAddr(kind string) *c05Addr {
	r := g.r
	a := &c05Addr{kind: kind}
	switch kind {
	case "standard", "deposit-standard":
		a.prefix = mPrefixStandard
		if kind == "deposit-standard" {
			a.prefix = mPrefixDeposit
		}
		k := g.key()
		a.keys = []c05Key{k}
		a.code = c05StdCode(k.pk, mOpCheckSig)
		a.m = 1
	case "multisig", "std-prefix-multisig", "deposit-multisig", "crosschain":
		n := 2 + r.Intn(6) // 2..7
		m := 1 + r.Intn(n)
		a.keys = g.distinctKeys(n)
		a.m = m
		a.multi = true
		op := byte(mOpCheckMultiSig)
		switch kind {
		case "multisig":
			a.prefix = mPrefixMultiSig
		case "std-prefix-multisig":
			a.prefix = mPrefixStandard
		case "deposit-multisig":
			a.prefix = mPrefixDeposit
		default:
			a.prefix = mPrefixCrossChain
			op = mOpCrossChain
		}
		var pks [][]byte
		for _, k := range a.keys {
			pks = append(pks, k.pk)
		}
		a.code = c05MultiCode(byte(0x50+m), pks, byte(0x50+n), op)
	case "schnorr", "deposit-schnorr":
		a.prefix = mPrefixStandard
		if kind == "deposit-schnorr" {
			a.prefix = mPrefixDeposit
		}
		n := 1 + r.Intn(4)
		a.keys = g.distinctKeys(n)
		var accs []*account.Account
		for _, k := range a.keys {
			accs = append(accs, k.acc)
		}
		sa := account.NewSchnorrAggregateAccount(accs)
		a.code = sa.RedeemScript
		a.privs = sa.PrivateKeys
		a.schnorr = true
	}
	a.setHash()
	if kind == "crosschain" {
		// the address of a side chain is the hash of a key-less script; any
		// 20 bytes do
		r.Read(a.hash[1:])
	}
	return a
}

// honest witness parameter for data
func (g *c05Gen) honestParam(a *c05Addr, data []byte) []byte {
	switch {
	case a.schnorr:
		sig, err := crypto.AggregateSignatures(a.privs, mSha256d(data))
		if err != nil {
			panic(err)
		}
		return append([]byte{}, sig[:]...)
	case a.multi:
		cnt := a.m
		if g.r.Intn(4) == 0 {
			cnt = a.m + g.r.Intn(len(a.keys)-a.m+1)
		}
		var p []byte
		for _, i := range g.r.Perm(len(a.keys))[:cnt] {
			p = append(p, c05Slot(c05Sig(a.keys[i], data))...)
		}
		return p
	default:
		return c05Slot(c05Sig(a.keys[0], data))
	}
}

var c05Variants = []string{"honest", "honest", "data-flip", "sig-flip", "nonmember-sig", "same-key-multi-slot", "same-sig-repeated", "malleated-dup",
	"dup-key-script", "missing-program", "extra-program", "permuted", "param-truncated", "param-extended", "prefix-swap", "sign-type-byte",
	"m-byte", "len-byte", "key-byte-flip", "few-sigs", "short-code", "script-attr-unwitnessed", "wrong-program-for-address"}

type c05Case struct {
	variant   string
	kinds     []string
	tx        interfaces.Transaction
	refs      map[*common2.Input]common2.Output
	addrs     []*c05Addr // addresses in construction order (refs first, then script attribute)
	progs     []*pg.Program
	data      []byte // bytes the witnesses were made for
	evalData  []byte // bytes handed to the verifier (differs for data-flip)
	honest    bool   // untouched honest construction: must be accepted
	genuine   bool   // at least one genuine signature is present in the witnesses
	addrMut   bool   // the targeted address was rebuilt from a modified script before signing
	recompute bool
}

func c05Serialize(tx interfaces.Transaction) []byte {
	buf := new(bytes.Buffer)
	tx.SerializeUnsigned(buf)
	return buf.Bytes()
}

func c05RandTx(r *rand.Rand, addrs []*c05Addr, viaAttr int) (interfaces.Transaction, map[*common2.Input]common2.Output) {
	var inputs []*common2.Input
	refs := map[*common2.Input]common2.Output{}
	for i, a := range addrs {
		if i == viaAttr {
			continue
		}
		for k := 0; k < 1+r.Intn(2); k++ { // the same address may be referenced twice
			in := &common2.Input{Sequence: r.Uint32()}
			r.Read(in.Previous.TxID[:])
			in.Previous.Index = uint16(r.Intn(8))
			inputs = append(inputs, in)
			refs[in] = common2.Output{AssetID: core.ELAAssetID, Value: common.Fixed64(r.Int63n(1 << 40)), ProgramHash: a.hash}
		}
	}
	var outs []*common2.Output
	for k := 0; k < 1+r.Intn(3); k++ {
		o := &common2.Output{AssetID: core.ELAAssetID, Value: common.Fixed64(r.Int63n(1 << 40)), Type: common2.OTNone, Payload: &outputpayload.DefaultOutput{}}
		o.ProgramHash[0] = mPrefixStandard
		r.Read(o.ProgramHash[1:])
		outs = append(outs, o)
	}
	nonce := make([]byte, r.Intn(24))
	r.Read(nonce)
	attrs := []*common2.Attribute{{Usage: common2.Nonce, Data: nonce}}
	if viaAttr >= 0 {
		attrs = append(attrs, &common2.Attribute{Usage: common2.Script, Data: append([]byte{}, addrs[viaAttr].hash[:]...)})
	}
	ver := common2.TxVersion09
	if r.Intn(3) == 0 {
		ver = common2.TxVersionDefault
	}
	tx := functions.CreateTransaction(ver, common2.TransferAsset, 0, &payload.TransferAsset{}, attrs, inputs, outs, r.Uint32(), []*pg.Program{})
	return tx, refs
}

// build constructs one case.
func (g *c05Gen) build(variant string) *c05Case {
	r := g.r
	cs := &c05Case{variant: variant}
	k := 1 + r.Intn(4)
	if variant == "permuted" && k < 2 {
		k = 2
	}
	t := r.Intn(k) // targeted address / program
	for i := 0; i < k; i++ {
		kind := c05Kinds[r.Intn(len(c05Kinds))]
		if i == t {
			switch variant {
			case "same-key-multi-slot", "same-sig-repeated", "malleated-dup", "dup-key-script", "m-byte", "few-sigs":
				kind = []string{"multisig", "multisig", "std-prefix-multisig", "deposit-multisig", "crosschain"}[r.Intn(5)]
			}
		}
		a := g.newAddr(kind)
		// avoid the same address twice (the node de-duplicates addresses; a
		// duplicate would need one program only — covered by double references)
		dup := false
		for _, b := range cs.addrs {
			if b.hash == a.hash {
				dup = true
			}
		}
		if dup {
			i--
			continue
		}
		cs.addrs = append(cs.addrs, a)
	}
	ta := cs.addrs[t]

	// ---- pre-signing mutations of the targeted address's script ----
	switch variant {
	case "dup-key-script":
		// key 0 appears twice
		if len(ta.keys) >= 2 {
			ta.keys[1] = ta.keys[0]
			if ta.m < 2 {
				ta.m = 2
			}
			var pks [][]byte
			for _, kk := range ta.keys {
				pks = append(pks, kk.pk)
			}
			ta.code = c05MultiCode(byte(0x50+ta.m), pks, byte(0x50+len(ta.keys)), ta.code[len(ta.code)-1])
			if ta.kind != "crosschain" {
				ta.setHash()
			}
			cs.addrMut = true
		}
	case "sign-type-byte":
		if !ta.schnorr {
			ops := []byte{0xAC, 0xAD, 0xAE, 0xAF, 0x00}
			old := ta.code[len(ta.code)-1]
			nw := ops[r.Intn(len(ops))]
			for nw == old {
				nw = ops[r.Intn(len(ops))]
			}
			ta.code = append([]byte{}, ta.code...)
			ta.code[len(ta.code)-1] = nw
			cs.recompute = r.Intn(3) != 0
			if cs.recompute && ta.kind != "crosschain" {
				ta.setHash()
			}
			cs.addrMut = true
		}
	case "m-byte":
		n := len(ta.keys)
		choices := []int{0, -1, n + 1, ta.m - 1, ta.m + 1, 17, 200}
		nm := choices[r.Intn(len(choices))]
		ta.code = append([]byte{}, ta.code...)
		ta.code[0] = byte(0x50 + nm)
		cs.recompute = r.Intn(4) != 0
		if cs.recompute && ta.kind != "crosschain" {
			ta.setHash()
		}
		cs.addrMut = true
	case "key-byte-flip":
		ta.code = append([]byte{}, ta.code...)
		off := 2 + r.Intn(32)
		if ta.multi {
			off = 1 + 34*r.Intn(len(ta.keys)) + 1 + r.Intn(33)
		} else if ta.schnorr {
			off = 2 + r.Intn(33)
		}
		ta.code[off] ^= byte(1 << uint(r.Intn(8)))
		if ta.kind != "crosschain" {
			ta.setHash()
		}
		cs.addrMut = true
	case "short-code":
		ta.code = append([]byte{}, ta.code[:r.Intn(3)]...)
		if r.Intn(2) == 0 {
			ta.code = make([]byte, 23+r.Intn(20))
			r.Read(ta.code)
		}
		cs.recompute = true
		if ta.kind != "crosschain" {
			ta.setHash()
		}
		cs.addrMut = true
	case "prefix-swap":
		prefixes := []byte{mPrefixStandard, mPrefixMultiSig, mPrefixDeposit, mPrefixCrossChain, 0x67, 0x3f, 0x00, byte(r.Intn(256))}
		np := prefixes[r.Intn(len(prefixes))]
		for np == ta.hash[0] {
			np = prefixes[r.Intn(len(prefixes))]
		}
		if ta.kind == "crosschain" {
			ta.setHash() // give it the real code hash, then move it to another prefix
		}
		ta.hash[0] = np
		cs.addrMut = true
	}

	viaAttr := -1
	if variant == "script-attr-unwitnessed" {
		// one more address enters only through a Script attribute
		extra := g.newAddr(c05Kinds[r.Intn(len(c05Kinds))])
		cs.addrs = append(cs.addrs, extra)
		viaAttr = len(cs.addrs) - 1
	} else if len(cs.addrs) >= 2 && r.Intn(6) == 0 {
		viaAttr = r.Intn(len(cs.addrs))
	}
	cs.tx, cs.refs = c05RandTx(r, cs.addrs, viaAttr)
	cs.data = c05Serialize(cs.tx)
	cs.evalData = cs.data
	for _, a := range cs.addrs {
		cs.kinds = append(cs.kinds, a.kind)
	}

	// ---- honest witnesses ----
	for _, a := range cs.addrs {
		cs.progs = append(cs.progs, &pg.Program{Code: a.code, Parameter: g.honestParam(a, cs.data)})
	}
	cs.genuine = true
	tp := cs.progs[t]
	outsider := func() c05Key {
		for {
			kk := g.key()
			in := false
			for _, m := range ta.keys {
				if bytes.Equal(m.pk, kk.pk) {
					in = true
				}
			}
			if !in {
				return kk
			}
		}
	}

	// ---- post-signing mutations ----
	switch variant {
	case "honest":
		cs.honest = true
	case "data-flip":
		d := append([]byte{}, cs.data...)
		d[r.Intn(len(d))] ^= byte(1 << uint(r.Intn(8)))
		cs.evalData = d
	case "sig-flip":
		p := append([]byte{}, tp.Parameter...)
		if len(p) > 0 {
			off := r.Intn(len(p))
			if !ta.schnorr && off%65 == 0 { // not the length marker
				off++
			}
			p[off] ^= byte(1 << uint(r.Intn(8)))
		}
		tp.Parameter = p
	case "nonmember-sig":
		switch {
		case ta.schnorr:
			var ps []*big.Int
			for i := 0; i < len(ta.privs); i++ {
				ps = append(ps, new(big.Int).SetBytes(outsider().acc.PrivateKey))
			}
			sig, _ := crypto.AggregateSignatures(ps, mSha256d(cs.data))
			tp.Parameter = append([]byte{}, sig[:]...)
		case ta.multi:
			// m-1 member signatures + 1 outsider
			var p []byte
			for _, i := range r.Perm(len(ta.keys))[:ta.m-1] {
				p = append(p, c05Slot(c05Sig(ta.keys[i], cs.data))...)
			}
			p = append(p, c05Slot(c05Sig(outsider(), cs.data))...)
			tp.Parameter = p
		default:
			tp.Parameter = c05Slot(c05Sig(outsider(), cs.data))
		}
	case "same-key-multi-slot":
		cnt := ta.m
		if cnt < 2 {
			cnt = 2
		}
		if cnt > len(ta.keys) {
			cnt = len(ta.keys)
		}
		kk := ta.keys[r.Intn(len(ta.keys))]
		var p []byte
		for i := 0; i < cnt; i++ {
			p = append(p, c05Slot(c05Sig(kk, cs.data))...) // fresh randomised signature each time
		}
		tp.Parameter = p
	case "same-sig-repeated":
		cnt := ta.m
		if cnt < 2 {
			cnt = 2
		}
		if cnt > len(ta.keys) {
			cnt = len(ta.keys)
		}
		s := c05Slot(c05Sig(ta.keys[r.Intn(len(ta.keys))], cs.data))
		var p []byte
		for i := 0; i < cnt; i++ {
			p = append(p, s...)
		}
		tp.Parameter = p
	case "malleated-dup":
		// m-1 distinct signers, one of them twice: (r,s) and (r,n-s)
		need := ta.m
		if need < 2 {
			need = 2
		}
		if need > len(ta.keys) {
			need = len(ta.keys)
		}
		idx := r.Perm(len(ta.keys))[:need-1]
		var p []byte
		var first []byte
		for j, i := range idx {
			s := c05Sig(ta.keys[i], cs.data)
			if j == 0 {
				first = s
			}
			p = append(p, c05Slot(s)...)
		}
		p = append(p, c05Slot(c05Malleate(first))...)
		tp.Parameter = p
	case "dup-key-script":
		if cs.addrMut {
			var p []byte
			if r.Intn(2) == 0 {
				// only the duplicated key signs, m times
				for i := 0; i < ta.m && i < len(ta.keys); i++ {
					p = append(p, c05Slot(c05Sig(ta.keys[0], cs.data))...)
				}
			} else {
				// the duplicated key + (m-2) others: still only m-1 distinct
				p = append(p, c05Slot(c05Sig(ta.keys[0], cs.data))...)
				p = append(p, c05Slot(c05Sig(ta.keys[1], cs.data))...)
				for i := 2; i < ta.m; i++ {
					p = append(p, c05Slot(c05Sig(ta.keys[i], cs.data))...)
				}
			}
			tp.Parameter = p
		}
	case "missing-program":
		cs.progs = append(cs.progs[:t], cs.progs[t+1:]...)
		cs.genuine = false
	case "extra-program":
		cs.genuine = false
		if r.Intn(2) == 0 {
			cs.progs = append(cs.progs, &pg.Program{Code: tp.Code, Parameter: tp.Parameter})
		} else {
			x := g.newAddr("standard")
			cs.progs = append(cs.progs, &pg.Program{Code: x.code, Parameter: g.honestParam(x, cs.data)})
		}
	case "permuted":
		sh := r.Perm(len(cs.progs))
		np := make([]*pg.Program, len(cs.progs))
		for i, j := range sh {
			np[i] = cs.progs[j]
		}
		cs.progs = np
	case "param-truncated":
		p := tp.Parameter
		cut := 1 + r.Intn(len(p))
		switch r.Intn(3) {
		case 0:
			p = p[:len(p)-cut]
		case 1:
			p = p[cut:]
		default:
			p = p[:len(p)-1]
		}
		tp.Parameter = append([]byte{}, p...)
		if r.Intn(8) == 0 {
			tp.Parameter = nil
		}
	case "param-extended":
		p := append([]byte{}, tp.Parameter...)
		switch r.Intn(3) {
		case 0:
			p = append(p, byte(r.Intn(256)))
		case 1:
			junk := make([]byte, 64)
			r.Read(junk)
			p = append(p, c05Slot(junk)...)
		default:
			p = append(p, c05Slot(c05Sig(outsider(), cs.data))...)
		}
		tp.Parameter = p
	case "len-byte":
		p := append([]byte{}, tp.Parameter...)
		if !ta.schnorr && len(p) > 0 {
			p[65*r.Intn(len(p)/65)] = byte(r.Intn(256))
		}
		tp.Parameter = p
	case "few-sigs":
		var p []byte
		for _, i := range r.Perm(len(ta.keys))[:ta.m-1] {
			p = append(p, c05Slot(c05Sig(ta.keys[i], cs.data))...)
		}
		if r.Intn(2) == 0 {
			junk := make([]byte, 64)
			r.Read(junk)
			p = append(p, c05Slot(junk)...)
		}
		tp.Parameter = p
	case "wrong-program-for-address":
		// a perfectly signed program of somebody else stands in for the target
		x := g.newAddr(c05Kinds[r.Intn(len(c05Kinds)-2)])
		cs.progs[t] = &pg.Program{Code: x.code, Parameter: g.honestParam(x, cs.data)}
	case "script-attr-unwitnessed":
		cs.progs = cs.progs[:len(cs.progs)-1]
		cs.genuine = false
	}
	return cs
}

// c05Exact gives code and parameter exactly the capacity of their length, as
// slices deserialised from the wire have (the node re-slices Parameter[:64]).
func c05Exact(ps []*pg.Program) {
	for _, p := range ps {
		if p.Code != nil {
			b := make([]byte, len(p.Code))
			copy(b, p.Code)
			p.Code = b
		}
		if p.Parameter != nil {
			b := make([]byte, len(p.Parameter))
			copy(b, p.Parameter)
			p.Parameter = b
		}
	}
}

func c05ToModel(addrs []*c05Addr, progs []*pg.Program) ([][21]byte, []mProg) {
	var as [][21]byte
	for _, a := range addrs {
		as = append(as, [21]byte(a.hash))
	}
	var ps []mProg
	for _, p := range progs {
		ps = append(ps, mProg{Code: p.Code, Param: p.Parameter})
	}
	return as, ps
}

func c05Hex(b []byte) string {
	if len(b) > 200 {
		return kit.Hex(b[:200]) + "..."
	}
	return kit.Hex(b)
}

func (cs *c05Case) describe() map[string]interface{} {
	var ps []map[string]string
	for _, p := range cs.progs {
		ps = append(ps, map[string]string{"code": c05Hex(p.Code), "parameter": c05Hex(p.Parameter)})
	}
	var as []string
	for _, a := range cs.addrs {
		as = append(as, a.hash.String())
	}
	return map[string]interface{}{"variant": cs.variant, "address_kinds": cs.kinds, "addresses": as, "programs": ps, "data": c05Hex(cs.evalData)}
}

func runC05(c *kit.Ctx) {
	if c.Shard >= c05BaseShards {
		// part X: signature-exempt transaction types on live era nodes (c05_exempt.go)
		if dn, err := os.OpenFile(os.DevNull, os.O_WRONLY, 0); err == nil {
			os.Stdout = dn
		}
		runC05Exempt(c)
		return
	}
	// the wallet / crypto packages print to stdout on some paths
	if dn, err := os.OpenFile(os.DevNull, os.O_WRONLY, 0); err == nil {
		os.Stdout = dn
	}
	node.InitGlobals(c.WorkDir)
	g := &c05Gen{c: c, r: c.Rand("c05")}
	for i := 0; i < 40; i++ {
		g.pool = append(g.pool, c05RandKey(g.r))
	}

	// ---- model self-check: the stdlib verifier agrees with signatures made by stdlib-independent means ----
	for i := 0; i < 50; i++ {
		k := g.key()
		d := make([]byte, 1+g.r.Intn(100))
		g.r.Read(d)
		s := c05Sig(k, d)
		if !mECDSA(k.pk, d, s) {
			c.Inconclusive("model ECDSA rejects a signature produced by crypto.Sign (encoding assumption wrong)")
			return
		}
		d[0] ^= 1
		if mECDSA(k.pk, d, s) {
			c.Inconclusive("model ECDSA accepts a signature over different data")
			return
		}
		c.Inc("model_ecdsa_cross_checks")
	}

	// ---------- A ----------
	t0 := time.Now() // gauges only, never part of a verdict
	nA := c.N(1000, 20000)
	sampled := 0
	for i := 0; i < nA; i++ {
		variant := c05Variants[i%len(c05Variants)]
		cs := g.build(variant)
		c.Inc("variant:" + variant)
		for _, kd := range cs.kinds {
			switch kd {
			case "deposit-schnorr":
				c.Inc("kind:schnorr")
			case "std-prefix-multisig", "deposit-multisig":
				c.Inc("kind:multisig")
			}
			c.Inc("kind:" + kd)
		}
		c.Begin("A case %d variant=%s kinds=%v", i, variant, cs.kinds)
		c.Case(fmt.Sprintf("A:%s:%v:%x", variant, cs.kinds, cs.evalData), cs.genuine)

		c05Exact(cs.progs)
		// -- positional: RunPrograms --
		// addresses handed over = construction order, one per program slot
		mas, mps := c05ToModel(cs.addrs, cs.progs)
		var hashes []common.Uint168
		for _, a := range cs.addrs {
			hashes = append(hashes, a.hash)
		}
		var err error
		progsCopy := make([]*pg.Program, len(cs.progs))
		copy(progsCopy, cs.progs)
		panicked, pv, _ := kit.Guard(func() { err = blockchain.RunPrograms(cs.evalData, hashes, progsCopy) })
		c.Inc("A_positional_calls")
		implOK := !panicked && err == nil
		if panicked {
			c.Inc("A_impl_panics")
			c.Inc("A_impl_panic:" + variant)
			if c.Shard == 0 {
				c.Note("A: RunPrograms panicked (treated as rejection; see C03): variant=%s kinds=%v: %v", variant, cs.kinds, pv)
			}
		}
		modelOK, verdicts := mPositional(mas, mps, cs.evalData)
		c05Compare(c, "RunPrograms", cs, implOK, modelOK, func() string {
			for i, v := range verdicts {
				if !v.OK {
					return mAddrKind(mas[i][0]) + "/" + v.Kind
				}
			}
			return "count-mismatch"
		}, err)
		// by-design observations (not violations)
		for i, v := range verdicts {
			if implOK && v.Kind == "crosschain-multisig" && v.M <= 0 {
				c.Inc("note_crosschain_nonpositive_m_accepted_unsigned")
			}
			_ = i
		}

		// -- sorted: the context check's signature step --
		tx2 := cs.tx
		tx2.SetPrograms(append([]*pg.Program{}, cs.progs...))
		if cs.variant == "data-flip" {
			// make the transaction itself differ from what was signed
			tx2.SetLockTime(tx2.LockTime() + 1 + uint32(g.r.Intn(1000)))
		}
		data2 := c05Serialize(tx2)
		var err2 error
		p2, pv2, _ := kit.Guard(func() { err2 = transaction.VerifCheckTransactionSignature(tx2, cs.refs) })
		c.Inc("A_sorted_calls")
		impl2 := !p2 && err2 == nil
		if p2 {
			c.Inc("A_impl_panics")
			if c.Shard == 0 {
				c.Note("A: checkTransactionSignature panicked (treated as rejection; see C03): variant=%s kinds=%v: %v", variant, cs.kinds, pv2)
			}
		}
		_, mps2 := c05ToModel(cs.addrs, tx2.Programs())
		model2, failing := mMatching(mas, mps2, data2)
		cs2 := *cs
		cs2.evalData = data2
		cs2.progs = tx2.Programs()
		c05Compare(c, "checkTransactionSignature", &cs2, impl2, model2, func() string { return failing }, err2)

		if sampled < 3 && (i%7 == 0) {
			sampled++
			c.Sample(map[string]interface{}{"part": "A", "variant": variant, "kinds": cs.kinds, "runprograms_accept": implOK, "model_positional_accept": modelOK,
				"sigstep_accept": impl2, "model_matching_accept": model2})
		}
	}

	c.Max("max:A_wall_ms", time.Since(t0).Milliseconds())
	t1 := time.Now()
	runC05Live(c, g)
	c.Max("max:B_wall_ms", time.Since(t1).Milliseconds())
}

// c05Compare applies the two-directional comparison and bookkeeping.
func c05Compare(c *kit.Ctx, where string, cs *c05Case, implOK, modelOK bool, failing func() string, err error) {
	if implOK {
		c.Inc("A_impl_accept")
	} else {
		c.Inc("A_impl_reject")
	}
	if modelOK {
		c.Inc("A_model_accept")
	} else {
		c.Inc("A_model_reject")
	}
	switch {
	case implOK && !modelOK:
		c.Violate("accept-without-valid-signatures:"+failing(),
			fmt.Sprintf("%s accepted (variant %s, kinds %v) although the model finds no valid witness for: %s", where, cs.variant, cs.kinds, failing()), cs.describe())
	case !implOK && modelOK:
		c.Inc("A_model_accept_impl_reject")
		c.Inc("A_model_accept_impl_reject:" + cs.variant)
		if cs.honest {
			onlyStd := true
			hasX := false
			for _, k := range cs.kinds {
				if k != "standard" {
					onlyStd = false
				}
				if k == "crosschain" {
					hasX = true
				}
			}
			if onlyStd {
				c.Violate("honest-standard-rejected", fmt.Sprintf("%s rejected an honestly signed standard spend: %v", where, err), cs.describe())
			} else if hasX && where == "checkTransactionSignature" && len(cs.kinds) > 1 {
				// sorting addresses by their own hash and programs by code hash cannot align an unbound cross-chain witness
				c.Inc("note_sorted_path_crosschain_misaligned")
			} else {
				c.Inc("note_honest_nonstandard_rejected")
				c.Note("%s rejected an honest witness set kinds=%v: %v", where, cs.kinds, err)
			}
		}
	case implOK && modelOK:
		if cs.honest {
			c.Inc("A_honest_accepted")
		} else {
			c.Inc("A_adversarial_but_valid_accepted")
			c.Inc("A_adversarial_but_valid_accepted:" + cs.variant)
		}
	default:
		c.Inc("A_reject_agree")
	}
}

// ---------- B: live node ----------

type c05Utxo struct {
	ref  node.UTXORef
	addr *c05Addr
	used bool
}

func runC05Live(c *kit.Ctx, g *c05Gen) {
	r := c.Rand("c05-live")
	policyOn := c.Shard%2 == 1
	nd, err := node.Start(node.Options{Dir: c.WorkDir, CoinbaseMaturity: 2, Tweak: func(cfg *config.Configuration) {
		cfg.NormalSchnorrStartHeight = 0
		if policyOn { // mainnet-like: the CrossChain-UTXO restriction is active from genesis
			cfg.CrossChainUTXOFreezeHeight = 0
			cfg.CrossChainUTXORestrictionHeight = 0
		}
	}})
	if err != nil {
		c.Inconclusive("node start: %v", err)
		return
	}
	defer nd.Close()
	if err := nd.MineN(int(nd.Cfg.PowConfiguration.CoinbaseMaturity) + 1); err != nil {
		c.Inconclusive("mining: %v", err)
		return
	}
	// live keys: the kit's deterministic accounts
	g.pool = nil
	for i := 2; i < 30; i++ {
		g.pool = append(g.pool, c05NewKeyFromAccount(node.Key(i)))
	}
	// addresses to fund: a few of every spendable kind + special ones
	var addrs []*c05Addr
	for _, kind := range []string{"standard", "standard", "standard", "multisig", "multisig", "multisig", "std-prefix-multisig", "schnorr", "schnorr", "crosschain", "crosschain"} {
		addrs = append(addrs, g.newAddr(kind))
	}
	// unrecognised code under the standard prefix: <pubkey> followed by a non-CHECKSIG opcode
	uk := g.key()
	un := &c05Addr{kind: "unrecognised-code", prefix: mPrefixStandard, code: c05StdCode(uk.pk, 0xAD), keys: []c05Key{uk}, m: 1}
	un.setHash()
	addrs = append(addrs, un)
	// multisig script with a duplicated key, 2-of-3 [A, A, B]
	dk := g.distinctKeys(2)
	du := &c05Addr{kind: "multisig-dupkey", prefix: mPrefixMultiSig, keys: []c05Key{dk[0], dk[0], dk[1]}, m: 2, multi: true}
	du.code = c05MultiCode(0x52, [][]byte{dk[0].pk, dk[0].pk, dk[1].pk}, 0x53, mOpCheckMultiSig)
	du.setHash()
	addrs = append(addrs, du)

	gen := nd.GenesisUTXO()
	per := common.Fixed64(10 * 1e8)
	perAddr := c.N(14, 40)
	var outs []node.Out
	for _, a := range addrs {
		for k := 0; k < perAddr; k++ {
			outs = append(outs, node.Out{To: a.hash, Value: per})
		}
	}
	// part R (c05_replay.go): outputs of their own, after the change output, so that part B's indices stay as they were
	repPer := c.N(6, 16)
	nRep := 0
	for _, a := range addrs {
		if c05ReplayEligible(a) {
			nRep += repPer
		}
	}
	changeIdx := len(outs)
	outs = append(outs, node.Out{To: nd.Found.ProgramHash, Value: gen.Value - per*common.Fixed64(len(outs)+nRep) - 10000})
	for _, a := range addrs {
		if c05ReplayEligible(a) {
			for k := 0; k < repPer; k++ {
				outs = append(outs, node.Out{To: a.hash, Value: per})
			}
		}
	}
	fund := node.Transfer([]node.UTXORef{gen}, outs, common2.TxVersion09)
	if err := nd.TxPool.AppendToTxPool(fund); err != nil {
		c.Inconclusive("funding tx rejected: %v", err)
		return
	}
	if _, err := nd.MineTip(fund); err != nil {
		c.Inconclusive("funding block rejected: %v", err)
		return
	}
	nd.MineN(2)
	var utxos []*c05Utxo
	for i, a := range addrs {
		for k := 0; k < perAddr; k++ {
			utxos = append(utxos, &c05Utxo{ref: node.UTXORef{TxID: fund.Hash(), Index: uint16(i*perAddr + k), Value: per}, addr: a})
		}
	}
	rep := map[*c05Addr][]*c05Utxo{}
	{
		idx := changeIdx + 1
		for _, a := range addrs {
			if c05ReplayEligible(a) {
				for k := 0; k < repPer; k++ {
					rep[a] = append(rep[a], &c05Utxo{ref: node.UTXORef{TxID: fund.Hash(), Index: uint16(idx), Value: per}, addr: a})
					idx++
				}
			}
		}
	}
	take := func(a *c05Addr) *c05Utxo {
		for _, u := range utxos {
			if u.addr == a && !u.used {
				return u
			}
		}
		return nil
	}

	liveVariants := []string{"honest", "honest", "data-flip", "sig-flip", "nonmember-sig", "same-key-multi-slot", "same-sig-repeated", "malleated-dup",
		"missing-program", "extra-program", "param-truncated", "param-extended", "few-sigs", "wrong-program-for-address", "unsigned"}
	nB := c.N(75, 600)
	dest := node.Key(2).ProgramHash
	sampled := 0
	for i := 0; i < nB; i++ {
		variant := liveVariants[i%len(liveVariants)]
		// 1..3 distinct funded addresses
		k := 1 + r.Intn(3)
		var chosen []*c05Addr
		var ins []*c05Utxo
		for _, j := range r.Perm(len(addrs)) {
			if len(chosen) == k {
				break
			}
			if u := take(addrs[j]); u != nil {
				chosen = append(chosen, addrs[j])
				ins = append(ins, u)
			}
		}
		if len(chosen) == 0 {
			break
		}
		t := r.Intn(len(chosen))
		ta := chosen[t]
		if ta.schnorr || !ta.multi {
			switch variant {
			case "same-key-multi-slot", "same-sig-repeated", "malleated-dup", "few-sigs":
				variant = "nonmember-sig"
			}
		}
		var inputs []*common2.Input
		var total common.Fixed64
		for _, u := range ins {
			inputs = append(inputs, &common2.Input{Previous: common2.OutPoint{TxID: u.ref.TxID, Index: u.ref.Index}})
			total += u.ref.Value
		}
		outputs := []*common2.Output{{AssetID: core.ELAAssetID, Value: total - 1000 - common.Fixed64(r.Intn(1000)), ProgramHash: dest, Type: common2.OTNone, Payload: &outputpayload.DefaultOutput{}}}
		nonce := make([]byte, 8)
		r.Read(nonce)
		tx := functions.CreateTransaction(common2.TxVersion09, common2.TransferAsset, 0, &payload.TransferAsset{},
			[]*common2.Attribute{{Usage: common2.Nonce, Data: nonce}}, inputs, outputs, 0, []*pg.Program{})
		data := c05Serialize(tx)
		var progs []*pg.Program
		for _, a := range chosen {
			p := &pg.Program{Code: a.code}
			switch a.kind {
			case "unrecognised-code":
				p.Parameter = []byte{0} // nothing signed at all
			case "multisig-dupkey":
				// key A signs twice, or A and B sign
				second := a.keys[0]
				if r.Intn(2) == 0 {
					second = a.keys[2]
				}
				p.Parameter = append(c05Slot(c05Sig(a.keys[0], data)), c05Slot(c05Sig(second, data))...)
			case "crosschain":
				// witness = a fresh multisig of keys that have nothing to do with the address
				p.Parameter = g.honestParam(a, data)
			default:
				p.Parameter = g.honestParam(a, data)
			}
			progs = append(progs, p)
		}
		tp := progs[t]
		outsider := func() c05Key {
			for {
				kk := g.key()
				in := false
				for _, m := range ta.keys {
					if bytes.Equal(m.pk, kk.pk) {
						in = true
					}
				}
				if !in {
					return kk
				}
			}
		}
		switch variant {
		case "data-flip":
			outputs[0].Value -= 1 // signed bytes no longer match
		case "sig-flip":
			p := append([]byte{}, tp.Parameter...)
			off := r.Intn(len(p))
			if !ta.schnorr && off%65 == 0 {
				off++
			}
			if off < len(p) {
				p[off] ^= 0x10
			}
			tp.Parameter = p
		case "nonmember-sig":
			switch {
			case ta.schnorr:
				var ps []*big.Int
				for range ta.privs {
					ps = append(ps, new(big.Int).SetBytes(outsider().acc.PrivateKey))
				}
				sig, _ := crypto.AggregateSignatures(ps, mSha256d(data))
				tp.Parameter = append([]byte{}, sig[:]...)
			case ta.multi:
				var p []byte
				for _, j := range r.Perm(len(ta.keys))[:ta.m-1] {
					p = append(p, c05Slot(c05Sig(ta.keys[j], data))...)
				}
				tp.Parameter = append(p, c05Slot(c05Sig(outsider(), data))...)
			default:
				tp.Parameter = c05Slot(c05Sig(outsider(), data))
			}
		case "same-key-multi-slot", "same-sig-repeated":
			cnt := ta.m
			if cnt < 2 {
				cnt = 2
			}
			kk := ta.keys[r.Intn(len(ta.keys))]
			s := c05Slot(c05Sig(kk, data))
			var p []byte
			for j := 0; j < cnt; j++ {
				if variant == "same-key-multi-slot" {
					s = c05Slot(c05Sig(kk, data))
				}
				p = append(p, s...)
			}
			tp.Parameter = p
		case "malleated-dup":
			need := ta.m
			if need < 2 {
				need = 2
			}
			var p, first []byte
			for j, ki := range r.Perm(len(ta.keys))[:need-1] {
				s := c05Sig(ta.keys[ki], data)
				if j == 0 {
					first = s
				}
				p = append(p, c05Slot(s)...)
			}
			tp.Parameter = append(p, c05Slot(c05Malleate(first))...)
		case "few-sigs":
			var p []byte
			for _, j := range r.Perm(len(ta.keys))[:ta.m-1] {
				p = append(p, c05Slot(c05Sig(ta.keys[j], data))...)
			}
			junk := make([]byte, 64)
			r.Read(junk)
			tp.Parameter = append(p, c05Slot(junk)...)
		case "missing-program":
			if len(progs) > 1 {
				progs = append(progs[:t], progs[t+1:]...)
			} else {
				progs[0] = &pg.Program{Code: ta.code, Parameter: []byte{}}
			}
		case "extra-program":
			x := g.newAddr("standard")
			progs = append(progs, &pg.Program{Code: x.code, Parameter: c05Slot(c05Sig(x.keys[0], data))})
		case "param-truncated":
			cut := 1 + r.Intn(3)
			if cut > len(tp.Parameter) {
				cut = len(tp.Parameter)
			}
			tp.Parameter = append([]byte{}, tp.Parameter[:len(tp.Parameter)-cut]...)
		case "param-extended":
			tp.Parameter = append(append([]byte{}, tp.Parameter...), byte(r.Intn(256)))
		case "wrong-program-for-address":
			x := g.newAddr("standard")
			progs[t] = &pg.Program{Code: x.code, Parameter: c05Slot(c05Sig(x.keys[0], data))}
		case "unsigned":
			junk := make([]byte, len(tp.Parameter))
			r.Read(junk)
			if !ta.schnorr {
				for j := 0; j < len(junk); j += 65 {
					junk[j] = 0x40
				}
			}
			tp.Parameter = junk
		}
		c05Exact(progs)
		tx.SetPrograms(progs)
		evalData := c05Serialize(tx)
		var kinds []string
		var mas [][21]byte
		special := ""
		hasX := false
		for _, a := range chosen {
			hasX = hasX || a.kind == "crosschain"
			kinds = append(kinds, a.kind)
			mas = append(mas, [21]byte(a.hash))
			switch a.kind {
			case "crosschain", "unrecognised-code", "multisig-dupkey":
				special = a.kind
			}
		}
		honestAny := variant == "honest" && special == ""
		var mps []mProg
		for _, p := range progs {
			mps = append(mps, mProg{Code: p.Code, Param: p.Parameter})
		}
		// the literal property on a live node: EVERY spent address needs a program whose code hashes to it
		modelOK, failing := c05LiveModel(mas, mps, evalData)
		c.Begin("B case %d variant=%s kinds=%v", i, variant, kinds)
		c.Case(fmt.Sprintf("B:%s:%v:%x", variant, kinds, evalData), true)
		c.Inc("B_submissions")
		c.Inc("B_variant:" + variant)
		var aerr elaerr.ELAError
		panicked, pv, _ := kit.Guard(func() { aerr = nd.TxPool.AppendToTxPool(tx) })
		if panicked {
			c.Inc("B_impl_panics")
			c.Note("B: AppendToTxPool panicked (treated as rejection; see C03): variant=%s kinds=%v: %v", variant, kinds, pv)
		}
		accepted := !panicked && aerr == nil
		if !accepted && aerr != nil && aerr.Code() == elaerr.ErrTxSignature {
			c.Inc("B_rejected_at_signature_step")
		}
		if sampled < 4 && c.Shard < 2 {
			sampled++
			c.Sample(map[string]interface{}{"part": "B", "variant": variant, "kinds": kinds, "crosschain_policy_active": policyOn, "mempool_accept": accepted, "model_accept": modelOK,
				"error": fmt.Sprint(aerr)})
		}
		if accepted {
			c.Inc("B_accepted")
			if _, err := nd.MineTip(tx); err != nil {
				c.Note("B: pool-accepted tx rejected in a block (%s %v): %v", variant, kinds, err)
				nd.TxPool.RemoveTransaction(tx)
			} else {
				c.Inc("B_mined_spends")
				for _, u := range ins {
					u.used = true
				}
			}
		}
		switch {
		case accepted && !modelOK:
			sig := "accept-without-valid-signatures:" + failing
			if failing == "crosschain-prefix/hash-mismatch" {
				if policyOn {
					sig = "crosschain-utxo-spent-by-unrelated-keys:policy-active"
				} else {
					c.Inc("B_crosschain_spent_by_unrelated_keys_policy_off")
					if !c05CrossChainPolicyOffIsViolation {
						c.Note("B: cross-chain UTXO spent by a TransferAsset with an unrelated witness script (restriction heights disabled)")
						continue
					}
					sig = "crosschain-utxo-spent-by-unrelated-keys:policy-heights-disabled"
				}
			}
			c.Inc("B_unsigned_accepts")
			c.Violate(sig, fmt.Sprintf("mempool+block accepted a TransferAsset (variant %s, spent address kinds %v, cross-chain policy active=%v) although no valid witness exists for: %s",
				variant, kinds, policyOn, failing), map[string]interface{}{"variant": variant, "kinds": kinds, "policy_active": policyOn, "tx_unsigned": c05Hex(evalData)})
		case !accepted && modelOK:
			c.Inc("B_model_accept_impl_reject")
			if honestAny {
				onlyStd := true
				for _, kd := range kinds {
					if kd != "standard" {
						onlyStd = false
					}
				}
				if onlyStd {
					c.Violate("honest-standard-rejected", fmt.Sprintf("live node rejected an honestly signed standard spend: %v", aerr), nil)
				} else {
					c.Inc("note_honest_nonstandard_rejected")
					c.Note("B: live node rejected an honest spend kinds=%v: %v", kinds, aerr)
				}
			}
		case accepted && modelOK:
			if honestAny {
				c.Inc("B_honest_accepted")
			}
			for _, kd := range kinds {
				c.Inc("B_accepted_kind:" + kd)
			}
		default:
			c.Inc("B_reject_agree")
			if hasX && policyOn {
				c.Inc("B_crosschain_policy_rejects")
			}
		}
	}
	// part R: witnesses the node has already verified, presented again on other content
	c05ProgramReplay(c, nd, g, addrs, rep, dest)
	// conservation sanity of what the node built (guards against a harness that mined nonsense)
	l := nd.Replay()
	for _, is := range l.Issues {
		c.Note("B: ledger replay issue %s at height %d: %s", is.Kind, is.Height, is.Detail)
	}
}

// c05LiveModel is the literal property: every distinct spent address has a
// program whose code hashes to it and whose signatures verify (bijection).
// Unlike mPair it makes no exception for cross-chain addresses.
func c05LiveModel(addrs [][21]byte, progs []mProg, data []byte) (bool, string) {
	for _, a := range addrs {
		if a[0] == mPrefixCrossChain {
			bound := false
			for _, p := range progs {
				h := mHash160(p.Code)
				if bytes.Equal(h[:], a[1:]) {
					bound = true
				}
			}
			if !bound {
				return false, "crosschain-prefix/hash-mismatch"
			}
		}
	}
	return mMatching(addrs, progs, data)
}

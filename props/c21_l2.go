package props

import (
	"fmt"
	"strings"

	"github.com/elastos/Elastos.ELA/common"

	"verif/kit"
)

// C21 level 2: the full-node twin workload (see l2_node.go / l2_scenario.go).
//
// Oracles (all on decoded state.CheckPoint snapshots + the getters named by the
// property, compared with c21Compare):
//
//	control     builder (linear, process 1) == twin B (linear, process 2) at EVERY height;
//	            a difference makes the scenario inconclusive (harness or node nondeterminism);
//	rollback    inside every reorganisation of node A, right after CkpManager.OnRollbackTo(k):
//	            state == the state A itself had when block k was its tip ("l2:rollback-diff:<class>"),
//	            and at the fork point also == twin B's state at that height;
//	rollforward after the reorganisation, at every canonical height:
//	            A's state == twin B's state ("l2:rollforward-diff:<class>", only for classes that
//	            did not already diverge at the rollback step of the same scenario).

// L2Debug (env VERIF_L2_DEBUG=1) prints per-scenario progress to stdout.
func c21NodeLevel(c *kit.Ctx) {
	r := c.Rand("c21-l2")
	n := c.N(2, 12)
	for i := 0; i < n; i++ {
		seed := r.Int63()
		sp := l2Spec{Era: []string{"dposv2-era", "dpos-era"}[(c.Shard+i)%2], Seed: seed, SnapDPoS: true, Evidence: (c.Shard+i)%3 != 0}
		sp.From = l2FromFor(sp.Era, c.Shard/2+i*4)
		if i == 0 && c.Shard%8 == 7 {
			// checkpoint save boundary: 726+ blocks with NeedSave, one reorganisation across height 720
			sp = l2Spec{Era: "dpos-era", Seed: seed, SnapDPoS: true, Long: 724 + uint32(r.Intn(4)), NeedSave: true, DutyPeriod: 5000}
			c.Inc("l2_save_boundary_scenarios")
		}
		c.Begin("l2 scenario shard=%d idx=%d era=%s seed=%d long=%d", c.Shard, i, sp.Era, seed, sp.Long)
		o, err := l2RunScenario(c, fmt.Sprintf("c21-%d", i), sp)
		c21L2Account(c, o, err)
		if err == nil {
			c21L2Compare(c, o)
		}
		o.cleanup()
	}
}

// c21L2Account merges counters and classifies scenario-level failures.
func c21L2Account(c *kit.Ctx, o *l2Outcome, err error) {
	c.Inc("l2_scenarios")
	l2MergeCounters(c, "", o.Build)
	if o.A != nil {
		for k, v := range o.A.Counters {
			if !strings.HasPrefix(k, "l2_") {
				k = "l2_" + k // node A's own counters (reorgs_done, losing_blocks_mined, ...) next to level 1's
			}
			c.Count(k, v)
		}
	}
	if o.B != nil {
		c.Count("l2_twinB_blocks_connected", o.B.Counters["replay_blocks_connected"])
	}
	if err != nil {
		c.Inc("l2_scenarios_failed")
		c.Note("l2 scenario era=%s seed=%d long=%d failed: %v", o.Spec.Era, o.Spec.Seed, o.Spec.Long, err)
		return
	}
	if o.A != nil && !o.A.Done {
		c.Inc("l2_scenarios_nodeA_stopped")
		l2ReportStop(c, o)
	}
	c.Inc("l2_scenarios_ok")
	c.Inc("l2_scenarios_" + o.Spec.Era)
	if o.Build.V2Active != 0 {
		c.Inc("l2_scenarios_dposv2_active")
	}
	c.Max("max:l2_canonical_height", int64(o.Build.Height))
}

// l2Cmp selects which part of the observation stream is compared and how.
type l2Cmp struct {
	name   string // counter prefix: "l2" (DPoS) / "l2cr" (CR committee)
	decode func(s *l2Snap) (interface{}, error)
	diff   func(a, b interface{}) []c21Diff
}

var l2CmpDPoS = l2Cmp{name: "l2",
	decode: func(s *l2Snap) (interface{}, error) { return l2DecodeDPoS(s) },
	diff:   func(a, b interface{}) []c21Diff { return l2CompareDPoS(a.(*c21Snap), b.(*c21Snap)) }}

func c21L2Compare(c *kit.Ctx, o *l2Outcome) { l2CompareNode(c, o, l2CmpDPoS) }

func l2CompareNode(c *kit.Ctx, o *l2Outcome, cmp l2Cmp) {
	sp := o.Spec
	// ---- control: two linear processes agree at every height ----
	bIdx := l2LinearIndex(o.SB)
	dec := map[*l2Snap]interface{}{}
	get := func(s *l2Snap) interface{} {
		if d, ok := dec[s]; ok {
			return d
		}
		d, err := cmp.decode(s)
		if err != nil {
			c.Inconclusive("l2: %v", err)
			return nil
		}
		dec[s] = d
		return d
	}
	controlOK := true
	for _, s := range o.SBuild {
		if s.Event != 'S' {
			continue
		}
		t := bIdx[s.Height]
		if t == nil || !t.Hash.IsEqual(s.Hash) {
			c.Inconclusive("l2 control: twin B has no snapshot of block %d", s.Height)
			return
		}
		x, y := get(s), get(t)
		if x == nil || y == nil {
			return
		}
		c.Inc(cmp.name + "_control_compares")
		if ds := cmp.diff(x, y); len(ds) != 0 {
			names, first := classesOf(ds)
			controlOK = false
			c.Inc(cmp.name + "_control_diffs")
			c.Inconclusive("l2 control: two LINEAR nodes (builder, twin B) differ at height %d in %v, e.g. %s: %s | %s (era=%s seed=%d)", s.Height, names, first[names[0]].Path, first[names[0]].A, first[names[0]].B, sp.Era, sp.Seed)
			break
		}
		c.Inc(cmp.name + "_control_equal")
		delete(dec, s)
	}
	if !controlOK || o.A == nil {
		return
	}
	// ---- node A ----
	own := map[uint32]*l2Snap{}
	rolled := false
	seenRB := map[string]bool{} // classes already diverged at a rollback step in this scenario
	seenRF := map[string]bool{}
	reorgOf := func(h uint32) *l2ReorgDone { // the reorganisation whose detach/attach range covers h
		var best *l2ReorgDone
		for i := range o.A.Reorgs {
			d := &o.A.Reorgs[i]
			if d.Mined > 0 && d.At <= h {
				best = d
			}
		}
		return best
	}
	for _, s := range o.SA {
		switch s.Event {
		case 'S':
			own[s.Height] = s
			t := bIdx[s.Height]
			if t == nil || !t.Hash.IsEqual(s.Hash) {
				continue // a block of A's own branch
			}
			x, y := get(s), get(t)
			if x == nil || y == nil {
				return
			}
			kind := cmp.name + "_prefix"
			if rolled {
				kind = cmp.name + "_rollforward"
			}
			c.Inc(kind + "_compares")
			ds := cmp.diff(x, y)
			if len(ds) == 0 {
				c.Inc(kind + "_equal")
				continue
			}
			c.Inc(kind + "_diffs")
			if !rolled {
				c.Inconclusive("l2: node A differs from twin B at height %d BEFORE its first reorganisation (era=%s seed=%d)", s.Height, sp.Era, sp.Seed)
				return
			}
			c21L2Report(c, o, "l2:rollforward-diff:", ds, s.Height, reorgOf(s.Height), seenRF, seenRB, "after the reorganisation, at canonical height")
		case 'R':
			rolled = true
			prev := own[s.Height]
			if prev == nil {
				c.Inc(cmp.name + "_rollback_without_own_snapshot")
				continue
			}
			x, y := get(s), get(prev)
			if x == nil || y == nil {
				return
			}
			rd := reorgOf(s.Height)
			nontriv := rd != nil && strings.Contains(strings.Join(rd.Ops, " "), "[")
			if rd != nil {
				nontriv = false
				for _, l := range rd.Ops {
					if !strings.HasSuffix(l, ":[]") {
						nontriv = true
					}
				}
				nontriv = nontriv || len(rd.Offline) > 0
			}
			c.Case(fmt.Sprintf("l2/%d/%d/%d", sp.Seed, s.Seq, s.Height), nontriv)
			c.Inc(cmp.name + "_rollback_compares")
			ds := cmp.diff(x, y)
			if t := bIdx[s.Height]; t != nil && t.Hash.IsEqual(s.Hash) {
				c.Inc(cmp.name + "_rollback_compares_at_fork_point_vs_twin")
				if z := get(t); z != nil {
					if d2 := cmp.diff(x, z); len(d2) != 0 && len(ds) == 0 {
						c.Inc(cmp.name + "_fork_point_differs_from_twin_only")
						ds = d2
					}
				}
			}
			if len(ds) == 0 {
				c.Inc(cmp.name + "_rollback_equal")
				continue
			}
			c.Inc(cmp.name + "_rollback_diffs")
			c21L2Report(c, o, "l2:rollback-diff:", ds, s.Height, rd, seenRB, nil, "right after CkpManager.OnRollbackTo")
		}
	}
	if o.A.Done && o.A.Tip != o.B.Tip {
		c.Inconclusive("l2: node A and twin B ended on different tips (era=%s seed=%d)", sp.Era, sp.Seed)
	}
}

// l2ClassGroup folds derived classes: a difference in the membership / order of
// any arbiter or candidate list is one class, and so is the per-round reward
// bookkeeping that is recomputed from those lists.
func l2ClassGroup(cl string) string {
	switch cl {
	case "CheckPoint.LastArbitrators", "CheckPoint.CurrentArbitrators", "CheckPoint.NextArbitrators", "CheckPoint.NextCandidates", "CheckPoint.CurrentCandidates",
		"CheckPoint.NextCRCArbiters", "CheckPoint.NextCRCArbitersMap", "CheckPoint.CurrentCRCArbitersMap", "CheckPoint.CurrentOnDutyCRCArbitersMap":
		return "CheckPoint.arbiter-lists"
	case "RewardData.OwnerVotesInRound", "RewardData.TotalVotesInRound", "CheckPoint.ArbitersRoundReward", "CheckPoint.AccumulativeReward", "CheckPoint.FinalRoundChange":
		return "CheckPoint.round-reward-data"
	}
	if strings.HasPrefix(cl, "CRInfo.") {
		return "CRMember.Info"
	}
	if strings.HasPrefix(cl, "ProducerInfo.") {
		return "Producer.info"
	}
	return cl
}

// c21L2Report turns the diff list of one comparison into violations.
//
//	rollback step     one signature per (grouped) class: "l2:rollback-diff:<class>"
//	after the reorg   "l2:rollforward-diff:<class>" for classes that had NOT diverged at any
//	                  rollback step of the same scenario (classes that had are follow-ons: counted)
//	save boundary     (NeedSave scenario) single signatures
func c21L2Report(c *kit.Ctx, o *l2Outcome, prefix string, ds []c21Diff, height uint32, rd *l2ReorgDone, seen, inherited map[string]bool, where string) {
	sp := o.Spec
	for i := range ds {
		ds[i].Class = l2ClassGroup(ds[i].Class)
	}
	names, first := classesOf(ds)
	forward := strings.HasPrefix(prefix, "l2:rollforward")
	era := ""
	if rd != nil {
		era = rd.Era
	}
	one := func(sig, text string) {
		if seen[sig] {
			c.Inc("l2_repeat|" + sig)
			return
		}
		seen[sig] = true
		c.Inc("l2sigera|" + sig + "|" + era)
		c21Violate(c, sig, text, map[string]interface{}{"scenario_seed": fmt.Sprint(sp.Seed), "scenario_era": sp.Era, "long": sp.Long, "shard": c.Shard, "height": height,
			"reorg": rd, "all_classes": names, "first_diffs": ds[:minInt(len(ds), 8)], "evidence_routing": sp.Evidence})
	}
	if sp.Long != 0 {
		if !forward {
			// ordinary rollback classes are the business of the other scenarios
			for _, cl := range names {
				c.Inc("l2_save_boundary_rollback_class|" + cl)
			}
			return
		}
		one("l2:rollforward-diff:blocks-at-or-below-saved-checkpoint-height-skipped",
			fmt.Sprintf("NeedSave node, DPoS checkpoint saved at 720: %s %d the state of the reorganised node differs from the linear twin in %d classes, e.g. %s: %s | %s",
				where, height, len(names), first[names[0]].Path, first[names[0]].A, first[names[0]].B))
		return
	}
	if forward {
		for _, cl := range names {
			c.Inc("l2_rollforward_class|" + cl)
		}
	}
	for _, cl := range names {
		if seen[cl] {
			c.Inc("l2_repeat|" + prefix + cl)
			continue
		}
		seen[cl] = true
		if forward && inherited[cl] {
			// already diverged at a rollback step of this scenario: follow-on
			c.Inc("l2_follow_on|" + prefix + cl)
			continue
		}
		ex := first[cl]
		var sample []c21Diff
		for _, x := range ds {
			if x.Class == cl && len(sample) < 4 {
				sample = append(sample, x)
			}
		}
		c.Inc("l2sigera|" + prefix + cl + "|" + era)
		c21Violate(c, prefix+cl, fmt.Sprintf("full node, era=%s: %s %d: %s reorganised-node=%s direct=%s", era, where, height, ex.Path, ex.A, ex.B),
			map[string]interface{}{"scenario_seed": fmt.Sprint(sp.Seed), "scenario_era": sp.Era, "shard": c.Shard, "height": height, "reorg": rd,
				"diffs_of_class": sample, "all_classes": names, "evidence_routing": sp.Evidence})
	}
}

var _ = common.EmptyHash

// l2ReportStop: node A did not reach the end of the recorded chain although the
// linear twin did. A panic inside the node (the twin processed the very same
// block without one) is a violation; a refused reorganisation is counted.
func l2ReportStop(c *kit.Ctx, o *l2Outcome) {
	e := o.A.Err
	if strings.HasPrefix(e, "panic:") {
		site := c21PanicSite(e[strings.Index(e, "\n")+1:])
		msg := e
		if i := strings.Index(msg, "\n"); i > 0 {
			msg = msg[:i]
		}
		var last *l2ReorgDone
		if n := len(o.A.Reorgs); n > 0 {
			last = &o.A.Reorgs[n-1]
		}
		c21Violate(c, "l2:rollback-panic:"+site, fmt.Sprintf("node A (which went through %d reorganisations) panics while connecting a recorded block that the linear twin connected without trouble: %s", len(o.A.Reorgs), msg),
			map[string]interface{}{"scenario_seed": fmt.Sprint(o.Spec.Seed), "scenario_era": o.Spec.Era, "first_fork_point": o.Spec.From, "reorgs": o.A.Reorgs, "last_reorg": last, "stack": c21TrimStack(e)})
		return
	}
	if strings.HasPrefix(e, "reorg-failed:") && strings.Contains(e, "IsIrreversible=true") && strings.Contains(e, "err=<nil>") {
		// the node refuses the switch because its own branch is already below its
		// last irreversible height: designed behaviour, the scenario ends here
		c.Inc("l2_reorg_refused_by_irreversibility")
		return
	}
	for _, pre := range []string{"reorg-failed:", "block-rejected:"} {
		if !strings.HasPrefix(e, pre) {
			continue
		}
		reason := e
		if i := strings.LastIndex(reason, " <- "); i >= 0 {
			reason = reason[i+4:]
		} else if i := strings.LastIndex(reason, "err="); i >= 0 {
			reason = reason[i+4:]
		} else if i := strings.LastIndex(reason, "ProcessBlock: "); i >= 0 {
			reason = reason[i+14:]
		}
		if i := strings.Index(reason, " tipNowCanonical"); i >= 0 {
			reason = reason[:i]
		}
		sig := "l2:node-stuck-after-reorg:" + l2Slug(reason)
		if o.Spec.Long != 0 {
			sig = "l2:node-stuck-after-reorg-across-saved-checkpoint-height"
		}
		if pre == "block-rejected:" {
			c.Inc("l2_stuck_rejects_next_recorded_block")
		} else {
			c.Inc("l2_stuck_cannot_switch_to_recorded_chain")
		}
		var last *l2ReorgDone
		if n := len(o.A.Reorgs); n > 0 {
			last = &o.A.Reorgs[n-1]
		}
		c21Violate(c, sig, "node A, having first connected its own branch, refuses blocks of the recorded chain that the linear twin (and the builder) validated and connected: "+e,
			map[string]interface{}{"scenario_seed": fmt.Sprint(o.Spec.Seed), "scenario_era": o.Spec.Era, "last_reorg": last, "reorgs_before": len(o.A.Reorgs)})
		return
	}
	c.Inc("l2_nodeA_stopped_other")
	c.Note("l2 scenario era=%s seed=%d: node A stopped: %s", o.Spec.Era, o.Spec.Seed, e)
}

// l2Slug turns an error text into a stable signature part (no hex, no numbers).
func l2Slug(s string) string {
	var sb strings.Builder
	words := strings.FieldsFunc(s, func(r rune) bool { return !(r >= 'a' && r <= 'z' || r >= 'A' && r <= 'Z' || r >= '0' && r <= '9') })
	for _, w := range words {
		hexish := len(w) >= 8
		digits, hasDigit := true, false
		for _, r := range w {
			if !(r >= '0' && r <= '9' || r >= 'a' && r <= 'f') {
				hexish = false
			}
			if !(r >= '0' && r <= '9') {
				digits = false
			} else {
				hasDigit = true
			}
		}
		if len(w) > 24 || len(w) >= 10 && hasDigit {
			hexish = true // keys, hashes, base58 addresses
		}
		if hexish || digits {
			continue
		}
		if sb.Len() > 0 {
			sb.WriteByte('-')
		}
		sb.WriteString(w)
		if sb.Len() > 70 {
			break
		}
	}
	return sb.String()
}

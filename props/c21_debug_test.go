package props

import (
	"os"
	"strconv"
	"testing"

	"verif/kit"
)

// TestC21Debug replays one C21 history verbosely:
//
//	C21_SEED=<history_seed from a violation> C21_PROFILE=<profile> [C21_SAVE=1] [C21_QUIET=1] \
//	  go test -tags verif -run TestC21Debug -count=1 -v ./props/
//
// It prints every generated block (ops, consensus mode, arbiters, producer
// states) and every divergence with its field-level diff. Without C21_SEED it
// does nothing.
func TestC21Debug(t *testing.T) {
	if os.Getenv("C21_SEED") == "" {
		t.Skip("set C21_SEED")
	}
	dir, _ := os.MkdirTemp("", "c21dbg")
	defer os.RemoveAll(dir)
	c := kit.NewCtx("C21", "quick", 1, 0, 8, dir)
	seed, _ := strconv.ParseInt(os.Getenv("C21_SEED"), 10, 64)
	profile, _ := strconv.Atoi(os.Getenv("C21_PROFILE"))
	h := &c21Hist{c: c, seed: seed, profile: profile, idx: 0, verbose: os.Getenv("C21_QUIET") == "", saveBoundary: os.Getenv("C21_SAVE") != "", powCycle: os.Getenv("C21_CYCLE") != "", evidence: os.Getenv("C21_EVIDENCE") != ""}
	if p, v, st := kit.Guard(h.run); p {
		t.Logf("panic: %v\n%s", v, st)
	}
	h.cleanup()
}

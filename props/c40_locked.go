package props

import (
	"fmt"
	"hash/fnv"
	"math"
	"runtime"
	"sort"
	"strings"
	"sync"
	"sync/atomic"
	"time"
	"unsafe"

	"github.com/elastos/Elastos.ELA/core/types/interfaces"
	"github.com/elastos/Elastos.ELA/core/types/payload"
	"github.com/elastos/Elastos.ELA/dpos/state"

	"verif/kit"
	"verif/kit/node"
)

// C40 — lock-protected state getters.
//
// The RPC handlers of the servers package read consensus state without the
// state lock (known finding: their torn answers are folded into
// inconsistent-response:family:torn-read-during-block-processing). The
// STATE-LEVEL getters below are different: on the unchanged tree each of them
// holds State.mtx / Arbiters.mtx / Committee.mtx for the whole read, so every
// single answer is the membership of ONE state. This role checks exactly that,
// with its own signature, while the producer role connects and rolls back
// membership-changing blocks:
//
//   - the producer (the only writer of consensus state in the storm) publishes a
//     logical clock around every step (2i = stable in state i, 2i+1 = moving from
//     i to i+1) and, in every stable state, records the answer of each getter
//     (nothing else writes then);
//   - a "membership" role registers a new producer every other block, so that
//     almost every block of the storm moves producers from pending to active
//     (their 6th confirmation) — the transition a read that is split over two
//     lock acquisitions shows as "twice" or "not at all";
//   - 3 reader goroutines call the getters and note the clock before and after.
//
// Oracle per answer (states lo=floor(v0/2) .. hi=ceil(v1/2) overlap the call):
// the answer is the recorded answer of one of these states. Only where the
// span contains a branch switch (several blocks disconnected and connected
// inside one step, whose intermediate states are not recorded) the judgement
// is reduced to what holds in every state: no producer twice in one answer.
// Producers are identified
// by the identity of the *Producer object (no field of a live object is read
// outside the lock); copies and byte slices by their key bytes.
// Violation: torn-read:locked-getter:<getter>. No wall clock in any verdict.

type c40LGGetter struct {
	name string
	f    func() []uint64 // unsorted keys: object identity of live objects, a hash of key bytes otherwise
	set  bool            // no state lists an entry twice
}

type c40LGRec struct {
	g      int
	v0, v1 int64
	ans    []uint64 // sorted
}

type c40LG struct {
	c        *kit.Ctx
	nd       *node.Node
	getters  []c40LGGetter
	ver      atomic.Int64
	mu       sync.Mutex
	states   [][][]uint64     // state index -> getter -> sorted answer
	spans    map[[3]int]int64 // (getter, lo, hi) -> number of answers judged over that span
	calls    atomic.Int64
	reorg    []bool     // step i (state i -> i+1) was a branch switch
	special  []bool     // step i was a special payload handed in by the dpos-peer role
	wmu      sync.Mutex // one writer step at a time (producer steps and dpos-peer steps), readers stay concurrent
	specials []*payload.InactiveArbitrators
	pend     []c40LGRec
	viol     map[string]int
	regs     []interfaces.Transaction
}

var c40Locked *c40LG

func init() {
	c40Prepare = append(c40Prepare, c40PrepareLocked)
	c40Extra = append(c40Extra, c40LockedRoles)
	c40AfterStorm = append(c40AfterStorm, c40LockedFinish)
}

func c40PrepareLocked(c *kit.Ctx, nd *node.Node) {
	b := c40Boot
	if b == nil {
		return
	}
	st := nd.Chain.GetState()
	key := func(b []byte) uint64 {
		h := fnv.New64a()
		h.Write(b)
		return h.Sum64()
	}
	prods := func(ps []*state.Producer) []uint64 {
		l := make([]uint64, len(ps))
		for i, p := range ps {
			l[i] = uint64(uintptr(unsafe.Pointer(p))) // identity only: no field of the live object is read
		}
		return l
	}
	keys := func(bs [][]byte) []uint64 {
		l := make([]uint64, len(bs))
		for i, k := range bs {
			l[i] = key(k)
		}
		return l
	}
	g := &c40LG{c: c, nd: nd, viol: map[string]int{}, spans: map[[3]int]int64{}}
	g.getters = []c40LGGetter{
		{"State.GetProducers", func() []uint64 { return prods(st.GetProducers()) }, true},
		{"State.GetActiveProducers", func() []uint64 { return prods(st.GetActiveProducers()) }, true},
		{"State.GetPendingProducers", func() []uint64 { return prods(st.GetPendingProducers()) }, true},
		{"State.GetCanceledProducers", func() []uint64 { return prods(st.GetCanceledProducers()) }, true},
		{"State.GetAllProducers", func() []uint64 { // copies taken under the lock
			ps := st.GetAllProducers()
			l := make([]uint64, len(ps))
			for i := range ps {
				l[i] = key(ps[i].OwnerPublicKey())
			}
			return l
		}, false},
		{"Arbiters.GetArbitrators", func() []uint64 { // fresh ArbiterInfo values built under the lock
			as := nd.Arbiters.GetArbitrators()
			l := make([]uint64, len(as))
			for i, a := range as {
				l[i] = key(a.NodePublicKey)
			}
			return l
		}, false},
		{"Arbiters.GetCandidates", func() []uint64 { return keys(nd.Arbiters.GetCandidates()) }, false},
		{"Arbiters.GetNextCandidates", func() []uint64 { return keys(nd.Arbiters.GetNextCandidates()) }, false},
		{"Committee.GetMembersDIDs", func() []uint64 {
			ds := nd.Committee.GetMembersDIDs()
			l := make([]uint64, len(ds))
			for i, d := range ds {
				l[i] = key(d.Bytes())
			}
			return l
		}, false},
	}
	// staggered registrations: one new producer every other block
	w := nd.Wallet()
	v2 := b.Era.DPoSV2Start != math.MaxUint32 && nd.Arbiters.GetDPoSV2ActiveHeight() != math.MaxUint32
	n := c.N(26, 50)
	for i := 0; i < n; i++ {
		o, nk := node.Key(node.KeyProducerOwner+50+i), node.Key(node.KeyProducerNode+50+i)
		payer := b.Voters[i%len(b.Voters)]
		if v2 {
			if in, ok := w.Take(payer, node.ELA(2000)+node.DefaultFee); ok {
				g.regs = append(g.regs, node.RegisterProducerV2(in, o, nk, fmt.Sprintf("member-%d", i), node.ELA(2000), nd.Height()+300000))
			}
		} else if in, ok := w.Take(payer, node.ELA(5000)+node.DefaultFee); ok {
			g.regs = append(g.regs, node.RegisterProducer(in, o, nk, fmt.Sprintf("member-%d", i), node.ELA(5000)))
		}
	}
	c.Count("membership_registrations_prepared", int64(len(g.regs)))
	// special payloads a DPoS peer hands in out of band (the dpos manager calls
	// Arbiters.ProcessSpecialTxPayload after its own signature checks): emergency
	// InactiveArbitrators naming the node key of a producer the membership role
	// registers (unvoted, never an arbiter: the consensus itself is not disturbed),
	// alternating with ones naming keys no producer uses (nothing to change)
	sponsor := node.Pub(b.Nodes[0])
	for i := 0; i < c.N(24, 48); i++ {
		var named []byte
		if i%2 == 0 {
			named = node.Pub(node.Key(node.KeyProducerNode + 50 + (i/2)%n))
		} else {
			named = node.Pub(node.Key(600 + i%30))
		}
		g.specials = append(g.specials, &payload.InactiveArbitrators{Sponsor: sponsor, Arbitrators: [][]byte{named}, BlockHeight: nd.Height() + uint32(i)})
	}
	g.snapshot() // state 0
	c40Locked = g
	c40WriterStep = g.writerStep
}

func c40Sorted(l []uint64) []uint64 {
	sort.Slice(l, func(i, j int) bool { return l[i] < l[j] })
	return l
}

func c40Same(a, b []uint64) bool {
	if len(a) != len(b) {
		return false
	}
	for i := range a {
		if a[i] != b[i] {
			return false
		}
	}
	return true
}

func (g *c40LG) snapshot() {
	s := make([][]uint64, len(g.getters))
	for i, gt := range g.getters {
		s[i] = c40Sorted(gt.f())
	}
	g.mu.Lock()
	g.states = append(g.states, s)
	g.mu.Unlock()
}

// writerStep is called by the producer role (the only writer) around each step.
func (g *c40LG) writerStep(begin, reorg bool) { g.step(begin, reorg, false) }

// step brackets one writer step. The producer and the dpos-peer are both
// writers of consensus state: wmu serialises their steps at the harness level,
// so that there is still one writer at a time and the logical clock stays
// meaningful; the readers (and every other role) run concurrently with either.
func (g *c40LG) step(begin, reorg, special bool) {
	if begin {
		g.wmu.Lock()
		g.mu.Lock()
		g.reorg = append(g.reorg, reorg)
		g.special = append(g.special, special)
		g.mu.Unlock()
		g.ver.Add(1) // odd: moving
		return
	}
	g.snapshot()
	g.ver.Add(1) // even: stable in the state just recorded
	g.c.Inc("locked_getter_writer_steps")
	g.wmu.Unlock()
}

func c40LockedRoles(c *kit.Ctx, nd *node.Node, stop *int32, wg *sync.WaitGroup, guard func(role string, f func())) {
	g := c40Locked
	if g == nil {
		return
	}
	// ---- membership: a new producer registration every other block ----
	c40Start("membership", func() {
		next := nd.Height()
		for _, tx := range g.regs {
			for atomic.LoadInt32(stop) == 0 && nd.Height() < next {
				time.Sleep(time.Millisecond) // pacing only
			}
			if atomic.LoadInt32(stop) != 0 {
				return
			}
			guard("membership", func() {
				if e := nd.TxPool.AppendToTxPool(tx); e == nil {
					c.Inc("pool_admitted")
					c.Inc("membership_registrations_admitted")
				} else {
					c.Inc("membership_registrations_refused")
				}
				c40Op("membership", "RegisterProducer")
			})
			next = nd.Height() + 2
		}
	})
	// ---- dpos-peer: out-of-band special payloads while blocks are connected and readers run ----
	c40Start("dpos-peer", func() {
		next := nd.Height() + 10 // the first registrations of the membership role are active by then
		for i, p := range g.specials {
			for atomic.LoadInt32(stop) == 0 && nd.Height() < next {
				time.Sleep(time.Millisecond) // pacing only
			}
			if atomic.LoadInt32(stop) != 0 {
				return
			}
			guard("dpos-peer", func() {
				var err error
				func() {
					g.step(true, false, true)
					defer g.step(false, false, true) // (also when the node panics: the producer must not wait forever)
					// Arbiters.ProcessSpecialTxPayload = AddInactivePayload (dedup) +
					// State.ProcessSpecialTxPayload + ForceChange. The forced arbiter change
					// demands a NextTurnDPOSInfo tx in the next block which the node only creates
					// while it connects a block, and it resets the duty order under the kit's
					// confirm signer: after one such call the DPoS v1 chains of the storm stop
					// (observed, not this property). So only the LAST payload goes through the
					// full entry; the others take the same path without the forced change.
					if i == len(g.specials)-1 {
						need := nd.Arbiters.IsNeedNextTurnDPOSInfo()
						err = nd.Arbiters.ProcessSpecialTxPayload(p, nd.Height())
						if !need && nd.Arbiters.IsNeedNextTurnDPOSInfo() {
							nd.Arbiters.SetNeedNextTurnDPOSInfo(false)
						}
						c.Inc("special_payload_calls_through_Arbiters_entry_with_forced_change")
					} else if nd.Arbiters.AddInactivePayload(p) {
						nd.Arbiters.State.ProcessSpecialTxPayload(p, nd.Height())
					}
				}()
				c.Inc("special_payload_calls")
				if err != nil {
					c.Inc("special_payload_calls_returning_an_error")
				}
				c40Op("dpos-peer", "InactiveArbitrators")
			})
			next = nd.Height() + 1 + uint32(i%2)
		}
	})
	// ---- readers of the lock-protected getters ----
	// 4 readers call State.GetProducers only (it backs the default listproducers
	// answer and is the getter whose read is easiest to split), 2 call all getters.
	// The loop is kept tight - the chance that a block's state change falls inside
	// a call grows with the share of time a reader spends inside the getter - so an
	// answer is only handed to the judge when (getter, clock span, fingerprint)
	// differs from the previous one of this reader; repeats are only counted.
	for ri := 0; ri < 6; ri++ {
		ri := ri
		c40Start("locked-getter", func() {
			rr := c.Rand(fmt.Sprintf("lockedgetter%d", ri))
			type last struct {
				v0, v1   int64
				n        int
				xor, sum uint64
				span     [3]int
				ok       bool
			}
			lasts := make([]last, len(g.getters))
			tally := map[[3]int]int64{}
			var pend []c40LGRec // answers of a state that is not recorded yet (rare)
			n := 0
			for atomic.LoadInt32(stop) == 0 {
				gi := 0
				if ri >= 4 {
					gi = rr.Intn(len(g.getters))
				}
				guard("locked-getter:"+g.getters[gi].name, func() {
					v0 := g.ver.Load()
					ans := g.getters[gi].f()
					v1 := g.ver.Load()
					var x, sm uint64
					for _, k := range ans {
						x ^= k
						sm += k * 0x9e3779b97f4a7c15
					}
					l := &lasts[gi]
					if l.ok && l.v0 == v0 && l.v1 == v1 && l.n == len(ans) && l.xor == x && l.sum == sm {
						tally[l.span]++ // same answer over the same span as the one already judged
					} else {
						r := c40LGRec{g: gi, v0: v0, v1: v1, ans: c40Sorted(ans)}
						judged := g.judge(r, false)
						if !judged && len(pend) < 20000 {
							pend = append(pend, r)
						}
						*l = last{v0: v0, v1: v1, n: len(ans), xor: x, sum: sm, span: [3]int{gi, int(v0 / 2), int((v1 + 1) / 2)}, ok: judged}
					}
					if len(pend) > 0 && v1%2 == 0 { // a stable state: everything the pending answers overlap is recorded
						keep := pend[:0]
						for _, r := range pend {
							if !g.judge(r, false) {
								keep = append(keep, r)
							}
						}
						pend = keep
					}
					if n++; n%1024 == 0 {
						c40Op("locked-getter", g.getters[gi].name)
					}
				})
				if ri >= 4 {
					runtime.Gosched()
				}
			}
			g.calls.Add(int64(n))
			g.mu.Lock()
			g.pend = append(g.pend, pend...)
			for k, v := range tally {
				g.spans[k] += v
			}
			g.mu.Unlock()
		})
	}
}

// judge evaluates one answer; false = the states it overlaps are not all recorded
// yet and it matches none of the recorded ones (the caller keeps it for later).
func (g *c40LG) judge(r c40LGRec, final bool) bool {
	lo, hi := int(r.v0/2), int((r.v1+1)/2)
	g.mu.Lock()
	known := hi
	if known >= len(g.states) {
		known = len(g.states) - 1
	}
	match := false
	for i := lo; i <= known && !match; i++ {
		match = c40Same(g.states[i][r.g], r.ans)
	}
	if match {
		g.spans[[3]int{r.g, lo, hi}]++
		g.mu.Unlock()
		return true
	}
	if hi >= len(g.states) {
		g.mu.Unlock()
		if final {
			g.c.Inc("locked_getter_calls_unjudged_last_step_open")
			return true
		}
		return false
	}
	g.spans[[3]int{r.g, lo, hi}]++
	cands := make([][]uint64, 0, hi-lo+1)
	for i := lo; i <= hi; i++ {
		cands = append(cands, g.states[i][r.g])
	}
	viaReorg := false
	for i := lo; i < hi && i < len(g.reorg); i++ {
		viaReorg = viaReorg || g.reorg[i]
	}
	g.mu.Unlock()

	// the answer equals none of the recorded states that overlap the call
	name := g.getters[r.g].name
	g.c.Inc("locked_getter_answers_of_no_recorded_state")
	if !viaReorg {
		// every step in the span connected ONE block, whose state change is made under
		// one hold of the lock: an atomic read can only have seen a recorded state
		g.violate(name, fmt.Sprintf("clock %d..%d: the answer (%d entries, %d distinct) is the answer of none of the states %d..%d that overlap the call (%s); vs state %d: %s; vs state %d: %s",
			r.v0, r.v1, len(r.ans), c40Distinct(r.ans), lo, hi, c40Sizes(cands), lo, c40Delta(r.ans, cands[0]), hi, c40Delta(r.ans, cands[len(cands)-1])))
		return true
	}
	// a branch switch disconnects and connects several blocks inside one step: its
	// intermediate states are not recorded, so only what holds in EVERY state is judged
	if g.getters[r.g].set && c40Distinct(r.ans) != len(r.ans) {
		g.violate(name, fmt.Sprintf("clock %d..%d (branch switch): %d entries but only %d distinct ones in ONE answer", r.v0, r.v1, len(r.ans), c40Distinct(r.ans)))
		return true
	}
	g.c.Inc("locked_getter_answers_of_an_intermediate_state_accepted")
	return true
}

func c40Distinct(l []uint64) int {
	m := map[uint64]bool{}
	for _, k := range l {
		m[k] = true
	}
	return len(m)
}

// c40Delta describes a (sorted) answer against a (sorted) recorded state.
func c40Delta(ans, st []uint64) string {
	ca, cs := map[uint64]int{}, map[uint64]int{}
	for _, k := range ans {
		ca[k]++
	}
	for _, k := range st {
		cs[k]++
	}
	twice, extra, missing := 0, 0, 0
	for k, n := range ca {
		if n > 1 && cs[k] <= 1 {
			twice++
		}
		if cs[k] == 0 {
			extra++
		}
	}
	for k := range cs {
		if ca[k] == 0 {
			missing++
		}
	}
	return fmt.Sprintf("%d entries listed twice, %d not in the state, %d of the state missing", twice, extra, missing)
}

func (g *c40LG) violate(getter, detail string) {
	g.mu.Lock()
	g.viol[getter]++
	n := g.viol[getter]
	g.mu.Unlock()
	g.c.Inc("locked_getter_torn_answers:" + getter)
	if n <= 3 {
		g.c.Violate("torn-read:locked-getter:"+getter, detail, nil)
	}
}

func c40Sizes(cands [][]uint64) string {
	var p []string
	for _, c := range cands {
		p = append(p, fmt.Sprint(len(c)))
	}
	return strings.Join(p, "/") + " entries"
}

func c40LockedFinish(c *kit.Ctx, nd *node.Node) {
	g := c40Locked
	if g == nil {
		return
	}
	g.mu.Lock()
	pend := g.pend
	g.pend = nil
	g.mu.Unlock()
	for _, r := range pend {
		g.judge(r, true)
	}
	c.Count("locked_getter_calls", g.calls.Load())
	c.Count("locked_getter_calls:State.GetProducers", func() int64 {
		var n int64
		for k, v := range g.spans {
			if k[0] == 0 {
				n += v
			}
		}
		return n
	}())
	g.mu.Lock()
	defer g.mu.Unlock()
	nStates := len(g.states)
	for k, n := range g.spans {
		gi, lo, hi := k[0], k[1], k[2]
		c.Count("locked_getter_answers_judged", n)
		if lo == hi {
			c.Count("locked_getter_calls_in_a_stable_state", n)
			continue
		}
		c.Count("locked_getter_calls_overlapping_a_writer_step", n)
		if hi >= nStates {
			hi = nStates - 1
		}
		changed, viaReorg := false, false
		for i := lo + 1; i <= hi; i++ {
			changed = changed || !c40Same(g.states[i][gi], g.states[lo][gi])
		}
		for i := lo; i < hi && i < len(g.reorg); i++ {
			viaReorg = viaReorg || g.reorg[i]
		}
		if changed {
			c.Count("locked_getter_calls_overlapping_a_membership_change", n)
			c.Count("locked_getter_calls_overlapping_a_membership_change:"+g.getters[gi].name, n)
			if viaReorg {
				c.Count("locked_getter_calls_overlapping_a_branch_switch_with_membership_change", n)
			}
		}
	}
	// special payload steps: which changed the state, which were overlapped by reader calls
	overlapped := map[int]bool{}
	for k := range g.spans {
		for i := k[1]; i < k[2] && i < len(g.special); i++ {
			if g.special[i] {
				overlapped[i] = true
			}
		}
	}
	for i, sp := range g.special {
		if !sp || i+1 >= nStates {
			continue
		}
		if overlapped[i] {
			c.Inc("special_payload_calls_overlapping_reader_calls")
		}
		for gi := range g.getters {
			if !c40Same(g.states[i][gi], g.states[i+1][gi]) {
				c.Inc("special_payloads_accepted")
				break
			}
		}
	}
	// how many writer steps changed the pending/active membership
	for i := 1; i < nStates; i++ {
		if !c40Same(g.states[i][0], g.states[i-1][0]) || !c40Same(g.states[i][1], g.states[i-1][1]) {
			c.Inc("membership_changing_steps")
		}
		moved := false
		was := map[uint64]bool{}
		for _, k := range g.states[i-1][2] { // pending before
			was[k] = true
		}
		for _, k := range g.states[i][1] { // active after
			moved = moved || was[k]
		}
		if moved {
			c.Inc("pending_to_active_steps")
		}
	}
}

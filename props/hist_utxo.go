package props

// Shared hostile history generator for C06 (no output is ever spent twice) and
// C14 (queryable UTXO views agree with the ledger).
//
// One real in-process node per shard. The generator keeps a harness-side model
// of EVERY block it built (valid or not, which parent, delivered or not) and
// predicts by construction what the node must do with it. The oracles
// (props/c06.go, props/c14.go) hook into onStep / onAdvBlock / ... and observe
// the real node after every step.
//
// Two mempool-maintenance modes (by shard parity):
//   postblock: the harness calls nd.PostBlock(b) after every accepted block
//   netsync  : the node's own elanet/netsync.SyncManager event handler is
//              subscribed (no p2p server, no-op PeerNotifier): transactions of
//              disconnected blocks are re-offered to the pool, connected blocks
//              clean the pool, every processed block re-validates the pool.

import (
	"bytes"
	"fmt"
	"math/rand"
	"sort"
	"sync"

	"github.com/elastos/Elastos.ELA/account"
	"github.com/elastos/Elastos.ELA/common"
	"github.com/elastos/Elastos.ELA/core/types"
	common2 "github.com/elastos/Elastos.ELA/core/types/common"
	"github.com/elastos/Elastos.ELA/core/types/interfaces"
	"github.com/elastos/Elastos.ELA/elanet/netsync"
	"github.com/elastos/Elastos.ELA/p2p/msg"

	"verif/kit"
	"verif/kit/node"
)

const (
	hModePost    = "postblock"
	hModeNetsync = "netsync"
)

type hNopNotifier struct{}

func (hNopNotifier) RelayInventory(*msg.InvVect, interface{}) {}

// ---------- harness model ----------

type hOut struct {
	Value    common.Fixed64
	Owner    common.Uint168
	Height   uint32
	Coinbase bool
}

// hView is the UTXO set of the chain ending in one model block (immutable).
type hView struct {
	hash    common.Uint256
	height  uint32
	unspent map[node.OutKey]hOut
	spentBy map[node.OutKey]common.Uint256
	txs     map[common.Uint256]uint32
}

func (v *hView) clone() *hView {
	n := &hView{hash: v.hash, height: v.height,
		unspent: make(map[node.OutKey]hOut, len(v.unspent)+8),
		spentBy: make(map[node.OutKey]common.Uint256, len(v.spentBy)+8),
		txs:     make(map[common.Uint256]uint32, len(v.txs)+8)}
	for k, o := range v.unspent {
		n.unspent[k] = o
	}
	for k, o := range v.spentBy {
		n.spentBy[k] = o
	}
	for k, o := range v.txs {
		n.txs[k] = o
	}
	return n
}

func (v *hView) apply(b *hBlock) {
	v.hash, v.height = b.hash, b.height
	for ti, tx := range b.blk.Transactions {
		txid := tx.Hash()
		cb := ti == 0 && tx.IsCoinBaseTx()
		if !cb {
			for _, in := range tx.Inputs() {
				k := node.OutKey{TxID: in.Previous.TxID, Index: in.Previous.Index}
				delete(v.unspent, k)
				v.spentBy[k] = txid
			}
		}
		for i, o := range tx.Outputs() {
			v.unspent[node.OutKey{TxID: txid, Index: uint16(i)}] = hOut{Value: o.Value, Owner: o.ProgramHash, Height: b.height, Coinbase: cb}
		}
		v.txs[txid] = b.height
	}
}

const (
	stBuilt = iota
	stOrphan
	stKnown
	stRejected
)

type hBlock struct {
	blk    *types.Block
	hash   common.Uint256
	parent common.Uint256
	height uint32
	valid  bool   // valid by construction given its ancestors
	adv    string // adversarial kind ("" = honest)
	state  int
	seq    int
}

type hTx struct {
	tx    interfaces.Transaction
	ins   []node.OutKey
	fee   common.Fixed64
	shape string
}

type hAdvResult struct {
	Err          error
	TipUnchanged bool
	OnChain      bool // the block is now part of the node's active chain
	Height0      uint32
	Height1      uint32
}

type hist struct {
	c    *kit.Ctx
	nd   *node.Node
	r    *rand.Rand
	mode string
	sm   *netsync.SyncManager

	accts  []*account.Account // 0 foundation, 1 miner, 2..7 users
	byPH   map[common.Uint168]*account.Account
	users  []*account.Account
	minFee common.Fixed64
	matur  uint32

	blocks     map[common.Uint256]*hBlock
	order      []*hBlock
	tip        common.Uint256
	active     []common.Uint256 // model's active chain by height
	pending    []*hBlock
	orph       map[common.Uint256][]*hBlock
	baseHeight uint32
	nonce      uint64
	views      map[common.Uint256]*hView
	viewOrder  []common.Uint256

	allTx   map[common.Uint256]interfaces.Transaction
	txOrder []common.Uint256
	manyTx  int

	stopped bool
	stepNo  int
	touched bool // the current step reached the node (block delivered / tx submitted)

	// oracle hooks (any may be nil)
	onStep       func(kind string)
	onAdvBlock   func(kind string, res hAdvResult)
	onAdvTx      func(kind string, err error)
	onPair       func(kind string, first, second error)
	onConcurrent func(admitted []int, goroutines int)
	onSubmit     func() // after every AppendToTxPool call
}

func newHist(c *kit.Ctx, stream string) (*hist, error) {
	nd, err := node.Start(node.Options{Dir: c.WorkDir, CoinbaseMaturity: 3})
	if err != nil {
		return nil, err
	}
	h := &hist{c: c, nd: nd, r: c.Rand(stream), mode: hModePost,
		byPH: map[common.Uint168]*account.Account{}, blocks: map[common.Uint256]*hBlock{},
		orph: map[common.Uint256][]*hBlock{}, views: map[common.Uint256]*hView{},
		allTx: map[common.Uint256]interfaces.Transaction{}, nonce: 1 << 32}
	if c.Shard%2 == 1 {
		h.mode = hModeNetsync
		h.sm = netsync.New(&netsync.Config{PeerNotifier: hNopNotifier{}, Chain: nd.Chain, ChainParams: nd.Cfg,
			TxMemPool: nd.TxPool, BlockMemPool: nd.BlockPool, MaxPeers: 8})
	}
	c.Inc("mode_" + h.mode)
	h.minFee = nd.Cfg.MinTransactionFee
	h.matur = nd.Cfg.PowConfiguration.CoinbaseMaturity
	for i := 0; i < 8; i++ {
		a := node.Key(i)
		h.accts = append(h.accts, a)
		h.byPH[a.ProgramHash] = a
		if i >= 2 {
			h.users = append(h.users, a)
		}
	}
	// genesis
	g := nd.Cfg.GenesisBlock
	gb := &hBlock{blk: g, hash: g.Hash(), height: 0, valid: true, state: stKnown}
	h.blocks[gb.hash] = gb
	h.order = append(h.order, gb)
	h.tip = gb.hash
	h.active = []common.Uint256{gb.hash}
	for _, tx := range g.Transactions {
		h.regTx(tx)
	}
	if nd.Tip() != gb.hash {
		return nil, fmt.Errorf("node tip is not the configured genesis block")
	}
	// maturity for the genesis coinbase, then fund the 6 users
	for i := uint32(0); i < h.matur+1; i++ {
		h.mine(nil, "boot")
	}
	gu := nd.GenesisUTXO()
	var outs []node.Out
	per := common.Fixed64(1000 * 1e8)
	for _, a := range h.users {
		for k := 0; k < 8; k++ {
			outs = append(outs, node.Out{To: a.ProgramHash, Value: per})
		}
	}
	outs = append(outs, node.Out{To: nd.Found.ProgramHash, Value: gu.Value - per*common.Fixed64(len(outs)) - 1000})
	fund := node.Transfer([]node.UTXORef{gu}, outs, common2.TxVersion09)
	h.regTx(fund)
	if err := nd.TxPool.AppendToTxPool(fund); err != nil {
		return nil, fmt.Errorf("funding tx rejected by mempool: %v", err)
	}
	h.mine([]*hTx{{tx: fund, fee: 1000, ins: []node.OutKey{{TxID: gu.TxID, Index: gu.Index}}}}, "boot")
	h.mine(nil, "boot")
	if h.stopped {
		return nil, fmt.Errorf("bootstrap desynchronised")
	}
	h.baseHeight = h.blocks[h.tip].height
	return h, nil
}

func (h *hist) close() { h.nd.Close() }

func (h *hist) regTx(tx interfaces.Transaction) {
	id := tx.Hash()
	if _, ok := h.allTx[id]; !ok {
		h.allTx[id] = tx
		h.txOrder = append(h.txOrder, id)
	}
}

func (h *hist) tipBlock() *hBlock { return h.blocks[h.tip] }

// viewAt computes (and caches, bounded) the UTXO view after the given block.
func (h *hist) viewAt(hash common.Uint256) *hView {
	if v, ok := h.views[hash]; ok {
		return v
	}
	var path []*hBlock
	var base *hView
	cur := hash
	for {
		if v, ok := h.views[cur]; ok {
			base = v
			break
		}
		b := h.blocks[cur]
		path = append(path, b)
		if b.height == 0 {
			break
		}
		cur = b.parent
	}
	var v *hView
	if base != nil {
		v = base.clone()
	} else {
		v = &hView{unspent: map[node.OutKey]hOut{}, spentBy: map[node.OutKey]common.Uint256{}, txs: map[common.Uint256]uint32{}}
	}
	for i := len(path) - 1; i >= 0; i-- {
		v.apply(path[i])
	}
	if len(h.viewOrder) >= 24 {
		old := h.viewOrder[0]
		h.viewOrder = h.viewOrder[1:]
		delete(h.views, old)
	}
	h.views[hash] = v
	h.viewOrder = append(h.viewOrder, hash)
	return v
}

func (h *hist) setTip(hash common.Uint256) {
	h.tip = hash
	b := h.blocks[hash]
	act := make([]common.Uint256, b.height+1)
	for cur := b; ; cur = h.blocks[cur.parent] {
		act[cur.height] = cur.hash
		if cur.height == 0 {
			break
		}
	}
	h.active = act
}

func (h *hist) onActive(b *hBlock) bool {
	return int(b.height) < len(h.active) && h.active[b.height] == b.hash
}

func (h *hist) forkHeight(a, b *hBlock) uint32 {
	for a.hash != b.hash {
		if a.height >= b.height && a.height > 0 {
			a = h.blocks[a.parent]
		} else if b.height > 0 {
			b = h.blocks[b.parent]
		} else {
			break
		}
	}
	return a.height
}

// build assembles a block on parent with the given txs.
func (h *hist) build(parent *hBlock, txs []*hTx, fees common.Fixed64, valid bool, adv string) *hBlock {
	var list []interfaces.Transaction
	for _, t := range txs {
		list = append(list, t.tx)
		h.regTx(t.tx)
	}
	h.nonce++
	blk, err := h.nd.Assemble(node.BlockSpec{Parent: parent.blk, Txs: list, Fees: fees, Nonce: h.nonce})
	if err != nil {
		h.c.Note("assemble failed: %v", err)
		return nil
	}
	b := &hBlock{blk: blk, hash: blk.Hash(), parent: parent.hash, height: parent.height + 1, valid: valid, adv: adv, seq: len(h.order)}
	h.blocks[b.hash] = b
	h.order = append(h.order, b)
	h.regTx(blk.Transactions[0])
	return b
}

func sumFees(txs []*hTx) common.Fixed64 {
	var f common.Fixed64
	for _, t := range txs {
		f += t.fee
	}
	return f
}

// mine builds an honest block on the model tip and delivers it.
func (h *hist) mine(txs []*hTx, kind string) *hBlock {
	b := h.build(h.tipBlock(), txs, sumFees(txs), true, "")
	if b == nil {
		return nil
	}
	h.deliver(b)
	h.c.Inc("blocks_honest_tip")
	return b
}

// modelDeliver mirrors the node's block acceptance rules for blocks that are
// valid by construction (and adversarial direct tip extensions).
func (h *hist) modelDeliver(b *hBlock) (orphan bool) {
	if p, ok := h.blocks[b.parent]; !ok || p.state != stKnown {
		b.state = stOrphan
		h.orph[b.parent] = append(h.orph[b.parent], b)
		return true
	}
	queue := []*hBlock{b}
	for len(queue) > 0 {
		x := queue[0]
		queue = queue[1:]
		if x.parent == h.tip {
			if !x.valid {
				x.state = stRejected
				return false
			}
			x.state = stKnown
			h.setTip(x.hash)
		} else {
			x.state = stKnown
			t := h.tipBlock()
			if x.height > t.height {
				depth := t.height - h.forkHeight(x, t)
				h.c.Inc("reorgs")
				h.c.Max("max:reorg_depth", int64(depth))
				h.c.Inc(fmt.Sprintf("reorg_depth_%d", depth))
				h.setTip(x.hash)
			} else {
				h.c.Inc("side_blocks_stored")
			}
		}
		queue = append(queue, h.orph[x.hash]...)
		delete(h.orph, x.hash)
	}
	return false
}

func (h *hist) desync(format string, a ...interface{}) {
	h.c.Inc("model_desync")
	h.c.Note("model desync at step %d: %s", h.stepNo, fmt.Sprintf(format, a...))
	h.stopped = true
}

// deliver hands a block to the node and compares with the prediction.
func (h *hist) deliver(b *hBlock) {
	if h.stopped || (b.state != stBuilt && b.state != stRejected) {
		return
	}
	nd := h.nd
	tip0, h0 := nd.Tip(), nd.Height()
	h.c.Begin("step %d deliver block h=%d adv=%q", h.stepNo, b.height, b.adv)
	_, isOrphan, err := nd.Process(b.blk)
	h.touched = true
	h.c.Inc("blocks_delivered")
	wasTipExt := b.parent == h.tip
	expOrphan := h.modelDeliver(b)
	tip1 := nd.Tip()
	if b.adv != "" {
		onChain := false
		if hh, e := nd.Chain.GetBlockHash(b.height); e == nil && hh == b.hash {
			onChain = true
		}
		res := hAdvResult{Err: err, TipUnchanged: tip1 == tip0, OnChain: onChain, Height0: h0, Height1: nd.Height()}
		if err != nil && res.TipUnchanged {
			h.c.Inc("adv_block_rejected_" + b.adv)
			h.c.Inc("adv_blocks_rejected")
		}
		if h.onAdvBlock != nil {
			h.onAdvBlock(b.adv, res)
		}
		if !res.TipUnchanged {
			h.desync("adversarial block (%s) moved the tip", b.adv)
			return
		}
		_ = wasTipExt
		return
	}
	if err != nil {
		h.c.Inc("valid_block_rejected")
		h.desync("block valid by construction (h=%d, %d txs) rejected: %v", b.height, len(b.blk.Transactions), err)
		return
	}
	if expOrphan != isOrphan {
		h.desync("orphan prediction %v, node said %v", expOrphan, isOrphan)
		return
	}
	if expOrphan {
		h.c.Inc("orphans_delivered")
	}
	if tip1 != h.tip {
		h.desync("tip prediction %s (h=%d), node tip %s (h=%d)", h.tip.String()[:12], h.tipBlock().height, tip1.String()[:12], nd.Height())
		return
	}
	if !isOrphan && h.mode == hModePost {
		nd.PostBlock(b.blk)
	}
}

// ---------- transaction construction ----------

type hCand struct {
	k node.OutKey
	o hOut
}

func keyLess(a, b node.OutKey) bool {
	if c := bytes.Compare(a.TxID[:], b.TxID[:]); c != 0 {
		return c < 0
	}
	return a.Index < b.Index
}

func (h *hist) mature(v *hView, o hOut) bool {
	return !o.Coinbase || v.height-o.Height >= h.matur
}

// spendables lists, deterministically ordered, the outputs of the view that the
// harness can spend in the next block.
func (h *hist) spendables(v *hView, used map[node.OutKey]bool) []hCand {
	var cs []hCand
	for k, o := range v.unspent {
		if used[k] || h.byPH[o.Owner] == nil || !h.mature(v, o) {
			continue
		}
		cs = append(cs, hCand{k, o})
	}
	sort.Slice(cs, func(i, j int) bool { return keyLess(cs[i].k, cs[j].k) })
	return cs
}

func (h *hist) poolUsed() map[node.OutKey]bool {
	used := map[node.OutKey]bool{}
	for _, tx := range h.nd.TxPool.GetTxsInPool() {
		for _, in := range tx.Inputs() {
			used[node.OutKey{TxID: in.Previous.TxID, Index: in.Previous.Index}] = true
		}
	}
	return used
}

func (h *hist) user() *account.Account { return h.users[h.r.Intn(len(h.users))] }

func (h *hist) refOf(c hCand) node.UTXORef {
	return node.UTXORef{TxID: c.k.TxID, Index: c.k.Index, Value: c.o.Value, Owner: h.byPH[c.o.Owner]}
}

func (h *hist) version() common2.TransactionVersion {
	if h.r.Intn(2) == 0 {
		return common2.TxVersion09
	}
	return common2.TxVersionDefault
}

// outputsFor splits total over outputs of the given shape.
func (h *hist) outputsFor(shape string, total common.Fixed64) []node.Out {
	r := h.r
	var outs []node.Out
	split := func(m int, to func(i int) common.Uint168, zero func(i int) bool) {
		rem := total
		for i := 0; i < m; i++ {
			var val common.Fixed64
			switch {
			case zero(i):
				val = 0
			case i == m-1:
				val = rem
			default:
				if rem > 0 {
					val = common.Fixed64(r.Int63n(int64(rem)/int64(m-i)*2 + 1))
					if val > rem {
						val = rem
					}
				}
			}
			rem -= val
			outs = append(outs, node.Out{To: to(i), Value: val})
		}
		if rem > 0 { // last output was forced to zero: give the rest to output 0
			outs[0].Value += rem
		}
	}
	never := func(int) bool { return false }
	switch shape {
	case "zero":
		m := 3 + r.Intn(4)
		a := h.user().ProgramHash
		z1, z2 := r.Intn(m), r.Intn(m)
		split(m, func(i int) common.Uint168 {
			if i == z1 || i == (z1+1)%m { // a zero-value and a valued output to the same address
				return a
			}
			return h.user().ProgramHash
		}, func(i int) bool { return i == z1 || i == z2 })
		h.c.Inc("tx_with_zero_value_outputs")
	case "same":
		m := 3 + r.Intn(4)
		a := h.user().ProgramHash
		split(m, func(int) common.Uint168 { return a }, never)
		h.c.Inc("tx_repeated_outputs_same_address")
	case "many":
		m := 257 + r.Intn(70)
		as := []common.Uint168{h.user().ProgramHash, h.user().ProgramHash, h.user().ProgramHash}
		rem := total
		for i := 0; i < m; i++ {
			var val common.Fixed64
			if i == m-1 {
				val = rem
			} else if r.Intn(10) != 0 {
				val = common.Fixed64(20000 + r.Int63n(50000))
				if val > rem {
					val = rem
				}
			}
			rem -= val
			outs = append(outs, node.Out{To: as[r.Intn(len(as))], Value: val})
		}
		h.manyTx++
		h.c.Inc("tx_many_outputs_index_gt_255")
	default:
		split(1+r.Intn(4), func(int) common.Uint168 { return h.user().ProgramHash }, never)
	}
	return outs
}

// mkTx builds a transfer that is valid on the view. prefer = outpoints to pick
// first (contested ones).
func (h *hist) mkTx(v *hView, used map[node.OutKey]bool, shape string, prefer map[node.OutKey]bool) *hTx {
	r := h.r
	cs := h.spendables(v, used)
	if len(cs) == 0 {
		return nil
	}
	var ins []hCand
	taken := map[node.OutKey]bool{}
	take := func(c hCand) {
		if !taken[c.k] {
			taken[c.k] = true
			ins = append(ins, c)
		}
	}
	if shape == "full" {
		// all still-unspent outputs of one transaction (empties its entry)
		by := map[common.Uint256][]hCand{}
		var ids []common.Uint256
		for _, c := range cs {
			if _, ok := by[c.k.TxID]; !ok {
				ids = append(ids, c.k.TxID)
			}
			by[c.k.TxID] = append(by[c.k.TxID], c)
		}
		total := map[common.Uint256]int{}
		for k := range v.unspent {
			total[k.TxID]++
		}
		var ok []common.Uint256
		for _, id := range ids {
			if len(by[id]) == total[id] && len(by[id]) <= 400 {
				ok = append(ok, id)
			}
		}
		if len(ok) == 0 {
			shape = "plain"
		} else {
			// prefer entries with several outputs
			id := ok[r.Intn(len(ok))]
			for try := 0; try < 4 && len(by[id]) < 2; try++ {
				id = ok[r.Intn(len(ok))]
			}
			for _, c := range by[id] {
				take(c)
			}
			if len(ins) > 255 {
				h.c.Inc("tx_sweeps_over_255_inputs")
			}
			h.c.Inc("tx_full_spend_of_entry")
		}
	}
	if len(ins) == 0 {
		n := 1 + r.Intn(3)
		var pref []hCand
		for _, c := range cs {
			if prefer[c.k] {
				pref = append(pref, c)
			}
		}
		for i := 0; i < n; i++ {
			if len(pref) > 0 && r.Intn(5) != 0 {
				j := r.Intn(len(pref))
				if !taken[pref[j].k] {
					h.c.Inc("contested_outpoints_spent")
				}
				take(pref[j])
			} else {
				take(cs[r.Intn(len(cs))])
			}
		}
	}
	fee := h.minFee + common.Fixed64(r.Int63n(400))
	var sum common.Fixed64
	for _, c := range ins {
		sum += c.o.Value
	}
	need := fee + 1
	if shape == "many" {
		need = fee + 400*70000
	}
	for i := 0; sum < need && i < len(cs); i++ {
		c := cs[(i*7+r.Intn(len(cs)))%len(cs)]
		if c.o.Value > 0 && !taken[c.k] {
			take(c)
			sum += c.o.Value
		}
	}
	if sum < need {
		if shape == "many" && sum >= fee+1 {
			shape = "plain"
		} else {
			return nil
		}
	}
	for _, c := range ins {
		if c.o.Value == 0 {
			h.c.Inc("zero_value_outputs_spent")
		}
		if c.k.Index > 255 {
			h.c.Inc("high_index_outputs_spent")
		}
		if c.o.Coinbase {
			h.c.Inc("mature_coinbase_outputs_spent")
		}
	}
	outs := h.outputsFor(shape, sum-fee)
	var refs []node.UTXORef
	var keys []node.OutKey
	for _, c := range ins {
		refs = append(refs, h.refOf(c))
		keys = append(keys, c.k)
		used[c.k] = true
	}
	tx := node.Transfer(refs, outs, h.version())
	h.regTx(tx)
	h.c.Inc("tx_built_" + shape)
	return &hTx{tx: tx, ins: keys, fee: fee, shape: shape}
}

func (h *hist) pickShape() string {
	switch x := h.r.Intn(20); {
	case x < 6:
		return "plain"
	case x < 10:
		return "zero"
	case x < 13:
		return "same"
	case x < 17:
		return "full"
	default:
		if h.manyTx < 6 {
			return "many"
		}
		return "full"
	}
}

func (h *hist) submit(tx interfaces.Transaction) error {
	h.c.Begin("step %d submit tx", h.stepNo)
	err := h.nd.TxPool.AppendToTxPool(tx)
	h.touched = true
	h.c.Inc("pool_submissions")
	if h.onSubmit != nil {
		h.onSubmit()
	}
	if err != nil {
		return err
	}
	return nil
}

// ---------- steps ----------

func (h *hist) stepHonest() {
	v := h.viewAt(h.tip)
	used := h.poolUsed()
	var txs []*hTx
	for i, n := 0, h.r.Intn(4); i < n; i++ {
		t := h.mkTx(v, used, h.pickShape(), nil)
		if t == nil {
			continue
		}
		if h.r.Intn(4) != 0 {
			if err := h.submit(t.tx); err != nil {
				h.c.Inc("honest_tx_pool_rejected")
				h.c.Note("step %d: honest tx (%s) rejected by mempool: %v", h.stepNo, t.shape, err)
				continue
			}
			h.c.Inc("honest_tx_pool_accepted")
		}
		txs = append(txs, t)
	}
	h.mine(txs, "honest")
}

// stepMinePool mines what the node's own mempool holds (as far as the model
// says it is valid on the tip).
func (h *hist) stepMinePool() {
	v := h.viewAt(h.tip)
	pool := h.nd.TxPool.GetTxsInPool()
	sort.Slice(pool, func(i, j int) bool { a, b := pool[i].Hash(), pool[j].Hash(); return bytes.Compare(a[:], b[:]) < 0 })
	used := map[node.OutKey]bool{}
	var txs []*hTx
	for _, tx := range pool {
		ok := true
		var in, out common.Fixed64
		var keys []node.OutKey
		for _, i := range tx.Inputs() {
			k := node.OutKey{TxID: i.Previous.TxID, Index: i.Previous.Index}
			o, has := v.unspent[k]
			if !has || used[k] || !h.mature(v, o) {
				ok = false
				break
			}
			in += o.Value
			keys = append(keys, k)
		}
		if _, dup := v.txs[tx.Hash()]; dup || !ok {
			h.c.Inc("pool_tx_not_minable_by_model")
			continue
		}
		for _, o := range tx.Outputs() {
			out += o.Value
		}
		for _, k := range keys {
			used[k] = true
		}
		txs = append(txs, &hTx{tx: tx, ins: keys, fee: in - out})
		if len(txs) >= 6 {
			break
		}
	}
	h.c.Count("pool_txs_mined", int64(len(txs)))
	h.mine(txs, "minepool")
}

func (h *hist) stepEmpty() {
	for i, n := 0, 1+h.r.Intn(3); i < n && !h.stopped; i++ {
		h.mine(nil, "empty")
	}
}

// sideTips lists delivered, valid, non-active blocks without delivered children near the tip.
func (h *hist) sideTips() []*hBlock {
	t := h.tipBlock()
	hasChild := map[common.Uint256]bool{}
	for _, b := range h.order {
		if b.state == stKnown {
			hasChild[b.parent] = true
		}
	}
	var out []*hBlock
	for _, b := range h.order {
		if b.state == stKnown && b.valid && !h.onActive(b) && !hasChild[b.hash] &&
			b.height+8 >= t.height && b.height >= h.baseHeight {
			out = append(out, b)
		}
	}
	return out
}

func (h *hist) stepFork() {
	r := h.r
	t := h.tipBlock()
	var parent *hBlock
	if st := h.sideTips(); len(st) > 0 && r.Intn(3) == 0 {
		parent = st[r.Intn(len(st))]
		if t.height-h.forkHeight(parent, t) > 8 {
			parent = nil
		} else {
			h.c.Inc("forks_extending_losing_branch")
		}
	}
	if parent == nil {
		maxd := int(t.height - h.baseHeight)
		if maxd > 8 {
			maxd = 8
		}
		if maxd < 1 {
			h.stepHonest()
			return
		}
		d := 1 + r.Intn(maxd)
		parent = h.blocks[h.active[t.height-uint32(d)]]
	}
	heavier := r.Intn(5) < 3
	var L int
	gap := int(t.height) - int(parent.height) // >= 0 (side tips may be at tip height)
	if heavier {
		L = gap + 1 + r.Intn(2)
	} else {
		if gap < 1 {
			heavier = true
			L = 1
		} else {
			L = 1 + r.Intn(gap)
		}
	}
	if L > 10 {
		L = 10
	}
	tipView := h.viewAt(h.tip)
	poolUsed := h.poolUsed()
	fh := h.forkHeight(parent, t)
	cur := parent
	var branch []*hBlock
	for i := 0; i < L; i++ {
		v := h.viewAt(cur.hash)
		// contested: unspent here, but spent on the active branch (or claimed by a pool tx)
		prefer := map[node.OutKey]bool{}
		for k := range v.unspent {
			if _, sp := tipView.spentBy[k]; sp || poolUsed[k] {
				prefer[k] = true
			}
		}
		used := map[node.OutKey]bool{}
		var txs []*hTx
		// sometimes the very same transaction as on the active branch
		if r.Intn(3) == 0 {
			for hgt := fh + 1; hgt <= t.height && len(txs) == 0; hgt++ {
				ab := h.blocks[h.active[hgt]]
				for _, tx := range ab.blk.Transactions[1:] {
					if _, dup := v.txs[tx.Hash()]; dup {
						continue
					}
					ok := true
					var in, out common.Fixed64
					var keys []node.OutKey
					for _, inp := range tx.Inputs() {
						k := node.OutKey{TxID: inp.Previous.TxID, Index: inp.Previous.Index}
						o, has := v.unspent[k]
						if !has || used[k] || !h.mature(v, o) {
							ok = false
							break
						}
						in += o.Value
						keys = append(keys, k)
					}
					if !ok {
						continue
					}
					for _, o := range tx.Outputs() {
						out += o.Value
					}
					for _, k := range keys {
						used[k] = true
					}
					txs = append(txs, &hTx{tx: tx, ins: keys, fee: in - out})
					h.c.Inc("same_tx_on_two_branches")
					break
				}
			}
		}
		for j, n := 0, r.Intn(4); j < n; j++ {
			if tx := h.mkTx(v, used, h.pickShape(), prefer); tx != nil {
				txs = append(txs, tx)
			}
		}
		b := h.build(cur, txs, sumFees(txs), true, "")
		if b == nil {
			break
		}
		branch = append(branch, b)
		cur = b
	}
	if len(branch) == 0 {
		return
	}
	h.c.Inc("branches_built")
	h.c.Max("max:branch_length", int64(len(branch)))
	if heavier {
		h.c.Inc("branches_built_heavier")
	}
	switch r.Intn(10) {
	case 0, 1, 2, 3: // in order, now
		h.c.Inc("branch_delivery_in_order")
		for _, b := range branch {
			h.deliver(b)
		}
	case 4, 5: // children first: the branch arrives when its first block does
		h.c.Inc("branch_delivery_reversed")
		for i := len(branch) - 1; i >= 0; i-- {
			h.deliver(branch[i])
		}
	case 6: // shuffled
		h.c.Inc("branch_delivery_shuffled")
		p := r.Perm(len(branch))
		for _, i := range p {
			h.deliver(branch[i])
		}
	default: // later
		h.c.Inc("branch_delivery_deferred")
		h.pending = append(h.pending, branch...)
	}
}

func (h *hist) stepDeliverPending() {
	if len(h.pending) == 0 {
		h.stepFork()
		return
	}
	r := h.r
	n := 1 + r.Intn(len(h.pending))
	if r.Intn(3) == 0 { // out of order
		r.Shuffle(len(h.pending), func(i, j int) { h.pending[i], h.pending[j] = h.pending[j], h.pending[i] })
		h.c.Inc("pending_delivery_shuffled")
	}
	batch := h.pending[:n]
	h.pending = append([]*hBlock{}, h.pending[n:]...)
	for _, b := range batch {
		h.deliver(b)
	}
}

func (h *hist) flushPending() {
	sort.Slice(h.pending, func(i, j int) bool { return h.pending[i].seq < h.pending[j].seq })
	for _, b := range h.pending {
		h.deliver(b)
	}
	h.pending = nil
}

var hAdvKinds = []string{"dup-input-in-tx", "dup-input-across-txs", "spent-on-active-chain", "only-on-losing-branch", "never-created", "index-out-of-range", "immature-coinbase"}

// advTxs builds the transactions of one adversarial case on the tip view.
// fees is the fee total as the node's own arithmetic would compute it, so the
// block is valid in every other respect.
func (h *hist) advTxs(kind string, v *hView, used map[node.OutKey]bool) (txs []*hTx, ok bool) {
	r := h.r
	cs := h.spendables(v, used)
	var valued []hCand
	for _, c := range cs {
		if c.o.Value > 10000 {
			valued = append(valued, c)
		}
	}
	fee := h.minFee + common.Fixed64(r.Int63n(300))
	single := func(ref node.UTXORef) *hTx {
		tx := node.Transfer([]node.UTXORef{ref}, []node.Out{{To: h.user().ProgramHash, Value: ref.Value - fee}}, h.version())
		h.regTx(tx)
		return &hTx{tx: tx, fee: fee}
	}
	switch kind {
	case "dup-input-in-tx":
		if len(valued) == 0 {
			return nil, false
		}
		c := valued[r.Intn(len(valued))]
		ref := h.refOf(c)
		refs := []node.UTXORef{ref, ref}
		total := 2*c.o.Value - fee
		if r.Intn(2) == 0 && len(valued) > 1 { // a third, distinct input in between
			o := valued[r.Intn(len(valued))]
			if o.k != c.k {
				refs = []node.UTXORef{ref, h.refOf(o), ref}
				total += o.o.Value
			}
		}
		tx := node.Transfer(refs, []node.Out{{To: h.user().ProgramHash, Value: total}}, h.version())
		h.regTx(tx)
		return []*hTx{{tx: tx, fee: fee}}, true
	case "dup-input-across-txs":
		if len(valued) == 0 {
			return nil, false
		}
		c := valued[r.Intn(len(valued))]
		t1 := single(h.refOf(c))
		refs := []node.UTXORef{h.refOf(c)}
		total := c.o.Value - fee
		if r.Intn(2) == 0 && len(valued) > 1 {
			o := valued[r.Intn(len(valued))]
			if o.k != c.k {
				refs = append(refs, h.refOf(o))
				total += o.o.Value
			}
		}
		tx2 := node.Transfer(refs, []node.Out{{To: h.user().ProgramHash, Value: total - 1}}, h.version())
		h.regTx(tx2)
		txs = []*hTx{t1, {tx: tx2, fee: fee + 1}}
		if r.Intn(2) == 0 { // an honest tx in between
			u2 := map[node.OutKey]bool{c.k: true}
			for k := range used {
				u2[k] = true
			}
			for _, x := range refs {
				u2[node.OutKey{TxID: x.TxID, Index: x.Index}] = true
			}
			if ht := h.mkTx(v, u2, "plain", nil); ht != nil {
				txs = []*hTx{t1, ht, txs[1]}
			}
		}
		return txs, true
	case "spent-on-active-chain":
		var ks []node.OutKey
		for k := range v.spentBy {
			if tx, has := h.allTx[k.TxID]; has && int(k.Index) < len(tx.Outputs()) {
				o := tx.Outputs()[k.Index]
				if h.byPH[o.ProgramHash] != nil && o.Value > 10000 {
					ks = append(ks, k)
				}
			}
		}
		if len(ks) == 0 {
			return nil, false
		}
		sort.Slice(ks, func(i, j int) bool { return keyLess(ks[i], ks[j]) })
		k := ks[r.Intn(len(ks))]
		o := h.allTx[k.TxID].Outputs()[k.Index]
		return []*hTx{single(node.UTXORef{TxID: k.TxID, Index: k.Index, Value: o.Value, Owner: h.byPH[o.ProgramHash]})}, true
	case "only-on-losing-branch":
		var refs []node.UTXORef
		for _, b := range h.order {
			if b.state != stKnown || h.onActive(b) {
				continue
			}
			for _, tx := range b.blk.Transactions[1:] {
				id := tx.Hash()
				if _, on := v.txs[id]; on {
					continue
				}
				for i, o := range tx.Outputs() {
					if h.byPH[o.ProgramHash] != nil && o.Value > 10000 {
						refs = append(refs, node.UTXORef{TxID: id, Index: uint16(i), Value: o.Value, Owner: h.byPH[o.ProgramHash]})
						break
					}
				}
			}
		}
		if len(refs) == 0 {
			return nil, false
		}
		return []*hTx{single(refs[r.Intn(len(refs))])}, true
	case "never-created":
		var id common.Uint256
		r.Read(id[:])
		return []*hTx{single(node.UTXORef{TxID: id, Index: uint16(r.Intn(3)), Value: common.Fixed64(1e8), Owner: h.user()})}, true
	case "index-out-of-range":
		if len(cs) == 0 {
			return nil, false
		}
		c := cs[r.Intn(len(cs))]
		n := len(h.allTx[c.k.TxID].Outputs())
		idx := uint16(n)
		if r.Intn(2) == 0 {
			idx = 65535
		}
		return []*hTx{single(node.UTXORef{TxID: c.k.TxID, Index: idx, Value: common.Fixed64(1e8), Owner: h.byPH[c.o.Owner]})}, true
	case "immature-coinbase":
		var im []hCand
		for k, o := range v.unspent {
			if o.Coinbase && !h.mature(v, o) && h.byPH[o.Owner] != nil && o.Value > 10000 {
				im = append(im, hCand{k, o})
			}
		}
		if len(im) == 0 {
			return nil, false
		}
		sort.Slice(im, func(i, j int) bool { return keyLess(im[i].k, im[j].k) })
		return []*hTx{single(h.refOf(im[r.Intn(len(im))]))}, true
	}
	return nil, false
}

func (h *hist) stepAdvBlock() {
	kind := hAdvKinds[h.r.Intn(len(hAdvKinds))]
	v := h.viewAt(h.tip)
	used := h.poolUsed()
	txs, ok := h.advTxs(kind, v, used)
	if !ok {
		h.c.Inc("adv_case_not_constructible")
		h.stepHonest()
		return
	}
	// optionally surround with honest transactions
	if h.r.Intn(2) == 0 {
		u2 := map[node.OutKey]bool{}
		for k := range used {
			u2[k] = true
		}
		for _, t := range txs {
			for _, in := range t.tx.Inputs() {
				u2[node.OutKey{TxID: in.Previous.TxID, Index: in.Previous.Index}] = true
			}
		}
		if ht := h.mkTx(v, u2, h.pickShape(), nil); ht != nil {
			if h.r.Intn(2) == 0 {
				txs = append([]*hTx{ht}, txs...)
			} else {
				txs = append(txs, ht)
			}
		}
	}
	b := h.build(h.tipBlock(), txs, sumFees(txs), false, kind)
	if b == nil {
		return
	}
	h.c.Inc("adv_blocks_delivered")
	h.deliver(b)
}

// stepPool: conflicting pairs and adversarial submissions to the mempool.
func (h *hist) stepPool() {
	r := h.r
	v := h.viewAt(h.tip)
	used := h.poolUsed()
	if len(h.nd.TxPool.GetTxsInPool()) > 10 {
		h.stepMinePool()
		return
	}
	switch r.Intn(3) {
	case 0, 1: // conflicting pair
		t1 := h.mkTx(v, used, "plain", nil)
		if t1 == nil {
			return
		}
		cs := h.spendables(v, used)
		// t2 shares the first input of t1, optionally plus a fresh one
		var shared hCand
		o := v.unspent[t1.ins[0]]
		shared = hCand{t1.ins[0], o}
		refs := []node.UTXORef{h.refOf(shared)}
		total := o.Value
		kind := "same-outpoint"
		if len(cs) > 0 && r.Intn(2) == 0 {
			x := cs[r.Intn(len(cs))]
			refs = append(refs, h.refOf(x))
			total += x.o.Value
			kind = "partial-overlap"
		}
		if total <= h.minFee {
			return
		}
		tx2 := node.Transfer(refs, []node.Out{{To: h.user().ProgramHash, Value: total - h.minFee - 1}}, h.version())
		h.regTx(tx2)
		first, second := t1.tx, tx2
		if r.Intn(2) == 0 {
			first, second = second, first
		}
		e1 := h.submit(first)
		e2 := h.submit(second)
		h.c.Inc("pool_conflict_pairs_" + kind)
		if e1 == nil {
			h.c.Inc("pool_conflict_first_admitted")
		}
		if e2 != nil {
			h.c.Inc("pool_conflict_second_rejected")
		}
		if h.onPair != nil {
			h.onPair(kind, e1, e2)
		}
	default: // adversarial transactions offered to the mempool
		kinds := []string{"dup-input-in-tx", "spent-on-active-chain", "only-on-losing-branch", "never-created", "index-out-of-range"}
		kind := kinds[r.Intn(len(kinds))]
		txs, ok := h.advTxs(kind, v, used)
		if !ok {
			h.c.Inc("adv_case_not_constructible")
			return
		}
		err := h.submit(txs[0].tx)
		h.c.Inc("adv_tx_submitted")
		if err != nil {
			h.c.Inc("adv_tx_rejected_" + kind)
		}
		if h.onAdvTx != nil {
			h.onAdvTx(kind, err)
		}
	}
}

// stepConcurrent: 8 goroutines race conflicting spends of the same 3 outpoints
// into AppendToTxPool.
func (h *hist) stepConcurrent() {
	const G = 8
	v := h.viewAt(h.tip)
	used := h.poolUsed()
	cs := h.spendables(v, used)
	var pick []hCand
	for _, i := range h.r.Perm(len(cs)) {
		if cs[i].o.Value > 100000 {
			pick = append(pick, cs[i])
			if len(pick) == 3 {
				break
			}
		}
	}
	if len(pick) < 3 {
		h.c.Inc("concurrent_not_constructible")
		return
	}
	var txs [G][3]interfaces.Transaction
	for g := 0; g < G; g++ {
		for j := 0; j < 3; j++ {
			fee := h.minFee + common.Fixed64(g+1)
			tx := node.Transfer([]node.UTXORef{h.refOf(pick[j])},
				[]node.Out{{To: h.users[g%len(h.users)].ProgramHash, Value: pick[j].o.Value - fee}}, common2.TxVersion09)
			h.regTx(tx)
			txs[g][j] = tx
		}
	}
	h.c.Begin("step %d concurrent submissions", h.stepNo)
	var wg sync.WaitGroup
	var mu sync.Mutex
	admitted := make([]int, 3)
	start := make(chan struct{})
	for g := 0; g < G; g++ {
		wg.Add(1)
		go func(g int) {
			defer wg.Done()
			<-start
			for i := 0; i < 3; i++ {
				j := (g + i) % 3
				if err := h.nd.TxPool.AppendToTxPool(txs[g][j]); err == nil {
					mu.Lock()
					admitted[j]++
					mu.Unlock()
				}
			}
		}(g)
	}
	close(start)
	wg.Wait()
	h.touched = true
	h.c.Inc("concurrent_rounds")
	h.c.Count("concurrent_submissions", G*3)
	for _, a := range admitted {
		h.c.Count("concurrent_admissions", int64(a))
	}
	if h.onConcurrent != nil {
		h.onConcurrent(admitted, G)
	}
	// Which goroutine won is scheduling-dependent. Confirm goroutine 0's three
	// transactions in a block right away: the pool's winners are evicted by the
	// cleanup and the history stays a function of the seed.
	var fixed []*hTx
	for j := 0; j < 3; j++ {
		fixed = append(fixed, &hTx{tx: txs[0][j], ins: []node.OutKey{pick[j].k}, fee: h.minFee + 1})
	}
	h.mine(fixed, "concurrent-resolve")
}

// run drives n steps; the oracle hook runs after every step.
func (h *hist) run(n int) {
	h.after("bootstrap")
	for i := 0; i < n && !h.stopped; i++ {
		h.stepNo = i
		h.touched = false
		kind := ""
		switch x := h.r.Intn(100); {
		case i%40 == 17:
			kind = "concurrent"
			h.stepConcurrent()
		case x < 26:
			kind = "honest"
			h.stepHonest()
		case x < 50:
			kind = "fork"
			h.stepFork()
		case x < 60:
			kind = "deliver-pending"
			h.stepDeliverPending()
		case x < 76:
			kind = "adv-block"
			h.stepAdvBlock()
		case x < 88:
			kind = "pool"
			h.stepPool()
		case x < 94:
			kind = "mine-pool"
			h.stepMinePool()
		default:
			kind = "empty"
			h.stepEmpty()
		}
		h.c.Inc("steps")
		h.c.Inc("step_" + kind)
		h.after(kind)
	}
	if !h.stopped {
		h.stepNo = n
		h.touched = false
		h.flushPending()
		h.after("final-flush")
	}
	h.c.Max("max:chain_height", int64(h.nd.Height()))
	h.c.Count("blocks_built", int64(len(h.order)-1))
	h.c.Count("txids_known", int64(len(h.txOrder)))
}

func (h *hist) after(kind string) {
	if h.onStep != nil {
		h.onStep(kind)
	}
}

// chainAgrees compares the node's active chain (as fetched back by Replay)
// with the model's prediction; a difference is a harness-level desync, not a
// property violation.
func (h *hist) chainAgrees(l *node.Ledger) bool {
	if h.stopped {
		return false
	}
	if len(l.Hashes) != len(h.active) {
		h.desync("node chain length %d, model %d", len(l.Hashes), len(h.active))
		return false
	}
	for i := range l.Hashes {
		if l.Hashes[i] != h.active[i] {
			h.desync("node block at height %d differs from the model", i)
			return false
		}
	}
	return true
}

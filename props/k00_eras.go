package props

import (
	"fmt"
	"math"
	"os"
	"time"

	"github.com/elastos/Elastos.ELA/account"
	"github.com/elastos/Elastos.ELA/common"
	common2 "github.com/elastos/Elastos.ELA/core/types/common"
	"github.com/elastos/Elastos.ELA/core/types/interfaces"
	"github.com/elastos/Elastos.ELA/core/types/payload"
	crstate "github.com/elastos/Elastos.ELA/cr/state"
	"github.com/elastos/Elastos.ELA/dpos/state"

	"verif/kit"
	"verif/kit/node"
)

// K00 — self-test of kit/node/{eras,txs,wallet}.go (not a property).
// shard i runs era i: a scripted history that exercises every factory
// function through the real mempool and real (confirmed) blocks.

func init() {
	kit.Register(&kit.Spec{
		ID:     "K00",
		Rule:   "smoke test of the compressed-era schedules and the tx factory: one scripted history per era (shard i = era i); a case = one submitted transaction (non-trivial = accepted by the mempool and mined)",
		Shards: func(tier string) int { return len(node.EraNames()) + 2 }, // + Bootstrap(dpos-era), Bootstrap(dposv2-era)
		Run:    runK00,
		Require: []string{"eras_run", "accepted:TransferAsset", "accepted:RegisterProducer", "accepted:RegisterCR", "accepted:CRCProposal",
			"accepted:ExchangeVotes", "accepted:Voting", "dpos_confirmed_blocks", "irreversible_advanced", "cr_committee_elected", "dposv2_active", "bootstrap_ok:dpos-era", "bootstrap_ok:dposv2-era"},
		TimeoutS: func(tier string) int { return 300 },
		Race:     os.Getenv("K00_RACE") != "",
	})
}

type k00 struct {
	c     *kit.Ctx
	nd    *node.Node
	era   *node.Era
	name  string
	w     *node.Wallet
	pend  []interfaces.Transaction
	trf   *os.File
	fatal bool
}

func (k *k00) trace(f string, a ...interface{}) {
	if k.trf != nil {
		fmt.Fprintf(k.trf, "[%s h=%d] "+f+"\n", append([]interface{}{k.name, k.nd.Height()}, a...)...)
	}
}

// submit sends tx through the real mempool; accepted txs are mined by the next mine().
func (k *k00) submit(kind string, tx interfaces.Transaction) bool {
	k.c.Inc("submitted:" + kind)
	if err := k.nd.TxPool.AppendToTxPool(tx); err != nil {
		k.c.Inc("rejected:" + kind)
		k.c.Note("%s h=%d: mempool rejected %s: %v", k.name, k.nd.Height()+1, kind, err)
		k.trace("REJECT %s: %v", kind, err)
		k.c.Case(fmt.Sprintf("%s:%s:%d:rej", k.name, kind, k.nd.Height()), false)
		return false
	}
	k.pend = append(k.pend, tx)
	k.trace("pool accepted %s %s", kind, tx.Hash().String()[:12])
	k.c.Case(fmt.Sprintf("%s:%s:%s", k.name, kind, tx.Hash().String()), true)
	k.c.Inc("pool_accepted:" + kind)
	return true
}

// mine mines one block carrying the pending txs and checks they were included.
func (k *k00) mine() bool {
	if k.fatal {
		return false
	}
	pend := k.pend
	k.pend = nil
	needConfirm := k.nd.NeedsConfirm(k.nd.Height() + 1)
	b, err := k.nd.MineTipDPoS(pend...)
	if err != nil {
		k.c.Inconclusive("%s: mining height %d failed: %v", k.name, k.nd.Height()+1, err)
		k.trace("MINE FAILED: %v", err)
		k.fatal = true
		return false
	}
	if needConfirm {
		k.c.Inc("dpos_confirmed_blocks")
	} else {
		k.c.Inc("unconfirmed_blocks")
	}
	for _, tx := range b.Transactions[1:] {
		k.c.Inc("accepted:" + tx.TxType().Name())
	}
	if k.trf != nil {
		bh := b.Hash()
		line := fmt.Sprintf("BLOCK %d %s ts=%d:", b.Height, bh.String()[:16], b.Timestamp)
		for _, tx := range b.Transactions {
			th := tx.Hash()
			line += fmt.Sprintf(" %s/%s", tx.TxType().Name(), th.String()[:10])
		}
		fmt.Fprintln(k.trf, line)
	}
	st := k.nd.Chain.GetState()
	if st.GetLastIrreversibleHeight() > k.nd.Height() {
		k.c.Inc("observed:last_irreversible_height_above_tip")
		if k.c != nil {
			k.trace("SUSPECT: LastIrreversibleHeight %d > tip height %d", st.GetLastIrreversibleHeight(), k.nd.Height())
		}
	}
	k.trace("mined txs=%d confirm=%v pow=%v arbs=%d duty=%d lastIrr=%d v2active=%d elect=%v votingPeriod=%v", len(b.Transactions), needConfirm, k.nd.InPOWMode(),
		len(k.nd.Arbiters.GetArbitrators()), k.nd.Arbiters.GetDutyIndex(), st.GetLastIrreversibleHeight(), k.nd.Arbiters.GetDPoSV2ActiveHeight(),
		k.nd.Committee.IsInElectionPeriod(), k.nd.Committee.IsInVotingPeriod(k.nd.Height()+1))
	return true
}

func (k *k00) mineTo(h uint32) bool {
	for k.nd.Height() < h {
		if !k.mine() {
			return false
		}
	}
	return true
}

func (k *k00) take(a *account.Account) node.UTXORef {
	return k.w.MustTake(a, node.ELA(1))
}

func (k *k00) takeMin(a *account.Account, min common.Fixed64) node.UTXORef {
	return k.w.MustTake(a, min+node.DefaultFee)
}

func runK00(c *kit.Ctx) {
	if c.Shard >= len(node.EraNames()) {
		runK00Boot(c, node.EraNames()[1+(c.Shard-len(node.EraNames()))%2])
		return
	}
	name := node.EraNames()[c.Shard%len(node.EraNames())]
	nd, err := node.Start(node.Options{Dir: c.WorkDir, CoinbaseMaturity: 2, Tweak: node.EraTweak(name)})
	if err != nil {
		c.Inconclusive("node start (%s): %v", name, err)
		return
	}
	defer nd.Close()
	defer nd.UnhookEvents()
	c.Inc("eras_run")
	k := &k00{c: c, nd: nd, era: node.EraOf(name), name: name}
	if d := os.Getenv("K00_TRACE"); d != "" {
		k.trf, _ = os.Create(d + "/k00-" + name + ".log")
		defer k.trf.Close()
	}
	panicked, val, stack := kit.Guard(func() { k.script() })
	if panicked {
		c.Inconclusive("%s: script panicked at height %d: %v\n%s", name, nd.Height(), val, stack)
	}
	if v := os.Getenv("K00_LONG"); v != "" && name != "pow-era" && !k.fatal {
		// ad-hoc soak: keep mining empty blocks and report consensus mode changes
		var target uint32
		fmt.Sscan(v, &target)
		pow := nd.InPOWMode()
		for nd.Height() < target && k.mine() {
			if nd.InPOWMode() != pow {
				pow = nd.InPOWMode()
				c.Note("%s: soak: consensus POW=%v at height %d (election=%v members=%d arbiters=%d)", name, pow, nd.Height(), nd.Committee.IsInElectionPeriod(), len(nd.Committee.GetAllMembersCopy()), len(nd.Arbiters.GetArbitrators()))
			}
		}
		c.Note("%s: soak ended at %d pow=%v election=%v arbiters=%d lastIrr=%d", name, nd.Height(), nd.InPOWMode(), nd.Committee.IsInElectionPeriod(), len(nd.Arbiters.GetArbitrators()), nd.LastIrreversible())
	}
	c.Max("max:height:"+name, int64(nd.Height()))
	tip := nd.Tip()
	c.Sample(map[string]interface{}{"era": name, "height": nd.Height(), "tip": tip.String(), "last_irreversible": nd.LastIrreversible(),
		"dposv2_active_height": nd.Arbiters.GetDPoSV2ActiveHeight(), "pow_mode": nd.InPOWMode()})
	// ledger sanity over everything that was mined
	l := nd.Replay()
	for _, is := range l.Issues {
		if is.Kind == "issuance-total" {
			continue
		}
		c.Note("%s: ledger issue %s h=%d %s", name, is.Kind, is.Height, is.Detail)
		c.Inc("ledger_issue:" + is.Kind)
	}
}

const (
	nProducers = 8 // producers 0..7 (owner Key(200+i), node Key(300+i))
	nCR        = 6 // CR candidates 0..5 (Key(400+i))
)

func po(i int) *account.Account    { return node.Key(node.KeyProducerOwner + i) }
func pn(i int) *account.Account    { return node.Key(node.KeyProducerNode + i) }
func cr(i int) *account.Account    { return node.Key(node.KeyCR + i) }
func crn(i int) *account.Account   { return node.Key(node.KeyCRNode + i) }
func voter(i int) *account.Account { return node.Key(node.KeyVoter + i) }

func (k *k00) script() {
	nd, e := k.nd, k.era
	// ---- funding (every era) ----
	var idx []int
	for i := 0; i < nProducers; i++ {
		idx = append(idx, node.KeyProducerOwner+i)
	}
	for i := 0; i < nCR; i++ {
		idx = append(idx, node.KeyCR+i)
	}
	for i := 0; i < 6; i++ {
		idx = append(idx, node.KeyVoter+i)
	}
	refs, err := nd.Fund(idx, 8, node.ELA(6000))
	if err != nil {
		k.c.Inconclusive("%s: fund: %v", k.name, err)
		return
	}
	k.c.Count("funded_utxos", int64(len(refs)*8))
	k.w = nd.Wallet()
	// plain transfers in every era: v0 and v9
	for i, ver := range []common2.TransactionVersion{common2.TxVersionDefault, common2.TxVersion09} {
		in := k.take(voter(5))
		tx := node.Transfer([]node.UTXORef{in}, []node.Out{{To: voter(4).ProgramHash, Value: in.Value - node.DefaultFee}}, ver)
		k.submit(fmt.Sprintf("TransferAsset-v%d", i*9), tx)
	}
	k.mine()
	if k.name == "pow-era" {
		k.mineTo(40)
		return
	}

	// ---- DPoS v1: producers ----
	k.mineTo(e.VoteStart) // dpos state only processes blocks >= VoteStartHeight
	var regTx [nProducers]interfaces.Transaction
	for i := 0; i < nProducers; i++ {
		regTx[i] = node.RegisterProducer(k.takeMin(po(i), node.ELA(5000)), po(i), pn(i), fmt.Sprintf("producer-%d", i), node.ELA(5000))
		k.submit("RegisterProducer", regTx[i])
	}
	k.mine()
	k.mineTo(nd.Height() + 6) // pending -> active after 6 confirmations
	k.c.Count("active_producers", int64(len(nd.Chain.GetState().GetActiveProducers())))
	// votes (output payload v0 before CRVotingStartHeight)
	var votedPubs [][]byte
	for i := 0; i < nProducers; i++ {
		votedPubs = append(votedPubs, node.Pub(po(i)))
	}
	voteTx := node.VoteProducers(k.takeMin(voter(0), node.ELA(3000)), node.ELA(3000), votedPubs...)
	k.submit("Vote-Delegate-v0", voteTx)
	voteTx2 := node.VoteProducers(k.takeMin(voter(1), node.ELA(1000)), node.ELA(1000), votedPubs[:5]...)
	k.submit("Vote-Delegate-v0", voteTx2)
	k.submit("UpdateProducer", node.UpdateProducer(k.take(po(1)), po(1), pn(1), "producer-1-renamed", "http://renamed", 0))
	k.mine()
	// cancel vote by spending the vote output
	vo := node.OutRef(voteTx2, 0, voter(1))
	k.submit("CancelVote-by-spend", node.Transfer([]node.UTXORef{vo}, []node.Out{{To: voter(1).ProgramHash, Value: vo.Value - node.DefaultFee}}, common2.TxVersion09))
	// cancel producer 7, later return its deposit
	k.submit("CancelProducer", node.CancelProducer(k.take(po(7)), po(7)))
	k.mine()
	cancelHeight := nd.Height()

	// ---- H1: CRC-only DPoS (confirmed blocks) ----
	k.mineTo(e.CRCOnlyDPOS + 2)
	if nd.Height() >= cancelHeight+e.DepositLockup {
		// nothing
	}
	k.mineTo(cancelHeight + e.DepositLockup + 1)
	dep, _ := node.DepositRef(regTx[7], po(7))
	k.submit("ReturnDepositCoin-partial", node.ReturnDepositCoinAmount([]node.UTXORef{dep}, po(7), node.ELA(1000), 0))
	k.mine()
	if rest := k.w.UTXOs(node.DepositAddr(po(7))); len(rest) > 0 {
		k.submit("ReturnDepositCoin", node.ReturnDepositCoin(rest, po(7), 0))
		k.mine()
	}

	// ---- H2: public DPoS ----
	k.mineTo(e.PublicDPOS + 1)
	arbs := nd.Arbiters.GetArbitrators()
	k.c.Max("max:arbiters_after_H2", int64(len(arbs)))
	// take one elected producer offline until it is Inactive, then activate it
	var offI = -1
	for i := 0; i < nProducers-1 && offI < 0; i++ {
		for _, a := range arbs {
			if string(a.NodePublicKey) == string(node.Pub(pn(i))) {
				offI = i
			}
		}
	}
	if offI >= 0 {
		nd.SetOffline(false, pn(offI))
		for j := 0; j < 80; j++ {
			k.mine()
			if p := nd.Chain.GetState().GetProducer(node.Pub(po(offI))); p != nil && p.State() == state.Inactive {
				k.c.Inc("producer_became_inactive")
				break
			}
		}
		nd.SetOffline(true, pn(offI))
		k.submit("ActivateProducer", node.ActivateProducer(pn(offI)))
		k.mine()
	} else {
		k.c.Note("%s: no registered producer among arbiters after H2", k.name)
	}

	// ---- CR voting period ----
	k.mineTo(e.CRVotingStart)
	var crReg [nCR]interfaces.Transaction
	for i := 0; i < nCR; i++ {
		crReg[i] = node.RegisterCR(k.takeMin(cr(i), node.ELA(5000)), cr(i), fmt.Sprintf("cr-%d", i), node.ELA(5000))
		k.submit("RegisterCR", crReg[i])
	}
	// fund the CR assets address so that the committee has money to appropriate
	{
		in := k.takeMin(voter(2), node.ELA(5000))
		k.submit("TransferAsset-to-CRAssets", node.BuildTx(node.TxSpec{Type: common2.TransferAsset, Payload: &payload.TransferAsset{},
			Ins: []node.UTXORef{in}, Outs: []*common2.Output{node.StdOut(*nd.Cfg.CRConfiguration.CRAssetsProgramHash, node.ELA(5000))}}))
	}
	k.mine()
	k.mineTo(nd.Height() + 6)
	k.submit("UpdateCR", node.UpdateCR(k.take(cr(1)), cr(1), "cr-1-renamed", "http://cr1"))
	k.submit("UnregisterCR", node.UnregisterCR(k.take(cr(5)), cr(5)))
	crVotes := map[common.Uint168]common.Fixed64{}
	for i := 0; i < 5; i++ {
		crVotes[node.CIDOf(cr(i))] = node.ELA(int64(500 - 50*i))
	}
	k.submit("Vote-CRC-v1", node.VoteCRs(k.takeMin(voter(3), node.ELA(3000)), node.ELA(3000), crVotes))
	// producer votes with output payload v1 now allowed
	pv := map[string]common.Fixed64{}
	for i := 0; i < 6; i++ {
		pv[node.PubHex(po(i))] = node.ELA(int64(100 + i))
	}
	k.submit("Vote-Delegate-v1", node.VoteProducersV1(k.takeMin(voter(1), node.ELA(2000)), node.ELA(2000), pv))
	k.mine()
	unregHeight := nd.Height()
	k.mineTo(unregHeight + e.DepositLockup + 1)
	if d := k.w.UTXOs(node.CRDepositAddr(cr(5))); len(d) > 0 {
		k.submit("ReturnCRDepositCoin", node.ReturnCRDepositCoin(d, cr(5), 0))
		k.mine()
	}

	// ---- committee ----
	k.mineTo(e.CRCommitteeStart + 1)
	members := nd.Committee.GetAllMembersCopy()
	k.c.Max("max:cr_members", int64(len(members)))
	if nd.Committee.IsInElectionPeriod() && len(members) == e.CRCArbiters {
		k.c.Inc("cr_committee_elected")
	} else {
		k.c.Note("%s: committee not elected at %d (members=%d)", k.name, nd.Height(), len(members))
		return
	}
	k.mine() // the block after the change must carry the CRCAppropriation
	isMember := func(a *account.Account) bool {
		m := nd.Committee.GetMember(node.DIDOf(a))
		return m != nil && m.MemberState == crstate.MemberElected
	}
	var mem []*account.Account
	var memIdx []int
	for i := 0; i < nCR; i++ {
		if isMember(cr(i)) {
			mem = append(mem, cr(i))
			memIdx = append(memIdx, i)
		}
	}
	k.c.Max("max:cr_members_with_keys", int64(len(mem)))
	k.trace("committee: CRCCurrentStageAmount=%d members=%v", int64(nd.Committee.CRCCurrentStageAmount), memIdx)

	// ---- a normal proposal: register, review, public vote, track, withdraw ----
	owner := voter(4)
	pver := payload.CRCProposalVersion
	budgets := []payload.Budget{{Type: payload.Imprest, Stage: 0, Amount: node.ELA(10)}, {Type: payload.NormalPayment, Stage: 1, Amount: node.ELA(20)}, {Type: payload.FinalPayment, Stage: 2, Amount: node.ELA(5)}}
	prop := node.CRCProposalNormal(k.take(owner), owner, mem[0], []byte("draft-1"), budgets, owner.ProgramHash, pver)
	ph := node.ProposalHash(prop)
	k.submit("CRCProposal", prop)
	// a second proposal that the voters will reject
	prop2 := node.CRCProposalNormal(k.take(owner), owner, mem[1], []byte("draft-2"), budgets, owner.ProgramHash, pver)
	ph2 := node.ProposalHash(prop2)
	k.submit("CRCProposal", prop2)
	k.mine()
	if p := nd.Committee.GetProposal(ph); p != nil && p.Status == crstate.Registered {
		k.c.Inc("proposal_registered")
	}
	for i, m := range mem {
		res := payload.Approve
		if i == len(mem)-1 {
			res = payload.Reject
		}
		k.submit("CRCProposalReview", node.CRCProposalReview(k.take(m), m, ph, res, []byte("opinion"), payload.CRCProposalReviewVersion))
		k.submit("CRCProposalReview", node.CRCProposalReview(k.take(m), m, ph2, payload.Approve, []byte("opinion2"), payload.CRCProposalReviewVersion))
	}
	k.mine()
	regH := nd.Height()
	k.mineTo(regH + e.ProposalCRVotingPeriod)
	if p := nd.Committee.GetProposal(ph); p != nil {
		k.trace("proposal status after CR voting: %s", p.Status.String())
		if p.Status == crstate.CRAgreed {
			k.c.Inc("proposal_reviewed_cragreed")
		}
	}
	// public reject votes against proposal 2 (needs > 10% of circulation)
	{
		ins := k.w.TakeAll(voter(0))
		var sum common.Fixed64
		for _, u := range ins {
			sum += u.Value
		}
		k.trace("circulation=%d reject votes=%d", int64(nd.Committee.CirculationAmount), int64(sum))
		_ = ins
		for _, u := range ins {
			k.w.Release(u)
		}
		k.submit("Vote-CRCProposal-v1", node.VoteAgainstProposals(k.takeMin(voter(0), node.ELA(1000)), node.ELA(1000), ph2))
		k.submit("Vote-CRCImpeachment-v1", node.VoteImpeach(k.takeMin(voter(2), node.ELA(10)), node.ELA(10), map[common.Uint168]common.Fixed64{node.CIDOf(mem[len(mem)-1]): node.ELA(10)}))
	}
	k.mine()
	k.mineTo(nd.Height() + e.ProposalPublicVotingPeriod + 1)
	if p := nd.Committee.GetProposal(ph); p != nil {
		k.trace("proposal status after public voting: %s", p.Status.String())
		if p.Status == crstate.VoterAgreed {
			k.c.Inc("proposal_voteragreed")
		}
	}

	// ---- CR members claim DPoS nodes ----
	k.mineTo(e.CRClaimDPOSNodeStart)
	for j, m := range mem {
		if j == len(mem)-1 {
			continue // one member never claims -> becomes inactive after the claim period
		}
		k.submit("CRCouncilMemberClaimNode", node.CRCouncilMemberClaimNode(k.take(m), m, crn(memIdx[j]), payload.CurrentCRClaimDPoSNodeVersion))
	}
	k.mine()
	// special proposal types (allowed from CRCProposalV1Height = CRClaimDPOSNodeStart); only registration is exercised
	k.submit("CRCProposal-ChangeProposalOwner", node.CRCProposalTx(k.take(owner), node.ProposalSpec{Type: payload.ChangeProposalOwner, Owner: owner, CRMember: mem[0],
		Draft: []byte("draft-change-owner"), Target: ph, NewOwner: voter(5), NewRecipient: voter(5).ProgramHash}, pver))
	k.submit("CRCProposal-SecretaryGeneral", node.CRCProposalTx(k.take(owner), node.ProposalSpec{Type: payload.SecretaryGeneral, Owner: owner, CRMember: mem[1],
		Draft: []byte("draft-secretary"), NewSecretary: node.Key(node.KeySecretary + 1)}, pver))
	k.mine()
	k.submit("CRCProposal-CloseProposal", node.CRCProposalTx(k.take(owner), node.ProposalSpec{Type: payload.CloseProposal, Owner: owner, CRMember: mem[2],
		Draft: []byte("draft-close"), Target: ph}, pver))
	k.mine()
	// tracking + withdraw (withdraw payload v1 from CRCProposalWithdrawPayloadV1Height = CRClaimDPOSNodeStart)
	sec := node.Key(node.KeySecretary)
	if amt := nd.Committee.AvailableWithdrawalAmount(ph); amt > 0 {
		k.submit("CRCProposalWithdraw", node.CRCProposalWithdraw(k.take(owner), owner, ph, owner.ProgramHash, amt))
		k.mine()
		k.mine() // node-generated CRCProposalRealWithdraw
	}
	k.submit("CRCProposalTracking-progress", node.CRCProposalTracking(k.take(owner), owner, sec,
		node.TrackingSpec{Proposal: ph, Type: payload.Progress, Stage: 1, Message: []byte("stage 1 done"), Opinion: []byte("ok")}, payload.CRCProposalTrackingVersion))
	k.mine()
	if amt := nd.Committee.AvailableWithdrawalAmount(ph); amt > 0 {
		k.submit("CRCProposalWithdraw", node.CRCProposalWithdraw(k.take(owner), owner, ph, owner.ProgramHash, amt))
		k.mine()
		k.mine()
	}
	k.submit("CRCProposalTracking-finalized", node.CRCProposalTracking(k.take(owner), owner, sec,
		node.TrackingSpec{Proposal: ph, Type: payload.Finalized, Stage: 2, Message: []byte("all done"), Opinion: []byte("ok")}, payload.CRCProposalTrackingVersion))
	k.mine()
	if p := nd.Committee.GetProposal(ph); p != nil {
		k.trace("proposal final status: %s", p.Status.String())
		if p.Status == crstate.Finished {
			k.c.Inc("proposal_finished")
		}
	}

	// ---- new-CR arbiter rules, irreversibility ----
	k.mineTo(e.ChangeCommitteeNewCR + 12)
	if nd.LastIrreversible() > 0 {
		k.c.Inc("irreversible_advanced")
		k.c.Max("max:last_irreversible:"+k.name, int64(nd.LastIrreversible()))
	}
	if nd.InPOWMode() {
		k.c.Inc("reverted_to_pow")
		k.c.Note("%s: node reverted to POW by height %d", k.name, nd.Height())
	}
	if e.DPoSV2Start == math.MaxUint32 {
		k.confirmControls()
		k.revertCycle()
		k.mineTo(nd.Height() + 10)
		k.forkExperiments()
		return
	}

	// ---- DPoS v2 ----
	k.mineTo(e.DPoSV2Start)
	h := nd.Height()
	stakeUntil := h + 200000
	// new v2 producers 8..11 and upgrade producer 0,1 to v1v2
	for i := nProducers; i < nProducers+4; i++ {
		in := k.takeMin(voter(4), node.ELA(2000))
		k.submit("RegisterProducer-v2", node.RegisterProducerV2(in, node.Key(node.KeyProducerOwner+i), node.Key(node.KeyProducerNode+i), fmt.Sprintf("producer-v2-%d", i), node.ELA(2000), stakeUntil))
	}
	for i := 0; i < 2; i++ {
		name := fmt.Sprintf("producer-%d", i)
		if i == 1 {
			name = "producer-1-renamed"
		}
		k.submit("UpdateProducer-to-v1v2", node.UpdateProducer(k.take(po(i)), po(i), pn(i), name, "http://v1v2", stakeUntil))
	}
	staker := voter(3)
	k.submit("ExchangeVotes", node.ExchangeVotes(k.takeMin(staker, node.ELA(5000)), node.ELA(5000)))
	k.mine()
	k.mineTo(nd.Height() + 6)
	var v2 []node.V2Vote
	lock := nd.Height() + 1 + e.V2VoteLock*10
	for i := nProducers; i < nProducers+4; i++ {
		v2 = append(v2, node.V2Vote{OwnerPub: node.Pub(node.Key(node.KeyProducerOwner + i)), Votes: node.ELA(500), LockTime: lock})
	}
	for i := 0; i < 2; i++ {
		v2 = append(v2, node.V2Vote{OwnerPub: node.Pub(po(i)), Votes: node.ELA(500), LockTime: lock})
	}
	votingTx := node.Voting(k.take(staker), node.V2Votes(v2...))
	k.submit("Voting-DposV2", votingTx)
	k.mine()
	k.c.Count("v2_effective_producers", int64(len(nd.Chain.GetState().DposV2EffectedProducers)))
	k.submit("ReturnVotes", node.ReturnVotes(k.take(staker), node.ELA(100)))
	k.mine()
	k.mine() // node-generated VotesRealWithdraw
	// renew one vote
	{
		p := nd.Chain.GetState().GetProducer(node.Pub(node.Key(node.KeyProducerOwner + nProducers)))
		if p != nil {
			for refer, dv := range p.GetAllDetailedDPoSV2Votes()[node.StakeAddr(staker)] {
				nv := dv.Info[0]
				nv.LockTime += 100
				k.submit("Voting-renew", node.VotingRenew(k.take(staker), payload.RenewalVotesContent{ReferKey: refer, VotesInfo: nv}))
				break
			}
		}
	}
	// a proposal with the v01 payloads (draft / opinion data carried on chain), voted on through Voting payloads
	p01 := payload.CRCProposalVersion01
	prop3 := node.CRCProposalNormal(k.take(owner), owner, mem[0], []byte("draft-3 with data"), budgets, owner.ProgramHash, p01)
	ph3 := node.ProposalHash(prop3)
	k.submit("CRCProposal-v01", prop3)
	k.mine()
	for _, m := range mem {
		if isMember(m) {
			k.submit("CRCProposalReview-v01", node.CRCProposalReview(k.take(m), m, ph3, payload.Approve, []byte("opinion data"), payload.CRCProposalReviewVersion01))
		}
	}
	k.mine()
	k.mineTo(nd.Height() + e.ProposalCRVotingPeriod)
	if p := nd.Committee.GetProposal(ph3); p != nil && p.Status == crstate.CRAgreed {
		k.c.Inc("proposal_v01_cragreed")
		k.submit("Voting-CRCProposal", node.Voting(k.take(staker), node.ProposalVotes(node.ELA(50), ph3)))
	}
	k.mine()
	// (the mempool keeps at most ONE pending ExchangeVotes/Voting/ReturnVotes per stake address)
	k.submit("Voting-CRCImpeachment", node.Voting(k.take(staker), node.ImpeachVotes(map[common.Uint168]common.Fixed64{node.CIDOf(mem[0]): node.ELA(10)})))
	k.mine()
	for j := 0; j < 60 && nd.Arbiters.GetDPoSV2ActiveHeight() == math.MaxUint32; j++ {
		k.mine()
	}
	act := nd.Arbiters.GetDPoSV2ActiveHeight()
	if act != math.MaxUint32 {
		k.c.Inc("dposv2_active_height_set")
		k.mineTo(act + 12)
		if !k.fatal && nd.Height() > act && !nd.InPOWMode() {
			k.c.Inc("dposv2_active")
		}
		// after activation: v1 vote outputs and v1 registrations are refused, tracking v01 still works
		if err := nd.CheckTx(node.VoteProducers(k.takeMin(voter(1), node.ELA(10)), node.ELA(10), node.Pub(po(0))), 0); err != nil {
			k.c.Inc("v2_active_rejects_v1_vote_output")
		}
	}
	// claim accumulated DPoS v2 rewards
	if !k.fatal {
		if amt := nd.Chain.GetState().DPoSV2RewardInfo[node.StakeAddrString(staker)]; amt > nd.Cfg.CRConfiguration.RealWithdrawSingleFee*2 {
			k.c.Max("max:v2_reward_of_staker", int64(amt))
			k.submit("DposV2ClaimReward", node.DposV2ClaimReward(k.take(staker), amt/2))
			k.mine()
			k.mine() // node-generated DposV2ClaimRewardRealWithdraw
		} else {
			k.c.Note("%s: no v2 reward accumulated for the staker at height %d (%d)", k.name, nd.Height(), int64(amt))
		}
	}
	// second CR voting period (DPoS v2 rules): register new candidates, vote with a Voting payload
	for j := 0; j < 40 && !nd.Committee.IsInVotingPeriod(nd.Height()+1); j++ {
		k.mine()
	}
	if nd.Committee.IsInVotingPeriod(nd.Height() + 1) {
		k.c.Inc("second_cr_voting_period")
		k.submit("RegisterCR-2nd-period", node.RegisterCR(k.takeMin(voter(4), node.ELA(5000)), cr(nCR), "cr-second-a", node.ELA(5000)))
		k.submit("RegisterCR-2nd-period", node.RegisterCR(k.takeMin(voter(4), node.ELA(5000)), cr(nCR+1), "cr-second-b", node.ELA(5000)))
		k.mine()
		k.mineTo(nd.Height() + 6)
		k.submit("Voting-CRC", node.Voting(k.take(staker), node.CRVotes(map[common.Uint168]common.Fixed64{node.CIDOf(cr(nCR)): node.ELA(100), node.CIDOf(cr(nCR + 1)): node.ELA(50)})))
		k.mine()
	}
	k.mineTo(nd.Height() + 3)
	if nd.InPOWMode() {
		k.c.Inc("reverted_to_pow")
		k.c.Note("%s: node in POW mode at height %d", k.name, nd.Height())
	}
}

// revertCycle drives a real consensus switch DPOS -> POW (RevertToPOW{NoBlock}
// in a block 12h after its parent) -> DPOS (RevertToDPOS signed by the arbiters).
func (k *k00) revertCycle() {
	nd := k.nd
	if nd.InPOWMode() || k.fatal {
		return
	}
	tip := nd.TipBlock()
	rtx := node.RevertToPOWNoBlock(nd.Height() + 1)
	if !k.submit("RevertToPOW-NoBlock", rtx) {
		return
	}
	k.pend = nil
	ts := tip.Timestamp + uint32(nd.Cfg.DPoSConfiguration.RevertToPOWNoBlockTime) + 1
	if _, err := nd.MineTipAt(ts, rtx); err != nil {
		k.c.Note("%s: RevertToPOW block rejected: %v", k.name, err)
		return
	}
	k.c.Inc("accepted:RevertToPOW")
	if !nd.InPOWMode() {
		k.c.Note("%s: still DPOS after RevertToPOW block", k.name)
		return
	}
	k.c.Inc("switch:DPOS->POW")
	k.trace("in POW mode, needConfirm(next)=%v", nd.NeedsConfirm(nd.Height()+1))
	for i := 0; i < 3; i++ {
		k.mine()
	}
	// plain transfers are not allowed in POW consensus
	in := k.take(voter(5))
	if err := nd.TxPool.AppendToTxPool(node.Transfer([]node.UTXORef{in}, []node.Out{{To: voter(4).ProgramHash, Value: in.Value - node.DefaultFee}}, common2.TxVersion09)); err != nil {
		k.c.Inc("pow_mode_rejects_plain_transfer")
	}
	k.w.Release(in)
	// probe (validators only, nothing is submitted): RevertToDPOS whose multisig parameter holds wrong signatures
	if bogus, err := nd.RevertToDPOSTx(true); err == nil {
		if err := nd.CheckTx(bogus, nd.TipBlock().Timestamp+1); err == nil {
			k.c.Inc("probe:RevertToDPOS_with_invalid_signatures_passes_validation")
			k.c.Note("%s: SUSPECT: CheckTransactionSanity+CheckTransactionContext accept a RevertToDPOS whose %d signatures are all invalid", k.name, len(bogus.Programs()[0].Parameter)/65)
		} else {
			k.c.Inc("probe:RevertToDPOS_with_invalid_signatures_rejected")
			k.trace("bogus RevertToDPOS rejected: %v", err)
		}
	}
	good, err := nd.RevertToDPOSTx(false)
	if err != nil {
		k.c.Note("%s: RevertToDPOSTx: %v", k.name, err)
		return
	}
	if !k.submit("RevertToDPOS", good) {
		return
	}
	k.mine()
	for i := 0; i < 15 && nd.InPOWMode(); i++ {
		k.mine()
	}
	if !nd.InPOWMode() {
		k.c.Inc("switch:POW->DPOS")
		k.mineTo(nd.Height() + 8)
	}
}

// confirmControls: the BlockPool must refuse blocks whose confirm lacks the
// 2/3 quorum or is signed by non-arbiters (positive/negative control of ConfirmWith).
func (k *k00) confirmControls() {
	nd := k.nd
	if k.fatal || !nd.NeedsConfirm(nd.Height()+1) {
		return
	}
	maj := nd.Arbiters.GetArbitersMajorityCount()
	try := func(label string, o node.ConfirmOpts) {
		b, err := nd.AssembleTip()
		if err != nil {
			k.c.Note("%s: assemble: %v", label, err)
			return
		}
		cf, err := nd.ConfirmWith(b, o)
		if err != nil {
			k.c.Note("%s: confirm: %v", label, err)
			return
		}
		h0 := nd.Height()
		nd.ProcessDpos(b, cf)
		if nd.Height() == h0 {
			k.c.Inc("control:" + label + ":rejected")
		} else {
			k.c.Inc("control:" + label + ":ACCEPTED")
			k.c.Note("%s: SUSPECT: block with %s confirm (%d votes, majority count %d) was connected", k.name, label, len(cf.Votes), maj)
			nd.PostBlock(b)
		}
	}
	try("exactly_majority_count_votes", node.ConfirmOpts{MaxVotes: maj})
	try("no_votes", node.ConfirmOpts{NoArbiterVotes: true})
	var foreign []*account.Account
	for i := 0; i <= maj; i++ {
		foreign = append(foreign, voter(i%6))
	}
	try("foreign_signers_only", node.ConfirmOpts{NoArbiterVotes: true, ExtraSigners: foreign})
	// no confirm at all through the BlockPool: parked, not connected
	if b, err := nd.AssembleTip(); err == nil {
		h0 := nd.Height()
		nd.ProcessDpos(b, nil)
		if nd.Height() == h0 {
			k.c.Inc("control:blockpool_without_confirm:parked")
		} else {
			k.c.Inc("control:blockpool_without_confirm:ACCEPTED")
		}
		// ... but chain.ProcessBlock(b, nil) (what node.Process / node.MineTip do) connects it
		if _, _, err := nd.Process(b); err == nil && nd.Height() == h0+1 {
			k.c.Inc("observed:ProcessBlock_with_nil_confirm_connects_in_dpos_mode")
			nd.PostBlock(b)
		}
	}
	k.mine()
}

// forkExperiments documents what a one-block fork does in DPoS mode.
func (k *k00) forkExperiments() {
	nd := k.nd
	if k.fatal || nd.InPOWMode() {
		return
	}
	tip := nd.TipBlock()
	parent, err := nd.Chain.GetBlockByHash(tip.Header.Previous)
	if err != nil {
		return
	}
	// (a) unconfirmed side chain through chain.ProcessBlock(b, nil): longer chain wins
	a1, err1 := nd.AssembleOn(node.BlockSpec{Parent: parent, Nonce: 0xabc1})
	if err1 != nil {
		k.c.Note("fork assemble: %v", err1)
		return
	}
	nd.Process(a1)
	a2, err2 := nd.AssembleOn(node.BlockSpec{Parent: a1, Nonce: 0xabc2})
	if err2 != nil {
		k.c.Note("fork assemble 2: %v", err2)
		return
	}
	_, _, perr := nd.Process(a2)
	if nd.Tip().IsEqual(a2.Hash()) {
		k.c.Inc("observed:dpos_mode_reorg_depth1_by_unconfirmed_blocks")
		k.trace("reorg by unconfirmed side chain succeeded: tip %d", nd.Height())
	} else {
		k.c.Inc("observed:dpos_mode_reorg_depth1_by_unconfirmed_blocks_refused")
		k.trace("reorg by unconfirmed side chain refused: %v", perr)
	}
	if err := nd.MineNDPoS(3); err != nil {
		k.c.Note("%s: mining after fork (a) failed: %v", k.name, err)
		k.fatal = true
		return
	}
	// (b) a CONFIRMED sibling of the confirmed tip through the BlockPool (double signing arbiters)
	tip = nd.TipBlock()
	parent, _ = nd.Chain.GetBlockByHash(tip.Header.Previous)
	s1, err := nd.AssembleOn(node.BlockSpec{Parent: parent, Nonce: 0xabc3})
	if err != nil {
		return
	}
	cf, err := nd.ConfirmFor(s1)
	if err != nil {
		return
	}
	h0 := nd.Height()
	_, _, e3 := nd.ProcessDpos(s1, cf)
	k.trace("confirmed sibling: err=%v tipChanged=%v", e3, !nd.Tip().IsEqual(tip.Hash()))
	illegal := 0
	for j := 0; j < 200; j++ {
		for _, tx := range nd.TxPool.GetTxsInPool() {
			if tx.TxType() == common2.IllegalBlockEvidence {
				illegal++
			}
		}
		if illegal > 0 {
			break
		}
		time.Sleep(5 * time.Millisecond)
	}
	if illegal > 0 {
		k.c.Inc("observed:confirmed_sibling_produces_IllegalBlockEvidence_tx")
	}
	if nd.Height() == h0 && nd.Tip().IsEqual(tip.Hash()) {
		k.c.Inc("observed:confirmed_sibling_does_not_reorg")
	}
	if err := nd.MineNDPoS(4); err != nil {
		k.c.Note("%s: mining after confirmed sibling failed: %v", k.name, err)
	} else {
		k.c.Inc("chain_continues_after_confirmed_sibling")
	}
}

// runK00Boot exercises node.Bootstrap.
func runK00Boot(c *kit.Ctx, name string) {
	nd, err := node.Start(node.Options{Dir: c.WorkDir, CoinbaseMaturity: 2, Tweak: node.EraTweak(name)})
	if err != nil {
		c.Inconclusive("node start (%s): %v", name, err)
		return
	}
	defer nd.Close()
	defer nd.UnhookEvents()
	c.Case("bootstrap:"+name, true)
	b, err := nd.Bootstrap(name, node.BootOpts{})
	if err != nil {
		c.Inconclusive("bootstrap %s: %v", name, err)
		return
	}
	// the caller owns the chain afterwards: spend, mine
	in, ok := b.Wallet.Take(b.Voters[0], node.ELA(1))
	if !ok {
		c.Inconclusive("bootstrap %s: no funds left for voter 0", name)
		return
	}
	tx := node.Transfer([]node.UTXORef{in}, []node.Out{{To: b.Voters[1].ProgramHash, Value: in.Value - node.DefaultFee}}, common2.TxVersion09)
	if err := nd.TxPool.AppendToTxPool(tx); err != nil {
		c.Inconclusive("bootstrap %s: transfer rejected: %v", name, err)
		return
	}
	if _, err := nd.MineTipDPoS(tx); err != nil {
		c.Inconclusive("bootstrap %s: mining after bootstrap: %v", name, err)
		return
	}
	if err := nd.MineNDPoS(5); err != nil {
		c.Inconclusive("bootstrap %s: mining after bootstrap: %v", name, err)
		return
	}
	c.Inc("bootstrap_ok:" + name)
	c.Max("max:bootstrap_height:"+name, int64(nd.Height()))
	c.Max("max:bootstrap_members:"+name, int64(len(b.Members)))
	c.Max("max:bootstrap_arbiters:"+name, int64(len(nd.Arbiters.GetArbitrators())))
	tip := nd.Tip()
	c.Sample(map[string]interface{}{"bootstrap": name, "height": nd.Height(), "tip": tip.String(), "dposv2_active_height": nd.Arbiters.GetDPoSV2ActiveHeight(), "pow_mode": nd.InPOWMode()})
}

package props

// C22 generator, part 1: the world a CR history lives in.
//
// c22World owns a compressed network configuration, a set of deterministic
// actors, a forward-only UTXO book and one real *state.Committee ("direct"
// instance D) that is fed every generated block.  D is only ever queried
// through the same read accessors transaction validation uses, so that an
// operation is generated only when the corresponding SpecialContextCheck /
// HeightVersionCheck of core/transaction would accept it at that tip.
//
// Reusable pieces (see the report): c22NewWorld, (*c22World).NextBlock,
// (*c22World).NewInstance / Feed, c22Env (callback stubs), the op builders in
// c22_ops.go.

import (
	"bytes"
	"crypto/sha256"
	"encoding/binary"
	"fmt"
	"math"
	"math/rand"
	"sort"

	"github.com/elastos/Elastos.ELA/account"
	"github.com/elastos/Elastos.ELA/common"
	"github.com/elastos/Elastos.ELA/common/config"
	"github.com/elastos/Elastos.ELA/core"
	"github.com/elastos/Elastos.ELA/core/checkpoint"
	"github.com/elastos/Elastos.ELA/core/contract"
	pg "github.com/elastos/Elastos.ELA/core/contract/program"
	"github.com/elastos/Elastos.ELA/core/types"
	common2 "github.com/elastos/Elastos.ELA/core/types/common"
	"github.com/elastos/Elastos.ELA/core/types/functions"
	"github.com/elastos/Elastos.ELA/core/types/interfaces"
	"github.com/elastos/Elastos.ELA/core/types/outputpayload"
	"github.com/elastos/Elastos.ELA/core/types/payload"
	crstate "github.com/elastos/Elastos.ELA/cr/state"
	"github.com/elastos/Elastos.ELA/crypto"

	"verif/kit/node"
)

const c22ELA = common.Fixed64(100000000)

// c22Knobs are the per-history parameters (all drawn from the seed).
type c22Knobs struct {
	Era            string  `json:"era"` // v1: vote outputs only; v2: DPoSV2StartHeight right after the first committee; mix: DPoSV2StartHeight mid-history
	Length         uint32  `json:"length"`
	MemberCount    uint32  `json:"member_count"`
	Agreement      uint32  `json:"agreement_count"`
	VotingStart    uint32  `json:"cr_voting_start"`
	CommitteeStart uint32  `json:"cr_committee_start"`
	VotingPeriod   uint32  `json:"voting_period"`
	DutyPeriod     uint32  `json:"duty_period"`
	ClaimPeriod    uint32  `json:"claim_period"`
	ClaimNodeStart uint32  `json:"claim_node_start"`
	ClaimNodePer   uint32  `json:"claim_node_period"`
	PropCRVoting   uint32  `json:"proposal_cr_voting_period"`
	PropPubVoting  uint32  `json:"proposal_public_voting_period"`
	Lockup         uint32  `json:"deposit_lockup_blocks"`
	RejectPct      float64 `json:"voter_reject_percentage"`
	DPoSV2Start    uint32  `json:"dposv2_start"`
	V2Active       uint32  `json:"dposv2_active"` // from here on no utxo votes (dposState.DPoSV2ActiveHeight)
	DIDHeight      uint32  `json:"register_cr_by_did_height"`
	ProposalV1     uint32  `json:"crc_proposal_v1_height"`
	CustomIDStart  uint32  `json:"custom_id_proposal_start"`
	SideChainStart uint32  `json:"new_cross_chain_start"`
	DraftDataStart uint32  `json:"draft_data_start"`
	WithdrawV1     uint32  `json:"withdraw_payload_v1_height"`
	RectifyStart   uint32  `json:"rectify_height"`
	NewCRHeight    uint32  `json:"change_committee_new_cr_height"`
	MaxProposals   uint32  `json:"max_committee_proposal_count"`
	MaxTracking    uint8   `json:"max_tracking_count"`
	MaxAssetsUTXO  uint32  `json:"max_cr_assets_utxo"`
	MinAssetsUTXO  uint32  `json:"min_cr_assets_utxo"`
	Nudge          bool    `json:"nudge"`  // steer towards elected committees and passing proposals
	Sign           bool    `json:"sign"`   // real payload/program signatures (not read by the committee)
	Strict         bool    `json:"strict"` // also respect the mempool conflict slots (one review per DID+proposal per block, ...)
}

func c22PickHeight(r *rand.Rand, mid uint32) uint32 {
	switch r.Intn(10) {
	case 0:
		return math.MaxUint32
	case 1, 2:
		return mid
	default:
		return 0
	}
}

func c22DrawKnobs(r *rand.Rand) c22Knobs {
	k := c22Knobs{}
	switch r.Intn(10) {
	case 0, 1, 2, 3:
		k.Era = "v1"
	case 4, 5, 6:
		k.Era = "v2"
	default:
		k.Era = "mix"
	}
	k.Length = uint32(80 + r.Intn(90))
	k.MemberCount = uint32(2 + r.Intn(3)) // 2..4 of 6 candidates
	k.Agreement = k.MemberCount/2 + 1
	if r.Intn(5) == 0 {
		k.Agreement = k.MemberCount
	}
	k.VotingStart = uint32(3 + r.Intn(4))
	k.VotingPeriod = uint32(10 + r.Intn(8))
	k.CommitteeStart = k.VotingStart + k.VotingPeriod + uint32(r.Intn(3))
	k.ClaimPeriod = uint32(3 + r.Intn(4))
	k.DutyPeriod = k.VotingPeriod + k.ClaimPeriod + uint32(12+r.Intn(20))
	k.ClaimNodeStart = k.CommitteeStart + uint32(r.Intn(4))
	if r.Intn(4) == 0 {
		k.ClaimNodeStart = 0
	}
	k.ClaimNodePer = uint32(4 + r.Intn(6))
	k.PropCRVoting = uint32(3 + r.Intn(3))
	k.PropPubVoting = uint32(2 + r.Intn(3))
	k.Lockup = uint32(3 + r.Intn(6))
	k.RejectPct = []float64{10, 10, 5, 1}[r.Intn(4)]
	mid := k.CommitteeStart + uint32(10+r.Intn(30))
	switch k.Era {
	case "v1":
		k.DPoSV2Start = math.MaxUint32 - 1
		k.V2Active = math.MaxUint32
	case "v2":
		// as on the real networks DPoS v2 starts after the first committee exists
		k.DPoSV2Start = k.CommitteeStart + 1 + uint32(r.Intn(4))
		k.V2Active = k.DPoSV2Start + uint32(r.Intn(12))
	default:
		k.DPoSV2Start = mid
		k.V2Active = mid + uint32(r.Intn(20))
	}
	k.DIDHeight = c22PickHeight(r, k.VotingStart+4)
	if k.DIDHeight == math.MaxUint32 {
		k.DIDHeight = 0 // without DIDs no committee can ever be elected
	}
	k.ProposalV1 = c22PickHeight(r, mid)
	k.CustomIDStart = c22PickHeight(r, mid)
	k.SideChainStart = c22PickHeight(r, mid)
	k.DraftDataStart = c22PickHeight(r, mid+5)
	k.WithdrawV1 = c22PickHeight(r, mid+3)
	k.RectifyStart = k.WithdrawV1
	k.NewCRHeight = c22PickHeight(r, mid)
	k.MaxProposals = []uint32{128, 128, 6, 3}[r.Intn(4)]
	k.MaxTracking = []uint8{128, 8, 4}[r.Intn(3)]
	k.MaxAssetsUTXO = uint32(5 + r.Intn(6))
	k.MinAssetsUTXO = uint32(2 + r.Intn(3))
	k.Nudge = r.Intn(6) != 0
	k.Strict = r.Intn(4) != 0
	return k
}

// ---------- actors ----------

type c22Actor struct {
	name    string
	acc     *account.Account
	pub     []byte
	code    []byte
	cid     common.Uint168
	did     common.Uint168
	deposit common.Uint168
	stake   common.Uint168
	rights  common.Fixed64 // DPoS v2 vote rights once staked (voters)
	staked  uint32         // height of the ExchangeVotes transaction (0: not staked)
	nickSeq int
}

func c22NewActor(name string, keyIdx int) *c22Actor {
	acc := node.Key(keyIdx)
	pub, err := acc.PublicKey.EncodePoint(true)
	if err != nil {
		panic(err)
	}
	a := &c22Actor{name: name, acc: acc, pub: pub, code: acc.RedeemScript}
	ct, _ := contract.CreateCRIDContractByCode(a.code)
	a.cid = *ct.ToProgramHash()
	didCode := append(append([]byte{}, a.code[:len(a.code)-1]...), common.DID)
	dt, _ := contract.CreateCRIDContractByCode(didCode)
	a.did = *dt.ToProgramHash()
	dp, _ := contract.CreateDepositContractByCode(a.code)
	a.deposit = *dp.ToProgramHash()
	st, _ := contract.CreateStakeContractByCode(a.code)
	a.stake = *st.ToProgramHash()
	return a
}

// ---------- utxo book (forward only) ----------

type c22UTXO struct {
	op     common2.OutPoint
	out    *common2.Output
	cbH    uint32 // height of the coinbase that created it (0: not a coinbase output)
	isVote bool   // carries CR vote contents: spending it cancels the votes
	spent  bool
}

type c22UTXOList struct{ items []*c22UTXO }

func (l *c22UTXOList) live() []*c22UTXO {
	out := l.items[:0:0]
	for _, u := range l.items {
		if !u.spent {
			out = append(out, u)
		}
	}
	return out
}

func (l *c22UTXOList) compact() {
	if len(l.items) < 64 {
		return
	}
	l.items = l.live()
}

// ---------- environment: the callbacks a Committee is wired to ----------

// c22Env answers the CommitteeFuncsConfig callbacks.  Every instance of one
// history shares it, and every answer is a function of the block height being
// processed only, so that a replay sees exactly what the first run saw.
type c22Env struct {
	outs   map[string]common2.Output // every output ever created, by refer key (spent ones stay resolvable, like the tx db)
	cur    uint32                    // height of the block being processed == chainStore.GetHeight() in a live node
	approp map[uint32]c22Approp      // answer of CreateCRAppropriationTransaction at that height
	mkAppr func(h uint32) c22Approp  // computes a missing answer from the world book (first run only)
	stubTx interfaces.Transaction
}

type c22Approp struct {
	Nil    bool           `json:"nil_tx"`
	Locked common.Fixed64 `json:"locked"`
}

func (e *c22Env) funcs() *crstate.CommitteeFuncsConfig {
	return &crstate.CommitteeFuncsConfig{
		GetTxReference: func(tx interfaces.Transaction) (map[*common2.Input]common2.Output, error) {
			res := make(map[*common2.Input]common2.Output)
			for _, in := range tx.Inputs() {
				o, ok := e.outs[in.ReferKey()]
				if !ok {
					return nil, fmt.Errorf("unknown reference %s", in.ReferKey())
				}
				res[in] = o
			}
			return res, nil
		},
		GetHeight: func() uint32 { return e.cur },
		CreateCRAppropriationTransaction: func() (interfaces.Transaction, common.Fixed64, error) {
			a, ok := e.approp[e.cur]
			if !ok {
				a = e.mkAppr(e.cur)
				e.approp[e.cur] = a
			}
			if a.Nil {
				return nil, 0, nil
			}
			return e.stubTx, a.Locked, nil
		},
		// the remaining callbacks only build/broadcast transactions; they do not
		// feed back into the committee state and stay nil (=> no goroutines).
		GetCurrentArbiters: func() [][]byte { return nil },
	}
}

// ---------- world ----------

type c22Staged struct {
	tx    interfaces.Transaction
	spent []*c22UTXO
	desc  string
	kind  string
}

type c22World struct {
	r     *rand.Rand
	K     c22Knobs
	Cfg   *config.Configuration
	Env   *c22Env
	D     *crstate.Committee // direct, forward-only instance
	dMgr  *checkpoint.Manager
	count func(string)

	height uint32
	Blocks []*types.Block // Blocks[h] (index 0 unused)
	Ops    [][]string     // Ops[h]: human readable operations of block h

	cands      []*c22Actor
	owners     []*c22Actor
	voters     []*c22Actor
	sgs        []*c22Actor // secretary generals: sgs[0] is the configured one
	found      *c22Actor
	miner      *c22Actor
	nodeKeySeq int

	lists    map[common.Uint168]*c22UTXOList
	slots    map[string]bool
	blockUse common.Fixed64 // budgets of proposals already in the block being built
	seq      uint64
	sideSeq  uint32
	idSeq    int
}

func (w *c22World) list(h common.Uint168) *c22UTXOList {
	l, ok := w.lists[h]
	if !ok {
		l = &c22UTXOList{}
		w.lists[h] = l
	}
	return l
}

func c22BuildConfig(k c22Knobs, sg *c22Actor, found *c22Actor) *config.Configuration {
	cfg := config.GetDefaultParams()
	cr := &cfg.CRConfiguration
	cr.MemberCount = k.MemberCount
	cr.CRAgreementCount = k.Agreement
	cr.CRVotingStartHeight = k.VotingStart
	cr.CRCommitteeStartHeight = k.CommitteeStart
	cr.VotingPeriod = k.VotingPeriod
	cr.DutyPeriod = k.DutyPeriod
	cr.CRClaimPeriod = k.ClaimPeriod
	cr.CRClaimDPOSNodeStartHeight = k.ClaimNodeStart
	cr.CRClaimDPOSNodePeriod = k.ClaimNodePer
	cr.ProposalCRVotingPeriod = k.PropCRVoting
	cr.ProposalPublicVotingPeriod = k.PropPubVoting
	cr.DepositLockupBlocks = k.Lockup
	cr.VoterRejectPercentage = k.RejectPct
	cr.RegisterCRByDIDHeight = k.DIDHeight
	cr.CRCProposalV1Height = k.ProposalV1
	cr.CRCProposalDraftDataStartHeight = k.DraftDataStart
	cr.CRCProposalWithdrawPayloadV1Height = k.WithdrawV1
	cr.CRAssetsRectifyTransactionHeight = k.RectifyStart
	cr.ChangeCommitteeNewCRHeight = k.NewCRHeight
	cr.MaxCommitteeProposalCount = k.MaxProposals
	cr.MaxProposalTrackingCount = k.MaxTracking
	cr.MaxCRAssetsAddressUTXOCount = k.MaxAssetsUTXO
	cr.MinCRAssetsAddressUTXOCount = k.MinAssetsUTXO
	cr.CheckVoteCRCountHeight = 0
	cr.SecretaryGeneral = common.BytesToHexString(sg.pub)
	cfg.CustomIDProposalStartHeight = k.CustomIDStart
	cfg.NewCrossChainStartHeight = k.SideChainStart
	cfg.DPoSV2StartHeight = k.DPoSV2Start
	cfg.CrossChainMonitorStartHeight = math.MaxUint32
	cfg.PowConfiguration.CoinbaseMaturity = 2
	cfg.CheckAddressHeight = 0
	cfg.VoteStartHeight = 0
	cfg.CRCOnlyDPOSHeight = 0
	cfg.PublicDPOSHeight = 0
	ph := found.acc.ProgramHash
	cfg.FoundationProgramHash = &ph
	cfg.FoundationAddress = found.acc.Address
	return cfg
}

// c22NewWorld builds the world of one history: configuration, actors, the
// genesis distribution block (height 1) and the direct committee instance.
func c22NewWorld(r *rand.Rand, k c22Knobs, count func(string)) *c22World {
	w := &c22World{r: r, K: k, count: count, lists: map[common.Uint168]*c22UTXOList{}}
	if w.count == nil {
		w.count = func(string) {}
	}
	for i := 0; i < 6; i++ {
		w.cands = append(w.cands, c22NewActor(fmt.Sprintf("c%d", i), 110+i))
	}
	for i := 0; i < 3; i++ {
		w.owners = append(w.owners, c22NewActor(fmt.Sprintf("o%d", i), 120+i))
	}
	for i := 0; i < 4; i++ {
		v := c22NewActor(fmt.Sprintf("v%d", i), 130+i)
		v.rights = common.Fixed64(1000000+500000*int64(i)) * c22ELA
		w.voters = append(w.voters, v)
	}
	for i := 0; i < 3; i++ {
		w.sgs = append(w.sgs, c22NewActor(fmt.Sprintf("sg%d", i), 140+i))
	}
	w.found = c22NewActor("found", 100)
	w.miner = c22NewActor("miner", 101)
	w.Cfg = c22BuildConfig(k, w.sgs[0], w.found)
	w.Env = &c22Env{outs: map[string]common2.Output{}, approp: map[uint32]c22Approp{}}
	w.Env.mkAppr = w.appropriationAnswer
	w.Env.stubTx = functions.CreateTransaction(common2.TxVersion09, common2.CRCAppropriation, 0,
		&payload.CRCAppropriation{}, []*common2.Attribute{}, []*common2.Input{}, []*common2.Output{}, 0, []*pg.Program{})
	w.D, w.dMgr = w.NewInstance()
	w.Blocks = []*types.Block{nil}
	w.Ops = [][]string{nil}

	// height 1: the foundation distributes the genesis coins.
	gen := common2.OutPoint{TxID: sha256.Sum256([]byte("c22-genesis")), Index: 0}
	genOut := &common2.Output{AssetID: core.ELAAssetID, Value: common.Fixed64(config.OriginIssuanceAmount),
		ProgramHash: w.found.acc.ProgramHash, Type: common2.OTNone, Payload: &outputpayload.DefaultOutput{}}
	w.Env.outs[gen.ReferKey()] = *genOut
	var outs []*common2.Output
	give := func(a *c22Actor, ela ...int64) {
		for _, e := range ela {
			outs = append(outs, w.stdOut(a.acc.ProgramHash, common.Fixed64(e)*c22ELA))
		}
	}
	for _, a := range w.cands {
		give(a, 9000, 3000, 1000, 200, 200, 100)
	}
	for _, a := range w.owners {
		give(a, 100, 100, 100, 100, 100)
	}
	for _, a := range w.voters {
		give(a, 1800000, 1500000, 900000, 1000, 100, 100)
	}
	for _, a := range w.sgs {
		give(a, 100, 100)
	}
	var total common.Fixed64
	for _, o := range outs {
		total += o.Value
	}
	fee := common.Fixed64(10000)
	rest := common.Fixed64(config.OriginIssuanceAmount) - total - fee
	// the foundation keeps a few large outputs for donations
	for i := 0; i < 4; i++ {
		outs = append(outs, w.stdOut(w.found.acc.ProgramHash, rest/4))
	}
	dist := w.mkTx(common2.TxVersion09, common2.TransferAsset, 0, &payload.TransferAsset{},
		[]*common2.Input{{Previous: gen, Sequence: 0}}, outs, []*c22Actor{w.found})
	blk := w.assemble(1, []*c22Staged{{tx: dist, desc: "genesis distribution", kind: "distribute"}})
	w.commit(blk)
	return w
}

// NewInstance creates a committee wired to this world's environment.
func (w *c22World) NewInstance() (*crstate.Committee, *checkpoint.Manager) {
	mgr := checkpoint.NewManager(w.Cfg)
	c := crstate.NewCommittee(w.Cfg, mgr)
	c.RegisterFuncitons(w.Env.funcs())
	return c, mgr
}

// Feed gives one block to an instance the way a live node does: the chain
// store height already equals the block height when the committee sees it.
func (w *c22World) Feed(c *crstate.Committee, b *types.Block) {
	w.Env.cur = b.Height
	c.ProcessBlock(b, nil)
}

// Close releases the direct instance's checkpoint manager goroutine.
func (w *c22World) Close() {
	if w.dMgr != nil {
		w.dMgr.Close()
		w.dMgr = nil
	}
}

func (w *c22World) stdOut(to common.Uint168, v common.Fixed64) *common2.Output {
	return &common2.Output{AssetID: core.ELAAssetID, Value: v, ProgramHash: to,
		Type: common2.OTNone, Payload: &outputpayload.DefaultOutput{}}
}

// mkTx creates a transaction; signers get one standard program each (a real
// signature when K.Sign, else a placeholder parameter of the right size).
func (w *c22World) mkTx(ver common2.TransactionVersion, t common2.TxType, pver byte, pl interfaces.Payload,
	ins []*common2.Input, outs []*common2.Output, signers []*c22Actor) interfaces.Transaction {
	if ins == nil {
		ins = []*common2.Input{}
	}
	if outs == nil {
		outs = []*common2.Output{}
	}
	tx := functions.CreateTransaction(ver, t, pver, pl, []*common2.Attribute{}, ins, outs, 0, []*pg.Program{})
	if len(signers) > 0 {
		var ps []*pg.Program
		var data []byte
		if w.K.Sign {
			buf := new(bytes.Buffer)
			tx.SerializeUnsigned(buf)
			data = buf.Bytes()
		}
		for _, a := range signers {
			ps = append(ps, &pg.Program{Code: a.code, Parameter: w.sigParam(a, data)})
		}
		tx.SetPrograms(ps)
	}
	return tx
}

func (w *c22World) sig(a *c22Actor, data []byte) []byte {
	if !w.K.Sign || data == nil {
		s := make([]byte, 64)
		binary.BigEndian.PutUint64(s, w.seq)
		w.seq++
		return s
	}
	s, err := crypto.Sign(a.acc.PrivKey(), data)
	if err != nil {
		panic(err)
	}
	return s
}

func (w *c22World) sigParam(a *c22Actor, data []byte) []byte {
	s := w.sig(a, data)
	return append([]byte{byte(len(s))}, s...)
}

func (w *c22World) actorByHash(h common.Uint168) *c22Actor {
	for _, set := range [][]*c22Actor{w.cands, w.owners, w.voters, w.sgs, {w.found, w.miner}} {
		for _, a := range set {
			if a.acc.ProgramHash.IsEqual(h) {
				return a
			}
		}
	}
	return nil
}

// fund selects non-vote outputs of a standard address worth at least need.
func (w *c22World) fund(a *c22Actor, need common.Fixed64) (ins []*common2.Input, spent []*c22UTXO, total common.Fixed64, ok bool) {
	l := w.list(a.acc.ProgramHash)
	for _, u := range l.items {
		if u.spent || u.isVote {
			continue
		}
		if u.cbH != 0 && w.height+1-u.cbH < w.Cfg.PowConfiguration.CoinbaseMaturity+1 {
			continue
		}
		ins = append(ins, &common2.Input{Previous: u.op, Sequence: 0})
		spent = append(spent, u)
		total += u.Value()
		if total >= need {
			return ins, spent, total, true
		}
	}
	return nil, nil, 0, false
}

func (u *c22UTXO) Value() common.Fixed64 { return u.out.Value }

const c22Fee = common.Fixed64(10000)

// pay builds inputs/outputs for a transaction of actor a that creates `outs`
// (in that order) and returns the change to a.
func (w *c22World) pay(a *c22Actor, outs []*common2.Output) ([]*common2.Input, []*common2.Output, []*c22UTXO, bool) {
	var need common.Fixed64 = c22Fee
	for _, o := range outs {
		need += o.Value
	}
	ins, spent, total, ok := w.fund(a, need)
	if !ok {
		return nil, nil, nil, false
	}
	if total > need {
		outs = append(outs, w.stdOut(a.acc.ProgramHash, total-need))
	}
	return ins, outs, spent, true
}

func (w *c22World) reward(h uint32) common.Fixed64 { return w.Cfg.GetBlockReward(h) }

func (w *c22World) coinbase(h uint32) interfaces.Transaction {
	c22Addr := *w.Cfg.FoundationProgramHash
	if h >= w.Cfg.CRConfiguration.CRCommitteeStartHeight {
		c22Addr = *w.Cfg.CRConfiguration.CRAssetsProgramHash
	}
	total := w.reward(h)
	c22Part := common.Fixed64(math.Ceil(float64(total) * 0.3))
	nonce := make([]byte, 8)
	binary.BigEndian.PutUint64(nonce, uint64(h))
	attr := common2.NewAttribute(common2.Nonce, nonce)
	return functions.CreateTransaction(common2.TxVersion09, common2.CoinBase, payload.CoinBaseVersion,
		&payload.CoinBase{Content: []byte("verif-c22")}, []*common2.Attribute{&attr},
		[]*common2.Input{{Previous: common2.OutPoint{TxID: common.EmptyHash, Index: math.MaxUint16}, Sequence: math.MaxUint32}},
		[]*common2.Output{w.stdOut(c22Addr, c22Part), w.stdOut(w.miner.acc.ProgramHash, total-c22Part)},
		h, []*pg.Program{})
}

func (w *c22World) assemble(h uint32, staged []*c22Staged) *types.Block {
	txs := []interfaces.Transaction{w.coinbase(h)}
	ops := []string{}
	for _, s := range staged {
		txs = append(txs, s.tx)
		ops = append(ops, s.desc)
	}
	b := &types.Block{Header: common2.Header{Height: h, Timestamp: 1600000000 + h*120}, Transactions: txs}
	for len(w.Ops) <= int(h) {
		w.Ops = append(w.Ops, nil)
	}
	w.Ops[h] = ops
	return b
}

// commit books the block's outputs and feeds it to the direct instance.
func (w *c22World) commit(b *types.Block) {
	h := b.Height
	for ti, tx := range b.Transactions {
		for _, in := range tx.Inputs() {
			_ = in // inputs were marked spent when the operation was staged
		}
		hash := tx.Hash()
		for i, o := range tx.Outputs() {
			op := common2.OutPoint{TxID: hash, Index: uint16(i)}
			w.Env.outs[op.ReferKey()] = *o
			u := &c22UTXO{op: op, out: o}
			if ti == 0 {
				u.cbH = h
			}
			if o.Type == common2.OTVote {
				if vo, ok := o.Payload.(*outputpayload.VoteOutput); ok && vo.Version >= outputpayload.VoteProducerAndCRVersion {
					for _, c := range vo.Contents {
						if c.VoteType == outputpayload.CRC || c.VoteType == outputpayload.CRCProposal || c.VoteType == outputpayload.CRCImpeachment {
							u.isVote = true
						}
					}
				}
			}
			w.list(o.ProgramHash).items = append(w.list(o.ProgramHash).items, u)
		}
	}
	for len(w.Blocks) <= int(h) {
		w.Blocks = append(w.Blocks, nil)
	}
	w.Blocks[h] = b
	w.height = h
	w.Feed(w.D, b)
	for _, l := range w.lists {
		l.compact()
	}
}

// matureAssets lists the CR assets outputs the chain would hand to
// CreateCRCAppropriationTransaction at the given chain height, and the
// immature (locked) coinbase amount.
func (w *c22World) matureAssets(h uint32) (utxos []*c22UTXO, locked common.Fixed64) {
	for _, u := range w.list(*w.Cfg.CRConfiguration.CRAssetsProgramHash).items {
		if u.spent {
			continue
		}
		if u.cbH != 0 && h-u.cbH < w.Cfg.PowConfiguration.CoinbaseMaturity {
			locked += u.Value()
			continue
		}
		utxos = append(utxos, u)
	}
	sort.Slice(utxos, func(i, j int) bool {
		if utxos[i].Value() == utxos[j].Value() {
			return utxos[i].op.ReferKey() < utxos[j].op.ReferKey()
		}
		return utxos[i].Value() > utxos[j].Value()
	})
	return
}

// appropriationAnswer mirrors blockchain.CreateCRCAppropriationTransaction on
// the world's book (called while block h is being processed for the first time).
func (w *c22World) appropriationAnswer(h uint32) c22Approp {
	utxos, locked := w.matureAssets(h)
	var bal common.Fixed64
	for _, u := range utxos {
		bal += u.Value()
	}
	amt := common.Fixed64(float64(bal) * w.Cfg.CRConfiguration.CRCAppropriatePercentage / 100.0)
	if amt <= 0 {
		return c22Approp{Nil: true}
	}
	return c22Approp{Locked: locked}
}

// ---------- block generation ----------

func (w *c22World) Height() uint32 { return w.height }

func (w *c22World) slot(kind string, key interface{}) string { return fmt.Sprintf("%s:%v", kind, key) }

// take reserves a per-block conflict slot; false if already used.
func (w *c22World) take(keys ...string) bool {
	for _, k := range keys {
		if w.slots[k] {
			return false
		}
	}
	for _, k := range keys {
		w.slots[k] = true
	}
	return true
}

func (w *c22World) accept(staged *[]*c22Staged, s *c22Staged) {
	for _, u := range s.spent {
		u.spent = true
	}
	*staged = append(*staged, s)
	w.count("op:" + s.kind)
}

// NextBlock generates, books and feeds the next block.
func (w *c22World) NextBlock() *types.Block {
	h := w.height + 1
	w.slots = map[string]bool{}
	w.blockUse = 0
	var staged []*c22Staged

	// what an honest node's own machinery would put into the next block
	for _, f := range []func(uint32) *c22Staged{w.opProposalResult, w.opAppropriation, w.opRealWithdraw} {
		if w.r.Intn(10) < 8 {
			if s := f(h); s != nil {
				w.accept(&staged, s)
			}
		}
	}
	// from DPoSV2StartHeight the voters move their vote rights to the stake pool
	if h >= w.K.DPoSV2Start {
		for _, v := range w.voters {
			if v.staked == 0 && w.r.Intn(3) != 0 {
				if s := w.opStake(v, h); s != nil {
					w.accept(&staged, s)
				}
			}
		}
	}
	// the CR assets address is funded before the first committee (as on mainnet)
	if h == w.K.VotingStart+2 && w.r.Intn(8) != 0 {
		amt := common.Fixed64(200000+w.r.Intn(1500000)) * c22ELA
		if s := w.transfer(w.found, *w.Cfg.CRConfiguration.CRAssetsProgramHash, amt, "donateAssets"); s != nil {
			w.accept(&staged, s)
		}
	}
	n := 0
	switch x := w.r.Intn(10); {
	case x < 2:
		n = 0
	case x < 6:
		n = 1 + w.r.Intn(2)
	default:
		n = 2 + w.r.Intn(5)
	}
	for i := 0; i < n; i++ {
		op := w.pickOp(h)
		if op == nil {
			continue
		}
		if s := op(h); s != nil {
			w.accept(&staged, s)
		} else {
			w.count("op_precondition_unmet")
		}
	}
	if w.K.Nudge {
		for _, s := range w.nudges(h) {
			w.accept(&staged, s)
		}
	}
	// a miner may order the non-coinbase transactions as he likes
	w.r.Shuffle(len(staged), func(i, j int) { staged[i], staged[j] = staged[j], staged[i] })
	b := w.assemble(h, staged)
	w.commit(b)
	return b
}

package props

import (
	"bytes"
	"fmt"
	"reflect"

	crstate "github.com/elastos/Elastos.ELA/cr/state"

	"verif/kit"
)

// C22 level 2: the CR committee part of the full-node twin workload.
//
// Same scenarios and same three processes as C21 level 2 (l2_node.go,
// l2_scenario.go, l2_drive.go, l2_run.go); what is compared here is the
// committee checkpoint: the registered cr/state.Checkpoint's Snapshot()
// (initFromCommittee + Serialize), taken by the passive probe after every
// OnBlockSaved / OnRollbackTo of the checkpoint manager, decoded in the parent
// and compared field by field (maps as maps):
//
//	control      builder == linear twin B at every height (else inconclusive);
//	rollback     during each reorganisation of node A, right after OnRollbackTo(k):
//	             committee == the committee A had when block k was its tip, and at the
//	             fork point also == twin B           -> "l2:rollback-diff:<Type>.<Field>"
//	rollforward  after the reorganisation, at every recorded height: A == twin B
//	             (classes not already reported at a rollback step) -> "l2:rollforward-diff:<Type>.<Field>"
//	panic / refusal  node A panics on, or refuses, a recorded block the twin connected
//	             -> "l2:rollback-panic:<site>", "l2:node-stuck-after-reorg:<reason>"
//	                (it cannot switch to the recorded chain, or rejects its next block)
//
// Transactions that reach the committee through real validation here: RegisterCR,
// UpdateCR, UnregisterCR, ReturnCRDepositCoin, CR votes / impeachment / proposal
// reject votes (vote outputs and Voting payloads, and their cancellation by
// spending), CRCProposal (Normal, ELIP, CloseProposal, SecretaryGeneral),
// CRCProposalReview, CRCProposalTracking (progress / finalized / terminated),
// CRCProposalWithdraw + node-generated CRCProposalRealWithdraw, CRCAppropriation,
// CRCouncilMemberClaimNode, ActivateProducer of an inactive member, and the
// DPoS-side inactivity / penalty updates of members.

// c22l2Snap is the decoded committee checkpoint without the back pointer.
type c22l2Snap struct {
	KeyFrame         *crstate.KeyFrame
	StateKeyFrame    *crstate.StateKeyFrame
	ProposalKeyFrame *crstate.ProposalKeyFrame
}

func c22l2Decode(s *l2Snap) (interface{}, error) {
	if len(s.CR) == 0 {
		return nil, fmt.Errorf("no committee checkpoint recorded at height %d", s.Height)
	}
	cp := &crstate.Checkpoint{}
	if err := cp.Deserialize(bytes.NewReader(s.CR)); err != nil {
		return nil, fmt.Errorf("committee checkpoint at %d does not deserialize: %v", s.Height, err)
	}
	return &c22l2Snap{KeyFrame: &cp.KeyFrame, StateKeyFrame: &cp.StateKeyFrame, ProposalKeyFrame: &cp.ProposalKeyFrame}, nil
}

// c22l2Diff: decoded structures compared leaf by leaf. As in C21, a map entry
// holding a zero amount / an empty list on one side and absent on the other is
// counted, not judged (observationally the same committee).
func c22l2Diff(a, b interface{}) []c21Diff {
	d := &c21Differ{limit: 400}
	d.walk(reflect.ValueOf(a).Elem(), reflect.ValueOf(b).Elem(), "Snap", "")
	out := d.out[:0]
	for _, x := range d.out {
		zero := func(s string) bool { return s == "0" || s == "<0 entries>" }
		if (zero(x.A) && x.B == "<absent>") || (zero(x.B) && x.A == "<absent>") {
			c21ZeroEntryMu.Lock()
			c21ZeroEntry["cr:"+x.Class]++
			c21ZeroEntryMu.Unlock()
			continue
		}
		if x.Class == "c22l2Snap.KeyFrame" || x.Class == "c22l2Snap.StateKeyFrame" || x.Class == "c22l2Snap.ProposalKeyFrame" {
			x.Class = "Checkpoint" + x.Class[len("c22l2Snap"):]
		}
		out = append(out, x)
	}
	return out
}

var l2CmpCR = l2Cmp{name: "l2cr", decode: c22l2Decode, diff: c22l2Diff}

// c22NodeLevel runs the level-2 scenarios of this shard and compares the
// committee checkpoints. Counters it produces (for Spec.Require):
// l2_scenarios_ok, l2cr_control_equal, l2cr_rollback_compares, l2cr_rollforward_compares,
// l2_reorgs_done, l2_losing_blocks_mined, l2_mined:RegisterCR, l2_mined:CRCProposal, ...
func c22NodeLevel(c *kit.Ctx) {
	r := c.Rand("c22-l2")
	n := c.N(2, 10)
	for i := 0; i < n; i++ {
		seed := r.Int63()
		sp := l2Spec{Era: []string{"dpos-era", "dposv2-era"}[(c.Shard+i)%2], Seed: seed, SnapCR: true, Evidence: (c.Shard+i)%3 == 0, Profile: 1}
		if (c.Shard+i)%4 == 3 {
			sp.Profile = 0
		}
		sp.From = l2FromForCR(sp.Era, c.Shard/2+i*4)
		c.Begin("l2 scenario (CR) shard=%d idx=%d era=%s seed=%d", c.Shard, i, sp.Era, seed)
		o, err := l2RunScenario(c, fmt.Sprintf("c22-%d", i), sp)
		c21L2Account(c, o, err)
		if err == nil {
			l2CompareNode(c, o, l2CmpCR)
		}
		o.cleanup()
	}
	c21ZeroEntryMu.Lock()
	for k, v := range c21ZeroEntry {
		if len(k) > 3 && k[:3] == "cr:" {
			c.Count("zero_entry_residue_not_judged:"+k, v)
			delete(c21ZeroEntry, k)
		}
	}
	c21ZeroEntryMu.Unlock()
}

// l2FromForCR spreads node A's first fork point over the committee's phases.
func l2FromForCR(era string, k int) uint32 {
	e := nodeEra(era)
	opts := []uint32{e.CRCommitteeStart + 3, 0, e.CRCommitteeStart - 7, e.CRClaimDPOSNodeStart - 3, e.ChangeCommitteeNewCR + 3, e.CRCommitteeStart + 14, e.CRCommitteeStart + e.CRDutyPeriod - e.CRVotingPeriod - 4, e.ChangeCommitteeNewCR + 25}
	return opts[k%len(opts)]
}

package props

import (
	"bytes"
	"encoding/hex"
	"errors"
	"fmt"
	"math"
	"math/rand"
	"regexp"
	"sort"

	"github.com/elastos/Elastos.ELA/account"
	"github.com/elastos/Elastos.ELA/blockchain"
	"github.com/elastos/Elastos.ELA/common"
	"github.com/elastos/Elastos.ELA/common/config"
	"github.com/elastos/Elastos.ELA/core"
	"github.com/elastos/Elastos.ELA/core/contract"
	common2 "github.com/elastos/Elastos.ELA/core/types/common"
	"github.com/elastos/Elastos.ELA/core/types/interfaces"
	"github.com/elastos/Elastos.ELA/core/types/outputpayload"
	"github.com/elastos/Elastos.ELA/core/types/payload"
	crstate "github.com/elastos/Elastos.ELA/cr/state"
	"github.com/elastos/Elastos.ELA/dpos/state"

	"verif/kit"
	"verif/kit/node"
)

// C34 — DPoS / CR era workloads.
//
// Shards are placed in one of four chain environments (c34EnvOf):
//
//	""          pow-era, the original outpoint/capacity workload (+ "chain-spend")
//	"voting"    dpos-era at public DPoS with the FIRST CR voting period kept open
//	            (committee start postponed): producer and CR-candidate transactions
//	"committee" dpos-era with an elected committee whose members claimed their nodes
//	            (duty period prolonged): proposals of every type, reviews, trackings,
//	            withdrawals, node claims, producer transactions
//	"dposv2"    dposv2-era two blocks past DPoSV2ActiveHeight: stake / Voting /
//	            ReturnVotes / reward claims, v2 producer transactions, node claims
//
// Every source draws owner keys, node keys, nicknames, CIDs, draft hashes,
// sponsoring members, target proposals, claim-node keys and stake addresses
// from SMALL sets so that candidates collide on purpose; BlockTxs hooks put
// non-pool transactions into blocks that collide with pool transactions on a
// non-outpoint resource, and cancel-producer / unregister-CR transactions
// (cleanVoteAndUpdateProducer / cleanVoteAndUpdateCR).

func init() {
	c34EnvOf = func(shard int) *c34Env {
		far := uint32(1000000)
		switch shard % 8 {
		case 3, 4:
			return &c34Env{Kind: "voting", Era: "dpos-era", SourcePct: 46, Boot: node.BootOpts{Until: "producers", UTXOsPerAccount: 12},
				Tweak: func(cfg *config.Configuration) {
					// stay in public DPoS with the first CR voting period open: no committee, no claimed nodes, no new-CR arbiter rules
					cr := &cfg.CRConfiguration
					cr.CRCommitteeStartHeight = far
					cr.CheckVoteCRCountHeight = far
					cr.CRClaimDPOSNodeStartHeight = far
					cr.CRCProposalV1Height = far
					cr.CRCProposalWithdrawPayloadV1Height = far
					cr.CRAssetsRectifyTransactionHeight = far
					cr.ChangeCommitteeNewCRHeight = far
					cr.CRCProposalDraftDataStartHeight = far
					cfg.DPoSConfiguration.NoCRCDPOSNodeHeight = far
					cfg.DPoSConfiguration.RevertToPOWStartHeight = far
					cfg.CustomIDProposalStartHeight = far
					cfg.NewCrossChainStartHeight = far
					cfg.ReturnCrossChainCoinStartHeight = far
					cfg.ProhibitTransferToDIDHeight = far
				}}
		case 5, 6:
			return &c34Env{Kind: "committee", Era: "dpos-era", SourcePct: 46, Boot: node.BootOpts{Until: "claimed", UTXOsPerAccount: 16},
				Tweak: func(cfg *config.Configuration) {
					cfg.CRConfiguration.DutyPeriod = far // the first committee stays in office (no second election needed)
					e := node.EraOf("dpos-era")
					cfg.CustomIDProposalStartHeight = e.CRClaimDPOSNodeStart // custom-ID and side-chain proposal types from the start of the history
					cfg.NewCrossChainStartHeight = e.CRClaimDPOSNodeStart
					cfg.CRConfiguration.CRCProposalDraftDataStartHeight = far // payload v0 throughout
				}}
		case 7:
			return &c34Env{Kind: "dposv2", Era: "dposv2-era", SourcePct: 46, Boot: node.BootOpts{Until: "dposv2", UTXOsPerAccount: 16},
				Tweak: func(cfg *config.Configuration) {
					cfg.CRConfiguration.DutyPeriod = far
				}}
		}
		return nil
	}
	c34Resources = c34ResourceModel
	// pow-era shards: small cross-chain transfers (payload v1) are valid from the start of the history
	c34Tweaks = append(c34Tweaks, func(shard int) func(o *node.Options) {
		return func(o *node.Options) {
			if c34EnvOf(shard) != nil {
				return
			}
			prev := o.Tweak
			o.Tweak = func(cfg *config.Configuration) {
				if prev != nil {
					prev(cfg)
				}
				cfg.NewCrossChainStartHeight = 5
			}
		}
	})
	c34Sources = append(c34Sources, c34SrcStoreFault)
	c34Sources = append(c34Sources, c34SrcChainSpend, c34SrcProducers, c34SrcCRs, c34SrcProposals, c34SrcClaimNode, c34SrcStake)
}

// ---------- independent resource model ----------

// c34ResourceModel states, per transaction type, which unique resources a
// pending transaction claims (property: no two pool txs claim the same one).
// Written from the rule, not from mempool/conflictfunc.go.
func c34ResourceModel(tx interfaces.Transaction) []string {
	var r []string
	add := func(kind string, v interface{}) { r = append(r, fmt.Sprintf("%s=%v", kind, v)) }
	stakeOf := func(code []byte) {
		if a := node.KeyByPub(codePub(code)); a != nil {
			add("stake-address", node.StakeAddr(a).String())
		}
	}
	switch p := tx.Payload().(type) {
	case *payload.ProducerInfo: // RegisterProducer / UpdateProducer
		add("producer-owner", hex.EncodeToString(p.OwnerKey))
		add("node-key", hex.EncodeToString(p.NodePublicKey))
		add("producer-nickname", p.NickName)
	case *payload.ProcessProducer: // CancelProducer
		add("producer-owner", hex.EncodeToString(p.OwnerKey))
	case *payload.ActivateProducer:
		add("node-key", hex.EncodeToString(p.NodePublicKey))
	case *payload.CRInfo: // RegisterCR / UpdateCR
		add("cr-cid", p.CID.String())
		add("cr-nickname", p.NickName)
		if tx.TxType() == common2.RegisterCR { // a CR key may not double as a producer owner / node key
			add("producer-owner", hex.EncodeToString(codePub(p.Code)))
			add("node-key", hex.EncodeToString(codePub(p.Code)))
		}
	case *payload.UnregisterCR:
		add("cr-cid", p.CID.String())
	case *payload.CRCouncilMemberClaimNode:
		add("node-key", hex.EncodeToString(p.NodePublicKey))
		add("claim-node-member", p.CRCouncilCommitteeDID.String())
	case *payload.CRCProposal:
		add("proposal-draft", p.DraftHash.String())
		add("proposal-sponsor", p.CRCouncilMemberDID.String())
		switch p.ProposalType {
		case payload.CloseProposal:
			add("close-target", p.TargetProposalHash.String())
		case payload.ChangeProposalOwner:
			add("change-owner-target", p.TargetProposalHash.String())
		case payload.SecretaryGeneral:
			add("secretary-general-proposal", "the-one")
		case payload.ReserveCustomID:
			add("reserve-custom-id-proposal", "the-one")
		case payload.ChangeCustomIDFee:
			add("change-custom-id-fee-proposal", "the-one")
		case payload.ReceiveCustomID:
			for _, id := range p.ReceivedCustomIDList {
				add("received-custom-id", id)
			}
		case payload.RegisterSideChain:
			add("side-chain-name", p.SideChainName)
			add("side-chain-magic", p.MagicNumber)
			add("side-chain-genesis", p.GenesisHash.String())
		}
	case *payload.CRCProposalReview:
		add("review", p.DID.String()+"/"+p.ProposalHash.String())
	case *payload.CRCProposalTracking:
		add("tracking", p.ProposalHash.String())
	case *payload.CRCProposalWithdraw:
		add("withdraw", p.ProposalHash.String())
	case *payload.ExchangeVotes:
		if len(tx.Outputs()) > 0 {
			if o, ok := tx.Outputs()[0].Payload.(*outputpayload.ExchangeVotesOutput); ok {
				add("stake-address", o.StakeAddress.String())
			}
		}
	case *payload.Voting:
		if len(tx.Programs()) > 0 {
			stakeOf(tx.Programs()[0].Code)
		}
	case *payload.ReturnVotes:
		stakeOf(p.Code)
	case *payload.DPoSV2ClaimReward:
		if a := node.KeyByPub(codePub(p.Code)); a != nil {
			add("reward-claim", node.StakeAddr(a).String())
		}
	case *payload.ReturnDepositCoin:
		if len(tx.Programs()) > 0 {
			add("deposit-return", hex.EncodeToString(tx.Programs()[0].Code))
		}
	}
	for _, in := range tx.Inputs() {
		add("outpoint", fmt.Sprintf("%s:%d", in.Previous.TxID, in.Previous.Index))
	}
	return r
}

// codePub extracts the public key of a standard (CHECKSIG) redeem script.
func codePub(code []byte) []byte {
	if len(code) == 35 {
		return code[1:34]
	}
	return nil
}

// ---------- shared helpers ----------

// c34K bundles the wallet bookkeeping of the sources on this shard's node.
type c34K struct {
	c    *kit.Ctx
	nd   *node.Node
	w    *node.Wallet
	pend []c34Pend
	seq  int
}

type c34Pend struct {
	h    common.Uint256
	refs []node.UTXORef
}

var c34KOf *c34K

func c34Kit(c *kit.Ctx, nd *node.Node) *c34K {
	if c34KOf == nil || c34KOf.nd != nd {
		c34KOf = &c34K{c: c, nd: nd, w: nd.Wallet()}
	}
	return c34KOf
}

// reclaim releases the inputs of transactions the sources built that are
// neither in the pool nor mined (rejected / evicted / in a rejected block).
func (k *c34K) reclaim() {
	keep := k.pend[:0]
	for _, p := range k.pend {
		if k.nd.TxPool.HaveTransaction(p.h) {
			keep = append(keep, p)
			continue
		}
		for _, r := range p.refs {
			k.w.Release(r) // no-op for outputs spent on chain (the wallet dropped them)
		}
	}
	k.pend = keep
}

func (k *c34K) take(a *account.Account, min common.Fixed64) (node.UTXORef, bool) {
	return k.w.Take(a, min+node.DefaultFee)
}

func (k *c34K) fee(a *account.Account) (node.UTXORef, bool) { return k.take(a, node.ELA(1)) }

func (k *c34K) track(tx interfaces.Transaction, refs ...node.UTXORef) interfaces.Transaction {
	k.pend = append(k.pend, c34Pend{h: tx.Hash(), refs: refs})
	return tx
}

func (k *c34K) uniq() string { k.seq++; return fmt.Sprintf("%d-%d", k.c.Shard, k.seq) }

// fund gives every listed key index n outputs of v.
func (k *c34K) fund(idx []int, n int, v common.Fixed64) error {
	_, err := k.nd.Fund(idx, n, v)
	return err
}

func (k *c34K) submitMine(txs ...interfaces.Transaction) error {
	for _, tx := range txs {
		if err := k.nd.TxPool.AppendToTxPool(tx); err != nil {
			return fmt.Errorf("height %d: setup %s rejected: %v", k.nd.Height()+1, tx.TxType().Name(), err)
		}
	}
	_, err := k.nd.MineTipDPoS(txs...)
	return err
}

var c34SlotRe = regexp.MustCompile(`slot (\w+) verify tx error`)
var c34RejSeen = map[string]bool{}

// c34NoteRejection classifies a rejected source tx: by conflict slot (the
// collision the generator aimed for) or by the validation message.
func c34NoteRejection(c *kit.Ctx, src string, tx interfaces.Transaction, e error) {
	msg := e.Error()
	if m := c34SlotRe.FindStringSubmatch(msg); m != nil {
		c.Inc("slot_conflict_rejected:" + m[1])
		c.Inc("source_rejected_by_pool_conflict:" + src)
		return
	}
	c.Inc("source_rejected_by_validation:" + src)
	if len(msg) > 90 {
		msg = msg[:90]
	}
	key := src + "/" + tx.TxType().Name() + "/" + msg
	if !c34RejSeen[key] && len(c34RejSeen) < 40 {
		c34RejSeen[key] = true
		c.Note("source %s: %s rejected by validation: %s", src, tx.TxType().Name(), msg)
	}
}

func inSel(sel []interfaces.Transaction, tx interfaces.Transaction) bool {
	for _, s := range sel {
		if s.Hash() == tx.Hash() {
			return true
		}
	}
	return false
}

func c34PoolSorted(nd *node.Node) []interfaces.Transaction {
	txs := nd.TxPool.GetTxsInPool()
	sort.Slice(txs, func(i, j int) bool { a, b := txs[i].Hash(), txs[j].Hash(); return a.Compare(b) < 0 })
	return txs
}

// ---------- fault family: the chain store fails while a small cross-chain transfer is admitted ----------

// c34FaultStore decorates the node's chain store (blockchain.DefaultLedger.Store
// is an interface field): SaveSmallCrossTransferTx fails when armed, everything
// else goes to the real store.
type c34FaultStore struct {
	blockchain.IChainStore
	c     *kit.Ctx
	armed bool
}

func (f *c34FaultStore) SaveSmallCrossTransferTx(tx interfaces.Transaction) error {
	if f.armed {
		f.armed = false
		f.c.Inc("store_fault_submissions")
		return errors.New("verif: injected store failure (SaveSmallCrossTransferTx)")
	}
	f.c.Inc("small_cross_transfers_saved")
	return f.IChainStore.SaveSmallCrossTransferTx(tx)
}

// The pool persists small TransferCrossChainAsset transactions (amount below
// SmallCrossTransferThreshold, above NewCrossChainStartHeight) while admitting
// them. The source submits such transfers while that store write fails (drawn
// per submission from the shard's stream), resubmits the same transaction
// after the fault has cleared, and also submits fault-free ones. Whatever the
// pool does with the failed transaction (keep or drop), its indexes must agree:
// the ordinary invariant check runs after each of these steps.
func c34SrcStoreFault() *c34Source {
	var k *c34K
	var fs *c34FaultStore
	var faulted interfaces.Transaction // submitted under a fault, not yet resubmitted
	stage := ""
	accts := []int{2, 3, 4, 5, 6}
	xAddr := func(n int) common.Uint168 {
		h := common.Hash([]byte(fmt.Sprintf("verif-side-chain-%d", n)))
		var u common.Uint168
		u[0] = byte(contract.PrefixCrossChain)
		copy(u[1:], h[:20])
		return u
	}
	return &c34Source{Name: "store-fault", Envs: []string{"", "committee", "dposv2"}, Weight: 2,
		Setup: func(c *kit.Ctx, nd *node.Node, r *rand.Rand) error {
			k = c34Kit(c, nd)
			if nd.Height() <= nd.Cfg.NewCrossChainStartHeight {
				return fmt.Errorf("height %d is not above NewCrossChainStartHeight %d", nd.Height(), nd.Cfg.NewCrossChainStartHeight)
			}
			fs = &c34FaultStore{IChainStore: blockchain.DefaultLedger.Store, c: c}
			blockchain.DefaultLedger.Store = fs
			c34AfterInvariants = func(c *kit.Ctx, kind, outcome string) {
				if kind != "source:store-fault" {
					return
				}
				switch stage {
				case "fault":
					if fs.armed { // the submission never reached the store (refused earlier, e.g. capacity)
						fs.armed = false
						faulted = nil
						c.Inc("store_fault_not_reached")
					} else {
						c.Inc("invariants_checked_after_store_fault")
						c.Inc("store_fault_submission_outcome:" + outcome)
					}
				case "resubmit":
					c.Inc("invariants_checked_after_store_fault_resubmission")
					c.Inc("store_fault_resubmission_outcome:" + outcome)
				}
				stage = ""
			}
			return nil
		},
		Next: func(c *kit.Ctx, nd *node.Node, r *rand.Rand) interfaces.Transaction {
			k.reclaim()
			stage = ""
			if faulted != nil {
				tx := faulted
				faulted = nil
				stage = "resubmit"
				c.Inc("store_fault_then_resubmitted")
				if nd.TxPool.HaveTransaction(tx.Hash()) {
					c.Inc("store_fault_resubmitted_while_still_pooled")
				}
				return tx
			}
			a := node.Key(accts[r.Intn(len(accts))])
			in, ok := k.take(a, node.ELA(2))
			if !ok {
				return nil
			}
			amt := common.Fixed64(20000000 + r.Intn(70000000)) // 0.2 .. 0.9 ELA: below SmallCrossTransferThreshold (1 ELA)
			out := &common2.Output{AssetID: core.ELAAssetID, Value: amt, ProgramHash: xAddr(r.Intn(3)), Type: common2.OTCrossChain,
				Payload: &outputpayload.CrossChainOutput{Version: 0, TargetAddress: a.Address, TargetAmount: amt - nd.Cfg.MinCrossChainTxFee}}
			tx := node.BuildTx(node.TxSpec{Type: common2.TransferCrossChainAsset, PayloadVersion: payload.TransferCrossChainVersionV1,
				Payload: &payload.TransferCrossChainAsset{}, Ins: []node.UTXORef{in}, Outs: []*common2.Output{out},
				Fee: common.Fixed64(10000 + r.Intn(50000))})
			k.track(tx, in)
			if r.Intn(3) != 0 {
				fs.armed = true
				faulted = tx
				stage = "fault"
				c.Inc("gen:small-cross-transfer-under-store-fault")
			} else {
				c.Inc("gen:small-cross-transfer")
			}
			return tx
		}}
}

// ---------- source: spends of recently confirmed outputs (every environment) ----------

// A pool tx that spends an output created in one of the last two blocks loses
// its referenced transaction when a depth-1/2 reorganisation detaches that
// block: the cleanup has to evict it AND every index entry it owns.
func c34SrcChainSpend() *c34Source {
	accts := map[common.Uint168]*account.Account{}
	for _, a := range []int{2, 3, 4, 5, 6} {
		accts[node.Key(a).ProgramHash] = node.Key(a)
	}
	return &c34Source{Name: "chain-spend",
		Next: func(c *kit.Ctx, nd *node.Node, r *rand.Rand) interfaces.Transaction {
			used := nd.TxPool.GetUsedUTXOs()
			l := nd.Replay()
			var cand []node.UTXORef
			b := nd.TipBlock()
			for d := 0; d < 2 && b != nil; d++ {
				for _, tx := range b.Transactions[1:] {
					if tx.TxType() != common2.TransferAsset {
						continue
					}
					for i, o := range tx.Outputs() {
						owner := accts[o.ProgramHash]
						if owner == nil || o.Type != common2.OTNone || len(tx.Outputs()) > 8 {
							continue
						}
						in := common2.Input{Previous: common2.OutPoint{TxID: tx.Hash(), Index: uint16(i)}}
						if _, ok := used[in.ReferKey()]; ok {
							continue
						}
						if _, ok := l.Unspent[node.OutKey{TxID: tx.Hash(), Index: uint16(i)}]; !ok {
							continue
						}
						cand = append(cand, node.UTXORef{TxID: tx.Hash(), Index: uint16(i), Value: o.Value, Owner: owner})
					}
				}
				pb, err := nd.Chain.GetBlockByHash(b.Previous)
				if err != nil {
					break
				}
				b = pb
			}
			if len(cand) == 0 {
				return nil
			}
			u := cand[r.Intn(len(cand))]
			c.Inc("chain_spend_candidates")
			return node.Transfer([]node.UTXORef{u}, []node.Out{{To: u.Owner.ProgramHash, Value: u.Value - common.Fixed64(1000+r.Intn(5000))}}, common2.TxVersion09)
		}}
}

// ---------- source: producers ----------

type c34Prod struct {
	owner, node *account.Account
	nick        string
	st          state.ProducerState
	stakeUntil  uint32
	votes       common.Fixed64
}

func c34Producers(nd *node.Node) []c34Prod {
	var res []c34Prod
	for _, p := range nd.Chain.GetState().GetAllProducers() {
		o, n := node.KeyByPub(p.OwnerPublicKey()), node.KeyByPub(p.NodePublicKey())
		if o == nil {
			continue
		}
		info := p.Info()
		res = append(res, c34Prod{owner: o, node: n, nick: info.NickName, st: p.State(), stakeUntil: info.StakeUntil, votes: p.Votes() + common.Fixed64(p.GetTotalDPoSV2VoteRights())})
	}
	sort.Slice(res, func(i, j int) bool { return bytes.Compare(node.Pub(res[i].owner), node.Pub(res[j].owner)) < 0 })
	return res
}

const (
	c34NewOwner0 = node.KeyProducerOwner + 30 // 230.. new producer owner candidates
	c34NewNode0  = node.KeyProducerNode + 30  // 330.. new node key candidates
	c34NewOwners = 5
	c34NewNodes  = 4
	c34SharedCR  = node.KeyCR + 20     // 420: a key used both as producer owner candidate and CR candidate
	c34ClaimKey0 = node.KeyCRNode + 20 // 470.. node keys CR members may claim; 470 is also a producer node-key candidate
)

func c34SrcProducers() *c34Source {
	var k *c34K
	v2 := false
	nicks := []string{"nick-a", "nick-b", "nick-c", "producer-0"} // the last one is taken on chain
	ownerCands := func() []*account.Account {
		var l []*account.Account
		for i := 0; i < c34NewOwners; i++ {
			l = append(l, node.Key(c34NewOwner0+i))
		}
		return append(l, node.Key(c34SharedCR))
	}
	nodeCands := func() []*account.Account {
		var l []*account.Account
		for i := 0; i < c34NewNodes; i++ {
			l = append(l, node.Key(c34NewNode0+i))
		}
		return append(l, node.Key(c34ClaimKey0), node.Key(c34NewOwner0)) // + a claimable CR node key, + another candidate's OWNER key
	}
	isProducerKey := func(ps []c34Prod, a *account.Account) bool {
		for _, p := range ps {
			if p.owner == a && p.st != state.Returned {
				return true
			}
		}
		return false
	}
	register := func(nd *node.Node, o, n *account.Account, nick string) interfaces.Transaction {
		if v2 {
			in, ok := k.take(o, node.ELA(2000))
			if !ok {
				return nil
			}
			return k.track(node.RegisterProducerV2(in, o, n, nick, node.ELA(2000), nd.Height()+300000), in)
		}
		in, ok := k.take(o, node.ELA(5000))
		if !ok {
			return nil
		}
		return k.track(node.RegisterProducer(in, o, n, nick, node.ELA(5000)), in)
	}
	update := func(p c34Prod, n *account.Account, nick, url string) interfaces.Transaction {
		in, ok := k.fee(p.owner)
		if !ok {
			return nil
		}
		su := uint32(0)
		if p.stakeUntil != 0 {
			su = p.stakeUntil
		}
		return k.track(node.UpdateProducer(in, p.owner, n, nick, url, su), in)
	}
	cancel := func(p c34Prod) interfaces.Transaction {
		in, ok := k.fee(p.owner)
		if !ok {
			return nil
		}
		return k.track(node.CancelProducer(in, p.owner), in)
	}
	// live = producers that can still be updated / cancelled
	live := func(ps []c34Prod) []c34Prod {
		var l []c34Prod
		for _, p := range ps {
			if (p.st == state.Active || p.st == state.Pending || p.st == state.Inactive) && p.node != nil {
				l = append(l, p)
			}
		}
		return l
	}
	// cancellable: never shrink the electorate below what the arbiter rotation needs
	cancellable := func(nd *node.Node, ps []c34Prod) []c34Prod {
		l := live(ps)
		pendingCancels := 0
		for _, tx := range nd.TxPool.GetTxsInPool() {
			if tx.TxType() == common2.CancelProducer {
				pendingCancels++
			}
		}
		need := nd.Cfg.DPoSConfiguration.NormalArbitratorsCount + nd.Cfg.DPoSConfiguration.CandidatesCount
		active := 0
		for _, p := range l {
			if p.st == state.Active && p.votes > 0 { // only voted producers are electable
				active++
			}
		}
		if active-pendingCancels <= need+1 {
			return nil
		}
		var res []c34Prod
		for _, p := range l {
			if p.stakeUntil == 0 || !v2 { // DPoS v2 producers cannot be cancelled before their stake expires
				res = append(res, p)
			}
		}
		return res
	}
	return &c34Source{Name: "producers", Envs: []string{"voting", "committee", "dposv2"}, Weight: 2,
		Setup: func(c *kit.Ctx, nd *node.Node, r *rand.Rand) error {
			k = c34Kit(c, nd)
			v2 = nd.Cfg.DPoSV2StartHeight != math.MaxUint32
			var idx []int
			for i := 0; i < c34NewOwners; i++ {
				idx = append(idx, c34NewOwner0+i)
			}
			idx = append(idx, c34SharedCR)
			return k.fund(idx, 4, node.ELA(5200))
		},
		Next: func(c *kit.Ctx, nd *node.Node, r *rand.Rand) interfaces.Transaction {
			k.reclaim()
			ps := c34Producers(nd)
			lv := live(ps)
			owners, nodes := ownerCands(), nodeCands()
			if r.Intn(3) == 0 { // copycat: collide with ONE resource of a pool tx (same nickname | same node key | same owner)
				var pool []interfaces.Transaction
				for _, tx := range c34PoolSorted(nd) {
					if _, ok := tx.Payload().(*payload.ProducerInfo); ok {
						pool = append(pool, tx)
					}
				}
				if len(pool) > 0 {
					ptx := pool[r.Intn(len(pool))]
					pi := ptx.Payload().(*payload.ProducerInfo)
					busy := map[string]bool{} // owners with a pending tx
					for _, tx := range pool {
						busy[hex.EncodeToString(tx.Payload().(*payload.ProducerInfo).OwnerKey)] = true
					}
					var other *c34Prod
					for i := range lv {
						if !busy[node.PubHex(lv[i].owner)] {
							other = &lv[i]
							break
						}
					}
					var newOwner *account.Account
					for _, o := range owners {
						if !isProducerKey(ps, o) && !busy[node.PubHex(o)] {
							newOwner = o
							break
						}
					}
					k.seq++
					freshNode := node.Key(c34NewNode0 + 10 + k.seq%40)
					uniqNick := "u-" + k.uniq()
					mode := r.Intn(3)
					c.Inc(fmt.Sprintf("gen:producer-copycat-%d", mode))
					switch mode {
					case 0: // same nickname, everything else different
						if other != nil && r.Intn(2) == 0 {
							return update(*other, other.node, pi.NickName, "http://cc")
						} else if newOwner != nil {
							return register(nd, newOwner, freshNode, pi.NickName)
						}
					case 1: // same node key
						if nk := node.KeyByPub(pi.NodePublicKey); nk != nil {
							if other != nil && r.Intn(2) == 0 {
								return update(*other, nk, other.nick, "http://cc")
							} else if newOwner != nil {
								return register(nd, newOwner, nk, uniqNick)
							}
						}
					default: // same owner
						ow := node.KeyByPub(pi.OwnerKey)
						if ow == nil {
							break
						}
						if ptx.TxType() == common2.RegisterProducer {
							return register(nd, ow, freshNode, uniqNick)
						}
						for _, p := range lv {
							if p.owner == ow {
								if r.Intn(3) == 0 {
									return cancel(p)
								}
								return update(p, p.node, uniqNick, "http://cc")
							}
						}
					}
				}
			}
			for _, m := range nd.Committee.GetAllMembersCopy() { // ... and inactive CR members (their claimed node key signs)
				if m.MemberState == crstate.MemberInactive && len(m.DPOSPublicKey) > 0 && r.Intn(2) == 0 {
					if nk := node.KeyByPub(m.DPOSPublicKey); nk != nil {
						c.Inc("gen:ActivateProducer-inactive-cr-member")
						return node.ActivateProducer(nk)
					}
				}
			}
			for _, p := range lv { // keep the electorate alive: inactive producers ask for activation
				if p.st == state.Inactive && r.Intn(3) == 0 {
					c.Inc("gen:ActivateProducer-inactive")
					return node.ActivateProducer(p.node)
				}
			}
			switch x := r.Intn(22); {
			case x >= 20: // (partial) return of the deposit of a cancelled producer after the lock-up: one pending return per owner code
				var cs []c34Prod
				for _, p := range ps {
					if p.st == state.Canceled {
						cs = append(cs, p)
					}
				}
				if len(cs) == 0 {
					return nil
				}
				p := cs[r.Intn(len(cs))]
				dep := k.w.UTXOs(node.DepositAddr(p.owner))
				if len(dep) == 0 {
					return nil
				}
				d := dep[r.Intn(len(dep))]
				c.Inc("gen:ReturnDepositCoin")
				if d.Value > node.ELA(2) && r.Intn(2) == 0 {
					return node.ReturnDepositCoinAmount([]node.UTXORef{d}, p.owner, node.ELA(1)+common.Fixed64(r.Intn(1000)), 0)
				}
				return node.ReturnDepositCoin([]node.UTXORef{d}, p.owner, common.Fixed64(10000+r.Intn(1000)))
			case x < 7: // registration: owner / node key / nickname from small sets
				o := owners[r.Intn(len(owners))]
				if isProducerKey(ps, o) && r.Intn(4) != 0 {
					return nil
				}
				n := nodes[r.Intn(len(nodes))]
				if r.Intn(5) == 0 {
					n = o // owner key doubles as node key
				}
				c.Inc("gen:RegisterProducer")
				return register(nd, o, n, nicks[r.Intn(len(nicks))])
			case x < 13: // update of a registered producer
				if len(lv) == 0 {
					return nil
				}
				p := lv[r.Intn(len(lv))]
				n, nick := p.node, p.nick
				if r.Intn(2) == 0 {
					n = nodes[r.Intn(len(nodes))]
				}
				if r.Intn(2) == 0 {
					nick = nicks[r.Intn(len(nicks))]
				}
				c.Inc("gen:UpdateProducer")
				return update(p, n, nick, "http://u"+k.uniq())
			case x < 15:
				cs := cancellable(nd, ps)
				if len(cs) == 0 {
					return nil
				}
				c.Inc("gen:CancelProducer")
				return cancel(cs[r.Intn(len(cs))])
			case x < 17: // zero-cost activation request signed by the node key (same key -> same tx)
				if len(lv) == 0 {
					return nil
				}
				c.Inc("gen:ActivateProducer")
				return node.ActivateProducer(lv[r.Intn(len(lv))].node)
			default: // v1 vote for a few producers (TransferAsset with a vote output)
				if v2 || len(lv) == 0 || c34Boot == nil {
					return nil
				}
				voter := c34Boot.Voters[r.Intn(len(c34Boot.Voters))]
				in, ok := k.take(voter, node.ELA(10))
				if !ok {
					return nil
				}
				var pubs [][]byte
				for _, p := range lv {
					if p.st == state.Active && (r.Intn(2) == 0 || len(pubs) == 0) {
						pubs = append(pubs, node.Pub(p.owner))
					}
				}
				if len(pubs) == 0 {
					k.w.Release(in)
					return nil
				}
				c.Inc("gen:VoteProducers")
				return k.track(node.VoteProducers(in, node.ELA(10), pubs...), in)
			}
		},
		BlockTxs: func(c *kit.Ctx, nd *node.Node, r *rand.Rand, sel []interfaces.Transaction) []interfaces.Transaction {
			k.reclaim()
			ps := c34Producers(nd)
			byOwner := map[string]c34Prod{}
			for _, p := range ps {
				byOwner[node.PubHex(p.owner)] = p
			}
			// keys claimed by the txs selected for the block: the non-pool tx must not collide with THEM
			selKeys := map[string]bool{}
			for _, tx := range sel {
				if pi, ok := tx.Payload().(*payload.ProducerInfo); ok {
					selKeys[hex.EncodeToString(pi.OwnerKey)] = true
					selKeys[hex.EncodeToString(pi.NodePublicKey)] = true
					selKeys["nick:"+pi.NickName] = true
				}
				if pp, ok := tx.Payload().(*payload.ProcessProducer); ok {
					selKeys[hex.EncodeToString(pp.OwnerKey)] = true
				}
			}
			var out []interfaces.Transaction
			for _, tx := range c34PoolSorted(nd) {
				if len(out) > 0 || inSel(sel, tx) {
					continue
				}
				pi, ok := tx.Payload().(*payload.ProducerInfo)
				if !ok {
					continue
				}
				if selKeys[hex.EncodeToString(pi.OwnerKey)] || selKeys[hex.EncodeToString(pi.NodePublicKey)] || selKeys["nick:"+pi.NickName] {
					continue
				}
				switch tx.TxType() {
				case common2.RegisterProducer:
					// another owner registers the SAME nickname (or the same node key) in the block
					var o *account.Account
					for _, cand := range ownerCands() {
						if !isProducerKey(ps, cand) && !bytes.Equal(node.Pub(cand), pi.OwnerKey) && !selKeys[node.PubHex(cand)] {
							o = cand
							break
						}
					}
					if o == nil {
						continue
					}
					var t interfaces.Transaction
					if r.Intn(2) == 0 {
						t = register(nd, o, node.Key(c34NewNode0+c34NewNodes+1), pi.NickName)
						c.Inc("blocktx:register-same-nickname")
					} else if nk := node.KeyByPub(pi.NodePublicKey); nk != nil && !bytes.Equal(pi.NodePublicKey, pi.OwnerKey) {
						t = register(nd, o, nk, "nick-blk-"+k.uniq())
						c.Inc("blocktx:register-same-nodekey")
					}
					if t != nil {
						out = append(out, t)
					}
				case common2.UpdateProducer:
					p, ok := byOwner[hex.EncodeToString(pi.OwnerKey)]
					if !ok || p.node == nil {
						continue
					}
					if r.Intn(3) == 0 {
						if cs := cancellable(nd, ps); len(cs) > 0 {
							for _, cp := range cs {
								if cp.owner == p.owner {
									if t := cancel(p); t != nil { // cancel in the block while the pool holds an update of the same producer
										out = append(out, t)
										c.Inc("blocktx:cancel-producer-with-pool-update")
									}
								}
							}
						}
					} else if t := update(p, p.node, "nick-blk-"+k.uniq(), "http://blk"); t != nil { // same owner, other nickname
						out = append(out, t)
						c.Inc("blocktx:update-same-owner")
					}
				}
			}
			if len(out) == 0 && r.Intn(3) == 0 {
				// cancel a producer that pool vote txs may vote for
				if cs := cancellable(nd, ps); len(cs) > 0 {
					p := cs[r.Intn(len(cs))]
					if !selKeys[node.PubHex(p.owner)] {
						if t := cancel(p); t != nil {
							out = append(out, t)
							c.Inc("blocktx:cancel-producer")
						}
					}
				}
			}
			return out
		}}
}

// ---------- source: CR candidates (first voting period kept open) ----------

type c34Cand struct {
	acc  *account.Account
	nick string
	st   crstate.CandidateState
}

func c34Candidates(nd *node.Node) []c34Cand {
	var res []c34Cand
	for _, cd := range nd.Committee.GetAllCandidates() {
		var acc *account.Account
		if len(cd.Info.Code) > 2 {
			acc = node.KeyByPub(cd.Info.Code[1 : len(cd.Info.Code)-1])
		}
		if acc == nil {
			continue
		}
		res = append(res, c34Cand{acc: acc, nick: cd.Info.NickName, st: cd.State})
	}
	sort.Slice(res, func(i, j int) bool { return bytes.Compare(node.Pub(res[i].acc), node.Pub(res[j].acc)) < 0 })
	return res
}

func c34SrcCRs() *c34Source {
	var k *c34K
	nicks := []string{"crn-a", "crn-b", "crn-c", "cr-0"}
	newCands := func() []*account.Account {
		var l []*account.Account
		for i := 0; i < 4; i++ {
			l = append(l, node.Key(node.KeyCR+10+i))
		}
		return append(l, node.Key(c34SharedCR), node.Key(c34NewOwner0+1)) // 420 shared with the producer source; 231 is a producer owner candidate
	}
	registered := func(cs []c34Cand, a *account.Account) bool {
		for _, cd := range cs {
			if cd.acc == a && cd.st != crstate.Returned {
				return true
			}
		}
		return false
	}
	liveC := func(cs []c34Cand) []c34Cand {
		var l []c34Cand
		for _, cd := range cs {
			if cd.st == crstate.Pending || cd.st == crstate.Active {
				l = append(l, cd)
			}
		}
		return l
	}
	regCR := func(a *account.Account, nick string) interfaces.Transaction {
		in, ok := k.take(a, node.ELA(5000))
		if !ok {
			return nil
		}
		return k.track(node.RegisterCR(in, a, nick, node.ELA(5000)), in)
	}
	updCR := func(cd c34Cand, nick string) interfaces.Transaction {
		in, ok := k.fee(cd.acc)
		if !ok {
			return nil
		}
		return k.track(node.UpdateCR(in, cd.acc, nick, "http://c"+k.uniq()), in)
	}
	unreg := func(cd c34Cand) interfaces.Transaction {
		in, ok := k.fee(cd.acc)
		if !ok {
			return nil
		}
		return k.track(node.UnregisterCR(in, cd.acc), in)
	}
	return &c34Source{Name: "cr-candidates", Envs: []string{"voting"}, Weight: 2,
		Setup: func(c *kit.Ctx, nd *node.Node, r *rand.Rand) error {
			k = c34Kit(c, nd)
			idx := []int{node.KeyCR, node.KeyCR + 1, node.KeyCR + 2, node.KeyCR + 3}
			for i := 0; i < 4; i++ {
				idx = append(idx, node.KeyCR+10+i)
			}
			// (Bootstrap already funded Key(KeyCR+i) for i < CRs; the extra outputs do no harm)
			if err := k.fund(idx, 4, node.ELA(5200)); err != nil {
				return err
			}
			if err := nd.MineToDPoS(nd.Cfg.CRConfiguration.CRVotingStartHeight); err != nil {
				return err
			}
			var txs []interfaces.Transaction
			for i := 0; i < 4; i++ {
				t := regCR(node.Key(node.KeyCR+i), fmt.Sprintf("cr-%d", i))
				if t == nil {
					return fmt.Errorf("no funds for CR %d", i)
				}
				txs = append(txs, t)
			}
			if err := k.submitMine(txs...); err != nil {
				return err
			}
			return nd.MineNDPoS(6)
		},
		Next: func(c *kit.Ctx, nd *node.Node, r *rand.Rand) interfaces.Transaction {
			k.reclaim()
			cs := c34Candidates(nd)
			lv := liveC(cs)
			if r.Intn(3) == 0 { // copycat: same nickname from another candidate | same CID
				var pool []interfaces.Transaction
				busy := map[string]bool{}
				for _, tx := range c34PoolSorted(nd) {
					if ci, ok := tx.Payload().(*payload.CRInfo); ok {
						pool = append(pool, tx)
						busy[ci.CID.String()] = true
					}
					if u, ok := tx.Payload().(*payload.UnregisterCR); ok {
						busy[u.CID.String()] = true
					}
				}
				if len(pool) > 0 {
					ptx := pool[r.Intn(len(pool))]
					ci := ptx.Payload().(*payload.CRInfo)
					mode := r.Intn(2)
					c.Inc(fmt.Sprintf("gen:cr-copycat-%d", mode))
					if mode == 0 {
						for _, cd := range lv {
							if !busy[node.CIDOf(cd.acc).String()] && r.Intn(2) == 0 {
								return updCR(cd, ci.NickName)
							}
						}
						for _, a := range newCands() {
							if !registered(cs, a) && !busy[node.CIDOf(a).String()] {
								return regCR(a, ci.NickName)
							}
						}
					} else {
						for _, cd := range lv {
							if node.CIDOf(cd.acc).IsEqual(ci.CID) {
								if r.Intn(3) == 0 && len(lv) > 2 {
									return unreg(cd)
								}
								return updCR(cd, "u-"+k.uniq())
							}
						}
						for _, a := range newCands() {
							if node.CIDOf(a).IsEqual(ci.CID) {
								return regCR(a, "u-"+k.uniq())
							}
						}
					}
				}
			}
			switch x := r.Intn(11); {
			case x >= 10: // return of the deposit of an unregistered candidate after the lock-up
				var cc []c34Cand
				for _, cd := range cs {
					if cd.st == crstate.Canceled {
						cc = append(cc, cd)
					}
				}
				if len(cc) == 0 {
					return nil
				}
				cd := cc[r.Intn(len(cc))]
				dep := k.w.UTXOs(node.CRDepositAddr(cd.acc))
				if len(dep) == 0 {
					return nil
				}
				d := dep[r.Intn(len(dep))]
				c.Inc("gen:ReturnCRDepositCoin")
				if d.Value > node.ELA(2) && r.Intn(2) == 0 {
					return node.ReturnCRDepositCoinAmount([]node.UTXORef{d}, cd.acc, node.ELA(1)+common.Fixed64(r.Intn(1000)), 0)
				}
				return node.ReturnCRDepositCoin([]node.UTXORef{d}, cd.acc, common.Fixed64(10000+r.Intn(1000)))
			case x < 4:
				nc := newCands()
				a := nc[r.Intn(len(nc))]
				if registered(cs, a) && r.Intn(4) != 0 {
					return nil
				}
				c.Inc("gen:RegisterCR")
				return regCR(a, nicks[r.Intn(len(nicks))])
			case x < 7:
				if len(lv) == 0 {
					return nil
				}
				cd := lv[r.Intn(len(lv))]
				nick := cd.nick
				if r.Intn(2) == 0 {
					nick = nicks[r.Intn(len(nicks))]
				}
				c.Inc("gen:UpdateCR")
				return updCR(cd, nick)
			case x < 8:
				if len(lv) <= 2 {
					return nil
				}
				c.Inc("gen:UnregisterCR")
				return unreg(lv[r.Intn(len(lv))])
			default:
				if len(lv) == 0 || c34Boot == nil {
					return nil
				}
				voter := c34Boot.Voters[r.Intn(len(c34Boot.Voters))]
				in, ok := k.take(voter, node.ELA(10))
				if !ok {
					return nil
				}
				votes := map[common.Uint168]common.Fixed64{}
				for _, cd := range lv {
					if cd.st == crstate.Active && (r.Intn(2) == 0 || len(votes) == 0) {
						votes[node.CIDOf(cd.acc)] = node.ELA(1)
					}
				}
				if len(votes) == 0 {
					k.w.Release(in)
					return nil
				}
				c.Inc("gen:VoteCRs")
				return k.track(node.VoteCRs(in, node.ELA(10), votes), in)
			}
		},
		BlockTxs: func(c *kit.Ctx, nd *node.Node, r *rand.Rand, sel []interfaces.Transaction) []interfaces.Transaction {
			k.reclaim()
			cs := c34Candidates(nd)
			lv := liveC(cs)
			selKeys := map[string]bool{}
			for _, tx := range sel {
				if ci, ok := tx.Payload().(*payload.CRInfo); ok {
					selKeys[ci.CID.String()] = true
					selKeys["nick:"+ci.NickName] = true
				}
				if u, ok := tx.Payload().(*payload.UnregisterCR); ok {
					selKeys[u.CID.String()] = true
				}
			}
			var out []interfaces.Transaction
			for _, tx := range c34PoolSorted(nd) {
				if len(out) > 0 || inSel(sel, tx) {
					continue
				}
				ci, ok := tx.Payload().(*payload.CRInfo)
				if !ok || selKeys[ci.CID.String()] || selKeys["nick:"+ci.NickName] {
					continue
				}
				switch tx.TxType() {
				case common2.RegisterCR: // another candidate registers the SAME nickname in the block
					for _, a := range newCands() {
						if !registered(cs, a) && !node.CIDOf(a).IsEqual(ci.CID) && !selKeys[node.CIDOf(a).String()] {
							if t := regCR(a, ci.NickName); t != nil {
								out = append(out, t)
								c.Inc("blocktx:registercr-same-nickname")
							}
							break
						}
					}
				case common2.UpdateCR:
					for _, cd := range lv {
						if !node.CIDOf(cd.acc).IsEqual(ci.CID) {
							continue
						}
						if r.Intn(3) == 0 && len(lv) > 2 {
							if t := unreg(cd); t != nil { // unregister in the block while the pool holds an update of the same CID
								out = append(out, t)
								c.Inc("blocktx:unregister-cr-with-pool-update")
							}
						} else if t := updCR(cd, "crn-blk-"+k.uniq()); t != nil {
							out = append(out, t)
							c.Inc("blocktx:updatecr-same-cid")
						}
					}
				}
			}
			if len(out) == 0 && r.Intn(3) == 0 && len(lv) > 2 {
				cd := lv[r.Intn(len(lv))]
				if !selKeys[node.CIDOf(cd.acc).String()] {
					if t := unreg(cd); t != nil { // pool CR votes for this candidate must be evicted
						out = append(out, t)
						c.Inc("blocktx:unregister-cr")
					}
				}
			}
			return out
		}}
}

// ---------- source: CR proposals, reviews, trackings, withdrawals ----------

// c34ProposalSpec extends the kit's ProposalSpec by the custom-ID and
// side-chain proposal types (the kit factory covers Normal / ELIP / Close /
// ChangeOwner / SecretaryGeneral).
type c34ProposalSpec struct {
	node.ProposalSpec
	Reserved, Received []string
	FeeRate            common.Fixed64
	SideChainName      string
	Magic              uint32
	Genesis            common.Uint256
}

func c34ProposalTx(in node.UTXORef, sp c34ProposalSpec, ver byte) interfaces.Transaction {
	switch sp.Type {
	case payload.ReserveCustomID, payload.ReceiveCustomID, payload.ChangeCustomIDFee, payload.RegisterSideChain:
	default:
		return node.CRCProposalTx(in, sp.ProposalSpec, ver)
	}
	p := &payload.CRCProposal{ProposalType: sp.Type, CategoryData: "verif", OwnerKey: node.Pub(sp.Owner), DraftHash: common.Hash(sp.Draft),
		CRCouncilMemberDID: node.DIDOf(sp.CRMember), ReservedCustomIDList: sp.Reserved, ReceivedCustomIDList: sp.Received}
	if ver >= payload.CRCProposalVersion01 {
		p.DraftData = sp.Draft
	}
	switch sp.Type {
	case payload.ReceiveCustomID:
		p.ReceiverDID = node.DIDOf(sp.Owner)
	case payload.ChangeCustomIDFee:
		p.CustomIDFeeRateInfo = payload.CustomIDFeeRateInfo{RateOfCustomIDFee: sp.FeeRate, EIDEffectiveHeight: 1000}
	case payload.RegisterSideChain:
		p.SideChainInfo = payload.SideChainInfo{SideChainName: sp.SideChainName, MagicNumber: sp.Magic, GenesisHash: sp.Genesis,
			ExchangeRate: 1e8, EffectiveHeight: 500000}
	}
	buf := new(bytes.Buffer)
	p.SerializeUnsigned(buf, ver)
	p.Signature = node.DetSign(sp.Owner, buf.Bytes())
	common.WriteVarBytes(buf, p.Signature)
	p.CRCouncilMemberDID.Serialize(buf)
	p.CRCouncilMemberSignature = node.DetSign(sp.CRMember, buf.Bytes())
	return node.BuildTx(node.TxSpec{Type: common2.CRCProposal, PayloadVersion: ver, Payload: p, Ins: []node.UTXORef{in}})
}

func c34SrcProposals() *c34Source {
	var k *c34K
	var targets []common.Uint256 // VoterAgreed normal proposals created by Setup
	var targetOwner []*account.Account
	var members []*account.Account
	owners := []*account.Account{}
	sec := node.Key(node.KeySecretary)
	drafts := []string{"draft-a", "draft-b", "draft-c", "draft-d"}
	draftOf := map[common.Uint256][]byte{}
	pver := func(nd *node.Node) byte {
		if nd.Height()+1 >= nd.Cfg.CRConfiguration.CRCProposalDraftDataStartHeight {
			return payload.CRCProposalVersion01
		}
		return payload.CRCProposalVersion
	}
	budgets := func() []payload.Budget {
		return []payload.Budget{{Type: payload.Imprest, Stage: 0, Amount: node.ELA(2)}, {Type: payload.NormalPayment, Stage: 1, Amount: node.ELA(1)},
			{Type: payload.NormalPayment, Stage: 2, Amount: node.ELA(1)}, {Type: payload.FinalPayment, Stage: 3, Amount: node.ELA(1)}}
	}
	mk := func(nd *node.Node, sp c34ProposalSpec) interfaces.Transaction {
		in, ok := k.fee(sp.Owner)
		if !ok {
			return nil
		}
		return k.track(c34ProposalTx(in, sp, pver(nd)), in)
	}
	review := func(nd *node.Node, m *account.Account, ph common.Uint256, res payload.VoteResult, op string) interfaces.Transaction {
		in, ok := k.fee(m)
		if !ok {
			return nil
		}
		return k.track(node.CRCProposalReview(in, m, ph, res, []byte(op), pver(nd)), in)
	}
	// approve drives a set of registered proposals to VoterAgreed
	approve := func(nd *node.Node, hashes []common.Uint256) error {
		var txs []interfaces.Transaction
		for _, ph := range hashes {
			for _, m := range members {
				t := review(nd, m, ph, payload.Approve, "ok")
				if t == nil {
					return fmt.Errorf("no funds for a review")
				}
				txs = append(txs, t)
			}
		}
		if err := k.submitMine(txs...); err != nil {
			return err
		}
		e := nd.Cfg.CRConfiguration
		return nd.MineNDPoS(int(e.ProposalCRVotingPeriod + e.ProposalPublicVotingPeriod + 2))
	}
	return &c34Source{Name: "proposals", Envs: []string{"committee"}, Weight: 4,
		Setup: func(c *kit.Ctx, nd *node.Node, r *rand.Rand) error {
			k = c34Kit(c, nd)
			if c34Boot == nil || len(c34Boot.Members) < 3 {
				return fmt.Errorf("no committee")
			}
			members = c34Boot.Members
			owners = []*account.Account{c34Boot.Voters[3], c34Boot.Voters[4]}
			var txs []interfaces.Transaction
			var hs []common.Uint256
			for i := 0; i < 3; i++ {
				o := owners[i%2]
				t := mk(nd, c34ProposalSpec{ProposalSpec: node.ProposalSpec{Type: payload.Normal, Owner: o, CRMember: members[i],
					Draft: []byte(fmt.Sprintf("setup-draft-%d", i)), Budgets: budgets(), Recipient: o.ProgramHash}})
				if t == nil {
					return fmt.Errorf("no funds for setup proposal %d", i)
				}
				txs = append(txs, t)
				hs = append(hs, node.ProposalHash(t))
				targetOwner = append(targetOwner, o)
			}
			// one ReserveCustomID proposal so that ReceiveCustomID proposals become valid
			// (not on every committee shard: while a reserve proposal is registered or passed, no second one is valid)
			var rt interfaces.Transaction
			if c.Shard%2 == 1 {
				rt = mk(nd, c34ProposalSpec{ProposalSpec: node.ProposalSpec{Type: payload.ReserveCustomID, Owner: owners[0], CRMember: members[3%len(members)],
					Draft: []byte("setup-reserve")}, Reserved: []string{"alpha", "beta", "gamma", "delta"}})
			}
			if rt != nil {
				txs = append(txs, rt)
				hs = append(hs, node.ProposalHash(rt))
			}
			if err := k.submitMine(txs...); err != nil {
				return err
			}
			if err := approve(nd, hs); err != nil {
				return err
			}
			for i := 0; i < 3; i++ {
				ps := nd.Committee.GetProposal(hs[i])
				if ps == nil || ps.Status != crstate.VoterAgreed {
					return fmt.Errorf("setup proposal %d did not reach VoterAgreed", i)
				}
				targets = append(targets, hs[i])
			}
			if len(nd.Committee.GetReservedCustomIDLists()) > 0 {
				c.Inc("setup:reserved_custom_ids")
			}
			return nil
		},
		Next: func(c *kit.Ctx, nd *node.Node, r *rand.Rand) interfaces.Transaction {
			k.reclaim()
			o := owners[r.Intn(len(owners))]
			m := members[r.Intn(len(members))]
			draft := []byte(drafts[r.Intn(len(drafts))])
			if r.Intn(3) == 0 {
				draft = []byte("draft-" + k.uniq()) // fresh draft: only sponsor / target / type-specific keys can collide
			}
			ps := node.ProposalSpec{Owner: o, CRMember: m, Draft: draft}
			draftOf[common.Hash(draft)] = draft
			if r.Intn(3) == 0 { // copycat: same draft hash, other sponsor | same sponsor, other draft | same target, other sponsor and draft
				var pool []interfaces.Transaction
				sponsors := map[common.Uint168]bool{}
				for _, tx := range c34PoolSorted(nd) {
					if p, ok := tx.Payload().(*payload.CRCProposal); ok {
						pool = append(pool, tx)
						sponsors[p.CRCouncilMemberDID] = true
					}
				}
				if len(pool) > 0 {
					pp := pool[r.Intn(len(pool))].Payload().(*payload.CRCProposal)
					var free *account.Account // a member that sponsors no pending proposal
					for _, mm := range members {
						if !sponsors[node.DIDOf(mm)] {
							free = mm
						}
					}
					mode := r.Intn(3)
					c.Inc(fmt.Sprintf("gen:proposal-copycat-%d", mode))
					fresh := []byte("draft-cc-" + k.uniq())
					switch {
					case mode == 0 && free != nil && draftOf[pp.DraftHash] != nil:
						return mk(nd, c34ProposalSpec{ProposalSpec: node.ProposalSpec{Type: payload.Normal, Owner: o, CRMember: free, Draft: draftOf[pp.DraftHash],
							Budgets: budgets(), Recipient: o.ProgramHash}})
					case mode == 1:
						for _, mm := range members {
							if node.DIDOf(mm).IsEqual(pp.CRCouncilMemberDID) {
								return mk(nd, c34ProposalSpec{ProposalSpec: node.ProposalSpec{Type: payload.Normal, Owner: o, CRMember: mm, Draft: fresh,
									Budgets: budgets(), Recipient: o.ProgramHash}})
							}
						}
					case mode == 2 && free != nil && (pp.ProposalType == payload.CloseProposal || pp.ProposalType == payload.ChangeProposalOwner):
						sp := node.ProposalSpec{Type: pp.ProposalType, Owner: o, CRMember: free, Draft: fresh, Target: pp.TargetProposalHash}
						if pp.ProposalType == payload.ChangeProposalOwner {
							for ti, th := range targets {
								if th == pp.TargetProposalHash {
									sp.Owner = targetOwner[ti]
								}
							}
							sp.NewOwner = c34Boot.Voters[5%len(c34Boot.Voters)]
							sp.NewRecipient = sp.NewOwner.ProgramHash
						}
						return mk(nd, c34ProposalSpec{ProposalSpec: sp})
					case mode == 2 && free != nil && pp.ProposalType == payload.SecretaryGeneral:
						return mk(nd, c34ProposalSpec{ProposalSpec: node.ProposalSpec{Type: payload.SecretaryGeneral, Owner: o, CRMember: free, Draft: fresh,
							NewSecretary: node.Key(node.KeySecretary + 1 + r.Intn(2))}})
					}
				}
			}
			switch x := r.Intn(32); {
			case x < 5:
				ps.Type, ps.Budgets, ps.Recipient = payload.Normal, budgets(), o.ProgramHash
				if r.Intn(4) == 0 { // ELIP: exactly an imprest and a final payment
					ps.Type = payload.ELIP
					ps.Budgets = []payload.Budget{{Type: payload.Imprest, Stage: 0, Amount: node.ELA(1)}, {Type: payload.FinalPayment, Stage: 1, Amount: node.ELA(1)}}
				}
				c.Inc("gen:CRCProposal-normal")
				return mk(nd, c34ProposalSpec{ProposalSpec: ps})
			case x < 8:
				ps.Type, ps.Target = payload.CloseProposal, targets[r.Intn(len(targets))]
				c.Inc("gen:CRCProposal-close")
				return mk(nd, c34ProposalSpec{ProposalSpec: ps})
			case x < 11:
				ti := r.Intn(len(targets))
				ps.Type, ps.Target, ps.Owner = payload.ChangeProposalOwner, targets[ti], targetOwner[ti]
				ps.NewOwner = c34Boot.Voters[5%len(c34Boot.Voters)]
				ps.NewRecipient = ps.NewOwner.ProgramHash
				c.Inc("gen:CRCProposal-changeowner")
				return mk(nd, c34ProposalSpec{ProposalSpec: ps})
			case x < 13:
				ps.Type, ps.NewSecretary = payload.SecretaryGeneral, node.Key(node.KeySecretary+1+r.Intn(2))
				c.Inc("gen:CRCProposal-secretary")
				return mk(nd, c34ProposalSpec{ProposalSpec: ps})
			case x < 14:
				ps.Type = payload.ReserveCustomID
				c.Inc("gen:CRCProposal-reservecustomid")
				return mk(nd, c34ProposalSpec{ProposalSpec: ps, Reserved: []string{"r" + k.uniq()[2:]}})
			case x < 16:
				ps.Type = payload.ReceiveCustomID
				ids := []string{"alpha", "beta", "gamma", "delta"}
				c.Inc("gen:CRCProposal-receivecustomid")
				return mk(nd, c34ProposalSpec{ProposalSpec: ps, Received: []string{ids[r.Intn(2)], ids[2+r.Intn(2)]}})
			case x < 18:
				ps.Type = payload.ChangeCustomIDFee
				c.Inc("gen:CRCProposal-changecustomidfee")
				return mk(nd, c34ProposalSpec{ProposalSpec: ps, FeeRate: common.Fixed64(1 + r.Intn(5))})
			case x < 21:
				ps.Type = payload.RegisterSideChain
				names := []string{"side-a", "side-b"}
				c.Inc("gen:CRCProposal-registersidechain")
				return mk(nd, c34ProposalSpec{ProposalSpec: ps, SideChainName: names[r.Intn(2)], Magic: uint32(7000 + r.Intn(2)),
					Genesis: common.Hash([]byte{byte(1 + r.Intn(2))})})
			case x < 26: // review of a Registered proposal by a member (same member + proposal = same key)
				var reg []common.Uint256
				for h, p := range nd.Committee.GetProposals(crstate.Registered) {
					_ = p
					reg = append(reg, h)
				}
				if len(reg) == 0 {
					return nil
				}
				sort.Slice(reg, func(i, j int) bool { return reg[i].Compare(reg[j]) < 0 })
				res := payload.Approve
				if r.Intn(5) == 0 {
					res = payload.Reject
				}
				ph := reg[r.Intn(len(reg))]
				if st := nd.Committee.GetProposal(ph); st != nil && r.Intn(4) != 0 {
					for _, mm := range members { // a member that has not voted on it yet
						if _, voted := st.CRVotes[node.DIDOf(mm)]; !voted {
							m = mm
							break
						}
					}
				}
				c.Inc("gen:CRCProposalReview")
				return review(nd, m, ph, res, "op-"+k.uniq())
			case x < 29: // tracking of a VoterAgreed proposal (Common: repeatable)
				ti := r.Intn(len(targets))
				st := nd.Committee.GetProposal(targets[ti])
				if st == nil || st.Status != crstate.VoterAgreed {
					return nil
				}
				ow := node.KeyByPub(st.ProposalOwner)
				if ow == nil {
					return nil
				}
				in, ok := k.fee(ow)
				if !ok {
					return nil
				}
				ts := node.TrackingSpec{Proposal: targets[ti], Type: payload.Common, Stage: 0, Message: []byte("m-" + k.uniq()), Opinion: []byte("fine")}
				if r.Intn(2) == 0 {
					ts.Type, ts.Stage = payload.Progress, uint8(1+r.Intn(2))
				}
				c.Inc("gen:CRCProposalTracking")
				return k.track(node.CRCProposalTracking(in, ow, sec, ts, pver(nd)), in)
			default: // withdrawal of whatever is withdrawable
				ti := r.Intn(len(targets))
				st := nd.Committee.GetProposal(targets[ti])
				amt := nd.Committee.AvailableWithdrawalAmount(targets[ti])
				if st == nil || amt <= 0 {
					return nil
				}
				ow := node.KeyByPub(st.ProposalOwner)
				if ow == nil {
					return nil
				}
				in, ok := k.fee(ow)
				if !ok {
					return nil
				}
				c.Inc("gen:CRCProposalWithdraw")
				return k.track(node.CRCProposalWithdraw(in, ow, targets[ti], st.Recipient, amt), in)
			}
		},
		BlockTxs: func(c *kit.Ctx, nd *node.Node, r *rand.Rand, sel []interfaces.Transaction) []interfaces.Transaction {
			k.reclaim()
			// A block confirms a proposal that is NOT in this pool (other inputs, other
			// sponsor) with the same draft hash as a budget-carrying pool proposal that is
			// not selected for the block: CleanSubmittedTransactions leaves the pool
			// proposal alone (no shared outpoint), the re-validation of
			// CheckAndCleanAllTransactions then drops it ("duplicated draft proposal
			// hash"), and the pending-proposal budget total has to follow.
			selDrafts := map[common.Uint256]bool{}
			for _, tx := range sel {
				if p, ok := tx.Payload().(*payload.CRCProposal); ok {
					selDrafts[p.DraftHash] = true
				}
			}
			sponsors := map[common.Uint168]bool{}
			var victim *payload.CRCProposal
			for _, tx := range c34PoolSorted(nd) {
				p, ok := tx.Payload().(*payload.CRCProposal)
				if !ok {
					continue
				}
				sponsors[p.CRCouncilMemberDID] = true
				if victim != nil || inSel(sel, tx) || len(p.Budgets) == 0 || selDrafts[p.DraftHash] || draftOf[p.DraftHash] == nil {
					continue
				}
				if p.ProposalType != payload.Normal && p.ProposalType != payload.ELIP {
					continue
				}
				victim = p
			}
			if victim == nil && r.Intn(4) != 0 {
				// none pending: a member without a pending proposal submits one right before the block arrives
				for _, m := range members {
					if sponsors[node.DIDOf(m)] {
						continue
					}
					o := owners[r.Intn(len(owners))]
					draft := []byte("draft-v-" + k.uniq())
					t := mk(nd, c34ProposalSpec{ProposalSpec: node.ProposalSpec{Type: payload.Normal, Owner: o, CRMember: m, Draft: draft,
						Budgets: budgets(), Recipient: o.ProgramHash}})
					if t == nil {
						break
					}
					draftOf[common.Hash(draft)] = draft
					if err := nd.TxPool.AppendToTxPool(t); err != nil {
						c.Inc("blocktx:proposal-victim-refused")
						break
					}
					c.Inc("blocktx:proposal-victim-submitted")
					victim = t.Payload().(*payload.CRCProposal)
					break
				}
			}
			if victim == nil {
				return nil
			}
			for _, m := range members {
				if node.DIDOf(m).IsEqual(victim.CRCouncilMemberDID) {
					continue
				}
				o := owners[r.Intn(len(owners))]
				t := mk(nd, c34ProposalSpec{ProposalSpec: node.ProposalSpec{Type: payload.Normal, Owner: o, CRMember: m, Draft: draftOf[victim.DraftHash],
					Budgets: budgets(), Recipient: o.ProgramHash}})
				if t != nil {
					c.Inc("blocktx:proposal-same-draft")
					return []interfaces.Transaction{t}
				}
			}
			return nil
		}}
}

// ---------- source: CR council members claim DPoS node keys ----------

func c34SrcClaimNode() *c34Source {
	var k *c34K
	return &c34Source{Name: "claim-node", Envs: []string{"committee", "dposv2"},
		Setup: func(c *kit.Ctx, nd *node.Node, r *rand.Rand) error {
			k = c34Kit(c, nd)
			if c34Boot == nil || len(c34Boot.Members) == 0 {
				return fmt.Errorf("no committee")
			}
			return nil
		},
		Next: func(c *kit.Ctx, nd *node.Node, r *rand.Rand) interfaces.Transaction {
			k.reclaim()
			m := c34Boot.Members[r.Intn(len(c34Boot.Members))]
			in, ok := k.fee(m)
			if !ok {
				return nil
			}
			nk := node.Key(c34ClaimKey0 + r.Intn(3)) // 470 is also a producer node-key candidate
			// Collide in the POOL, not on chain: below DPoSV2StartHeight the validators accept a
			// claim of a key that another member or a producer already uses on chain, after which
			// the node rejects its own NextTurnDPOSInfo and the chain halts (observed; not this property).
			for _, mm := range nd.Committee.GetAllMembersCopy() {
				if bytes.Equal(mm.DPOSPublicKey, node.Pub(nk)) {
					k.w.Release(in)
					c.Inc("gen:CRCouncilMemberClaimNode-skipped-key-in-use")
					return nil
				}
			}
			for _, p := range nd.Chain.GetState().GetAllProducers() {
				if bytes.Equal(p.NodePublicKey(), node.Pub(nk)) || bytes.Equal(p.OwnerPublicKey(), node.Pub(nk)) {
					k.w.Release(in)
					c.Inc("gen:CRCouncilMemberClaimNode-skipped-key-in-use")
					return nil
				}
			}
			c.Inc("gen:CRCouncilMemberClaimNode")
			return k.track(node.CRCouncilMemberClaimNode(in, m, nk, payload.CurrentCRClaimDPoSNodeVersion), in)
		}}
}

// ---------- source: DPoS v2 stake / Voting / ReturnVotes / reward claims ----------

func c34SrcStake() *c34Source {
	var k *c34K
	var stakers []*account.Account
	return &c34Source{Name: "stake", Envs: []string{"dposv2"}, Weight: 3,
		Setup: func(c *kit.Ctx, nd *node.Node, r *rand.Rand) error {
			k = c34Kit(c, nd)
			if c34Boot == nil || c34Boot.Staker == nil {
				return fmt.Errorf("no staker")
			}
			stakers = []*account.Account{c34Boot.Staker, c34Boot.Voters[0], c34Boot.Voters[1]}
			// give the two other stake addresses vote rights as well
			var txs []interfaces.Transaction
			for _, s := range stakers[1:] {
				in, ok := k.take(s, node.ELA(1000))
				if !ok {
					return fmt.Errorf("no funds to stake")
				}
				txs = append(txs, k.track(node.ExchangeVotes(in, node.ELA(1000)), in))
			}
			if err := k.submitMine(txs...); err != nil {
				return err
			}
			return nd.MineNDPoS(12) // let DPoS v2 rewards accumulate
		},
		Next: func(c *kit.Ctx, nd *node.Node, r *rand.Rand) interfaces.Transaction {
			k.reclaim()
			s := stakers[r.Intn(len(stakers))]
			st := nd.Chain.GetState()
			switch x := r.Intn(10); {
			case x < 3:
				in, ok := k.take(s, node.ELA(20))
				if !ok {
					return nil
				}
				c.Inc("gen:ExchangeVotes")
				return k.track(node.ExchangeVotes(in, node.ELA(int64(5+r.Intn(10)))), in)
			case x < 6:
				in, ok := k.fee(s)
				if !ok {
					return nil
				}
				var vs []node.V2Vote
				lock := nd.Height() + 1 + 10*c34Boot.Era.V2VoteLock
				for _, ow := range c34Boot.V2Owners {
					if r.Intn(2) == 0 || len(vs) == 0 {
						vs = append(vs, node.V2Vote{OwnerPub: node.Pub(ow), Votes: node.ELA(int64(1 + r.Intn(3))), LockTime: lock})
					}
				}
				c.Inc("gen:Voting")
				return k.track(node.Voting(in, node.V2Votes(vs...)), in)
			case x < 8:
				in, ok := k.fee(s)
				if !ok {
					return nil
				}
				c.Inc("gen:ReturnVotes")
				return k.track(node.ReturnVotes(in, node.ELA(int64(1+r.Intn(3)))), in)
			default:
				amt := st.DPoSV2RewardInfo[node.StakeAddrString(s)]
				fee := nd.Cfg.CRConfiguration.RealWithdrawSingleFee
				if amt <= fee*2 {
					c.Inc("gen:DposV2ClaimReward-no-reward")
					return nil
				}
				in, ok := k.fee(s)
				if !ok {
					return nil
				}
				c.Inc("gen:DposV2ClaimReward")
				return k.track(node.DposV2ClaimReward(in, fee+1+common.Fixed64(r.Intn(int(amt-fee-1)))), in)
			}
		}}
}
